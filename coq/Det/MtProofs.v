(* C07 proofs, part 5: job boundaries do not depend on the schedule; the flushed stream is the in-order
   concatenation of the job outputs. *)
From Coq Require Import ZArith Bool List Lia.
From ZV.Det Require Import MtPartition.
Import ListNotations.
Local Open Scope Z_scope.
Ltac Zify.zify_post_hook ::= Z.div_mod_to_equations.

Definition J (s : mt) : list Z := nonempty_sizes (jobs s).

Lemma nonempty_app : forall l j, nonempty_sizes (l ++ [j]) = nonempty_sizes l ++ (if j_size j >? 0 then [j_size j] else []).
Proof. intros. unfold nonempty_sizes. rewrite map_app, filter_app. cbn. destruct (j_size j >? 0); reflexivity. Qed.

(* ---------- arithmetic of the greedy sections ---------- *)
Lemma repeat_app_Z : forall (t : Z) a b, 0 <= a -> 0 <= b ->
  repeat t (Z.to_nat a) ++ repeat t (Z.to_nat b) = repeat t (Z.to_nat (a + b)).
Proof. intros. rewrite Z2Nat.inj_add by assumption. symmetry. apply repeat_app. Qed.

Lemma sfeed_compose : forall t cl op a b, 0 < t -> 0 <= op -> 0 <= a -> 0 <= b ->
  sfeed t (sfeed t (cl, op) a) b = sfeed t (cl, op) (a + b).
Proof.
  intros t cl op a b Ht Hop Ha Hb. unfold sfeed. cbn [fst snd].
  assert (Hq : (op + a) / t + ((op + a) mod t + b) / t = (op + (a + b)) / t).
  { replace (op + (a + b)) with ((op + a) mod t + b + ((op + a) / t) * t).
    - rewrite Z.div_add by lia. lia.
    - pose proof (Z.div_mod (op + a) t ltac:(lia)). lia. }
  f_equal.
  - rewrite <- app_assoc. f_equal. rewrite repeat_app_Z.
    + f_equal. f_equal. exact Hq.
    + apply Z.div_pos; lia.
    + apply Z.div_pos; [|lia]. pose proof (Z.mod_pos_bound (op + a) t Ht). lia.
  - rewrite Z.add_mod_idemp_l by lia. f_equal. lia.
Qed.

Lemma sfeed_zero : forall t cl, 0 < t -> sfeed t (cl, 0) 0 = (cl, 0).
Proof. intros. unfold sfeed. cbn [fst snd]. rewrite Z.add_0_r, Z.div_0_l, Z.mod_0_l by lia. cbn. rewrite app_nil_r. reflexivity. Qed.

Lemma sfeed_full : forall t cl, 0 < t -> sfeed t (cl, 0) t = (cl ++ [t], 0).
Proof. intros. unfold sfeed. cbn [fst snd]. rewrite Z.add_0_l, Z.div_same, Z.mod_same by lia. reflexivity. Qed.

Lemma sfeed_small : forall t cl f, 0 <= f < t -> sfeed t (cl, 0) f = (cl, f).
Proof. intros. unfold sfeed. cbn [fst snd]. rewrite Z.add_0_l, Z.div_small, Z.mod_small by lia. cbn. rewrite app_nil_r. reflexivity. Qed.

(* ---------- structural invariant ---------- *)
Definition Inv1 (t : Z) (s : mt) : Prop := 0 <= filled s <= t /\ (hasBuf s = false -> filled s = 0).

Lemma create_cases : forall s endOp e,
  let s' := create_job s endOp e in
  (J s' = J s /\ filled s' = filled s /\ hasBuf s' = hasBuf s) \/
  (ready s = false /\ J s' = J s ++ (if filled s >? 0 then [filled s] else []) /\ filled s' = 0 /\ hasBuf s' = false).
Proof.
  intros s endOp e. cbn zeta. unfold create_job.
  destruct (tableFull e); [left; repeat split; reflexivity|].
  destruct (ready s) eqn:HR.
  - left. destruct (workerAvail e); repeat split; reflexivity.
  - right. split; [reflexivity|].
    destruct ((filled s =? 0) && (njobs s >? 0)); [|destruct (workerAvail e)];
      unfold J; cbn [jobs filled hasBuf]; rewrite nonempty_app; cbn [j_size]; repeat split; reflexivity.
Qed.

(* one call: either the canonical relation advances by the bytes consumed (A), or a flush cut closed the open
   section after the last byte of the caller's input (B) *)
Lemma call_step : forall t s r endOp e s' r', 0 < t -> Inv1 t s -> 0 <= r -> mt_call t s r endOp e = (s', r') ->
  Inv1 t s' /\ 0 <= r' <= r /\
  ( sfeed t (J s', 0) (filled s') = sfeed t (sfeed t (J s, 0) (filled s)) (r - r')
    \/ (r' = 0 /\ endOp <> e_continue /\ filled s' = 0 /\
        (J s', 0) = sflush (sfeed t (sfeed t (J s, 0) (filled s)) (r - r'))) ).
Proof.
  intros t s r endOp e s' r' Ht (HF & HB) Hr H. unfold mt_call in H.
  destruct (ended s && (endOp =? e_continue)).
  { injection H as <- <-. split; [split; assumption|]. split; [lia|]. left.
    rewrite Z.sub_diag. rewrite sfeed_compose by lia. f_equal. lia. }
  (* the load step *)
  set (ld := if negb (ready s) && (r >? 0)
             then if hasBuf s || bufAvail e
                  then (mkMt (filled s + Z.min r (t - filled s)) true (ready s) (ended s) (njobs s) (jobs s),
                        r - Z.min r (t - filled s))
                  else (s, r)
             else (s, r)) in *.
  assert (HL : let s1 := fst ld in let r1 := snd ld in
               Inv1 t s1 /\ 0 <= r1 <= r /\ J s1 = J s /\ ready s1 = ready s /\ filled s1 = filled s + (r - r1) /\
               (r1 = 0 \/ filled s1 = t \/ ready s = true \/ filled s1 = 0)).
  { cbn zeta. unfold ld.
    destruct (negb (ready s) && (r >? 0)) eqn:HC.
    - apply andb_true_iff in HC as (HC1 & HC2). apply negb_true_iff in HC1. rewrite Z.gtb_ltb in HC2. apply Z.ltb_lt in HC2.
      destruct (hasBuf s || bufAvail e) eqn:HBF; cbn [fst snd filled hasBuf ready jobs].
      + unfold Inv1, J; cbn [filled hasBuf jobs]. repeat split; try lia; try (intros; discriminate).
      + apply orb_false_iff in HBF as (HBF & _). specialize (HB HBF).
        unfold Inv1. repeat split; try assumption; try lia.
    - cbn [fst snd]. unfold Inv1. repeat split; try assumption; try lia.
      apply andb_false_iff in HC as [HC|HC].
      + apply negb_false_iff in HC. right; right; left. exact HC.
      + rewrite Z.gtb_ltb in HC. apply Z.ltb_ge in HC. left. lia. }
  destruct ld as [s1 r1] eqn:HLD. cbn [fst snd] in HL. cbn zeta in HL.
  destruct HL as ((HF1 & HB1) & Hr1 & HJ1 & HR1 & HFL & HCASE).
  set (endOp1 := if (r1 >? 0) && (endOp =? e_end) then e_flush else endOp) in *.
  assert (HREL : sfeed t (J s1, 0) (filled s1) = sfeed t (sfeed t (J s, 0) (filled s)) (r - r1)).
  { rewrite sfeed_compose by lia. rewrite HJ1, HFL. reflexivity. }
  destruct (ready s1 || (filled s1 >=? t) || (negb (endOp1 =? e_continue) && (filled s1 >? 0))
            || ((endOp1 =? e_end) && negb (ended s1))) eqn:HCOND.
  2:{ injection H as <- <-. split; [split; assumption|]. split; [lia|]. left. exact HREL. }
  injection H as <- <-.
  pose proof (create_cases s1 endOp1 e) as HCC. cbn zeta in HCC.
  destruct HCC as [(HJ & HFc & HBc) | (HRf & HJ & HFc & HBc)].
  - (* nothing prepared *)
    split; [split; [rewrite HFc; assumption | rewrite HBc, HFc; assumption]|]. split; [lia|].
    left. rewrite HJ, HFc. exact HREL.
  - (* a job was prepared from the buffered bytes *)
    split; [split; [rewrite HFc; lia | intros _; exact HFc]|]. split; [lia|].
    rewrite HFc, HJ.
    destruct (Z.eq_dec (filled s1) t) as [Hfull|Hnf].
    + left. rewrite <- HREL, Hfull.
      replace (t >? 0) with true by (symmetry; rewrite Z.gtb_ltb; apply Z.ltb_lt; lia).
      rewrite sfeed_zero, sfeed_full by lia. reflexivity.
    + destruct (Z.eq_dec (filled s1) 0) as [Hz|Hnz].
      * left. rewrite <- HREL, Hz. cbn. rewrite app_nil_r. reflexivity.
      * (* 0 < filled < t : only a flush / end directive with all the input consumed can cut here *)
        assert (Hpos : filled s1 >? 0 = true) by (rewrite Z.gtb_ltb; apply Z.ltb_lt; lia).
        rewrite Hpos.
        assert (Hr10 : r1 = 0).
        { destruct HCASE as [H0|[H0|[H0|H0]]]; try lia. rewrite <- HR1, HRf in H0. discriminate. }
        assert (HE1 : endOp1 = endOp).
        { unfold endOp1. rewrite Hr10. reflexivity. }
        assert (HNC : endOp <> e_continue).
        { intro HX. rewrite HE1, HX in HCOND. rewrite HRf in HCOND.
          replace (filled s1 >=? t) with false in HCOND by (symmetry; rewrite Z.geb_leb; apply Z.leb_gt; lia).
          cbn in HCOND. discriminate. }
        right. rewrite Hr10. repeat split; try reflexivity; try assumption.
        rewrite Z.sub_0_r. rewrite Hr10, Z.sub_0_r in HREL. rewrite <- HREL.
        rewrite sfeed_small by lia. unfold sflush. cbn [fst snd]. rewrite Hpos. reflexivity.
Qed.

(* once the flush cut is done and the input consumed, further calls of the same input call change nothing *)
Lemma call_idle : forall t s endOp e s' r', 0 < t -> Inv1 t s -> filled s = 0 -> mt_call t s 0 endOp e = (s', r') ->
  r' = 0 /\ filled s' = 0 /\ J s' = J s /\ Inv1 t s'.
Proof.
  intros t s endOp e s' r' Ht (HF0 & HB0) HF H. unfold mt_call in H.
  destruct (ended s && (endOp =? e_continue)).
  { injection H as <- <-. repeat split; try assumption; try lia. }
  replace (0 >? 0) with false in H by reflexivity. rewrite andb_false_r in H. cbn [andb] in H.
  match type of H with (if ?c then _ else _) = _ => destruct c end.
  2:{ injection H as <- <-. repeat split; try assumption; try lia. }
  injection H as <- <-.
  pose proof (create_cases s endOp e) as HCC. cbn zeta in HCC.
  destruct HCC as [(HJ & HFc & HBc) | (_ & HJ & HFc & HBc)].
  - rewrite HFc, HJ. unfold Inv1. rewrite HFc, HBc. repeat split; try assumption; try lia.
  - rewrite HFc, HJ, HF. cbn. rewrite app_nil_r. unfold Inv1. rewrite HFc. repeat split; try lia.
Qed.

(* ---------- one input call of the caller, under any schedule ---------- *)
Definition OpRel (t : Z) (s0 : list Z * Z) (n dir : Z) (s : mt) (r : Z) : Prop :=
  0 <= r <= n /\ Inv1 t s /\
  ( sfeed t (J s, 0) (filled s) = sfeed t s0 (n - r)
    \/ (r = 0 /\ dir <> e_continue /\ filled s = 0 /\ (J s, 0) = sflush (sfeed t s0 n)) ).

Lemma run_op_rel : forall t envs cl op n dir s r s' rest, 0 < t -> 0 <= op ->
  OpRel t (cl, op) n dir s r -> run_op t s r dir envs = Some (s', rest) ->
  OpRel t (cl, op) n dir s' 0 /\ op_done s' 0 dir = true.
Proof.
  intros t envs cl op n dir. induction envs as [|e envs IH]; intros s r s' rest Ht Hop HR H; [discriminate|].
  cbn [run_op] in H. destruct (mt_call t s r dir e) as [s1 r1] eqn:HC.
  destruct HR as (Hr & HI & HREL).
  assert (HR1 : OpRel t (cl, op) n dir s1 r1).
  { destruct HREL as [HA | (Hr0 & Hd & Hf & HB)].
    - destruct (call_step t s r dir e s1 r1 Ht HI ltac:(lia) HC) as (HI1 & Hr1 & HX).
      split; [lia|]. split; [exact HI1|].
      destruct HX as [HA' | (Hr10 & Hd & Hf & HB')].
      + left. rewrite HA', HA. rewrite sfeed_compose by lia. f_equal. lia.
      + right. repeat split; try assumption. rewrite HB', HA. rewrite sfeed_compose by lia. do 2 f_equal. lia.
    - subst r. destruct (call_idle t s dir e s1 r1 Ht HI Hf HC) as (Hr1 & Hf1 & HJ1 & HI1).
      split; [lia|]. split; [exact HI1|]. right. repeat split; try assumption. rewrite HJ1. exact HB. }
  destruct (op_done s1 r1 dir) eqn:HD.
  - injection H as <- <-. unfold op_done in HD. apply andb_true_iff in HD as (HD0 & HD1).
    apply Z.eqb_eq in HD0. subst r1. split; [exact HR1|]. unfold op_done. rewrite HD1. reflexivity.
  - apply (IH s1 r1 s' rest Ht Hop HR1 H).
Qed.

Lemma op_post : forall t cl op n dir s, 0 < t -> 0 <= op -> 0 <= n ->
  OpRel t (cl, op) n dir s 0 -> op_done s 0 dir = true ->
  Inv1 t s /\ sfeed t (J s, 0) (filled s) = spec_op t (cl, op) (n, dir).
Proof.
  intros t cl op n dir s Ht Hop Hn (Hr & HI & HREL) HD. split; [exact HI|].
  unfold spec_op. cbn [fst snd]. unfold op_done in HD. cbn [andb Z.eqb] in HD.
  destruct (dir =? e_continue) eqn:HDC.
  - apply Z.eqb_eq in HDC. destruct HREL as [HA | (_ & Hd & _)]; [|contradiction].
    rewrite HA, Z.sub_0_r. reflexivity.
  - cbn [orb] in HD. apply andb_true_iff in HD as (HD & _). apply andb_true_iff in HD as (_ & HF0).
    apply Z.eqb_eq in HF0. rewrite HF0, sfeed_zero by lia.
    destruct HREL as [HA | (_ & _ & _ & HB)]; [|exact HB].
    rewrite HF0, sfeed_zero, Z.sub_0_r in HA by lia. rewrite <- HA. unfold sflush. cbn [fst snd]. reflexivity.
Qed.

Lemma spec_op_canon : forall t st o, 0 < t -> 0 <= snd st < t -> 0 <= fst o -> 0 <= snd (spec_op t st o) < t.
Proof.
  intros t [cl op] [n dir] Ht Hop Hn. unfold spec_op. cbn [fst snd] in *.
  assert (HS : 0 <= snd (sfeed t (cl, op) n) < t) by (unfold sfeed; cbn [fst snd]; apply Z.mod_pos_bound; exact Ht).
  destruct (dir =? e_continue); [exact HS|]. unfold sflush. destruct (snd (sfeed t (cl, op) n) >? 0); cbn [snd]; lia.
Qed.

Lemma run_ops_rel : forall t ops envs s st s', 0 < t -> Forall (fun o => 0 <= fst o) ops ->
  Inv1 t s -> 0 <= snd st < t -> sfeed t (J s, 0) (filled s) = st ->
  run_ops t s ops envs = Some s' ->
  Inv1 t s' /\ sfeed t (J s', 0) (filled s') = fold_left (spec_op t) ops st.
Proof.
  intros t ops. induction ops as [|[n dir] ops IH]; intros envs s st s' Ht HN HI Hst HREL H.
  - injection H as <-. split; assumption.
  - cbn [run_ops] in H. destruct (run_op t s n dir envs) as [[s1 rest]|] eqn:HO; [|discriminate].
    destruct st as [cl op]. cbn [snd] in Hst.
    assert (Hn : 0 <= n) by (inversion HN as [|? ? Hn0 HN0]; exact Hn0).
    assert (HN' : Forall (fun o => 0 <= fst o) ops) by (inversion HN as [|? ? Hn0 HN0]; exact HN0).
    assert (HR0 : OpRel t (cl, op) n dir s n).
    { split; [lia|]. split; [exact HI|]. left. rewrite HREL, Z.sub_diag.
      unfold sfeed. cbn [fst snd]. rewrite Z.add_0_r, Z.div_small, Z.mod_small by lia. cbn. rewrite app_nil_r. reflexivity. }
    destruct (run_op_rel t envs cl op n dir s n s1 rest Ht ltac:(lia) HR0 HO) as (HR1 & HD1).
    destruct (op_post t cl op n dir s1 Ht ltac:(lia) Hn HR1 HD1) as (HI1 & HP1).
    cbn [fold_left]. apply (IH rest s1 (spec_op t (cl, op) (n, dir)) s' Ht HN' HI1).
    + apply spec_op_canon; cbn [fst snd]; lia.
    + exact HP1.
    + exact H.
Qed.

Lemma Inv1_init : forall t, 0 < t -> Inv1 t mt_init.
Proof. intros. unfold Inv1, mt_init; cbn. split; [lia | reflexivity]. Qed.

(* MAIN THEOREM (job boundaries).  For every schedule - every sequence of answers to "is an input buffer available",
   "is the jobs table full", "does the pool accept the job" - under which the caller's input calls complete, the
   non-empty jobs are exactly the greedy sections of the input: a function of the byte counts of the input calls,
   their directives and targetSectionSize.  No worker count appears anywhere. *)
Theorem mt_partition_schedule_independent : forall t ops envs s',
  0 < t -> Forall (fun o => 0 <= fst o) ops ->
  run_ops t mt_init ops envs = Some s' ->
  sfeed t (J s', 0) (filled s') = spec_sections t ops.
Proof.
  intros t ops envs s' Ht HN H.
  apply (run_ops_rel t ops envs mt_init ([], 0) s' Ht HN (Inv1_init t Ht)); [cbn; lia | | exact H].
  unfold J, mt_init. cbn [jobs filled nonempty_sizes map filter]. apply sfeed_zero. exact Ht.
Qed.

Corollary mt_two_schedules : forall t ops envs1 envs2 s1 s2,
  0 < t -> Forall (fun o => 0 <= fst o) ops ->
  run_ops t mt_init ops envs1 = Some s1 -> run_ops t mt_init ops envs2 = Some s2 ->
  filled s1 = 0 -> filled s2 = 0 ->
  nonempty_sizes (jobs s1) = nonempty_sizes (jobs s2).
Proof.
  intros t ops envs1 envs2 s1 s2 Ht HN H1 H2 HF1 HF2.
  pose proof (mt_partition_schedule_independent t ops envs1 s1 Ht HN H1) as E1.
  pose proof (mt_partition_schedule_independent t ops envs2 s2 Ht HN H2) as E2.
  rewrite HF1, sfeed_zero in E1 by lia. rewrite HF2, sfeed_zero in E2 by lia.
  unfold J in *. congruence.
Qed.

(* the overlap each job starts from is a function of the job sizes, hence of the input calls, too *)
Corollary mt_prefixes_two_schedules : forall t p0 ptarget ops envs1 envs2 s1 s2,
  0 < t -> Forall (fun o => 0 <= fst o) ops ->
  run_ops t mt_init ops envs1 = Some s1 -> run_ops t mt_init ops envs2 = Some s2 ->
  filled s1 = 0 -> filled s2 = 0 ->
  job_prefixes p0 ptarget (nonempty_sizes (jobs s1)) = job_prefixes p0 ptarget (nonempty_sizes (jobs s2)).
Proof.
  intros t p0 ptarget ops envs1 envs2 s1 s2 Ht HN H1 H2 HF1 HF2.
  rewrite (mt_two_schedules t ops envs1 envs2 s1 s2 Ht HN H1 H2 HF1 HF2). reflexivity.
Qed.

(* The LAST flag is NOT schedule independent (finding "mt-jobtable-full-last-job"): a full jobs table at the moment
   the buffer becomes exactly full, followed by an end directive without input, turns the pending section into the
   last job; otherwise it is an ordinary job and the end directive adds an empty last job. *)
Example mt_last_flag_schedule_dependent :
  let ops := [(8, e_continue); (0, e_end)] in
  let ok := mkEnv true false true in
  let full := mkEnv true true true in
  option_map (fun s => map (fun j => (j_size j, j_last j)) (jobs s)) (run_ops 8 mt_init ops [ok; ok; ok]) = Some [(8, false); (0, true)] /\
  option_map (fun s => map (fun j => (j_size j, j_last j)) (jobs s)) (run_ops 8 mt_init ops [full; ok; ok]) = Some [(8, true)].
Proof. vm_compute. split; reflexivity. Qed.

Example mt_partition_example :
  let ops := [(5, e_continue); (20, e_continue); (3, e_flush); (7, e_end)] in
  spec_sections 8 ops = ([8; 8; 8; 4; 7], 0) /\
  option_map (fun s => nonempty_sizes (jobs s))
             (run_ops 8 mt_init ops (repeat (mkEnv false true false) 3 ++ [mkEnv true false false; mkEnv true true true] ++
                                     repeat (mkEnv true false true) 20)) = Some [8; 8; 8; 4; 7].
Proof. vm_compute. split; reflexivity. Qed.

(* ---------- in-order flush: the stream handed to the caller ---------- *)
Lemma firstn_add_skipn : forall (A : Type) (l : list A) p n, firstn (p + n) l = firstn p l ++ firstn n (skipn p l).
Proof.
  intros A l. induction l as [|x t IH]; intros p n.
  - rewrite !firstn_nil, skipn_nil, firstn_nil. reflexivity.
  - destruct p as [|p]; [reflexivity|]. cbn [Nat.add firstn skipn app]. rewrite IH. reflexivity.
Qed.

Lemma concat_firstn_S : forall (A : Type) (outs : list (list A)) d o, nth_error outs d = Some o ->
  concat (firstn (S d) outs) = concat (firstn d outs) ++ o.
Proof.
  intros A outs. induction outs as [|x t IH]; intros d o H; [destruct d; discriminate|].
  destruct d as [|d].
  - cbn in H. injection H as ->. cbn. rewrite app_nil_r. reflexivity.
  - cbn [nth_error] in H. rewrite (firstn_cons (S d) x t), (firstn_cons d x t). cbn [concat].
    rewrite (IH d o H). rewrite app_assoc. reflexivity.
Qed.

Definition FInv (outs : list (list Z)) (s : fl) : Prop :=
  fout s = concat (firstn (fdone s) outs) ++ firstn (fpos s) (nth (fdone s) outs []).

Lemma fstep_inv : forall outs s e, FInv outs s -> FInv outs (fstep outs s e).
Proof.
  intros outs s e HI. destruct e as [j k|cap]; cbn [fstep]; [exact HI|].
  destruct (nth_error outs (fdone s)) as [o|] eqn:HO; [|exact HI].
  destruct (nth_error (produced s) (fdone s)) as [p|] eqn:HP; [|exact HI].
  assert (HN : nth (fdone s) outs [] = o) by (apply nth_error_nth; exact HO).
  unfold FInv in *. rewrite HN in HI.
  destruct ((fpos s + Nat.min (p - fpos s) cap =? length o)%nat && (p =? length o)%nat) eqn:HC; cbn [fout fdone fpos].
  - apply andb_true_iff in HC as (HC & _). apply Nat.eqb_eq in HC.
    rewrite HI, <- app_assoc, <- firstn_add_skipn, HC, firstn_all.
    rewrite (concat_firstn_S _ outs (fdone s) o HO). cbn [firstn]. rewrite app_nil_r. reflexivity.
  - rewrite HI, <- app_assoc, <- firstn_add_skipn, HN. reflexivity.
Qed.

(* MAIN THEOREM (in-order flush).  Whatever the interleaving of worker progress and flush attempts and whatever the
   output capacities, what the caller has received is the concatenation of the complete outputs of the jobs already
   released, followed by a prefix of the output of the job being flushed: a prefix of the in-order concatenation;
   and it IS that concatenation once every job has been released. *)
Theorem flush_in_order : forall outs evs,
  let s := frun outs evs in
  fout s = concat (firstn (fdone s) outs) ++ firstn (fpos s) (nth (fdone s) outs []).
Proof.
  intros outs evs. cbn zeta. unfold frun.
  assert (H : forall evs s, FInv outs s -> FInv outs (fold_left (fstep outs) evs s)).
  { induction evs0 as [|e t IH]; intros s HI; [exact HI|]. cbn [fold_left]. apply IH. apply fstep_inv. exact HI. }
  apply H. unfold FInv, fl_init. cbn. reflexivity.
Qed.

Corollary flush_complete : forall outs evs, fdone (frun outs evs) = length outs -> fout (frun outs evs) = concat outs.
Proof.
  intros outs evs H. rewrite (flush_in_order outs evs). cbn zeta. rewrite H, firstn_all.
  rewrite nth_overflow by lia. rewrite firstn_nil, app_nil_r. reflexivity.
Qed.

(* two executions whose job lists agree deliver the same bytes, whatever the worker timing and output capacities;
   [cj] = the (unmodelled) compression of one job, a function of the job description and its data only *)
Theorem mt_output_schedule_independent : forall (cj : job -> list Z) (jobs1 jobs2 : list job) evs1 evs2,
  jobs1 = jobs2 ->
  fdone (frun (map cj jobs1) evs1) = length jobs1 -> fdone (frun (map cj jobs2) evs2) = length jobs2 ->
  fout (frun (map cj jobs1) evs1) = fout (frun (map cj jobs2) evs2).
Proof.
  intros cj jobs1 jobs2 evs1 evs2 -> H1 H2.
  rewrite (flush_complete _ evs1) by (rewrite map_length; exact H1).
  rewrite (flush_complete _ evs2) by (rewrite map_length; exact H2). reflexivity.
Qed.

Example flush_example :
  let outs := [[1; 2; 3]; []; [4; 5]] in
  fout (frun outs [Flush 9; Produce 2 2; Produce 0 2; Flush 1; Flush 5; Produce 0 1; Flush 1; Flush 7; Flush 1; Flush 1]) = [1; 2; 3; 4; 5].
Proof. vm_compute. reflexivity. Qed.
