(* C07 proofs, part 5: job boundaries do not depend on the schedule; the flushed stream is the in-order
   concatenation of the job outputs. *)
From Coq Require Import ZArith Bool List Lia.
From ZV.Det Require Import MtPartition.
Import ListNotations.
Local Open Scope Z_scope.
Ltac Zify.zify_post_hook ::= Z.div_mod_to_equations.

Definition J (s : mt) : list Z := nonempty_sizes (jobs s).

Lemma nonempty_app : forall l j, nonempty_sizes (l ++ [j]) = nonempty_sizes l ++ (if j_size j >? 0 then [j_size j] else []).
Proof. intros. unfold nonempty_sizes. rewrite map_app, filter_app. cbn. destruct (j_size j >? 0); reflexivity. Qed.

(* ---------- arithmetic of the greedy sections ---------- *)
Lemma repeat_app_Z : forall (t : Z) a b, 0 <= a -> 0 <= b ->
  repeat t (Z.to_nat a) ++ repeat t (Z.to_nat b) = repeat t (Z.to_nat (a + b)).
Proof. intros. rewrite Z2Nat.inj_add by assumption. symmetry. apply repeat_app. Qed.

Lemma sfeed_compose : forall t cl op a b, 0 < t -> 0 <= op -> 0 <= a -> 0 <= b ->
  sfeed t (sfeed t (cl, op) a) b = sfeed t (cl, op) (a + b).
Proof.
  intros t cl op a b Ht Hop Ha Hb. unfold sfeed. cbn [fst snd].
  assert (Hq : (op + a) / t + ((op + a) mod t + b) / t = (op + (a + b)) / t).
  { replace (op + (a + b)) with ((op + a) mod t + b + ((op + a) / t) * t).
    - rewrite Z.div_add by lia. lia.
    - pose proof (Z.div_mod (op + a) t ltac:(lia)). lia. }
  f_equal.
  - rewrite <- app_assoc. f_equal. rewrite repeat_app_Z.
    + f_equal. f_equal. exact Hq.
    + apply Z.div_pos; lia.
    + apply Z.div_pos; [|lia]. pose proof (Z.mod_pos_bound (op + a) t Ht). lia.
  - rewrite Z.add_mod_idemp_l by lia. f_equal. lia.
Qed.

Lemma sfeed_zero : forall t cl, 0 < t -> sfeed t (cl, 0) 0 = (cl, 0).
Proof. intros. unfold sfeed. cbn [fst snd]. rewrite Z.add_0_r, Z.div_0_l, Z.mod_0_l by lia. cbn. rewrite app_nil_r. reflexivity. Qed.

Lemma sfeed_full : forall t cl, 0 < t -> sfeed t (cl, 0) t = (cl ++ [t], 0).
Proof. intros. unfold sfeed. cbn [fst snd]. rewrite Z.add_0_l, Z.div_same, Z.mod_same by lia. reflexivity. Qed.

Lemma sfeed_small : forall t cl f, 0 <= f < t -> sfeed t (cl, 0) f = (cl, f).
Proof. intros. unfold sfeed. cbn [fst snd]. rewrite Z.add_0_l, Z.div_small, Z.mod_small by lia. cbn. rewrite app_nil_r. reflexivity. Qed.

(* ---------- structural invariant ---------- *)
Definition Inv1 (t : Z) (s : mt) : Prop := 0 <= filled s <= t /\ (hasBuf s = false -> filled s = 0).

Lemma create_cases : forall s endOp e,
  let s' := create_job s endOp e in
  (J s' = J s /\ filled s' = filled s /\ hasBuf s' = hasBuf s) \/
  (ready s = false /\ J s' = J s ++ (if filled s >? 0 then [filled s] else []) /\ filled s' = 0 /\ hasBuf s' = false).
Proof.
  intros s endOp e. cbn zeta. unfold create_job.
  destruct (tableFull e); [left; repeat split; reflexivity|].
  destruct (ready s) eqn:HR.
  - left. destruct (workerAvail e); repeat split; reflexivity.
  - right. split; [reflexivity|].
    destruct ((filled s =? 0) && (njobs s >? 0)); [|destruct (workerAvail e)];
      unfold J; cbn [jobs filled hasBuf]; rewrite nonempty_app; cbn [j_size]; repeat split; reflexivity.
Qed.

(* one call: either the canonical relation advances by the bytes consumed (A), or a flush cut closed the open
   section after the last byte of the caller's input (B) *)
Lemma call_step : forall t s r endOp e s' r', 0 < t -> Inv1 t s -> 0 <= r -> mt_call t s r endOp e = (s', r') ->
  Inv1 t s' /\ 0 <= r' <= r /\
  ( sfeed t (J s', 0) (filled s') = sfeed t (sfeed t (J s, 0) (filled s)) (r - r')
    \/ (r' = 0 /\ endOp <> e_continue /\ filled s' = 0 /\
        (J s', 0) = sflush (sfeed t (sfeed t (J s, 0) (filled s)) (r - r'))) ).
Proof.
  intros t s r endOp e s' r' Ht (HF & HB) Hr H. unfold mt_call in H.
  destruct (ended s && (endOp =? e_continue)).
  { injection H as <- <-. split; [split; assumption|]. split; [lia|]. left.
    rewrite Z.sub_diag. rewrite sfeed_compose by lia. f_equal. lia. }
  (* the load step *)
  set (ld := if negb (ready s) && (r >? 0)
             then if hasBuf s || bufAvail e
                  then (mkMt (filled s + Z.min r (t - filled s)) true (ready s) (ended s) (njobs s) (jobs s),
                        r - Z.min r (t - filled s))
                  else (s, r)
             else (s, r)) in *.
  assert (HL : let s1 := fst ld in let r1 := snd ld in
               Inv1 t s1 /\ 0 <= r1 <= r /\ J s1 = J s /\ ready s1 = ready s /\ filled s1 = filled s + (r - r1) /\
               (r1 = 0 \/ filled s1 = t \/ ready s = true \/ filled s1 = 0)).
  { cbn zeta. unfold ld.
    destruct (negb (ready s) && (r >? 0)) eqn:HC.
    - apply andb_true_iff in HC as (HC1 & HC2). apply negb_true_iff in HC1. rewrite Z.gtb_ltb in HC2. apply Z.ltb_lt in HC2.
      destruct (hasBuf s || bufAvail e) eqn:HBF; cbn [fst snd filled hasBuf ready jobs].
      + unfold Inv1, J; cbn [filled hasBuf jobs]. repeat split; try lia; try (intros; discriminate).
      + apply orb_false_iff in HBF as (HBF & _). specialize (HB HBF).
        unfold Inv1. repeat split; try assumption; try lia.
    - cbn [fst snd]. unfold Inv1. repeat split; try assumption; try lia.
      apply andb_false_iff in HC as [HC|HC].
      + apply negb_false_iff in HC. right; right; left. exact HC.
      + rewrite Z.gtb_ltb in HC. apply Z.ltb_ge in HC. left. lia. }
  destruct ld as [s1 r1] eqn:HLD. cbn [fst snd] in HL. cbn zeta in HL.
  destruct HL as ((HF1 & HB1) & Hr1 & HJ1 & HR1 & HFL & HCASE).
  set (endOp1 := if (r1 >? 0) && (endOp =? e_end) then e_flush else endOp) in *.
  assert (HREL : sfeed t (J s1, 0) (filled s1) = sfeed t (sfeed t (J s, 0) (filled s)) (r - r1)).
  { rewrite sfeed_compose by lia. rewrite HJ1, HFL. reflexivity. }
  destruct (ready s1 || (filled s1 >=? t) || (negb (endOp1 =? e_continue) && (filled s1 >? 0))
            || ((endOp1 =? e_end) && negb (ended s1))) eqn:HCOND.
  2:{ injection H as <- <-. split; [split; assumption|]. split; [lia|]. left. exact HREL. }
  injection H as <- <-.
  pose proof (create_cases s1 endOp1 e) as HCC. cbn zeta in HCC.
  destruct HCC as [(HJ & HFc & HBc) | (HRf & HJ & HFc & HBc)].
  - (* nothing prepared *)
    split; [split; [rewrite HFc; assumption | rewrite HBc, HFc; assumption]|]. split; [lia|].
    left. rewrite HJ, HFc. exact HREL.
  - (* a job was prepared from the buffered bytes *)
    split; [split; [rewrite HFc; lia | intros _; exact HFc]|]. split; [lia|].
    rewrite HFc, HJ.
    destruct (Z.eq_dec (filled s1) t) as [Hfull|Hnf].
    + left. rewrite <- HREL, Hfull.
      replace (t >? 0) with true by (symmetry; rewrite Z.gtb_ltb; apply Z.ltb_lt; lia).
      rewrite sfeed_zero, sfeed_full by lia. reflexivity.
    + destruct (Z.eq_dec (filled s1) 0) as [Hz|Hnz].
      * left. rewrite <- HREL, Hz. cbn. rewrite app_nil_r. reflexivity.
      * (* 0 < filled < t : only a flush / end directive with all the input consumed can cut here *)
        assert (Hpos : filled s1 >? 0 = true) by (rewrite Z.gtb_ltb; apply Z.ltb_lt; lia).
        rewrite Hpos.
        assert (Hr10 : r1 = 0).
        { destruct HCASE as [H0|[H0|[H0|H0]]]; try lia. rewrite <- HR1, HRf in H0. discriminate. }
        assert (HE1 : endOp1 = endOp).
        { unfold endOp1. rewrite Hr10. reflexivity. }
        assert (HNC : endOp <> e_continue).
        { intro HX. rewrite HE1, HX in HCOND. rewrite HRf in HCOND.
          replace (filled s1 >=? t) with false in HCOND by (symmetry; rewrite Z.geb_leb; apply Z.leb_gt; lia).
          cbn in HCOND. discriminate. }
        right. rewrite Hr10. repeat split; try reflexivity; try assumption.
        rewrite Z.sub_0_r. rewrite Hr10, Z.sub_0_r in HREL. rewrite <- HREL.
        rewrite sfeed_small by lia. unfold sflush. cbn [fst snd]. rewrite Hpos. reflexivity.
Qed.

(* once the flush cut is done and the input consumed, further calls of the same input call change nothing *)
Lemma call_idle : forall t s endOp e s' r', 0 < t -> Inv1 t s -> filled s = 0 -> mt_call t s 0 endOp e = (s', r') ->
  r' = 0 /\ filled s' = 0 /\ J s' = J s /\ Inv1 t s'.
Proof.
  intros t s endOp e s' r' Ht (HF0 & HB0) HF H. unfold mt_call in H.
  destruct (ended s && (endOp =? e_continue)).
  { injection H as <- <-. repeat split; try assumption; try lia. }
  replace (0 >? 0) with false in H by reflexivity. rewrite andb_false_r in H. cbn [andb] in H.
  match type of H with (if ?c then _ else _) = _ => destruct c end.
  2:{ injection H as <- <-. repeat split; try assumption; try lia. }
  injection H as <- <-.
  pose proof (create_cases s endOp e) as HCC. cbn zeta in HCC.
  destruct HCC as [(HJ & HFc & HBc) | (_ & HJ & HFc & HBc)].
  - rewrite HFc, HJ. unfold Inv1. rewrite HFc, HBc. repeat split; try assumption; try lia.
  - rewrite HFc, HJ, HF. cbn. rewrite app_nil_r. unfold Inv1. rewrite HFc. repeat split; try lia.
Qed.
