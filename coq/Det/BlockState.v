(* C07 model, part 8: the parts of a compression context that a reset simply OVERWRITES with constants.
   Source: lib/compress/zstd_compress.c  ZSTD_reset_compressedBlockState (repcodes = repStartValue, every entropy
           repeat mode = none), called on prevCBlock by ZSTD_resetCCtx_internal; the LDM part of
           ZSTD_resetCCtx_internal (hash table and bucket offsets memset to 0, ZSTD_window_init, loadedDictEnd = 0).
   NO proofs in this file. *)
From Coq Require Import ZArith NArith Bool List.
From ZV.Gen Require Import Gen_Tables.
From ZV.Index Require Import Window.
Import ListNotations.
Local Open Scope Z_scope.

Record cbstate : Type := mkCB {
  cb_rep : list Z;          (* rep[ZSTD_REP_NUM] *)
  cb_huf : Z;               (* entropy.huf.repeatMode            (HUF_repeat_none = 0) *)
  cb_of : Z;                (* entropy.fse.offcode_repeatMode     (FSE_repeat_none = 0) *)
  cb_ml : Z;                (* entropy.fse.matchlength_repeatMode *)
  cb_ll : Z                 (* entropy.fse.litlength_repeatMode *)
}.

Definition reset_cbstate (s : cbstate) : cbstate := mkCB (map Z.of_N repStartValue) 0 0 0 0.

Record ldmstate : Type := mkLdm {
  l_end : Z;                (* window.nextSrc - window.base *)
  l_low : Z; l_dict : Z;    (* window.lowLimit, window.dictLimit *)
  l_lde : Z;                (* loadedDictEnd *)
  l_table : list Z;         (* hashTable, one entry per byte *)
  l_buckets : list Z        (* bucketOffsets *)
}.

(* ZSTD_resetCCtx_internal, "ldm hash table" + "ldm bucketOffsets table" blocks *)
Definition reset_ldm (s : ldmstate) (tableBytes nbBuckets : nat) : ldmstate :=
  mkLdm START START START 0 (repeat 0 tableBytes) (repeat 0 nbBuckets).

Definition cb_fields (s : cbstate) : list Z := cb_rep s ++ [cb_huf s; cb_of s; cb_ml s; cb_ll s].
Definition ldm_fields (s : ldmstate) : list Z :=
  [l_end s; l_low s; l_dict s; l_lde s;
   Z.of_nat (length (filter (fun b => negb (b =? 0)) (l_table s ++ l_buckets s)))].
