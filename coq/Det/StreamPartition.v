(* C07 model, part 7: how buffered streaming compression cuts the input into the chunks it hands to the block
   compressor (ZSTD_compressContinue / ZSTD_compressEnd), one physical ZSTD_compressStream2 call at a time.
   Source: lib/compress/zstd_compress.c  ZSTD_compressStream_generic (zcss_load: the ZSTD_e_end shortcut, loading into
           inBuff up to inBuffTarget, the "not enough input" / "empty flush" stops, lastBlock, the input ring wrap,
           cDst = op or outBuff; zcss_flush), ZSTD_CCtx_init_compressStream2 (inBuffPos = inToCompress = 0,
           inBuffTarget = blockSize + (blockSize == pledgedSrcSize)), ZSTD_compressStream2 (return value 0).
   Only SIZES are modelled (buffered input mode, nbWorkers = 0).  Everything the output side decides - is the
   capacity >= ZSTD_compressBound(remaining input) (the shortcut), >= ZSTD_compressBound(chunk) (compress straight into
   dst), was the context's output buffer drained by this call - is an ORACLE consulted once per loop iteration.
   Theorems quantify over all oracles = all capacity sequences and all compressed sizes.  NO proofs in this file. *)
From Coq Require Import ZArith Bool List.
Import ListNotations.
Local Open Scope Z_scope.

Definition s_continue : Z := 0.
Definition s_flush : Z := 1.
Definition s_end : Z := 2.

Record sst : Type := mkS {
  s_pos : Z;            (* inBuffPos *)
  s_toc : Z;            (* inToCompress *)
  s_tgt : Z;            (* inBuffTarget *)
  s_flushing : bool;    (* streamStage == zcss_flush: compressed bytes wait in outBuff *)
  s_ended : bool;       (* frameEnded, while the last block is still being flushed *)
  s_chunks : list (Z * bool)   (* every (srcSize, last) handed to the block compressor so far, all frames *)
}.

(* a context whose next call starts a frame (streamStage == zcss_init -> transparent initialisation) *)
Definition s_init (t0 : Z) (chunks : list (Z * bool)) : sst := mkS 0 0 t0 false false chunks.

Record senv : Type := mkSE {
  fits : bool;      (* oend - op >= ZSTD_compressBound(iend - ip) *)
  direct : bool;    (* oend - op >= ZSTD_compressBound(chunk): compressed into dst, no flush stage *)
  drained : bool    (* the flush stage copied everything that was pending *)
}.

Inductive sres : Type :=
| SCont (s : sst) (r : Z)     (* someMoreWork stays 1 *)
| SStop (s : sst) (r : Z).    (* the call returns *)

(* the flush stage *)
Definition flush_stage (B t0 : Z) (s : sst) (r : Z) (e : senv) : sres :=
  if negb (drained e) then SStop s r
  else if s_ended s then SStop (s_init t0 (s_chunks s)) r       (* ZSTD_CCtx_reset(session_only) *)
  else SCont (mkS (s_pos s) (s_toc s) (s_tgt s) false false (s_chunks s)) r.

(* one iteration of the while(someMoreWork) loop; B = blockSize, IS = inBuffSize, t0 = first inBuffTarget *)
Definition s_iter (B IS t0 : Z) (s : sst) (r dir : Z) (e : senv) : sres :=
  if s_flushing s then flush_stage B t0 s r e else
  if (dir =? s_end) && fits e && (s_pos s =? 0) then
    (* shortcut: ZSTD_compressEnd on the caller's buffer *)
    SStop (s_init t0 (s_chunks s ++ [(r, true)])) 0
  else
    let k := Z.min r (s_tgt s - s_pos s) in
    let pos := s_pos s + k in
    let r1 := r - k in
    if (dir =? s_continue) && (pos <? s_tgt s) then SStop (mkS pos (s_toc s) (s_tgt s) false false (s_chunks s)) r1
    else if (dir =? s_flush) && (pos =? s_toc s) then SStop (mkS pos (s_toc s) (s_tgt s) false false (s_chunks s)) r1
    else
      let iSize := pos - s_toc s in
      let last := (dir =? s_end) && (r1 =? 0) in
      let tgt1 := pos + B in
      let pos2 := if tgt1 >? IS then 0 else pos in
      let tgt2 := if tgt1 >? IS then B else tgt1 in
      let chunks := s_chunks s ++ [(iSize, last)] in
      if direct e then
        if last then SStop (s_init t0 chunks) r1
        else SCont (mkS pos2 pos2 tgt2 false false chunks) r1
      else flush_stage B t0 (mkS pos2 pos2 tgt2 true last chunks) r1 e.

(* one physical call: iterate until the loop stops; every iteration consumes one oracle answer *)
Fixpoint s_call (B IS t0 : Z) (s : sst) (r dir : Z) (envs : list senv) : option (sst * Z * list senv) :=
  match envs with
  | [] => None
  | e :: rest =>
      match s_iter B IS t0 s r dir e with
      | SStop s1 r1 => Some (s1, r1, rest)
      | SCont s1 r1 => s_call B IS t0 s1 r1 dir rest
      end
  end.

(* the caller's side of one input piece (n bytes, directive): call again until the input is consumed and, for
   flush / end, until ZSTD_compressStream2 returns 0 (nothing pending in outBuff; for end: the frame is complete,
   i.e. the context is back in its initial stage).  [fr] counts the frames completed before this piece. *)
Definition frames_done (s : sst) : Z := Z.of_nat (length (filter (fun c => snd c) (s_chunks s))).
Definition piece_done (s : sst) (r dir : Z) (fr0 : Z) : bool :=
  (r =? 0) &&
  ((dir =? s_continue) || (negb (s_flushing s) && ((dir =? s_flush) || (fr0 <? frames_done s)))).

Fixpoint s_piece (fuel : nat) (B IS t0 : Z) (s : sst) (r dir : Z) (fr0 : Z) (envs : list senv) : option (sst * list senv) :=
  match fuel with
  | O => None
  | S f =>
      match s_call B IS t0 s r dir envs with
      | None => None
      | Some (s1, r1, rest) =>
          if piece_done s1 r1 dir fr0 then Some (s1, rest) else s_piece f B IS t0 s1 r1 dir fr0 rest
      end
  end.

Fixpoint s_run (B IS t0 : Z) (s : sst) (ps : list (Z * Z)) (envs : list senv) : option sst :=
  match ps with
  | [] => Some s
  | (n, dir) :: t =>
      match s_piece (S (length envs)) B IS t0 s n dir (frames_done s) envs with
      | Some (s1, rest) => s_run B IS t0 s1 t rest
      | None => None
      end
  end.

(* ---------- specification: the chunk list as a function of the pieces only ---------- *)
(* state: (closed chunks, bytes buffered and not yet handed over); the buffered count is always < B *)
Definition full_chunks (B : Z) (k : Z) : list (Z * bool) := repeat (B, false) (Z.to_nat k).
Definition sp_piece (B : Z) (st : list (Z * bool) * Z) (p : Z * Z) : list (Z * bool) * Z :=
  let T := snd st + fst p in
  if snd p =? s_continue then (fst st ++ full_chunks B (T / B), T mod B)
  else if snd p =? s_flush then
    (fst st ++ full_chunks B (T / B) ++ (if T mod B >? 0 then [(T mod B, false)] else []), 0)
  else
    if T =? 0 then (fst st ++ [(0, true)], 0)
    else let k := (T + B - 1) / B in (fst st ++ full_chunks B (k - 1) ++ [(T - (k - 1) * B, true)], 0).
Definition sp_run (B : Z) (ps : list (Z * Z)) : list (Z * bool) * Z := fold_left (sp_piece B) ps ([], 0).

(* no oracle answer ever allows the shortcut (e.g. every capacity < 64 <= ZSTD_compressBound(anything)) *)
Definition no_shortcut (envs : list senv) : Prop := Forall (fun e => fits e = false) envs.
