(* C07 proofs, part 7: the chunks handed to the block compressor by buffered streaming are a function of the input
   pieces only - not of the output capacities, not of the compressed sizes - as long as the ZSTD_e_end shortcut is
   not taken; with the shortcut they are not (machine-checked witness of finding cstream-end-shortcut-outcap). *)
From Coq Require Import ZArith Bool List Lia.
From ZV.Det Require Import StreamPartition.
Import ListNotations.
Local Open Scope Z_scope.

Definition s_filled (s : sst) : Z := s_pos s - s_toc s.

(* ---------- arithmetic ---------- *)
Lemma div_add_block : forall B r, 0 < B -> 0 <= r -> (B + r) / B = 1 + r / B /\ (B + r) mod B = r mod B.
Proof.
  intros B r HB Hr. replace (B + r) with (r + 1 * B) by lia.
  rewrite Z.div_add, Z.mod_add by lia. split; lia.
Qed.
Lemma div_small : forall B T, 0 <= T < B -> T / B = 0 /\ T mod B = T.
Proof. intros. split; [apply Z.div_small | apply Z.mod_small]; lia. Qed.
Lemma ceil_one : forall B T, 0 < T <= B -> (T + B - 1) / B = 1.
Proof.
  intros B T H. replace (T + B - 1) with (1 * B + (T - 1)) by lia.
  rewrite Z.div_add_l by lia. rewrite Z.div_small by lia. lia.
Qed.
Lemma ceil_add_block : forall B r, 0 < B -> 0 < r -> (B + r + B - 1) / B = 1 + (r + B - 1) / B /\ 1 <= (r + B - 1) / B.
Proof.
  intros B r HB Hr. replace (B + r + B - 1) with (1 * B + (r + B - 1)) by lia.
  rewrite Z.div_add_l by lia. split; [lia|].
  apply Z.div_le_lower_bound; lia.
Qed.
Lemma full_chunks_succ : forall B q, 0 <= q -> full_chunks B (1 + q) = (B, false) :: full_chunks B q.
Proof. intros B q Hq. unfold full_chunks. replace (Z.to_nat (1 + q)) with (S (Z.to_nat q)) by lia. reflexivity. Qed.
Lemma full_chunks_zero : forall B, full_chunks B 0 = []. Proof. reflexivity. Qed.

(* ---------- frames_done ---------- *)
Lemma frames_done_app : forall s_ch x l,
  Z.of_nat (length (filter (fun c : Z * bool => snd c) (s_ch ++ [(x, l)]))) =
  Z.of_nat (length (filter (fun c : Z * bool => snd c) s_ch)) + (if l then 1 else 0).
Proof.
  intros. rewrite filter_app, app_length. cbn [filter snd]. destruct l; cbn [length]; lia.
Qed.

(* ---------- invariant and the relation with the specification ---------- *)
Definition SInv (B : Z) (s : sst) : Prop :=
  0 <= s_filled s < B /\ s_tgt s - s_toc s = B /\ (s_ended s = true -> s_flushing s = true).

Definition Pending (B dir fr0 : Z) (target : list (Z * bool) * Z) (s : sst) (r : Z) : Prop :=
  frames_done s = fr0 /\ s_ended s = false /\ sp_piece B (s_chunks s, s_filled s) (r, dir) = target.
Definition Finished (dir fr0 : Z) (target : list (Z * bool) * Z) (s : sst) (r : Z) : Prop :=
  dir = s_end /\ fr0 < frames_done s /\ r = 0 /\ (s_chunks s, 0) = target /\ s_filled s = 0 /\
  (s_flushing s = true -> s_ended s = true).
Definition PRel B dir fr0 target s r : Prop := Pending B dir fr0 target s r \/ Finished dir fr0 target s r.

Definition res_state (x : sres) : sst := match x with SCont s _ => s | SStop s _ => s end.
Definition res_rem (x : sres) : Z := match x with SCont _ r => r | SStop _ r => r end.
Definition is_stop (x : sres) : bool := match x with SStop _ _ => true | _ => false end.

Lemma SInv_init : forall B ch, 0 < B -> SInv B (s_init B ch).
Proof. intros. unfold SInv, s_init, s_filled; cbn. repeat split; try lia; try (intros; discriminate). Qed.

Lemma dir_cases : forall dir, dir = s_continue \/ dir = s_flush \/ dir = s_end \/ (dir <> s_continue /\ dir <> s_flush /\ dir <> s_end).
Proof. intros. unfold s_continue, s_flush, s_end. lia. Qed.

(* the flush stage changes neither the chunks nor the buffered input *)
Lemma flush_stage_facts : forall B s r e,
  let x := flush_stage B B s r e in
  s_chunks (res_state x) = s_chunks s /\ res_rem x = r /\
  (drained e = false -> x = SStop s r) /\
  (drained e = true -> s_ended s = true -> x = SStop (s_init B (s_chunks s)) r) /\
  (drained e = true -> s_ended s = false -> x = SCont (mkS (s_pos s) (s_toc s) (s_tgt s) false false (s_chunks s)) r).
Proof.
  intros B s r e. cbn zeta. unfold flush_stage.
  destruct (drained e); cbn [negb].
  - destruct (s_ended s); cbn; repeat split; try reflexivity; intros; try discriminate.
  - cbn. repeat split; try reflexivity; intros; discriminate.
Qed.


(* what follows the hand-over of a chunk: straight into dst, or through the flush stage *)
Definition tail (B pos2 tgt2 : Z) (chunks' : list (Z * bool)) (last : bool) (r1 : Z) (e : senv) : sres :=
  if direct e then
    if last then SStop (s_init B chunks') r1 else SCont (mkS pos2 pos2 tgt2 false false chunks') r1
  else flush_stage B B (mkS pos2 pos2 tgt2 true last chunks') r1 e.

Lemma tail_shape : forall B pos2 tgt2 chunks' last r1 e,
  let x := tail B pos2 tgt2 chunks' last r1 e in
  (last = false /\ x = SCont (mkS pos2 pos2 tgt2 false false chunks') r1) \/
  (last = true /\ x = SStop (s_init B chunks') r1) \/
  x = SStop (mkS pos2 pos2 tgt2 true last chunks') r1.
Proof.
  intros B pos2 tgt2 chunks' last r1 e. cbn zeta. unfold tail, flush_stage. cbn [s_ended s_chunks s_pos s_toc s_tgt].
  destruct (direct e).
  - destruct last; [right; left | left]; split; reflexivity.
  - destruct (drained e); cbn [negb].
    + destruct last; [right; left | left]; split; reflexivity.
    + right; right; reflexivity.
Qed.

Lemma tail_ok : forall B dir fr0 target pos2 tgt2 chunks' (last : bool) r0 r1 e,
  0 < B -> tgt2 - pos2 = B -> 0 <= r1 <= r0 ->
  Z.of_nat (length (filter (fun c : Z * bool => snd c) chunks')) = fr0 + (if last then 1 else 0) ->
  (last = true -> dir = s_end /\ r1 = 0 /\ (chunks', 0) = target) ->
  (last = false -> sp_piece B (chunks', 0) (r1, dir) = target) ->
  let x := tail B pos2 tgt2 chunks' last r1 e in
  SInv B (res_state x) /\ 0 <= res_rem x <= r0 /\ PRel B dir fr0 target (res_state x) (res_rem x) /\
  (is_stop x = false -> Pending B dir fr0 target (res_state x) (res_rem x) /\ s_flushing (res_state x) = false) /\
  (is_stop x = true -> dir = s_flush -> s_flushing (res_state x) = false -> res_rem x = 0 /\ s_filled (res_state x) = 0).
Proof.
  intros B dir fr0 target pos2 tgt2 chunks' last r0 r1 e HB HT Hr Hfd HL HNL. cbn zeta.
  destruct (tail_shape B pos2 tgt2 chunks' last r1 e) as [(Hl & ->) | [(Hl & ->) | ->]]; cbn [res_state res_rem is_stop].
  - (* continue the loop *)
    specialize (HNL Hl). subst last.
    assert (HP : Pending B dir fr0 target (mkS pos2 pos2 tgt2 false false chunks') r1).
    { unfold Pending, frames_done, s_filled; cbn [s_chunks s_pos s_toc s_ended]. rewrite Z.sub_diag. repeat split; try assumption; lia. }
    split; [unfold SInv, s_filled; cbn; repeat split; try lia; intros; discriminate|]. split; [lia|].
    split; [left; exact HP|]. split; [intros _; split; [exact HP | reflexivity]|]. intros; discriminate.
  - (* frame complete *)
    destruct (HL Hl) as (Hd & Hr1 & Heq). subst last.
    split; [apply SInv_init; exact HB|]. split; [lia|].
    split.
    + right. unfold Finished, frames_done, s_filled, s_init; cbn [s_chunks s_pos s_toc s_flushing s_ended].
      repeat split; try assumption; try lia; intros; discriminate.
    + split; [intros; discriminate|]. intros _ Hdf. rewrite Hd in Hdf. unfold s_end, s_flush in Hdf. lia.
  - (* output not drained: the call returns in the flush stage *)
    split; [unfold SInv, s_filled; cbn; repeat split; try lia; intros; reflexivity|]. split; [lia|].
    split.
    + destruct last.
      * destruct (HL eq_refl) as (Hd & Hr1 & Heq). right.
        unfold Finished, frames_done, s_filled; cbn [s_chunks s_pos s_toc s_flushing s_ended].
        repeat split; try assumption; try lia; intros; reflexivity.
      * left. unfold Pending, frames_done, s_filled; cbn [s_chunks s_pos s_toc s_ended]. rewrite Z.sub_diag.
        repeat split; try lia. exact (HNL eq_refl).
    + split; [intros; discriminate|]. intros _ _ Hx. cbn in Hx. discriminate.
Qed.

Lemma s_iter_unfold : forall B IS s r dir e, s_flushing s = false -> fits e = false ->
  s_iter B IS B s r dir e =
  let k := Z.min r (s_tgt s - s_pos s) in
  let pos := s_pos s + k in
  let r1 := r - k in
  if (dir =? s_continue) && (pos <? s_tgt s) then SStop (mkS pos (s_toc s) (s_tgt s) false false (s_chunks s)) r1
  else if (dir =? s_flush) && (pos =? s_toc s) then SStop (mkS pos (s_toc s) (s_tgt s) false false (s_chunks s)) r1
  else
    let tgt1 := pos + B in
    let last := (dir =? s_end) && (r1 =? 0) in
    tail B (if tgt1 >? IS then 0 else pos) (if tgt1 >? IS then B else tgt1)
         (s_chunks s ++ [(pos - s_toc s, last)]) last r1 e.
Proof.
  intros B IS s r dir e HFL Hfits. unfold s_iter, tail. rewrite HFL, Hfits, andb_false_r. cbn [andb]. reflexivity.
Qed.

(* one loop iteration keeps the invariant and the relation *)
Lemma iter_step : forall B IS dir fr0 target s r e,
  0 < B -> (dir = s_continue \/ dir = s_flush \/ dir = s_end) -> fits e = false ->
  SInv B s -> 0 <= r -> PRel B dir fr0 target s r ->
  (Finished dir fr0 target s r -> s_flushing s = true) ->
  let x := s_iter B IS B s r dir e in
  SInv B (res_state x) /\ 0 <= res_rem x <= r /\ PRel B dir fr0 target (res_state x) (res_rem x) /\
  (is_stop x = false -> Pending B dir fr0 target (res_state x) (res_rem x) /\ s_flushing (res_state x) = false) /\
  (is_stop x = true -> dir = s_flush -> s_flushing (res_state x) = false -> res_rem x = 0 /\ s_filled (res_state x) = 0).
Proof.
  intros B IS dir fr0 target s r e HB Hdir Hfits HINV Hr HREL HFIN. cbn zeta.
  pose proof HINV as (HF & HT & HEF).
  destruct (s_flushing s) eqn:HFL.
  { (* flush stage only *)
    unfold s_iter. rewrite HFL.
    pose proof (flush_stage_facts B s r e) as (HC & HR & H0 & H1 & H2). cbn zeta in *.
    destruct (drained e) eqn:HD.
    - destruct (s_ended s) eqn:HEN.
      + rewrite (H1 eq_refl eq_refl). cbn [res_state res_rem is_stop].
        split; [apply SInv_init; exact HB|]. split; [lia|].
        destruct HREL as [(_ & HX & _) | (Hd & Hfr & Hr0 & Heq & Hf0 & Himp)]; [congruence|].
        split.
        * right. unfold Finished, s_init, s_filled; cbn. repeat split; try assumption; try lia; try (intros; discriminate).
        * split; [intros; discriminate|]. intros _ Hdf. subst dir. unfold s_flush, s_end in Hdf. lia.
      + rewrite (H2 eq_refl eq_refl). cbn [res_state res_rem is_stop].
        split; [unfold SInv, s_filled in *; cbn; repeat split; try lia; intros; discriminate|]. split; [lia|].
        destruct HREL as [(Hfr & HX & Heq) | HFi].
        * assert (HP : Pending B dir fr0 target (mkS (s_pos s) (s_toc s) (s_tgt s) false false (s_chunks s)) r).
          { unfold Pending, frames_done, s_filled in *; cbn. repeat split; assumption. }
          split; [left; exact HP|]. split; [intros _; split; [exact HP | reflexivity]|]. intros; discriminate.
        * destruct HFi as (_ & _ & _ & _ & _ & Himp). specialize (Himp HFL). congruence.
    - rewrite (H0 eq_refl). cbn [res_state res_rem is_stop].
      split; [exact HINV|]. split; [lia|]. split; [exact HREL|].
      split; [intros; discriminate|]. intros _ _ Hx. congruence. }
  (* load / compress *)
  destruct HREL as [(Hfr & HEN & Heq) | HFi]; [| specialize (HFIN HFi); discriminate].
  rewrite (s_iter_unfold B IS s r dir e HFL Hfits). cbn zeta.
  unfold s_filled in HF.
  set (b := s_pos s - s_toc s) in *.
  assert (Htp : s_tgt s - s_pos s = B - b) by (unfold b; lia).
  rewrite Htp.
  set (k := Z.min r (B - b)).
  assert (Hk : 0 <= k <= r /\ k <= B - b /\ (k = r \/ k = B - b)) by (unfold k; lia).
  assert (Hltb : (s_pos s + k <? s_tgt s) = (b + k <? B)).
  { destruct (Z.ltb_spec (s_pos s + k) (s_tgt s)); destruct (Z.ltb_spec (b + k) B); try reflexivity; unfold b in *; lia. }
  assert (Heqb : (s_pos s + k =? s_toc s) = (b + k =? 0)).
  { destruct (Z.eqb_spec (s_pos s + k) (s_toc s)); destruct (Z.eqb_spec (b + k) 0); try reflexivity; unfold b in *; lia. }
  rewrite Hltb, Heqb.
  replace (s_pos s + k - s_toc s) with (b + k) by (unfold b; lia).
  unfold s_filled in Heq. fold b in Heq.
  assert (Hfd0 : Z.of_nat (length (filter (fun c : Z * bool => snd c) (s_chunks s))) = fr0) by exact Hfr.
  destruct Hdir as [-> | [-> | ->]].
  - (* ZSTD_e_continue *)
    change (s_continue =? s_continue) with true. change (s_continue =? s_flush) with false.
    change (s_continue =? s_end) with false. cbn [andb].
    unfold sp_piece in Heq. cbn [fst snd] in Heq. change (s_continue =? s_continue) with true in Heq. cbn iota in Heq.
    destruct (Z.ltb_spec (b + k) B) as [Hlt | Hge].
    + (* not enough input for a block *)
      cbn [res_state res_rem is_stop].
      assert (Hkr : k = r) by lia.
      split; [unfold SInv, s_filled; cbn; repeat split; try lia; intros; discriminate|]. split; [lia|].
      split; [|split; [intros; discriminate | intros _ Hx; unfold s_continue, s_flush in Hx; lia]].
      left. unfold Pending, frames_done, s_filled; cbn [s_chunks s_pos s_toc s_ended].
      repeat split; try assumption.
      unfold sp_piece. cbn [fst snd]. change (s_continue =? s_continue) with true. cbn iota.
      rewrite <- Heq. replace (s_pos s + k - s_toc s + (r - k)) with (b + r) by (unfold b; lia). reflexivity.
    + (* a full block *)
      assert (Hbk : b + k = B) by lia.
      apply (tail_ok B s_continue fr0 target _ _ _ false r (r - k) e HB).
      * destruct (s_pos s + k + B >? IS); lia.
      * lia.
      * rewrite frames_done_app. lia.
      * intros; discriminate.
      * intros _. unfold sp_piece. cbn [fst snd]. change (s_continue =? s_continue) with true. cbn iota.
        rewrite <- Heq. rewrite Hbk.
        destruct (div_add_block B (r - k) HB ltac:(lia)) as (Hd & Hm).
        replace (b + r) with (B + (r - k)) by lia. rewrite Z.add_0_l, Hd, Hm.
        rewrite full_chunks_succ by (apply Z.div_pos; lia).
        rewrite <- app_assoc. reflexivity.
  - (* ZSTD_e_flush *)
    change (s_flush =? s_continue) with false. change (s_flush =? s_flush) with true.
    change (s_flush =? s_end) with false. cbn [andb].
    unfold sp_piece in Heq. cbn [fst snd] in Heq. change (s_flush =? s_continue) with false in Heq.
    change (s_flush =? s_flush) with true in Heq. cbn iota in Heq.
    destruct (Z.eqb_spec (b + k) 0) as [Hz | Hnz].
    + (* nothing to flush *)
      cbn [res_state res_rem is_stop].
      assert (Hb0 : b = 0 /\ k = 0 /\ r = 0) by lia. destruct Hb0 as (Hb0 & Hk0 & Hr0).
      split; [unfold SInv, s_filled; cbn; repeat split; try lia; intros; discriminate|]. split; [lia|].
      split; [|split; [intros; discriminate | intros _ _ _; unfold s_filled; cbn; lia]].
      left. unfold Pending, frames_done, s_filled; cbn [s_chunks s_pos s_toc s_ended].
      repeat split; try assumption.
      unfold sp_piece. cbn [fst snd]. change (s_flush =? s_continue) with false. change (s_flush =? s_flush) with true. cbn iota.
      rewrite <- Heq. replace (s_pos s + k - s_toc s + (r - k)) with (b + r) by (unfold b; lia). reflexivity.
    + apply (tail_ok B s_flush fr0 target _ _ _ false r (r - k) e HB).
      * destruct (s_pos s + k + B >? IS); lia.
      * lia.
      * rewrite frames_done_app. lia.
      * intros; discriminate.
      * intros _. unfold sp_piece. cbn [fst snd]. change (s_flush =? s_continue) with false. change (s_flush =? s_flush) with true. cbn iota.
        rewrite <- Heq. rewrite Z.add_0_l.
        destruct (Z.eq_dec (b + k) B) as [Hbk | Hnb].
        -- rewrite Hbk. destruct (div_add_block B (r - k) HB ltac:(lia)) as (Hd & Hm).
           replace (b + r) with (B + (r - k)) by lia. rewrite Hd, Hm.
           rewrite full_chunks_succ by (apply Z.div_pos; lia).
           rewrite <- !app_assoc. reflexivity.
        -- assert (Hkr : k = r) by lia. replace (r - k) with 0 by lia.
           destruct (div_small B 0 ltac:(lia)) as (Hd0 & Hm0). rewrite Hd0, Hm0. cbn [full_chunks Z.to_nat repeat app Z.gtb Z.compare].
           destruct (div_small B (b + r) ltac:(lia)) as (Hd & Hm). rewrite Hd, Hm.
           replace (b + r >? 0) with true by (symmetry; apply Z.gtb_lt; lia).
           rewrite Hkr. cbn [full_chunks Z.to_nat repeat app]. rewrite app_nil_r. reflexivity.
  - (* ZSTD_e_end *)
    change (s_end =? s_continue) with false. change (s_end =? s_flush) with false.
    change (s_end =? s_end) with true. cbn [andb].
    unfold sp_piece in Heq. cbn [fst snd] in Heq. change (s_end =? s_continue) with false in Heq.
    change (s_end =? s_flush) with false in Heq. cbn iota in Heq.
    destruct (Z.eqb_spec (r - k) 0) as [Hr1 | Hr1].
    + (* last block *)
      assert (Hkr : k = r) by lia.
      apply (tail_ok B s_end fr0 target _ _ _ true r (r - k) e HB).
      * destruct (s_pos s + k + B >? IS); lia.
      * lia.
      * rewrite frames_done_app. lia.
      * intros _. split; [reflexivity|]. split; [lia|].
        rewrite <- Heq. rewrite Hkr.
        destruct (Z.eqb_spec (b + r) 0) as [HT0 | HTn].
        -- rewrite HT0. reflexivity.
        -- rewrite (ceil_one B (b + r)) by lia. replace (1 - 1) with 0 by lia. cbn [full_chunks Z.to_nat repeat app].
           replace (b + r - 0 * B) with (b + r) by lia. reflexivity.
      * intros; discriminate.
    + (* a full block, more input follows *)
      assert (Hbk : b + k = B) by lia.
      apply (tail_ok B s_end fr0 target _ _ _ false r (r - k) e HB).
      * destruct (s_pos s + k + B >? IS); lia.
      * lia.
      * rewrite frames_done_app. lia.
      * intros; discriminate.
      * intros _. unfold sp_piece. cbn [fst snd]. change (s_end =? s_continue) with false. change (s_end =? s_flush) with false. cbn iota.
        rewrite <- Heq. rewrite Z.add_0_l, Hbk.
        replace (r - k =? 0) with false by (symmetry; apply Z.eqb_neq; exact Hr1).
        replace (b + r =? 0) with false by (symmetry; apply Z.eqb_neq; lia).
        destruct (ceil_add_block B (r - k) HB ltac:(lia)) as (Hc & Hc1).
        replace (b + r + B - 1) with (B + (r - k) + B - 1) by lia. rewrite Hc.
        replace (1 + (r - k + B - 1) / B - 1) with (1 + ((r - k + B - 1) / B - 1)) by lia.
        rewrite full_chunks_succ by lia.
        rewrite <- !app_assoc. cbn [app]. do 6 f_equal. rewrite Z.mul_add_distr_r. lia.
Qed.


(* ---------- one physical call ---------- *)
Lemma no_shortcut_tail : forall e rest, no_shortcut (e :: rest) -> fits e = false /\ no_shortcut rest.
Proof. intros e rest H. inversion H; subst. split; assumption. Qed.

Lemma pending_not_finished : forall B dir fr0 target s r, Pending B dir fr0 target s r -> Finished dir fr0 target s r -> False.
Proof. intros B dir fr0 target s r (H1 & _) (_ & H2 & _). lia. Qed.

Lemma call_ok : forall envs B IS dir fr0 target s r s1 r1 rest,
  0 < B -> (dir = s_continue \/ dir = s_flush \/ dir = s_end) -> no_shortcut envs ->
  SInv B s -> 0 <= r -> PRel B dir fr0 target s r -> (Finished dir fr0 target s r -> s_flushing s = true) ->
  s_call B IS B s r dir envs = Some (s1, r1, rest) ->
  SInv B s1 /\ 0 <= r1 <= r /\ PRel B dir fr0 target s1 r1 /\ no_shortcut rest /\
  (dir = s_flush -> s_flushing s1 = false -> r1 = 0 /\ s_filled s1 = 0).
Proof.
  induction envs as [|e envs IH]; intros B IS dir fr0 target s r s1 r1 rest HB Hdir HNS HI Hr HREL HFIN HC; [discriminate|].
  apply no_shortcut_tail in HNS as (Hfits & HNS').
  cbn [s_call] in HC.
  pose proof (iter_step B IS dir fr0 target s r e HB Hdir Hfits HI Hr HREL HFIN) as HS. cbn zeta in HS.
  destruct (s_iter B IS B s r dir e) as [s2 r2 | s2 r2]; cbn [res_state res_rem is_stop] in HS.
  - destruct HS as (HI2 & Hr2 & HREL2 & HCONT & _). destruct (HCONT eq_refl) as (HP2 & HFL2).
    assert (HFIN2 : Finished dir fr0 target s2 r2 -> s_flushing s2 = true).
    { intros HF. exfalso. exact (pending_not_finished _ _ _ _ _ _ HP2 HF). }
    destruct (IH B IS dir fr0 target s2 r2 s1 r1 rest HB Hdir HNS' HI2 ltac:(lia) HREL2 HFIN2 HC) as (A1 & A2 & A3 & A4 & A5).
    split; [exact A1|]. split; [lia|]. split; [exact A3|]. split; [exact A4|exact A5].
  - injection HC as <- <- <-. destruct HS as (HI2 & Hr2 & HREL2 & _ & HSTOP).
    split; [exact HI2|]. split; [lia|]. split; [exact HREL2|]. split; [exact HNS'|exact (HSTOP eq_refl)].
Qed.

(* ---------- one input piece ---------- *)
Lemma piece_ok : forall fuel B IS dir fr0 target s r envs s' rest,
  0 < B -> (dir = s_continue \/ dir = s_flush \/ dir = s_end) -> no_shortcut envs ->
  SInv B s -> 0 <= r -> PRel B dir fr0 target s r -> (Finished dir fr0 target s r -> s_flushing s = true) ->
  s_piece fuel B IS B s r dir fr0 envs = Some (s', rest) ->
  SInv B s' /\ (s_chunks s', s_filled s') = target /\ s_ended s' = false /\ no_shortcut rest.
Proof.
  induction fuel as [|fuel IH]; intros B IS dir fr0 target s r envs s' rest HB Hdir HNS HI Hr HREL HFIN HP; [discriminate|].
  cbn [s_piece] in HP.
  destruct (s_call B IS B s r dir envs) as [[[s1 r1] rest1]|] eqn:HC; [|discriminate].
  destruct (call_ok envs B IS dir fr0 target s r s1 r1 rest1 HB Hdir HNS HI Hr HREL HFIN HC) as (HI1 & Hr1 & HREL1 & HNS1 & HFLUSH).
  destruct (piece_done s1 r1 dir fr0) eqn:HD.
  - injection HP as <- <-.
    unfold piece_done in HD. apply andb_true_iff in HD as (HD0 & HD1). apply Z.eqb_eq in HD0. subst r1.
    pose proof HI1 as (HF1 & HT1 & HE1).
    split; [exact HI1|].
    destruct HREL1 as [(Hfr & HEN & Heq) | (Hd & Hfr & _ & Heq & Hf0 & Himp)].
    + (* pending phase: the piece is a continue or a flush (an end piece is done only once the frame is complete) *)
      destruct Hdir as [-> | [-> | ->]].
      * split; [|split; assumption].
        rewrite <- Heq. unfold sp_piece. cbn [fst snd]. change (s_continue =? s_continue) with true. cbn iota.
        rewrite Z.add_0_r. destruct (div_small B (s_filled s1) HF1) as (Hd & Hm). rewrite Hd, Hm.
        cbn [full_chunks Z.to_nat repeat]. rewrite app_nil_r. reflexivity.
      * change (s_flush =? s_continue) with false in HD1. change (s_flush =? s_flush) with true in HD1. cbn [orb] in HD1.
        rewrite ?orb_true_r, ?andb_true_r in HD1. apply negb_true_iff in HD1.
        destruct (HFLUSH eq_refl HD1) as (_ & Hf0).
        split; [|split; assumption].
        rewrite <- Heq, Hf0. unfold sp_piece. cbn [fst snd]. change (s_flush =? s_continue) with false.
        change (s_flush =? s_flush) with true. cbn iota.
        destruct (div_small B 0 ltac:(lia)) as (Hd & Hm). rewrite Z.add_0_r, Hd, Hm. cbn. rewrite app_nil_r. reflexivity.
      * change (s_end =? s_continue) with false in HD1. change (s_end =? s_flush) with false in HD1. cbn [orb] in HD1.
        apply andb_true_iff in HD1 as (_ & HD2). apply Z.ltb_lt in HD2. lia.
    + subst dir. change (s_end =? s_continue) with false in HD1. cbn [orb] in HD1.
      apply andb_true_iff in HD1 as (HD1 & _). apply negb_true_iff in HD1.
      split; [rewrite Hf0; exact Heq|]. split; [|exact HNS1].
      destruct (s_ended s1) eqn:HEe; [|reflexivity]. specialize (HE1 eq_refl). congruence.
  - (* call again *)
    apply (IH B IS dir fr0 target s1 r1 rest1 s' rest HB Hdir HNS1 HI1 ltac:(lia) HREL1); [|exact HP].
    intros (Hd & Hfr & Hr0 & _ & _ & _).
    unfold piece_done in HD. subst dir r1. change (s_end =? s_continue) with false in HD. change (s_end =? s_flush) with false in HD.
    cbn [orb Z.eqb andb] in HD. replace (fr0 <? frames_done s1) with true in HD by (symmetry; apply Z.ltb_lt; exact Hfr).
    rewrite andb_true_r in HD. apply negb_false_iff in HD. exact HD.
Qed.

(* ---------- a whole sequence of pieces ---------- *)
Definition pieces_ok (ps : list (Z * Z)) : Prop :=
  Forall (fun p => 0 <= fst p /\ (snd p = s_continue \/ snd p = s_flush \/ snd p = s_end)) ps.

Lemma run_ok : forall ps B IS envs s s',
  0 < B -> pieces_ok ps -> no_shortcut envs -> SInv B s -> s_ended s = false ->
  s_run B IS B s ps envs = Some s' ->
  (s_chunks s', s_filled s') = fold_left (sp_piece B) ps (s_chunks s, s_filled s).
Proof.
  induction ps as [|[n dir] ps IH]; intros B IS envs s s' HB HP HNS HI HEN HR.
  - injection HR as <-. reflexivity.
  - inversion HP as [|? ? (Hn & Hdir) HP']; subst. cbn [fst snd] in Hn, Hdir.
    cbn [s_run] in HR.
    destruct (s_piece (S (length envs)) B IS B s n dir (frames_done s) envs) as [[s1 rest]|] eqn:HPc; [|discriminate].
    set (target := sp_piece B (s_chunks s, s_filled s) (n, dir)).
    assert (HREL : PRel B dir (frames_done s) target s n) by (left; repeat split; try assumption; reflexivity).
    assert (HFIN : Finished dir (frames_done s) target s n -> s_flushing s = true).
    { intros (_ & Hfr & _). lia. }
    destruct (piece_ok _ B IS dir (frames_done s) target s n envs s1 rest HB Hdir HNS HI Hn HREL HFIN HPc) as (HI1 & Heq & HEN1 & HNS1).
    rewrite (IH B IS rest s1 s' HB HP' HNS1 HI1 HEN1 HR).
    cbn [fold_left]. rewrite Heq. reflexivity.
Qed.

(* MAIN: for every block size, every sequence of input pieces and EVERY oracle that never allows the shortcut
   (= every sequence of output capacities below ZSTD_compressBound(remaining input) at the e_end calls that start with
   an empty input buffer - in particular all capacities < 64 - and every behaviour of the compressed sizes), the chunks
   handed to the block compressor and the bytes left in the input buffer are the specification's: a function of
   the pieces only.  The size of the input ring buffer (IS) does not matter either. *)
Theorem stream_partition_is_spec : forall B IS ps envs s',
  0 < B -> pieces_ok ps -> no_shortcut envs ->
  s_run B IS B (s_init B []) ps envs = Some s' ->
  (s_chunks s', s_filled s') = sp_run B ps.
Proof.
  intros B IS ps envs s' HB HP HNS HR.
  rewrite (run_ok ps B IS envs (s_init B []) s' HB HP HNS (SInv_init B [] HB) eq_refl HR). reflexivity.
Qed.

Corollary stream_partition_capacity_independent : forall B IS1 IS2 ps envs1 envs2 s1 s2,
  0 < B -> pieces_ok ps -> no_shortcut envs1 -> no_shortcut envs2 ->
  s_run B IS1 B (s_init B []) ps envs1 = Some s1 -> s_run B IS2 B (s_init B []) ps envs2 = Some s2 ->
  s_chunks s1 = s_chunks s2 /\ s_filled s1 = s_filled s2.
Proof.
  intros B IS1 IS2 ps envs1 envs2 s1 s2 HB HP H1 H2 R1 R2.
  pose proof (stream_partition_is_spec B IS1 ps envs1 s1 HB HP H1 R1) as E1.
  pose proof (stream_partition_is_spec B IS2 ps envs2 s2 HB HP H2 R2) as E2.
  rewrite <- E2 in E1. injection E1 as -> ->. split; reflexivity.
Qed.

(* ---------- where the input pieces are cut ---------- *)
Lemma repeat_app_Z : forall (A : Type) (t : A) a b, 0 <= a -> 0 <= b ->
  repeat t (Z.to_nat a) ++ repeat t (Z.to_nat b) = repeat t (Z.to_nat (a + b)).
Proof. intros. rewrite Z2Nat.inj_add by assumption. symmetry. apply repeat_app. Qed.

Lemma div_mod_compose : forall B b n1 n2, 0 < B -> 0 <= b -> 0 <= n1 -> 0 <= n2 ->
  (b + n1) / B + ((b + n1) mod B + n2) / B = (b + (n1 + n2)) / B /\
  ((b + n1) mod B + n2) mod B = (b + (n1 + n2)) mod B.
Proof.
  intros B b n1 n2 HB Hb H1 H2. split.
  - replace (b + (n1 + n2)) with ((b + n1) mod B + n2 + ((b + n1) / B) * B).
    + rewrite Z.div_add by lia. lia.
    + pose proof (Z.div_mod (b + n1) B ltac:(lia)). lia.
  - rewrite Z.add_mod_idemp_l by lia. f_equal. lia.
Qed.

(* two consecutive ZSTD_e_continue pieces = one piece with the sum of the sizes *)
Theorem continue_pieces_merge : forall B cl b n1 n2, 0 < B -> 0 <= b -> 0 <= n1 -> 0 <= n2 ->
  sp_piece B (sp_piece B (cl, b) (n1, s_continue)) (n2, s_continue) = sp_piece B (cl, b) (n1 + n2, s_continue).
Proof.
  intros B cl b n1 n2 HB Hb H1 H2. unfold sp_piece. cbn [fst snd]. change (s_continue =? s_continue) with true. cbn iota. cbn [fst snd].
  destruct (div_mod_compose B b n1 n2 HB Hb H1 H2) as (Hq & Hm).
  pose proof (Z.mod_pos_bound (b + n1) B HB).
  rewrite <- app_assoc. unfold full_chunks. rewrite repeat_app_Z by (apply Z.div_pos; lia).
  rewrite Hq, Hm. reflexivity.
Qed.

(* a ZSTD_e_continue piece followed by a flush: the cut between them does not matter *)
Theorem continue_flush_merge : forall B cl b n1 n2, 0 < B -> 0 <= b -> 0 <= n1 -> 0 <= n2 ->
  sp_piece B (sp_piece B (cl, b) (n1, s_continue)) (n2, s_flush) = sp_piece B (cl, b) (n1 + n2, s_flush).
Proof.
  intros B cl b n1 n2 HB Hb H1 H2. unfold sp_piece. cbn [fst snd]. change (s_continue =? s_continue) with true.
  change (s_flush =? s_continue) with false. change (s_flush =? s_flush) with true. cbn iota. cbn [fst snd].
  destruct (div_mod_compose B b n1 n2 HB Hb H1 H2) as (Hq & Hm).
  pose proof (Z.mod_pos_bound (b + n1) B HB).
  rewrite <- app_assoc. rewrite (app_assoc (full_chunks B ((b + n1) / B))). unfold full_chunks at 1 2.
  rewrite repeat_app_Z by (apply Z.div_pos; lia).
  rewrite Hq, Hm. reflexivity.
Qed.

(* a ZSTD_e_continue piece followed by the end piece: the cut does not matter EXCEPT when the end call brings no
   input and everything given so far is an exact multiple of the block size (then the last full block was already
   handed over as a non-last block and the frame ends with an empty block) *)
Theorem continue_end_merge : forall B cl b n1 n2, 0 < B -> 0 <= b < B -> 0 <= n1 -> 0 <= n2 ->
  (0 < n2 \/ (b + n1) mod B <> 0 \/ b + n1 = 0) ->
  sp_piece B (sp_piece B (cl, b) (n1, s_continue)) (n2, s_end) = sp_piece B (cl, b) (n1 + n2, s_end).
Proof.
  intros B cl b n1 n2 HB Hb H1 H2 HX. unfold sp_piece. cbn [fst snd]. change (s_continue =? s_continue) with true.
  change (s_end =? s_continue) with false. change (s_end =? s_flush) with false. cbn iota. cbn [fst snd].
  pose proof (Z.mod_pos_bound (b + n1) B HB) as Hmb.
  pose proof (Z.div_mod (b + n1) B ltac:(lia)) as Hdm.
  assert (Hq0 : 0 <= (b + n1) / B) by (apply Z.div_pos; lia).
  set (q := (b + n1) / B) in *. set (m := (b + n1) mod B) in *.
  destruct (Z.eqb_spec (m + n2) 0) as [Hz | Hnz].
  - (* nothing left for the end call: only possible when nothing at all was given *)
    assert (Hall : b + n1 = 0 /\ n2 = 0) by lia. destruct Hall as (Ha & Hn2).
    assert (q = 0) by (unfold q; rewrite Ha; apply Z.div_0_l; lia).
    replace (b + (n1 + n2)) with 0 by lia. rewrite H. cbn. rewrite app_nil_r. reflexivity.
  - replace (b + (n1 + n2) =? 0) with false by (symmetry; apply Z.eqb_neq; lia).
    assert (Hk : (b + (n1 + n2) + B - 1) / B = q + (m + n2 + B - 1) / B).
    { replace (b + (n1 + n2) + B - 1) with (m + n2 + B - 1 + q * B) by lia. rewrite Z.div_add by lia. lia. }
    assert (Hk1 : 1 <= (m + n2 + B - 1) / B) by (apply Z.div_le_lower_bound; lia).
    rewrite Hk. rewrite <- app_assoc. rewrite (app_assoc (full_chunks B q)). unfold full_chunks at 1 2.
    rewrite repeat_app_Z by lia.
    replace (q + ((m + n2 + B - 1) / B - 1)) with (q + (m + n2 + B - 1) / B - 1) by lia.
    do 5 f_equal. replace ((q + (m + n2 + B - 1) / B - 1) * B) with (q * B + ((m + n2 + B - 1) / B - 1) * B) by ring. lia.
Qed.

(* ---------- witnesses ---------- *)
(* the shortcut makes the chunks depend on the capacity: finding cstream-end-shortcut-outcap at model level *)
Example shortcut_depends_on_capacity :
  let ps := [(10, s_end)] in
  let small := mkSE false false true in      (* capacity below ZSTD_compressBound: buffered path *)
  let huge := mkSE true true true in         (* capacity >= ZSTD_compressBound(remaining): shortcut *)
  option_map s_chunks (s_run 4 8 4 (s_init 4 []) ps (repeat small 10)) = Some [(4, false); (4, false); (2, true)] /\
  option_map s_chunks (s_run 4 8 4 (s_init 4 []) ps [huge]) = Some [(10, true)] /\
  sp_run 4 ps = ([(4, false); (4, false); (2, true)], 0).
Proof. vm_compute. repeat split; reflexivity. Qed.

(* the excluded case of continue_end_merge is real *)
Example exact_multiple_cut_matters :
  sp_run 4 [(8, s_continue); (0, s_end)] = ([(4, false); (4, false); (0, true)], 0) /\
  sp_run 4 [(5, s_continue); (3, s_end)] = ([(4, false); (4, true)], 0).
Proof. vm_compute. split; reflexivity. Qed.

(* hypotheses satisfiable; capacities 1 byte at a time (never drained at once) vs everything direct *)
Example stream_partition_example :
  let ps := [(3, s_continue); (6, s_continue); (0, s_flush); (5, s_flush); (7, s_end)] in
  let slow := [mkSE false false false; mkSE false false true] in
  option_map s_chunks (s_run 4 8 4 (s_init 4 []) ps (concat (repeat slow 40))) =
    Some [(4, false); (4, false); (1, false); (4, false); (1, false); (4, false); (3, true)] /\
  option_map s_chunks (s_run 4 100 4 (s_init 4 []) ps (repeat (mkSE false true true) 40)) =
    Some [(4, false); (4, false); (1, false); (4, false); (1, false); (4, false); (3, true)] /\
  fst (sp_run 4 ps) = [(4, false); (4, false); (1, false); (4, false); (1, false); (4, false); (3, true)].
Proof. vm_compute. repeat split; reflexivity. Qed.
