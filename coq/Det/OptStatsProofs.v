(* C07 proofs, part 4: after ZSTD_invalidateMatchState the statistics of the optimal parser are a function of the
   block and of the dictionary tables only. *)
From Coq Require Import ZArith Bool List Lia.
From ZV.Det Require Import OptStats.
Import ListNotations.
Local Open Scope Z_scope.

Lemma rescale_after_invalidate : forall s src cl lvl dict,
  rescaleFreqs (opt_invalidate s) src cl lvl dict = setBasePrices (first_block (opt_invalidate s) src cl dict) cl lvl.
Proof. intros. unfold rescaleFreqs, opt_invalidate. cbn [litLengthSum]. rewrite Z.eqb_refl. reflexivity. Qed.

Theorem opt_stats_reseeded : forall s1 s2 src cl lvl dict,
  opt_view cl (rescaleFreqs (opt_invalidate s1) src cl lvl dict) =
  opt_view cl (rescaleFreqs (opt_invalidate s2) src cl lvl dict).
Proof.
  intros. rewrite !rescale_after_invalidate.
  unfold opt_view, first_block, setBasePrices, opt_invalidate.
  destruct dict as [d|]; destruct cl;
  cbn [litFreq litLengthFreq matchLengthFreq offCodeFreq litSum litLengthSum matchLengthSum offCodeSum
       litSumBasePrice litLengthSumBasePrice matchLengthSumBasePrice offCodeSumBasePrice priceType fst snd];
  reflexivity.
Qed.

(* the first-block statistics never mention the previous tables at all when literals are compressed *)
Corollary opt_stats_reseeded_full : forall s1 s2 src lvl dict,
  rescaleFreqs (opt_invalidate s1) src true lvl dict = rescaleFreqs (opt_invalidate s2) src true lvl dict.
Proof. intros. apply (opt_stats_reseeded s1 s2 src true lvl dict). Qed.

(* the reset of litLengthSum is what does it: with a stale non-zero litLengthSum two histories give two results *)
Example opt_stats_stale_refuted :
  let mk f := mkOpt (repeat 1 256) (repeat f 36) (repeat 1 53) (repeat 1 32) 256 (36 * f) 53 32 0 0 0 0 0 in
  litLengthFreq (rescaleFreqs (mk 100) [1; 2; 3] true 2 None) <> litLengthFreq (rescaleFreqs (mk 200) [1; 2; 3] true 2 None).
Proof. cbn zeta. vm_compute. discriminate. Qed.

Example opt_first_block_example :
  let s := rescaleFreqs (opt_invalidate (mkOpt [] [] [] [] 0 777 0 0 0 0 0 0 0)) (repeat 65 300 ++ [66; 66]) true 2 None in
  nth 65 (litFreq s) 0 = 2 /\ nth 66 (litFreq s) 0 = 1 /\ nth 67 (litFreq s) 0 = 0 /\ litSum s = 3 /\
  litLengthSum s = 40 /\ matchLengthSum s = 53 /\ offCodeSum s = 53 /\ priceType s = zop_dynamic.
Proof. vm_compute. repeat split; reflexivity. Qed.
