(* C07 model, part 4: the statistics of the optimal parser at the start of a block.
   Source: lib/compress/zstd_opt.c  ZSTD_rescaleFreqs, ZSTD_downscaleStats, ZSTD_scaleStats, ZSTD_setBasePrices,
           ZSTD_bitWeight / ZSTD_fracWeight (WEIGHT), lib/compress/hist.c HIST_count_simple;
           lib/compress/zstd_compress.c ZSTD_invalidateMatchState (opt.litLengthSum = 0).
   NO proofs in this file.  U32 arithmetic is written with an explicit [u32]. *)
From Coq Require Import ZArith Bool List.
From ZV.Gen Require Import Gen_Sizes.
Import ListNotations.
Local Open Scope Z_scope.

Definition u32 (x : Z) : Z := x mod 4294967296.
Definition MaxLit : Z := 2 ^ (Z.of_N c_Litbits) - 1.
Definition MaxLL : Z := Z.of_N c_MaxLL.
Definition MaxML : Z := Z.of_N c_MaxML.
Definition MaxOff : Z := Z.of_N c_MaxOff.
Definition PREDEF_THRESHOLD : Z := 8.        (* ZSTD_PREDEF_THRESHOLD, local macro of zstd_opt.c (tied by harness/c07_opt.c) *)
Definition BITCOST_ACCURACY : Z := 8.
Definition BITCOST_MULTIPLIER : Z := 256.

Definition zop_dynamic : Z := 0.
Definition zop_predef : Z := 1.

Record optstate : Type := mkOpt {
  litFreq : list Z; litLengthFreq : list Z; matchLengthFreq : list Z; offCodeFreq : list Z;
  litSum : Z; litLengthSum : Z; matchLengthSum : Z; offCodeSum : Z;
  litSumBasePrice : Z; litLengthSumBasePrice : Z; matchLengthSumBasePrice : Z; offCodeSumBasePrice : Z;
  priceType : Z
}.

(* bit costs read from the entropy tables a dictionary left in prevCBlock (huf.repeatMode == HUF_repeat_valid) *)
Record dictcosts : Type := mkDC { d_lit : list Z; d_ll : list Z; d_ml : list Z; d_of : list Z }.

Definition highbit (x : Z) : Z := Z.log2 x.
Definition bitWeight (stat : Z) : Z := u32 (highbit (u32 (stat + 1)) * BITCOST_MULTIPLIER).
Definition fracWeight (rawStat : Z) : Z :=
  let stat := u32 (rawStat + 1) in
  let hb := highbit stat in
  let BWeight := hb * BITCOST_MULTIPLIER in
  let FWeight := Z.shiftr (u32 (Z.shiftl stat BITCOST_ACCURACY)) hb in
  u32 (BWeight + FWeight).
Definition WEIGHT (stat optLevel : Z) : Z := if optLevel =? 0 then bitWeight stat else fracWeight stat.

Definition sum_u32 (l : list Z) : Z := fold_left (fun a x => u32 (a + x)) l 0.

(* ZSTD_downscaleStats: returns (table, sum) *)
Definition downscale (t : list Z) (shift : Z) (base1 : bool) : list Z * Z :=
  let t' := map (fun x => u32 ((if base1 then 1 else if x >? 0 then 1 else 0) + Z.shiftr x shift)) t in
  (t', sum_u32 t').

(* ZSTD_scaleStats *)
Definition scale (t : list Z) (logTarget : Z) : list Z * Z :=
  let prevsum := sum_u32 t in
  let factor := Z.shiftr prevsum logTarget in
  if factor <=? 1 then (t, prevsum) else downscale t (highbit factor) true.

(* HIST_count_simple over the 256 byte values *)
Definition count_byte (src : list Z) (s : Z) : Z := fold_left (fun a b => if b =? s then a + 1 else a) src 0.
Definition histogram (src : list Z) : list Z := map (fun s => count_byte src (Z.of_nat s)) (seq 0 256).

Definition baseLLfreqs : list Z := [4; 2] ++ repeat 1 34.
Definition baseOFCfreqs : list Z := [6; 2; 1; 1; 2; 3; 4; 4; 4; 3; 2] ++ repeat 1 21.

Definition from_cost (scaleLog bitCost : Z) : Z := if bitCost =? 0 then 1 else u32 (Z.shiftl 1 (scaleLog - bitCost)).

(* ZSTD_setBasePrices *)
Definition setBasePrices (s : optstate) (compressedLiterals : bool) (optLevel : Z) : optstate :=
  mkOpt (litFreq s) (litLengthFreq s) (matchLengthFreq s) (offCodeFreq s)
        (litSum s) (litLengthSum s) (matchLengthSum s) (offCodeSum s)
        (if compressedLiterals then WEIGHT (litSum s) optLevel else litSumBasePrice s)
        (WEIGHT (litLengthSum s) optLevel) (WEIGHT (matchLengthSum s) optLevel) (WEIGHT (offCodeSum s) optLevel)
        (priceType s).

(* ZSTD_rescaleFreqs, branch "optPtr->litLengthSum == 0": first block of a frame *)
Definition first_block (s : optstate) (src : list Z) (compressedLiterals : bool) (dict : option dictcosts) : optstate :=
  match dict with
  | Some d =>
      let lf := if compressedLiterals then map (from_cost 11) (d_lit d) else litFreq s in
      let ls := if compressedLiterals then sum_u32 lf else litSum s in
      let llf := map (from_cost 10) (d_ll d) in
      let mlf := map (from_cost 10) (d_ml d) in
      let off := map (from_cost 10) (d_of d) in
      mkOpt lf llf mlf off ls (sum_u32 llf) (sum_u32 mlf) (sum_u32 off)
            (litSumBasePrice s) (litLengthSumBasePrice s) (matchLengthSumBasePrice s) (offCodeSumBasePrice s)
            zop_dynamic
  | None =>
      let lfs := if compressedLiterals then downscale (histogram src) 8 false else (litFreq s, litSum s) in
      let mlf := repeat 1 (Z.to_nat (MaxML + 1)) in
      mkOpt (fst lfs) baseLLfreqs mlf baseOFCfreqs (snd lfs) (sum_u32 baseLLfreqs) (MaxML + 1) (sum_u32 baseOFCfreqs)
            (litSumBasePrice s) (litLengthSumBasePrice s) (matchLengthSumBasePrice s) (offCodeSumBasePrice s)
            (if Z.of_nat (length src) <=? PREDEF_THRESHOLD then zop_predef else zop_dynamic)
  end.

(* ZSTD_rescaleFreqs, else branch: scale the accumulated statistics down *)
Definition later_block (s : optstate) (compressedLiterals : bool) : optstate :=
  let lfs := if compressedLiterals then scale (litFreq s) 12 else (litFreq s, litSum s) in
  let ll := scale (litLengthFreq s) 11 in
  let ml := scale (matchLengthFreq s) 11 in
  let oc := scale (offCodeFreq s) 11 in
  mkOpt (fst lfs) (fst ll) (fst ml) (fst oc) (snd lfs) (snd ll) (snd ml) (snd oc)
        (litSumBasePrice s) (litLengthSumBasePrice s) (matchLengthSumBasePrice s) (offCodeSumBasePrice s)
        zop_dynamic.

Definition rescaleFreqs (s : optstate) (src : list Z) (compressedLiterals : bool) (optLevel : Z)
           (dict : option dictcosts) : optstate :=
  setBasePrices (if litLengthSum s =? 0 then first_block s src compressedLiterals dict
                 else later_block s compressedLiterals) compressedLiterals optLevel.

(* ZSTD_invalidateMatchState, opt part *)
Definition opt_invalidate (s : optstate) : optstate :=
  mkOpt (litFreq s) (litLengthFreq s) (matchLengthFreq s) (offCodeFreq s)
        (litSum s) 0 (matchLengthSum s) (offCodeSum s)
        (litSumBasePrice s) (litLengthSumBasePrice s) (matchLengthSumBasePrice s) (offCodeSumBasePrice s)
        (priceType s).

(* what the price functions read: with uncompressed literals (ZSTD_ps_disable) the literal statistics are never
   consulted (ZSTD_rawLiteralsCost / ZSTD_litLengthPrice test ZSTD_compressedLiterals first) *)
Definition opt_view (compressedLiterals : bool) (s : optstate) : optstate :=
  if compressedLiterals then s
  else mkOpt [] (litLengthFreq s) (matchLengthFreq s) (offCodeFreq s) 0 (litLengthSum s) (matchLengthSum s) (offCodeSum s)
             0 (litLengthSumBasePrice s) (matchLengthSumBasePrice s) (offCodeSumBasePrice s) (priceType s).

(* flat form for the correspondence run *)
Definition opt_fields (s : optstate) : list Z :=
  litFreq s ++ litLengthFreq s ++ matchLengthFreq s ++ offCodeFreq s ++
  [litSum s; litLengthSum s; matchLengthSum s; offCodeSum s;
   litSumBasePrice s; litLengthSumBasePrice s; matchLengthSumBasePrice s; offCodeSumBasePrice s; priceType s].
