(* C07 model, part 6: what happens to a context DURING the frame that follows a reset, written relative to the index
   at which the frame starts.  Two contexts that run the same frame (same input, same parameters) perform the same
   relative operations; their absolute indices differ by the constant (E used - E fresh).
   Source: the users of ZSTD_matchState_t between ZSTD_resetCCtx_internal and the end of the frame: ZSTD_window_update
   (nextSrc grows), ZSTD_window_enforceMaxDist / ZSTD_checkDictValidity (limits move forward), the table insertions of
   the match finders (current position = base-relative index), nextToUpdate, hashSaltEntropy, opt statistics.
   NO proofs in this file. *)
From Coq Require Import ZArith Bool List.
From ZV.Index Require Import Window Overflow.
From ZV.Det Require Import ResetModel.
Import ListNotations.
Local Open Scope Z_scope.

Inductive fop : Type :=
| FFeed (n : Z)                 (* n more input bytes enter the window *)
| FLimits (low dict : Z)        (* lowLimit := start + low, dictLimit := start + dict *)
| FInsert (i : nat) (v : Z)     (* a finder stores the position start + v in table cell i *)
| FJunk (i : nat) (v : Z)       (* a buffer user writes the (absolute) value v in cell i *)
| FNtu (v : Z)                  (* nextToUpdate := start + v *)
| FEntropy (e : Z)
| FOptSum (s : Z).

(* the absolute operation on a context whose frame started at index [s] *)
Definition abs_op (s : Z) (o : fop) : hop :=
  match o with
  | FFeed n => HFeed n
  | FLimits low dict => HLimits (s + low) (s + dict)
  | FInsert i v => HInsert i (s + v)
  | FJunk i v => HJunk i v
  | FNtu v => HNtu (s + v)
  | FEntropy e => HEntropy e
  | FOptSum x => HOptSum x
  end.

(* well-formedness of a relative frame history when [len] bytes of the frame are in the window:
   positions inserted are positions of the frame's own bytes; limits never move below the start of the frame *)
Fixpoint frame_wf (ntab buflow : nat) (len : Z) (ops : list fop) : Prop :=
  match ops with
  | [] => True
  | FFeed n :: t => 0 <= n /\ frame_wf ntab buflow (len + n) t
  | FLimits low dict :: t => 0 <= low /\ frame_wf ntab buflow len t
  | FInsert i v :: t => (i < ntab)%nat /\ 0 <= v < len /\ frame_wf ntab buflow len t
  | FJunk i v :: t => (buflow <= i)%nat /\ frame_wf ntab buflow len t
  | _ :: t => frame_wf ntab buflow len t
  end.

Definition run_frame (m : mstate) (ops : list fop) : mstate := run m (map (abs_op (E m)) ops).
