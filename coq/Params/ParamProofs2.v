(* C16 round 2 - proofs about the composite setters, ZSTD_CCtxParams_init_advanced and the decoder-side dictionary calls
   of ParamModel.v. *)
From Coq Require Import ZArith List Bool Lia.
From ZV.Gen Require Import Gen_Bounds.
From ZV.Params Require Import BoundsModel CParamsAdjust ParamModel ParamProofs.
Import ListNotations.
Local Open Scope Z_scope.

(* ------------------------------------------------------------------ chains of ZSTD_CCtx_setParameter *)
Definition plain_param (p : cparam) : Prop := p <> C_nbWorkers /\ p <> C_compressionLevel /\ p <> C_jobSize.

Lemma nbw_refused_plain : forall c p v, p <> C_nbWorkers -> nbw_static_refused c p v = false.
Proof. intros c p v H. destruct p; try reflexivity. congruence. Qed.

(* in the init stage a chain of in-bounds values is applied completely, and is the composition of the single stores *)
Lemma set_seq_init_char : forall l c,
  c_stage c = S_init ->
  (forall p v, In (p, v) l -> in_cbounds p v /\ plain_param p) ->
  cctx_set_seq c l =
    (mkC (fold_left (fun s pv => cupd s (fst pv) (snd pv)) l (c_params c)) S_init (c_dict c) (c_static c), Ok).
Proof.
  induction l as [|[p v] l IH]; intros c Hs Hl; cbn [cctx_set_seq fold_left].
  - destruct c as [s st d sta]. cbn in *. subst st. reflexivity.
  - destruct (Hl p v (or_introl eq_refl)) as (Hin & Hnw & Hlv & Hjs).
    rewrite cctx_set_char, cparam_of_id_id, Hs. cbn [stage_is_init negb andb].
    rewrite (nbw_refused_plain c p v Hnw), (cstored_in_bounds p v Hin), (cnorm_identity p v Hlv Hjs).
    rewrite IH; [reflexivity | reflexivity |]. intros q w Hq. apply Hl. right. exact Hq.
Qed.

(* mid-frame a chain whose first parameter may not be updated stops at once, with nothing changed *)
Lemma set_seq_mid_first_refused : forall c p v l,
  c_stage c = S_mid -> is_update_authorized p = false ->
  cctx_set_seq c ((p, v) :: l) = (c, Err E_stage_wrong).
Proof.
  intros c p v l Hs Ha. cbn [cctx_set_seq]. pose proof (midframe_gating_l c (cparam_id p) v Hs) as H.
  rewrite cparam_of_id_id, Ha in H. rewrite H. reflexivity.
Qed.

Lemma cpar_sets_in_bounds : forall cp, check_cparams cp = true ->
  forall p v, In (p, v) (cpar_sets cp) -> in_cbounds p v /\ plain_param p.
Proof.
  intros cp Hc p v Hin. destruct (check_cparams_fields cp Hc) as (H1 & H2 & H3 & H4 & H5 & H6 & H7).
  unfold cpar_sets in Hin. cbn [In] in Hin.
  repeat (destruct Hin as [Hin|Hin]; [injection Hin as <- <-; split; [assumption | repeat split; discriminate]|]).
  contradiction.
Qed.

Lemma flag01 : forall v, 0 <= flag v <= 1.
Proof. intro v. unfold flag. destruct (v =? 0); lia. Qed.

Lemma fpar_sets_in_bounds : forall fp p v, In (p, v) (fpar_sets fp) -> in_cbounds p v /\ plain_param p.
Proof.
  intros fp p v Hin. unfold fpar_sets in Hin. cbn [In] in Hin.
  destruct Hin as [Hin|[Hin|[Hin|[]]]]; injection Hin as <- <-; (split; [|repeat split; discriminate]).
  - with_bounds C_contentSizeFlag. eapply in_cbounds_intro; [exact Hb' | apply flag01].
  - with_bounds C_checksumFlag. eapply in_cbounds_intro; [exact Hb' | apply flag01].
  - with_bounds C_dictIDFlag. eapply in_cbounds_intro; [exact Hb' | destruct (f_nd fp =? 0); lia].
Qed.

(* ---- ZSTD_CCtx_setCParams / setFParams / setParams *)
Definition cpar_store (s : cstore) (cp : cpar) : cstore :=
  fold_left (fun s pv => cupd s (fst pv) (snd pv)) (cpar_sets cp) s.
Definition fpar_store (s : cstore) (fp : fpar) : cstore :=
  fold_left (fun s pv => cupd s (fst pv) (snd pv)) (fpar_sets fp) s.

(* exact behaviour, by stage and validity *)
Lemma set_cparams_char : forall c cp,
  cctx_set_cparams c cp =
    if check_cparams cp then
      match c_stage c with
      | S_init => (mkC (cpar_store (c_params c) cp) S_init (c_dict c) (c_static c), Ok)
      | S_mid => (c, Err E_stage_wrong)
      end
    else (c, Err E_outOfBound).
Proof.
  intros c cp. unfold cctx_set_cparams. destruct (check_cparams cp) eqn:Hc; [|reflexivity].
  destruct (c_stage c) eqn:Hs.
  - apply set_seq_init_char; [exact Hs | apply cpar_sets_in_bounds; exact Hc].
  - unfold cpar_sets. apply set_seq_mid_first_refused; [exact Hs | reflexivity].
Qed.

Lemma set_fparams_char : forall c fp,
  cctx_set_fparams c fp =
    match c_stage c with
    | S_init => (mkC (fpar_store (c_params c) fp) S_init (c_dict c) (c_static c), Ok)
    | S_mid => (c, Err E_stage_wrong)
    end.
Proof.
  intros c fp. unfold cctx_set_fparams. destruct (c_stage c) eqn:Hs.
  - apply set_seq_init_char; [exact Hs | apply fpar_sets_in_bounds].
  - unfold fpar_sets. apply set_seq_mid_first_refused; [exact Hs | reflexivity].
Qed.

Lemma set_params_char : forall c cp fp,
  cctx_set_params c cp fp =
    if check_cparams cp then
      match c_stage c with
      | S_init => (mkC (cpar_store (fpar_store (c_params c) fp) cp) S_init (c_dict c) (c_static c), Ok)
      | S_mid => (c, Err E_stage_wrong)
      end
    else (c, Err E_outOfBound).
Proof.
  intros c cp fp. unfold cctx_set_params. destruct (check_cparams cp) eqn:Hc; [|reflexivity].
  rewrite set_fparams_char. destruct (c_stage c) eqn:Hs; [|reflexivity].
  rewrite set_cparams_char, Hc. reflexivity.
Qed.

(* all-or-nothing: a composite call that does not return success leaves the very same context *)
Lemma composite_all_or_nothing_l : forall c cp fp,
  (snd (cctx_set_cparams c cp) <> Ok -> fst (cctx_set_cparams c cp) = c)
  /\ (snd (cctx_set_fparams c fp) <> Ok -> fst (cctx_set_fparams c fp) = c)
  /\ (snd (cctx_set_params c cp fp) <> Ok -> fst (cctx_set_params c cp fp) = c).
Proof.
  intros c cp fp. rewrite set_cparams_char, set_fparams_char, set_params_char.
  destruct (check_cparams cp); destruct (c_stage c); cbn [fst snd]; repeat split; intro H; try reflexivity;
    exfalso; apply H; reflexivity.
Qed.

(* the cells after a successful composite call *)
Lemma cpar_store_cells : forall s cp q,
  cpar_store s cp q =
  match q with
  | C_windowLog => wlog cp | C_chainLog => clog cp | C_hashLog => hlog cp | C_searchLog => slog cp
  | C_minMatch => mmatch cp | C_targetLength => tlen cp | C_strategy => strat cp
  | _ => s q
  end.
Proof. intros s cp q. destruct q; reflexivity. Qed.

Lemma fpar_store_cells : forall s fp q,
  fpar_store s fp q =
  match q with
  | C_contentSizeFlag => flag (f_cs fp) | C_checksumFlag => flag (f_ck fp)
  | C_dictIDFlag => if f_nd fp =? 0 then 1 else 0
  | _ => s q
  end.
Proof. intros s fp q. destruct q; reflexivity. Qed.

Lemma composite_cells_l : forall s cp fp q,
  cpar_store s cp q =
    match q with
    | C_windowLog => wlog cp | C_chainLog => clog cp | C_hashLog => hlog cp | C_searchLog => slog cp
    | C_minMatch => mmatch cp | C_targetLength => tlen cp | C_strategy => strat cp
    | _ => s q
    end
  /\ fpar_store s fp q =
    match q with
    | C_contentSizeFlag => flag (f_cs fp) | C_checksumFlag => flag (f_ck fp)
    | C_dictIDFlag => if f_nd fp =? 0 then 1 else 0
    | _ => s q
    end.
Proof. intros. split; [apply cpar_store_cells | apply fpar_store_cells]. Qed.

(* finding F32 (fixed by 587ee30): the header bit of the old code for a negative flag, against the epilogue's `!= 0` *)
Lemma header_checksum_bit_l : hdr_checksum_bit true (-1) = 0 /\ hdr_checksum_bit false (-1) = 1
  /\ forall v, hdr_checksum_bit false v = if v =? 0 then 0 else 1.
Proof. split; [reflexivity|]. split; [reflexivity|]. intro v. unfold hdr_checksum_bit. destruct (v =? 0); reflexivity. Qed.

(* equivalence with the individual calls: in the init stage, with valid cParams, ZSTD_CCtx_setCParams is exactly the
   seven ZSTD_CCtx_setParameter calls, each of them successful *)
Fixpoint set_each (c : cctx) (l : list (cparam * Z)) : cctx * list result :=
  match l with
  | [] => (c, [])
  | (p, v) :: t => let '(c1, r) := cctx_set c (cparam_id p) v in let '(c2, rs) := set_each c1 t in (c2, r :: rs)
  end.

Lemma set_seq_is_each : forall l c, c_stage c = S_init ->
  (forall p v, In (p, v) l -> in_cbounds p v /\ plain_param p) ->
  set_each c l = (fst (cctx_set_seq c l), map (fun _ => Ok) l).
Proof.
  induction l as [|[p v] l IH]; intros c Hs Hl; cbn [set_each cctx_set_seq map fst]; [reflexivity|].
  destruct (Hl p v (or_introl eq_refl)) as (Hin & Hnw & Hlv & Hjs).
  rewrite cctx_set_char, cparam_of_id_id, Hs. cbn [stage_is_init negb andb].
  rewrite (nbw_refused_plain c p v Hnw), (cstored_in_bounds p v Hin).
  rewrite IH; [reflexivity | reflexivity |]. intros q w Hq. apply Hl. right. exact Hq.
Qed.

Lemma composite_is_sequence_l : forall c cp fp, c_stage c = S_init -> check_cparams cp = true ->
  set_each c (cpar_sets cp) = (fst (cctx_set_cparams c cp), [Ok; Ok; Ok; Ok; Ok; Ok; Ok])
  /\ set_each c (fpar_sets fp) = (fst (cctx_set_fparams c fp), [Ok; Ok; Ok])
  /\ set_each c (fpar_sets fp ++ cpar_sets cp) = (fst (cctx_set_params c cp fp), [Ok; Ok; Ok; Ok; Ok; Ok; Ok; Ok; Ok; Ok]).
Proof.
  intros c cp fp Hs Hc. split; [|split].
  - unfold cctx_set_cparams. rewrite Hc. apply (set_seq_is_each (cpar_sets cp) c Hs (cpar_sets_in_bounds cp Hc)).
  - apply (set_seq_is_each (fpar_sets fp) c Hs (fpar_sets_in_bounds fp)).
  - rewrite (set_seq_is_each (fpar_sets fp ++ cpar_sets cp) c Hs).
    + f_equal. rewrite set_params_char, Hc, Hs. cbn [fst].
      rewrite (set_seq_init_char (fpar_sets fp ++ cpar_sets cp) c Hs).
      * cbn [fst]. unfold cpar_store, fpar_store. rewrite fold_left_app. reflexivity.
      * intros p v Hin. apply in_app_or in Hin. destruct Hin; [eapply fpar_sets_in_bounds | eapply cpar_sets_in_bounds]; eassumption.
    + intros p v Hin. apply in_app_or in Hin. destruct Hin; [eapply fpar_sets_in_bounds | eapply cpar_sets_in_bounds]; eassumption.
Qed.

(* ---- ZSTD_CCtxParams_init_advanced *)
Lemma init_advanced_char : forall s cp fp,
  cparams_init_advanced s cp fp =
    if check_cparams cp then (cparams_init_internal cp fp 0, Ok) else (s, Err E_outOfBound).
Proof. reflexivity. Qed.

Lemma init_advanced_all_or_nothing_l : forall s cp fp,
  snd (cparams_init_advanced s cp fp) <> Ok -> fst (cparams_init_advanced s cp fp) = s.
Proof.
  intros s cp fp. unfold cparams_init_advanced. destruct (check_cparams cp); cbn [fst snd]; intro H; [exfalso; apply H|]; reflexivity.
Qed.

(* what the initialised object holds: the given cParams and fParams, level 0 (ZSTD_NO_CLEVEL), the three `auto` switches
   resolved for these cParams, maxBlockSize and searchForExternalRepcodes resolved, every other parameter 0 *)
Lemma init_advanced_cells_l : forall s cp fp q, check_cparams cp = true ->
  fst (cparams_init_advanced s cp fp) q =
  match q with
  | C_compressionLevel => 0
  | C_windowLog => wlog cp | C_chainLog => clog cp | C_hashLog => hlog cp | C_searchLog => slog cp
  | C_minMatch => mmatch cp | C_targetLength => tlen cp | C_strategy => strat cp
  | C_contentSizeFlag => f_cs fp | C_checksumFlag => f_ck fp | C_dictIDFlag => if f_nd fp =? 0 then 1 else 0
  | C_useRowMatchFinder => resolve_row z_ZSTD_ps_auto cp
  | C_useBlockSplitter => resolve_split z_ZSTD_ps_auto cp
  | C_enableLongDistanceMatching => resolve_ldm z_ZSTD_ps_auto cp
  | C_maxBlockSize => z_ZSTD_BLOCKSIZE_MAX
  | C_searchForExternalRepcodes => z_ZSTD_ps_disable
  | _ => 0
  end.
Proof.
  intros s cp fp q Hc. unfold cparams_init_advanced. rewrite Hc. cbn [fst]. destruct q; reflexivity.
Qed.

(* the resolved switches are never `auto` *)
Lemma resolved_not_auto : forall m cp,
  (m = z_ZSTD_ps_auto \/ m = z_ZSTD_ps_enable \/ m = z_ZSTD_ps_disable) ->
  (resolve_row m cp = z_ZSTD_ps_enable \/ resolve_row m cp = z_ZSTD_ps_disable)
  /\ (resolve_split m cp = z_ZSTD_ps_enable \/ resolve_split m cp = z_ZSTD_ps_disable)
  /\ (resolve_ldm m cp = z_ZSTD_ps_enable \/ resolve_ldm m cp = z_ZSTD_ps_disable).
Proof.
  intros m cp [-> | [-> | ->]]; unfold resolve_row, resolve_split, resolve_ldm;
    repeat match goal with
           | |- context [Z.eqb z_ZSTD_ps_auto z_ZSTD_ps_auto] => change (Z.eqb z_ZSTD_ps_auto z_ZSTD_ps_auto) with true
           | |- context [Z.eqb z_ZSTD_ps_enable z_ZSTD_ps_auto] => change (Z.eqb z_ZSTD_ps_enable z_ZSTD_ps_auto) with false
           | |- context [Z.eqb z_ZSTD_ps_disable z_ZSTD_ps_auto] => change (Z.eqb z_ZSTD_ps_disable z_ZSTD_ps_auto) with false
           end; cbn [negb];
    repeat split; auto;
    match goal with |- context [if ?b then _ else _] => destruct b end; auto.
Qed.

(* ------------------------------------------------------------------ decoder side: dictionary calls *)
(* stage gating *)
Lemma d_dict_calls_midframe_refused_l : forall d k, d_stage d = S_mid ->
  dctx_refddict d k = (d, Err E_stage_wrong) /\ dctx_load d k = (d, Err E_stage_wrong)
  /\ dctx_refprefix d k = (d, Err E_stage_wrong).
Proof. intros d k Hs. unfold dctx_refddict, dctx_load, dctx_refprefix. rewrite Hs. repeat split. Qed.

(* mutual replacement: each call installs exactly its own dictionary (or none for NULL), whatever was attached before;
   parameters and stage are untouched *)
Lemma d_dict_calls_replace_l : forall d k, d_stage d = S_init ->
  (let d' := fst (dctx_refddict d k) in
   snd (dctx_refddict d k) = Ok /\ dsame d d' /\ d_stage d' = S_init
   /\ dd_kind (d_dict d') = (if k =? 0 then DK_none else DK_ref k) /\ dd_uses (d_dict d') = (if k =? 0 then 0 else 2))
  /\ (let d' := fst (dctx_load d k) in
      snd (dctx_load d k) = Ok /\ dsame d d' /\ d_stage d' = S_init
      /\ dd_kind (d_dict d') = (if k =? 0 then DK_none else DK_local k) /\ dd_uses (d_dict d') = (if k =? 0 then 0 else 2)
      /\ dd_set (d_dict d') = dd_set (d_dict d))
  /\ (let d' := fst (dctx_refprefix d k) in
      snd (dctx_refprefix d k) = Ok /\ dsame d d' /\ d_stage d' = S_init
      /\ dd_kind (d_dict d') = (if k =? 0 then DK_none else DK_pfx k) /\ dd_uses (d_dict d') = 1
      /\ dd_set (d_dict d') = dd_set (d_dict d)).
Proof.
  intros d k Hs. unfold dctx_refddict, dctx_load, dctx_refprefix. rewrite Hs. cbn [stage_is_init negb].
  destruct (k =? 0); cbn [fst snd dctx_set_dict d_dict d_stage dd_kind dd_uses dd_set dd_clear];
    repeat split; try exact Hs.
Qed.

(* the set of referenced DDicts only grows, and only through ZSTD_DCtx_refDDict under ZSTD_d_refMultipleDDicts *)
Lemma d_refddict_set_l : forall d k, d_stage d = S_init -> k <> 0 ->
  dd_set (d_dict (fst (dctx_refddict d k))) =
    if d_refMultipleDDicts d =? 1 then Some (k :: match dd_set (d_dict d) with Some l => l | None => [] end)
    else dd_set (d_dict d).
Proof.
  intros d k Hs Hk. unfold dctx_refddict. rewrite Hs. cbn [stage_is_init negb].
  destruct (Z.eqb_spec k 0); [contradiction|]. reflexivity.
Qed.

(* the dictionary a streamed frame starting now is decoded with (current tree: no stale selection) *)
Definition d_next_use (d : dctx) (fid : Z) : dkind := snd (dd_stream_header false d true fid).
Definition d_after_header (d : dctx) (fid : Z) : ddicts := fst (dd_stream_header false d true fid).

Lemma dd_select_noset : forall m x fid, dd_set x = None -> dd_select m x fid = x.
Proof. intros m x fid H. unfold dd_select. rewrite H. reflexivity. Qed.

Lemma stream_header_noset : forall d fid, dd_set (d_dict d) = None ->
  dd_stream_header false d true fid = dd_get (dd_with_last (d_dict d) fid).
Proof.
  intros d fid H. unfold dd_stream_header, dd_stale_select. cbn [negb].
  rewrite dd_select_noset; [reflexivity | exact H].
Qed.

(* a prefix is used by the first frame whose header is read, and only by it *)
Lemma d_prefix_first_frame_l : forall d k fid, d_stage d = S_init -> dd_set (d_dict d) = None ->
  let d1 := fst (dctx_refprefix d k) in
  d_next_use d1 fid = (if k =? 0 then DK_none else DK_pfx k)
  /\ dd_uses (d_after_header d1 fid) = 0 /\ dd_set (d_after_header d1 fid) = None.
Proof.
  intros d k fid Hs Hn. cbn zeta. unfold d_next_use, d_after_header.
  rewrite stream_header_noset.
  - unfold dctx_refprefix. rewrite Hs. cbn [stage_is_init negb fst dctx_set_dict d_dict dd_with_last dd_uses dd_kind dd_set dd_get].
    cbn [Z.eqb]. cbn [snd fst dd_uses dd_set]. repeat split. exact Hn.
  - unfold dctx_refprefix. rewrite Hs. cbn [stage_is_init negb fst dctx_set_dict d_dict dd_set]. exact Hn.
Qed.

(* ---- invariants over histories of calls *)
(* calls that attach / detach a dictionary on decompression context [o] *)
Definition d_attach (o : bool) (x : op) : bool :=
  match x with
  | ODRefDDict o' _ | ODLoad o' _ | ODRefPrefix o' _ => Bool.eqb o o'
  | ONew => true
  | _ => false
  end.
(* ... or reset its parameters / set a parameter *)
Definition d_drop (o : bool) (x : op) : bool := d_attach o x || touches_dparams o x.

(* "no dictionary will be used any more": dictUses = dont_use and no set of DDicts to select from *)
Definition d_spent (d : dctx) : Prop := dd_uses (d_dict d) = 0 /\ dd_set (d_dict d) = None.

Lemma dd_get_spent : forall x, dd_uses x = 0 -> dd_set x = None ->
  dd_uses (fst (dd_get x)) = 0 /\ dd_set (fst (dd_get x)) = None /\ snd (dd_get x) = DK_none.
Proof. intros x Hu Hn. unfold dd_get. rewrite Hu. cbn. auto. Qed.

Lemma stream_header_spent : forall d fmt fid, d_spent d ->
  dd_uses (fst (dd_stream_header false d fmt fid)) = 0 /\ dd_set (fst (dd_stream_header false d fmt fid)) = None
  /\ snd (dd_stream_header false d fmt fid) = DK_none.
Proof.
  intros d fmt fid [Hu Hn]. unfold dd_stream_header, dd_stale_select. destruct fmt; cbn [negb].
  - rewrite dd_select_noset by exact Hn. apply dd_get_spent; assumption.
  - cbn [fst snd dd_with_last dd_uses dd_set]. auto.
Qed.

Lemma oneshot_frames_noset : forall st m fs x start, dd_set x = None ->
  dd_set (fst (dd_oneshot_frames st m x start fs)) = None
  /\ dd_uses (fst (dd_oneshot_frames st m x start fs)) = dd_uses x
  /\ dd_kind (fst (dd_oneshot_frames st m x start fs)) = dd_kind x.
Proof.
  induction fs as [|f fs IH]; intros x start Hn; cbn [dd_oneshot_frames fst]; [auto|].
  unfold dd_oneshot_frame. rewrite Hn. rewrite dd_select_noset by exact Hn.
  destruct (dkind_matches _ f).
  - destruct (IH (dd_with_last x (frame_fid f)) start Hn) as (A & B & C). auto.
  - cbn [fst dd_with_last dd_set dd_uses dd_kind]. auto.
Qed.

Lemma d_spent_step : forall w x o, d_attach o x = false -> d_spent (get_d w o) -> d_spent (get_d (fst (step w x)) o).
Proof.
  intros w x o Ht Hsp.
  destruct x; cbn [step d_attach] in *;
    repeat match goal with |- context [let '(_, _) := ?e in _] => destruct e eqn:?E end;
    cbn [fst]; rewrite ?get_d_put_c, ?get_d_put_p; try exact Hsp; try discriminate Ht;
    try (revert Ht; destruct (Bool.eqb_spec o o0) as [->|Hne]; intro Ht;
         [ try discriminate Ht; rewrite get_put_d_same | rewrite get_put_d_other by assumption; exact Hsp ]).
  - (* ODSet *) destruct (dctx_set_cases (get_d w o0) id v) as [(e & E')|(p & _ & _ & E' & _)]; rewrite E' in E; injection E as <- _;
      [exact Hsp | destruct p; exact Hsp].
  - (* ODReset *) revert E. unfold dctx_reset. destruct Hsp as [Hu Hn].
    destruct (_ || _); destruct (_ || _); cbn [dctx_set_stage d_stage stage_is_init];
      try destruct (d_stage (get_d w o0)); cbn [stage_is_init]; intro E; injection E as <- _;
      split; cbn; first [assumption | reflexivity].
  - (* ODMaxWin *) revert E. unfold dctx_set_max_window_size. destruct (dbounds D_windowLogMax) as [[lo hi]|]; [|intro E; injection E as <- _; exact Hsp].
    destruct (negb _); [intro E; injection E as <- _; exact Hsp|].
    destruct (_ <? _); [intro E; injection E as <- _; exact Hsp|]. destruct (_ >? _); intro E; injection E as <- _; exact Hsp.
  - (* ODBegin *) unfold dctx_begin, dctx_begin_gen, d_spent. cbn [d_dict dctx_set_stage dctx_set_dict dd_stale_select].
    destruct (d_format (get_d w o0) =? 1); [destruct (stream_header_spent (get_d w o0) true 0 Hsp) as (A & B & _); auto | exact Hsp].
  - (* ODEnd *) unfold dctx_end, dctx_end_gen, d_spent. cbn [d_dict dctx_set_stage dctx_set_dict].
    destruct (d_format (get_d w o0) =? 1); [exact Hsp | destruct (stream_header_spent (get_d w o0) true 0 Hsp) as (A & B & _); auto].
  - (* ODBad *) unfold dctx_bad, dctx_bad_gen, d_spent. cbn [d_dict dctx_set_stage dctx_set_dict].
    destruct (stream_header_spent (get_d w o0) false 0 Hsp) as (A & B & _); auto.
  - (* ODFrame *) unfold dctx_frame, dctx_frame_gen, d_spent. cbn [d_dict dctx_set_stage dctx_set_dict].
    destruct (stream_header_spent (get_d w o0) true 0 Hsp) as (A & B & _); auto.
  - (* ODFx *) unfold dctx_fx, dctx_fx_gen, d_spent. cbv zeta. destruct (_ && _ && _); cbn [d_dict dctx_set_stage dctx_set_dict].
    + unfold dd_fx_pre, dd_stale_select. destruct Hsp as [Hu Hn]. rewrite dd_select_noset by exact Hn. split; assumption.
    + destruct (stream_header_spent (get_d w o0) (d_format (get_d w o0) =? (if k =? 1 then 1 else 0)) (if k =? 4 then 1 else 0) Hsp) as (A & B & _); auto.
  - (* ODDec *) revert E. unfold dctx_dec_stream.
    rewrite stream_disp_not_once by (unfold dd_fx_pre, dd_stale_select; destruct Hsp as [Hu Hn]; rewrite dd_select_noset by exact Hn;
                                     cbn [dd_with_last dd_uses]; rewrite Hu; discriminate).
    unfold dctx_dec_stream_gen.
    destruct (stream_header_spent (get_d w o0) (d_format (get_d w o0) =? 0) (frame_fid f) Hsp) as (A & B & _).
    destruct (dd_stream_header false (get_d w o0) (d_format (get_d w o0) =? 0) (frame_fid f)) as [x u]. cbn [fst] in A, B.
    intro E; injection E as <- _. split; assumption.
  - (* ODDec1 *) revert E. destruct Hsp as [Hu Hn]. unfold dctx_dec_oneshot. rewrite oneshot_disp_not_once by (rewrite Hu; discriminate).
    unfold dctx_dec_oneshot_gen.
    destruct (dd_get_spent _ Hu Hn) as (A & B & C). destruct (dd_get (d_dict (get_d w o0))) as [x0 start]. cbn [fst snd] in A, B, C.
    destruct (negb _); [intro E; injection E as <- _; split; assumption|].
    destruct (oneshot_frames_noset false (d_refMultipleDDicts (get_d w o0) =? 1) fs x0 start B) as (A1 & B1 & _).
    destruct (dd_oneshot_frames _ _ x0 start fs) as [x1 ok]. cbn [fst] in A1, B1.
    intro E; injection E as <- _. split; cbn; [rewrite B1; exact A | exact A1].
  - (* ODDecU *) revert E. unfold dctx_dec_using, dctx_dec_using_gen. destruct Hsp as [Hu Hn].
    destruct (negb _); [intro E; injection E as <- _; split; assumption|].
    unfold dd_oneshot_frame. rewrite Hn. rewrite dd_select_noset by exact Hn.
    intro E; injection E as <- _. split; assumption.
  - (* ODDecR *) revert E. unfold dctx_dec_raw, dctx_dec_raw_gen. destruct Hsp as [Hu Hn].
    destruct (negb _); [intro E; injection E as <- _; split; assumption|].
    cbv zeta. rewrite dd_select_noset by exact Hn.
    intro E; injection E as <- _. split; assumption.
Qed.

(* single use over every history: once the prefix has been handed to a frame, no later frame gets a dictionary until the next
   attaching call; ... *)
Lemma d_spent_history_l : forall ops w o,
  Forall (fun x => d_attach o x = false) ops -> d_spent (get_d w o) ->
  d_spent (get_d (run w ops) o) /\ forall fmt fid, snd (dd_stream_header false (get_d (run w ops) o) fmt fid) = DK_none.
Proof.
  induction ops as [|x ops IH]; intros w o Hf Hsp.
  - split; [exact Hsp|]. intros fmt fid. apply stream_header_spent. exact Hsp.
  - inversion Hf; subst. unfold run. cbn [fold_left]. fold (run (fst (step w x)) ops).
    apply IH; [assumption | apply d_spent_step; assumption].
Qed.

(* ... a dictionary attached with refDDict / loadDictionary (without ZSTD_d_refMultipleDDicts) stays the one every frame uses
   until a call that attaches another one, resets the parameters or changes a parameter *)
Definition d_holds (d : dctx) (k : dkind) : Prop :=
  dd_uses (d_dict d) = 2 /\ dd_kind (d_dict d) = k /\ dd_set (d_dict d) = None.

Lemma dd_get_indef : forall x, dd_uses x = 2 -> dd_get x = (x, dd_kind x).
Proof. intros x H. unfold dd_get. rewrite H. reflexivity. Qed.

Lemma stream_header_holds : forall d k fmt fid, d_holds d k ->
  dd_uses (fst (dd_stream_header false d fmt fid)) = 2 /\ dd_kind (fst (dd_stream_header false d fmt fid)) = k
  /\ dd_set (fst (dd_stream_header false d fmt fid)) = None
  /\ (fmt = true -> snd (dd_stream_header false d fmt fid) = k).
Proof.
  intros d k fmt fid (Hu & Hk & Hn). unfold dd_stream_header, dd_stale_select. destruct fmt; cbn [negb].
  - rewrite dd_select_noset by exact Hn. unfold dd_get. cbn [dd_with_last dd_uses]. rewrite Hu. cbn. auto.
  - cbn. repeat split; try assumption. intro H; discriminate H.
Qed.

Lemma d_holds_step : forall w x o k, d_drop o x = false -> d_holds (get_d w o) k -> d_holds (get_d (fst (step w x)) o) k.
Proof.
  intros w x o k Ht Hh. unfold d_drop in Ht. apply Bool.orb_false_iff in Ht. destruct Ht as [Ha Ht].
  destruct x; cbn [step d_attach touches_dparams] in *;
    repeat match goal with |- context [let '(_, _) := ?e in _] => destruct e eqn:?E end;
    cbn [fst]; rewrite ?get_d_put_c, ?get_d_put_p; try exact Hh; try discriminate Ha; try discriminate Ht;
    try (revert Ha Ht; destruct (Bool.eqb_spec o o0) as [->|Hne]; intros Ha Ht;
         [ try discriminate Ha; try discriminate Ht; rewrite get_put_d_same | rewrite get_put_d_other by assumption; exact Hh ]).
  - unfold dctx_begin, dctx_begin_gen, d_holds. cbn [d_dict dctx_set_stage dctx_set_dict dd_stale_select].
    destruct (d_format (get_d w o0) =? 1); [destruct (stream_header_holds _ k true 0 Hh) as (A & B & C & _); auto | exact Hh].
  - unfold dctx_end, dctx_end_gen, d_holds. cbn [d_dict dctx_set_stage dctx_set_dict].
    destruct (d_format (get_d w o0) =? 1); [exact Hh | destruct (stream_header_holds _ k true 0 Hh) as (A & B & C & _); auto].
  - unfold dctx_bad, dctx_bad_gen, d_holds. cbn [d_dict dctx_set_stage dctx_set_dict].
    destruct (stream_header_holds _ k false 0 Hh) as (A & B & C & _); auto.
  - unfold dctx_frame, dctx_frame_gen, d_holds. cbn [d_dict dctx_set_stage dctx_set_dict].
    destruct (stream_header_holds _ k true 0 Hh) as (A & B & C & _); auto.
  - unfold dctx_fx, dctx_fx_gen, d_holds. cbv zeta. destruct (_ && _ && _); cbn [d_dict dctx_set_stage dctx_set_dict].
    + unfold dd_fx_pre, dd_stale_select. destruct Hh as (Hu & Hk & Hn). rewrite dd_select_noset by exact Hn. repeat split; assumption.
    + destruct (stream_header_holds _ k (d_format (get_d w o0) =? (if k0 =? 1 then 1 else 0)) (if k0 =? 4 then 1 else 0) Hh) as (A & B & C & _); auto.
  - revert E. unfold dctx_dec_stream.
    rewrite stream_disp_not_once by (unfold dd_fx_pre, dd_stale_select; destruct Hh as (Hu & Hk & Hn); rewrite dd_select_noset by exact Hn;
                                     cbn [dd_with_last dd_uses]; rewrite Hu; discriminate).
    unfold dctx_dec_stream_gen.
    destruct (stream_header_holds _ k (d_format (get_d w o0) =? 0) (frame_fid f) Hh) as (A & B & C & _).
    destruct (dd_stream_header false (get_d w o0) (d_format (get_d w o0) =? 0) (frame_fid f)) as [x u]. cbn [fst] in A, B, C.
    intro E; injection E as <- _. repeat split; assumption.
  - revert E. destruct Hh as (Hu & Hk & Hn). unfold dctx_dec_oneshot. rewrite oneshot_disp_not_once by (rewrite Hu; discriminate).
    unfold dctx_dec_oneshot_gen.
    rewrite (dd_get_indef _ Hu). cbv beta iota.
    destruct (negb _); [intro E; injection E as <- _; repeat split; assumption|].
    destruct (oneshot_frames_noset false (d_refMultipleDDicts (get_d w o0) =? 1) fs (d_dict (get_d w o0)) (dd_kind (d_dict (get_d w o0))) Hn) as (A1 & B1 & C1).
    destruct (dd_oneshot_frames _ _ _ _ fs) as [x1 ok]. cbn [fst] in A1, B1, C1.
    intro E; injection E as <- _. repeat split; cbn; congruence.
  - revert E. unfold dctx_dec_using, dctx_dec_using_gen. destruct Hh as (Hu & Hk & Hn).
    destruct (negb _); [intro E; injection E as <- _; repeat split; assumption|].
    unfold dd_oneshot_frame. rewrite Hn. rewrite dd_select_noset by exact Hn.
    intro E; injection E as <- _. repeat split; assumption.
  - revert E. unfold dctx_dec_raw, dctx_dec_raw_gen. destruct Hh as (Hu & Hk & Hn).
    destruct (negb _); [intro E; injection E as <- _; repeat split; assumption|].
    cbv zeta. rewrite dd_select_noset by exact Hn.
    intro E; injection E as <- _. repeat split; assumption.
Qed.

Lemma d_dict_sticky_l : forall ops w o k,
  Forall (fun x => d_drop o x = false) ops -> d_holds (get_d w o) k ->
  d_holds (get_d (run w ops) o) k /\ forall fid, d_next_use (get_d (run w ops) o) fid = k.
Proof.
  induction ops as [|x ops IH]; intros w o k Hf Hh.
  - split; [exact Hh|]. intro fid. unfold d_next_use. apply (stream_header_holds _ k true fid Hh). reflexivity.
  - inversion Hf; subst. unfold run. cbn [fold_left]. fold (run (fst (step w x)) ops).
    apply IH; [assumption | apply d_holds_step; assumption].
Qed.

(* session-only reset keeps the dictionary state (also a pending prefix); a parameter reset drops it *)
Lemma d_reset_dict_rules_l : forall d dir,
  (is_session dir = true -> is_params dir = false -> d_dict (fst (dctx_reset d dir)) = d_dict d)
  /\ (is_params dir = true -> (d_stage d = S_init \/ is_session dir = true) ->
      dd_kind (d_dict (fst (dctx_reset d dir))) = DK_none /\ dd_uses (d_dict (fst (dctx_reset d dir))) = 0
      /\ dd_set (d_dict (fst (dctx_reset d dir))) = None).
Proof.
  intros d dir. split.
  - intros Hs Hp. rewrite (d_reset_session_keeps_parameters_l d dir Hs Hp). reflexivity.
  - intros Hp Hs. destruct (d_reset_parameters_restores_defaults_l d dir Hp Hs) as [E _]. rewrite E. cbn. auto.
Qed.

(* ---- ZSTD_d_refMultipleDDicts: with both dictionaries referenced, every frame is decoded with the DDict its header names,
   whatever was decoded before (streaming and one-shot) *)
Definition x_multi (x : ddicts) : Prop :=
  dd_uses x = 2
  /\ exists l j, dd_set x = Some l /\ existsb (Z.eqb 0) l = false /\ existsb (Z.eqb 1) l = true /\ existsb (Z.eqb 2) l = true
                 /\ dd_kind x = DK_ref j /\ (j = 1 \/ j = 2).
Definition d_multi (d : dctx) : Prop := d_refMultipleDDicts d = 1 /\ d_format d = 0 /\ x_multi (d_dict d).

Definition fid_ok (fid : Z) : Prop := fid = 0 \/ fid = 1 \/ fid = 2.

Lemma frame_fid_ok : forall f, fid_ok (frame_fid f).
Proof.
  intro f. unfold frame_fid, fid_ok. destruct (Z.eqb_spec f 1); [subst; cbn; auto|]. destruct (Z.eqb_spec f 2); [subst; cbn; auto|].
  cbn. auto.
Qed.

Lemma select_multi : forall x fid, x_multi x -> fid_ok fid ->
  x_multi (dd_select true (dd_with_last x fid) fid)
  /\ (fid <> 0 -> dd_kind (dd_select true (dd_with_last x fid) fid) = DK_ref fid)
  /\ (fid = 0 -> dd_kind (dd_select true (dd_with_last x fid) fid) = dd_kind x).
Proof.
  intros x fid (Hu & l & j & Hs & H0 & H1 & H2 & Hk & Hj) Hf.
  assert (Hh : dd_selectable (dd_with_last x fid) = true) by (unfold dd_selectable; cbn [dd_with_last dd_kind dd_uses]; rewrite Hk, Hu; reflexivity).
  unfold dd_select. rewrite Hh. cbn [dd_with_last dd_set]. rewrite Hs. cbn [andb].
  destruct Hf as [-> | [-> | ->]].
  - rewrite H0. split; [|split]; [|intro H; contradiction H; reflexivity|intros _; reflexivity].
    split; [exact Hu|]. exists l, j. cbn [dd_set dd_kind]. auto 10.
  - rewrite H1. split; [|split]; [|intros _; reflexivity|intro H; discriminate H].
    split; [reflexivity|]. exists l, 1. cbn [dd_set dd_kind]. auto 10.
  - rewrite H2. split; [|split]; [|intros _; reflexivity|intro H; discriminate H].
    split; [reflexivity|]. exists l, 2. cbn [dd_set dd_kind]. auto 10.
Qed.

Lemma x_multi_last : forall x fid, x_multi x -> x_multi (dd_with_last x fid).
Proof. intros x fid (Hu & l & j & H). split; [exact Hu|]. exists l, j. exact H. Qed.

Lemma stream_header_multi : forall d fmt fid, d_multi d -> fid_ok fid ->
  x_multi (fst (dd_stream_header false d fmt fid))
  /\ (fmt = true -> fid <> 0 -> snd (dd_stream_header false d fmt fid) = DK_ref fid)
  /\ (fmt = true -> fid = 0 -> exists j, snd (dd_stream_header false d fmt fid) = DK_ref j).
Proof.
  intros d fmt fid (Hm & Hfm & Hx) Hf. unfold dd_stream_header, dd_stale_select. rewrite Hm. cbn [Z.eqb Pos.eqb].
  destruct fmt; cbn [negb].
  - destruct (select_multi (d_dict d) fid Hx Hf) as (A & B & C).
    pose proof A as (Au & _). rewrite (dd_get_indef _ Au). cbn [fst snd].
    split; [exact A|]. split; [intros _ Hn; exact (B Hn)|]. intros _ H0. rewrite (C H0).
    destruct Hx as (_ & l & j & _ & _ & _ & _ & Hk & _). exists j. exact Hk.
  - cbn [fst snd]. split; [apply x_multi_last; exact Hx|]. split; intro H; discriminate H.
Qed.

Lemma oneshot_frames_multi : forall fs x j, x_multi x -> (forall f, In f fs -> f = 0 \/ f = 1 \/ f = 2) ->
  x_multi (fst (dd_oneshot_frames false true x (DK_ref j) fs)) /\ snd (dd_oneshot_frames false true x (DK_ref j) fs) = true.
Proof.
  induction fs as [|f fs IH]; intros x j Hx Hfs; cbn [dd_oneshot_frames fst snd]; [auto|].
  assert (Hf : f = 0 \/ f = 1 \/ f = 2) by (apply Hfs; left; reflexivity).
  unfold dd_oneshot_frame.
  destruct (select_multi x (frame_fid f) Hx (frame_fid_ok f)) as (A & B & C).
  pose proof Hx as (Hu & l & j0 & Hs & H0 & H1 & H2 & Hk & Hj). rewrite Hs. unfold dd_preselectable, dd_selectable. rewrite Hk, Hu. cbn [andb negb Z.eqb].
  destruct Hf as [-> | [-> | ->]]; cbn [frame_fid Z.eqb Pos.eqb orb]; rewrite ?H0, ?H1, ?H2; cbn [dkind_matches Z.eqb Pos.eqb andb orb];
    apply IH; try exact A; intros g Hg; apply Hfs; right; exact Hg.
Qed.

Lemma d_multi_intro : forall d x s, d_refMultipleDDicts d = 1 -> d_format d = 0 -> x_multi x ->
  d_multi (dctx_set_stage (dctx_set_dict d x) s).
Proof. intros d x s H1 H2 H3. unfold d_multi. cbn [d_refMultipleDDicts d_format d_dict dctx_set_stage dctx_set_dict]. auto. Qed.

Lemma d_multi_decodes_l : forall d, d_multi d ->
  (forall f, f = 0 \/ f = 1 \/ f = 2 ->
     snd (dctx_dec_stream d f) = Ok /\ d_multi (fst (dctx_dec_stream d f))
     /\ (f <> 0 -> d_next_use d f = DK_ref f))
  /\ (forall fs, (forall f, In f fs -> f = 0 \/ f = 1 \/ f = 2) ->
        snd (dctx_dec_oneshot d fs) = Ok /\ d_multi (fst (dctx_dec_oneshot d fs))).
Proof.
  intros d Hd. pose proof Hd as (Hm & Hfm & Hx). split.
  - intros f Hf. unfold dctx_dec_stream.
    rewrite stream_disp_not_once by (unfold dd_fx_pre, dd_stale_select; rewrite Hm; cbn [Z.eqb Pos.eqb];
                                     destruct (select_multi _ _ Hx (frame_fid_ok f)) as ((U & _) & _); rewrite U; discriminate).
    unfold dctx_dec_stream_gen, d_next_use. rewrite Hfm. cbn [Z.eqb].
    destruct (stream_header_multi d true (frame_fid f) Hd (frame_fid_ok f)) as (A & B & C).
    destruct (dd_stream_header false d true (frame_fid f)) as [x u] eqn:E. cbn [fst snd andb] in *.
    assert (Hmatch : dkind_matches u f = true).
    { destruct Hf as [-> | [-> | ->]].
      - reflexivity.
      - rewrite (B eq_refl) by (cbn; discriminate). reflexivity.
      - rewrite (B eq_refl) by (cbn; discriminate). reflexivity. }
    rewrite Hmatch. split; [reflexivity|]. split.
    + cbn [fst]. apply d_multi_intro; assumption.
    + intro Hn. destruct Hf as [-> | [-> | ->]]; [contradiction Hn; reflexivity | |].
      * replace (dd_stream_header false d true 1) with (dd_stream_header false d true (frame_fid 1)) by reflexivity.
        rewrite E. cbn [snd]. apply (B eq_refl). cbn. discriminate.
      * replace (dd_stream_header false d true 2) with (dd_stream_header false d true (frame_fid 2)) by reflexivity.
        rewrite E. cbn [snd]. apply (B eq_refl). cbn. discriminate.
  - intros fs Hfs. pose proof Hx as (Hu & l & j & Hs & H0 & H1 & H2 & Hk & Hj).
    unfold dctx_dec_oneshot. rewrite oneshot_disp_not_once by (rewrite Hu; discriminate). unfold dctx_dec_oneshot_gen.
    rewrite (dd_get_indef _ Hu). cbv beta iota. rewrite Hfm, Hm, Hk. cbn [Z.eqb Pos.eqb negb].
    destruct (oneshot_frames_multi fs (d_dict d) j Hx Hfs) as (A & B).
    destruct (dd_oneshot_frames false true (d_dict d) (DK_ref j) fs) as [x1 ok]. cbn [fst snd] in *. subst ok.
    split; [reflexivity|]. apply d_multi_intro; assumption.
Qed.

(* reaching that state: ZSTD_d_refMultipleDDicts = 1, then both dictionaries referenced (in either order) *)
Lemma d_multi_reached_l : forall d a b, d_stage d = S_init -> d_refMultipleDDicts d = 1 -> d_format d = 0 ->
  dd_set (d_dict d) = None -> ((a = 1 /\ b = 2) \/ (a = 2 /\ b = 1)) ->
  d_multi (fst (dctx_refddict (fst (dctx_refddict d a)) b)).
Proof.
  intros d a b Hs Hm Hf Hn Hab.
  destruct d as [f mw ob ic rm ha mb st dd sta]. destruct dd as [u k s l]. cbn in Hs, Hm, Hf, Hn. subst st rm f s.
  destruct Hab as [[-> ->]|[-> ->]]; cbn;
    (split; [reflexivity|]; split; [reflexivity|]; split; [reflexivity|]); eexists _, _; cbn; auto 10.
Qed.

(* the invariant survives every call that neither attaches a dictionary nor touches a parameter: the DDict chosen for a frame
   never depends on the frames decoded before *)
Lemma d_multi_same : forall d d', dsame d d' -> d_dict d' = d_dict d -> d_multi d -> d_multi d'.
Proof. intros d d' (E1 & _ & _ & _ & E5 & _) Ed (Hm & Hf & Hx). unfold d_multi. rewrite E1, E5, Ed. auto. Qed.

Lemma d_multi_step : forall w x o, d_drop o x = false -> d_multi (get_d w o) -> d_multi (get_d (fst (step w x)) o).
Proof.
  intros w x o Ht Hh. unfold d_drop in Ht. apply Bool.orb_false_iff in Ht. destruct Ht as [Ha Ht].
  pose proof Hh as (Hm & Hfm & Hx).
  destruct x; cbn [step d_attach touches_dparams] in *;
    repeat match goal with |- context [let '(_, _) := ?e in _] => destruct e eqn:?E end;
    cbn [fst]; rewrite ?get_d_put_c, ?get_d_put_p; try exact Hh; try discriminate Ha; try discriminate Ht;
    try (revert Ha Ht; destruct (Bool.eqb_spec o o0) as [->|Hne]; intros Ha Ht;
         [ try discriminate Ha; try discriminate Ht; rewrite get_put_d_same | rewrite get_put_d_other by assumption; exact Hh ]).
  - unfold dctx_begin, dctx_begin_gen, d_multi. cbn [d_dict dctx_set_stage dctx_set_dict dd_stale_select d_refMultipleDDicts d_format].
    rewrite Hfm. cbn [Z.eqb]. auto.
  - unfold dctx_end, dctx_end_gen. rewrite Hfm. cbn [Z.eqb]. destruct (stream_header_multi _ true 0 Hh (or_introl eq_refl)) as (A & _).
    apply d_multi_intro; assumption.
  - unfold dctx_bad, dctx_bad_gen.
    destruct (stream_header_multi _ false 0 Hh (or_introl eq_refl)) as (A & _). apply d_multi_intro; assumption.
  - unfold dctx_frame, dctx_frame_gen.
    destruct (stream_header_multi _ true 0 Hh (or_introl eq_refl)) as (A & _). apply d_multi_intro; assumption.
  - unfold dctx_fx, dctx_fx_gen. cbv zeta.
    assert (Hk : fid_ok (if k =? 4 then 1 else 0)) by (unfold fid_ok; destruct (k =? 4); auto).
    destruct (_ && _ && _).
    + apply d_multi_intro; try assumption. unfold dd_fx_pre, dd_stale_select. rewrite Hm. cbn [Z.eqb Pos.eqb].
      exact (proj1 (select_multi _ _ Hx Hk)).
    + destruct (stream_header_multi _ (d_format (get_d w o0) =? (if k =? 1 then 1 else 0)) _ Hh Hk) as (A & _). apply d_multi_intro; assumption.
  - revert E. unfold dctx_dec_stream.
    rewrite stream_disp_not_once by (unfold dd_fx_pre, dd_stale_select; rewrite Hm; cbn [Z.eqb Pos.eqb];
                                     destruct (select_multi _ _ Hx (frame_fid_ok f)) as ((U & _) & _); rewrite U; discriminate).
    unfold dctx_dec_stream_gen.
    destruct (stream_header_multi _ (d_format (get_d w o0) =? 0) (frame_fid f) Hh (frame_fid_ok f)) as (A & _).
    destruct (dd_stream_header false (get_d w o0) (d_format (get_d w o0) =? 0) (frame_fid f)) as [x u]. cbn [fst] in A.
    intro E; injection E as <- _. apply d_multi_intro; assumption.
  - revert E. pose proof Hx as (Hu & l & j & Hs & H0 & H1 & H2 & Hk & Hj).
    unfold dctx_dec_oneshot. rewrite oneshot_disp_not_once by (rewrite Hu; discriminate). unfold dctx_dec_oneshot_gen.
    rewrite (dd_get_indef _ Hu). cbv beta iota. rewrite Hfm, Hm, Hk. cbn [Z.eqb Pos.eqb negb].
    assert (G : forall fs x j, x_multi x -> x_multi (fst (dd_oneshot_frames false true x (DK_ref j) fs))).
    { clear. induction fs as [|f fs IH]; intros x j Hx; cbn [dd_oneshot_frames fst]; [exact Hx|].
      unfold dd_oneshot_frame. destruct (select_multi x (frame_fid f) Hx (frame_fid_ok f)) as (A & _).
      destruct (dkind_matches _ f); [|exact A].
      match goal with |- context [dd_oneshot_frames false true _ ?st fs] => destruct st eqn:Est end;
        try (apply IH; exact A).
      all: revert Est; destruct (_ && _ && _); intro Est; discriminate Est. }
    pose proof (G fs (d_dict (get_d w o0)) j Hx) as A.
    destruct (dd_oneshot_frames false true (d_dict (get_d w o0)) (DK_ref j) fs) as [x1 ok]. cbn [fst] in A.
    intro E; injection E as <- _. apply d_multi_intro; assumption.
  - revert E. unfold dctx_dec_using, dctx_dec_using_gen. rewrite Hfm, Hm. cbn [Z.eqb Pos.eqb negb].
    unfold dd_oneshot_frame. destruct (select_multi (d_dict (get_d w o0)) (frame_fid f) Hx (frame_fid_ok f)) as (A & _).
    intro E; injection E as <- _. apply d_multi_intro; assumption.
  - revert E. unfold dctx_dec_raw, dctx_dec_raw_gen. rewrite Hfm, Hm. cbn [Z.eqb Pos.eqb negb]. cbv zeta.
    destruct (select_multi (d_dict (get_d w o0)) (frame_fid f) Hx (frame_fid_ok f)) as (A & _).
    intro E; injection E as <- _. apply d_multi_intro; assumption.
Qed.

Lemma d_multi_history_l : forall ops w o,
  Forall (fun x => d_drop o x = false) ops -> d_multi (get_d w o) ->
  let d := get_d (run w ops) o in
  d_multi d /\ (forall f, f = 1 \/ f = 2 -> snd (dctx_dec_stream d f) = Ok /\ d_next_use d f = DK_ref f /\ snd (dctx_dec_oneshot d [f]) = Ok).
Proof.
  induction ops as [|x ops IH]; intros w o Hf Hh.
  - cbn zeta. split; [exact Hh|]. intros f Hf1. destruct (d_multi_decodes_l _ Hh) as (A & B).
    destruct (A f (or_intror Hf1)) as (A1 & _ & A3). split; [exact A1|]. split.
    + apply A3. destruct Hf1; subst; discriminate.
    + apply B. intros g [<-|[]]. right. exact Hf1.
  - inversion Hf; subst. unfold run. cbn [fold_left]. fold (run (fst (step w x)) ops).
    apply IH; [assumption | apply d_multi_step; assumption].
Qed.

(* ---- the two repaired findings, as refutations on the code-as-it-was variants *)
(* F29 (fixed by a24560c): selection by the dictID of the PREVIOUS frame.  refMultiple = 1, refDDict(1), a frame of
   dictionary 1 decoded, loadDictionary(2): the frame of dictionary 2 is refused, although it decodes in the current tree *)
(* round 3: since the selection only replaces a referenced DDict (fix d0ddbff), the scenario that shows the old defect in the model
   ends with DDict 2 referenced while the parameter is off (so that it is not in the set), then the parameter on again *)
Definition f29_tail (d : dctx) : dctx :=
  fst (dctx_set (fst (dctx_refddict (fst (dctx_set d z_ZSTD_d_refMultipleDDicts 0)) 2)) z_ZSTD_d_refMultipleDDicts 1).
Definition f29_ctx : dctx :=
  f29_tail (fst (dctx_dec_stream_gen true (fst (dctx_refddict (fst (dctx_set (dctx_new false) z_ZSTD_d_refMultipleDDicts 1)) 1)) 1)).
Definition f29_ctx_now : dctx :=
  f29_tail (fst (dctx_dec_stream (fst (dctx_refddict (fst (dctx_set (dctx_new false) z_ZSTD_d_refMultipleDDicts 1)) 1)) 1)).
Lemma stale_dictid_selection_refuted_l :
  snd (dctx_dec_stream_gen true f29_ctx 2) <> Ok /\ snd (dctx_dec_stream f29_ctx_now 2) = Ok.
Proof. split; vm_compute; [discriminate | reflexivity]. Qed.

(* F30 (fixed by 70fa663): one-shot decoding started from the previously active DDict.  refMultiple = 1, refDDict(1),
   refDDict(2), ZSTD_decompressDCtx(frame of dictionary 1) *)
Definition f30_ctx : dctx :=
  fst (dctx_refddict (fst (dctx_refddict (fst (dctx_set (dctx_new false) z_ZSTD_d_refMultipleDDicts 1)) 1)) 2).
Lemma oneshot_stale_tables_refuted_l :
  snd (dctx_dec_oneshot_gen true f30_ctx [1]) <> Ok /\ snd (dctx_dec_oneshot f30_ctx [1]) = Ok /\ d_multi f30_ctx.
Proof.
  split; [vm_compute; discriminate|]. split; [vm_compute; reflexivity|].
  unfold f30_ctx. apply d_multi_reached_l; try (vm_compute; reflexivity). left. split; reflexivity.
Qed.

Example ex_multi_satisfiable : exists d, d_multi d.
Proof. exists f30_ctx. apply oneshot_stale_tables_refuted_l. Qed.
