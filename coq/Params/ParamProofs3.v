(* C16 round 3 - proofs about the decoder-side repairs of this round (fixes b70602d, 9260ac3) and the single-call
   compression closing an open streaming session (fix 38ec6ea), on ParamModel.v. *)
From Coq Require Import ZArith List Bool Lia.
From ZV.Gen Require Import Gen_Bounds.
From ZV.Params Require Import BoundsModel CParamsAdjust ParamModel ParamProofs ParamProofs2.
Import ListNotations.
Local Open Scope Z_scope.

(* ------------------------------------------------------------------ "this context no longer knows DDict k":
   it is not the active dictionary and it is not a member of the set ZSTD_d_refMultipleDDicts selects from *)
Definition x_forgot (x : ddicts) (k : Z) : Prop :=
  dd_kind x <> DK_ref k /\ (forall l, dd_set x = Some l -> existsb (Z.eqb k) l = false).
Definition d_forgot (d : dctx) (k : Z) : Prop := x_forgot (d_dict d) k.

(* the call that makes a context know DDict k again *)
Definition d_refs (o : bool) (k : Z) (x : op) : bool :=
  match x with
  | ODRefDDict o' k' => Bool.eqb o o' && Z.eqb k' k
  | _ => false
  end.

Lemma forgot_with_last : forall x k fid, x_forgot x k -> x_forgot (dd_with_last x fid) k.
Proof. intros x k fid H. exact H. Qed.

Lemma forgot_clear : forall x k, x_forgot x k -> x_forgot (dd_clear x) k.
Proof. intros x k [_ H]. split; [discriminate | exact H]. Qed.

Lemma forgot_drop : forall x k, x_forgot (dd_drop x) k.
Proof. intros x k. split; [discriminate | intros l H; discriminate H]. Qed.

Lemma forgot_empty : forall k, x_forgot dd_empty k.
Proof. intro k. split; [discriminate | intros l H; discriminate H]. Qed.

Lemma existsb_eqb_neq : forall l a b, existsb (Z.eqb a) l = false -> existsb (Z.eqb b) l = true -> b <> a.
Proof. intros l a b Ha Hb E. subst b. rewrite Ha in Hb. discriminate Hb. Qed.

Lemma forgot_select : forall m x k fid, x_forgot x k -> x_forgot (dd_select m x fid) k.
Proof.
  intros m x k fid H. pose proof H as [Hk Hs]. unfold dd_select. destruct (dd_set x) as [l|] eqn:El; [|exact H].
  destruct (m && dd_selectable x && existsb (Z.eqb fid) l) eqn:Ec; [|exact H].
  apply andb_true_iff in Ec. destruct Ec as [_ Ec].
  split; cbn [dd_kind dd_set].
  - intro E. injection E as E. exact (existsb_eqb_neq l k fid (Hs l eq_refl) Ec E).
  - exact Hs.
Qed.

Lemma forgot_get : forall x k, x_forgot x k -> x_forgot (fst (dd_get x)) k /\ snd (dd_get x) <> DK_ref k.
Proof.
  intros x k H. pose proof H as [Hk Hs]. unfold dd_get.
  destruct (dd_uses x =? 0); [split; [apply forgot_clear; exact H | discriminate]|].
  destruct (dd_uses x =? 1); cbn [fst snd]; (split; [|exact Hk]); [split; [exact Hk | exact Hs] | exact H].
Qed.

Lemma forgot_stream_header : forall d fmt fid k, d_forgot d k ->
  x_forgot (fst (dd_stream_header false d fmt fid)) k /\ snd (dd_stream_header false d fmt fid) <> DK_ref k.
Proof.
  intros d fmt fid k H. unfold dd_stream_header, dd_stale_select. destruct fmt; cbn [negb].
  - apply forgot_get, forgot_select, forgot_with_last, H.
  - cbn [fst snd]. split; [apply forgot_with_last, H | discriminate].
Qed.

Lemma forgot_oneshot_frames : forall st m fs x start k, x_forgot x k ->
  x_forgot (fst (dd_oneshot_frames st m x start fs)) k.
Proof.
  induction fs as [|f fs IH]; intros x start k H; cbn [dd_oneshot_frames fst]; [exact H|].
  unfold dd_oneshot_frame.
  assert (A : x_forgot (dd_select m (dd_with_last x (frame_fid f)) (frame_fid f)) k) by (apply forgot_select, forgot_with_last, H).
  destruct (dkind_matches _ f); [apply IH; exact A | exact A].
Qed.

Lemma d_forgot_intro : forall d x s k, x_forgot x k -> d_forgot (dctx_set_stage (dctx_set_dict d x) s) k.
Proof. intros d x s k H. exact H. Qed.

Lemma d_forgot_dsame_dict : forall d d' k, d_dict d' = d_dict d -> d_forgot d k -> d_forgot d' k.
Proof. intros d d' k E H. unfold d_forgot. rewrite E. exact H. Qed.

Lemma dctx_with_dict : forall d p v, d_dict (dctx_with d p v) = d_dict d.
Proof. intros d p v. destruct p; reflexivity. Qed.

Lemma d_forgot_step : forall w x o k, d_refs o k x = false -> d_forgot (get_d w o) k -> d_forgot (get_d (fst (step w x)) o) k.
Proof.
  intros w x o k Ht Hf.
  destruct x; cbn [step d_refs] in *;
    repeat match goal with |- context [let '(_, _) := ?e in _] => destruct e eqn:?E end;
    cbn [fst]; rewrite ?get_d_put_c, ?get_d_put_p; try exact Hf;
    try (destruct (Bool.eqb_spec o o0) as [->|Hne];
         [ rewrite get_put_d_same | rewrite get_put_d_other by assumption; exact Hf ]).
  - (* ODSet *) destruct (dctx_set_cases (get_d w o0) id v) as [(e & E')|(p & _ & _ & E' & _)]; rewrite E' in E; injection E as <- _;
      [exact Hf | eapply d_forgot_dsame_dict; [apply dctx_with_dict | exact Hf]].
  - (* ODReset *) revert E. unfold dctx_reset.
    destruct (_ || _); destruct (_ || _); cbn [dctx_set_stage d_stage stage_is_init];
      try destruct (d_stage (get_d w o0)); cbn [stage_is_init]; intro E; injection E as <- _;
      first [exact Hf | apply forgot_drop].
  - (* ODMaxWin *) revert E. unfold dctx_set_max_window_size. destruct (dbounds D_windowLogMax) as [[lo hi]|]; [|intro E; injection E as <- _; exact Hf].
    destruct (negb _); [intro E; injection E as <- _; exact Hf|].
    destruct (_ <? _); [intro E; injection E as <- _; exact Hf|]. destruct (_ >? _); intro E; injection E as <- _; exact Hf.
  - (* ODBegin *) unfold dctx_begin, dctx_begin_gen. apply d_forgot_intro. cbn [dd_stale_select].
    destruct (d_format (get_d w o0) =? 1); [apply (forgot_stream_header _ true 0 k Hf) | exact Hf].
  - (* ODEnd *) unfold dctx_end, dctx_end_gen. apply d_forgot_intro.
    destruct (d_format (get_d w o0) =? 1); [exact Hf | apply (forgot_stream_header _ true 0 k Hf)].
  - (* ODBad *) unfold dctx_bad, dctx_bad_gen. apply d_forgot_intro. apply (forgot_stream_header _ false 0 k Hf).
  - (* ODFrame *) unfold dctx_frame, dctx_frame_gen. apply d_forgot_intro. apply (forgot_stream_header _ true 0 k Hf).
  - (* ODRefDDict *) cbn [andb] in Ht. apply Z.eqb_neq in Ht.
    revert E. unfold dctx_refddict. destruct (negb _); [intro E; injection E as <- _; exact Hf|].
    destruct (k0 =? 0); intro E; injection E as <- _; [apply forgot_clear; exact Hf|].
    destruct Hf as [Hk Hs]. split; cbn [dctx_set_dict d_dict dd_kind dd_set].
    + intro E. injection E as E. contradiction.
    + destruct (d_refMultipleDDicts (get_d w o0) =? 1); [|exact Hs].
      intros l El. injection El as <-. cbn [existsb]. apply orb_false_iff. split.
      * apply Z.eqb_neq. intro E. apply Ht. symmetry. exact E.
      * destruct (dd_set (d_dict (get_d w o0))) as [l0|]; [apply Hs; reflexivity | reflexivity].
  - (* ONew *) destruct o; apply forgot_empty.
  - (* ODLoad *) revert E. unfold dctx_load. destruct (negb _); [intro E; injection E as <- _; exact Hf|].
    destruct (k0 =? 0); intro E; injection E as <- _; [apply forgot_clear; exact Hf|].
    destruct Hf as [Hk Hs]. split; [discriminate | exact Hs].
  - (* ODRefPrefix *) revert E. unfold dctx_refprefix. destruct (negb _); intro E; injection E as <- _; [exact Hf|].
    destruct Hf as [Hk Hs]. split; [destruct (k0 =? 0); discriminate | exact Hs].
  - (* ODFx *) unfold dctx_fx, dctx_fx_gen. cbv zeta. destruct (_ && _ && _); apply d_forgot_intro.
    + unfold dd_fx_pre, dd_stale_select. apply forgot_select, forgot_with_last, Hf.
    + apply (forgot_stream_header _ _ _ k Hf).
  - (* ODDec *) revert E. unfold dctx_dec_stream, dctx_dec_stream_disp. destruct (_ && _).
    { unfold dctx_dec_stream_once. intro E; injection E as <- _. apply d_forgot_intro.
      assert (A : x_forgot (dd_fx_pre false (get_d w o0) (frame_fid f)) k) by (unfold dd_fx_pre, dd_stale_select; apply forgot_select, forgot_with_last, Hf).
      destruct (dkind_matches _ f); exact A. }
    unfold dctx_dec_stream_gen.
    pose proof (forgot_stream_header (get_d w o0) (d_format (get_d w o0) =? 0) (frame_fid f) k Hf) as [A _].
    destruct (dd_stream_header false (get_d w o0) (d_format (get_d w o0) =? 0) (frame_fid f)) as [x u]. cbn [fst] in A.
    intro E; injection E as <- _. exact A.
  - (* ODDec1 *) revert E. unfold dctx_dec_oneshot, dctx_dec_oneshot_disp. destruct (_ =? 1).
    { unfold dctx_dec_oneshot_once. destruct (negb _); [intro E; injection E as <- _; exact Hf|].
      pose proof (forgot_oneshot_frames false (d_refMultipleDDicts (get_d w o0) =? 1) fs (d_dict (get_d w o0)) (dd_kind (d_dict (get_d w o0))) k Hf) as B.
      destruct (dd_oneshot_frames _ _ _ _ fs) as [x1 ok]. cbn [fst] in B.
      intro E; injection E as <- _. destruct ok; exact B. }
    unfold dctx_dec_oneshot_gen.
    pose proof (forgot_get _ k Hf) as [A _]. destruct (dd_get (d_dict (get_d w o0))) as [x0 start]. cbn [fst] in A.
    destruct (negb _); [intro E; injection E as <- _; exact A|].
    pose proof (forgot_oneshot_frames false (d_refMultipleDDicts (get_d w o0) =? 1) fs x0 start k A) as B.
    destruct (dd_oneshot_frames _ _ x0 start fs) as [x1 ok]. cbn [fst] in B.
    intro E; injection E as <- _. exact B.
  - (* ODDecU *) revert E. unfold dctx_dec_using, dctx_dec_using_gen.
    destruct (negb _); [intro E; injection E as <- _; exact Hf|].
    unfold dd_oneshot_frame. intro E; injection E as <- _.
    apply d_forgot_intro, forgot_select, forgot_with_last, Hf.
  - (* ODDecR *) revert E. unfold dctx_dec_raw, dctx_dec_raw_gen.
    destruct (negb _); [intro E; injection E as <- _; exact Hf|].
    cbv zeta. intro E; injection E as <- _.
    apply d_forgot_intro, forgot_select, forgot_with_last, Hf.
Qed.

Lemma d_forgot_history_l : forall ops w o k,
  Forall (fun x => d_refs o k x = false) ops -> d_forgot (get_d w o) k -> d_forgot (get_d (run w ops) o) k.
Proof.
  induction ops as [|x ops IH]; intros w o k Hf H; [exact H|].
  inversion Hf; subst. unfold run. cbn [fold_left]. fold (run (fst (step w x)) ops).
  apply IH; [assumption | apply d_forgot_step; assumption].
Qed.

(* what "forgotten" buys: no frame - streamed, or decoded by one call - is handed DDict k *)
Lemma d_forgot_never_used_l : forall d k, d_forgot d k ->
  (forall fmt fid, snd (dd_stream_header false d fmt fid) <> DK_ref k)
  /\ snd (dd_get (d_dict d)) <> DK_ref k
  /\ (forall fid, dd_switched (Z.eqb (d_refMultipleDDicts d) 1) (d_dict d) fid = true -> fid <> k).
Proof.
  intros d k H. split; [|split].
  - intros fmt fid. apply (forgot_stream_header d fmt fid k H).
  - apply (forgot_get _ k H).
  - intros fid Hs. destruct H as [_ H]. unfold dd_switched in Hs. destruct (dd_set (d_dict d)) as [l|]; [|discriminate Hs].
    apply andb_true_iff in Hs. destruct Hs as [_ Hs]. exact (existsb_eqb_neq l k fid (H l eq_refl) Hs).
Qed.

(* a parameter reset drops every DDict: whatever the context held, whatever is done afterwards except referencing DDict k
   again, no frame is ever decoded with DDict k (fix b70602d: before it the set of referenced DDicts survived the reset) *)
Lemma d_param_reset_forgets_l : forall w o dir ops k,
  is_params dir = true -> (d_stage (get_d w o) = S_init \/ is_session dir = true) ->
  Forall (fun x => d_refs o k x = false) ops ->
  let d := get_d (run (fst (step w (ODReset o dir))) ops) o in
  d_forgot d k /\ (forall fmt fid, snd (dd_stream_header false d fmt fid) <> DK_ref k) /\ snd (dd_get (d_dict d)) <> DK_ref k.
Proof.
  intros w o dir ops k Hp Hs Hf. cbn zeta.
  assert (H0 : d_forgot (get_d (fst (step w (ODReset o dir))) o) k).
  { cbn [step]. destruct (dctx_reset (get_d w o) dir) as [d r] eqn:E. cbn [fst]. rewrite get_put_d_same.
    destruct (d_reset_parameters_restores_defaults_l (get_d w o) dir Hp Hs) as [E' _]. rewrite E' in E. injection E as <- _.
    apply forgot_drop. }
  pose proof (d_forgot_history_l ops _ o k Hf H0) as H.
  split; [exact H|]. destruct (d_forgot_never_used_l _ k H) as (A & B & _). split; assumption.
Qed.

(* the finding, on the code as it was: refMultipleDDicts = 1, refDDict(1), reset(session_and_parameters),
   refMultipleDDicts = 1, refDDict(2): the frame of dictionary 1 was still decoded with DDict 1 *)
Definition r3_after_reset (reset : dctx -> Z -> dctx * result) : dctx :=
  let d1 := fst (dctx_refddict (fst (dctx_set (dctx_new false) z_ZSTD_d_refMultipleDDicts 1)) 1) in
  let d2 := fst (reset d1 z_ZSTD_reset_session_and_parameters) in
  fst (dctx_refddict (fst (dctx_set d2 z_ZSTD_d_refMultipleDDicts 1)) 2).
Lemma ddictset_survived_reset_refuted_l :
  snd (dctx_dec_oneshot (r3_after_reset dctx_reset_keepset) [1]) = Ok
  /\ snd (dctx_dec_stream (r3_after_reset dctx_reset_keepset) 1) = Ok
  /\ snd (dctx_dec_oneshot (r3_after_reset dctx_reset) [1]) <> Ok
  /\ snd (dctx_dec_stream (r3_after_reset dctx_reset) 1) <> Ok
  /\ d_forgot (r3_after_reset dctx_reset) 1.
Proof.
  split; [vm_compute; reflexivity|]. split; [vm_compute; reflexivity|].
  split; [vm_compute; discriminate|]. split; [vm_compute; discriminate|].
  split; [vm_compute; discriminate|]. intros l H. vm_compute in H. injection H as <-. vm_compute. reflexivity.
Qed.

(* ------------------------------------------------------------------ ZSTD_decompress_usingDict with raw dictionary bytes:
   the verdict depends on the dictionary passed and on the frame only - not on ZSTD_d_refMultipleDDicts, not on what
   the context references (fix 9260ac3) *)
Lemma dd_id_check_sound : forall sw loaded fid, dd_id_check false sw loaded fid = true -> fid = 0 \/ loaded = fid.
Proof.
  intros sw loaded fid H. unfold dd_id_check in H. cbn [andb orb] in H. rewrite orb_false_r in H.
  apply orb_true_iff in H. destruct H as [H|H]; apply Z.eqb_eq in H; auto.
Qed.

Lemma matches_passes : forall k f, dkind_matches (if k =? 0 then DK_none else DK_local k) f = true ->
  forall sw, dd_id_check false sw k (frame_fid f) = true.
Proof.
  intros k f H sw. unfold dd_id_check. cbn [andb orb]. unfold dkind_matches in H. unfold frame_fid.
  destruct (Z.eqb_spec f 0) as [E0|Hf0]; [subst f; reflexivity|].
  destruct (Z.eqb_spec k 0) as [Ek|Hk0]; [discriminate H|].
  apply andb_true_iff in H. destruct H as [H1 H2]. rewrite H1. apply Z.eqb_eq in H2. subst k.
  rewrite Z.eqb_refl. destruct (f =? 0); reflexivity.
Qed.

Lemma d_rawdict_verdict_l : forall d k f, d_format d = 0 ->
  snd (dctx_dec_raw d k f) = (if dkind_matches (if k =? 0 then DK_none else DK_local k) f then Ok else Err E_other)
  /\ dsame d (fst (dctx_dec_raw d k f)) /\ d_stage (fst (dctx_dec_raw d k f)) = S_init.
Proof.
  intros d k f Hf. unfold dctx_dec_raw, dctx_dec_raw_gen. rewrite Hf. cbn [Z.eqb negb]. cbv zeta. cbn [fst snd].
  split; [|split; [apply dsame_dict_stage | reflexivity]].
  destruct (dkind_matches _ f) eqn:Hm; [|rewrite andb_false_r; reflexivity].
  rewrite (matches_passes k f Hm). reflexivity.
Qed.

(* the finding, on the code as it was: with DDict 1 referenced under ZSTD_d_refMultipleDDicts, the ID check of a frame naming
   dictionary 1 passed although the tables loaded were those of dictionary 2 *)
Definition r3_multi1 : dctx := fst (dctx_refddict (fst (dctx_set (dctx_new false) z_ZSTD_d_refMultipleDDicts 1)) 1).
Lemma select_vouched_for_loaded_dict_refuted_l :
  dd_id_check true (dd_switched true (d_dict r3_multi1) 1) 2 1 = true
  /\ dd_id_check false (dd_switched true (d_dict r3_multi1) 1) 2 1 = false
  /\ snd (dctx_dec_raw r3_multi1 2 1) <> Ok /\ snd (dctx_dec_raw r3_multi1 1 1) = Ok.
Proof. repeat split; vm_compute; try reflexivity; discriminate. Qed.

Example ex_forgot_satisfiable : exists w o dir, is_params dir = true /\ d_stage (get_d w o) = S_init
  /\ dd_set (d_dict (get_d w o)) <> None.
Proof.
  exists (put_d world_new false r3_multi1), false, z_ZSTD_reset_parameters.
  split; [vm_compute; reflexivity|]. split; [reflexivity|]. vm_compute. discriminate.
Qed.

(* ------------------------------------------------------------------ a dictionary LOADED into the context stays in force
   whatever frames are decoded, also with ZSTD_d_refMultipleDDicts and a non-empty set of referenced DDicts (fix d0ddbff;
   round 2 could only prove this without a set: the selection used to replace - and free - the loaded dictionary) *)
Definition x_loaded (x : ddicts) (k : Z) : Prop := dd_uses x = 2 /\ dd_kind x = DK_local k.
Definition d_loaded (d : dctx) (k : Z) : Prop := x_loaded (d_dict d) k.

Lemma select_keeps_loaded : forall m x fid k, x_loaded x k -> dd_select m x fid = x.
Proof.
  intros m x fid k [Hu Hk]. unfold dd_select, dd_selectable. rewrite Hk. destruct (dd_set x); [|reflexivity].
  rewrite andb_false_r. rewrite andb_false_r. reflexivity.
Qed.

Lemma loaded_with_last : forall x k fid, x_loaded x k -> x_loaded (dd_with_last x fid) k.
Proof. intros x k fid H. exact H. Qed.

Lemma loaded_stream_header : forall d fmt fid k, d_loaded d k ->
  x_loaded (fst (dd_stream_header false d fmt fid)) k /\ (fmt = true -> snd (dd_stream_header false d fmt fid) = DK_local k).
Proof.
  intros d fmt fid k H. pose proof H as [Hu Hk]. unfold dd_stream_header, dd_stale_select. destruct fmt; cbn [negb].
  - rewrite (select_keeps_loaded _ _ fid k (loaded_with_last _ k fid H)).
    rewrite dd_get_indef by exact Hu. cbn [fst snd dd_with_last dd_kind]. split; [exact H | intros _; exact Hk].
  - cbn [fst snd]. split; [exact H | intro E; discriminate E].
Qed.

Lemma loaded_oneshot_frames : forall st m fs x start k, x_loaded x k ->
  x_loaded (fst (dd_oneshot_frames st m x start fs)) k.
Proof.
  induction fs as [|f fs IH]; intros x start k H; cbn [dd_oneshot_frames fst]; [exact H|].
  unfold dd_oneshot_frame. rewrite (select_keeps_loaded m _ (frame_fid f) k (loaded_with_last x k (frame_fid f) H)).
  destruct (dkind_matches _ f); [apply IH|]; apply loaded_with_last; exact H.
Qed.

Lemma d_loaded_step : forall w x o k, d_drop o x = false -> d_loaded (get_d w o) k -> d_loaded (get_d (fst (step w x)) o) k.
Proof.
  intros w x o k Ht Hh. unfold d_drop in Ht. apply Bool.orb_false_iff in Ht. destruct Ht as [Ha Ht].
  destruct x; cbn [step d_attach touches_dparams] in *;
    repeat match goal with |- context [let '(_, _) := ?e in _] => destruct e eqn:?E end;
    cbn [fst]; rewrite ?get_d_put_c, ?get_d_put_p; try exact Hh; try discriminate Ha; try discriminate Ht;
    try (revert Ha Ht; destruct (Bool.eqb_spec o o0) as [->|Hne]; intros Ha Ht;
         [ try discriminate Ha; try discriminate Ht; rewrite get_put_d_same | rewrite get_put_d_other by assumption; exact Hh ]).
  - unfold dctx_begin, dctx_begin_gen. cbn [dd_stale_select].
    destruct (d_format (get_d w o0) =? 1); [exact (proj1 (loaded_stream_header _ true 0 k Hh)) | exact Hh].
  - unfold dctx_end, dctx_end_gen.
    destruct (d_format (get_d w o0) =? 1); [exact Hh | exact (proj1 (loaded_stream_header _ true 0 k Hh))].
  - unfold dctx_bad, dctx_bad_gen. exact (proj1 (loaded_stream_header _ false 0 k Hh)).
  - unfold dctx_frame, dctx_frame_gen. exact (proj1 (loaded_stream_header _ true 0 k Hh)).
  - unfold dctx_fx, dctx_fx_gen. cbv zeta. destruct (_ && _ && _).
    + unfold dd_fx_pre, dd_stale_select. cbn [d_dict dctx_set_stage dctx_set_dict].
      rewrite (select_keeps_loaded _ _ _ k (loaded_with_last _ k _ Hh)). exact Hh.
    + exact (proj1 (loaded_stream_header _ _ _ k Hh)).
  - revert E. unfold dctx_dec_stream.
    rewrite stream_disp_not_once by (unfold dd_fx_pre, dd_stale_select; rewrite (select_keeps_loaded _ _ _ k (loaded_with_last _ k _ Hh));
                                     cbn [dd_with_last dd_uses]; rewrite (proj1 Hh); discriminate).
    unfold dctx_dec_stream_gen.
    pose proof (proj1 (loaded_stream_header (get_d w o0) (d_format (get_d w o0) =? 0) (frame_fid f) k Hh)) as A.
    destruct (dd_stream_header false (get_d w o0) (d_format (get_d w o0) =? 0) (frame_fid f)) as [x u]. cbn [fst] in A.
    intro E; injection E as <- _. exact A.
  - revert E. pose proof Hh as [Hu Hk]. unfold dctx_dec_oneshot. rewrite oneshot_disp_not_once by (rewrite Hu; discriminate).
    unfold dctx_dec_oneshot_gen.
    rewrite (dd_get_indef _ Hu). cbv beta iota.
    destruct (negb _); [intro E; injection E as <- _; exact Hh|].
    pose proof (loaded_oneshot_frames false (d_refMultipleDDicts (get_d w o0) =? 1) fs (d_dict (get_d w o0)) (dd_kind (d_dict (get_d w o0))) k Hh) as B.
    destruct (dd_oneshot_frames _ _ _ _ fs) as [x1 ok]. cbn [fst] in B.
    intro E; injection E as <- _. exact B.
  - revert E. unfold dctx_dec_using, dctx_dec_using_gen.
    destruct (negb _); [intro E; injection E as <- _; exact Hh|].
    unfold dd_oneshot_frame. rewrite (select_keeps_loaded _ _ (frame_fid f) k (loaded_with_last _ k (frame_fid f) Hh)).
    intro E; injection E as <- _. exact Hh.
  - revert E. unfold dctx_dec_raw, dctx_dec_raw_gen.
    destruct (negb _); [intro E; injection E as <- _; exact Hh|].
    cbv zeta. rewrite (select_keeps_loaded _ _ (frame_fid f) k (loaded_with_last _ k (frame_fid f) Hh)).
    intro E; injection E as <- _. exact Hh.
Qed.

Lemma d_loaded_sticky_l : forall ops w o k,
  Forall (fun x => d_drop o x = false) ops -> d_loaded (get_d w o) k ->
  d_loaded (get_d (run w ops) o) k /\ forall fid, d_next_use (get_d (run w ops) o) fid = DK_local k.
Proof.
  induction ops as [|x ops IH]; intros w o k Hf Hh.
  - split; [exact Hh|]. intro fid. unfold d_next_use. apply (loaded_stream_header _ true fid k Hh). reflexivity.
  - inversion Hf; subst. unfold run. cbn [fold_left]. fold (run (fst (step w x)) ops).
    apply IH; [assumption | apply d_loaded_step; assumption].
Qed.

(* loading installs that state whatever is referenced *)
Lemma d_load_gives_loaded : forall d k, d_stage d = S_init -> k <> 0 -> d_loaded (fst (dctx_load d k)) k.
Proof.
  intros d k Hs Hk. unfold dctx_load. rewrite Hs. cbn [stage_is_init negb]. destruct (Z.eqb_spec k 0); [contradiction|].
  split; reflexivity.
Qed.

(* the finding, on the code as it was: refMultipleDDicts = 1, refDDict(1), loadDictionary(2), a frame of dictionary 1 decoded:
   the loaded dictionary was gone *)
Definition r3_loaded2 : dctx := fst (dctx_load r3_multi1 2).
Lemma selection_destroyed_loaded_dictionary_refuted_l :
  dd_kind (dd_select_any true (dd_with_last (d_dict r3_loaded2) 1) 1) = DK_ref 1
  /\ dd_kind (dd_select true (dd_with_last (d_dict r3_loaded2) 1) 1) = DK_local 2
  /\ d_loaded r3_loaded2 2 /\ dd_set (d_dict r3_loaded2) = Some [1]
  /\ snd (dctx_dec_stream (fst (dctx_dec_stream r3_loaded2 1)) 2) = Ok.
Proof. repeat split; vm_compute; reflexivity. Qed.

(* ------------------------------------------------------------------ a single-use dictionary is used up by the frame start that
   succeeds, not by one that fails (fix b15fdb6): prepared frame G_k streamed (no single-pass shortcut: no content size) *)
Definition fx_fid (k : Z) : Z := if Z.eqb k 4 then 1 else 0.
Definition fx_fmt_ok (d : dctx) (k : Z) : bool := Z.eqb (d_format d) (if Z.eqb k 1 then 1 else 0).
Definition fx_starts (d : dctx) (k : Z) : bool := Z.eqb (fx_fid k) 0 && (fx_window k <=? d_maxWindowSize d).

Lemma fx_single_use_rule_l : forall d k, fx_fmt_ok d k = true -> dd_uses (dd_fx_pre false d (fx_fid k)) = 1 ->
  let pre := dd_fx_pre false d (fx_fid k) in
  (fx_starts d k = false -> d_dict (dctx_fx d k) = pre)
  /\ (fx_starts d k = true -> d_dict (dctx_fx d k) = mkDD 0 (dd_kind pre) (dd_set pre) (dd_last pre))
  /\ d_stage (dctx_fx d k) = S_init.
Proof.
  intros d k Hf Hu pre. unfold dctx_fx, dctx_fx_gen. cbv zeta. fold (fx_fid k) (fx_fmt_ok d k) (fx_starts d k). fold pre.
  rewrite Hf. subst pre. rewrite Hu. cbn [Z.eqb Pos.eqb andb].
  destruct (fx_starts d k); cbn [negb].
  - split; [intro H; discriminate H|]. split; [|reflexivity]. intros _.
    cbn [d_dict dctx_set_stage dctx_set_dict]. unfold dd_stream_header. cbn [negb]. fold (dd_fx_pre false d (fx_fid k)).
    unfold dd_get. rewrite Hu. reflexivity.
  - split; [intros _; reflexivity|]. split; [intro H; discriminate H | reflexivity].
Qed.

(* the retry: a prefix referenced, a frame whose window exceeds the limit refused, the limit raised, the same frame again *)
Example ex_prefix_survives_failed_start :
  let d0 := fst (dctx_refprefix (fst (dctx_set_max_window_size (dctx_new false) 1024)) 1) in
  let d1 := dctx_fx d0 2 in
  let d2 := dctx_fx (fst (dctx_set_max_window_size d1 4096)) 2 in
  dd_uses (d_dict d1) = 1 /\ dd_kind (d_dict d1) = DK_pfx 1 /\ dd_uses (d_dict d2) = 0.
Proof. vm_compute. repeat split. Qed.

(* ------------------------------------------------------------------ the same rule on the single-call path (fix b87b37f):
   ZSTD_decompressDCtx with a pending prefix uses it up exactly when the call succeeds *)
Definition not_ref (x : ddicts) : Prop := forall j, dd_kind x <> DK_ref j.

Lemma select_not_ref : forall m x fid, not_ref x -> dd_select m x fid = x.
Proof.
  intros m x fid H. unfold dd_select, dd_selectable. destruct (dd_set x); [|reflexivity].
  destruct (dd_kind x) eqn:Ek; try (exfalso; eapply H; exact Ek); cbv iota; rewrite andb_false_r; rewrite andb_false_r; reflexivity.
Qed.

Lemma oneshot_frames_not_ref : forall st m fs x start, not_ref x ->
  dd_uses (fst (dd_oneshot_frames st m x start fs)) = dd_uses x
  /\ dd_kind (fst (dd_oneshot_frames st m x start fs)) = dd_kind x
  /\ dd_set (fst (dd_oneshot_frames st m x start fs)) = dd_set x.
Proof.
  induction fs as [|f fs IH]; intros x start H; cbn [dd_oneshot_frames fst]; [auto|].
  unfold dd_oneshot_frame. rewrite (select_not_ref m (dd_with_last x (frame_fid f)) (frame_fid f) H).
  destruct (dkind_matches _ f); [|cbn [fst]; auto].
  destruct (IH (dd_with_last x (frame_fid f)) (if
      match dd_set x with Some l => m && dd_preselectable x && existsb (Z.eqb (frame_fid f)) l | None => false end
      && negb st && match start with DK_none => false | _ => true end then DK_ref (frame_fid f) else start) H) as (A & B & C).
  auto.
Qed.

Lemma oneshot_single_use_rule_l : forall d fs, dd_uses (d_dict d) = 1 -> not_ref (d_dict d) ->
  let r := dctx_dec_oneshot d fs in
  (snd r = Ok -> dd_uses (d_dict (fst r)) = 0)
  /\ (snd r <> Ok -> dd_uses (d_dict (fst r)) = 1)
  /\ dd_kind (d_dict (fst r)) = dd_kind (d_dict d) /\ dd_set (d_dict (fst r)) = dd_set (d_dict d) /\ d_stage (fst r) = S_init.
Proof.
  intros d fs Hu Hn. cbn zeta. unfold dctx_dec_oneshot, dctx_dec_oneshot_disp. rewrite Hu. cbn [Z.eqb Pos.eqb].
  unfold dctx_dec_oneshot_once. destruct (negb _).
  - cbn [fst snd d_dict dctx_set_stage dctx_set_dict dd_with_last dd_uses dd_kind dd_set d_stage].
    split; [intro H; discriminate H|]. auto.
  - destruct (oneshot_frames_not_ref false (d_refMultipleDDicts d =? 1) fs (d_dict d) (dd_kind (d_dict d)) Hn) as (A & B & C).
    destruct (dd_oneshot_frames _ _ _ _ fs) as [x1 ok]. cbn [fst] in A, B, C.
    destruct ok; cbn [fst snd d_dict dctx_set_stage dctx_set_dict dd_uses dd_kind dd_set d_stage].
    + split; [reflexivity|]. split; [intro H; contradiction H; reflexivity|]. auto.
    + split; [intro H; discriminate H|]. split; [intros _; rewrite A; exact Hu|]. auto.
Qed.

(* ... and on the whole-frame ZSTD_decompressStream call (single-pass shortcut, fix 2f289ec): the three doors share one rule *)
Lemma stream_single_use_rule_l : forall d f, d_format d = 0 -> dd_uses (dd_fx_pre false d (frame_fid f)) = 1 ->
  let pre := dd_fx_pre false d (frame_fid f) in
  let r := dctx_dec_stream d f in
  (snd r = Ok <-> dkind_matches (dd_kind pre) f = true)
  /\ (snd r = Ok -> d_dict (fst r) = mkDD 0 (dd_kind pre) (dd_set pre) (dd_last pre))
  /\ (snd r <> Ok -> d_dict (fst r) = pre)
  /\ d_stage (fst r) = S_init.
Proof.
  intros d f Hf Hu. cbn zeta. unfold dctx_dec_stream, dctx_dec_stream_disp. rewrite Hf, Hu. cbn [Z.eqb Pos.eqb andb].
  unfold dctx_dec_stream_once. destruct (dkind_matches _ f); cbn [fst snd d_dict dctx_set_stage dctx_set_dict d_stage].
  - split; [split; reflexivity|]. split; [reflexivity|]. split; [intro H; contradiction H; reflexivity | reflexivity].
  - split; [split; intro H; discriminate H|]. split; [intro H; discriminate H|]. split; reflexivity.
Qed.
