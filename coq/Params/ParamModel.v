(* C16 - executable model of the parameter interface of libzstd (multithreaded build, ZSTD_MULTITHREAD):
     lib/compress/zstd_compress.c   ZSTD_CCtxParams_init / _reset, ZSTD_isUpdateAuthorized, ZSTD_CCtx_setParameter,
                                    ZSTD_CCtxParams_setParameter, ZSTD_CCtxParams_getParameter, ZSTD_CCtx_reset,
                                    ZSTD_CCtx_setParametersUsingCCtxParams, ZSTD_CCtx_loadDictionary / refCDict / refPrefix
                                    (stage rule + which dictionary is attached), stage changes of the streaming / one-shot calls
     lib/decompress/zstd_decompress.c  ZSTD_DCtx_resetParameters, ZSTD_DCtx_setParameter / getParameter / reset,
                                    ZSTD_DCtx_setMaxWindowSize, dictionary attach calls (stage rule)
   The model is the code that exists (0-means-default forms, `value != 0` flags, jobSize / targetCBlockSize raised to their
   minimum, clamping family).  Parameter values are C `int`s, modelled by Z; every stored value passed a bound check or is
   a clamped / normalised value, so the (U32) / (size_t) casts of the C code are the identity on them.
   No proofs in this file. *)
From Coq Require Import ZArith List Bool.
From ZV.Gen Require Import Gen_Bounds.
From ZV.Params Require Import BoundsModel CParamsAdjust.
Import ListNotations.
Local Open Scope Z_scope.

(* ------------------------------------------------------------------ results *)
Inductive err : Set := E_outOfBound | E_unsupported | E_stage_wrong | E_other.
Inductive result : Set := Ok | Err (e : err).

(* ------------------------------------------------------------------ ZSTD_CCtx_params
   One cell per parameter: the struct field the parameter is stored in, seen through ZSTD_CCtxParams_getParameter
   (so the cell of C_dictIDFlag holds !fParams.noDictIDFlag). *)
Definition cstore : Type := cparam -> Z.

Definition cupd (s : cstore) (p : cparam) (v : Z) : cstore :=
  fun q => if cparam_eqb q p then v else s q.

(* ZSTD_CCtxParams_init(params, level): memset 0, compressionLevel = level, fParams.contentSizeFlag = 1
   (noDictIDFlag = 0 reads back as dictIDFlag = 1) *)
Definition cparams_init (level : Z) : cstore :=
  fun q => match q with
           | C_compressionLevel => level
           | C_contentSizeFlag => 1
           | C_dictIDFlag => 1
           | _ => 0
           end.

(* ZSTD_CCtxParams_reset = ZSTD_CCtxParams_init(params, ZSTD_CLEVEL_DEFAULT) *)
Definition cparams_default : cstore := cparams_init z_ZSTD_CLEVEL_DEFAULT.
Definition cdefault (p : cparam) : Z := cparams_default p.

Definition flag (v : Z) : Z := if Z.eqb v 0 then 0 else 1.

(* BOUNDCHECK(p, v); store v *)
Definition set_checked (s : cstore) (p : cparam) (v : Z) : cstore * result :=
  if cwithin p v then (cupd s p v, Ok) else (s, Err E_outOfBound).

(* if (v != 0) BOUNDCHECK(p, v); store v      -- 0 means "use default" *)
Definition set_checked_nz (s : cstore) (p : cparam) (v : Z) : cstore * result :=
  if Z.eqb v 0 then (cupd s p 0, Ok) else set_checked s p v.

(* store (v != 0)   -- no bound check at all *)
Definition set_flag (s : cstore) (p : cparam) (v : Z) : cstore * result := (cupd s p (flag v), Ok).

(* FORWARD_IF_ERROR(ZSTD_cParam_clampBounds(bp, &v)); store v *)
Definition set_clamped (s : cstore) (bp p : cparam) (v : Z) : cstore * result :=
  match cclamp bp v with
  | Some v' => (cupd s p v', Ok)
  | None => (s, Err E_unsupported)
  end.

(* ZSTD_CCtxParams_setParameter.  [rs] is the parameter whose bounds clamp ZSTD_c_rsyncable: C_rsyncable in the
   current tree (fix 8508394); C_overlapLog reproduces the code before the fix (finding F2). *)
Definition cparams_set_gen (rs : cparam) (s : cstore) (p : cparam) (v : Z) : cstore * result :=
  match p with
  | C_format => set_checked s p v
  | C_compressionLevel =>
      match cclamp p v with
      | Some v' => (cupd s p (if Z.eqb v' 0 then z_ZSTD_CLEVEL_DEFAULT else v'), Ok)
      | None => (s, Err E_unsupported)
      end
  | C_windowLog | C_hashLog | C_chainLog | C_searchLog | C_minMatch | C_strategy => set_checked_nz s p v
  | C_targetLength => set_checked s p v
  | C_contentSizeFlag | C_checksumFlag | C_dictIDFlag | C_forceMaxWindow | C_enableDedicatedDictSearch => set_flag s p v
  | C_forceAttachDict | C_literalCompressionMode => set_checked s p v
  | C_nbWorkers => set_clamped s p p v
  | C_jobSize =>
      let v1 := if negb (Z.eqb v 0) && (v <? z_ZSTDMT_JOBSIZE_MIN) then z_ZSTDMT_JOBSIZE_MIN else v in
      set_clamped s p p v1
  | C_overlapLog => set_clamped s C_overlapLog p v
  | C_rsyncable => set_clamped s rs p v
  | C_enableLongDistanceMatching => set_checked s p v
  | C_ldmHashLog | C_ldmMinMatch | C_ldmBucketSizeLog | C_ldmHashRateLog => set_checked_nz s p v
  | C_targetCBlockSize =>
      if Z.eqb v 0 then (cupd s p 0, Ok)
      else set_checked s p (Z.max v z_ZSTD_TARGETCBLOCKSIZE_MIN)
  | C_srcSizeHint => set_checked_nz s p v
  | C_stableInBuffer | C_stableOutBuffer | C_blockDelimiters | C_validateSequences
  | C_useBlockSplitter | C_useRowMatchFinder | C_prefetchCDictTables | C_enableSeqProducerFallback
  | C_searchForExternalRepcodes => set_checked s p v
  | C_deterministicRefPrefix => if cwithin p v then (cupd s p (flag v), Ok) else (s, Err E_outOfBound)
  | C_maxBlockSize => set_checked_nz s p v
  end.

Definition cparams_set : cstore -> cparam -> Z -> cstore * result := cparams_set_gen C_rsyncable.
Definition cparams_set_prefix : cstore -> cparam -> Z -> cstore * result := cparams_set_gen C_overlapLog.

(* on a raw id (any int): `default: RETURN_ERROR(parameter_unsupported)` *)
Definition cparams_set_id (s : cstore) (id v : Z) : cstore * result :=
  match cparam_of_id id with
  | Some p => cparams_set s p v
  | None => (s, Err E_unsupported)
  end.

(* ZSTD_CCtxParams_getParameter *)
Definition cparams_get_id (s : cstore) (id : Z) : result * Z :=
  match cparam_of_id id with
  | Some p => (Ok, s p)
  | None => (Err E_unsupported, 0)
  end.

(* ZSTD_isUpdateAuthorized *)
Definition is_update_authorized (p : cparam) : bool :=
  match p with
  | C_compressionLevel | C_hashLog | C_chainLog | C_searchLog | C_minMatch | C_targetLength | C_strategy => true
  | _ => false
  end.

(* ------------------------------------------------------------------ ZSTD_CCtx *)
Inductive stage : Set := S_init | S_mid.      (* streamStage == zcss_init / anything else *)

(* which dictionary the context holds: localDict (cdict not yet / already built from it), a referenced CDict, a prefix *)
Inductive cdict_state : Set := CD_none | CD_local (built : bool) | CD_cdict | CD_prefix.

Record cctx : Type := mkC { c_params : cstore; c_stage : stage; c_dict : cdict_state; c_static : bool }.

(* ZSTD_createCCtx -> ZSTD_initCCtx and (since fix 32f35e7) ZSTD_initStaticCCtx reset the parameters to their defaults.
   Before that fix ZSTD_initStaticCCtx only memset the context: every field 0, seen through getParameter
   (dictIDFlag = !0); [cctx_new_gen true] keeps that variant for the refutation. *)
Definition cparams_zero : cstore := fun q => match q with C_dictIDFlag => 1 | _ => 0 end.
Definition cctx_new_gen (static_zeroed : bool) (is_static : bool) : cctx :=
  mkC (if static_zeroed && is_static then cparams_zero else cparams_default) S_init CD_none is_static.
Definition cctx_new : bool -> cctx := cctx_new_gen false.
Definition cctx_new_prefix : bool -> cctx := cctx_new_gen true.

Definition stage_is_init (s : stage) : bool := match s with S_init => true | S_mid => false end.

(* ZSTD_CCtx_setParameter *)
Definition cctx_set (c : cctx) (id v : Z) : cctx * result :=
  let po := cparam_of_id id in
  let gate_ok :=
    if stage_is_init (c_stage c) then true
    else match po with Some p => is_update_authorized p | None => false end in
  if negb gate_ok then (c, Err E_stage_wrong)
  else match po with
       | None => (c, Err E_unsupported)
       | Some p =>
           if (match p with C_nbWorkers => negb (Z.eqb v 0) && c_static c | _ => false end)
           then (c, Err E_unsupported)
           else match cparams_set (c_params c) p v with
                | (s', Ok) => (mkC s' (c_stage c) (c_dict c) (c_static c), Ok)
                | (_, Err e) => (c, Err e)
                end
       end.

(* ZSTD_CCtx_getParameter *)
Definition cctx_get (c : cctx) (id : Z) : result * Z := cparams_get_id (c_params c) id.

(* ZSTD_CCtx_reset(cctx, directive); directive is any int *)
Definition cctx_reset (c : cctx) (dir : Z) : cctx * result :=
  let session := Z.eqb dir z_ZSTD_reset_session_only || Z.eqb dir z_ZSTD_reset_session_and_parameters in
  let params := Z.eqb dir z_ZSTD_reset_parameters || Z.eqb dir z_ZSTD_reset_session_and_parameters in
  let c1 := if session then mkC (c_params c) S_init (c_dict c) (c_static c) else c in
  if params then
    if stage_is_init (c_stage c1) then (mkC cparams_default S_init CD_none (c_static c1), Ok)
    else (c1, Err E_stage_wrong)
  else (c1, Ok).

(* start of a frame (ZSTD_CCtx_init_compressStream2): the local dictionary is digested, a prefix is consumed *)
Definition dict_at_frame_start (d : cdict_state) : cdict_state :=
  match d with
  | CD_local _ => CD_local true
  | CD_prefix => CD_none
  | other => other
  end.

(* ZSTD_compressStream2(ZSTD_e_continue) with some input, buffered mode: enters the frame *)
Definition cctx_begin (c : cctx) : cctx :=
  match c_stage c with
  | S_init => mkC (c_params c) S_mid (dict_at_frame_start (c_dict c)) (c_static c)
  | S_mid => c
  end.

(* ZSTD_compressStream2(ZSTD_e_end) until fully flushed: frame (started now if needed) completes, session is reset *)
Definition cctx_end (c : cctx) : cctx :=
  match c_stage c with
  | S_init => mkC (c_params c) S_init (dict_at_frame_start (c_dict c)) (c_static c)
  | S_mid => mkC (c_params c) S_init (c_dict c) (c_static c)
  end.

(* ZSTD_compress2 that succeeds: session reset, one whole frame, session reset *)
Definition cctx_frame (c : cctx) : cctx :=
  mkC (c_params c) S_init (dict_at_frame_start (c_dict c)) (c_static c).

(* ZSTD_compress2 that fails with dstSize_tooSmall: session reset, frame started, left unfinished *)
Definition cctx_frame_fail (c : cctx) : cctx :=
  mkC (c_params c) S_mid (dict_at_frame_start (c_dict c)) (c_static c).

(* ZSTD_CCtx_loadDictionary(dict k) (by copy), ZSTD_CCtx_refCDict, ZSTD_CCtx_refPrefix; k = 0 is the NULL dictionary *)
Definition cctx_load (c : cctx) (k : Z) : cctx * result :=
  if negb (stage_is_init (c_stage c)) then (c, Err E_stage_wrong)
  else if Z.eqb k 0 then (mkC (c_params c) S_init CD_none (c_static c), Ok)
  else if c_static c then (mkC (c_params c) S_init CD_none (c_static c), Err E_other)   (* no internal copy in a static cctx *)
  else (mkC (c_params c) S_init (CD_local false) (c_static c), Ok).

Definition cctx_refcdict (c : cctx) (k : Z) : cctx * result :=
  if negb (stage_is_init (c_stage c)) then (c, Err E_stage_wrong)
  else (mkC (c_params c) S_init (if Z.eqb k 0 then CD_none else CD_cdict) (c_static c), Ok).

Definition cctx_refprefix (c : cctx) (k : Z) : cctx * result :=
  if negb (stage_is_init (c_stage c)) then (c, Err E_stage_wrong)
  else (mkC (c_params c) S_init (if Z.eqb k 0 then CD_none else CD_prefix) (c_static c), Ok).

(* ZSTD_CCtx_setParametersUsingCCtxParams *)
Definition cctx_apply (c : cctx) (p : cstore) : cctx * result :=
  if negb (stage_is_init (c_stage c)) then (c, Err E_stage_wrong)
  else match c_dict c with
       | CD_cdict | CD_local true => (c, Err E_stage_wrong)
       | _ => (mkC p (c_stage c) (c_dict c) (c_static c), Ok)
       end.

(* ------------------------------------------------------------------ composite setters (round 2)
   ZSTD_frameParameters as passed by value: three ints *)
Record fpar : Set := mkFP { f_cs : Z; f_ck : Z; f_nd : Z }.

(* FORWARD_IF_ERROR( ZSTD_CCtx_setParameter(cctx, p, v) ) ... in sequence: the first failing call stops the chain; what the
   calls before it stored stays stored (the C code has no roll-back) *)
Fixpoint cctx_set_seq (c : cctx) (l : list (cparam * Z)) : cctx * result :=
  match l with
  | [] => (c, Ok)
  | (p, v) :: t =>
      match cctx_set c (cparam_id p) v with
      | (c', Ok) => cctx_set_seq c' t
      | (c', Err e) => (c', Err e)
      end
  end.

Definition cpar_sets (cp : cpar) : list (cparam * Z) :=
  [ (C_windowLog, wlog cp); (C_chainLog, clog cp); (C_hashLog, hlog cp); (C_searchLog, slog cp);
    (C_minMatch, mmatch cp); (C_targetLength, tlen cp); (C_strategy, strat cp) ].
Definition fpar_sets (fp : fpar) : list (cparam * Z) :=
  [ (C_contentSizeFlag, flag (f_cs fp)); (C_checksumFlag, flag (f_ck fp)); (C_dictIDFlag, if Z.eqb (f_nd fp) 0 then 1 else 0) ].

(* ZSTD_CCtx_setCParams: ZSTD_checkCParams first ("only update if all parameters are valid"), then the seven setters *)
Definition cctx_set_cparams (c : cctx) (cp : cpar) : cctx * result :=
  if check_cparams cp then cctx_set_seq c (cpar_sets cp) else (c, Err E_outOfBound).
(* ZSTD_CCtx_setFParams *)
Definition cctx_set_fparams (c : cctx) (fp : fpar) : cctx * result := cctx_set_seq c (fpar_sets fp).
(* ZSTD_CCtx_setParams: check cParams, set fParams, set cParams *)
Definition cctx_set_params (c : cctx) (cp : cpar) (fp : fpar) : cctx * result :=
  if check_cparams cp then
    match cctx_set_fparams c fp with
    | (c1, Ok) => cctx_set_cparams c1 cp
    | (c1, Err e) => (c1, Err e)
    end
  else (c, Err E_outOfBound).

(* the `auto` switches resolved at initialisation / frame start (the ZSTD_resolve... functions): thresholds as written in the C code, except the
   row-match-finder one, which depends on SIMD availability and is regenerated *)
Definition resolve_row (mode : Z) (cp : cpar) : Z :=
  if negb (Z.eqb mode z_ZSTD_ps_auto) then mode
  else if (z_ZSTD_greedy <=? strat cp) && (strat cp <=? z_ZSTD_lazy2) && (z_ROWMF_AUTO_MIN_WLOG <=? wlog cp) then z_ZSTD_ps_enable
  else z_ZSTD_ps_disable.
Definition resolve_split (mode : Z) (cp : cpar) : Z :=
  if negb (Z.eqb mode z_ZSTD_ps_auto) then mode
  else if (z_ZSTD_btopt <=? strat cp) && (17 <=? wlog cp) then z_ZSTD_ps_enable else z_ZSTD_ps_disable.
Definition resolve_ldm (mode : Z) (cp : cpar) : Z :=
  if negb (Z.eqb mode z_ZSTD_ps_auto) then mode
  else if (z_ZSTD_btopt <=? strat cp) && (27 <=? wlog cp) then z_ZSTD_ps_enable else z_ZSTD_ps_disable.
Definition resolve_maxblock (v : Z) : Z := if Z.eqb v 0 then z_ZSTD_BLOCKSIZE_MAX else v.
Definition resolve_erc (mode level : Z) : Z :=
  if negb (Z.eqb mode z_ZSTD_ps_auto) then mode else if level <? 10 then z_ZSTD_ps_disable else z_ZSTD_ps_enable.

(* ZSTD_CCtxParams_init_internal(params, level): memset, cParams, fParams (stored as given: no normalisation), level, resolved switches *)
Definition cparams_init_internal (cp : cpar) (fp : fpar) (level : Z) : cstore :=
  fun q => match q with
           | C_compressionLevel => level
           | C_windowLog => wlog cp | C_chainLog => clog cp | C_hashLog => hlog cp | C_searchLog => slog cp
           | C_minMatch => mmatch cp | C_targetLength => tlen cp | C_strategy => strat cp
           | C_contentSizeFlag => f_cs fp | C_checksumFlag => f_ck fp
           | C_dictIDFlag => if Z.eqb (f_nd fp) 0 then 1 else 0
           | C_useRowMatchFinder => resolve_row z_ZSTD_ps_auto cp
           | C_useBlockSplitter => resolve_split z_ZSTD_ps_auto cp
           | C_enableLongDistanceMatching => resolve_ldm z_ZSTD_ps_auto cp
           | C_maxBlockSize => resolve_maxblock 0
           | C_searchForExternalRepcodes => resolve_erc z_ZSTD_ps_auto level
           | _ => 0
           end.
(* ZSTD_CCtxParams_init_advanced: refused as a whole when a cParam is out of bounds; ZSTD_NO_CLEVEL = 0 *)
Definition cparams_init_advanced (s : cstore) (cp : cpar) (fp : fpar) : cstore * result :=
  if check_cparams cp then (cparams_init_internal cp fp 0, Ok) else (s, Err E_outOfBound).

(* Frame-header fields a frame produced NOW by this context carries (ZSTD_writeFrameHeader on the applied parameters):
   checksum flag, content size present (only when the size is known at frame start), dictID present (the test
   dictionary / CDict carry an id, a raw prefix does not), magicless format. *)
Definition dict_has_id (d : cdict_state) : bool :=
  match d with CD_local _ | CD_cdict => true | CD_none | CD_prefix => false end.
(* [gt0]: before fix 587ee30 ZSTD_writeFrameHeader announced a checksum only for `fParams.checksumFlag > 0`, while the
   epilogue appends one whenever the flag is non-zero (finding F32: a negative flag, which ZSTD_CCtxParams_init_advanced stores
   as given, produced a frame with four unannounced bytes) *)
Definition hdr_checksum_bit (gt0 : bool) (v : Z) : Z := if (if gt0 then 0 <? v else negb (Z.eqb v 0)) then 1 else 0.
Definition cctx_frame_hdr (c : cctx) (size_known : bool) : list Z :=
  let s := c_params c in
  [ hdr_checksum_bit false (s C_checksumFlag);
    (if size_known && negb (Z.eqb (s C_contentSizeFlag) 0) then 1 else 0);
    if dict_has_id (c_dict c) then s C_dictIDFlag else 0; s C_format ].
(* ZSTD_compressCCtx: simpleApiParams = ZSTD_CCtxParams_init_internal(level params): checksum 0, content size 1, no dictID, zstd1 *)
Definition simple_frame_hdr : list Z := [0; 1; 0; 0].

(* ZSTD_compressCCtx: neither reads nor writes the requested parameters or the attached dictionary; since fix 38ec6ea
   ZSTD_compressBegin_internal(ZSTDb_not_buffered) closes a streaming session left open (streamStage = zcss_init), so the
   frame that was in progress is abandoned and the next streaming call starts a new one *)
Definition cctx_simple (c : cctx) : cctx := mkC (c_params c) S_init (c_dict c) (c_static c).

(* ------------------------------------------------------------------ ZSTD_DCtx *)
(* which dictionary a decompression context holds (round 2): dctx->dictUses (0 dont_use, 1 use_once, 2 use_indefinitely),
   what dctx->ddict points to (a referenced DDict k, the internal copy made by loadDictionary of dictionary k, the by-reference
   DDict of prefix k), the ids stored in dctx->ddictSet (None: not allocated), the dictionary the last parsed frame header named *)
Inductive dkind : Set := DK_none | DK_ref (k : Z) | DK_local (k : Z) | DK_pfx (k : Z).
Record ddicts : Set := mkDD { dd_uses : Z; dd_kind : dkind; dd_set : option (list Z); dd_last : Z }.
Definition dd_empty : ddicts := mkDD 0 DK_none None 0.
Definition dd_hasdict (x : ddicts) : bool := match dd_kind x with DK_none => false | _ => true end.
(* ZSTD_clearDict *)
Definition dd_clear (x : ddicts) : ddicts := mkDD 0 DK_none (dd_set x) (dd_last x).
(* ZSTD_DCtx_reset(parameters) since fix b70602d: ZSTD_clearDict, then the DDict hash set is freed *)
Definition dd_drop (x : ddicts) : ddicts := mkDD 0 DK_none None (dd_last x).
Definition dd_with_last (x : ddicts) (fid : Z) : ddicts := mkDD (dd_uses x) (dd_kind x) (dd_set x) fid.
(* ZSTD_DCtx_selectFrameDDict when `refMultipleDDicts && ddictSet`: a frame naming a referenced dictionary switches to it.
   Since fixes a891479 / d0ddbff the selection only replaces a REFERENCED DDict that is in use
   (`dctx->ddict && dctx->dictUses != ZSTD_dont_use && dctx->ddict != dctx->ddictLocal`): never the dictionary loaded into the
   context, never a prefix (pending or spent).  [dd_select_any] is the code before: any non-NULL dctx->ddict was replaced
   (and the context's own copy freed) - finding C16-refmulti-select-destroys-loaded-dictionary. *)
Definition dd_selectable (x : ddicts) : bool :=
  negb (Z.eqb (dd_uses x) 0) && match dd_kind x with DK_ref _ => true | _ => false end.
Definition dd_select (multi : bool) (x : ddicts) (fid : Z) : ddicts :=
  match dd_set x with
  | Some l => if multi && dd_selectable x && existsb (Z.eqb fid) l then mkDD 2 (DK_ref fid) (dd_set x) (dd_last x) else x
  | None => x
  end.
Definition dd_select_any (multi : bool) (x : ddicts) (fid : Z) : ddicts :=
  match dd_set x with
  | Some l => if multi && dd_hasdict x && existsb (Z.eqb fid) l then mkDD 2 (DK_ref fid) (dd_set x) (dd_last x) else x
  | None => x
  end.
(* ZSTD_getDDict: what the frame starting now uses, and what is left afterwards *)
Definition dd_get (x : ddicts) : ddicts * dkind :=
  if Z.eqb (dd_uses x) 0 then (dd_clear x, DK_none)
  else if Z.eqb (dd_uses x) 1 then (mkDD 0 (dd_kind x) (dd_set x) (dd_last x), dd_kind x)
  else (x, dd_kind x).
(* does a frame that needs [need] (0 nothing, 1 / 2 that dictionary, 3 / 4 prefix 1 / 2) decode with [used] ? *)
Definition dkind_matches (used : dkind) (need : Z) : bool :=
  if Z.eqb need 0 then true
  else match used with
       | DK_ref k | DK_local k => ((need =? 1) || (need =? 2)) && (k =? need)
       | DK_pfx k => ((need =? 3) || (need =? 4)) && (k =? need - 2)
       | DK_none => false
       end.

Record dctx : Type := mkD {
  d_format : Z; d_maxWindowSize : Z; d_outBufferMode : Z; d_forceIgnoreChecksum : Z; d_refMultipleDDicts : Z;
  d_disableHufAsm : Z; d_maxBlockSizeParam : Z;
  d_stage : stage; d_dict : ddicts; d_static : bool }.

Definition d_maxWindowSize_default : Z := 2 ^ z_ZSTD_WINDOWLOG_LIMIT_DEFAULT + 1.   (* ZSTD_MAXWINDOWSIZE_DEFAULT *)

(* ZSTD_DCtx_resetParameters *)
Definition dctx_reset_params (d : dctx) : dctx :=
  mkD 0 d_maxWindowSize_default 0 0 0 0 0 (d_stage d) (d_dict d) (d_static d).

Definition dctx_new (is_static : bool) : dctx :=
  mkD 0 d_maxWindowSize_default 0 0 0 0 0 S_init dd_empty is_static.

(* ZSTD_DCtx_getParameter; windowLogMax = ZSTD_highbit32((U32)maxWindowSize) *)
Definition dctx_get_p (d : dctx) (p : dparam) : Z :=
  match p with
  | D_windowLogMax => Z.log2 (d_maxWindowSize d mod 2 ^ 32)
  | D_format => d_format d
  | D_stableOutBuffer => d_outBufferMode d
  | D_forceIgnoreChecksum => d_forceIgnoreChecksum d
  | D_refMultipleDDicts => d_refMultipleDDicts d
  | D_disableHuffmanAssembly => d_disableHufAsm d
  | D_maxBlockSize => d_maxBlockSizeParam d
  end.

Definition dctx_get (d : dctx) (id : Z) : result * Z :=
  match dparam_of_id id with
  | Some p => (Ok, dctx_get_p d p)
  | None => (Err E_unsupported, 0)
  end.

Definition dctx_with (d : dctx) (p : dparam) (v : Z) : dctx :=
  match p with
  | D_windowLogMax => mkD (d_format d) (2 ^ v) (d_outBufferMode d) (d_forceIgnoreChecksum d) (d_refMultipleDDicts d) (d_disableHufAsm d) (d_maxBlockSizeParam d) (d_stage d) (d_dict d) (d_static d)
  | D_format => mkD v (d_maxWindowSize d) (d_outBufferMode d) (d_forceIgnoreChecksum d) (d_refMultipleDDicts d) (d_disableHufAsm d) (d_maxBlockSizeParam d) (d_stage d) (d_dict d) (d_static d)
  | D_stableOutBuffer => mkD (d_format d) (d_maxWindowSize d) v (d_forceIgnoreChecksum d) (d_refMultipleDDicts d) (d_disableHufAsm d) (d_maxBlockSizeParam d) (d_stage d) (d_dict d) (d_static d)
  | D_forceIgnoreChecksum => mkD (d_format d) (d_maxWindowSize d) (d_outBufferMode d) v (d_refMultipleDDicts d) (d_disableHufAsm d) (d_maxBlockSizeParam d) (d_stage d) (d_dict d) (d_static d)
  | D_refMultipleDDicts => mkD (d_format d) (d_maxWindowSize d) (d_outBufferMode d) (d_forceIgnoreChecksum d) v (d_disableHufAsm d) (d_maxBlockSizeParam d) (d_stage d) (d_dict d) (d_static d)
  | D_disableHuffmanAssembly => mkD (d_format d) (d_maxWindowSize d) (d_outBufferMode d) (d_forceIgnoreChecksum d) (d_refMultipleDDicts d) (flag v) (d_maxBlockSizeParam d) (d_stage d) (d_dict d) (d_static d)
  | D_maxBlockSize => mkD (d_format d) (d_maxWindowSize d) (d_outBufferMode d) (d_forceIgnoreChecksum d) (d_refMultipleDDicts d) (d_disableHufAsm d) v (d_stage d) (d_dict d) (d_static d)
  end.

(* ZSTD_DCtx_setParameter *)
Definition dctx_set (d : dctx) (id v : Z) : dctx * result :=
  if negb (stage_is_init (d_stage d)) then (d, Err E_stage_wrong)
  else match dparam_of_id id with
       | None => (d, Err E_unsupported)
       | Some p =>
           let v1 := match p with D_windowLogMax => if Z.eqb v 0 then z_ZSTD_WINDOWLOG_LIMIT_DEFAULT else v | _ => v end in
           let skip_check := match p with D_maxBlockSize => Z.eqb v 0 | _ => false end in
           if negb skip_check && negb (dwithin p v1) then (d, Err E_outOfBound)
           else if (match p with D_refMultipleDDicts => d_static d | _ => false end) then (d, Err E_unsupported)
           else (dctx_with d p v1, Ok)
       end.

(* ZSTD_DCtx_setMaxWindowSize(dctx, size_t) *)
Definition dctx_set_max_window_size (d : dctx) (size : Z) : dctx * result :=
  match dbounds D_windowLogMax with
  | None => (d, Err E_other)
  | Some (lo, hi) =>
      if negb (stage_is_init (d_stage d)) then (d, Err E_stage_wrong)
      else if size <? 2 ^ lo then (d, Err E_outOfBound)
      else if size >? 2 ^ hi then (d, Err E_outOfBound)
      else (mkD (d_format d) size (d_outBufferMode d) (d_forceIgnoreChecksum d) (d_refMultipleDDicts d) (d_disableHufAsm d) (d_maxBlockSizeParam d) (d_stage d) (d_dict d) (d_static d), Ok)
  end.

Definition dctx_set_stage (d : dctx) (s : stage) : dctx :=
  mkD (d_format d) (d_maxWindowSize d) (d_outBufferMode d) (d_forceIgnoreChecksum d) (d_refMultipleDDicts d) (d_disableHufAsm d) (d_maxBlockSizeParam d) s (d_dict d) (d_static d).
Definition dctx_set_dict (d : dctx) (b : ddicts) : dctx :=
  mkD (d_format d) (d_maxWindowSize d) (d_outBufferMode d) (d_forceIgnoreChecksum d) (d_refMultipleDDicts d) (d_disableHufAsm d) (d_maxBlockSizeParam d) (d_stage d) b (d_static d).

(* ZSTD_DCtx_reset *)
Definition dctx_reset (d : dctx) (dir : Z) : dctx * result :=
  let session := Z.eqb dir z_ZSTD_reset_session_only || Z.eqb dir z_ZSTD_reset_session_and_parameters in
  let params := Z.eqb dir z_ZSTD_reset_parameters || Z.eqb dir z_ZSTD_reset_session_and_parameters in
  let d1 := if session then dctx_set_stage d S_init else d in
  if params then
    if stage_is_init (d_stage d1) then (dctx_reset_params (dctx_set_dict d1 (dd_drop (d_dict d1))), Ok)
    else (d1, Err E_stage_wrong)
  else (d1, Ok).
(* the code before fix b70602d: ZSTD_clearDict only, the set of referenced DDicts survived the parameter reset *)
Definition dctx_reset_keepset (d : dctx) (dir : Z) : dctx * result :=
  let session := Z.eqb dir z_ZSTD_reset_session_only || Z.eqb dir z_ZSTD_reset_session_and_parameters in
  let params := Z.eqb dir z_ZSTD_reset_parameters || Z.eqb dir z_ZSTD_reset_session_and_parameters in
  let d1 := if session then dctx_set_stage d S_init else d in
  if params then
    if stage_is_init (d_stage d1) then (dctx_reset_params (dctx_set_dict d1 (dd_clear (d_dict d1))), Ok)
    else (d1, Err E_stage_wrong)
  else (d1, Ok).

(* ---- the dictionary side of decoding a frame (round 2).
   [stale]: the code before fix a24560c ran ZSTD_DCtx_selectFrameDDict at zdss_loadHeader before the new header was read, i.e.
   with the dictID of the PREVIOUS frame (finding F29); [stale = false] is the current tree and what zstd.h documents.
   [fmt_ok]: the frame is in the format the context expects (otherwise the header is refused before any dictionary is touched,
   and dctx->fParams is left zeroed); [fid]: the dictionary the frame header names (0: none); [need]: see dkind_matches. *)
Definition dd_stale_select (stale : bool) (d : dctx) : ddicts :=
  if stale then dd_select (Z.eqb (d_refMultipleDDicts d) 1) (d_dict d) (dd_last (d_dict d)) else d_dict d.

(* ZSTD_decompressStream reaching the end of a frame header: select, then ZSTD_getDDict *)
Definition dd_stream_header (stale : bool) (d : dctx) (fmt_ok : bool) (fid : Z) : ddicts * dkind :=
  let x1 := dd_stale_select stale d in
  if negb fmt_ok then (dd_with_last x1 0, DK_none)
  else dd_get (dd_select (Z.eqb (d_refMultipleDDicts d) 1) (dd_with_last x1 fid) fid).

(* ZSTD_decompressStream fed the first two bytes of frame F of the context's own format: a complete header when magicless *)
Definition dctx_begin_gen (stale : bool) (d : dctx) : dctx :=
  let x := if Z.eqb (d_format d) 1 then fst (dd_stream_header stale d true 0) else dd_stale_select stale d in
  dctx_set_stage (dctx_set_dict d x) S_mid.
(* rest of frame F fed: the header completes now in the zstd1 format *)
Definition dctx_end_gen (stale : bool) (d : dctx) : dctx :=
  let x := if Z.eqb (d_format d) 1 then d_dict d else fst (dd_stream_header stale d true 0) in
  dctx_set_stage (dctx_set_dict d x) S_init.
(* whole frame F in one call *)
Definition dctx_frame_gen (stale : bool) (d : dctx) : dctx :=
  dctx_set_stage (dctx_set_dict d (fst (dd_stream_header stale d true 0))) S_init.
(* garbage: refused as a header *)
Definition dctx_bad_gen (stale : bool) (d : dctx) : dctx :=
  dctx_set_stage (dctx_set_dict d (fst (dd_stream_header stale d false 0))) S_mid.
(* `dfx k`: prepared frame G_k (k = 1 magicless, k = 4 names dictionary 1) streamed, then a session reset *)
(* G2 has a 4096-byte window, the others 1024.  Since fix b15fdb6 a single-use dictionary (ZSTD_DCtx_refPrefix) is used up by
   the frame start that succeeds, not by one that fails: for these frames (no content size, hence no single-pass shortcut)
   the start fails when the frame names a dictionary (the prefix has no ID) or when its window exceeds the limit.
   [dd_fx_pre]: the dictionary state when the header is complete and the selection has run, before any dictionary is taken. *)
Definition fx_window (k : Z) : Z := if Z.eqb k 2 then 4096 else 1024.
Definition dd_fx_pre (stale : bool) (d : dctx) (fid : Z) : ddicts :=
  dd_select (Z.eqb (d_refMultipleDDicts d) 1) (dd_with_last (dd_stale_select stale d) fid) fid.
Definition dctx_fx_gen (stale : bool) (d : dctx) (k : Z) : dctx :=
  let fmt_ok := Z.eqb (d_format d) (if Z.eqb k 1 then 1 else 0) in
  let fid := if Z.eqb k 4 then 1 else 0 in
  let pre := dd_fx_pre stale d fid in
  if fmt_ok && Z.eqb (dd_uses pre) 1 && negb (Z.eqb fid 0 && (fx_window k <=? d_maxWindowSize d))
  then dctx_set_stage (dctx_set_dict d pre) S_init
  else dctx_set_stage (dctx_set_dict d (fst (dd_stream_header stale d fmt_ok fid))) S_init.

(* fixture frame f: 0 plain, 1 / 2 compressed with dictionary 1 / 2 (named in the header), 3 / 4 with prefix 1 / 2; all zstd1 *)
Definition frame_fid (f : Z) : Z := if (f =? 1) || (f =? 2) then f else 0.

(* `ddec f`: the whole frame through ZSTD_decompressStream, then a session reset *)
Definition dctx_dec_stream_gen (stale : bool) (d : dctx) (f : Z) : dctx * result :=
  let fmt_ok := Z.eqb (d_format d) 0 in
  let '(x, used) := dd_stream_header stale d fmt_ok (frame_fid f) in
  (dctx_set_stage (dctx_set_dict d x) S_init, if fmt_ok && dkind_matches used f then Ok else Err E_other).

(* since fix 2f289ec the single-pass shortcut of ZSTD_decompressStream (the whole frame in one call, which is what `ddec` does)
   treats a single-use dictionary like the other two frame-start doors (b15fdb6, b87b37f): the call starts from it and marks it
   used only when it succeeds *)
Definition dctx_dec_stream_once (stale : bool) (d : dctx) (f : Z) : dctx * result :=
  let pre := dd_fx_pre stale d (frame_fid f) in
  let ok := dkind_matches (dd_kind pre) f in
  (dctx_set_stage (dctx_set_dict d (if ok then mkDD 0 (dd_kind pre) (dd_set pre) (dd_last pre) else pre)) S_init,
   if ok then Ok else Err E_other).
Definition dctx_dec_stream_disp (stale : bool) (d : dctx) (f : Z) : dctx * result :=
  if Z.eqb (d_format d) 0 && Z.eqb (dd_uses (dd_fx_pre stale d (frame_fid f))) 1
  then dctx_dec_stream_once stale d f else dctx_dec_stream_gen stale d f.

(* one frame of a one-shot call (ZSTD_decompressMultiFrame): [start] is the DDict the call was entered with.
   [stale_tables]: before fix 70fa663 the frame was decoded with the tables of [start] although ZSTD_decodeFrameHeader had
   switched dctx->ddict to the dictionary named by the frame (finding F30). *)
(* the pre-selection of ZSTD_decompressMultiFrame (fix 70fa663) uses the predicate of ZSTD_DCtx_selectFrameDDict since the repair of
   finding C16-refmulti-preselection-ignores-loaded-dictionary *)
Definition dd_preselectable (x : ddicts) : bool := dd_selectable x.
Definition dd_oneshot_frame (stale_tables : bool) (multi : bool) (x : ddicts) (start : dkind) (f : Z) : ddicts * dkind * bool :=
  let fid := frame_fid f in
  let x1 := dd_select multi (dd_with_last x fid) fid in
  let switched := match dd_set x with Some l => multi && dd_preselectable x && existsb (Z.eqb fid) l | None => false end in
  let used := if switched && negb stale_tables && (match start with DK_none => false | _ => true end) then DK_ref fid else start in
  (x1, used, dkind_matches used f).

(* `ddec1 f` / `ddecm f1 f2 f3`: ZSTD_decompressDCtx on one frame / on the concatenation of frames, then a session reset;
   the DDict a frame was started with is the one the next frame starts with *)
Fixpoint dd_oneshot_frames (stale_tables : bool) (multi : bool) (x : ddicts) (start : dkind) (fs : list Z) : ddicts * bool :=
  match fs with
  | [] => (x, true)
  | f :: t => let '(x1, start1, ok) := dd_oneshot_frame stale_tables multi x start f in
              if ok then dd_oneshot_frames stale_tables multi x1 start1 t else (x1, false)
  end.
Definition dctx_dec_oneshot_gen (stale_tables : bool) (d : dctx) (fs : list Z) : dctx * result :=
  let '(x0, start) := dd_get (d_dict d) in
  if negb (Z.eqb (d_format d) 0) then (dctx_set_stage (dctx_set_dict d (dd_with_last x0 0)) S_init, Err E_other)
  else let '(x1, ok) := dd_oneshot_frames stale_tables (Z.eqb (d_refMultipleDDicts d) 1) x0 start fs in
       (dctx_set_stage (dctx_set_dict d x1) S_init, if ok then Ok else Err E_other).
(* since fix b87b37f ZSTD_decompressDCtx does not call ZSTD_getDDict for a single-use dictionary (ZSTD_DCtx_refPrefix): the call
   starts from it and marks it used only when it succeeds; a call that fails leaves the prefix pending *)
Definition dctx_dec_oneshot_once (stale_tables : bool) (d : dctx) (fs : list Z) : dctx * result :=
  let x0 := d_dict d in
  if negb (Z.eqb (d_format d) 0) then (dctx_set_stage (dctx_set_dict d (dd_with_last x0 0)) S_init, Err E_other)
  else let '(x1, ok) := dd_oneshot_frames stale_tables (Z.eqb (d_refMultipleDDicts d) 1) x0 (dd_kind x0) fs in
       (dctx_set_stage (dctx_set_dict d (if ok then mkDD 0 (dd_kind x1) (dd_set x1) (dd_last x1) else x1)) S_init,
        if ok then Ok else Err E_other).
Definition dctx_dec_oneshot_disp (stale_tables : bool) (d : dctx) (fs : list Z) : dctx * result :=
  if Z.eqb (dd_uses (d_dict d)) 1 then dctx_dec_oneshot_once stale_tables d fs else dctx_dec_oneshot_gen stale_tables d fs.
(* `ddecu k f`: ZSTD_decompress_usingDDict with an explicit DDict k (0 = NULL); ZSTD_getDDict is not consulted *)
Definition dctx_dec_using_gen (stale_tables : bool) (d : dctx) (k f : Z) : dctx * result :=
  if negb (Z.eqb (d_format d) 0) then (dctx_set_stage (dctx_set_dict d (dd_with_last (d_dict d) 0)) S_init, Err E_other)
  else let '(x1, _, ok) := dd_oneshot_frame stale_tables (Z.eqb (d_refMultipleDDicts d) 1) (d_dict d)
                                           (if Z.eqb k 0 then DK_none else DK_ref k) f in
       (dctx_set_stage (dctx_set_dict d x1) S_init, if ok then Ok else Err E_other).

(* `ddecr k f`: ZSTD_decompress_usingDict(dctx, frame f, the bytes of dictionary k (0 = NULL)).  The tables and content of
   dictionary k are loaded by ZSTD_decompressBegin_usingDict, which records its ID; ZSTD_decodeFrameHeader then runs
   ZSTD_DCtx_selectFrameDDict (the context's DDict pointer may switch to a referenced DDict, nothing is loaded) and compares
   the recorded ID with the one the frame names.  [vouch]: before fix 9260ac3 the selection overwrote the recorded ID with
   the frame's, so the comparison passed whatever had been loaded (the frame was then decoded with the wrong dictionary:
   the model gives no verdict for that case, see [dd_id_check]). *)
Definition dd_switched (multi : bool) (x : ddicts) (fid : Z) : bool :=
  match dd_set x with Some l => multi && dd_selectable x && existsb (Z.eqb fid) l | None => false end.
Definition dd_id_check (vouch switched : bool) (loaded fid : Z) : bool :=
  Z.eqb fid 0 || (vouch && switched) || Z.eqb loaded fid.
Definition dctx_dec_raw_gen (vouch : bool) (d : dctx) (k f : Z) : dctx * result :=
  if negb (Z.eqb (d_format d) 0) then (dctx_set_stage (dctx_set_dict d (dd_with_last (d_dict d) 0)) S_init, Err E_other)
  else let fid := frame_fid f in
       let multi := Z.eqb (d_refMultipleDDicts d) 1 in
       let x1 := dd_select multi (dd_with_last (d_dict d) fid) fid in
       let pass := dd_id_check vouch (dd_switched multi (d_dict d) fid) k fid in
       (dctx_set_stage (dctx_set_dict d x1) S_init,
        if pass && dkind_matches (if Z.eqb k 0 then DK_none else DK_local k) f then Ok else Err E_other).
Definition dctx_dec_raw : dctx -> Z -> Z -> dctx * result := dctx_dec_raw_gen false.

Definition dctx_begin : dctx -> dctx := dctx_begin_gen false.
Definition dctx_end : dctx -> dctx := dctx_end_gen false.
Definition dctx_frame : dctx -> dctx := dctx_frame_gen false.
Definition dctx_bad : dctx -> dctx := dctx_bad_gen false.
Definition dctx_fx : dctx -> Z -> dctx := dctx_fx_gen false.
Definition dctx_dec_stream : dctx -> Z -> dctx * result := dctx_dec_stream_disp false.
Definition dctx_dec_oneshot : dctx -> list Z -> dctx * result := dctx_dec_oneshot_disp false.
Definition dctx_dec_using : dctx -> Z -> Z -> dctx * result := dctx_dec_using_gen false.

(* ZSTD_DCtx_refDDict: k = 0 is NULL; with ZSTD_d_refMultipleDDicts the DDict is also stored in the (lazily allocated) set *)
Definition dctx_refddict (d : dctx) (k : Z) : dctx * result :=
  if negb (stage_is_init (d_stage d)) then (d, Err E_stage_wrong)
  else let x := d_dict d in
       if Z.eqb k 0 then (dctx_set_dict d (dd_clear x), Ok)
       else let set' := if Z.eqb (d_refMultipleDDicts d) 1
                        then Some (k :: match dd_set x with Some l => l | None => [] end) else dd_set x in
            (dctx_set_dict d (mkDD 2 (DK_ref k) set' (dd_last x)), Ok).
(* ZSTD_DCtx_loadDictionary (by copy) *)
Definition dctx_load (d : dctx) (k : Z) : dctx * result :=
  if negb (stage_is_init (d_stage d)) then (d, Err E_stage_wrong)
  else let x := d_dict d in
       if Z.eqb k 0 then (dctx_set_dict d (dd_clear x), Ok)
       else (dctx_set_dict d (mkDD 2 (DK_local k) (dd_set x) (dd_last x)), Ok).
(* ZSTD_DCtx_refPrefix: loadDictionary by reference, then dictUses = use_once (also for the NULL prefix) *)
Definition dctx_refprefix (d : dctx) (k : Z) : dctx * result :=
  if negb (stage_is_init (d_stage d)) then (d, Err E_stage_wrong)
  else let x := d_dict d in
       (dctx_set_dict d (mkDD 1 (if Z.eqb k 0 then DK_none else DK_pfx k) (dd_set x) (dd_last x)), Ok).

(* ------------------------------------------------------------------ the world: the objects of one test case *)
Record world : Type := mkW { w_c0 : cctx; w_c1 : cctx; w_p : cstore; w_d0 : dctx; w_d1 : dctx }.

Definition world_new : world := mkW (cctx_new false) (cctx_new true) cparams_default (dctx_new false) (dctx_new true).

Inductive op : Set :=
| OCSet (o : bool) (id v : Z) | OCGet (o : bool) (id : Z) | OCReset (o : bool) (dir : Z)
| OCBegin (o : bool) | OCEnd (o : bool) | OCFrame (o : bool) | OCFail (o : bool) | OCBad (o : bool) | OCSimple (o : bool)
| OCLoad (o : bool) (k : Z) | OCRefCDict (o : bool) (k : Z) | OCRefPrefix (o : bool) (k : Z) | OCApply (o : bool)
| OCVec (o : bool)
| OPSet (id v : Z) | OPGet (id : Z) | OPReset | OPInit (level : Z) | OPVec
| ODSet (o : bool) (id v : Z) | ODGet (o : bool) (id : Z) | ODReset (o : bool) (dir : Z) | ODMaxWin (o : bool) (size : Z)
| ODBegin (o : bool) | ODEnd (o : bool) | ODBad (o : bool) | ODBadCall (o : bool) | ODFrame (o : bool)
| ODRefDDict (o : bool) (k : Z) | ODVec (o : bool)
| ONop | ONew
(* round 2 *)
| OCSetCP (o : bool) (cp : cpar) | OCSetFP (o : bool) (fp : fpar) | OCSetP (o : bool) (cp : cpar) (fp : fpar)
| OPInitAdv (cp : cpar) (fp : fpar)
| ODLoad (o : bool) (k : Z) | ODRefPrefix (o : bool) (k : Z) | ODFx (o : bool) (k : Z)
| ODDec (o : bool) (f : Z) | ODDec1 (o : bool) (fs : list Z) | ODDecU (o : bool) (k f : Z) | ODXVec (o : bool)
(* round 3 *)
| ODDecR (o : bool) (k f : Z).

Definition get_c (w : world) (o : bool) : cctx := if o then w_c1 w else w_c0 w.
Definition put_c (w : world) (o : bool) (c : cctx) : world :=
  if o then mkW (w_c0 w) c (w_p w) (w_d0 w) (w_d1 w) else mkW c (w_c1 w) (w_p w) (w_d0 w) (w_d1 w).
Definition get_d (w : world) (o : bool) : dctx := if o then w_d1 w else w_d0 w.
Definition put_d (w : world) (o : bool) (d : dctx) : world :=
  if o then mkW (w_c0 w) (w_c1 w) (w_p w) (w_d0 w) d else mkW (w_c0 w) (w_c1 w) (w_p w) d (w_d1 w).
Definition put_p (w : world) (s : cstore) : world := mkW (w_c0 w) (w_c1 w) s (w_d0 w) (w_d1 w).

Definition stage_code (s : stage) : Z := match s with S_init => 0 | S_mid => 1 end.
Definition cdict_code (d : cdict_state) : Z :=
  match d with CD_none => 0 | CD_local false => 1 | CD_local true => 2 | CD_cdict => 3 | CD_prefix => 4 end.

(* what a harness can observe of a compression context: every parameter through getParameter, stage, dictionary kind *)
Definition cctx_vec (c : cctx) : list Z :=
  map (c_params c) all_cparams ++ [stage_code (c_stage c); cdict_code (c_dict c)].
Definition cstore_vec (s : cstore) : list Z := map s all_cparams.
Definition dctx_vec (d : dctx) : list Z :=
  map (dctx_get_p d) all_dparams ++ [d_maxWindowSize d; stage_code (d_stage d); if dd_hasdict (d_dict d) then 1 else 0].
(* dictUses, kind of dctx->ddict (0 none, 1 referenced, 2 local copy, 3 prefix), which one, set allocated, set members
   (dd_last is not observable: since fix a24560c no call reads dctx->fParams.dictID before writing it) *)
Definition dkind_code (k : dkind) : list Z :=
  match k with DK_none => [0; 0] | DK_ref k => [1; k] | DK_local k => [2; k] | DK_pfx k => [3; k] end.
Definition b2z (b : bool) : Z := if b then 1 else 0.
Definition dctx_xvec (d : dctx) : list Z :=
  let x := d_dict d in
  let l := match dd_set x with Some l => l | None => [] end in
  [dd_uses x] ++ dkind_code (dd_kind x)
  ++ [b2z (match dd_set x with Some _ => true | None => false end); b2z (existsb (Z.eqb 1) l); b2z (existsb (Z.eqb 2) l)].

(* one API call: new world, return class, values printed *)
Definition step (w : world) (x : op) : world * (result * list Z) :=
  match x with
  | OCSet o id v => let '(c, r) := cctx_set (get_c w o) id v in (put_c w o c, (r, []))
  | OCGet o id => let '(r, v) := cctx_get (get_c w o) id in (w, (r, [v]))
  | OCReset o dir => let '(c, r) := cctx_reset (get_c w o) dir in (put_c w o c, (r, []))
  | OCBegin o => (put_c w o (cctx_begin (get_c w o)), (Ok, []))
  | OCEnd o => let c := get_c w o in (put_c w o (cctx_end c), (Ok, cctx_frame_hdr c (stage_is_init (c_stage c))))
  | OCFrame o => let c := get_c w o in (put_c w o (cctx_frame c), (Ok, cctx_frame_hdr c true))
  | OCFail o => (put_c w o (cctx_frame_fail (get_c w o)), (Err E_other, []))
  | OCBad o => (w, (Err E_other, []))
  | OCSimple o => (put_c w o (cctx_simple (get_c w o)), (Ok, simple_frame_hdr))
  | OCLoad o k => let '(c, r) := cctx_load (get_c w o) k in (put_c w o c, (r, []))
  | OCRefCDict o k => let '(c, r) := cctx_refcdict (get_c w o) k in (put_c w o c, (r, []))
  | OCRefPrefix o k => let '(c, r) := cctx_refprefix (get_c w o) k in (put_c w o c, (r, []))
  | OCApply o => let '(c, r) := cctx_apply (get_c w o) (w_p w) in (put_c w o c, (r, []))
  | OCVec o => (w, (Ok, cctx_vec (get_c w o)))
  | OPSet id v => let '(s, r) := cparams_set_id (w_p w) id v in (put_p w s, (r, []))
  | OPGet id => let '(r, v) := cparams_get_id (w_p w) id in (w, (r, [v]))
  | OPReset => (put_p w cparams_default, (Ok, []))
  | OPInit level => (put_p w (cparams_init level), (Ok, []))
  | OPVec => (w, (Ok, cstore_vec (w_p w)))
  | ODSet o id v => let '(d, r) := dctx_set (get_d w o) id v in (put_d w o d, (r, []))
  | ODGet o id => let '(r, v) := dctx_get (get_d w o) id in (w, (r, [v]))
  | ODReset o dir => let '(d, r) := dctx_reset (get_d w o) dir in (put_d w o d, (r, []))
  | ODMaxWin o size => let '(d, r) := dctx_set_max_window_size (get_d w o) size in (put_d w o d, (r, []))
  | ODBegin o => (put_d w o (dctx_begin (get_d w o)), (Ok, []))
  | ODEnd o => (put_d w o (dctx_end (get_d w o)), (Ok, []))
  | ODBad o => (put_d w o (dctx_bad (get_d w o)), (Err E_other, []))
  | ODBadCall o => (w, (Err E_other, []))
  | ODFrame o => (put_d w o (dctx_frame (get_d w o)), (Ok, []))
  | ODRefDDict o k => let '(d, r) := dctx_refddict (get_d w o) k in (put_d w o d, (r, []))
  | ODVec o => (w, (Ok, dctx_vec (get_d w o)))
  | ONop => (w, (Ok, []))
  | ONew => (world_new, (Ok, []))
  | OCSetCP o cp => let '(c, r) := cctx_set_cparams (get_c w o) cp in (put_c w o c, (r, []))
  | OCSetFP o fp => let '(c, r) := cctx_set_fparams (get_c w o) fp in (put_c w o c, (r, []))
  | OCSetP o cp fp => let '(c, r) := cctx_set_params (get_c w o) cp fp in (put_c w o c, (r, []))
  | OPInitAdv cp fp => let '(s, r) := cparams_init_advanced (w_p w) cp fp in (put_p w s, (r, []))
  | ODLoad o k => let '(d, r) := dctx_load (get_d w o) k in (put_d w o d, (r, []))
  | ODRefPrefix o k => let '(d, r) := dctx_refprefix (get_d w o) k in (put_d w o d, (r, []))
  | ODFx o k => (put_d w o (dctx_fx (get_d w o) k), (Ok, []))
  | ODDec o f => let '(d, r) := dctx_dec_stream (get_d w o) f in (put_d w o d, (r, []))
  | ODDec1 o fs => let '(d, r) := dctx_dec_oneshot (get_d w o) fs in (put_d w o d, (r, []))
  | ODDecU o k f => let '(d, r) := dctx_dec_using (get_d w o) k f in (put_d w o d, (r, []))
  | ODXVec o => (w, (Ok, dctx_xvec (get_d w o)))
  | ODDecR o k f => let '(d, r) := dctx_dec_raw (get_d w o) k f in (put_d w o d, (r, []))
  end.

Definition run (w : world) (ops : list op) : world := fold_left (fun w x => fst (step w x)) ops w.
