(* C16 round 2 - proofs about the session state of a compression context (SessionModel.v): pledged source size, applied
   parameters, parameters of a running multi-threaded frame, attached dictionary. *)
From Coq Require Import ZArith List Bool Lia.
From ZV.Gen Require Import Gen_Bounds.
From ZV.Params Require Import BoundsModel CParamsAdjust ParamModel ParamProofs ParamProofs2 SessionModel.
Import ListNotations.
Local Open Scope Z_scope.

Definition xget_c (w : xworld) (o : bool) : cctx := get_c (xw_base w) o.

(* the compression context an extended call works on *)
Definition xop_target (x : xop) : option bool :=
  match x with
  | XB b => op_cctx b
  | XPledge o _ | XFxWin o | XXVec o | XAVec o | XMVec o | XUse o => Some o
  end.

Lemma get_put_s_same : forall w o s, get_s (put_s w o s) o = s.
Proof. intros w [] s; reflexivity. Qed.
Lemma get_put_s_other : forall w o o' s, o <> o' -> get_s (put_s w o' s) o = get_s w o.
Proof. intros w [] [] s H; try reflexivity; congruence. Qed.
Lemma get_s_put_base : forall w o b, get_s (put_base w b) o = get_s w o.
Proof. intros w [] b; reflexivity. Qed.
Lemma base_put_s : forall w o s, xw_base (put_s w o s) = xw_base w.
Proof. intros w [] s; reflexivity. Qed.
Lemma base_put_base : forall w b, xw_base (put_base w b) = b.
Proof. reflexivity. Qed.

(* a base call that names no compression context leaves both of them alone (ONew aside) *)
Lemma step_no_cctx : forall w b o, op_cctx b = None -> b <> ONew -> get_c (fst (step w b)) o = get_c w o.
Proof.
  intros w b o Hn Hnew.
  destruct b; cbn [op_cctx] in Hn; try discriminate Hn; cbn [step];
    repeat match goal with |- context [let '(_, _) := ?e in _] => destruct e eqn:?E end;
    cbn [fst]; rewrite ?get_c_put_d, ?get_c_put_p; try reflexivity.
  contradiction Hnew; reflexivity.
Qed.

(* a base call on compression context o' leaves the other one alone *)
Lemma step_other_cctx : forall w b o o', op_cctx b = Some o' -> o <> o' -> get_c (fst (step w b)) o = get_c w o.
Proof.
  intros w b o o' Ht Hne.
  destruct b; cbn [op_cctx] in Ht; try discriminate Ht; injection Ht as ->; cbn [step];
    repeat match goal with |- context [let '(_, _) := ?e in _] => destruct e eqn:?E end;
    cbn [fst]; try reflexivity; apply get_put_c_other; exact Hne.
Qed.

(* ------------------------------------------------------------------ shape of the extended step *)
Lemma op_cctx_not_new : forall b o, op_cctx b = Some o -> is_new b = false.
Proof. intros b o H. destruct b; try reflexivity. discriminate H. Qed.

(* a call on another object: session and context of [o] are untouched *)
Lemma xstep_gen_other : forall lk eg kf w x o, xop_target x <> Some o -> x <> XB ONew ->
  get_s (fst (xstep_gen lk eg kf w x)) o = get_s w o /\ xget_c (fst (xstep_gen lk eg kf w x)) o = xget_c w o.
Proof.
  intros lk eg kf w x o Ht Hnew. unfold xget_c.
  destruct x as [b|o' v|o'|o'|o'|o'|o']; cbn [xop_target] in Ht; unfold xstep_gen.
  - destruct (is_new b) eqn:Hn; [destruct b; try discriminate Hn; contradiction Hnew; reflexivity|].
    destruct (step (xw_base w) b) as [b' [r vals]] eqn:Es.
    destruct (op_cctx b) as [o'|] eqn:Hc.
    + assert (Hne : o <> o') by (intro; subst; apply Ht; reflexivity).
      assert (Hb' : get_c b' o = get_c (xw_base w) o).
      { replace b' with (fst (step (xw_base w) b)) by (rewrite Es; reflexivity). eapply step_other_cctx; eassumption. }
      destruct (is_end b && end_refused _ _); cbn [fst].
      * unfold xrefuse. destruct (mt_frame _); rewrite get_put_s_other by exact Hne; rewrite base_put_s;
          rewrite ?get_s_put_base, ?base_put_base; (split; [reflexivity|]); [apply get_put_c_other; exact Hne | reflexivity].
      * rewrite get_put_s_other by exact Hne. rewrite base_put_s, get_s_put_base, base_put_base. split; [reflexivity | exact Hb'].
    + cbn [fst]. rewrite get_s_put_base, base_put_base. split; [reflexivity|].
      replace b' with (fst (step (xw_base w) b)) by (rewrite Es; reflexivity). apply step_no_cctx; [exact Hc|].
      intro; subst b; discriminate Hn.
  - assert (Hne : o <> o') by (intro; subst; apply Ht; reflexivity).
    destruct (stage_is_init _); cbn [fst]; [rewrite get_put_s_other by exact Hne; rewrite base_put_s|]; split; reflexivity.
  - assert (Hne : o <> o') by (intro; subst; apply Ht; reflexivity).
    destruct (step (xw_base w) (OCFrame o')) as [b' [r vals]] eqn:Es; cbn [fst].
    rewrite get_put_s_other by exact Hne. rewrite base_put_s, get_s_put_base, base_put_base. split; [reflexivity|].
    replace b' with (fst (step (xw_base w) (OCFrame o'))) by (rewrite Es; reflexivity). eapply step_other_cctx; [reflexivity | exact Hne].
  - split; reflexivity.
  - split; reflexivity.
  - split; reflexivity.
  - split; reflexivity.
Qed.

(* a base call on [o] itself: the context is what the base model says, the session is [sess_after]; the one exception is
   the refused end of a frame whose pledge is not met *)
Lemma xstep_gen_target : forall lk eg kf w b o, op_cctx b = Some o ->
  let c := xget_c w o in
  let s := get_s w o in
  let c' := get_c (fst (step (xw_base w) b)) o in
  let r := fst (snd (step (xw_base w) b)) in
  if is_end b && end_refused c s
  then xstep_gen lk eg kf w (XB b) = (xrefuse w o c s, (Err E_other, []))
  else get_s (fst (xstep_gen lk eg kf w (XB b))) o = sess_after lk eg kf s c c' r b
       /\ xget_c (fst (xstep_gen lk eg kf w (XB b))) o = c'
       /\ fst (snd (xstep_gen lk eg kf w (XB b))) = r.
Proof.
  intros lk eg kf w b o Hc. cbn zeta. unfold xget_c, xstep_gen. rewrite (op_cctx_not_new b o Hc), Hc.
  destruct (step (xw_base w) b) as [b' [r vals]]. cbn [fst snd].
  destruct (is_end b && end_refused _ _); [reflexivity|]. cbn [fst snd].
  rewrite get_put_s_same, base_put_s, base_put_base. auto.
Qed.

Lemma xrefuse_shape : forall w o c s, c = xget_c w o -> c_stage c = S_mid ->
  let w' := xrefuse w o c s in
  (mt_frame (mt_update c s) = false -> xget_c w' o = c /\ get_s w' o = mt_update c s)
  /\ (mt_frame (mt_update c s) = true ->
      xget_c w' o = mkC (c_params c) S_init (c_dict c) (c_static c) /\ get_s w' o = set_fed (set_pledge (mt_update c s) 0) 0).
Proof.
  intros w o c s Hc Hs. cbn zeta. unfold xrefuse, xget_c. split; intro Hm; rewrite Hm.
  - rewrite base_put_s, get_put_s_same. auto.
  - rewrite base_put_s, get_put_s_same, base_put_base, get_put_c_same. auto.
Qed.

(* ------------------------------------------------------------------ what the session helpers keep *)
Lemma mt_update_fields : forall c x,
  s_pledge (mt_update c x) = s_pledge x /\ s_dk (mt_update c x) = s_dk x /\ True
  /\ s_fed (mt_update c x) = s_fed x /\ s_applied (mt_update c x) = s_applied x /\ s_cur (mt_update c x) = s_cur x
  /\ s_last (mt_update c x) = s_last x.
Proof.
  intros c x. unfold mt_update. destruct (mt_frame x && s_changed x); [|repeat split].
  destruct (s_mt x); repeat split.
Qed.

Lemma mt_update_noop : forall c x, mt_frame x && s_changed x = false -> mt_update c x = x.
Proof. intros c x H. unfold mt_update. rewrite H. reflexivity. Qed.

Lemma mt_frame_applied : forall x y, s_applied x = s_applied y -> mt_frame x = mt_frame y.
Proof. intros x y H. unfold mt_frame. rewrite H. reflexivity. Qed.

Lemma dk_after_fields : forall c' r k x,
  s_pledge (dk_after c' r k x) = s_pledge x /\ s_changed (dk_after c' r k x) = s_changed x
  /\ s_fed (dk_after c' r k x) = s_fed x /\ s_applied (dk_after c' r k x) = s_applied x /\ s_mt (dk_after c' r k x) = s_mt x
  /\ s_cur (dk_after c' r k x) = s_cur x /\ s_last (dk_after c' r k x) = s_last x.
Proof. intros c' r k x. unfold dk_after. destruct (c_dict c'); try destruct r; repeat split. Qed.

Lemma pledge_unknown_is_zero : u64 (z_ZSTD_CONTENTSIZE_UNKNOWN + 1) = 0.
Proof. vm_compute. reflexivity. Qed.

(* ------------------------------------------------------------------ ZSTD_CCtx_setPledgedSrcSize *)
Lemma pledge_call_l : forall w o v,
  (c_stage (xget_c w o) = S_mid -> xstep w (XPledge o v) = (w, (Err E_stage_wrong, [])))
  /\ (c_stage (xget_c w o) = S_init ->
      xstep w (XPledge o v) = (put_s w o (set_pledge (get_s w o) (u64 (v + 1))), (Ok, []))).
Proof.
  intros w o v. unfold xstep, xstep_gen, xget_c. split; intro H; rewrite H; reflexivity.
Qed.

(* calls that can change the pledge of context [o] *)
Definition touches_pledge (o : bool) (x : xop) : bool :=
  match x with
  | XB (OCReset o' _) | XB (OCEnd o') | XB (OCFrame o') | XB (OCFail o') | XB (OCSimple o') | XPledge o' _ | XFxWin o' => Bool.eqb o o'
  | XB ONew => true
  | _ => false
  end.

Lemma eqb_false_neq : forall o o', Bool.eqb o o' = false -> o <> o'.
Proof. intros [] [] H; try discriminate H; discriminate. Qed.

Lemma xop_target_dec : forall x o, xop_target x = Some o \/ xop_target x <> Some o.
Proof. intros x o. destruct (xop_target x) as [[]|]; destruct o; auto; right; discriminate. Qed.

Lemma pledge_sticky_step : forall w x o, touches_pledge o x = false ->
  s_pledge (get_s (fst (xstep w x)) o) = s_pledge (get_s w o).
Proof.
  intros w x o Ht.
  destruct (xop_target_dec x o) as [Hx|Hx].
  2:{ destruct (xstep_gen_other false false false w x o Hx) as [E _]; [|unfold xstep; rewrite E; reflexivity].
      intro; subst x. discriminate Ht. }
  destruct x as [b|o' v|o'|o'|o'|o'|o']; cbn [xop_target] in Hx; try (injection Hx as ->);
    cbn [touches_pledge] in Ht; try (rewrite Bool.eqb_reflx in Ht; discriminate Ht); try reflexivity.
  pose proof (xstep_gen_target false false false w b o Hx) as H. cbn zeta in H.
  assert (He : is_end b = false).
  { destruct b; try reflexivity. cbn [op_cctx] in Hx. injection Hx as ->. rewrite Bool.eqb_reflx in Ht. discriminate Ht. }
  rewrite He in H. cbn [andb] in H. destruct H as (Hs & _ & _). unfold xstep. rewrite Hs.
  destruct b; cbn [op_cctx] in Hx; try discriminate Hx; injection Hx as ->; cbn [touches_pledge] in Ht;
    try (rewrite Bool.eqb_reflx in Ht; discriminate Ht); cbn [sess_after]; try reflexivity.
  - destruct (_ && _ && _); reflexivity.
  - destruct (stage_is_init _); rewrite (proj1 (mt_update_fields _ _)); reflexivity.
  - apply dk_after_fields.
  - apply dk_after_fields.
  - apply dk_after_fields.
Qed.

Lemma pledge_sticky_l : forall ops w o,
  Forall (fun x => touches_pledge o x = false) ops ->
  s_pledge (get_s (xrun w ops) o) = s_pledge (get_s w o).
Proof.
  induction ops as [|x ops IH]; intros w o Hf; [reflexivity|].
  inversion Hf; subst. unfold xrun. cbn [fold_left]. fold (xrun (fst (xstep w x)) ops).
  rewrite IH by assumption. apply pledge_sticky_step. assumption.
Qed.

(* the pledge is valid for one frame only: gone after every completed frame, after the simple API, after a session reset *)
Lemma target_session : forall w b o, op_cctx b = Some o -> is_end b = false ->
  get_s (fst (xstep w (XB b))) o =
    sess_after false false false (get_s w o) (xget_c w o) (get_c (fst (step (xw_base w) b)) o) (fst (snd (step (xw_base w) b))) b
  /\ xget_c (fst (xstep w (XB b))) o = get_c (fst (step (xw_base w) b)) o
  /\ fst (snd (xstep w (XB b))) = fst (snd (step (xw_base w) b)).
Proof.
  intros w b o Hc He. pose proof (xstep_gen_target false false false w b o Hc) as H. cbn zeta in H. rewrite He in H. exact H.
Qed.

Lemma pledge_single_frame_l : forall w o,
  s_pledge (get_s (fst (xstep w (XB (OCFrame o)))) o) = 0
  /\ s_pledge (get_s (fst (xstep w (XFxWin o))) o) = 0
  /\ s_pledge (get_s (fst (xstep w (XB (OCSimple o)))) o) = 0
  /\ (fst (snd (xstep w (XB (OCEnd o)))) = Ok -> s_pledge (get_s (fst (xstep w (XB (OCEnd o)))) o) = 0)
  /\ (forall dir, is_session dir = true -> s_pledge (get_s (fst (xstep w (XB (OCReset o dir)))) o) = 0).
Proof.
  intros w o. split; [|split; [|split; [|split]]].
  - rewrite (proj1 (target_session w (OCFrame o) o eq_refl eq_refl)). reflexivity.
  - unfold xstep, xstep_gen. destruct (step (xw_base w) (OCFrame o)) as [b' [r vals]]. cbn [fst]. rewrite get_put_s_same. reflexivity.
  - rewrite (proj1 (target_session w (OCSimple o) o eq_refl eq_refl)). reflexivity.
  - pose proof (xstep_gen_target false false false w (OCEnd o) o eq_refl) as H. cbn zeta in H. cbn [is_end andb] in H.
    unfold xstep. destruct (end_refused _ _).
    + rewrite H. cbn [fst snd]. intro E; discriminate E.
    + destruct H as (Hs & _ & _). intros _. rewrite Hs. cbn [sess_after]. destruct (stage_is_init _); reflexivity.
  - intros dir Hd. rewrite (proj1 (target_session w (OCReset o dir) o eq_refl eq_refl)). cbn [sess_after].
    unfold is_session in Hd. unfold is_session_dir. rewrite Hd. destruct (c_dict _); reflexivity.
Qed.

(* a reset of the parameters only keeps the pledge (it is refused mid-frame anyway) *)
Lemma pledge_kept_by_parameter_reset_l : forall w o dir, is_session dir = false ->
  s_pledge (get_s (fst (xstep w (XB (OCReset o dir)))) o) = s_pledge (get_s w o).
Proof.
  intros w o dir Hd. rewrite (proj1 (target_session w (OCReset o dir) o eq_refl eq_refl)). cbn [sess_after].
  unfold is_session in Hd. unfold is_session_dir. rewrite Hd. destruct (c_dict _); reflexivity.
Qed.

(* content size announced by the frames: the single-call functions and "all input in one ZSTD_e_end call" override the pledge
   with the size they see; a frame begun with ZSTD_e_continue carries the pledge *)
Definition fcs_of (cs size : Z) : Z := if negb (cs =? 0) then size else -1.

Lemma u64_small : forall n, 0 <= n < 2 ^ 64 -> u64 n = n.
Proof. intros n H. unfold u64. apply Z.mod_small. exact H. Qed.

Lemma frame_start_fcs : forall kf c x n st fed, 0 <= n < 2 ^ 63 ->
  fi_fcs (s_cur (frame_start kf c x (Some n) st fed)) = fcs_of (c_params c C_contentSizeFlag) n.
Proof.
  intros kf c x n st fed Hn. unfold frame_start, fcs_of. cbn [s_cur fi_fcs].
  rewrite u64_small by (split; [lia | apply (Z.lt_trans _ (2 ^ 63 + 1)); [lia | reflexivity]]).
  destruct (c_params c C_contentSizeFlag =? 0); cbn [negb andb]; [reflexivity|].
  destruct (Z.eqb_spec (n + 1) 0); [lia|]. cbn [negb]. lia.
Qed.

Lemma overriding_rules_l : forall w o,
  let cs := c_params (xget_c w o) C_contentSizeFlag in
  (exists did use, s_last (get_s (fst (xstep w (XB (OCFrame o)))) o) = Some (mkFI (fcs_of cs sz_oneshot) did use))
  /\ (exists did use, s_last (get_s (fst (xstep w (XFxWin o))) o) = Some (mkFI (fcs_of cs sz_fxwin) did use))
  /\ (c_stage (xget_c w o) = S_init ->
      exists did use, s_last (get_s (fst (xstep w (XB (OCEnd o)))) o) = Some (mkFI (fcs_of cs 0) did use))
  /\ s_last (get_s (fst (xstep w (XB (OCSimple o)))) o) = Some (mkFI sz_oneshot 0 0).
Proof.
  intros w o cs. split; [|split; [|split]].
  - rewrite (proj1 (target_session w (OCFrame o) o eq_refl eq_refl)). cbn [sess_after frame_done s_last].
    pose proof (frame_start_fcs false (xget_c w o) (get_s w o) sz_oneshot true sz_oneshot) as H.
    destruct (s_cur (frame_start false (xget_c w o) (get_s w o) (Some sz_oneshot) true sz_oneshot)) as [a b c0]. cbn [fi_fcs] in H.
    rewrite H by (vm_compute; split; [discriminate | reflexivity]). exists b, c0. reflexivity.
  - unfold xstep, xstep_gen. destruct (step (xw_base w) (OCFrame o)) as [b' [r vals]]. cbn [fst]. rewrite get_put_s_same.
    cbn [frame_done s_last].
    pose proof (frame_start_fcs false (get_c (xw_base w) o) (get_s w o) sz_fxwin true sz_fxwin) as H.
    destruct (s_cur (frame_start false (get_c (xw_base w) o) (get_s w o) (Some sz_fxwin) true sz_fxwin)) as [a b c0]. cbn [fi_fcs] in H.
    rewrite H by (vm_compute; split; [discriminate | reflexivity]). exists b, c0. reflexivity.
  - intro Hs. pose proof (xstep_gen_target false false false w (OCEnd o) o eq_refl) as H. cbn zeta in H. cbn [is_end andb] in H.
    unfold end_refused in H. rewrite Hs in H. cbn [stage_is_init negb andb] in H. destruct H as (Hss & _ & _).
    unfold xstep. rewrite Hss. cbn [sess_after]. rewrite Hs. cbn [stage_is_init frame_done s_last].
    rewrite (proj1 (proj2 (proj2 (proj2 (proj2 (proj2 (mt_update_fields _ _))))))).
    pose proof (frame_start_fcs false (xget_c w o) (get_s w o) 0 false 0) as H.
    destruct (s_cur (frame_start false (xget_c w o) (get_s w o) (Some 0) false 0)) as [a b c0]. cbn [fi_fcs] in H.
    rewrite H by (vm_compute; split; [discriminate | reflexivity]). exists b, c0. reflexivity.
  - rewrite (proj1 (target_session w (OCSimple o) o eq_refl eq_refl)). reflexivity.
Qed.

(* a frame begun with ZSTD_e_continue announces the pledged size (when the content size flag is on and a size was pledged) *)
Lemma streamed_frame_carries_pledge_l : forall w o, c_stage (xget_c w o) = S_init ->
  let s := get_s w o in
  let s' := get_s (fst (xstep w (XB (OCBegin o)))) o in
  fi_fcs (s_cur s') = (if negb (c_params (xget_c w o) C_contentSizeFlag =? 0) && negb (s_pledge s =? 0) then s_pledge s - 1 else -1)
  /\ s_pledge s' = s_pledge s /\ s_fed s' = sz_chunk.
Proof.
  intros w o Hs. cbn zeta. rewrite (proj1 (target_session w (OCBegin o) o eq_refl eq_refl)). cbn [sess_after]. rewrite Hs.
  cbn [stage_is_init]. destruct (mt_update_fields (get_c (fst (step (xw_base w) (OCBegin o))) o)
    (frame_start false (xget_c w o) (get_s w o) None false sz_chunk)) as (A & _ & _ & B & _ & C & _).
  rewrite A, B, C. repeat split.
Qed.

(* the pledge is controlled at the end of the frame *)
Lemma pledge_controlled_at_end_l : forall w o,
  c_stage (xget_c w o) = S_mid -> s_pledge (get_s w o) <> 0 -> s_fed (get_s w o) + 1 <> s_pledge (get_s w o) ->
  fst (snd (xstep w (XB (OCEnd o)))) = Err E_other
  /\ (mt_frame (get_s w o) = false -> fst (xstep w (XB (OCEnd o))) = put_s w o (get_s w o)).
Proof.
  intros w o Hs Hp Hf. pose proof (xstep_gen_target false false false w (OCEnd o) o eq_refl) as H. cbn zeta in H. cbn [is_end andb] in H.
  assert (Hr : end_refused (xget_c w o) (get_s w o) = true).
  { unfold end_refused. rewrite Hs. cbn [stage_is_init negb andb].
    destruct (Z.eqb_spec (s_pledge (get_s w o)) 0); [contradiction|]. destruct (Z.eqb_spec (s_fed (get_s w o) + 1) (s_pledge (get_s w o))); [contradiction|]. reflexivity. }
  rewrite Hr in H. unfold xstep. rewrite H. cbn [fst snd]. split; [reflexivity|].
  intro Hm. unfold xrefuse. rewrite mt_update_noop by (rewrite Hm; reflexivity). rewrite Hm. reflexivity.
Qed.

(* and met pledges let the frame end *)
Lemma pledge_met_frame_ends_l : forall w o,
  c_stage (xget_c w o) = S_mid -> (s_pledge (get_s w o) = 0 \/ s_fed (get_s w o) + 1 = s_pledge (get_s w o)) ->
  fst (snd (xstep w (XB (OCEnd o)))) = Ok
  /\ s_last (get_s (fst (xstep w (XB (OCEnd o)))) o) = Some (s_cur (get_s w o))
  /\ c_stage (xget_c (fst (xstep w (XB (OCEnd o)))) o) = S_init.
Proof.
  intros w o Hs Hp. pose proof (xstep_gen_target false false false w (OCEnd o) o eq_refl) as H. cbn zeta in H. cbn [is_end andb] in H.
  assert (Hr : end_refused (xget_c w o) (get_s w o) = false).
  { unfold end_refused. rewrite Hs. cbn [stage_is_init negb andb]. destruct Hp as [Hp|Hp]; rewrite Hp; [reflexivity|].
    rewrite Z.eqb_refl. cbn [negb]. apply Bool.andb_false_r. }
  rewrite Hr in H. destruct H as (A & B & C). unfold xstep. rewrite A, B, C. split; [reflexivity|]. split.
  - cbn [sess_after]. rewrite Hs. cbn [stage_is_init frame_done s_last].
    rewrite (proj1 (proj2 (proj2 (proj2 (proj2 (proj2 (mt_update_fields _ _))))))). reflexivity.
  - cbn [step fst]. rewrite get_put_c_same. unfold cctx_end. fold (xget_c w o). rewrite Hs. reflexivity.
Qed.

(* finding F27 (fixed by db660bb), kept as a refutation on the code-as-it-was variant: ZSTD_compressCCtx, then 100 bytes
   streamed and ended on the same context *)
Definition xrun_gen (lk eg kf : bool) (w : xworld) (ops : list xop) : xworld := fold_left (fun w x => fst (xstep_gen lk eg kf w x)) ops w.
Lemma oneshot_pledge_leak_refuted_l :
  let h := [XB (OCSimple false); XB (OCBegin false)] in
  fst (snd (xstep_gen true true true (xrun_gen true true true xworld_new h) (XB (OCEnd false)))) = Err E_other
  /\ fst (snd (xstep (xrun xworld_new h) (XB (OCEnd false)))) = Ok.
Proof. split; vm_compute; reflexivity. Qed.

(* ------------------------------------------------------------------ applied parameters *)
(* calls that (may) start a frame on context [o] *)
Definition touches_applied (o : bool) (x : xop) : bool :=
  match x with
  | XB (OCBegin o') | XB (OCEnd o') | XB (OCFrame o') | XB (OCFail o') | XB (OCSimple o') | XFxWin o' => Bool.eqb o o'
  | XB ONew => true
  | _ => false
  end.

(* no other call changes cctx->appliedParams: in particular no setter, authorised mid-frame or not *)
Lemma applied_sticky_step : forall w x o, touches_applied o x = false ->
  s_applied (get_s (fst (xstep w x)) o) = s_applied (get_s w o) /\ s_mt (get_s (fst (xstep w x)) o) = s_mt (get_s w o).
Proof.
  intros w x o Ht.
  destruct (xop_target_dec x o) as [Hx|Hx].
  2:{ destruct (xstep_gen_other false false false w x o Hx) as [E _]; [|unfold xstep; rewrite E; split; reflexivity].
      intro; subst x. discriminate Ht. }
  destruct x as [b|o' v|o'|o'|o'|o'|o']; cbn [xop_target] in Hx; try (injection Hx as ->);
    cbn [touches_applied] in Ht; try (rewrite Bool.eqb_reflx in Ht; discriminate Ht); try (split; reflexivity).
  - assert (He : is_end b = false).
    { destruct b; try reflexivity. cbn [op_cctx] in Hx. injection Hx as ->. rewrite Bool.eqb_reflx in Ht. discriminate Ht. }
    rewrite (proj1 (target_session w b o Hx He)).
    destruct b; cbn [op_cctx] in Hx; try discriminate Hx; injection Hx as ->; cbn [touches_applied] in Ht;
      try (rewrite Bool.eqb_reflx in Ht; discriminate Ht); cbn [sess_after]; try (split; reflexivity).
    + destruct (_ && _ && _); split; reflexivity.
    + destruct (is_session_dir dir); destruct (c_dict _); split; reflexivity.
    + match goal with |- context [dk_after ?a ?b ?c ?d] => destruct (dk_after_fields a b c d) as (_ & _ & _ & A & B & _) end.
      rewrite A, B. split; reflexivity.
    + match goal with |- context [dk_after ?a ?b ?c ?d] => destruct (dk_after_fields a b c d) as (_ & _ & _ & A & B & _) end.
      rewrite A, B. split; reflexivity.
    + match goal with |- context [dk_after ?a ?b ?c ?d] => destruct (dk_after_fields a b c d) as (_ & _ & _ & A & B & _) end.
      rewrite A, B. split; reflexivity.
  - unfold xstep, xstep_gen. destruct (stage_is_init _); cbn [fst]; [rewrite get_put_s_same|]; split; reflexivity.
Qed.

Lemma applied_sticky_l : forall ops w o,
  Forall (fun x => touches_applied o x = false) ops ->
  s_applied (get_s (xrun w ops) o) = s_applied (get_s w o) /\ s_mt (get_s (xrun w ops) o) = s_mt (get_s w o).
Proof.
  induction ops as [|x ops IH]; intros w o Hf; [split; reflexivity|].
  inversion Hf; subst. unfold xrun. cbn [fold_left]. fold (xrun (fst (xstep w x)) ops).
  destruct (IH (fst (xstep w x)) o H2) as [A B]. destruct (applied_sticky_step w x o H1) as [C D].
  rewrite A, B, C, D. split; reflexivity.
Qed.

(* mid-frame, feeding and ending the frame do not touch appliedParams either; the running multi-threaded frame keeps its
   window log whatever is updated *)
Definition mt_wlog (s : sess) : Z := match s_mt s with Some m => wlog (mt_cp m) | None => -1 end.

Lemma mt_update_wlog : forall c x, mt_wlog (mt_update c x) = mt_wlog x.
Proof.
  intros c x. unfold mt_update, mt_wlog. destruct (mt_frame x && s_changed x); [|reflexivity].
  destruct (s_mt x) eqn:E; cbn [s_mt set_mt set_changed mt_cp wlog]; rewrite ?E; reflexivity.
Qed.

Lemma applied_unchanged_midframe_l : forall w o b, c_stage (xget_c w o) = S_mid -> (b = OCBegin o \/ b = OCEnd o) ->
  s_applied (get_s (fst (xstep w (XB b))) o) = s_applied (get_s w o)
  /\ mt_wlog (get_s (fst (xstep w (XB b))) o) = mt_wlog (get_s w o).
Proof.
  intros w o b Hs [-> | ->].
  - rewrite (proj1 (target_session w (OCBegin o) o eq_refl eq_refl)). cbn [sess_after]. rewrite Hs. cbn [stage_is_init].
    rewrite mt_update_wlog. destruct (mt_update_fields (get_c (fst (step (xw_base w) (OCBegin o))) o) (set_fed (get_s w o) (s_fed (get_s w o) + sz_chunk)))
      as (_ & _ & _ & _ & A & _). rewrite A. split; reflexivity.
  - pose proof (xstep_gen_target false false false w (OCEnd o) o eq_refl) as H. cbn zeta in H. cbn [is_end andb] in H. unfold xstep.
    destruct (end_refused _ _).
    + rewrite H. cbn [fst]. unfold xrefuse.
      destruct (mt_update_fields (xget_c w o) (get_s w o)) as (_ & _ & _ & _ & A & _).
      destruct (mt_frame _); rewrite get_put_s_same; unfold mt_wlog in *; cbn [s_applied s_mt set_fed set_pledge];
        rewrite A; (split; [reflexivity|]); apply mt_update_wlog.
    + destruct H as (A & _ & _). rewrite A. cbn [sess_after]. rewrite Hs. cbn [stage_is_init].
      unfold mt_wlog. cbn [frame_done s_applied s_mt].
      destruct (mt_update_fields (get_c (fst (step (xw_base w) (OCEnd o))) o) (get_s w o)) as (_ & _ & _ & _ & B & _).
      rewrite B. split; [reflexivity|]. apply mt_update_wlog.
Qed.

(* at a frame start appliedParams is computed from the requested parameters (and the pledge, the dictionary) ... *)
Lemma applied_at_frame_start_l : forall w o,
  let c := xget_c w o in
  let s := get_s w o in
  (c_stage c = S_init -> s_applied (get_s (fst (xstep w (XB (OCBegin o)))) o) = frame_resolve c (s_pledge s) false)
  /\ (c_stage c = S_init -> s_applied (get_s (fst (xstep w (XB (OCEnd o)))) o) = frame_resolve c (u64 1) false)
  /\ s_applied (get_s (fst (xstep w (XB (OCFrame o)))) o) = frame_resolve c (u64 (sz_oneshot + 1)) true
  /\ s_applied (get_s (fst (xstep w (XB (OCFail o)))) o) = frame_resolve c (u64 (sz_oneshot + 1)) true
  /\ s_applied (get_s (fst (xstep w (XFxWin o))) o) = frame_resolve c (u64 (sz_fxwin + 1)) true
  /\ s_applied (get_s (fst (xstep w (XB (OCSimple o)))) o) = simple_applied.
Proof.
  intros w o. cbn zeta. split; [|split; [|split; [|split; [|split]]]].
  - intro Hs. rewrite (proj1 (target_session w (OCBegin o) o eq_refl eq_refl)). cbn [sess_after]. rewrite Hs. cbn [stage_is_init].
    destruct (mt_update_fields (get_c (fst (step (xw_base w) (OCBegin o))) o) (frame_start false (xget_c w o) (get_s w o) None false sz_chunk))
      as (_ & _ & _ & _ & A & _). rewrite A. reflexivity.
  - intro Hs. pose proof (xstep_gen_target false false false w (OCEnd o) o eq_refl) as H. cbn zeta in H. cbn [is_end andb] in H.
    unfold end_refused in H. rewrite Hs in H. cbn [stage_is_init negb andb] in H. destruct H as (A & _ & _).
    unfold xstep. rewrite A. cbn [sess_after]. rewrite Hs. cbn [stage_is_init frame_done s_applied].
    destruct (mt_update_fields (get_c (fst (step (xw_base w) (OCEnd o))) o) (frame_start false (xget_c w o) (get_s w o) (Some 0) false 0))
      as (_ & _ & _ & _ & B & _). rewrite B. reflexivity.
  - rewrite (proj1 (target_session w (OCFrame o) o eq_refl eq_refl)). reflexivity.
  - rewrite (proj1 (target_session w (OCFail o) o eq_refl eq_refl)). reflexivity.
  - unfold xstep, xstep_gen. destruct (step (xw_base w) (OCFrame o)) as [b' [r vals]]. cbn [fst]. rewrite get_put_s_same. reflexivity.
  - rewrite (proj1 (target_session w (OCSimple o) o eq_refl eq_refl)). reflexivity.
Qed.

(* ... where "computed from" means: copied for the cells below, resolved as stated for the others *)
Lemma frame_resolve_cells_l : forall c pledge stable,
  let s := c_params c in
  let a := frame_resolve c pledge stable in
  let src := u64 (pledge - 1) in
  (forall p, copied_cell p = true -> a p = Some (s p))
  /\ a C_compressionLevel = Some (match c_dict c with CD_cdict => lvl_cdict | _ => s C_compressionLevel end)
  /\ a C_nbWorkers = Some (if src <=? z_ZSTDMT_JOBSIZE_MIN then 0 else s C_nbWorkers)
  /\ a C_maxBlockSize = Some (if s C_maxBlockSize =? 0 then z_ZSTD_BLOCKSIZE_MAX else s C_maxBlockSize)
  /\ a C_stableInBuffer = Some (if stable then 1 else s C_stableInBuffer)
  /\ a C_stableOutBuffer = Some (if stable then 1 else s C_stableOutBuffer)
  /\ (a C_contentSizeFlag = Some (s C_contentSizeFlag) \/ (pledge = 0 /\ a C_contentSizeFlag = Some 0))
  /\ (uses_cdict (c_dict c) = false ->
      let level := s C_compressionLevel in
      let dictSize := match c_dict c with CD_prefix => sz_prefix | _ => 0 end in
      let cp := cparams_from_store s level src dictSize z_ZSTD_cpm_noAttachDict in
      a C_windowLog = Some (wlog cp) /\ a C_chainLog = Some (clog cp) /\ a C_hashLog = Some (hlog cp)
      /\ a C_searchLog = Some (slog cp) /\ a C_minMatch = Some (mmatch cp) /\ a C_targetLength = Some (tlen cp)
      /\ a C_strategy = Some (strat cp)
      /\ a C_useRowMatchFinder = Some (resolve_row (s C_useRowMatchFinder) cp)
      /\ a C_useBlockSplitter = Some (resolve_split (s C_useBlockSplitter) cp)
      /\ a C_enableLongDistanceMatching = Some (resolve_ldm (s C_enableLongDistanceMatching) cp)).
Proof.
  intros c pledge stable. cbn zeta. split; [|split; [|split; [|split; [|split; [|split; [|split]]]]]].
  - intros p Hp. destruct p; try discriminate Hp; reflexivity.
  - reflexivity.
  - reflexivity.
  - reflexivity.
  - reflexivity.
  - reflexivity.
  - unfold frame_resolve. cbn beta iota. destruct (Z.eqb_spec pledge 0) as [->|Hn].
    + destruct (_ =? 0); cbn [andb]; [right; split; reflexivity | left; reflexivity].
    + rewrite Bool.andb_false_r. left. reflexivity.
  - intro Hcd. unfold frame_resolve. cbn beta iota zeta. unfold known_switch. rewrite Hcd.
    assert (El : (match c_dict c with CD_cdict => lvl_cdict | _ => c_params c C_compressionLevel end) = c_params c C_compressionLevel)
      by (destruct (c_dict c); try reflexivity; discriminate Hcd).
    rewrite El. repeat split.
Qed.

(* ------------------------------------------------------------------ mid-frame updates and the multi-threaded frame *)
(* what ZSTDMT_updateCParams_whileCompressing installs: level and cParams re-derived from the requested parameters for an
   unknown source size and no dictionary, except the window log, which is kept *)
Definition mt_rederived (c : cctx) (m : mtp) : mtp :=
  let s := c_params c in
  let cp := cparams_from_store s (s C_compressionLevel) z_ZSTD_CONTENTSIZE_UNKNOWN 0 z_ZSTD_cpm_noAttachDict in
  mkMT (s C_compressionLevel) (mkCP (wlog (mt_cp m)) (clog cp) (hlog cp) (slog cp) (mmatch cp) (tlen cp) (strat cp)).

Lemma mt_update_exact_l : forall c x,
  (mt_frame x = true -> s_changed x = true -> forall m, s_mt x = Some m ->
     s_mt (mt_update c x) = Some (mt_rederived c m) /\ s_changed (mt_update c x) = false)
  /\ ((mt_frame x = false \/ s_changed x = false) -> mt_update c x = x).
Proof.
  intros c x. split.
  - intros Hm Hc m Hs. unfold mt_update. rewrite Hm, Hc, Hs. cbn. split; reflexivity.
  - intros [H|H]; apply mt_update_noop; rewrite H; [reflexivity | apply Bool.andb_false_r].
Qed.

(* cParamsChanged is raised by a mid-frame ZSTD_CCtx_setParameter on an authorised parameter and by nothing else; it is
   lowered only when a multi-threaded frame picks the update up *)
Lemma changed_raised_only_by_midframe_set_l : forall w x o,
  s_changed (get_s w o) = false -> s_changed (get_s (fst (xstep w x)) o) = true ->
  exists id v, x = XB (OCSet o id v) /\ c_stage (xget_c w o) = S_mid /\ is_auth_id id = true /\ fst (snd (xstep w x)) = Ok.
Proof.
  intros w x o H0 H1.
  destruct (xop_target_dec x o) as [Hx|Hx].
  2:{ destruct (Bool.bool_dec (match x with XB ONew => true | _ => false end) true) as [Hn|Hn].
      - destruct x as [[]| | | | | |]; try discriminate Hn. unfold xstep, xstep_gen in H1. cbn in H1. destruct o; discriminate H1.
      - destruct (xstep_gen_other false false false w x o Hx) as [E _]; [intro; subst x; apply Hn; reflexivity|].
        unfold xstep in H1. rewrite E in H1. congruence. }
  destruct x as [b|o' v|o'|o'|o'|o'|o']; cbn [xop_target] in Hx; try (injection Hx as ->).
  - pose proof (xstep_gen_target false false false w b o Hx) as H. cbn zeta in H. unfold xstep in H1.
    destruct (is_end b && end_refused (xget_c w o) (get_s w o)) eqn:Er.
    + rewrite H in H1. cbn [fst] in H1. unfold xrefuse in H1.
      assert (Hu : mt_update (xget_c w o) (get_s w o) = get_s w o) by (apply mt_update_noop; rewrite H0; apply Bool.andb_false_r).
      rewrite Hu in H1. destruct (mt_frame _); rewrite get_put_s_same in H1; cbn in H1; congruence.
    + destruct H as (A & _ & C). rewrite A in H1.
      destruct b; cbn [op_cctx] in Hx; try discriminate Hx; injection Hx as ->; cbn [sess_after] in H1; try congruence.
      * (* OCSet *) destruct (negb (stage_is_init (c_stage (xget_c w o))) && is_auth_id id && _) eqn:Eg; [|congruence].
        apply Bool.andb_true_iff in Eg. destruct Eg as [Eg E3]. apply Bool.andb_true_iff in Eg. destruct Eg as [E1 E2].
        exists id, v. split; [reflexivity|]. split; [|split; [exact E2|]].
        -- destruct (c_stage (xget_c w o)); [discriminate E1 | reflexivity].
        -- unfold xstep. rewrite C. cbn [orb] in E3. destruct (fst (snd (step (xw_base w) (OCSet o id v)))); [reflexivity | discriminate E3].
      * destruct (is_session_dir dir); destruct (c_dict _); cbn in H1; congruence.
      * exfalso. destruct (stage_is_init _).
        -- rewrite mt_update_noop in H1 by (cbn [frame_start s_changed]; rewrite H0; apply Bool.andb_false_r). cbn in H1. congruence.
        -- rewrite mt_update_noop in H1 by (cbn [set_fed s_changed]; rewrite H0; apply Bool.andb_false_r). cbn in H1. congruence.
      * exfalso. destruct (stage_is_init _).
        -- rewrite mt_update_noop in H1 by (cbn [frame_start s_changed]; rewrite H0; apply Bool.andb_false_r). cbn in H1. congruence.
        -- rewrite mt_update_noop in H1 by (rewrite H0; apply Bool.andb_false_r). cbn in H1. congruence.
      * cbn in H1. congruence.
      * cbn in H1. congruence.
      * cbn in H1. congruence.
      * exfalso. match type of H1 with context [dk_after ?a ?b ?c ?d] => destruct (dk_after_fields a b c d) as (_ & A1 & _) end. congruence.
      * exfalso. match type of H1 with context [dk_after ?a ?b ?c ?d] => destruct (dk_after_fields a b c d) as (_ & A1 & _) end. congruence.
      * exfalso. match type of H1 with context [dk_after ?a ?b ?c ?d] => destruct (dk_after_fields a b c d) as (_ & A1 & _) end. congruence.
  - exfalso. unfold xstep, xstep_gen in H1. destruct (stage_is_init _); cbn [fst] in H1; [rewrite get_put_s_same in H1; cbn in H1|]; congruence.
  - exfalso. unfold xstep, xstep_gen in H1. destruct (step (xw_base w) (OCFrame o)) as [b' [r vals]]. cbn [fst] in H1.
    rewrite get_put_s_same in H1. cbn in H1. congruence.
  - cbn in H1. congruence.
  - cbn in H1. congruence.
  - cbn in H1. congruence.
  - cbn in H1. congruence.
Qed.

(* an accepted mid-frame update: the requested vector takes the value at once, appliedParams keeps the frame's value, and in
   a multi-threaded frame the next ZSTD_compressStream2 call hands the re-derived parameters to the following jobs *)
Lemma midframe_update_reaches_mt_l : forall w o p v m,
  let c := xget_c w o in let s := get_s w o in
  c_stage c = S_mid -> is_update_authorized p = true -> in_cbounds p v ->
  mt_frame s = true -> s_mt s = Some m ->
  let w1 := fst (xstep w (XB (OCSet o (cparam_id p) v))) in
  let w2 := fst (xstep w1 (XB (OCBegin o))) in
  c_params (xget_c w1 o) p = cnorm p v
  /\ s_applied (get_s w1 o) = s_applied s /\ s_mt (get_s w1 o) = Some m /\ s_changed (get_s w1 o) = true
  /\ s_applied (get_s w2 o) = s_applied s
  /\ s_mt (get_s w2 o) = Some (mt_rederived (xget_c w1 o) m) /\ s_changed (get_s w2 o) = false
  /\ wlog (mt_cp (mt_rederived (xget_c w1 o) m)) = wlog (mt_cp m).
Proof.
  intros w o p v m c s Hs Ha Hin Hmt Hm w1 w2.
  assert (Hset : cctx_set c (cparam_id p) v = (mkC (cupd (c_params c) p (cnorm p v)) S_mid (c_dict c) (c_static c), Ok)).
  { pose proof (midframe_gating_l c (cparam_id p) v Hs) as G. rewrite cparam_of_id_id, Ha in G. rewrite G.
    rewrite (cstored_in_bounds p v Hin). reflexivity. }
  destruct (target_session w (OCSet o (cparam_id p) v) o eq_refl eq_refl) as (A & B & _).
  assert (Hc1 : xget_c w1 o = mkC (cupd (c_params c) p (cnorm p v)) S_mid (c_dict c) (c_static c)).
  { unfold w1. rewrite B. cbn [step fst]. fold c. unfold xget_c in c. fold c. rewrite Hset. cbn [fst]. apply get_put_c_same. }
  assert (Hs1 : get_s w1 o = set_changed s true).
  { unfold w1. rewrite A. cbn [sess_after step fst snd]. fold c. unfold xget_c in c. fold c. rewrite Hset. cbn [fst snd is_ok].
    rewrite Hs. cbn [stage_is_init negb andb orb]. unfold is_auth_id. rewrite cparam_of_id_id, Ha. reflexivity. }
  destruct (target_session w1 (OCBegin o) o eq_refl eq_refl) as (A2 & B2 & _).
  assert (Hs2 : get_s w2 o = mt_update (xget_c w2 o) (set_fed (set_changed s true) (s_fed s + sz_chunk))).
  { unfold w2. rewrite A2. cbn [sess_after]. rewrite Hc1. cbn [c_stage stage_is_init]. rewrite Hs1. cbn [s_fed set_changed].
    f_equal. rewrite B2. reflexivity. }
  assert (Hc2 : xget_c w2 o = xget_c w1 o).
  { unfold w2. rewrite B2. cbn [step fst]. rewrite get_put_c_same. unfold cctx_begin. fold (xget_c w1 o). rewrite Hc1. reflexivity. }
  rewrite Hc1, Hs1, Hs2. cbn [c_params s_applied s_mt s_changed set_changed]. rewrite cupd_same.
  split; [reflexivity|]. split; [reflexivity|]. split; [exact Hm|]. split; [reflexivity|].
  destruct (mt_update_exact_l (xget_c w2 o) (set_fed (set_changed s true) (s_fed s + sz_chunk))) as [E _].
  specialize (E Hmt eq_refl m Hm). destruct E as [E1 E2].
  destruct (mt_update_fields (xget_c w2 o) (set_fed (set_changed s true) (s_fed s + sz_chunk))) as (_ & _ & _ & _ & E3 & _).
  rewrite E1, E2, E3, Hc2, Hc1. repeat split.
Qed.

(* without cParamsChanged the job parameters stay *)
Lemma mt_kept_without_update_l : forall w o, c_stage (xget_c w o) = S_mid -> s_changed (get_s w o) = false ->
  s_mt (get_s (fst (xstep w (XB (OCBegin o)))) o) = s_mt (get_s w o).
Proof.
  intros w o Hs Hc. rewrite (proj1 (target_session w (OCBegin o) o eq_refl eq_refl)). cbn [sess_after]. rewrite Hs. cbn [stage_is_init].
  rewrite mt_update_noop by (cbn [set_fed s_changed]; rewrite Hc; apply Bool.andb_false_r). reflexivity.
Qed.

(* a multi-threaded frame starts from the parameters resolved for its pledged size and prefix, whatever was updated during
   earlier frames (cParamsChanged does not survive a frame start) *)
Lemma mt_at_frame_start_l : forall w o n, c_stage (xget_c w o) = S_init ->
  let c := xget_c w o in let s := get_s w o in
  frame_resolve c (s_pledge s) false C_nbWorkers = Some n -> 0 < n ->
  let s' := get_s (fst (xstep w (XB (OCBegin o)))) o in
  s_mt s' =
    Some (mkMT (match c_dict c with CD_cdict => lvl_cdict | _ => c_params c C_compressionLevel end)
               (cparams_from_store (c_params c) (match c_dict c with CD_cdict => lvl_cdict | _ => c_params c C_compressionLevel end)
                                   (u64 (s_pledge s - 1)) (match c_dict c with CD_prefix => sz_prefix | _ => 0 end) z_ZSTD_cpm_noAttachDict))
  /\ s_changed s' = false.
Proof.
  intros w o n Hs. cbn zeta. intros Hn Hpos. rewrite (proj1 (target_session w (OCBegin o) o eq_refl eq_refl)). cbn [sess_after]. rewrite Hs.
  cbn [stage_is_init]. rewrite mt_update_noop by (cbn [frame_start s_changed andb]; apply Bool.andb_false_r).
  unfold frame_start. cbn [s_mt s_changed andb]. rewrite Hn. apply Z.ltb_lt in Hpos. rewrite Hpos. split; reflexivity.
Qed.

(* finding F33 (fixed by 52f5276), as a refutation on the code-as-it-was variant: an accepted update made during a
   single-thread frame re-parametrised the next multi-threaded frame; same requested parameters, different job parameters *)
Lemma flag_survived_frame_refuted_l :
  let prev := [XB (OCBegin false); XB (OCSet false z_ZSTD_c_compressionLevel 3); XB (OCEnd false)] in
  let next := [XB (OCSet false z_ZSTD_c_nbWorkers 1); XB (OCRefPrefix false 1); XB (OCBegin false)] in
  let fresh := XB (OCSet false z_ZSTD_c_compressionLevel 3) :: next in
  (forall p, c_params (xget_c (xrun xworld_new (prev ++ next)) false) p = c_params (xget_c (xrun xworld_new fresh) false) p)
  /\ s_mt (get_s (xrun_gen false false true xworld_new (prev ++ next)) false) <> s_mt (get_s (xrun_gen false false true xworld_new fresh) false)
  /\ s_mt (get_s (xrun xworld_new (prev ++ next)) false) = s_mt (get_s (xrun xworld_new fresh) false).
Proof.
  cbn zeta. split; [intro p; destruct p; vm_compute; reflexivity|]. split; [vm_compute; discriminate | vm_compute; reflexivity].
Qed.

(* a refused mid-frame set changes nothing at all: context and session of the current tree are left as they are *)
Lemma refused_midframe_set_changes_nothing_l : forall w o id v,
  fst (snd (xstep w (XB (OCSet o id v)))) <> Ok ->
  xget_c (fst (xstep w (XB (OCSet o id v)))) o = xget_c w o /\ get_s (fst (xstep w (XB (OCSet o id v)))) o = get_s w o.
Proof.
  intros w o id v Hr. destruct (target_session w (OCSet o id v) o eq_refl eq_refl) as (A & B & C).
  rewrite C in Hr. rewrite A, B. cbn [step fst snd sess_after] in *.
  destruct (cctx_set (get_c (xw_base w) o) id v) as [c' r] eqn:E. cbn [fst snd] in *.
  pose proof (rejected_set_changes_nothing_l (get_c (xw_base w) o) id v) as G. rewrite E in G. cbn [fst snd] in G.
  rewrite get_put_c_same. split; [apply G; exact Hr|].
  destruct r; [contradiction Hr; reflexivity|]. cbn [is_ok orb]. rewrite Bool.andb_false_r. reflexivity.
Qed.

(* finding F31 (fixed by 28762e5), as a refutation on the code-as-it-was variant: a refused set raised cParamsChanged, and the
   next call of a multi-threaded frame replaced the job parameters although the requested vector had not moved *)
Lemma refused_set_raised_flag_refuted_l :
  let h := [XB (OCSet false z_ZSTD_c_nbWorkers 1); XB (OCRefPrefix false 1); XB (OCBegin false)] in
  let bad := XB (OCSet false z_ZSTD_c_hashLog 99) in
  let w_old := xrun_gen false true true xworld_new h in
  let w_now := xrun xworld_new h in
  fst (snd (xstep_gen false true true w_old bad)) = Err E_outOfBound
  /\ s_changed (get_s (fst (xstep_gen false true true w_old bad)) false) = true
  /\ s_mt (get_s (fst (xstep_gen false true true (fst (xstep_gen false true true w_old bad)) (XB (OCBegin false)))) false)
     <> s_mt (get_s w_old false)
  /\ s_changed (get_s (fst (xstep w_now bad)) false) = false
  /\ s_mt (get_s (fst (xstep (fst (xstep w_now bad)) (XB (OCBegin false)))) false) = s_mt (get_s w_now false).
Proof.
  cbn zeta. split; [vm_compute; reflexivity|]. split; [vm_compute; reflexivity|]. split; [vm_compute; discriminate|].
  split; vm_compute; reflexivity.
Qed.

(* ------------------------------------------------------------------ dictionaries of a compression context *)
(* stage gating *)
Lemma c_dict_calls_midframe_refused_l : forall c k, c_stage c = S_mid ->
  cctx_load c k = (c, Err E_stage_wrong) /\ cctx_refcdict c k = (c, Err E_stage_wrong) /\ cctx_refprefix c k = (c, Err E_stage_wrong).
Proof. intros c k Hs. unfold cctx_load, cctx_refcdict, cctx_refprefix. rewrite Hs. repeat split. Qed.

(* mutual replacement: each call installs exactly its own kind (none for NULL), whatever was attached; parameters untouched *)
Lemma c_dict_calls_replace_l : forall c k, c_stage c = S_init ->
  (c_params (fst (cctx_load c k)) = c_params c /\ c_stage (fst (cctx_load c k)) = S_init
   /\ c_dict (fst (cctx_load c k)) = (if (k =? 0) || c_static c then CD_none else CD_local false)
   /\ (snd (cctx_load c k) = Ok <-> (k = 0 \/ c_static c = false)))
  /\ (cctx_refcdict c k = (mkC (c_params c) S_init (if k =? 0 then CD_none else CD_cdict) (c_static c), Ok))
  /\ (cctx_refprefix c k = (mkC (c_params c) S_init (if k =? 0 then CD_none else CD_prefix) (c_static c), Ok)).
Proof.
  intros c k Hs. unfold cctx_load, cctx_refcdict, cctx_refprefix. rewrite Hs. cbn [stage_is_init negb].
  split; [|split; reflexivity].
  destruct (Z.eqb_spec k 0) as [->|Hk]; cbn [orb fst snd c_params c_stage c_dict].
  - repeat split; auto.
  - destruct (c_static c); cbn [fst snd c_params c_stage c_dict]; repeat split; auto; try (intro H; discriminate H);
      intros [H|H]; [contradiction | discriminate H].
Qed.

(* the dictionary the next frame of [o] is compressed with: 0 none, 1 / 2 dictionary, 3 / 4 prefix *)
Definition next_use (w : xworld) (o : bool) : Z :=
  match c_dict (xget_c w o) with CD_none => 0 | CD_prefix => 2 + s_dk (get_s w o) | _ => s_dk (get_s w o) end.

Lemma frame_start_use : forall kf c x ov st fed,
  fi_use (s_cur (frame_start kf c x ov st fed)) = match c_dict c with CD_none => 0 | CD_prefix => 2 + s_dk x | _ => s_dk x end.
Proof. intros. reflexivity. Qed.

(* what a frame completed by ZSTD_compress2 was compressed with is what was attached when it started *)
Lemma frame_uses_attached_l : forall w o, exists fcs did,
  s_last (get_s (fst (xstep w (XB (OCFrame o)))) o) = Some (mkFI fcs did (next_use w o)).
Proof.
  intros w o. rewrite (proj1 (target_session w (OCFrame o) o eq_refl eq_refl)). cbn [sess_after frame_done s_last].
  pose proof (frame_start_use false (xget_c w o) (get_s w o) (Some sz_oneshot) true sz_oneshot) as H.
  destruct (s_cur (frame_start false (xget_c w o) (get_s w o) (Some sz_oneshot) true sz_oneshot)) as [a b u]. cbn [fi_use] in H. subst u.
  exists a, b. reflexivity.
Qed.

(* attaching: after a successful call with k <> 0 the next frame uses dictionary / prefix k *)
Lemma attach_sets_next_use_l : forall w o k, c_stage (xget_c w o) = S_init -> k <> 0 ->
  next_use (fst (xstep w (XB (OCRefCDict o k)))) o = k
  /\ next_use (fst (xstep w (XB (OCRefPrefix o k)))) o = 2 + k
  /\ (c_static (xget_c w o) = false -> next_use (fst (xstep w (XB (OCLoad o k)))) o = k)
  /\ next_use (fst (xstep w (XB (OCRefCDict o 0)))) o = 0 /\ next_use (fst (xstep w (XB (OCRefPrefix o 0)))) o = 0
  /\ next_use (fst (xstep w (XB (OCLoad o 0)))) o = 0.
Proof.
  intros w o k Hs Hk. unfold next_use.
  assert (Hk' : (k =? 0) = false) by (apply Z.eqb_neq; exact Hk).
  unfold xget_c in Hs.
  repeat split; try intro Hst;
    match goal with |- context [xstep w (XB ?b)] => destruct (target_session w b o eq_refl eq_refl) as (A & B & _) end;
    rewrite A, B; cbn [step]; unfold cctx_refcdict, cctx_refprefix, cctx_load; rewrite Hs; cbn [stage_is_init negb];
    rewrite ?Hk'; cbn [Z.eqb]; unfold xget_c in *; rewrite ?Hst; cbn [fst snd sess_after]; rewrite get_put_c_same;
    unfold dk_after; cbn [c_dict s_dk set_dk]; reflexivity.
Qed.

(* calls that attach / detach a dictionary of compression context [o] *)
Definition c_attach (o : bool) (x : xop) : bool :=
  match x with
  | XB (OCLoad o' _) | XB (OCRefCDict o' _) | XB (OCRefPrefix o' _) => Bool.eqb o o'
  | XB ONew => true
  | _ => false
  end.
(* ... or reset its parameters *)
Definition c_drop (o : bool) (x : xop) : bool :=
  c_attach o x || match x with XB (OCReset o' dir) => Bool.eqb o o' && is_params dir | _ => false end.

(* base-model facts about the dictionary kind *)
Lemma base_dict_step : forall w b o, op_cctx b = Some o ->
  let c := get_c w o in let c' := get_c (fst (step w b)) o in
  match b with
  | OCLoad _ _ | OCRefCDict _ _ | OCRefPrefix _ _ => True
  | OCReset _ dir => if is_params dir then True else c_dict c' = c_dict c
  | OCBegin _ | OCEnd _ => c_dict c' = (if stage_is_init (c_stage c) then dict_at_frame_start (c_dict c) else c_dict c)
  | OCFrame _ | OCFail _ => c_dict c' = dict_at_frame_start (c_dict c)
  | _ => c_dict c' = c_dict c
  end.
Proof.
  intros w b o Hc. cbn zeta.
  destruct b; cbn [op_cctx] in Hc; try discriminate Hc; injection Hc as ->; cbn [step];
    repeat match goal with |- context [let '(_, _) := ?e in _] => destruct e eqn:?E end;
    cbn [fst]; rewrite ?get_put_c_same; try exact I; try reflexivity.
  - (* OCSet *) pose proof (cctx_set_char (get_c w o) id v) as G. rewrite E in G.
    destruct (cparam_of_id id); [|injection G as -> _; reflexivity].
    destruct (_ && _); [injection G as -> _; reflexivity|]. destruct (nbw_static_refused _ _ _); [injection G as -> _; reflexivity|].
    destruct (cstored _ _ _); injection G as -> _; reflexivity.
  - (* OCReset *) revert E. unfold cctx_reset. fold (is_session dir) (is_params dir).
    destruct (is_params dir); [intros _; exact I|]. destruct (is_session dir); intro E; injection E as <- _; reflexivity.
  - unfold cctx_begin. destruct (c_stage (get_c w o)); reflexivity.
  - unfold cctx_end. destruct (c_stage (get_c w o)); reflexivity.
  - (* OCApply *) revert E. unfold cctx_apply. destruct (negb _); [intro E; injection E as <- _; reflexivity|].
    destruct (c_dict (get_c w o)) as [|[|]| |] eqn:Ed; intro E; injection E as <- _; cbn [c_dict]; rewrite ?Ed; reflexivity.
  - (* OCSetCP *) rewrite set_cparams_char in E. destruct (check_cparams cp); [destruct (c_stage (get_c w o))|]; injection E as <- _; reflexivity.
  - rewrite set_fparams_char in E. destruct (c_stage (get_c w o)); injection E as <- _; reflexivity.
  - rewrite set_params_char in E. destruct (check_cparams cp); [destruct (c_stage (get_c w o))|]; injection E as <- _; reflexivity.
Qed.

Lemma base_reset_dict : forall c dir, c_dict (fst (cctx_reset c dir)) = c_dict c \/ c_dict (fst (cctx_reset c dir)) = CD_none.
Proof.
  intros c dir. unfold cctx_reset. destruct (_ || _); destruct (_ || _); cbn [c_stage stage_is_init fst c_dict];
    try destruct (c_stage c); cbn [stage_is_init fst c_dict]; auto.
Qed.

Lemma dict_at_frame_start_cases : forall d,
  (d = CD_none \/ d = CD_prefix -> dict_at_frame_start d = CD_none)
  /\ (d = CD_cdict -> dict_at_frame_start d = CD_cdict)
  /\ (forall b, d = CD_local b -> dict_at_frame_start d = CD_local true).
Proof. intro d. repeat split; [intros [-> | ->] | intros -> | intros b ->]; reflexivity. Qed.

(* one extended step seen from context [o]: the dictionary kind afterwards *)
Lemma xstep_dict_kind : forall w x o, c_attach o x = false ->
  let d := c_dict (xget_c w o) in let d' := c_dict (xget_c (fst (xstep w x)) o) in
  d' = d \/ d' = dict_at_frame_start d \/ (d' = CD_none /\ exists dir, x = XB (OCReset o dir) /\ is_params dir = true).
Proof.
  intros w x o Ht. cbn zeta.
  destruct (xop_target_dec x o) as [Hx|Hx].
  2:{ destruct (xstep_gen_other false false false w x o Hx) as [_ E]; [intro; subst x; discriminate Ht|].
      unfold xstep. rewrite E. left. reflexivity. }
  destruct x as [b|o' v|o'|o'|o'|o'|o']; cbn [xop_target] in Hx; try (injection Hx as ->); try (left; reflexivity).
  - pose proof (xstep_gen_target false false false w b o Hx) as H. cbn zeta in H. unfold xstep.
    destruct (is_end b && end_refused (xget_c w o) (get_s w o)) eqn:Er.
    + rewrite H. cbn [fst]. unfold xrefuse. destruct (mt_frame _); unfold xget_c; rewrite base_put_s; rewrite ?base_put_base, ?get_put_c_same; left; reflexivity.
    + destruct H as (_ & B & _). rewrite B. pose proof (base_dict_step (xw_base w) b o Hx) as G. cbn zeta in G. fold (xget_c w o) in G.
      destruct b; cbn [op_cctx] in Hx; try discriminate Hx; injection Hx as ->; cbn [c_attach] in Ht;
        try (rewrite Bool.eqb_reflx in Ht; discriminate Ht); try (left; exact G).
      * (* OCReset *) cbn [step]. destruct (cctx_reset (get_c (xw_base w) o) dir) as [c' r] eqn:E. cbn [fst]. rewrite get_put_c_same.
        destruct (is_params dir) eqn:Ep.
        -- pose proof (base_reset_dict (get_c (xw_base w) o) dir) as R. rewrite E in R. cbn [fst] in R. destruct R as [R|R]; [left; exact R|].
           right. right. split; [exact R|]. exists dir. split; [reflexivity | exact Ep].
        -- left. cbn [step] in G. rewrite E in G. cbn [fst] in G. rewrite get_put_c_same in G. exact G.
      * rewrite G. destruct (stage_is_init _); [right; left|left]; reflexivity.
      * rewrite G. destruct (stage_is_init _); [right; left|left]; reflexivity.
      * right. left. exact G.
      * right. left. exact G.
  - unfold xstep, xstep_gen. destruct (stage_is_init _); cbn [fst]; unfold xget_c; rewrite ?base_put_s; left; reflexivity.
  - right. left. unfold xstep, xstep_gen. destruct (step (xw_base w) (OCFrame o)) as [b' [r vals]] eqn:Es. cbn [fst]. unfold xget_c.
    rewrite base_put_s, base_put_base. replace b' with (fst (step (xw_base w) (OCFrame o))) by (rewrite Es; reflexivity).
    exact (base_dict_step (xw_base w) (OCFrame o) o eq_refl).
Qed.

(* ... and the dictionary index kept next to it *)
Lemma xstep_dk : forall w x o, c_attach o x = false -> c_dict (xget_c (fst (xstep w x)) o) <> CD_none ->
  s_dk (get_s (fst (xstep w x)) o) = s_dk (get_s w o).
Proof.
  intros w x o Ht Hd.
  destruct (xop_target_dec x o) as [Hx|Hx].
  2:{ destruct (xstep_gen_other false false false w x o Hx) as [E _]; [intro; subst x; discriminate Ht|]. unfold xstep. rewrite E. reflexivity. }
  destruct x as [b|o' v|o'|o'|o'|o'|o']; cbn [xop_target] in Hx; try (injection Hx as ->); try reflexivity.
  - pose proof (xstep_gen_target false false false w b o Hx) as H. cbn zeta in H. unfold xstep in *.
    destruct (is_end b && end_refused (xget_c w o) (get_s w o)) eqn:Er.
    + rewrite H. cbn [fst]. unfold xrefuse. destruct (mt_update_fields (xget_c w o) (get_s w o)) as (_ & A & _).
      destruct (mt_frame _); rewrite get_put_s_same; cbn [s_dk set_fed set_pledge]; exact A.
    + destruct H as (A & B & _). rewrite B in Hd. rewrite A.
      pose proof (base_dict_step (xw_base w) b o Hx) as G. cbn zeta in G. fold (xget_c w o) in G.
      destruct b; cbn [op_cctx] in Hx; try discriminate Hx; injection Hx as ->; cbn [c_attach] in Ht;
        try (rewrite Bool.eqb_reflx in Ht; discriminate Ht); cbn [sess_after]; try reflexivity.
      * destruct (_ && _ && _); reflexivity.
      * destruct (c_dict (get_c (fst (step (xw_base w) (OCReset o dir))) o)) eqn:Ed; [contradiction Hd; reflexivity| | |];
          destruct (is_session_dir dir); reflexivity.
      * rewrite G in Hd. destruct (stage_is_init _).
        -- rewrite (proj1 (proj2 (mt_update_fields _ _))). cbn [frame_start s_dk].
           destruct (c_dict (xget_c w o)); try reflexivity; contradiction Hd; reflexivity.
        -- rewrite (proj1 (proj2 (mt_update_fields _ _))). reflexivity.
      * rewrite G in Hd. destruct (stage_is_init _); cbn [frame_done s_dk].
        -- rewrite (proj1 (proj2 (mt_update_fields _ _))). cbn [frame_start s_dk].
           destruct (c_dict (xget_c w o)); try reflexivity; contradiction Hd; reflexivity.
        -- rewrite (proj1 (proj2 (mt_update_fields _ _))). reflexivity.
      * rewrite G in Hd. cbn [frame_done frame_start s_dk]. destruct (c_dict (xget_c w o)); try reflexivity; contradiction Hd; reflexivity.
      * rewrite G in Hd. cbn [frame_start s_dk]. destruct (c_dict (xget_c w o)); try reflexivity; contradiction Hd; reflexivity.
  - unfold xstep, xstep_gen. destruct (stage_is_init _); cbn [fst]; [rewrite get_put_s_same|]; reflexivity.
  - unfold xstep, xstep_gen in *. destruct (step (xw_base w) (OCFrame o)) as [b' [r vals]] eqn:Es. cbn [fst] in *.
    rewrite get_put_s_same. unfold xget_c in Hd. rewrite base_put_s, base_put_base in Hd.
    replace b' with (fst (step (xw_base w) (OCFrame o))) in Hd by (rewrite Es; reflexivity).
    rewrite (base_dict_step (xw_base w) (OCFrame o) o eq_refl) in Hd. cbn [frame_done frame_start s_dk].
    destruct (c_dict (get_c (xw_base w) o)); try reflexivity; contradiction Hd; reflexivity.
Qed.

(* "no dictionary" stays until the next attaching call: a consumed prefix never comes back *)
Lemma c_nodict_history_l : forall ops w o,
  Forall (fun x => c_attach o x = false) ops -> c_dict (xget_c w o) = CD_none ->
  c_dict (xget_c (xrun w ops) o) = CD_none /\ next_use (xrun w ops) o = 0.
Proof.
  induction ops as [|x ops IH]; intros w o Hf Hd.
  - unfold xrun. cbn [fold_left]. split; [exact Hd|]. unfold next_use. rewrite Hd. reflexivity.
  - inversion Hf; subst. unfold xrun. cbn [fold_left]. fold (xrun (fst (xstep w x)) ops). apply IH; [assumption|].
    destruct (xstep_dict_kind w x o H1) as [E|[E|[E _]]]; rewrite E, ?Hd; reflexivity.
Qed.

(* a prefix is used by the frame that starts next, and consumed by it *)
Lemma c_prefix_single_use_l : forall w o b, c_dict (xget_c w o) = CD_prefix ->
  (b = OCFrame o \/ b = OCFail o \/ (c_stage (xget_c w o) = S_init /\ (b = OCBegin o \/ b = OCEnd o))) ->
  c_dict (xget_c (fst (xstep w (XB b))) o) = CD_none
  /\ fi_use (s_cur (get_s (fst (xstep w (XB b))) o)) = 2 + s_dk (get_s w o)
  /\ next_use w o = 2 + s_dk (get_s w o).
Proof.
  intros w o b Hd Hb.
  assert (Hnu : next_use w o = 2 + s_dk (get_s w o)) by (unfold next_use; rewrite Hd; reflexivity).
  assert (Hc : op_cctx b = Some o) by (destruct Hb as [-> | [-> | [_ [-> | ->]]]]; reflexivity).
  pose proof (xstep_gen_target false false false w b o Hc) as H. cbn zeta in H.
  assert (Er : is_end b && end_refused (xget_c w o) (get_s w o) = false).
  { destruct Hb as [-> | [-> | [Hs [-> | ->]]]]; try reflexivity. cbn [is_end andb]. unfold end_refused. rewrite Hs. reflexivity. }
  rewrite Er in H. destruct H as (A & B & _). unfold xstep. rewrite A, B.
  pose proof (base_dict_step (xw_base w) b o Hc) as G. cbn zeta in G. fold (xget_c w o) in G.
  destruct Hb as [-> | [-> | [Hs [-> | ->]]]]; rewrite G, ?Hs, Hd; cbn [stage_is_init dict_at_frame_start sess_after];
    rewrite ?Hs; cbn [stage_is_init frame_done s_cur]; rewrite ?(proj1 (proj2 (proj2 (proj2 (proj2 (proj2 (mt_update_fields _ _)))))));
    rewrite frame_start_use, Hd; auto.
Qed.

(* a loaded dictionary / referenced CDict is the one every frame uses until another attaching call or a parameter reset *)
Definition c_holds (w : xworld) (o : bool) (k : Z) : Prop :=
  uses_cdict (c_dict (xget_c w o)) = true /\ s_dk (get_s w o) = k.

Lemma c_dict_sticky_l : forall ops w o k,
  Forall (fun x => c_drop o x = false) ops -> c_holds w o k ->
  c_holds (xrun w ops) o k /\ next_use (xrun w ops) o = k.
Proof.
  induction ops as [|x ops IH]; intros w o k Hf [Hu Hk].
  - unfold xrun. cbn [fold_left]. split; [split; assumption|]. unfold next_use. destruct (c_dict (xget_c w o)); try discriminate Hu; exact Hk.
  - inversion Hf; subst. unfold xrun. cbn [fold_left]. fold (xrun (fst (xstep w x)) ops). apply IH; [assumption|].
    unfold c_drop in H1. apply Bool.orb_false_iff in H1. destruct H1 as [Ha Hr].
    assert (Hu' : uses_cdict (c_dict (xget_c (fst (xstep w x)) o)) = true).
    { destruct (xstep_dict_kind w x o Ha) as [E|[E|[_ (dir & -> & Ep)]]].
      - rewrite E. exact Hu.
      - rewrite E. destruct (c_dict (xget_c w o)); try discriminate Hu; reflexivity.
      - exfalso. rewrite Bool.eqb_reflx, Ep in Hr. discriminate Hr. }
    split; [exact Hu'|]. rewrite xstep_dk; [reflexivity | exact Ha|].
    intro E. rewrite E in Hu'. discriminate Hu'.
Qed.

(* reset rules: a session-only reset keeps what is attached (also a pending prefix); a parameter reset drops it *)
Lemma c_reset_dict_rules_l : forall w o dir,
  (is_session dir = true -> is_params dir = false ->
     c_dict (xget_c (fst (xstep w (XB (OCReset o dir)))) o) = c_dict (xget_c w o) /\ next_use (fst (xstep w (XB (OCReset o dir)))) o = next_use w o)
  /\ (is_params dir = true -> (c_stage (xget_c w o) = S_init \/ is_session dir = true) ->
      c_dict (xget_c (fst (xstep w (XB (OCReset o dir)))) o) = CD_none /\ next_use (fst (xstep w (XB (OCReset o dir)))) o = 0).
Proof.
  intros w o dir. destruct (target_session w (OCReset o dir) o eq_refl eq_refl) as (A & B & _). split.
  - intros Hs Hp. unfold next_use. rewrite A, B. cbn [step fst snd]. fold (xget_c w o).
    rewrite (reset_session_keeps_parameters_l (xget_c w o) dir Hs Hp). cbn [fst snd]. rewrite get_put_c_same. cbn [c_dict sess_after].
    split; [reflexivity|]. destruct (c_dict (xget_c w o)); destruct (is_session_dir dir); reflexivity.
  - intros Hp Hs. unfold next_use. rewrite B. cbn [step fst]. fold (xget_c w o).
    rewrite (reset_parameters_restores_defaults_l (xget_c w o) dir Hp Hs). cbn [fst]. rewrite get_put_c_same. cbn [c_dict]. auto.
Qed.

(* ------------------------------------------------------------------ the extended model refines the base model:
   the requested parameters / stage / dictionary kind after an extended history are those of a history of base calls, so
   every theorem about base histories (bounds invariant, decoder invariants, ...) holds for extended histories *)
Definition ximage (w : xworld) (x : xop) : list op :=
  match x with
  | XB b =>
      match op_cctx b with
      | Some o =>
          if is_end b && end_refused (xget_c w o) (get_s w o)
          then (if mt_frame (mt_update (xget_c w o) (get_s w o)) then [OCReset o z_ZSTD_reset_session_only] else [])
          else [b]
      | None => [b]
      end
  | XFxWin o => [OCFrame o]
  | _ => []
  end.

Lemma xstep_image : forall w x, xw_base (fst (xstep w x)) = run (xw_base w) (ximage w x).
Proof.
  intros w x. destruct x as [b|o v|o|o|o|o|o]; cbn [ximage]; try reflexivity.
  - unfold xstep, xstep_gen, xget_c. destruct (is_new b) eqn:Hn.
    + destruct b; try discriminate Hn. reflexivity.
    + destruct (step (xw_base w) b) as [b' [r vals]] eqn:Es. destruct (op_cctx b) as [o|].
      * destruct (is_end b && end_refused _ _); cbn [fst].
        -- unfold xrefuse. destruct (mt_frame _); rewrite base_put_s; [|reflexivity]. rewrite base_put_base.
           unfold run. cbn [fold_left step].
           rewrite (reset_session_keeps_parameters_l (get_c (xw_base w) o) z_ZSTD_reset_session_only); [reflexivity | vm_compute; reflexivity | vm_compute; reflexivity].
        -- rewrite base_put_s, base_put_base. unfold run. cbn [fold_left]. rewrite Es. reflexivity.
      * cbn [fst]. rewrite base_put_base. unfold run. cbn [fold_left]. rewrite Es. reflexivity.
  - unfold xstep, xstep_gen. destruct (stage_is_init _); cbn [fst]; rewrite ?base_put_s; reflexivity.
  - unfold xstep, xstep_gen. destruct (step (xw_base w) (OCFrame o)) as [b' [r vals]] eqn:Es. cbn [fst].
    rewrite base_put_s, base_put_base. unfold run. cbn [fold_left]. rewrite Es. reflexivity.
Qed.

Fixpoint ximages (w : xworld) (ops : list xop) : list op :=
  match ops with
  | [] => []
  | x :: t => ximage w x ++ ximages (fst (xstep w x)) t
  end.

Lemma run_app : forall l1 l2 w, run w (l1 ++ l2) = run (run w l1) l2.
Proof. intros. unfold run. apply fold_left_app. Qed.

Lemma xrun_image : forall ops w, xw_base (xrun w ops) = run (xw_base w) (ximages w ops).
Proof.
  induction ops as [|x ops IH]; intros w; [reflexivity|].
  unfold xrun. cbn [fold_left ximages]. fold (xrun (fst (xstep w x)) ops). rewrite IH, xstep_image, run_app. reflexivity.
Qed.

Definition xop_wf (x : xop) : Prop := match x with XB b => op_wf b | _ => True end.

Lemma ximages_wf : forall ops w, Forall xop_wf ops -> Forall op_wf (ximages w ops).
Proof.
  induction ops as [|x ops IH]; intros w Hf; [constructor|]. inversion Hf; subst. cbn [ximages]. apply Forall_app. split; [|apply IH; assumption].
  destruct x as [b| | | | | |]; cbn [ximage]; try constructor; try exact I; try constructor.
  destruct (op_cctx b); [destruct (_ && _); [destruct (mt_frame _)|]|]; repeat constructor; try exact I; exact H1.
Qed.

Lemma x_history_within_bounds_l : forall ops, Forall xop_wf ops ->
  forall o,
  (forall p, cvalue_ok p (c_params (xget_c (xrun xworld_new ops) o) p) /\ cvalue_ok p (w_p (xw_base (xrun xworld_new ops)) p))
  /\ (forall p, let d := get_d (xw_base (xrun xworld_new ops)) o in
                (in_dbounds p (dctx_get_p d p) \/ (p = D_maxBlockSize /\ dctx_get_p d p = 0)) /\ 0 < d_maxWindowSize d mod 2 ^ 32).
Proof.
  intros ops Hf o. unfold xget_c. rewrite xrun_image. change (xw_base xworld_new) with world_new. split; intro p.
  - apply history_cparams_within_bounds_l. apply ximages_wf. exact Hf.
  - apply history_dparams_within_bounds_l.
Qed.

(* requested parameters are sticky in the extended model too: pledges, frames (also refused ends), dictionary calls and the
   observers leave them alone *)
Definition xtouches_cparams (o : bool) (x : xop) : bool := match x with XB b => touches_cparams o b | _ => false end.

Lemma x_sticky_step : forall w x o, xtouches_cparams o x = false ->
  c_params (xget_c (fst (xstep w x)) o) = c_params (xget_c w o).
Proof.
  intros w x o Ht. unfold xget_c. rewrite xstep_image.
  destruct x as [b| | | | | |]; cbn [ximage xtouches_cparams] in *; try reflexivity.
  - destruct (op_cctx b) as [o'|] eqn:Hc.
    + destruct (_ && _).
      * destruct (mt_frame _); [|reflexivity]. unfold run. cbn [fold_left step].
        destruct (cctx_reset (get_c (xw_base w) o') z_ZSTD_reset_session_only) as [c' r] eqn:E. cbn [fst].
        rewrite (reset_session_keeps_parameters_l (get_c (xw_base w) o') z_ZSTD_reset_session_only) in E by (vm_compute; reflexivity).
        injection E as <- _. destruct (Bool.eqb_spec o o') as [->|Hne]; [rewrite get_put_c_same; reflexivity | rewrite get_put_c_other by exact Hne; reflexivity].
      * unfold run. cbn [fold_left]. apply step_sticky. exact Ht.
    + unfold run. cbn [fold_left]. apply step_sticky. exact Ht.
  - unfold run. cbn [fold_left]. apply step_sticky. reflexivity.
Qed.

Lemma x_sticky_across_frames_l : forall ops w o,
  Forall (fun x => xtouches_cparams o x = false) ops -> c_params (xget_c (xrun w ops) o) = c_params (xget_c w o).
Proof.
  induction ops as [|x ops IH]; intros w o Hf; [reflexivity|].
  inversion Hf; subst. unfold xrun. cbn [fold_left]. fold (xrun (fst (xstep w x)) ops).
  rewrite IH by assumption. apply x_sticky_step. assumption.
Qed.

(* ------------------------------------------------------------------ the hypotheses are satisfiable *)
Example ex_mt_frame :
  let w := xrun xworld_new [XB (OCSet false z_ZSTD_c_nbWorkers 1); XB (OCBegin false)] in
  mt_frame (get_s w false) = true /\ c_stage (xget_c w false) = S_mid /\ (exists m, s_mt (get_s w false) = Some m).
Proof. cbn zeta. split; [vm_compute; reflexivity|]. split; [vm_compute; reflexivity|]. eexists. vm_compute. reflexivity. Qed.

Example ex_pledged_stream :
  let w := xrun xworld_new [XPledge false 200; XB (OCBegin false); XB (OCBegin false)] in
  fst (snd (xstep w (XB (OCEnd false)))) = Ok /\ s_last (get_s (fst (xstep w (XB (OCEnd false)))) false) = Some (mkFI 200 0 0).
Proof. split; vm_compute; reflexivity. Qed.

Example ex_prefix_then_plain :
  let w := xrun xworld_new [XB (OCRefPrefix false 1); XB (OCFrame false); XB (OCFrame false)] in
  s_last (get_s w false) = Some (mkFI 300 0 0)
  /\ s_last (get_s (xrun xworld_new [XB (OCRefPrefix false 1); XB (OCFrame false)]) false) = Some (mkFI 300 0 3).
Proof. split; vm_compute; reflexivity. Qed.
