(* C16 round 3 - the deprecated initialisation functions of a compression stream, on top of SessionModel:
     lib/compress/zstd_compress.c   ZSTD_initCStream, ZSTD_initCStream_srcSize, ZSTD_initCStream_usingDict,
                                    ZSTD_initCStream_usingCDict, ZSTD_initCStream_usingCDict_advanced,
                                    ZSTD_initCStream_advanced (+ ZSTD_CCtxParams_setZstdParams), ZSTD_resetCStream
   Each is a FORWARD_IF_ERROR chain of calls the two layers below already model (session reset, ZSTD_CCtx_setPledgedSrcSize,
   ZSTD_CCtx_setParameter, ZSTD_CCtx_refCDict, ZSTD_CCtx_loadDictionary) plus, for the two `_advanced` functions, a raw store
   into cctx->requestedParams that no setter performs (frame parameters as given, compression level ZSTD_NO_CLEVEL).
   No proofs in this file. *)
From Coq Require Import ZArith List Bool.
From ZV.Gen Require Import Gen_Bounds.
From ZV.Params Require Import BoundsModel CParamsAdjust ParamModel SessionModel.
Import ListNotations.
Local Open Scope Z_scope.

(* FORWARD_IF_ERROR(call1); FORWARD_IF_ERROR(call2); ... : the first failing call ends the chain, what was done stays done *)
Fixpoint xseq (w : xworld) (l : list xop) : xworld * result :=
  match l with
  | [] => (w, Ok)
  | x :: t => match xstep w x with
              | (w', (Ok, _)) => xseq w' t
              | (w', (Err e, _)) => (w', Err e)
              end
  end.

(* "0 means unknown" of ZSTD_initCStream_srcSize / ZSTD_resetCStream *)
Definition pss0 (pss : Z) : Z := if Z.eqb pss 0 then z_ZSTD_CONTENTSIZE_UNKNOWN else pss.

(* zcs->requestedParams.fParams = fParams  (ZSTD_initCStream_usingCDict_advanced): the three ints as given *)
Definition store_fparams (s : cstore) (fp : fpar) : cstore :=
  fun q => match q with
           | C_contentSizeFlag => f_cs fp
           | C_checksumFlag => f_ck fp
           | C_dictIDFlag => if Z.eqb (f_nd fp) 0 then 1 else 0
           | _ => s q
           end.
(* ZSTD_CCtxParams_setZstdParams(&zcs->requestedParams, &params): cParams, fParams as given, compressionLevel = ZSTD_NO_CLEVEL *)
Definition store_zstd_params (s : cstore) (cp : cpar) (fp : fpar) : cstore :=
  fun q => match q with
           | C_compressionLevel => 0
           | C_windowLog => wlog cp | C_chainLog => clog cp | C_hashLog => hlog cp | C_searchLog => slog cp
           | C_minMatch => mmatch cp | C_targetLength => tlen cp | C_strategy => strat cp
           | _ => store_fparams s fp q
           end.
Definition xput_params (w : xworld) (o : bool) (s : cstore) : xworld :=
  let c := get_c (xw_base w) o in
  put_base w (put_c (xw_base w) o (mkC s (c_stage c) (c_dict c) (c_static c))).

Inductive yop : Type :=
| YX (x : xop)
| YInit (o : bool) (level : Z)                                   (* ZSTD_initCStream *)
| YInitSrc (o : bool) (level pss : Z)                            (* ZSTD_initCStream_srcSize *)
| YInitDict (o : bool) (k level : Z)                             (* ZSTD_initCStream_usingDict; k = 0: NULL *)
| YInitCDict (o : bool) (k : Z)                                  (* ZSTD_initCStream_usingCDict *)
| YInitCDictAdv (o : bool) (k : Z) (fp : fpar) (pss : Z)         (* ZSTD_initCStream_usingCDict_advanced *)
| YInitAdv (o : bool) (k : Z) (cp : cpar) (fp : fpar) (pss : Z)  (* ZSTD_initCStream_advanced *)
| YResetCS (o : bool) (pss : Z).                                 (* ZSTD_resetCStream *)

Definition reset_session (o : bool) : xop := XB (OCReset o z_ZSTD_reset_session_only).
Definition set_level (o : bool) (level : Z) : xop := XB (OCSet o (cparam_id C_compressionLevel) level).

Definition ystep (w : xworld) (y : yop) : xworld * (result * list Z) :=
  match y with
  | YX x => xstep w x
  | YInit o level =>
      let '(w', r) := xseq w [reset_session o; XB (OCRefCDict o 0); set_level o level] in (w', (r, []))
  | YInitSrc o level pss =>
      let '(w', r) := xseq w [reset_session o; XB (OCRefCDict o 0); set_level o level; XPledge o (pss0 pss)] in (w', (r, []))
  | YInitDict o k level =>
      let '(w', r) := xseq w [reset_session o; set_level o level; XB (OCLoad o k)] in (w', (r, []))
  | YInitCDict o k =>
      let '(w', r) := xseq w [reset_session o; XB (OCRefCDict o k)] in (w', (r, []))
  | YInitCDictAdv o k fp pss =>
      match xseq w [reset_session o; XPledge o pss] with
      | (w1, Ok) =>
          let w2 := xput_params w1 o (store_fparams (c_params (get_c (xw_base w1) o)) fp) in
          let '(w', r) := xseq w2 [XB (OCRefCDict o k)] in (w', (r, []))
      | (w1, Err e) => (w1, (Err e, []))
      end
  | YInitAdv o k cp fp pss =>
      let pledged := if Z.eqb pss 0 && Z.eqb (f_cs fp) 0 then z_ZSTD_CONTENTSIZE_UNKNOWN else pss in
      match xseq w [reset_session o; XPledge o pledged] with
      | (w1, Ok) =>
          if check_cparams cp then
            let w2 := xput_params w1 o (store_zstd_params (c_params (get_c (xw_base w1) o)) cp fp) in
            let '(w', r) := xseq w2 [XB (OCLoad o k)] in (w', (r, []))
          else (w1, (Err E_outOfBound, []))
      | (w1, Err e) => (w1, (Err e, []))
      end
  | YResetCS o pss =>
      let '(w', r) := xseq w [reset_session o; XPledge o (pss0 pss)] in (w', (r, []))
  end.

Definition yrun (w : xworld) (ops : list yop) : xworld := fold_left (fun w y => fst (ystep w y)) ops w.

(* what zstd.h gives as the modern equivalent of ZSTD_initCStream_advanced:
     ZSTD_CCtx_reset(session_only); ZSTD_CCtx_setParams(params); ZSTD_CCtx_setPledgedSrcSize(pss); ZSTD_CCtx_loadDictionary(dict) *)
Definition init_adv_documented (o : bool) (k : Z) (cp : cpar) (fp : fpar) (pss : Z) : list xop :=
  [reset_session o; XB (OCSetP o cp fp); XPledge o pss; XB (OCLoad o k)].
