(* C16 - level -> compression parameters: executable model of
     ZSTD_checkCParams, ZSTD_clampCParams, ZSTD_cycleLog, ZSTD_dictAndWindowLog, ZSTD_adjustCParams_internal,
     ZSTD_adjustCParams, ZSTD_getCParamRowSize, ZSTD_getCParams_internal, ZSTD_getCParams   (lib/compress/zstd_compress.c)
   for the build ./check uses (no ZSTD_EXCLUDE_*_BLOCK_COMPRESSOR macro).  U32 / U64 wrap-around is written explicitly.
   Constants and the level table come from the regenerated ZV.Gen files.  No proofs in this file. *)
From Coq Require Import ZArith List Bool.
From ZV.Gen Require Import Gen_Bounds Gen_Levels.
From ZV.Params Require Import BoundsModel.
Import ListNotations.
Local Open Scope Z_scope.

Record cpar : Set := mkCP { wlog : Z; clog : Z; hlog : Z; slog : Z; mmatch : Z; tlen : Z; strat : Z }.

Definition u32 (x : Z) : Z := x mod 2 ^ 32.
Definition u64 (x : Z) : Z := x mod 2 ^ 64.
Definition highbit32 (v : Z) : Z := Z.log2 v.          (* v > 0 at every call site *)

(* ZSTD_checkCParams: every field within the advertised bounds of its parameter *)
Definition check_cparams (c : cpar) : bool :=
  cwithin C_windowLog (wlog c) && cwithin C_chainLog (clog c) && cwithin C_hashLog (hlog c) && cwithin C_searchLog (slog c)
  && cwithin C_minMatch (mmatch c) && cwithin C_targetLength (tlen c) && cwithin C_strategy (strat c).

(* CLAMP of ZSTD_clampCParams (values are unsigned ints reinterpreted as int: the callers pass values < 2^31) *)
Definition clamp1 (p : cparam) (v : Z) : Z :=
  match cbounds p with
  | Some (lo, hi) => if v <? lo then lo else if v >? hi then hi else v
  | None => v
  end.
Definition clamp_cparams (c : cpar) : cpar :=
  mkCP (clamp1 C_windowLog (wlog c)) (clamp1 C_chainLog (clog c)) (clamp1 C_hashLog (hlog c)) (clamp1 C_searchLog (slog c))
       (clamp1 C_minMatch (mmatch c)) (clamp1 C_targetLength (tlen c)) (clamp1 C_strategy (strat c)).

Definition cycle_log (hashLog strategy : Z) : Z := hashLog - (if strategy >=? z_ZSTD_btlazy2 then 1 else 0).

Definition dict_and_window_log (windowLog srcSize dictSize : Z) : Z :=
  if dictSize =? 0 then windowLog
  else
    let windowSize := 2 ^ windowLog in
    let dictAndWindowSize := u64 (dictSize + windowSize) in
    if windowSize >=? u64 (dictSize + srcSize) then windowLog
    else if dictAndWindowSize >=? 2 ^ z_ZSTD_WINDOWLOG_MAX then z_ZSTD_WINDOWLOG_MAX
    else highbit32 (u32 (u32 dictAndWindowSize - 1)) + 1.

Definition row_matchfinder_used (strategy mode : Z) : bool :=
  (z_ZSTD_greedy <=? strategy) && (strategy <=? z_ZSTD_lazy2) && (mode =? z_ZSTD_ps_enable).

Definition cdict_indices_tagged (strategy : Z) : bool := (strategy =? z_ZSTD_fast) || (strategy =? z_ZSTD_dfast).

Definition bounded (lo v hi : Z) : Z := Z.max lo (Z.min v hi).

(* the steps of ZSTD_adjustCParams_internal, in source order *)
Definition adj_src (mode srcSize dictSize : Z) : Z :=          (* `switch (mode)`: createCDict assumes a small source *)
  if (mode =? z_ZSTD_cpm_createCDict) && negb (dictSize =? 0) && (srcSize =? z_ZSTD_CONTENTSIZE_UNKNOWN) then 513 else srcSize.
Definition adj_dict (mode dictSize : Z) : Z := if mode =? z_ZSTD_cpm_attachDict then 0 else dictSize.

Definition src_log (srcSize dictSize : Z) : Z :=
  let tSize := u32 (srcSize + dictSize) in
  if tSize <? 2 ^ z_ZSTD_HASHLOG_MIN then z_ZSTD_HASHLOG_MIN else highbit32 (tSize - 1) + 1.

Definition adj_wl1 (wl srcSize dictSize : Z) : Z :=            (* resize windowLog if input is small enough *)
  let maxWindowResize := 2 ^ (z_ZSTD_WINDOWLOG_MAX - 1) in
  if (srcSize <=? maxWindowResize) && (dictSize <=? maxWindowResize)
  then (if wl >? src_log srcSize dictSize then src_log srcSize dictSize else wl)
  else wl.

Definition adj_hl1 (hl wl1 srcSize dictSize : Z) : Z :=
  if negb (srcSize =? z_ZSTD_CONTENTSIZE_UNKNOWN)
  then (let dawl := dict_and_window_log wl1 srcSize dictSize in if hl >? dawl + 1 then dawl + 1 else hl)
  else hl.

Definition adj_cl1 (cl st wl1 srcSize dictSize : Z) : Z :=
  if negb (srcSize =? z_ZSTD_CONTENTSIZE_UNKNOWN)
  then (let dawl := dict_and_window_log wl1 srcSize dictSize in
        let cyc := cycle_log cl st in
        if cyc >? dawl then cl - (cyc - dawl) else cl)
  else cl.

Definition adj_wl2 (wl1 : Z) : Z := if wl1 <? z_ZSTD_WINDOWLOG_ABSOLUTEMIN then z_ZSTD_WINDOWLOG_ABSOLUTEMIN else wl1.

Definition adj_tag (mode st x : Z) : Z :=                      (* short-cache tags of a CDict with fast / dfast *)
  if (mode =? z_ZSTD_cpm_createCDict) && cdict_indices_tagged st
  then (let m := 32 - z_ZSTD_SHORT_CACHE_TAG_BITS in if x >? m then m else x)
  else x.

Definition adj_row (st sl useRow0 hl : Z) : Z :=               (* row match finder: hashLog - rowLog + 8 <= 32 *)
  let useRow := if useRow0 =? z_ZSTD_ps_auto then z_ZSTD_ps_enable else useRow0 in
  if row_matchfinder_used st useRow
  then (let maxHashLog := (32 - z_ZSTD_ROW_HASH_TAG_BITS) + bounded 4 sl 6 in if hl >? maxHashLog then maxHashLog else hl)
  else hl.

(* ZSTD_adjustCParams_internal(cPar, srcSize : U64, dictSize : size_t, mode, useRowMatchFinder) *)
Definition adjust_cparams (c : cpar) (srcSize0 dictSize0 mode useRow : Z) : cpar :=
  let srcSize := adj_src mode srcSize0 dictSize0 in
  let dictSize := adj_dict mode dictSize0 in
  let wl1 := adj_wl1 (wlog c) srcSize dictSize in
  let hl1 := adj_hl1 (hlog c) wl1 srcSize dictSize in
  let cl1 := adj_cl1 (clog c) (strat c) wl1 srcSize dictSize in
  mkCP (adj_wl2 wl1) (adj_tag mode (strat c) cl1) (adj_row (strat c) (slog c) useRow (adj_tag mode (strat c) hl1))
       (slog c) (mmatch c) (tlen c) (strat c).

(* ZSTD_adjustCParams (public) *)
Definition adjust_cparams_public (c : cpar) (srcSize dictSize : Z) : cpar :=
  adjust_cparams (clamp_cparams c) (if srcSize =? 0 then z_ZSTD_CONTENTSIZE_UNKNOWN else srcSize) dictSize
                 z_ZSTD_cpm_unknown z_ZSTD_ps_auto.

(* ZSTD_getCParamRowSize *)
Definition cparam_row_size (srcSizeHint dictSize0 mode : Z) : Z :=
  let dictSize := if mode =? z_ZSTD_cpm_attachDict then 0 else dictSize0 in
  let unknown := srcSizeHint =? z_ZSTD_CONTENTSIZE_UNKNOWN in
  let addedSize := if unknown && (dictSize >? 0) then 500 else 0 in
  if unknown && (dictSize =? 0) then z_ZSTD_CONTENTSIZE_UNKNOWN else u64 (srcSizeHint + dictSize + addedSize).

Definition cpar_of_row (r : Z * Z * Z * Z * Z * Z * Z) : cpar :=
  let '(w, c, h, s, m, t, st) := r in mkCP w c h s m t st.

Definition default_row : Z * Z * Z * Z * Z * Z * Z := (0, 0, 0, 0, 0, 0, 0).

Definition table_lookup (tableID row : Z) : cpar :=
  cpar_of_row (nth (Z.to_nat row) (nth (Z.to_nat tableID) default_cparams []) default_row).

(* ZSTD_getCParams_internal(level : int, srcSizeHint : U64, dictSize : size_t, mode) *)
Definition get_cparams (level srcSizeHint dictSize mode : Z) : cpar :=
  let rSize := cparam_row_size srcSizeHint dictSize mode in
  let tableID := (if rSize <=? 256 * 1024 then 1 else 0) + (if rSize <=? 128 * 1024 then 1 else 0) + (if rSize <=? 16 * 1024 then 1 else 0) in
  let row := if level =? 0 then z_ZSTD_CLEVEL_DEFAULT
             else if level <? 0 then 0
             else if level >? Gen_Bounds.z_ZSTD_MAX_CLEVEL then Gen_Bounds.z_ZSTD_MAX_CLEVEL
             else level in
  let cp := table_lookup tableID row in
  let cp1 := if level <? 0
             then mkCP (wlog cp) (clog cp) (hlog cp) (slog cp) (mmatch cp) (- (Z.max z_minCLevel level)) (strat cp)
             else cp in
  adjust_cparams cp1 srcSizeHint dictSize mode z_ZSTD_ps_auto.

(* ZSTD_getCParams (public) *)
Definition get_cparams_public (level srcSizeHint dictSize : Z) : cpar :=
  get_cparams level (if srcSizeHint =? 0 then z_ZSTD_CONTENTSIZE_UNKNOWN else srcSizeHint) dictSize z_ZSTD_cpm_unknown.

Definition cpar_list (c : cpar) : list Z := [wlog c; clog c; hlog c; slog c; mmatch c; tlen c; strat c].
