(* C16 round 3 - proofs about the deprecated stream initialisers (InitModel.v). *)
From Coq Require Import ZArith List Bool Lia.
From ZV.Gen Require Import Gen_Bounds.
From ZV.Params Require Import BoundsModel CParamsAdjust ParamModel ParamProofs ParamProofs2 SessionModel SessionProofs InitModel.
Import ListNotations.
Local Open Scope Z_scope.

(* what the theorems below look at: the context itself and the pledged size of its session *)
Definition vw (w : xworld) (o : bool) : cctx * Z := (xget_c w o, s_pledge (get_s w o)).

Lemma vw_split : forall w o c p, vw w o = (c, p) -> xget_c w o = c /\ s_pledge (get_s w o) = p.
Proof. intros w o c p H. unfold vw in H. injection H as H1 H2. split; assumption. Qed.

Lemma session_only_dir : is_session z_ZSTD_reset_session_only = true /\ is_params z_ZSTD_reset_session_only = false.
Proof. split; vm_compute; reflexivity. Qed.

(* ------------------------------------------------------------------ one call of a chain, seen through [vw] *)
Lemma v_reset : forall w o,
  let c := xget_c w o in
  vw (fst (xstep w (reset_session o))) o = (mkC (c_params c) S_init (c_dict c) (c_static c), 0)
  /\ fst (snd (xstep w (reset_session o))) = Ok.
Proof.
  intros w o c. unfold reset_session, vw.
  destruct (target_session w (OCReset o z_ZSTD_reset_session_only) o eq_refl eq_refl) as (_ & Hc & Hr).
  destruct session_only_dir as [Hs Hp].
  destruct (pledge_single_frame_l w o) as (_ & _ & _ & _ & Hpl). rewrite (Hpl _ Hs).
  rewrite Hc, Hr. cbn [step]. rewrite (reset_session_keeps_parameters_l _ _ Hs Hp). cbn [fst snd].
  rewrite get_put_c_same. split; reflexivity.
Qed.

Lemma v_pledge : forall w o v, c_stage (xget_c w o) = S_init ->
  vw (fst (xstep w (XPledge o v))) o = (xget_c w o, u64 (v + 1)) /\ fst (snd (xstep w (XPledge o v))) = Ok.
Proof.
  intros w o v Hs. destruct (pledge_call_l w o v) as [_ H]. rewrite (H Hs). cbn [fst snd]. unfold vw, xget_c.
  rewrite base_put_s, get_put_s_same. split; reflexivity.
Qed.

Lemma v_refcdict : forall w o k, c_stage (xget_c w o) = S_init ->
  let c := xget_c w o in
  vw (fst (xstep w (XB (OCRefCDict o k)))) o = (mkC (c_params c) S_init (if k =? 0 then CD_none else CD_cdict) (c_static c), snd (vw w o))
  /\ fst (snd (xstep w (XB (OCRefCDict o k)))) = Ok.
Proof.
  intros w o k Hs c. unfold vw.
  destruct (target_session w (OCRefCDict o k) o eq_refl eq_refl) as (Hss & Hc & Hr).
  rewrite Hss, Hc, Hr. cbn [step sess_after]. unfold cctx_refcdict. fold (xget_c w o). rewrite Hs. cbn [stage_is_init negb fst snd].
  rewrite get_put_c_same. rewrite (proj1 (dk_after_fields _ _ _ _)). split; reflexivity.
Qed.

Lemma v_load : forall w o k,
  vw (fst (xstep w (XB (OCLoad o k)))) o = (fst (cctx_load (xget_c w o) k), snd (vw w o))
  /\ fst (snd (xstep w (XB (OCLoad o k)))) = snd (cctx_load (xget_c w o) k).
Proof.
  intros w o k. unfold vw.
  destruct (target_session w (OCLoad o k) o eq_refl eq_refl) as (Hss & Hc & Hr).
  rewrite Hss, Hc, Hr. cbn [step sess_after]. fold (xget_c w o). destruct (cctx_load (xget_c w o) k) as [c' r]. cbn [fst snd].
  rewrite get_put_c_same. rewrite (proj1 (dk_after_fields _ _ _ _)). split; reflexivity.
Qed.

Lemma v_set : forall w o id v,
  vw (fst (xstep w (XB (OCSet o id v)))) o = (fst (cctx_set (xget_c w o) id v), snd (vw w o))
  /\ fst (snd (xstep w (XB (OCSet o id v)))) = snd (cctx_set (xget_c w o) id v).
Proof.
  intros w o id v. unfold vw.
  destruct (target_session w (OCSet o id v) o eq_refl eq_refl) as (Hss & Hc & Hr).
  rewrite Hss, Hc, Hr. cbn [step sess_after]. fold (xget_c w o). destruct (cctx_set (xget_c w o) id v) as [c' r]. cbn [fst snd].
  rewrite get_put_c_same. split; [|reflexivity]. f_equal. destruct (_ && _ && _); reflexivity.
Qed.

Lemma v_setp : forall w o cp fp,
  vw (fst (xstep w (XB (OCSetP o cp fp)))) o = (fst (cctx_set_params (xget_c w o) cp fp), snd (vw w o))
  /\ fst (snd (xstep w (XB (OCSetP o cp fp)))) = snd (cctx_set_params (xget_c w o) cp fp).
Proof.
  intros w o cp fp. unfold vw.
  destruct (target_session w (OCSetP o cp fp) o eq_refl eq_refl) as (Hss & Hc & Hr).
  rewrite Hss, Hc, Hr. cbn [step sess_after]. fold (xget_c w o). destruct (cctx_set_params (xget_c w o) cp fp) as [c' r]. cbn [fst snd].
  rewrite get_put_c_same. split; reflexivity.
Qed.

Lemma v_put_params : forall w o s,
  let c := xget_c w o in
  vw (xput_params w o s) o = (mkC s (c_stage c) (c_dict c) (c_static c), snd (vw w o)).
Proof. intros w o s c. unfold vw, xput_params, xget_c. rewrite base_put_base, get_put_c_same, get_s_put_base. reflexivity. Qed.

(* xseq, one call at a time *)
Lemma xseq_cons : forall w x t,
  xseq w (x :: t) = match fst (snd (xstep w x)) with
                    | Ok => xseq (fst (xstep w x)) t
                    | Err e => (fst (xstep w x), Err e)
                    end.
Proof. intros w x t. cbn [xseq]. destruct (xstep w x) as [w' [[|e] vals]]; reflexivity. Qed.

Lemma cctx_set_keeps : forall c id v,
  c_stage (fst (cctx_set c id v)) = c_stage c /\ c_dict (fst (cctx_set c id v)) = c_dict c /\ c_static (fst (cctx_set c id v)) = c_static c.
Proof.
  intros c id v. unfold cctx_set. destruct (negb _); [auto|]. destruct (cparam_of_id id) as [p|]; [|auto].
  destruct (match p with C_nbWorkers => _ | _ => false end); [auto|].
  destruct (cparams_set (c_params c) p v) as [s' [|e]]; auto.
Qed.

(* ------------------------------------------------------------------ ZSTD_initCStream(zcs, level) *)
(* In every stage: never refused for a stage reason; afterwards the context is in the init stage, holds no dictionary, has
   no pledged size, and its parameters are those of ZSTD_CCtx_setParameter(compressionLevel, level) applied to the
   parameters it held - every other parameter stays in force (the documented equivalence of zstd.h) *)
Lemma init_cstream_exact_l : forall w o level,
  let c := xget_c w o in
  let c0 := mkC (c_params c) S_init CD_none (c_static c) in
  vw (fst (ystep w (YInit o level))) o = (fst (cctx_set c0 (cparam_id C_compressionLevel) level), 0)
  /\ fst (snd (ystep w (YInit o level))) = snd (cctx_set c0 (cparam_id C_compressionLevel) level).
Proof.
  intros w o level c c0. cbn [ystep].
  destruct (v_reset w o) as [V1 R1]. rewrite xseq_cons, R1.
  set (w1 := fst (xstep w (reset_session o))) in *.
  assert (S1 : c_stage (xget_c w1 o) = S_init) by (unfold vw in V1; injection V1 as -> _; reflexivity).
  destruct (v_refcdict w1 o 0 S1) as [V2 R2]. rewrite xseq_cons, R2.
  set (w2 := fst (xstep w1 (XB (OCRefCDict o 0)))) in *.
  unfold set_level. destruct (v_set w2 o (cparam_id C_compressionLevel) level) as [V3 R3]. rewrite xseq_cons.
  assert (C2 : xget_c w2 o = c0 /\ snd (vw w2 o) = 0).
  { unfold vw in V1, V2 |- *. injection V1 as E1 P1. injection V2 as E2 P2. cbn [snd] in *. rewrite E2, P2, P1, E1. cbn. split; reflexivity. }
  destruct C2 as [C2 P2]. rewrite C2, P2 in V3. rewrite C2 in R3.
  destruct (fst (snd (xstep w2 (XB (OCSet o (cparam_id C_compressionLevel) level))))) eqn:Er; cbn [xseq fst snd]; split;
    try exact V3; rewrite <- R3; reflexivity.
Qed.

Lemma init_cstream_sticky_l : forall w o level,
  let c := xget_c w o in
  let c' := xget_c (fst (ystep w (YInit o level))) o in
  (forall q, q <> C_compressionLevel -> c_params c' q = c_params c q)
  /\ c_stage c' = S_init /\ c_dict c' = CD_none /\ c_static c' = c_static c
  /\ s_pledge (get_s (fst (ystep w (YInit o level))) o) = 0.
Proof.
  intros w o level c c'. destruct (init_cstream_exact_l w o level) as [V _]. apply vw_split in V. destruct V as [Ec Ep].
  subst c'. rewrite Ec, Ep.
  set (c0 := mkC (c_params (xget_c w o)) S_init CD_none (c_static (xget_c w o))).
  destruct (cctx_set_keeps c0 (cparam_id C_compressionLevel) level) as (K1 & K2 & K3). rewrite K1, K2, K3.
  split; [|auto]. intros q Hq.
  destruct (cctx_set c0 (cparam_id C_compressionLevel) level) as [c1 [|e]] eqn:E.
  - destruct (accepted_set_changes_only_that_param_l _ _ _ _ E) as (p & Hp & Hq' & _).
    rewrite cparam_of_id_id in Hp. injection Hp as <-. cbn [fst]. apply Hq'. exact Hq.
  - pose proof (rejected_set_changes_nothing_l c0 (cparam_id C_compressionLevel) level) as R. rewrite E in R. cbn [fst snd] in R.
    rewrite R by discriminate. reflexivity.
Qed.

(* ------------------------------------------------------------------ ZSTD_initCStream_advanced *)
Definition adv_pledged (fp : fpar) (pss : Z) : Z := if Z.eqb pss 0 && Z.eqb (f_cs fp) 0 then z_ZSTD_CONTENTSIZE_UNKNOWN else pss.

(* invalid cParams: the call is refused with parameter_outOfBound, the requested parameters and the dictionary are untouched -
   but it is NOT a no-op: the session has been reset (a frame in progress is abandoned) and the pledged size recorded *)
Lemma init_advanced_refused_l : forall w o k cp fp pss, check_cparams cp = false ->
  let c := xget_c w o in
  vw (fst (ystep w (YInitAdv o k cp fp pss))) o = (mkC (c_params c) S_init (c_dict c) (c_static c), u64 (adv_pledged fp pss + 1))
  /\ fst (snd (ystep w (YInitAdv o k cp fp pss))) = Err E_outOfBound.
Proof.
  intros w o k cp fp pss Hc c. cbn [ystep]. fold (adv_pledged fp pss).
  destruct (v_reset w o) as [V1 R1]. rewrite xseq_cons, R1.
  set (w1 := fst (xstep w (reset_session o))) in *.
  assert (S1 : c_stage (xget_c w1 o) = S_init) by (unfold vw in V1; injection V1 as -> _; reflexivity).
  destruct (v_pledge w1 o (adv_pledged fp pss) S1) as [V2 R2]. rewrite xseq_cons, R2. cbn [xseq]. rewrite Hc. cbn [fst snd].
  split; [|reflexivity]. rewrite V2. unfold vw in V1. injection V1 as E1 _. rewrite E1. reflexivity.
Qed.

(* valid cParams: the requested parameters become [store_zstd_params] of the ones held (seven cParams and three frame flags as
   given, compression level ZSTD_NO_CLEVEL = 0, every other parameter kept), then ZSTD_CCtx_loadDictionary *)
Lemma init_advanced_accepted_l : forall w o k cp fp pss, check_cparams cp = true ->
  let c := xget_c w o in
  let c1 := mkC (store_zstd_params (c_params c) cp fp) S_init (c_dict c) (c_static c) in
  vw (fst (ystep w (YInitAdv o k cp fp pss))) o = (fst (cctx_load c1 k), u64 (adv_pledged fp pss + 1))
  /\ fst (snd (ystep w (YInitAdv o k cp fp pss))) = snd (cctx_load c1 k).
Proof.
  intros w o k cp fp pss Hc c c1. cbn [ystep]. fold (adv_pledged fp pss).
  destruct (v_reset w o) as [V1 R1]. rewrite xseq_cons, R1.
  set (w1 := fst (xstep w (reset_session o))) in *.
  assert (S1 : c_stage (xget_c w1 o) = S_init) by (unfold vw in V1; injection V1 as -> _; reflexivity).
  destruct (v_pledge w1 o (adv_pledged fp pss) S1) as [V2 R2]. rewrite xseq_cons, R2. cbn [xseq]. rewrite Hc.
  set (w2 := fst (xstep w1 (XPledge o (adv_pledged fp pss)))) in *.
  set (w3 := xput_params w2 o (store_zstd_params (c_params (get_c (xw_base w2) o)) cp fp)).
  pose proof (v_put_params w2 o (store_zstd_params (c_params (get_c (xw_base w2) o)) cp fp)) as V3. cbn zeta in V3. fold w3 in V3.
  destruct (v_load w3 o k) as [V4 R4].
  assert (C3 : xget_c w3 o = c1 /\ snd (vw w3 o) = u64 (adv_pledged fp pss + 1)).
  { apply vw_split in V1, V2, V3. destruct V1 as [E1 P1], V2 as [E2 P2], V3 as [E3 P3].
    unfold vw in P3 |- *. cbn [snd] in P3 |- *. rewrite E3, P3, P2. fold (xget_c w2 o). rewrite E2, E1. cbn. split; reflexivity. }
  destruct C3 as [C3 P3]. rewrite C3, P3 in V4. rewrite C3 in R4.
  destruct (xstep w3 (XB (OCLoad o k))) as [w4 [[|e] vals]] eqn:E4; cbn [fst snd] in *; split; try exact V4; rewrite <- R4; reflexivity.
Qed.

(* against the modern equivalent zstd.h documents (reset session, ZSTD_CCtx_setParams, setPledgedSrcSize, loadDictionary):
   with 0 / 1 frame flags the requested parameters agree on every cell except the compression level, which the documented
   sequence leaves alone and the code overwrites with ZSTD_NO_CLEVEL *)
Definition flag01 (v : Z) : Prop := v = 0 \/ v = 1.

Lemma store_vs_setparams_l : forall c cp fp, c_stage c = S_init -> check_cparams cp = true ->
  flag01 (f_cs fp) -> flag01 (f_ck fp) -> flag01 (f_nd fp) ->
  snd (cctx_set_params c cp fp) = Ok
  /\ (forall q, q <> C_compressionLevel -> store_zstd_params (c_params c) cp fp q = c_params (fst (cctx_set_params c cp fp)) q)
  /\ c_params (fst (cctx_set_params c cp fp)) C_compressionLevel = c_params c C_compressionLevel
  /\ store_zstd_params (c_params c) cp fp C_compressionLevel = 0.
Proof.
  intros c cp fp Hs Hc H1 H2 H3.
  rewrite (set_params_char c cp fp), Hc, Hs. cbn [fst snd c_params].
  split; [reflexivity|].
  unfold cpar_store, fpar_store, cpar_sets, fpar_sets, store_zstd_params, store_fparams. cbn [fold_left fst snd].
  unfold cupd, flag.
  split; [|split; reflexivity].
  intros q Hq. destruct fp as [cs ck nd]. cbn [f_cs f_ck f_nd] in *.
  destruct H1 as [-> | ->], H2 as [-> | ->], H3 as [-> | ->]; destruct q; try reflexivity; contradiction Hq; reflexivity.
Qed.

Example ex_init_advanced : exists w o k cp fp pss, check_cparams cp = true /\ c_stage (xget_c w o) = S_mid
  /\ fst (snd (ystep w (YInitAdv o k cp fp pss))) = Ok.
Proof.
  exists (fst (xstep xworld_new (XB (OCBegin false)))), false, 1, (mkCP 17 12 12 1 4 0 1), (mkFP 1 1 0), 100.
  split; [vm_compute; reflexivity|]. split; vm_compute; reflexivity.
Qed.

(* ------------------------------------------------------------------ every chain initialiser ends in the init stage *)
Definition chain_op (o : bool) (x : xop) : Prop :=
  match x with
  | XPledge o' _ | XB (OCSet o' _ _) | XB (OCRefCDict o' _) | XB (OCLoad o' _) => o' = o
  | _ => False
  end.

Lemma chain_op_keeps_init : forall w o x, chain_op o x -> c_stage (xget_c w o) = S_init ->
  c_stage (xget_c (fst (xstep w x)) o) = S_init.
Proof.
  intros w o x Hx Hs.
  destruct x as [b|o' v|o'|o'|o'|o'|o']; cbn [chain_op] in Hx; try contradiction.
  - destruct b; try contradiction; subst o0.
    + destruct (v_set w o id v) as [V _]. apply vw_split in V. destruct V as [E _]. rewrite E.
      rewrite (proj1 (cctx_set_keeps _ _ _)). exact Hs.
    + destruct (v_load w o k) as [V _]. apply vw_split in V. destruct V as [E _]. rewrite E.
      unfold cctx_load. rewrite Hs. cbn [stage_is_init negb]. destruct (k =? 0); [reflexivity|]. destruct (c_static _); reflexivity.
    + destruct (v_refcdict w o k Hs) as [V _]. apply vw_split in V. destruct V as [E _]. rewrite E. reflexivity.
  - subst o'. destruct (v_pledge w o v Hs) as [V _]. apply vw_split in V. destruct V as [E _]. rewrite E. exact Hs.
Qed.

Lemma xseq_keeps_init : forall l w o, Forall (chain_op o) l -> c_stage (xget_c w o) = S_init ->
  c_stage (xget_c (fst (xseq w l)) o) = S_init.
Proof.
  induction l as [|x l IH]; intros w o Hf Hs; [exact Hs|].
  inversion Hf; subst. rewrite xseq_cons.
  pose proof (chain_op_keeps_init w o x H1 Hs) as H.
  destruct (fst (snd (xstep w x))); [apply IH; assumption | exact H].
Qed.

Definition init_chain (o : bool) (y : yop) : option (list xop) :=
  match y with
  | YInit o' level => if Bool.eqb o o' then Some [XB (OCRefCDict o 0); set_level o level] else None
  | YInitSrc o' level pss => if Bool.eqb o o' then Some [XB (OCRefCDict o 0); set_level o level; XPledge o (pss0 pss)] else None
  | YInitDict o' k level => if Bool.eqb o o' then Some [set_level o level; XB (OCLoad o k)] else None
  | YInitCDict o' k => if Bool.eqb o o' then Some [XB (OCRefCDict o k)] else None
  | YResetCS o' pss => if Bool.eqb o o' then Some [XPledge o (pss0 pss)] else None
  | _ => None
  end.

(* in ANY stage - also in the middle of a frame - these calls are not refused for a stage reason: they begin with a session
   reset, and leave the context in the init stage *)
Lemma init_chain_leaves_init_stage_l : forall w o y l, init_chain o y = Some l ->
  fst (ystep w y) = fst (xseq w (reset_session o :: l)) /\ c_stage (xget_c (fst (ystep w y)) o) = S_init.
Proof.
  intros w o y l Hy.
  assert (E : fst (ystep w y) = fst (xseq w (reset_session o :: l))).
  { destruct y; cbn [init_chain] in Hy; try discriminate Hy;
      destruct (Bool.eqb_spec o o0) as [<-|]; try discriminate Hy; injection Hy as <-; cbn [ystep];
      match goal with |- context [xseq ?w ?l] => destruct (xseq w l) end; reflexivity. }
  split; [exact E|]. rewrite E. rewrite xseq_cons. destruct (v_reset w o) as [V R]. rewrite R.
  apply vw_split in V. destruct V as [Ec _].
  apply xseq_keeps_init; [|rewrite Ec; reflexivity].
  destruct y; cbn [init_chain] in Hy; try discriminate Hy;
    destruct (Bool.eqb o o0); try discriminate Hy; injection Hy as <-; repeat constructor.
Qed.

(* ------------------------------------------------------------------ ZSTD_resetCStream, ZSTD_initCStream_usingCDict_advanced *)
(* ZSTD_resetCStream(pss): in every stage, parameters and dictionary kept, init stage, pledge pss with 0 = unknown *)
Lemma reset_cstream_exact_l : forall w o pss,
  let c := xget_c w o in
  vw (fst (ystep w (YResetCS o pss))) o = (mkC (c_params c) S_init (c_dict c) (c_static c), u64 (pss0 pss + 1))
  /\ fst (snd (ystep w (YResetCS o pss))) = Ok.
Proof.
  intros w o pss c. cbn [ystep].
  destruct (v_reset w o) as [V1 R1]. rewrite xseq_cons, R1.
  set (w1 := fst (xstep w (reset_session o))) in *.
  apply vw_split in V1. destruct V1 as [E1 P1].
  assert (S1 : c_stage (xget_c w1 o) = S_init) by (rewrite E1; reflexivity).
  destruct (v_pledge w1 o (pss0 pss) S1) as [V2 R2]. rewrite xseq_cons, R2. cbn [xseq fst snd].
  split; [|reflexivity]. rewrite V2, E1. reflexivity.
Qed.

Lemma pss0_unknown : u64 (pss0 0 + 1) = 0.
Proof. vm_compute. reflexivity. Qed.

(* ZSTD_initCStream_usingCDict_advanced: the three frame flags are stored as given (no normalisation, no bound check), every
   other parameter is kept, the CDict replaces whatever was attached, the pledge is taken as given (0 = an empty source) *)
Lemma init_cdict_advanced_exact_l : forall w o k fp pss,
  let c := xget_c w o in
  vw (fst (ystep w (YInitCDictAdv o k fp pss))) o
    = (mkC (store_fparams (c_params c) fp) S_init (if k =? 0 then CD_none else CD_cdict) (c_static c), u64 (pss + 1))
  /\ fst (snd (ystep w (YInitCDictAdv o k fp pss))) = Ok.
Proof.
  intros w o k fp pss c. cbn [ystep].
  destruct (v_reset w o) as [V1 R1]. rewrite xseq_cons, R1.
  set (w1 := fst (xstep w (reset_session o))) in *.
  apply vw_split in V1. destruct V1 as [E1 P1].
  assert (S1 : c_stage (xget_c w1 o) = S_init) by (rewrite E1; reflexivity).
  destruct (v_pledge w1 o pss S1) as [V2 R2]. rewrite xseq_cons, R2. cbn [xseq].
  set (w2 := fst (xstep w1 (XPledge o pss))) in *.
  apply vw_split in V2. destruct V2 as [E2 P2].
  set (w3 := xput_params w2 o (store_fparams (c_params (get_c (xw_base w2) o)) fp)).
  pose proof (v_put_params w2 o (store_fparams (c_params (get_c (xw_base w2) o)) fp)) as V3. cbn zeta in V3. fold w3 in V3.
  apply vw_split in V3. destruct V3 as [E3 P3].
  assert (S3 : c_stage (xget_c w3 o) = S_init) by (rewrite E3; cbn; rewrite E2; exact S1).
  destruct (v_refcdict w3 o k S3) as [V4 R4].
  destruct (xstep w3 (XB (OCRefCDict o k))) as [w4 [r4 vals]] eqn:E4. cbn [fst snd] in V4, R4. subst r4. cbn [fst snd].
  split; [|reflexivity]. rewrite V4. unfold vw. cbn [snd]. rewrite P3. unfold vw. cbn [snd]. rewrite P2, E3.
  fold (xget_c w2 o). rewrite E2, E1. reflexivity.
Qed.
