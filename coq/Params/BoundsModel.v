(* C16 - parameter tables: the parameter enumerations of zstd.h, their ids and their advertised bounds.
   Everything numeric comes from ZV.Gen.Gen_Bounds, which harness/dump_c.c regenerates from the CURRENT
   /repo headers/sources on every run (ids = enum values, bounds = what ZSTD_cParam_getBounds /
   ZSTD_dParam_getBounds return).  No proofs in this file. *)
From Coq Require Import ZArith List Bool.
From ZV.Gen Require Import Gen_Bounds.
Import ListNotations.
Local Open Scope Z_scope.

(* ---- compression parameters: one constructor per case of ZSTD_cParam_getBounds ---- *)
Inductive cparam : Set :=
| C_compressionLevel | C_windowLog | C_hashLog | C_chainLog | C_searchLog | C_minMatch | C_targetLength | C_strategy
| C_targetCBlockSize
| C_enableLongDistanceMatching | C_ldmHashLog | C_ldmMinMatch | C_ldmBucketSizeLog | C_ldmHashRateLog
| C_contentSizeFlag | C_checksumFlag | C_dictIDFlag
| C_nbWorkers | C_jobSize | C_overlapLog
| C_rsyncable | C_format | C_forceMaxWindow | C_forceAttachDict | C_literalCompressionMode
| C_srcSizeHint | C_enableDedicatedDictSearch | C_stableInBuffer | C_stableOutBuffer
| C_blockDelimiters | C_validateSequences | C_useBlockSplitter | C_useRowMatchFinder
| C_deterministicRefPrefix | C_prefetchCDictTables | C_enableSeqProducerFallback | C_maxBlockSize
| C_searchForExternalRepcodes.

Definition all_cparams : list cparam :=
  [ C_compressionLevel; C_windowLog; C_hashLog; C_chainLog; C_searchLog; C_minMatch; C_targetLength; C_strategy;
    C_targetCBlockSize;
    C_enableLongDistanceMatching; C_ldmHashLog; C_ldmMinMatch; C_ldmBucketSizeLog; C_ldmHashRateLog;
    C_contentSizeFlag; C_checksumFlag; C_dictIDFlag;
    C_nbWorkers; C_jobSize; C_overlapLog;
    C_rsyncable; C_format; C_forceMaxWindow; C_forceAttachDict; C_literalCompressionMode;
    C_srcSizeHint; C_enableDedicatedDictSearch; C_stableInBuffer; C_stableOutBuffer;
    C_blockDelimiters; C_validateSequences; C_useBlockSplitter; C_useRowMatchFinder;
    C_deterministicRefPrefix; C_prefetchCDictTables; C_enableSeqProducerFallback; C_maxBlockSize;
    C_searchForExternalRepcodes ].

(* position in all_cparams; used for the boolean equality *)
Definition cparam_idx (p : cparam) : positive :=
  match p with
  | C_compressionLevel => 1 | C_windowLog => 2 | C_hashLog => 3 | C_chainLog => 4 | C_searchLog => 5
  | C_minMatch => 6 | C_targetLength => 7 | C_strategy => 8 | C_targetCBlockSize => 9
  | C_enableLongDistanceMatching => 10 | C_ldmHashLog => 11 | C_ldmMinMatch => 12 | C_ldmBucketSizeLog => 13
  | C_ldmHashRateLog => 14 | C_contentSizeFlag => 15 | C_checksumFlag => 16 | C_dictIDFlag => 17
  | C_nbWorkers => 18 | C_jobSize => 19 | C_overlapLog => 20 | C_rsyncable => 21 | C_format => 22
  | C_forceMaxWindow => 23 | C_forceAttachDict => 24 | C_literalCompressionMode => 25 | C_srcSizeHint => 26
  | C_enableDedicatedDictSearch => 27 | C_stableInBuffer => 28 | C_stableOutBuffer => 29
  | C_blockDelimiters => 30 | C_validateSequences => 31 | C_useBlockSplitter => 32 | C_useRowMatchFinder => 33
  | C_deterministicRefPrefix => 34 | C_prefetchCDictTables => 35 | C_enableSeqProducerFallback => 36
  | C_maxBlockSize => 37 | C_searchForExternalRepcodes => 38
  end%positive.

Definition cparam_eqb (p q : cparam) : bool := Pos.eqb (cparam_idx p) (cparam_idx q).

(* enum value of the parameter in the current zstd.h *)
Definition cparam_id (p : cparam) : Z :=
  match p with
  | C_compressionLevel => z_ZSTD_c_compressionLevel | C_windowLog => z_ZSTD_c_windowLog | C_hashLog => z_ZSTD_c_hashLog
  | C_chainLog => z_ZSTD_c_chainLog | C_searchLog => z_ZSTD_c_searchLog | C_minMatch => z_ZSTD_c_minMatch
  | C_targetLength => z_ZSTD_c_targetLength | C_strategy => z_ZSTD_c_strategy | C_targetCBlockSize => z_ZSTD_c_targetCBlockSize
  | C_enableLongDistanceMatching => z_ZSTD_c_enableLongDistanceMatching | C_ldmHashLog => z_ZSTD_c_ldmHashLog
  | C_ldmMinMatch => z_ZSTD_c_ldmMinMatch | C_ldmBucketSizeLog => z_ZSTD_c_ldmBucketSizeLog
  | C_ldmHashRateLog => z_ZSTD_c_ldmHashRateLog | C_contentSizeFlag => z_ZSTD_c_contentSizeFlag
  | C_checksumFlag => z_ZSTD_c_checksumFlag | C_dictIDFlag => z_ZSTD_c_dictIDFlag | C_nbWorkers => z_ZSTD_c_nbWorkers
  | C_jobSize => z_ZSTD_c_jobSize | C_overlapLog => z_ZSTD_c_overlapLog | C_rsyncable => z_ZSTD_c_rsyncable
  | C_format => z_ZSTD_c_format | C_forceMaxWindow => z_ZSTD_c_forceMaxWindow | C_forceAttachDict => z_ZSTD_c_forceAttachDict
  | C_literalCompressionMode => z_ZSTD_c_literalCompressionMode | C_srcSizeHint => z_ZSTD_c_srcSizeHint
  | C_enableDedicatedDictSearch => z_ZSTD_c_enableDedicatedDictSearch | C_stableInBuffer => z_ZSTD_c_stableInBuffer
  | C_stableOutBuffer => z_ZSTD_c_stableOutBuffer | C_blockDelimiters => z_ZSTD_c_blockDelimiters
  | C_validateSequences => z_ZSTD_c_validateSequences | C_useBlockSplitter => z_ZSTD_c_useBlockSplitter
  | C_useRowMatchFinder => z_ZSTD_c_useRowMatchFinder | C_deterministicRefPrefix => z_ZSTD_c_deterministicRefPrefix
  | C_prefetchCDictTables => z_ZSTD_c_prefetchCDictTables | C_enableSeqProducerFallback => z_ZSTD_c_enableSeqProducerFallback
  | C_maxBlockSize => z_ZSTD_c_maxBlockSize | C_searchForExternalRepcodes => z_ZSTD_c_searchForExternalRepcodes
  end.

Fixpoint find_cparam (id : Z) (l : list cparam) : option cparam :=
  match l with
  | [] => None
  | p :: t => if Z.eqb (cparam_id p) id then Some p else find_cparam id t
  end.

(* the `switch(param)` of the C code: a known enum value or `default:` *)
Definition cparam_of_id (id : Z) : option cparam := find_cparam id all_cparams.

(* ---- decompression parameters ---- *)
Inductive dparam : Set :=
| D_windowLogMax | D_format | D_stableOutBuffer | D_forceIgnoreChecksum | D_refMultipleDDicts
| D_disableHuffmanAssembly | D_maxBlockSize.

Definition all_dparams : list dparam :=
  [ D_windowLogMax; D_format; D_stableOutBuffer; D_forceIgnoreChecksum; D_refMultipleDDicts;
    D_disableHuffmanAssembly; D_maxBlockSize ].

Definition dparam_id (p : dparam) : Z :=
  match p with
  | D_windowLogMax => z_ZSTD_d_windowLogMax | D_format => z_ZSTD_d_format | D_stableOutBuffer => z_ZSTD_d_stableOutBuffer
  | D_forceIgnoreChecksum => z_ZSTD_d_forceIgnoreChecksum | D_refMultipleDDicts => z_ZSTD_d_refMultipleDDicts
  | D_disableHuffmanAssembly => z_ZSTD_d_disableHuffmanAssembly | D_maxBlockSize => z_ZSTD_d_maxBlockSize
  end.

Fixpoint find_dparam (id : Z) (l : list dparam) : option dparam :=
  match l with
  | [] => None
  | p :: t => if Z.eqb (dparam_id p) id then Some p else find_dparam id t
  end.

Definition dparam_of_id (id : Z) : option dparam := find_dparam id all_dparams.

(* ---- advertised bounds: rows (id, lowerBound, upperBound) of the regenerated table ---- *)
Fixpoint lookup3 (id : Z) (l : list (Z * Z * Z)) : option (Z * Z) :=
  match l with
  | [] => None
  | (i, lo, hi) :: t => if Z.eqb i id then Some (lo, hi) else lookup3 id t
  end.

(* ZSTD_cParam_getBounds(p) / ZSTD_dParam_getBounds(p); None = bounds.error set *)
Definition cbounds (p : cparam) : option (Z * Z) := lookup3 (cparam_id p) cparam_bounds.
Definition dbounds (p : dparam) : option (Z * Z) := lookup3 (dparam_id p) dparam_bounds.

(* getBounds on a raw id (any int) *)
Definition cbounds_id (id : Z) : option (Z * Z) :=
  match cparam_of_id id with Some p => cbounds p | None => None end.
Definition dbounds_id (id : Z) : option (Z * Z) :=
  match dparam_of_id id with Some p => dbounds p | None => None end.

(* ZSTD_cParam_withinBounds / ZSTD_dParam_withinBounds *)
Definition cwithin (p : cparam) (v : Z) : bool :=
  match cbounds p with Some (lo, hi) => (lo <=? v) && (v <=? hi) | None => false end.
Definition dwithin (p : dparam) (v : Z) : bool :=
  match dbounds p with Some (lo, hi) => (lo <=? v) && (v <=? hi) | None => false end.

(* ZSTD_cParam_clampBounds: None = the bounds carry an error (forwarded) *)
Definition cclamp (p : cparam) (v : Z) : option Z :=
  match cbounds p with
  | Some (lo, hi) =>
      let v1 := if v <? lo then lo else v in
      let v2 := if v1 >? hi then hi else v1 in
      Some v2
  | None => None
  end.

(* the bounds the headers document through macros (zstd.h: "Must be clamped between X_MIN and X_MAX") *)
Definition cbounds_documented (p : cparam) : option (Z * Z) :=
  match p with
  | C_compressionLevel => Some (z_minCLevel, z_ZSTD_MAX_CLEVEL)
  | C_windowLog => Some (z_ZSTD_WINDOWLOG_MIN, z_ZSTD_WINDOWLOG_MAX)
  | C_hashLog => Some (z_ZSTD_HASHLOG_MIN, z_ZSTD_HASHLOG_MAX)
  | C_chainLog => Some (z_ZSTD_CHAINLOG_MIN, z_ZSTD_CHAINLOG_MAX)
  | C_searchLog => Some (z_ZSTD_SEARCHLOG_MIN, z_ZSTD_SEARCHLOG_MAX)
  | C_minMatch => Some (z_ZSTD_MINMATCH_MIN, z_ZSTD_MINMATCH_MAX)
  | C_targetLength => Some (z_ZSTD_TARGETLENGTH_MIN, z_ZSTD_TARGETLENGTH_MAX)
  | C_strategy => Some (z_ZSTD_STRATEGY_MIN, z_ZSTD_STRATEGY_MAX)
  | C_targetCBlockSize => Some (z_ZSTD_TARGETCBLOCKSIZE_MIN, z_ZSTD_TARGETCBLOCKSIZE_MAX)
  | C_ldmHashLog => Some (z_ZSTD_LDM_HASHLOG_MIN, z_ZSTD_LDM_HASHLOG_MAX)
  | C_ldmMinMatch => Some (z_ZSTD_LDM_MINMATCH_MIN, z_ZSTD_LDM_MINMATCH_MAX)
  | C_ldmBucketSizeLog => Some (z_ZSTD_LDM_BUCKETSIZELOG_MIN, z_ZSTD_LDM_BUCKETSIZELOG_MAX)
  | C_ldmHashRateLog => Some (z_ZSTD_LDM_HASHRATELOG_MIN, z_ZSTD_LDM_HASHRATELOG_MAX)
  | C_nbWorkers => Some (0, z_ZSTDMT_NBWORKERS_MAX)
  | C_jobSize => Some (0, z_ZSTDMT_JOBSIZE_MAX)
  | C_overlapLog => Some (z_ZSTD_OVERLAPLOG_MIN, z_ZSTD_OVERLAPLOG_MAX)
  | C_srcSizeHint => Some (z_ZSTD_SRCSIZEHINT_MIN, z_ZSTD_SRCSIZEHINT_MAX)
  | C_maxBlockSize => Some (z_ZSTD_BLOCKSIZE_MAX_MIN, z_ZSTD_BLOCKSIZE_MAX)
  | C_contentSizeFlag | C_checksumFlag | C_dictIDFlag | C_rsyncable | C_forceMaxWindow
  | C_enableDedicatedDictSearch | C_validateSequences | C_deterministicRefPrefix
  | C_enableSeqProducerFallback | C_format | C_stableInBuffer | C_stableOutBuffer | C_blockDelimiters => Some (0, 1)
  | C_enableLongDistanceMatching | C_literalCompressionMode | C_useBlockSplitter | C_useRowMatchFinder
  | C_prefetchCDictTables | C_searchForExternalRepcodes => Some (z_ZSTD_ps_auto, z_ZSTD_ps_disable)
  | C_forceAttachDict => Some (0, 3)
  end.

Definition dbounds_documented (p : dparam) : option (Z * Z) :=
  match p with
  | D_windowLogMax => Some (z_ZSTD_WINDOWLOG_ABSOLUTEMIN, z_ZSTD_WINDOWLOG_MAX)
  | D_maxBlockSize => Some (z_ZSTD_BLOCKSIZE_MAX_MIN, z_ZSTD_BLOCKSIZE_MAX)
  | D_format | D_stableOutBuffer | D_forceIgnoreChecksum | D_refMultipleDDicts | D_disableHuffmanAssembly => Some (0, 1)
  end.
