(* C16 round 2 - the session state a compression context keeps next to its requested parameters:
     pledgedSrcSizePlusOne   (ZSTD_CCtx_setPledgedSrcSize, ZSTD_CCtx_reset, ZSTD_CCtx_init_compressStream2, ZSTD_compressEnd_public)
     cParamsChanged          (ZSTD_CCtx_setParameter mid-frame, consumed by the multi-threaded branch of ZSTD_compressStream2)
     appliedParams           (ZSTD_CCtx_init_compressStream2 + ZSTD_resetCCtx_internal; ZSTD_compress_usingDict for the simple API),
                             seen cell by cell through ZSTD_CCtxParams_getParameter(&cctx->appliedParams, ...)
     mtctx->params           (compression level + cParams the next jobs of a multi-threaded frame use:
                             ZSTDMT_initCStream_internal, ZSTDMT_updateCParams_whileCompressing)
     which test dictionary / prefix is attached, and what the frame being produced announces and uses.
   The requested parameters, the stage and the kind of attached dictionary stay in ParamModel.cctx; every call first goes
   through ParamModel.step, then updates the session.  No proofs in this file. *)
From Coq Require Import ZArith List Bool.
From ZV.Gen Require Import Gen_Bounds.
From ZV.Params Require Import BoundsModel CParamsAdjust ParamModel.
Import ListNotations.
Local Open Scope Z_scope.

(* sizes used by the correspondence harness (harness/c16_params.c) *)
Definition sz_chunk : Z := 100.      (* bytes fed by one `cbegin` *)
Definition sz_oneshot : Z := 300.    (* ZSTD_compress2 / ZSTD_compressCCtx input *)
Definition sz_fxwin : Z := 5000.     (* `cfxwin` input *)
Definition sz_prefix : Z := 1000.    (* ZSTD_CCtx_refPrefix size *)
Definition lvl_cdict : Z := 1.       (* ZSTD_createCDict(.., 1): cdict->compressionLevel *)
Definition lvl_simple : Z := 1.      (* ZSTD_compressCCtx(.., 1) *)

Record mtp : Set := mkMT { mt_level : Z; mt_cp : cpar }.
(* what a frame announces / needs: content size in the header (-1: none), dictionary named in the header (0 none, 1, 2),
   dictionary it was compressed with (0 none, 1 / 2 dictionary, 3 / 4 prefix 1 / 2) *)
Record finfo : Set := mkFI { fi_fcs : Z; fi_did : Z; fi_use : Z }.
Definition astore : Type := cparam -> option Z.

Record sess : Type := mkS {
  s_pledge : Z;               (* pledgedSrcSizePlusOne (U64): 0 = ZSTD_CONTENTSIZE_UNKNOWN *)
  s_changed : bool;           (* cParamsChanged *)
  s_dk : Z;                   (* which test dictionary / prefix is attached (0 when none) *)
  s_fed : Z;                  (* bytes consumed by the frame in progress *)
  s_applied : astore;         (* appliedParams; None = a cell this model does not determine (frames using a CDict) *)
  s_mt : option mtp;          (* mtctx->params once an mtctx exists *)
  s_cur : finfo;              (* frame in progress *)
  s_last : option finfo }.    (* last frame completed by this context *)

Definition sess_new : sess :=
  mkS 0 false 0 0 (fun q => Some (cparams_zero q)) None (mkFI (-1) 0 0) None.

Definition set_pledge (x : sess) (v : Z) : sess := mkS v (s_changed x) (s_dk x) (s_fed x) (s_applied x) (s_mt x) (s_cur x) (s_last x).
Definition set_changed (x : sess) (b : bool) : sess := mkS (s_pledge x) b (s_dk x) (s_fed x) (s_applied x) (s_mt x) (s_cur x) (s_last x).
Definition set_dk (x : sess) (k : Z) : sess := mkS (s_pledge x) (s_changed x) k (s_fed x) (s_applied x) (s_mt x) (s_cur x) (s_last x).
Definition set_fed (x : sess) (n : Z) : sess := mkS (s_pledge x) (s_changed x) (s_dk x) n (s_applied x) (s_mt x) (s_cur x) (s_last x).
Definition set_mt (x : sess) (m : option mtp) : sess := mkS (s_pledge x) (s_changed x) (s_dk x) (s_fed x) (s_applied x) m (s_cur x) (s_last x).
Definition set_last (x : sess) (f : option finfo) : sess := mkS (s_pledge x) (s_changed x) (s_dk x) (s_fed x) (s_applied x) (s_mt x) (s_cur x) f.

(* ------------------------------------------------------------------ resolution of the requested parameters at frame start *)
Definition store_cpar (s : cstore) : cpar :=
  mkCP (s C_windowLog) (s C_chainLog) (s C_hashLog) (s C_searchLog) (s C_minMatch) (s C_targetLength) (s C_strategy).

(* ZSTD_overrideCParams: a non-zero requested value wins *)
Definition ov (base v : Z) : Z := if Z.eqb v 0 then base else v.
Definition override_cpar (b o : cpar) : cpar :=
  mkCP (ov (wlog b) (wlog o)) (ov (clog b) (clog o)) (ov (hlog b) (hlog o)) (ov (slog b) (slog o))
       (ov (mmatch b) (mmatch o)) (ov (tlen b) (tlen o)) (ov (strat b) (strat o)).

(* ZSTD_getCParamsFromCCtxParams(params, srcSizeHint, dictSize, mode); [level] = params->compressionLevel *)
Definition cparams_from_store (s : cstore) (level srcHint dictSize mode : Z) : cpar :=
  let src := if Z.eqb srcHint z_ZSTD_CONTENTSIZE_UNKNOWN && (0 <? s C_srcSizeHint) then s C_srcSizeHint else srcHint in
  let cp0 := get_cparams level src dictSize mode in
  let cp1 := if Z.eqb (s C_enableLongDistanceMatching) z_ZSTD_ps_enable
             then mkCP z_ZSTD_LDM_DEFAULT_WINDOW_LOG (clog cp0) (hlog cp0) (slog cp0) (mmatch cp0) (tlen cp0) (strat cp0) else cp0 in
  adjust_cparams (override_cpar cp1 (store_cpar s)) src dictSize mode (s C_useRowMatchFinder).

(* ZSTD_ldm_adjustParameters on (hashLog, minMatch, bucketSizeLog, hashRateLog) for a window log *)
Definition ldm_hash (wl hl : Z) : Z := if Z.eqb hl 0 then Z.max z_ZSTD_HASHLOG_MIN (wl - z_LDM_HASH_RLOG) else hl.
Definition ldm_minmatch (mm : Z) : Z := if Z.eqb mm 0 then z_LDM_MIN_MATCH_LENGTH else mm.
Definition ldm_bucket (wl hl b : Z) : Z := Z.min (if Z.eqb b 0 then z_LDM_BUCKET_SIZE_LOG else b) (ldm_hash wl hl).
Definition ldm_rate (wl hl r : Z) : Z :=
  if Z.eqb r 0 then (if wl <? ldm_hash wl hl then 0 else wl - ldm_hash wl hl) else r.

Definition uses_cdict (d : cdict_state) : bool := match d with CD_cdict | CD_local _ => true | _ => false end.
Definition known_switch (mode : Z) (cdict : bool) (resolved : Z) : option Z :=
  if cdict then (if Z.eqb mode z_ZSTD_ps_auto then None else Some mode) else Some resolved.

(* what ZSTD_CCtx_init_compressStream2 (+ ZSTD_resetCCtx_internal on the single-thread path) stores into appliedParams
   for a context [c] whose pledge is [pledge] (after the ZSTD_e_end override); [stable]: ZSTD_compress2 forces stable buffers *)
Definition frame_resolve (c : cctx) (pledge : Z) (stable : bool) : astore :=
  let s := c_params c in
  let src := u64 (pledge - 1) in
  let cd := uses_cdict (c_dict c) in
  let dictSize := match c_dict c with CD_prefix => sz_prefix | _ => 0 end in
  let level := match c_dict c with CD_cdict => lvl_cdict | _ => s C_compressionLevel end in
  let nbw := if src <=? z_ZSTDMT_JOBSIZE_MIN then 0 else s C_nbWorkers in
  let st := Z.eqb nbw 0 in
  let cp := cparams_from_store s level src dictSize z_ZSTD_cpm_noAttachDict in
  let ldm := resolve_ldm (s C_enableLongDistanceMatching) cp in
  let ldm_on := st && Z.eqb ldm z_ZSTD_ps_enable in
  let ldm_known := negb cd || negb (Z.eqb (s C_enableLongDistanceMatching) z_ZSTD_ps_auto
                                    || Z.eqb (s C_enableLongDistanceMatching) z_ZSTD_ps_enable) in
  let cpc (v : Z) : option Z := if cd then None else Some v in
  let ldmc (adj raw : Z) : option Z := if ldm_known then Some (if ldm_on && negb cd then adj else raw) else None in
  fun q =>
    match q with
    | C_compressionLevel => Some level
    | C_nbWorkers => Some nbw
    | C_windowLog => cpc (wlog cp) | C_chainLog => cpc (clog cp) | C_hashLog => cpc (hlog cp) | C_searchLog => cpc (slog cp)
    | C_minMatch => cpc (mmatch cp) | C_targetLength => cpc (tlen cp) | C_strategy => cpc (strat cp)
    | C_useBlockSplitter => known_switch (s q) cd (resolve_split (s q) cp)
    | C_useRowMatchFinder => cpc (resolve_row (s q) cp)      (* taken from the CDict when one is used *)
    | C_enableLongDistanceMatching => known_switch (s q) cd ldm
    | C_ldmHashLog => ldmc (ldm_hash (wlog cp) (s C_ldmHashLog)) (s q)
    | C_ldmMinMatch => ldmc (ldm_minmatch (s C_ldmMinMatch)) (s q)
    | C_ldmBucketSizeLog => ldmc (ldm_bucket (wlog cp) (s C_ldmHashLog) (s C_ldmBucketSizeLog)) (s q)
    | C_ldmHashRateLog => ldmc (ldm_rate (wlog cp) (s C_ldmHashLog) (s C_ldmHashRateLog)) (s q)
    | C_maxBlockSize => Some (resolve_maxblock (s q))
    | C_searchForExternalRepcodes => Some (resolve_erc (s q) level)
    | C_contentSizeFlag => Some (if st && Z.eqb pledge 0 then 0 else s q)
    | C_stableInBuffer | C_stableOutBuffer => Some (if stable then 1 else s q)
    | _ => Some (s q)
    end.

(* the cells of appliedParams that are plain copies of the requested ones, whatever the sizes and dictionaries *)
Definition copied_cell (p : cparam) : bool :=
  match p with
  | C_format | C_checksumFlag | C_dictIDFlag | C_forceMaxWindow | C_forceAttachDict | C_literalCompressionMode
  | C_jobSize | C_overlapLog | C_rsyncable | C_enableDedicatedDictSearch | C_targetCBlockSize | C_srcSizeHint
  | C_blockDelimiters | C_validateSequences | C_deterministicRefPrefix | C_prefetchCDictTables
  | C_enableSeqProducerFallback => true
  | _ => false
  end.

(* appliedParams after ZSTD_compressCCtx(level 1, 300 bytes): ZSTD_CCtxParams_init_internal on the level's parameters *)
Definition simple_applied : astore :=
  let cp := get_cparams lvl_simple sz_oneshot 0 z_ZSTD_cpm_noAttachDict in
  fun q => Some (cparams_init_internal cp (mkFP 1 0 0) lvl_simple q).

(* ------------------------------------------------------------------ frame start / multi-threaded update / frame end *)
Definition mt_frame (x : sess) : bool := match s_applied x C_nbWorkers with Some n => 0 <? n | None => false end.

(* [kf]: before fix 52f5276 cParamsChanged survived the start of a frame (finding F33) *)
Definition frame_start (kf : bool) (c : cctx) (x : sess) (override : option Z) (stable : bool) (fed : Z) : sess :=
  let pledge := match override with Some n => u64 (n + 1) | None => s_pledge x end in
  let a := frame_resolve c pledge stable in
  let s := c_params c in
  let use := match c_dict c with CD_none => 0 | CD_prefix => 2 + s_dk x | _ => s_dk x end in
  (* since fix 2f41a3c ZSTD_loadZstdDictionary always returns the stored ID (before, a dictionary digested while dictIDFlag
     was 0 kept ID 0 for ever; rounds 2 / 3a carried a field s_lid for that history dependence): the header writer alone
     decides, frame by frame, from dictIDFlag *)
  let did := if dict_has_id (c_dict c) && negb (Z.eqb (s C_dictIDFlag) 0) then s_dk x else 0 in
  let fcs := if negb (Z.eqb (s C_contentSizeFlag) 0) && negb (Z.eqb pledge 0) then pledge - 1 else -1 in
  let level := match c_dict c with CD_cdict => lvl_cdict | _ => s C_compressionLevel end in
  let dictSize := match c_dict c with CD_prefix => sz_prefix | _ => 0 end in
  let mt := match a C_nbWorkers with
            | Some n => if 0 <? n then Some (mkMT level (cparams_from_store s level (u64 (pledge - 1)) dictSize z_ZSTD_cpm_noAttachDict))
                        else s_mt x
            | None => s_mt x
            end in
  mkS pledge (kf && s_changed x) (match c_dict c with CD_prefix | CD_none => 0 | _ => s_dk x end) fed a mt (mkFI fcs did use) (s_last x).

(* `if (cctx->cParamsChanged) ZSTDMT_updateCParams_whileCompressing(mtctx, &requestedParams)`: level and cParams are
   re-derived from the requested parameters for an unknown size and no dictionary; the window log is kept *)
Definition mt_update (c : cctx) (x : sess) : sess :=
  if mt_frame x && s_changed x then
    match s_mt x with
    | Some m =>
        let s := c_params c in
        let cp := cparams_from_store s (s C_compressionLevel) z_ZSTD_CONTENTSIZE_UNKNOWN 0 z_ZSTD_cpm_noAttachDict in
        set_mt (set_changed x false)
               (Some (mkMT (s C_compressionLevel) (mkCP (wlog (mt_cp m)) (clog cp) (hlog cp) (slog cp) (mmatch cp) (tlen cp) (strat cp))))
    | None => x
    end
  else x.

Definition frame_done (x : sess) : sess :=
  mkS 0 (s_changed x) (s_dk x) 0 (s_applied x) (s_mt x) (s_cur x) (Some (s_cur x)).

(* header line of a frame completed now: checksum, content size present, dictID present, magicless *)
Definition done_hdr (c : cctx) (f : finfo) : list Z :=
  let s := c_params c in
  [ hdr_checksum_bit false (s C_checksumFlag); (if fi_fcs f <? 0 then 0 else 1); (if Z.eqb (fi_did f) 0 then 0 else 1); s C_format ].

Definition is_auth_id (id : Z) : bool :=
  match cparam_of_id id with Some p => is_update_authorized p | None => false end.

Definition is_session_dir (dir : Z) : bool := Z.eqb dir z_ZSTD_reset_session_only || Z.eqb dir z_ZSTD_reset_session_and_parameters.

(* the attached dictionary index follows the base state: gone when the base says "no dictionary" *)
Definition dk_after (c' : cctx) (r : result) (k : Z) (x : sess) : sess :=
  match c_dict c' with
  | CD_none => set_dk x 0
  | _ => match r with Ok => set_dk x k | Err _ => x end
  end.

(* ------------------------------------------------------------------ the extended world *)
Record xworld : Type := mkXW { xw_base : world; xw_s0 : sess; xw_s1 : sess }.
Definition xworld_new : xworld := mkXW world_new sess_new sess_new.

Inductive xop : Type :=
| XB (x : op)                      (* a call of the base model, with its session effects *)
| XPledge (o : bool) (v : Z)       (* ZSTD_CCtx_setPledgedSrcSize *)
| XFxWin (o : bool)                (* ZSTD_compress2 on 5000 bytes *)
| XXVec (o : bool) | XAVec (o : bool) | XMVec (o : bool) | XUse (o : bool).

Definition get_s (w : xworld) (o : bool) : sess := if o then xw_s1 w else xw_s0 w.
Definition put_s (w : xworld) (o : bool) (x : sess) : xworld :=
  if o then mkXW (xw_base w) (xw_s0 w) x else mkXW (xw_base w) x (xw_s1 w).
Definition put_base (w : xworld) (b : world) : xworld := mkXW b (xw_s0 w) (xw_s1 w).

(* session effect of a base call on compression context [o]: [c] before, [c'] after, [r] its result.
   [leak]: the code before fix db660bb left srcSize+1 pledged after a single-call compression (finding F27).
   [eager]: before fix 28762e5 ZSTD_CCtx_setParameter raised cParamsChanged before the value was checked, i.e. also for
   a refused call (finding F31).  [kf]: see frame_start. *)
Definition is_ok (r : result) : bool := match r with Ok => true | Err _ => false end.
Definition sess_after (leak eager kf : bool) (x : sess) (c c' : cctx) (r : result) (b : op) : sess :=
  match b with
  | OCSet _ id _ =>
      if negb (stage_is_init (c_stage c)) && is_auth_id id && (eager || is_ok r) then set_changed x true else x
  | OCReset _ dir =>
      let x1 := if is_session_dir dir then set_fed (set_pledge x 0) 0 else x in
      match c_dict c' with CD_none => set_dk x1 0 | _ => x1 end
  | OCBegin _ =>
      if stage_is_init (c_stage c) then mt_update c' (frame_start kf c x None false sz_chunk)
      else mt_update c' (set_fed x (s_fed x + sz_chunk))
  | OCEnd _ =>
      if stage_is_init (c_stage c) then frame_done (mt_update c' (frame_start kf c x (Some 0) false 0))
      else frame_done (mt_update c' x)
  | OCFrame _ => frame_done (frame_start kf c x (Some sz_oneshot) true sz_oneshot)
  | OCFail _ => frame_start kf c x (Some sz_oneshot) true sz_oneshot
  | OCSimple _ =>
      mkS (if leak then sz_oneshot + 1 else 0) (s_changed x) (s_dk x) 0 simple_applied (s_mt x) (s_cur x)
          (Some (mkFI sz_oneshot 0 0))
  | OCLoad _ k | OCRefCDict _ k | OCRefPrefix _ k => dk_after c' r k x
  | _ => x
  end.

(* which compression context a base call works on *)
Definition op_cctx (b : op) : option bool :=
  match b with
  | OCSet o _ _ | OCGet o _ | OCReset o _ | OCBegin o | OCEnd o | OCFrame o | OCFail o | OCBad o | OCSimple o
  | OCLoad o _ | OCRefCDict o _ | OCRefPrefix o _ | OCApply o | OCVec o | OCSetCP o _ | OCSetFP o _ | OCSetP o _ _ => Some o
  | _ => None
  end.

(* ZSTD_compressStream2(ZSTD_e_end) of a frame in progress whose pledge is not met: srcSize_wrong.  The single-thread path
   leaves the context as it is (mid-frame); the multi-threaded path resets the session *)
Definition end_refused (c : cctx) (x : sess) : bool :=
  negb (stage_is_init (c_stage c)) && negb (Z.eqb (s_pledge x) 0) && negb (Z.eqb (s_fed x + 1) (s_pledge x)).

Definition opt_list (f : finfo) : list Z := [fi_fcs f; fi_did f; fi_use f].

Definition is_end (b : op) : bool := match b with OCEnd _ => true | _ => false end.
Definition completes (b : op) : bool := match b with OCEnd _ | OCFrame _ => true | _ => false end.
Definition is_new (b : op) : bool := match b with ONew => true | _ => false end.

(* the refused ZSTD_e_end: nothing of the base call happens; a multi-threaded frame is abandoned by a session reset *)
Definition xrefuse (w : xworld) (o : bool) (c : cctx) (s : sess) : xworld :=
  let s1 := mt_update c s in
  if mt_frame s1
  then put_s (put_base w (put_c (xw_base w) o (mkC (c_params c) S_init (c_dict c) (c_static c)))) o (set_fed (set_pledge s1 0) 0)
  else put_s w o s1.

Definition xstep_gen (leak eager kf : bool) (w : xworld) (x : xop) : xworld * (result * list Z) :=
  match x with
  | XB b =>
      if is_new b then (xworld_new, (Ok, []))
      else
        let '(b', (r, vals)) := step (xw_base w) b in
        match op_cctx b with
        | None => (put_base w b', (r, vals))
        | Some o =>
            let c := get_c (xw_base w) o in
            let s := get_s w o in
            if is_end b && end_refused c s then (xrefuse w o c s, (Err E_other, []))
            else
              let s' := sess_after leak eager kf s c (get_c b' o) r b in
              (put_s (put_base w b') o s', (r, if completes b then done_hdr c (s_cur s') else vals))
        end
  | XPledge o v =>
      let c := get_c (xw_base w) o in
      if stage_is_init (c_stage c) then (put_s w o (set_pledge (get_s w o) (u64 (v + 1))), (Ok, []))
      else (w, (Err E_stage_wrong, []))
  | XFxWin o =>
      let c := get_c (xw_base w) o in
      let '(b', (r, _)) := step (xw_base w) (OCFrame o) in
      let s' := frame_done (frame_start kf c (get_s w o) (Some sz_fxwin) true sz_fxwin) in
      (put_s (put_base w b') o s', (r, done_hdr c (s_cur s')))
  | XXVec o => let s := get_s w o in (w, (Ok, [s_pledge s; b2z (s_changed s); s_dk s]))
  | XAVec o => (w, (Ok, map (fun p => match s_applied (get_s w o) p with Some v => v | None => -999999 end) all_cparams))
  | XMVec o => (w, (Ok, match s_mt (get_s w o) with Some m => mt_level m :: cpar_list (mt_cp m) | None => [] end))
  | XUse o => (w, (Ok, match s_last (get_s w o) with Some f => opt_list f | None => [] end))
  end.

(* the current tree *)
Definition xstep : xworld -> xop -> xworld * (result * list Z) := xstep_gen false false false.
Definition xrun (w : xworld) (ops : list xop) : xworld := fold_left (fun w x => fst (xstep w x)) ops w.

(* cells of the applied vector the model leaves open are printed as this value by XAVec *)
Definition unknown_cell : Z := -999999.
