(* C16 - proofs about the parameter-interface model (ParamModel.v) over the regenerated tables (Gen_Bounds.v). *)
From Coq Require Import ZArith List Bool Lia.
From ZV.Gen Require Import Gen_Bounds.
From ZV.Params Require Import BoundsModel CParamsAdjust ParamModel.
Import ListNotations.
Local Open Scope Z_scope.

(* ------------------------------------------------------------------ parameter enumeration *)
Lemma cparam_idx_inj : forall p q, cparam_idx p = cparam_idx q -> p = q.
Proof. destruct p; destruct q; intro H; try reflexivity; discriminate H. Qed.

Lemma cparam_eqb_eq : forall p q, cparam_eqb p q = true <-> p = q.
Proof.
  intros p q. unfold cparam_eqb. rewrite Pos.eqb_eq. split; [apply cparam_idx_inj | intros ->; reflexivity].
Qed.

Lemma cparam_eqb_refl : forall p, cparam_eqb p p = true.
Proof. intro p. apply cparam_eqb_eq. reflexivity. Qed.

Lemma cparam_eqb_neq : forall p q, p <> q -> cparam_eqb p q = false.
Proof. intros p q H. destruct (cparam_eqb p q) eqn:E; [apply cparam_eqb_eq in E; contradiction | reflexivity]. Qed.

Lemma cupd_same : forall s p v, cupd s p v p = v.
Proof. intros. unfold cupd. rewrite cparam_eqb_refl. reflexivity. Qed.

Lemma cupd_other : forall s p v q, q <> p -> cupd s p v q = s q.
Proof. intros. unfold cupd. rewrite cparam_eqb_neq by assumption. reflexivity. Qed.

Lemma all_cparams_complete : forall p, In p all_cparams.
Proof. destruct p; unfold all_cparams; simpl; tauto. Qed.

Lemma all_dparams_complete : forall p, In p all_dparams.
Proof. destruct p; unfold all_dparams; simpl; tauto. Qed.

(* the enum values of the current zstd.h are pairwise distinct: the switch finds the right case *)
Lemma cparam_of_id_id : forall p, cparam_of_id (cparam_id p) = Some p.
Proof. destruct p; vm_compute; reflexivity. Qed.

Lemma dparam_of_id_id : forall p, dparam_of_id (dparam_id p) = Some p.
Proof. destruct p; vm_compute; reflexivity. Qed.

Lemma find_cparam_some : forall id l p, find_cparam id l = Some p -> cparam_id p = id.
Proof.
  induction l as [|q l IH]; simpl; intros p H; [discriminate|].
  destruct (Z.eqb_spec (cparam_id q) id) as [E|E]; [injection H as <-; exact E | apply IH; exact H].
Qed.

Lemma cparam_of_id_some : forall id p, cparam_of_id id = Some p -> id = cparam_id p.
Proof. intros id p H. symmetry. eapply find_cparam_some. exact H. Qed.

Lemma find_dparam_some : forall id l p, find_dparam id l = Some p -> dparam_id p = id.
Proof.
  induction l as [|q l IH]; simpl; intros p H; [discriminate|].
  destruct (Z.eqb_spec (dparam_id q) id) as [E|E]; [injection H as <-; exact E | apply IH; exact H].
Qed.

Lemma dparam_of_id_some : forall id p, dparam_of_id id = Some p -> id = dparam_id p.
Proof. intros id p H. symmetry. eapply find_dparam_some. exact H. Qed.

(* ------------------------------------------------------------------ vocabulary of the theorems *)
Definition in_cbounds (p : cparam) (v : Z) : Prop := exists lo hi, cbounds p = Some (lo, hi) /\ lo <= v <= hi.
Definition in_dbounds (p : dparam) (v : Z) : Prop := exists lo hi, dbounds p = Some (lo, hi) /\ lo <= v <= hi.

(* parameters for which the special value 0 ("use default") is accepted and stored even when 0 is not within bounds *)
Definition zero_is_default (p : cparam) : bool :=
  match p with
  | C_windowLog | C_hashLog | C_chainLog | C_searchLog | C_minMatch | C_strategy
  | C_ldmHashLog | C_ldmMinMatch | C_ldmBucketSizeLog | C_ldmHashRateLog
  | C_targetCBlockSize | C_srcSizeHint | C_maxBlockSize => true
  | _ => false
  end.

(* documented normal form of an accepted in-bounds value *)
Definition cnorm (p : cparam) (v : Z) : Z :=
  match p with
  | C_compressionLevel => if Z.eqb v 0 then z_ZSTD_CLEVEL_DEFAULT else v
  | C_jobSize => if negb (Z.eqb v 0) && (v <? z_ZSTDMT_JOBSIZE_MIN) then z_ZSTDMT_JOBSIZE_MIN else v
  | _ => v
  end.

(* what a parameter cell may hold *)
Definition cvalue_ok (p : cparam) (v : Z) : Prop := in_cbounds p v \/ (zero_is_default p = true /\ v = 0).

(* what the setter does with a value outside the advertised bounds *)
Inductive oob_policy : Set :=
| P_reject            (* parameter_outOfBound, nothing stored *)
| P_clamp             (* silently clamped into the bounds *)
| P_flag              (* any non-zero value means 1 *)
| P_raise_reject.     (* raised to the minimum when below, rejected when above (targetCBlockSize) *)

Definition cpolicy (p : cparam) : oob_policy :=
  match p with
  | C_compressionLevel | C_nbWorkers | C_jobSize | C_overlapLog | C_rsyncable => P_clamp
  | C_contentSizeFlag | C_checksumFlag | C_dictIDFlag | C_forceMaxWindow | C_enableDedicatedDictSearch => P_flag
  | C_targetCBlockSize => P_raise_reject
  | _ => P_reject
  end.

(* ------------------------------------------------------------------ ZSTD_CCtxParams_setParameter *)
(* what gets stored (None: rejected), read off the model itself *)
Definition cstored (rs p : cparam) (v : Z) : option Z :=
  match cparams_set_gen rs cparams_default p v with
  | (s', Ok) => Some (s' p)
  | (_, Err _) => None
  end.
Definition crej (rs p : cparam) (v : Z) : err :=
  match cparams_set_gen rs cparams_default p v with
  | (_, Err e) => e
  | (_, Ok) => E_other
  end.

Ltac case_ifs :=
  repeat match goal with
         | |- context [if ?c then _ else _] => destruct c
         | |- context [match ?o with Some _ => _ | None => _ end] => destruct o
         end.

Lemma cparams_set_gen_char : forall rs s p v,
  cparams_set_gen rs s p v =
  match cstored rs p v with
  | Some v' => (cupd s p v', Ok)
  | None => (s, Err (crej rs p v))
  end.
Proof.
  intros rs s p v. unfold cstored, crej.
  destruct p; unfold cparams_set_gen, set_checked_nz, set_checked, set_flag, set_clamped;
    case_ifs; rewrite ?cupd_same; reflexivity.
Qed.

Lemma cparams_set_char : forall s p v,
  cparams_set s p v =
  match cstored C_rsyncable p v with
  | Some v' => (cupd s p v', Ok)
  | None => (s, Err (crej C_rsyncable p v))
  end.
Proof. intros. apply cparams_set_gen_char. Qed.

(* computing cstored on a concrete parameter and a symbolic value *)
Ltac bounds_of p :=
  let b := eval vm_compute in (cbounds p) in
  let H := fresh "Hb" in
  assert (H : cbounds p = b) by (vm_compute; reflexivity).

Ltac unfold_set :=
  unfold cstored, crej, cparams_set_gen, set_checked_nz, set_checked, set_flag, set_clamped, cwithin, cclamp, flag, cnorm.

Ltac zcases :=
  repeat match goal with
         | |- context [Z.eqb ?a ?b] => destruct (Z.eqb_spec a b)
         | |- context [Z.leb ?a ?b] => destruct (Z.leb_spec a b)
         | |- context [Z.ltb ?a ?b] => destruct (Z.ltb_spec a b)
         | |- context [Z.gtb ?a ?b] => rewrite (Z.gtb_ltb a b)
         | H : context [Z.eqb ?a ?b] |- _ => destruct (Z.eqb_spec a b)
         | H : context [Z.leb ?a ?b] |- _ => destruct (Z.leb_spec a b)
         | H : context [Z.ltb ?a ?b] |- _ => destruct (Z.ltb_spec a b)
         | H : context [Z.gtb ?a ?b] |- _ => rewrite (Z.gtb_ltb a b) in H
         end.

Ltac consts :=
  unfold z_ZSTD_CLEVEL_DEFAULT, z_ZSTDMT_JOBSIZE_MIN, z_ZSTD_TARGETCBLOCKSIZE_MIN in *.

(* in-bounds values are stored in normal form *)
Lemma cstored_in_bounds : forall p v, in_cbounds p v -> cstored C_rsyncable p v = Some (cnorm p v).
Proof.
  intros p v (lo & hi & Hb & Hv).
  destruct p;
    match type of Hb with cbounds ?p = _ =>
      let b := eval vm_compute in (cbounds p) in
      assert (Hb' : cbounds p = b) by (vm_compute; reflexivity);
      rewrite Hb' in Hb; inversion Hb; subst lo hi; clear Hb
    end;
    unfold_set; rewrite ?Hb'; consts; cbn [negb andb]; zcases; cbn [negb andb] in *;
    rewrite ?cupd_same; try reflexivity; try (exfalso; lia); try (f_equal; lia).
Qed.

Lemma in_cbounds_intro : forall p lo hi v, cbounds p = Some (lo, hi) -> lo <= v <= hi -> in_cbounds p v.
Proof. intros. exists lo, hi. split; assumption. Qed.

Ltac with_bounds p :=
  let b := eval vm_compute in (cbounds p) in
  assert (Hb' : cbounds p = b) by (vm_compute; reflexivity).

(* whatever value is passed, what ends up in the cell is within the advertised bounds (or the "use default" 0) *)
Lemma cstored_value_ok : forall p v v', cstored C_rsyncable p v = Some v' -> cvalue_ok p v'.
Proof.
  intros p v v'. unfold cvalue_ok.
  destruct p;
    match goal with |- _ -> in_cbounds ?p _ \/ _ => with_bounds p end;
    unfold_set; rewrite ?Hb'; consts; cbn [negb andb]; zcases; cbn [negb andb] in *;
    rewrite ?cupd_same; intro Hst; try discriminate Hst; injection Hst as <-;
    first [ left; eapply in_cbounds_intro; [exact Hb' | lia]
          | right; split; [reflexivity | lia] ].
Qed.

(* the only rejection reason of ZSTD_CCtxParams_setParameter on a known parameter is parameter_outOfBound *)
Lemma crej_outOfBound : forall p v, cstored C_rsyncable p v = None -> crej C_rsyncable p v = E_outOfBound.
Proof.
  intros p v.
  destruct p;
    match goal with |- cstored _ ?p _ = _ -> _ => with_bounds p end;
    unfold_set; rewrite ?Hb'; case_ifs; rewrite ?cupd_same; intro Hst; try discriminate Hst; reflexivity.
Qed.

(* rejected values are exactly outside the bounds *)
Lemma cstored_none_out_of_bounds : forall p v, cstored C_rsyncable p v = None -> ~ in_cbounds p v.
Proof.
  intros p v H Hin. rewrite (cstored_in_bounds p v Hin) in H. discriminate H.
Qed.

(* clamp-vs-reject, parameter by parameter *)
Lemma cstored_policy : forall p v lo hi,
  cbounds p = Some (lo, hi) -> ~ (lo <= v <= hi) ->
  match cpolicy p with
  | P_reject =>
      if zero_is_default p && Z.eqb v 0 then cstored C_rsyncable p v = Some 0
      else cstored C_rsyncable p v = None
  | P_clamp =>
      match cstored C_rsyncable p v with
      | Some v' => lo <= v' <= hi /\ (v > hi -> v' = hi) /\ (v < lo -> p <> C_jobSize -> v' = lo)
      | None => False
      end
  | P_flag => cstored C_rsyncable p v = Some 1
  | P_raise_reject =>
      if Z.eqb v 0 then cstored C_rsyncable p v = Some 0
      else if v <? lo then cstored C_rsyncable p v = Some lo
      else cstored C_rsyncable p v = None
  end.
Proof.
  intros p v lo hi Hb Hv.
  destruct p;
    match type of Hb with cbounds ?p = _ =>
      with_bounds p; rewrite Hb' in Hb; inversion Hb; subst lo hi; clear Hb
    end;
    cbn [cpolicy zero_is_default andb];
    unfold_set; rewrite ?Hb'; consts; cbn [negb andb]; zcases; cbn [negb andb] in *;
    rewrite ?cupd_same; try (exfalso; lia); try reflexivity; try (f_equal; lia);
    try (repeat split; try reflexivity; try lia; try (intros; try lia; try congruence)).
Qed.

(* ------------------------------------------------------------------ ZSTD_CCtx_setParameter *)
Definition nbw_static_refused (c : cctx) (p : cparam) (v : Z) : bool :=
  match p with C_nbWorkers => negb (Z.eqb v 0) && c_static c | _ => false end.

Lemma cctx_set_char : forall c id v,
  cctx_set c id v =
  match cparam_of_id id with
  | None => (c, Err (if stage_is_init (c_stage c) then E_unsupported else E_stage_wrong))
  | Some p =>
      if negb (stage_is_init (c_stage c)) && negb (is_update_authorized p) then (c, Err E_stage_wrong)
      else if nbw_static_refused c p v then (c, Err E_unsupported)
      else match cstored C_rsyncable p v with
           | Some v' => (mkC (cupd (c_params c) p v') (c_stage c) (c_dict c) (c_static c), Ok)
           | None => (c, Err E_outOfBound)
           end
  end.
Proof.
  intros c id v. unfold cctx_set, nbw_static_refused.
  destruct (cparam_of_id id) as [p|]; destruct (c_stage c); cbn [stage_is_init negb andb];
    try reflexivity.
  - destruct (match p with C_nbWorkers => negb (v =? 0) && c_static c | _ => false end); [reflexivity|].
    rewrite cparams_set_char. destruct (cstored C_rsyncable p v) eqn:E; [reflexivity|].
    rewrite (crej_outOfBound p v E). reflexivity.
  - destruct (is_update_authorized p); cbn [negb]; [|reflexivity].
    destruct (match p with C_nbWorkers => negb (v =? 0) && c_static c | _ => false end); [reflexivity|].
    rewrite cparams_set_char. destruct (cstored C_rsyncable p v) eqn:E; [reflexivity|].
    rewrite (crej_outOfBound p v E). reflexivity.
Qed.

(* T1: a value inside the advertised bounds is accepted (in the init stage) and reads back in normal form *)
Lemma set_in_bounds_accepted_readback_l : forall c p v,
  c_stage c = S_init -> in_cbounds p v -> nbw_static_refused c p v = false ->
  exists c', cctx_set c (cparam_id p) v = (c', Ok)
          /\ cctx_get c' (cparam_id p) = (Ok, cnorm p v)
          /\ in_cbounds p (cnorm p v)
          /\ (forall q, q <> p -> c_params c' q = c_params c q)
          /\ c_stage c' = c_stage c /\ c_dict c' = c_dict c /\ c_static c' = c_static c.
Proof.
  intros c p v Hs Hin Hnb.
  rewrite cctx_set_char, cparam_of_id_id, Hs, Hnb. cbn [stage_is_init negb andb].
  rewrite (cstored_in_bounds p v Hin).
  eexists. split; [reflexivity|].
  unfold cctx_get, cparams_get_id. rewrite cparam_of_id_id. cbn [c_params c_stage c_dict c_static].
  rewrite cupd_same. split; [reflexivity|]. split.
  - pose proof (cstored_value_ok p v _ (cstored_in_bounds p v Hin)) as [H|[Hz H0]]; [exact H|].
    (* the normal form of an in-bounds value is 0 only if 0 is in bounds or v itself was 0 *)
    destruct Hin as (lo & hi & Hb & Hv).
    exists lo, hi. split; [exact Hb|].
    destruct p; try discriminate Hz; unfold cnorm in *; lia.
  - repeat split; try reflexivity. intros q Hq. apply cupd_other. exact Hq.
Qed.

(* the normal form is the identity except for the two documented cases *)
Lemma cnorm_identity : forall p v, p <> C_compressionLevel -> p <> C_jobSize -> cnorm p v = v.
Proof. destruct p; intros; try reflexivity; congruence. Qed.

(* T3: a call that returns an error changes nothing (the very same context comes back) *)
Lemma rejected_set_changes_nothing_l : forall c id v, snd (cctx_set c id v) <> Ok -> fst (cctx_set c id v) = c.
Proof.
  intros c id v. rewrite cctx_set_char.
  destruct (cparam_of_id id) as [p|]; [|reflexivity].
  destruct (negb (stage_is_init (c_stage c)) && negb (is_update_authorized p)); [reflexivity|].
  destruct (nbw_static_refused c p v); [reflexivity|].
  destruct (cstored C_rsyncable p v); [|reflexivity].
  cbn [snd]. intro H. exfalso. apply H. reflexivity.
Qed.

(* T3b: an accepted call changes the cell of that parameter only *)
Lemma accepted_set_changes_only_that_param_l : forall c id v c',
  cctx_set c id v = (c', Ok) ->
  exists p, cparam_of_id id = Some p
         /\ (forall q, q <> p -> c_params c' q = c_params c q)
         /\ cvalue_ok p (c_params c' p)
         /\ c_stage c' = c_stage c /\ c_dict c' = c_dict c /\ c_static c' = c_static c.
Proof.
  intros c id v c'. rewrite cctx_set_char.
  destruct (cparam_of_id id) as [p|]; [|intro H; discriminate H].
  destruct (negb (stage_is_init (c_stage c)) && negb (is_update_authorized p)); [intro H; discriminate H|].
  destruct (nbw_static_refused c p v); [intro H; discriminate H|].
  destruct (cstored C_rsyncable p v) as [v'|] eqn:E; [|intro H; discriminate H].
  intro H. injection H as <-. exists p. split; [reflexivity|]. cbn [c_params c_stage c_dict c_static].
  split; [intros q Hq; apply cupd_other; exact Hq|]. rewrite cupd_same.
  split; [eapply cstored_value_ok; exact E|]. repeat split.
Qed.

(* T2: a value outside the advertised bounds is rejected with nothing changed, or what is stored is within the
   bounds, or it is the documented "0 = use default" *)
Lemma set_out_of_bounds_rejected_or_clamped_l : forall c p v c' r,
  ~ in_cbounds p v -> cctx_set c (cparam_id p) v = (c', r) ->
  (exists e, r = Err e /\ c' = c)
  \/ (r = Ok /\ (in_cbounds p (c_params c' p) \/ (v = 0 /\ zero_is_default p = true /\ c_params c' p = 0))).
Proof.
  intros c p v c' r Hout. rewrite cctx_set_char, cparam_of_id_id.
  destruct (negb (stage_is_init (c_stage c)) && negb (is_update_authorized p));
    [intro H; injection H as <- <-; left; eexists; split; reflexivity|].
  destruct (nbw_static_refused c p v); [intro H; injection H as <- <-; left; eexists; split; reflexivity|].
  destruct (cstored C_rsyncable p v) as [v'|] eqn:E;
    [|intro H; injection H as <- <-; left; eexists; split; reflexivity].
  intro H. injection H as <- <-. right. split; [reflexivity|]. cbn [c_params]. rewrite cupd_same.
  destruct (cstored_value_ok p v v' E) as [Hin|[Hz H0]]; [left; exact Hin|].
  subst v'. right.
  (* a stored 0 outside the bounds can only come from v = 0 *)
  assert (v = 0); [|tauto].
  destruct (Z.eq_dec v 0) as [|Hne]; [assumption|exfalso].
  destruct p; try discriminate Hz;
    match type of E with cstored _ ?p _ = _ => with_bounds p end;
    revert E; unfold_set; rewrite ?Hb'; consts; cbn [negb andb]; zcases; cbn [negb andb] in *;
    rewrite ?cupd_same; intro E; try discriminate E; try lia;
    try (apply Hout; eapply in_cbounds_intro; [exact Hb'|lia]);
    try (injection E as E; lia).
Qed.

(* exact policy per parameter, at the level of ZSTD_CCtx_setParameter in the init stage *)
Lemma out_of_bounds_policy_l : forall c p v lo hi,
  c_stage c = S_init -> nbw_static_refused c p v = false ->
  cbounds p = Some (lo, hi) -> ~ (lo <= v <= hi) ->
  match cpolicy p with
  | P_reject =>
      if zero_is_default p && Z.eqb v 0
      then snd (cctx_set c (cparam_id p) v) = Ok /\ c_params (fst (cctx_set c (cparam_id p) v)) p = 0
      else cctx_set c (cparam_id p) v = (c, Err E_outOfBound)
  | P_clamp =>
      snd (cctx_set c (cparam_id p) v) = Ok /\
      lo <= c_params (fst (cctx_set c (cparam_id p) v)) p <= hi /\
      (v > hi -> c_params (fst (cctx_set c (cparam_id p) v)) p = hi) /\
      (v < lo -> p <> C_jobSize -> c_params (fst (cctx_set c (cparam_id p) v)) p = lo)
  | P_flag => snd (cctx_set c (cparam_id p) v) = Ok /\ c_params (fst (cctx_set c (cparam_id p) v)) p = 1
  | P_raise_reject =>
      if Z.eqb v 0
      then snd (cctx_set c (cparam_id p) v) = Ok /\ c_params (fst (cctx_set c (cparam_id p) v)) p = 0
      else if v <? lo
           then snd (cctx_set c (cparam_id p) v) = Ok /\ c_params (fst (cctx_set c (cparam_id p) v)) p = lo
           else cctx_set c (cparam_id p) v = (c, Err E_outOfBound)
  end.
Proof.
  intros c p v lo hi Hs Hnb Hb Hv.
  pose proof (cstored_policy p v lo hi Hb Hv) as HP.
  rewrite cctx_set_char, cparam_of_id_id, Hs, Hnb. cbn [stage_is_init negb andb].
  destruct (cpolicy p).
  - destruct (zero_is_default p && (v =? 0)); rewrite HP; cbn [fst snd c_params]; rewrite ?cupd_same; auto.
  - destruct (cstored C_rsyncable p v); [|contradiction]. cbn [fst snd c_params]. rewrite cupd_same. tauto.
  - rewrite HP. cbn [fst snd c_params]. rewrite cupd_same. auto.
  - destruct (v =? 0); [|destruct (v <? lo)]; rewrite HP; cbn [fst snd c_params]; rewrite ?cupd_same; auto.
Qed.

(* T7: mid-frame, exactly the authorised parameters can be set; everything else (unknown ids included) is stage_wrong *)
Lemma midframe_gating_l : forall c id v,
  c_stage c = S_mid ->
  match cparam_of_id id with
  | Some p =>
      if is_update_authorized p
      then cctx_set c id v =
           match cstored C_rsyncable p v with
           | Some v' => (mkC (cupd (c_params c) p v') S_mid (c_dict c) (c_static c), Ok)
           | None => (c, Err E_outOfBound)
           end
      else cctx_set c id v = (c, Err E_stage_wrong)
  | None => cctx_set c id v = (c, Err E_stage_wrong)
  end.
Proof.
  intros c id v Hs. rewrite cctx_set_char, Hs. cbn [stage_is_init negb andb].
  destruct (cparam_of_id id) as [p|]; [|reflexivity].
  destruct (is_update_authorized p) eqn:Ha; cbn [negb]; [|reflexivity].
  assert (Hn : nbw_static_refused c p v = false) by (destruct p; try discriminate Ha; reflexivity).
  rewrite Hn. reflexivity.
Qed.

Lemma authorized_exactly_seven_l : forall p,
  is_update_authorized p = true <->
  In p [C_compressionLevel; C_hashLog; C_chainLog; C_searchLog; C_minMatch; C_targetLength; C_strategy].
Proof.
  destruct p; cbn [is_update_authorized In]; split; intro H; try reflexivity; try discriminate H;
    try tauto; repeat (destruct H as [H|H]; try discriminate H); contradiction.
Qed.

(* ------------------------------------------------------------------ ZSTD_CCtx_reset *)
Definition is_session (dir : Z) : bool := Z.eqb dir z_ZSTD_reset_session_only || Z.eqb dir z_ZSTD_reset_session_and_parameters.
Definition is_params (dir : Z) : bool := Z.eqb dir z_ZSTD_reset_parameters || Z.eqb dir z_ZSTD_reset_session_and_parameters.

(* T5 *)
Lemma reset_parameters_restores_defaults_l : forall c dir,
  is_params dir = true -> (c_stage c = S_init \/ is_session dir = true) ->
  cctx_reset c dir = (mkC cparams_default S_init CD_none (c_static c), Ok).
Proof.
  intros c dir Hp Hs. unfold cctx_reset. fold (is_session dir) (is_params dir). rewrite Hp.
  destruct (is_session dir); cbn [c_stage stage_is_init c_static]; [reflexivity|].
  destruct Hs as [Hs|Hs]; [rewrite Hs; reflexivity|discriminate Hs].
Qed.

Lemma defaults_documented_l : forall p,
  cparams_default p =
  match p with
  | C_compressionLevel => z_ZSTD_CLEVEL_DEFAULT
  | C_contentSizeFlag | C_dictIDFlag => 1
  | _ => 0
  end.
Proof. destruct p; reflexivity. Qed.

(* T6 *)
Lemma reset_session_keeps_parameters_l : forall c dir,
  is_session dir = true -> is_params dir = false ->
  cctx_reset c dir = (mkC (c_params c) S_init (c_dict c) (c_static c), Ok).
Proof.
  intros c dir Hs Hp. unfold cctx_reset. fold (is_session dir) (is_params dir). rewrite Hp, Hs. reflexivity.
Qed.

(* T8 *)
Lemma reset_parameters_midframe_refused_l : forall c dir,
  c_stage c = S_mid -> is_params dir = true -> is_session dir = false ->
  cctx_reset c dir = (c, Err E_stage_wrong).
Proof.
  intros c dir Hs Hp Hse. unfold cctx_reset. fold (is_session dir) (is_params dir). rewrite Hp, Hse, Hs. reflexivity.
Qed.

(* any other directive value is a no-op *)
Lemma reset_unknown_directive_l : forall c dir, is_params dir = false -> is_session dir = false -> cctx_reset c dir = (c, Ok).
Proof.
  intros c dir Hp Hse. unfold cctx_reset. fold (is_session dir) (is_params dir). rewrite Hp, Hse. reflexivity.
Qed.

(* ------------------------------------------------------------------ the CCtxParams object *)
Lemma cparams_set_id_char : forall s id v,
  cparams_set_id s id v =
  match cparam_of_id id with
  | None => (s, Err E_unsupported)
  | Some p => match cstored C_rsyncable p v with
              | Some v' => (cupd s p v', Ok)
              | None => (s, Err E_outOfBound)
              end
  end.
Proof.
  intros. unfold cparams_set_id. destruct (cparam_of_id id) as [p|]; [|reflexivity].
  rewrite cparams_set_char. destruct (cstored C_rsyncable p v) eqn:E; [reflexivity|].
  rewrite (crej_outOfBound p v E). reflexivity.
Qed.

Lemma params_rejected_set_changes_nothing_l : forall s id v, snd (cparams_set_id s id v) <> Ok -> fst (cparams_set_id s id v) = s.
Proof.
  intros s id v. rewrite cparams_set_id_char.
  destruct (cparam_of_id id) as [p|]; [|reflexivity].
  destruct (cstored C_rsyncable p v); [|reflexivity]. cbn [snd]. intro H. exfalso. apply H. reflexivity.
Qed.

Lemma params_set_in_bounds_l : forall s p v, in_cbounds p v ->
  cparams_set_id s (cparam_id p) v = (cupd s p (cnorm p v), Ok)
  /\ cparams_get_id (cupd s p (cnorm p v)) (cparam_id p) = (Ok, cnorm p v).
Proof.
  intros s p v Hin. rewrite cparams_set_id_char, cparam_of_id_id, (cstored_in_bounds p v Hin).
  split; [reflexivity|]. unfold cparams_get_id. rewrite cparam_of_id_id, cupd_same. reflexivity.
Qed.

Lemma get_unknown_unsupported_l : forall s id, cparam_of_id id = None -> cparams_get_id s id = (Err E_unsupported, 0).
Proof. intros s id H. unfold cparams_get_id. rewrite H. reflexivity. Qed.

(* ------------------------------------------------------------------ invariants over histories *)
Definition cstore_ok (s : cstore) : Prop := forall p, cvalue_ok p (s p).
Definition cctx_ok (c : cctx) : Prop := cstore_ok (c_params c).

Lemma cvalue_ok_default : forall p, cvalue_ok p (cparams_default p).
Proof.
  destruct p; unfold cvalue_ok;
    match goal with |- in_cbounds ?p _ \/ _ => with_bounds p end;
    first [ left; eapply in_cbounds_intro; [exact Hb' | vm_compute; split; discriminate]
          | right; split; reflexivity ].
Qed.

Lemma cstore_ok_default : cstore_ok cparams_default.
Proof. intro p. apply cvalue_ok_default. Qed.

Lemma cstore_ok_zero : cstore_ok cparams_zero.
Proof.
  intro p. destruct p; unfold cvalue_ok;
    match goal with |- in_cbounds ?p _ \/ _ => with_bounds p end;
    first [ left; eapply in_cbounds_intro; [exact Hb' | vm_compute; split; discriminate]
          | right; split; reflexivity ].
Qed.

Lemma cstore_ok_init : forall level, in_cbounds C_compressionLevel level -> cstore_ok (cparams_init level).
Proof.
  intros level Hl p. destruct p; try exact (cvalue_ok_default _). left. exact Hl.
Qed.

Lemma cstore_ok_upd : forall s p v, cstore_ok s -> cvalue_ok p v -> cstore_ok (cupd s p v).
Proof.
  intros s p v Hs Hv q. unfold cupd. destruct (cparam_eqb q p) eqn:E; [apply cparam_eqb_eq in E; subst q; exact Hv | apply Hs].
Qed.

Lemma cparams_set_id_ok : forall s id v, cstore_ok s -> cstore_ok (fst (cparams_set_id s id v)).
Proof.
  intros s id v Hs. rewrite cparams_set_id_char.
  destruct (cparam_of_id id) as [p|]; [|exact Hs].
  destruct (cstored C_rsyncable p v) as [v'|] eqn:E; [|exact Hs].
  cbn [fst]. apply cstore_ok_upd; [exact Hs | eapply cstored_value_ok; exact E].
Qed.

Lemma cctx_set_ok : forall c id v, cctx_ok c -> cctx_ok (fst (cctx_set c id v)).
Proof.
  intros c id v Hc. rewrite cctx_set_char.
  destruct (cparam_of_id id) as [p|]; [|exact Hc].
  destruct (negb (stage_is_init (c_stage c)) && negb (is_update_authorized p)); [exact Hc|].
  destruct (nbw_static_refused c p v); [exact Hc|].
  destruct (cstored C_rsyncable p v) as [v'|] eqn:E; [|exact Hc].
  cbn [fst]. unfold cctx_ok. cbn [c_params]. apply cstore_ok_upd; [exact Hc | eapply cstored_value_ok; exact E].
Qed.

Lemma cctx_set_seq_ok : forall l c, cctx_ok c -> cctx_ok (fst (cctx_set_seq c l)).
Proof.
  induction l as [|[p v] l IH]; intros c Hc; cbn [cctx_set_seq]; [exact Hc|].
  pose proof (cctx_set_ok c (cparam_id p) v Hc) as H1.
  destruct (cctx_set c (cparam_id p) v) as [c' [|e]]; cbn [fst] in *; [apply IH; exact H1 | exact H1].
Qed.

Lemma cctx_set_cparams_ok : forall c cp, cctx_ok c -> cctx_ok (fst (cctx_set_cparams c cp)).
Proof. intros c cp Hc. unfold cctx_set_cparams. destruct (check_cparams cp); [apply cctx_set_seq_ok; exact Hc | exact Hc]. Qed.
Lemma cctx_set_fparams_ok : forall c fp, cctx_ok c -> cctx_ok (fst (cctx_set_fparams c fp)).
Proof. intros c fp Hc. apply cctx_set_seq_ok. exact Hc. Qed.
Lemma cctx_set_params_ok : forall c cp fp, cctx_ok c -> cctx_ok (fst (cctx_set_params c cp fp)).
Proof.
  intros c cp fp Hc. unfold cctx_set_params. destruct (check_cparams cp); [|exact Hc].
  pose proof (cctx_set_fparams_ok c fp Hc) as H1. destruct (cctx_set_fparams c fp) as [c1 [|e]]; cbn [fst] in *; [|exact H1].
  apply cctx_set_cparams_ok. exact H1.
Qed.

Lemma cctx_reset_ok : forall c dir, cctx_ok c -> cctx_ok (fst (cctx_reset c dir)).
Proof.
  intros c dir Hc. unfold cctx_reset.
  destruct (_ || _); destruct (_ || _); cbn [c_stage stage_is_init]; try destruct (c_stage c); cbn [stage_is_init fst];
    try exact Hc; exact cstore_ok_default.
Qed.

(* the operations of a history; ZSTD_CCtxParams_init takes any int as level and stores it unchecked, so the
   invariant needs its argument to be a level within bounds *)
Definition op_wf (x : op) : Prop :=
  match x with
  | OPInit level => in_cbounds C_compressionLevel level
  | OPInitAdv _ fp => in_cbounds C_contentSizeFlag (f_cs fp) /\ in_cbounds C_checksumFlag (f_ck fp)   (* stored as given *)
  | _ => True
  end.

Lemma cwithin_in_cbounds : forall p v, cwithin p v = true -> in_cbounds p v.
Proof.
  intros p v H. unfold cwithin in H. destruct (cbounds p) as [[lo hi]|] eqn:Hb; [|discriminate H].
  apply Bool.andb_true_iff in H. destruct H as [H1 H2]. apply Z.leb_le in H1, H2. exists lo, hi. auto.
Qed.

Lemma check_cparams_fields : forall cp, check_cparams cp = true ->
  in_cbounds C_windowLog (wlog cp) /\ in_cbounds C_chainLog (clog cp) /\ in_cbounds C_hashLog (hlog cp)
  /\ in_cbounds C_searchLog (slog cp) /\ in_cbounds C_minMatch (mmatch cp) /\ in_cbounds C_targetLength (tlen cp)
  /\ in_cbounds C_strategy (strat cp).
Proof.
  intros cp H. unfold check_cparams in H. repeat rewrite Bool.andb_true_iff in H.
  destruct H as ((((((H1 & H2) & H3) & H4) & H5) & H6) & H7).
  repeat split; apply cwithin_in_cbounds; assumption.
Qed.

(* ZSTD_CCtxParams_init_advanced: every cell of the initialised object is admissible when the two flags it copies are *)
Lemma cstore_ok_init_internal : forall cp fp, check_cparams cp = true ->
  in_cbounds C_contentSizeFlag (f_cs fp) -> in_cbounds C_checksumFlag (f_ck fp) ->
  cstore_ok (cparams_init_internal cp fp 0).
Proof.
  intros cp fp Hc Hcs Hck p. destruct (check_cparams_fields cp Hc) as (H1 & H2 & H3 & H4 & H5 & H6 & H7).
  destruct p; unfold cvalue_ok; cbn [cparams_init_internal]; try (left; assumption);
    try (match goal with |- in_cbounds ?p _ \/ _ => with_bounds p end;
         first [ left; eapply in_cbounds_intro; [exact Hb' | vm_compute; split; discriminate]
               | right; split; reflexivity ]).
  - (* enableLongDistanceMatching *) with_bounds C_enableLongDistanceMatching. left. eapply in_cbounds_intro; [exact Hb'|].
    unfold resolve_ldm. cbn [negb]. rewrite Z.eqb_refl. cbn [negb]. destruct (_ && _); vm_compute; split; discriminate.
  - (* dictIDFlag *) with_bounds C_dictIDFlag. left. eapply in_cbounds_intro; [exact Hb'|]. destruct (f_nd fp =? 0); lia.
  - (* useBlockSplitter *) with_bounds C_useBlockSplitter. left. eapply in_cbounds_intro; [exact Hb'|].
    unfold resolve_split. rewrite Z.eqb_refl. cbn [negb]. destruct (_ && _); vm_compute; split; discriminate.
  - (* useRowMatchFinder *) with_bounds C_useRowMatchFinder. left. eapply in_cbounds_intro; [exact Hb'|].
    unfold resolve_row. rewrite Z.eqb_refl. cbn [negb]. destruct (_ && _); vm_compute; split; discriminate.
Qed.


Definition world_ok (w : world) : Prop := cctx_ok (w_c0 w) /\ cctx_ok (w_c1 w) /\ cstore_ok (w_p w).

Lemma get_c_ok : forall w o, world_ok w -> cctx_ok (get_c w o).
Proof. intros w o (H0 & H1 & _). destruct o; assumption. Qed.

Lemma put_c_ok : forall w o c, world_ok w -> cctx_ok c -> world_ok (put_c w o c).
Proof. intros w o c (H0 & H1 & H2) Hc. destruct o; repeat split; assumption. Qed.

Lemma put_d_ok : forall w o d, world_ok w -> world_ok (put_d w o d).
Proof. intros w o d H. destruct o; exact H. Qed.

Lemma world_ok_new : world_ok world_new.
Proof. repeat split; exact cstore_ok_default. Qed.

Lemma step_ok : forall w x, world_ok w -> op_wf x -> world_ok (fst (step w x)).
Proof.
  intros w x Hw Hx.
  destruct x; cbn [step];
    repeat match goal with |- context [let '(_, _) := ?e in _] => destruct e eqn:?E end;
    cbn [fst]; try exact Hw; try (apply put_d_ok; exact Hw); try exact world_ok_new.
  - apply put_c_ok; [exact Hw|]. replace c with (fst (cctx_set (get_c w o) id v)) by (rewrite E; reflexivity).
    apply cctx_set_ok, get_c_ok, Hw.
  - apply put_c_ok; [exact Hw|]. replace c with (fst (cctx_reset (get_c w o) dir)) by (rewrite E; reflexivity).
    apply cctx_reset_ok, get_c_ok, Hw.
  - apply put_c_ok; [exact Hw|]. pose proof (get_c_ok w o Hw) as Hc. unfold cctx_begin. destruct (c_stage (get_c w o)); exact Hc.
  - apply put_c_ok; [exact Hw|]. pose proof (get_c_ok w o Hw) as Hc. unfold cctx_end. destruct (c_stage (get_c w o)); exact Hc.
  - apply put_c_ok; [exact Hw|]. exact (get_c_ok w o Hw).
  - apply put_c_ok; [exact Hw|]. exact (get_c_ok w o Hw).
  - apply put_c_ok; [exact Hw|]. exact (get_c_ok w o Hw).
  - apply put_c_ok; [exact Hw|]. pose proof (get_c_ok w o Hw) as Hc. revert E. unfold cctx_load. case_ifs; intro E; injection E as <- _; exact Hc.
  - apply put_c_ok; [exact Hw|]. pose proof (get_c_ok w o Hw) as Hc. revert E. unfold cctx_refcdict. case_ifs; intro E; injection E as <- _; exact Hc.
  - apply put_c_ok; [exact Hw|]. pose proof (get_c_ok w o Hw) as Hc. revert E. unfold cctx_refprefix. case_ifs; intro E; injection E as <- _; exact Hc.
  - apply put_c_ok; [exact Hw|]. pose proof (get_c_ok w o Hw) as Hc. destruct Hw as (_ & _ & Hp). revert E. unfold cctx_apply.
    destruct (negb _); [intro E; injection E as <- _; exact Hc|].
    destruct (c_dict (get_c w o)) as [|[|]| |]; intro E; injection E as <- _; try exact Hc; exact Hp.
  - destruct Hw as (H0 & H1 & Hp). repeat split; try assumption.
    replace c with (fst (cparams_set_id (w_p w) id v)) by (rewrite E; reflexivity). apply cparams_set_id_ok, Hp.
  - destruct Hw as (H0 & H1 & Hp). repeat split; try assumption. exact cstore_ok_default.
  - destruct Hw as (H0 & H1 & Hp). repeat split; try assumption. apply cstore_ok_init. exact Hx.
  - apply put_c_ok; [exact Hw|]. replace c with (fst (cctx_set_cparams (get_c w o) cp)) by (rewrite E; reflexivity).
    apply cctx_set_cparams_ok, get_c_ok, Hw.
  - apply put_c_ok; [exact Hw|]. replace c with (fst (cctx_set_fparams (get_c w o) fp)) by (rewrite E; reflexivity).
    apply cctx_set_fparams_ok, get_c_ok, Hw.
  - apply put_c_ok; [exact Hw|]. replace c with (fst (cctx_set_params (get_c w o) cp fp)) by (rewrite E; reflexivity).
    apply cctx_set_params_ok, get_c_ok, Hw.
  - destruct Hw as (H0 & H1 & Hp). repeat split; try assumption.
    revert E. unfold cparams_init_advanced. destruct (check_cparams cp) eqn:Hc; intro E; injection E as <- _; [|exact Hp].
    destruct Hx as [Hcs Hck]. apply cstore_ok_init_internal; assumption.
Qed.

Lemma run_ok : forall ops w, world_ok w -> Forall op_wf ops -> world_ok (run w ops).
Proof.
  induction ops as [|x ops IH]; intros w Hw Hf; [exact Hw|].
  inversion Hf; subst. unfold run. cbn [fold_left]. apply IH; [apply step_ok; assumption | assumption].
Qed.

(* whatever the history of calls, every parameter of every compression object holds a value within its advertised
   bounds (or the documented 0 = default) *)
Lemma history_cparams_within_bounds_l : forall ops, Forall op_wf ops ->
  forall o p, cvalue_ok p (c_params (get_c (run world_new ops) o) p) /\ cvalue_ok p (w_p (run world_new ops) p).
Proof.
  intros ops Hf o p. pose proof (run_ok ops world_new world_ok_new Hf) as Hw.
  split; [apply (get_c_ok _ o Hw) | destruct Hw as (_ & _ & Hp); apply Hp].
Qed.

(* T4: stickiness - operations that are not set / reset / apply on this object (frames begun, ended, failed, one-shot
   and simple-API compressions, dictionary calls, anything on other objects) leave its parameters exactly as they are *)
Definition touches_cparams (o : bool) (x : op) : bool :=
  match x with
  | OCSet o' _ _ | OCReset o' _ | OCApply o' | OCSetCP o' _ | OCSetFP o' _ | OCSetP o' _ _ => Bool.eqb o o'
  | ONew => true
  | _ => false
  end.

Lemma get_put_c_same : forall w o c, get_c (put_c w o c) o = c.
Proof. intros w [] c; reflexivity. Qed.
Lemma get_put_c_other : forall w o o' c, o <> o' -> get_c (put_c w o' c) o = get_c w o.
Proof. intros w [] [] c H; try reflexivity; congruence. Qed.
Lemma get_c_put_d : forall w o o' d, get_c (put_d w o' d) o = get_c w o.
Proof. intros w [] [] d; reflexivity. Qed.
Lemma get_c_put_p : forall w o s, get_c (put_p w s) o = get_c w o.
Proof. intros w [] s; reflexivity. Qed.

Lemma step_sticky : forall w x o, touches_cparams o x = false ->
  c_params (get_c (fst (step w x)) o) = c_params (get_c w o).
Proof.
  intros w x o Ht.
  destruct x; cbn [step touches_cparams] in *;
    repeat match goal with |- context [let '(_, _) := ?e in _] => destruct e eqn:?E end;
    cbn [fst]; rewrite ?get_c_put_d, ?get_c_put_p; try reflexivity; try discriminate Ht;
    try (revert Ht; destruct (Bool.eqb_spec o o0) as [->|Hne]; intro Ht;
         [ try discriminate Ht; rewrite get_put_c_same | rewrite get_put_c_other by assumption; reflexivity ]).
  - unfold cctx_begin. destruct (c_stage (get_c w o0)); reflexivity.
  - unfold cctx_end. destruct (c_stage (get_c w o0)); reflexivity.
  - reflexivity.
  - reflexivity.
  - reflexivity.
  - revert E. unfold cctx_load. case_ifs; intro E; injection E as <- _; reflexivity.
  - revert E. unfold cctx_refcdict. case_ifs; intro E; injection E as <- _; reflexivity.
  - revert E. unfold cctx_refprefix. case_ifs; intro E; injection E as <- _; reflexivity.
Qed.

Lemma sticky_across_frames_l : forall ops w o,
  Forall (fun x => touches_cparams o x = false) ops ->
  c_params (get_c (run w ops) o) = c_params (get_c w o).
Proof.
  induction ops as [|x ops IH]; intros w o Hf; [reflexivity|].
  inversion Hf; subst. unfold run. cbn [fold_left]. fold (run (fst (step w x)) ops).
  rewrite IH by assumption. apply step_sticky. assumption.
Qed.

(* every frame produced during such a history carries the flags the parameters dictate *)
Lemma frames_reflect_parameters_l : forall ops w o,
  Forall (fun x => touches_cparams o x = false) ops ->
  let w' := run w ops in
  exists dflag,
    snd (step w' (OCFrame o)) =
      (Ok, [ (if negb (c_params (get_c w o) C_checksumFlag =? 0) then 1 else 0);
             (if negb (c_params (get_c w o) C_contentSizeFlag =? 0) then 1 else 0);
             dflag; c_params (get_c w o) C_format ])
    /\ (dflag = 0 \/ dflag = c_params (get_c w o) C_dictIDFlag).
Proof.
  intros ops w o Hf w'. cbn [step snd]. unfold cctx_frame_hdr. unfold w'.
  rewrite (sticky_across_frames_l ops w o Hf). cbn [andb].
  eexists. split; [reflexivity|]. destruct (dict_has_id _); auto.
Qed.

(* the simple API produces the same header whatever the advanced parameters are, and leaves them alone *)
Lemma simple_api_ignores_parameters_l : forall w o,
  let w' := fst (step w (OCSimple o)) in
  snd (step w (OCSimple o)) = (Ok, [0; 1; 0; 0])
  /\ c_params (get_c w' o) = c_params (get_c w o) /\ c_dict (get_c w' o) = c_dict (get_c w o)
  /\ c_static (get_c w' o) = c_static (get_c w o)
  /\ c_stage (get_c w' o) = S_init                      (* since fix 38ec6ea an open streaming session is closed *)
  /\ get_c w' (negb o) = get_c w (negb o) /\ w_p w' = w_p w /\ w_d0 w' = w_d0 w /\ w_d1 w' = w_d1 w
  /\ (c_stage (get_c w o) = S_init -> w' = w).
Proof.
  intros w o. cbn [step fst snd]. rewrite get_put_c_same. unfold cctx_simple.
  repeat split; try reflexivity; try (destruct o; reflexivity).
  intro Hs. destruct w as [c0 c1 p d0 d1]. destruct o; simpl in *;
    [destruct c1 | destruct c0]; simpl in *; subst; reflexivity.
Qed.

(* ------------------------------------------------------------------ ZSTD_DCtx *)
Lemma in_dbounds_intro : forall p lo hi v, dbounds p = Some (lo, hi) -> lo <= v <= hi -> in_dbounds p v.
Proof. intros. exists lo, hi. split; assumption. Qed.

Ltac with_dbounds p :=
  let b := eval vm_compute in (dbounds p) in
  assert (Hb' : dbounds p = b) by (vm_compute; reflexivity).

Definition drefmulti_static_refused (d : dctx) (p : dparam) : bool :=
  match p with D_refMultipleDDicts => d_static d | _ => false end.

(* the value a successful set stores / reads back *)
Definition dnorm (p : dparam) (v : Z) : Z :=
  match p with
  | D_windowLogMax => if Z.eqb v 0 then z_ZSTD_WINDOWLOG_LIMIT_DEFAULT else v
  | _ => v
  end.

Lemma log2_pow2_mod32 : forall v, 0 <= v <= 31 -> Z.log2 (2 ^ v mod 2 ^ 32) = v.
Proof.
  intros v Hv. rewrite Z.mod_small.
  - apply Z.log2_pow2. lia.
  - split; [apply Z.pow_nonneg; lia | apply Z.pow_lt_mono_r; lia].
Qed.

(* D-T1 *)
Lemma d_set_in_bounds_accepted_readback_l : forall d p v,
  d_stage d = S_init -> in_dbounds p v -> drefmulti_static_refused d p = false ->
  exists d', dctx_set d (dparam_id p) v = (d', Ok) /\ dctx_get d' (dparam_id p) = (Ok, v)
          /\ (forall q, q <> p -> dctx_get_p d' q = dctx_get_p d q)
          /\ d_stage d' = d_stage d /\ d_dict d' = d_dict d /\ d_static d' = d_static d.
Proof.
  intros d p v Hs (lo & hi & Hb & Hv) Hst.
  unfold dctx_set, dctx_get. rewrite Hs, dparam_of_id_id. cbn [stage_is_init negb].
  destruct p;
    match type of Hb with dbounds ?p = _ =>
      with_dbounds p; rewrite Hb' in Hb; inversion Hb; subst lo hi; clear Hb
    end;
    cbn [drefmulti_static_refused] in Hst; rewrite ?Hst;
    unfold dwithin, flag; rewrite ?Hb'; unfold z_ZSTD_WINDOWLOG_LIMIT_DEFAULT; zcases; cbn [negb andb orb] in *;
    try (exfalso; lia);
    (eexists; split; [reflexivity|]; rewrite ?dparam_of_id_id; cbn [dctx_get_p dctx_with d_format d_maxWindowSize d_outBufferMode
       d_forceIgnoreChecksum d_refMultipleDDicts d_disableHufAsm d_maxBlockSizeParam d_stage d_dict d_static];
     rewrite ?log2_pow2_mod32 by lia;
     split; [first [reflexivity | unfold flag; zcases; f_equal; lia]|];
     split; [intros q Hq; destruct q; try reflexivity; congruence | repeat split; try assumption; reflexivity]).
Qed.

Lemma dctx_set_cases : forall d id v,
  (exists e, dctx_set d id v = (d, Err e))
  \/ (exists p, dparam_of_id id = Some p /\ d_stage d = S_init /\
                dctx_set d id v = (dctx_with d p (dnorm p v), Ok) /\
                (in_dbounds p (dnorm p v) \/ (p = D_maxBlockSize /\ v = 0))).
Proof.
  intros d id v. unfold dctx_set.
  destruct (d_stage d) eqn:Hs; cbn [stage_is_init negb]; [|left; eexists; reflexivity].
  destruct (dparam_of_id id) as [p|] eqn:Hp; [|left; eexists; reflexivity].
  destruct p;
    match goal with |- context [dwithin ?p _] => with_dbounds p end;
    unfold dwithin; rewrite ?Hb'; unfold z_ZSTD_WINDOWLOG_LIMIT_DEFAULT; zcases; cbn [negb andb orb];
    try destruct (d_static d);
    try (left; eexists; reflexivity);
    right; eexists; (split; [reflexivity|]); (split; [reflexivity|]);
    unfold dnorm, z_ZSTD_WINDOWLOG_LIMIT_DEFAULT; zcases; try (exfalso; lia);
    (split; [reflexivity|]);
    first [ left; eapply in_dbounds_intro; [exact Hb' | lia] | right; split; [reflexivity | lia] ].
Qed.

(* D-T3 *)
Lemma d_rejected_set_changes_nothing_l : forall d id v, snd (dctx_set d id v) <> Ok -> fst (dctx_set d id v) = d.
Proof.
  intros d id v H. destruct (dctx_set_cases d id v) as [(e & E)|(p & _ & _ & E & _)]; rewrite E in *; [reflexivity|].
  exfalso. apply H. reflexivity.
Qed.

(* D-T2: outside the bounds => rejected and nothing changed; the only exceptions are the documented 0 = default forms *)
Lemma d_set_out_of_bounds_rejected_l : forall d p v,
  ~ in_dbounds p v ->
  (exists e, dctx_set d (dparam_id p) v = (d, Err e))
  \/ (v = 0 /\ (p = D_windowLogMax \/ p = D_maxBlockSize) /\
      dctx_set d (dparam_id p) v = (dctx_with d p (dnorm p 0), Ok)).
Proof.
  intros d p v Hout. destruct (dctx_set_cases d (dparam_id p) v) as [H|(p' & Hp & _ & E & Hok)]; [left; exact H|].
  rewrite dparam_of_id_id in Hp. injection Hp as <-. right.
  destruct Hok as [Hin|[-> ->]].
  - destruct p; unfold dnorm in Hin; try contradiction. revert Hin. zcases; intro Hin; [|contradiction].
    subst v. split; [reflexivity|]. split; [left; reflexivity | exact E].
  - split; [reflexivity|]. split; [right; reflexivity | exact E].
Qed.

(* D-T7: once a frame is being decoded every setter is refused - known or unknown id, setMaxWindowSize, dictionaries,
   parameter reset *)
Lemma d_midframe_all_refused_l : forall d, d_stage d = S_mid ->
  (forall id v, dctx_set d id v = (d, Err E_stage_wrong))
  /\ (forall size, dctx_set_max_window_size d size = (d, Err E_stage_wrong))
  /\ (forall k, dctx_refddict d k = (d, Err E_stage_wrong))
  /\ (forall dir, is_params dir = true -> is_session dir = false -> dctx_reset d dir = (d, Err E_stage_wrong)).
Proof.
  intros d Hs. repeat split; intros.
  - unfold dctx_set. rewrite Hs. reflexivity.
  - unfold dctx_set_max_window_size. with_dbounds D_windowLogMax. rewrite Hb', Hs. reflexivity.
  - unfold dctx_refddict. rewrite Hs. reflexivity.
  - unfold dctx_reset. fold (is_session dir) (is_params dir). rewrite H, H0, Hs. reflexivity.
Qed.

(* D-T5 / D-T6 *)
Lemma d_reset_parameters_restores_defaults_l : forall d dir,
  is_params dir = true -> (d_stage d = S_init \/ is_session dir = true) ->
  dctx_reset d dir = (mkD 0 (2 ^ z_ZSTD_WINDOWLOG_LIMIT_DEFAULT + 1) 0 0 0 0 0 S_init (dd_drop (d_dict d)) (d_static d), Ok)
  /\ dctx_get_p (fst (dctx_reset d dir)) D_windowLogMax = z_ZSTD_WINDOWLOG_LIMIT_DEFAULT.
Proof.
  intros d dir Hp Hs.
  assert (E : dctx_reset d dir = (mkD 0 (2 ^ z_ZSTD_WINDOWLOG_LIMIT_DEFAULT + 1) 0 0 0 0 0 S_init (dd_drop (d_dict d)) (d_static d), Ok)).
  { unfold dctx_reset. fold (is_session dir) (is_params dir). rewrite Hp.
    destruct (is_session dir); cbn [dctx_set_stage d_stage stage_is_init]; [reflexivity|].
    destruct Hs as [Hs|Hs]; [|discriminate Hs]. rewrite Hs. cbn [stage_is_init].
    unfold dctx_reset_params, dctx_set_dict. cbn [d_stage d_dict d_static]. rewrite Hs. reflexivity. }
  split; [exact E|]. rewrite E. cbn [fst dctx_get_p d_maxWindowSize]. vm_compute. reflexivity.
Qed.

Lemma d_reset_session_keeps_parameters_l : forall d dir,
  is_session dir = true -> is_params dir = false ->
  dctx_reset d dir = (dctx_set_stage d S_init, Ok).
Proof.
  intros d dir Hs Hp. unfold dctx_reset. fold (is_session dir) (is_params dir). rewrite Hp, Hs. reflexivity.
Qed.

(* ZSTD_DCtx_setMaxWindowSize: accepted exactly on [2^lo, 2^hi] of windowLogMax, and windowLogMax then reads floor(log2 size) *)
Lemma d_set_max_window_size_l : forall d size lo hi,
  d_stage d = S_init -> dbounds D_windowLogMax = Some (lo, hi) ->
  (2 ^ lo <= size <= 2 ^ hi ->
     snd (dctx_set_max_window_size d size) = Ok
     /\ d_maxWindowSize (fst (dctx_set_max_window_size d size)) = size
     /\ lo <= dctx_get_p (fst (dctx_set_max_window_size d size)) D_windowLogMax <= hi)
  /\ (~ (2 ^ lo <= size <= 2 ^ hi) -> dctx_set_max_window_size d size = (d, Err E_outOfBound)).
Proof.
  intros d size lo hi Hs Hb.
  with_dbounds D_windowLogMax. rewrite Hb' in Hb. inversion Hb; subst lo hi; clear Hb.
  unfold dctx_set_max_window_size. rewrite Hb', Hs. cbn [stage_is_init negb].
  split; intro H.
  - zcases; try (exfalso; lia). cbn [fst snd d_maxWindowSize dctx_get_p].
    split; [reflexivity|]. split; [reflexivity|].
    rewrite Z.mod_small by (split; [lia | change (2 ^ 32) with (2 * 2 ^ 31); lia]).
    split.
    + apply (Z.le_trans _ (Z.log2 (2 ^ 10))); [vm_compute; discriminate | apply Z.log2_le_mono; lia].
    + apply (Z.le_trans _ (Z.log2 (2 ^ 31))); [apply Z.log2_le_mono; lia | vm_compute; discriminate].
  - zcases; try reflexivity. exfalso. apply H. lia.
Qed.

(* invariant over histories: every decompression parameter is within its bounds (maxBlockSize: or 0), and
   maxWindowSize in [2^lo, 2^hi], so that ZSTD_highbit32 is never applied to 0 *)
Definition dctx_ok (d : dctx) : Prop :=
  (exists lo hi, dbounds D_windowLogMax = Some (lo, hi) /\ 2 ^ lo <= d_maxWindowSize d <= 2 ^ hi /\ hi <= 31)
  /\ in_dbounds D_format (d_format d) /\ in_dbounds D_stableOutBuffer (d_outBufferMode d)
  /\ in_dbounds D_forceIgnoreChecksum (d_forceIgnoreChecksum d)
  /\ in_dbounds D_refMultipleDDicts (d_refMultipleDDicts d)
  /\ in_dbounds D_disableHuffmanAssembly (d_disableHufAsm d)
  /\ (in_dbounds D_maxBlockSize (d_maxBlockSizeParam d) \/ d_maxBlockSizeParam d = 0).

Lemma dctx_ok_get : forall d, dctx_ok d -> forall p, in_dbounds p (dctx_get_p d p) \/ (p = D_maxBlockSize /\ dctx_get_p d p = 0).
Proof.
  intros d ((lo & hi & Hb & Hm & Hhi) & Hf & Ho & Hc & Hr & Hh & Hx) p.
  destruct p; cbn [dctx_get_p]; try (left; assumption).
  - left. exists lo, hi. split; [exact Hb|].
    with_dbounds D_windowLogMax. rewrite Hb' in Hb. inversion Hb; subst lo hi; clear Hb.
    assert (2 ^ 31 = 2147483648) by reflexivity. assert (2 ^ 10 = 1024) by reflexivity.
    rewrite Z.mod_small by (change (2 ^ 32) with 4294967296; lia).
    split.
    + apply (Z.le_trans _ (Z.log2 (2 ^ 10))); [vm_compute; discriminate | apply Z.log2_le_mono; exact (proj1 Hm)].
    + apply (Z.le_trans _ (Z.log2 (2 ^ 31))); [apply Z.log2_le_mono; exact (proj2 Hm) | vm_compute; discriminate].
  - destruct Hx as [Hx|Hx]; [left; exact Hx | right; split; [reflexivity | exact Hx]].
Qed.

Lemma dctx_ok_defaults : forall st dc sta, dctx_ok (mkD 0 d_maxWindowSize_default 0 0 0 0 0 st dc sta).
Proof.
  intros. unfold dctx_ok. cbn [d_format d_maxWindowSize d_outBufferMode d_forceIgnoreChecksum d_refMultipleDDicts d_disableHufAsm d_maxBlockSizeParam].
  split.
  - with_dbounds D_windowLogMax. eexists _, _. split; [exact Hb'|]. vm_compute. repeat split; discriminate.
  - repeat split; try (right; reflexivity);
      match goal with |- in_dbounds ?p _ => with_dbounds p; eapply in_dbounds_intro; [exact Hb' | lia] end.
Qed.

Lemma dctx_ok_stage : forall d s, dctx_ok d -> dctx_ok (dctx_set_stage d s).
Proof. intros d s H. exact H. Qed.
Lemma dctx_ok_dict : forall d b, dctx_ok d -> dctx_ok (dctx_set_dict d b).
Proof. intros d b H. exact H. Qed.

Lemma dctx_set_ok : forall d id v, dctx_ok d -> dctx_ok (fst (dctx_set d id v)).
Proof.
  intros d id v Hd. destruct (dctx_set_cases d id v) as [(e & E)|(p & _ & _ & E & Hok)]; rewrite E; cbn [fst]; [exact Hd|].
  destruct Hd as ((lo & hi & Hb & Hm & Hhi) & Hf & Ho & Hc & Hr & Hh & Hx).
  destruct p; unfold dctx_ok; cbn [dctx_with d_format d_maxWindowSize d_outBufferMode d_forceIgnoreChecksum d_refMultipleDDicts d_disableHufAsm d_maxBlockSizeParam];
    (destruct Hok as [Hin|[Hp Hv]]; [|try discriminate Hp]);
    try (split; [exists lo, hi; repeat split; try assumption; lia|]; repeat split; try assumption; try (left; assumption)).
  - (* windowLogMax *) destruct Hin as (lo' & hi' & Hb2 & Hv). rewrite Hb in Hb2. injection Hb2 as <- <-.
    split; [|repeat split; assumption]. exists lo, hi. split; [exact Hb|].
    assert (0 <= lo) by (with_dbounds D_windowLogMax; rewrite Hb' in Hb; inversion Hb; lia).
    repeat split; try assumption; apply Z.pow_le_mono_r; lia.
  - (* disableHufAsm stores flag v *) unfold dnorm in *. with_dbounds D_disableHuffmanAssembly.
    destruct Hin as (lo' & hi' & Hb2 & Hv). rewrite Hb' in Hb2. injection Hb2 as <- <-.
    eapply in_dbounds_intro; [exact Hb'|]. unfold flag. zcases; lia.
  - (* maxBlockSize *) first [left; exact Hin | right; subst v; reflexivity].
Qed.

Lemma dctx_maxwin_ok : forall d size, dctx_ok d -> dctx_ok (fst (dctx_set_max_window_size d size)).
Proof.
  intros d size Hd. unfold dctx_set_max_window_size.
  destruct Hd as ((lo & hi & Hb & Hm & Hhi) & Hrest). rewrite Hb.
  destruct (negb _); [cbn [fst]; split; [exists lo, hi; auto | exact Hrest]|].
  zcases; cbn [fst]; split; try exact Hrest; exists lo, hi; cbn [d_maxWindowSize]; repeat split; try assumption; lia.
Qed.

Lemma dctx_reset_ok : forall d dir, dctx_ok d -> dctx_ok (fst (dctx_reset d dir)).
Proof.
  intros d dir Hd. unfold dctx_reset.
  destruct (_ || _); destruct (_ || _); cbn [dctx_set_stage d_stage stage_is_init fst];
    try destruct (d_stage d); cbn [stage_is_init fst]; try exact Hd; apply dctx_ok_defaults.
Qed.

(* the dictionary calls and the decoding calls leave every parameter field as it is *)
Definition dsame (d d' : dctx) : Prop :=
  d_format d' = d_format d /\ d_maxWindowSize d' = d_maxWindowSize d /\ d_outBufferMode d' = d_outBufferMode d
  /\ d_forceIgnoreChecksum d' = d_forceIgnoreChecksum d /\ d_refMultipleDDicts d' = d_refMultipleDDicts d
  /\ d_disableHufAsm d' = d_disableHufAsm d /\ d_maxBlockSizeParam d' = d_maxBlockSizeParam d /\ d_static d' = d_static d.

Lemma dctx_ok_same : forall d d', dsame d d' -> dctx_ok d -> dctx_ok d'.
Proof.
  intros d d' (E1 & E2 & E3 & E4 & E5 & E6 & E7 & _) H. unfold dctx_ok in *. rewrite E1, E2, E3, E4, E5, E6, E7. exact H.
Qed.

Lemma dsame_refl : forall d, dsame d d.
Proof. intro d. repeat split. Qed.
Lemma dsame_dict_stage : forall d x s, dsame d (dctx_set_stage (dctx_set_dict d x) s).
Proof. intros. repeat split. Qed.

Ltac dsame_tac :=
  repeat match goal with
         | |- context [if ?c then _ else _] => destruct c
         | |- context [let '(_, _) := ?e in _] => destruct e
         | |- context [match ?e with (_, _) => _ end] => destruct e
         end;
  cbn [fst]; first [apply dsame_refl | apply dsame_dict_stage | repeat split].

Lemma dsame_refddict : forall d k, dsame d (fst (dctx_refddict d k)).
Proof. intros. unfold dctx_refddict. dsame_tac. Qed.
Lemma dsame_load : forall d k, dsame d (fst (dctx_load d k)).
Proof. intros. unfold dctx_load. dsame_tac. Qed.
Lemma dsame_refprefix : forall d k, dsame d (fst (dctx_refprefix d k)).
Proof. intros. unfold dctx_refprefix. dsame_tac. Qed.
Lemma dsame_begin : forall st d, dsame d (dctx_begin_gen st d).
Proof. intros. unfold dctx_begin_gen. apply dsame_dict_stage. Qed.
Lemma dsame_end : forall st d, dsame d (dctx_end_gen st d).
Proof. intros. unfold dctx_end_gen. apply dsame_dict_stage. Qed.
Lemma dsame_frame : forall st d, dsame d (dctx_frame_gen st d).
Proof. intros. unfold dctx_frame_gen. apply dsame_dict_stage. Qed.
Lemma dsame_bad : forall st d, dsame d (dctx_bad_gen st d).
Proof. intros. unfold dctx_bad_gen. apply dsame_dict_stage. Qed.
Lemma dsame_fx : forall st d k, dsame d (dctx_fx_gen st d k).
Proof. intros. unfold dctx_fx_gen. cbv zeta. destruct (_ && _ && _); apply dsame_dict_stage. Qed.
Lemma dsame_dec_stream : forall st d f, dsame d (fst (dctx_dec_stream_gen st d f)).
Proof. intros. unfold dctx_dec_stream_gen. destruct (dd_stream_header _ _ _ _). cbn [fst]. apply dsame_dict_stage. Qed.
Lemma dsame_dec_oneshot : forall st d fs, dsame d (fst (dctx_dec_oneshot_gen st d fs)).
Proof.
  intros. unfold dctx_dec_oneshot_gen. destruct (dd_get _). destruct (negb _); [cbn [fst]; apply dsame_dict_stage|].
  destruct (dd_oneshot_frames _ _ _ _ _). cbn [fst]. apply dsame_dict_stage.
Qed.
Lemma dsame_dec_stream_disp : forall st d f, dsame d (fst (dctx_dec_stream_disp st d f)).
Proof.
  intros. unfold dctx_dec_stream_disp. destruct (_ && _); [|apply dsame_dec_stream].
  unfold dctx_dec_stream_once. cbn [fst]. apply dsame_dict_stage.
Qed.
Lemma stream_disp_not_once : forall st d f, dd_uses (dd_fx_pre st d (frame_fid f)) <> 1 -> dctx_dec_stream_disp st d f = dctx_dec_stream_gen st d f.
Proof.
  intros st d f H. unfold dctx_dec_stream_disp. destruct (Z.eqb_spec (dd_uses (dd_fx_pre st d (frame_fid f))) 1); [contradiction|].
  rewrite andb_false_r. reflexivity.
Qed.
Lemma dsame_dec_oneshot_disp : forall st d fs, dsame d (fst (dctx_dec_oneshot_disp st d fs)).
Proof.
  intros. unfold dctx_dec_oneshot_disp. destruct (_ =? 1); [|apply dsame_dec_oneshot].
  unfold dctx_dec_oneshot_once. destruct (negb _); [cbn [fst]; apply dsame_dict_stage|].
  destruct (dd_oneshot_frames _ _ _ _ _). cbn [fst]. apply dsame_dict_stage.
Qed.
Lemma oneshot_disp_not_once : forall st d fs, dd_uses (d_dict d) <> 1 -> dctx_dec_oneshot_disp st d fs = dctx_dec_oneshot_gen st d fs.
Proof. intros st d fs H. unfold dctx_dec_oneshot_disp. destruct (Z.eqb_spec (dd_uses (d_dict d)) 1); [contradiction | reflexivity]. Qed.
Lemma dsame_dec_using : forall st d k f, dsame d (fst (dctx_dec_using_gen st d k f)).
Proof.
  intros. unfold dctx_dec_using_gen. destruct (negb _); [cbn [fst]; apply dsame_dict_stage|].
  destruct (dd_oneshot_frame _ _ _ _ _) as [[x1 u] ok]. cbn [fst]. apply dsame_dict_stage.
Qed.

Lemma dsame_dec_raw : forall v d k f, dsame d (fst (dctx_dec_raw_gen v d k f)).
Proof. intros. unfold dctx_dec_raw_gen. destruct (negb _); cbn [fst]; apply dsame_dict_stage. Qed.

Lemma dctx_refddict_ok : forall d k, dctx_ok d -> dctx_ok (fst (dctx_refddict d k)).
Proof. intros d k Hd. eapply dctx_ok_same; [apply dsame_refddict | exact Hd]. Qed.

Definition dworld_ok (w : world) : Prop := dctx_ok (w_d0 w) /\ dctx_ok (w_d1 w).

Lemma get_d_ok : forall w o, dworld_ok w -> dctx_ok (get_d w o).
Proof. intros w [] [H0 H1]; assumption. Qed.
Lemma put_d_dok : forall w o d, dworld_ok w -> dctx_ok d -> dworld_ok (put_d w o d).
Proof. intros w [] d [H0 H1] Hd; split; assumption. Qed.
Lemma put_c_dok : forall w o c, dworld_ok w -> dworld_ok (put_c w o c).
Proof. intros w [] c H; exact H. Qed.

Lemma dstep_ok : forall w x, dworld_ok w -> dworld_ok (fst (step w x)).
Proof.
  intros w x Hw.
  destruct x; cbn [step];
    repeat match goal with |- context [let '(_, _) := ?e in _] => destruct e eqn:?E end;
    cbn [fst]; try exact Hw; try (apply put_c_dok; exact Hw);
    try (apply put_d_dok; [exact Hw|]).
  - replace d with (fst (dctx_set (get_d w o) id v)) by (rewrite E; reflexivity). apply dctx_set_ok, get_d_ok, Hw.
  - replace d with (fst (dctx_reset (get_d w o) dir)) by (rewrite E; reflexivity). apply dctx_reset_ok, get_d_ok, Hw.
  - replace d with (fst (dctx_set_max_window_size (get_d w o) size)) by (rewrite E; reflexivity). apply dctx_maxwin_ok, get_d_ok, Hw.
  - eapply dctx_ok_same; [apply dsame_begin | apply get_d_ok, Hw].
  - eapply dctx_ok_same; [apply dsame_end | apply get_d_ok, Hw].
  - eapply dctx_ok_same; [apply dsame_bad | apply get_d_ok, Hw].
  - eapply dctx_ok_same; [apply dsame_frame | apply get_d_ok, Hw].
  - replace d with (fst (dctx_refddict (get_d w o) k)) by (rewrite E; reflexivity). apply dctx_refddict_ok, get_d_ok, Hw.
  - split; apply dctx_ok_defaults.
  - replace d with (fst (dctx_load (get_d w o) k)) by (rewrite E; reflexivity).
    eapply dctx_ok_same; [apply dsame_load | apply get_d_ok, Hw].
  - replace d with (fst (dctx_refprefix (get_d w o) k)) by (rewrite E; reflexivity).
    eapply dctx_ok_same; [apply dsame_refprefix | apply get_d_ok, Hw].
  - eapply dctx_ok_same; [apply dsame_fx | apply get_d_ok, Hw].
  - replace d with (fst (dctx_dec_stream (get_d w o) f)) by (rewrite E; reflexivity).
    eapply dctx_ok_same; [apply dsame_dec_stream_disp | apply get_d_ok, Hw].
  - replace d with (fst (dctx_dec_oneshot (get_d w o) fs)) by (rewrite E; reflexivity).
    eapply dctx_ok_same; [apply dsame_dec_oneshot_disp | apply get_d_ok, Hw].
  - replace d with (fst (dctx_dec_using (get_d w o) k f)) by (rewrite E; reflexivity).
    eapply dctx_ok_same; [apply dsame_dec_using | apply get_d_ok, Hw].
  - replace d with (fst (dctx_dec_raw (get_d w o) k f)) by (rewrite E; reflexivity).
    eapply dctx_ok_same; [apply dsame_dec_raw | apply get_d_ok, Hw].
Qed.

Lemma history_dparams_within_bounds_l : forall ops o p,
  let d := get_d (run world_new ops) o in
  (in_dbounds p (dctx_get_p d p) \/ (p = D_maxBlockSize /\ dctx_get_p d p = 0))
  /\ 0 < d_maxWindowSize d mod 2 ^ 32.
Proof.
  intros ops o p.
  assert (Hw : dworld_ok (run world_new ops)).
  { assert (G : forall ops w, dworld_ok w -> dworld_ok (run w ops)).
    { induction ops0 as [|x ops0 IH]; intros w Hw; [exact Hw|]. unfold run. cbn [fold_left]. apply IH, dstep_ok, Hw. }
    apply G. split; apply dctx_ok_defaults. }
  pose proof (get_d_ok _ o Hw) as Hd. cbn zeta. split; [apply dctx_ok_get; exact Hd|].
  destruct Hd as ((lo & hi & Hb & Hm & Hhi) & _).
  assert (0 <= lo) by (with_dbounds D_windowLogMax; rewrite Hb' in Hb; inversion Hb; lia).
  assert (2 ^ hi <= 2 ^ 31) by (apply Z.pow_le_mono_r; lia).
  assert (0 < 2 ^ lo) by (apply Z.pow_pos_nonneg; lia).
  rewrite Z.mod_small by (change (2 ^ 32) with (2 * 2 ^ 31); lia). lia.
Qed.

(* D stickiness: only set / setMaxWindowSize / reset on this object (or a new world) change its parameters *)
Definition touches_dparams (o : bool) (x : op) : bool :=
  match x with
  | ODSet o' _ _ | ODReset o' _ | ODMaxWin o' _ => Bool.eqb o o'
  | ONew => true
  | _ => false
  end.

Definition dparams_of (d : dctx) : list Z :=
  [d_format d; d_maxWindowSize d; d_outBufferMode d; d_forceIgnoreChecksum d; d_refMultipleDDicts d; d_disableHufAsm d; d_maxBlockSizeParam d].

Lemma get_put_d_same : forall w o d, get_d (put_d w o d) o = d.
Proof. intros w [] d; reflexivity. Qed.
Lemma get_put_d_other : forall w o o' d, o <> o' -> get_d (put_d w o' d) o = get_d w o.
Proof. intros w [] [] d H; try reflexivity; congruence. Qed.
Lemma get_d_put_c : forall w o o' c, get_d (put_c w o' c) o = get_d w o.
Proof. intros w [] [] c; reflexivity. Qed.
Lemma get_d_put_p : forall w o s, get_d (put_p w s) o = get_d w o.
Proof. intros w [] s; reflexivity. Qed.

Lemma dsame_dparams : forall d d', dsame d d' -> dparams_of d' = dparams_of d.
Proof. intros d d' (E1 & E2 & E3 & E4 & E5 & E6 & E7 & _). unfold dparams_of. rewrite E1, E2, E3, E4, E5, E6, E7. reflexivity. Qed.

Lemma dstep_sticky : forall w x o, touches_dparams o x = false ->
  dparams_of (get_d (fst (step w x)) o) = dparams_of (get_d w o).
Proof.
  intros w x o Ht.
  destruct x; cbn [step touches_dparams] in *;
    repeat match goal with |- context [let '(_, _) := ?e in _] => destruct e eqn:?E end;
    cbn [fst]; rewrite ?get_d_put_c, ?get_d_put_p; try reflexivity; try discriminate Ht;
    try (revert Ht; destruct (Bool.eqb_spec o o0) as [->|Hne]; intro Ht;
         [ try discriminate Ht; rewrite get_put_d_same | rewrite get_put_d_other by assumption; reflexivity ]);
    try reflexivity.
  - replace d with (fst (dctx_refddict (get_d w o0) k)) by (rewrite E; reflexivity). apply dsame_dparams, dsame_refddict.
  - replace d with (fst (dctx_load (get_d w o0) k)) by (rewrite E; reflexivity). apply dsame_dparams, dsame_load.
  - replace d with (fst (dctx_refprefix (get_d w o0) k)) by (rewrite E; reflexivity). apply dsame_dparams, dsame_refprefix.
  - apply dsame_dparams. unfold dctx_fx. apply dsame_fx.
  - replace d with (fst (dctx_dec_stream (get_d w o0) f)) by (rewrite E; reflexivity). apply dsame_dparams, dsame_dec_stream_disp.
  - replace d with (fst (dctx_dec_oneshot (get_d w o0) fs)) by (rewrite E; reflexivity). apply dsame_dparams, dsame_dec_oneshot_disp.
  - replace d with (fst (dctx_dec_using (get_d w o0) k f)) by (rewrite E; reflexivity). apply dsame_dparams, dsame_dec_using.
  - replace d with (fst (dctx_dec_raw (get_d w o0) k f)) by (rewrite E; reflexivity). apply dsame_dparams, dsame_dec_raw.
Qed.

Lemma d_sticky_across_frames_l : forall ops w o,
  Forall (fun x => touches_dparams o x = false) ops ->
  dparams_of (get_d (run w ops) o) = dparams_of (get_d w o).
Proof.
  induction ops as [|x ops IH]; intros w o Hf; [reflexivity|].
  inversion Hf; subst. unfold run. cbn [fold_left]. fold (run (fst (step w x)) ops).
  rewrite IH by assumption. apply dstep_sticky. assumption.
Qed.

(* ------------------------------------------------------------------ the regenerated tables *)
Definition int32 (v : Z) : bool := (- 2 ^ 31 <=? v) && (v <? 2 ^ 31).

Definition crow_sane (p : cparam) : bool :=
  match cbounds p with
  | Some (lo, hi) =>
      (lo <=? hi) && int32 lo && int32 hi
      && (((lo <=? cdefault p) && (cdefault p <=? hi)) || (zero_is_default p && (cdefault p =? 0)))
      && match cbounds_documented p with Some (l, h) => (l =? lo) && (h =? hi) | None => false end
  | None => false
  end.

Definition ddefault (p : dparam) : Z := dctx_get_p (dctx_new false) p.

Definition drow_sane (p : dparam) : bool :=
  match dbounds p with
  | Some (lo, hi) =>
      (lo <=? hi) && int32 lo && int32 hi
      && (((lo <=? ddefault p) && (ddefault p <=? hi)) || (match p with D_maxBlockSize => ddefault p =? 0 | _ => false end))
      && match dbounds_documented p with Some (l, h) => (l =? lo) && (h =? hi) | None => false end
  | None => false
  end.

Definition crow_known (row : Z * Z * Z) : bool :=
  match cparam_of_id (fst (fst row)) with Some _ => true | None => false end.
Definition drow_known (row : Z * Z * Z) : bool :=
  match dparam_of_id (fst (fst row)) with Some _ => true | None => false end.

Lemma ctable_sane_sweep : forallb crow_sane all_cparams = true.
Proof. vm_compute. reflexivity. Qed.
Lemma dtable_sane_sweep : forallb drow_sane all_dparams = true.
Proof. vm_compute. reflexivity. Qed.
Lemma ctable_rows_known_sweep : forallb crow_known cparam_bounds = true /\ length cparam_bounds = length all_cparams.
Proof. split; vm_compute; reflexivity. Qed.
Lemma dtable_rows_known_sweep : forallb drow_known dparam_bounds = true /\ length dparam_bounds = length all_dparams.
Proof. split; vm_compute; reflexivity. Qed.

Lemma bounds_table_sane_c : forall p,
  exists lo hi, cbounds p = Some (lo, hi) /\ lo <= hi /\ - 2 ^ 31 <= lo /\ hi < 2 ^ 31
             /\ cvalue_ok p (cdefault p) /\ cbounds_documented p = Some (lo, hi).
Proof.
  intro p. pose proof ctable_sane_sweep as H. rewrite forallb_forall in H. specialize (H p (all_cparams_complete p)).
  unfold crow_sane in H. destruct (cbounds p) as [[lo hi]|] eqn:Hb; [|discriminate H].
  exists lo, hi. split; [reflexivity|].
  destruct (cbounds_documented p) as [[l h]|]; [|rewrite Bool.andb_false_r in H; discriminate H].
  unfold int32 in H. repeat rewrite Bool.andb_true_iff in H. rewrite Bool.orb_true_iff in H.
  repeat rewrite Bool.andb_true_iff in H.
  destruct H as ((((Hle & Hlo1 & Hlo2) & Hhi1 & Hhi2) & Hd) & Hl & Hh).
  apply Z.leb_le in Hle, Hlo1, Hhi1. apply Z.ltb_lt in Hlo2, Hhi2. apply Z.eqb_eq in Hl, Hh. subst l h.
  repeat split; try assumption.
  destruct Hd as [[H1 H2]|[H1 H2]].
  - left. exists lo, hi. apply Z.leb_le in H1, H2. auto.
  - right. apply Z.eqb_eq in H2. auto.
Qed.

Lemma bounds_table_sane_d : forall p,
  exists lo hi, dbounds p = Some (lo, hi) /\ lo <= hi /\ - 2 ^ 31 <= lo /\ hi < 2 ^ 31
             /\ (lo <= ddefault p <= hi \/ (p = D_maxBlockSize /\ ddefault p = 0)) /\ dbounds_documented p = Some (lo, hi).
Proof.
  intro p. pose proof dtable_sane_sweep as H. rewrite forallb_forall in H. specialize (H p (all_dparams_complete p)).
  unfold drow_sane in H. destruct (dbounds p) as [[lo hi]|] eqn:Hb; [|discriminate H].
  exists lo, hi. split; [reflexivity|].
  destruct (dbounds_documented p) as [[l h]|]; [|rewrite Bool.andb_false_r in H; discriminate H].
  unfold int32 in H. repeat rewrite Bool.andb_true_iff in H. rewrite Bool.orb_true_iff in H.
  repeat rewrite Bool.andb_true_iff in H.
  destruct H as ((((Hle & Hlo1 & Hlo2) & Hhi1 & Hhi2) & Hd) & Hl & Hh).
  apply Z.leb_le in Hle, Hlo1, Hhi1. apply Z.ltb_lt in Hlo2, Hhi2. apply Z.eqb_eq in Hl, Hh. subst l h.
  repeat split; try assumption.
  destruct Hd as [[H1 H2]|H1].
  - left. apply Z.leb_le in H1, H2. auto.
  - right. destruct p; try discriminate H1. apply Z.eqb_eq in H1. auto.
Qed.

(* every row of the regenerated tables is a modelled parameter (a parameter added to zstd.h breaks this) *)
Lemma bounds_table_rows_modelled_l :
  (forall id lo hi, In (id, lo, hi) cparam_bounds -> exists p, id = cparam_id p)
  /\ (forall id lo hi, In (id, lo, hi) dparam_bounds -> exists p, id = dparam_id p)
  /\ length cparam_bounds = length all_cparams /\ length dparam_bounds = length all_dparams.
Proof.
  destruct ctable_rows_known_sweep as [Hc Hcl]. destruct dtable_rows_known_sweep as [Hd Hdl].
  rewrite forallb_forall in Hc, Hd. repeat split; try assumption.
  - intros id lo hi Hin. specialize (Hc _ Hin). unfold crow_known in Hc. cbn [fst] in Hc.
    destruct (cparam_of_id id) as [p|] eqn:E; [|discriminate Hc]. exists p. apply cparam_of_id_some. exact E.
  - intros id lo hi Hin. specialize (Hd _ Hin). unfold drow_known in Hd. cbn [fst] in Hd.
    destruct (dparam_of_id id) as [p|] eqn:E; [|discriminate Hd]. exists p. apply dparam_of_id_some. exact E.
Qed.

(* ------------------------------------------------------------------ finding F2, kept as a refuted variant *)
(* with the code before fix 8508394 (rsyncable clamped with the bounds of overlapLog) the store invariant fails *)
Lemma rsyncable_clamp_refuted_l :
  exists v s', ~ in_cbounds C_rsyncable v
            /\ cparams_set_prefix cparams_default C_rsyncable v = (s', Ok)
            /\ ~ cvalue_ok C_rsyncable (s' C_rsyncable).
Proof.
  exists 2. eexists. split; [|split].
  - intros (lo & hi & Hb & Hv). vm_compute in Hb. injection Hb as <- <-. lia.
  - unfold cparams_set_prefix. rewrite cparams_set_gen_char.
    replace (cstored C_overlapLog C_rsyncable 2) with (Some 2) by (vm_compute; reflexivity). reflexivity.
  - rewrite cupd_same. intros [(lo & hi & Hb & Hv)|[Hz _]]; [|discriminate Hz].
    vm_compute in Hb. injection Hb as <- <-. lia.
Qed.

(* ------------------------------------------------------------------ fresh objects *)
Lemma fresh_objects_hold_defaults_l :
  (forall o, c_params (cctx_new o) = cparams_default) /\ w_p world_new = cparams_default
  /\ (forall o, c_params (get_c world_new o) = cparams_default)
  /\ (forall o, dparams_of (get_d world_new o) = [0; 2 ^ z_ZSTD_WINDOWLOG_LIMIT_DEFAULT + 1; 0; 0; 0; 0; 0]).
Proof. split; [intros []; reflexivity|]. split; [reflexivity|]. split; intros []; reflexivity. Qed.

(* finding F22 (fixed by 32f35e7): with the old ZSTD_initStaticCCtx a fresh static context did not hold the defaults,
   although a parameter reset installs them *)
Lemma static_cctx_fresh_params_refuted_l :
  c_params (cctx_new_prefix true) C_contentSizeFlag <> cparams_default C_contentSizeFlag
  /\ c_params (cctx_new_prefix true) C_compressionLevel <> cparams_default C_compressionLevel
  /\ c_params (fst (cctx_reset (cctx_new_prefix true) z_ZSTD_reset_parameters)) = cparams_default.
Proof. split; [|split]; vm_compute; try discriminate; reflexivity. Qed.

(* ------------------------------------------------------------------ the hypotheses are satisfiable *)
Example ex_in_bounds : in_cbounds C_windowLog 17.
Proof. with_bounds C_windowLog. eapply in_cbounds_intro; [exact Hb' | lia]. Qed.

Example ex_set_readback :
  let c := cctx_new false in
  exists c', cctx_set c (cparam_id C_windowLog) 17 = (c', Ok) /\ cctx_get c' (cparam_id C_windowLog) = (Ok, 17).
Proof.
  destruct (set_in_bounds_accepted_readback_l (cctx_new false) C_windowLog 17 eq_refl ex_in_bounds eq_refl)
    as (c' & H1 & H2 & _).
  exists c'. split; assumption.
Qed.

Example ex_midframe :
  let c := cctx_begin (cctx_new false) in
  c_stage c = S_mid
  /\ snd (cctx_set c (cparam_id C_windowLog) 17) = Err E_stage_wrong
  /\ snd (cctx_set c (cparam_id C_hashLog) 17) = Ok.
Proof. vm_compute. repeat split. Qed.

Example ex_history :
  let ops := [OCSet false (cparam_id C_checksumFlag) 1; OCBegin false; OCEnd false; OCFrame false] in
  Forall op_wf ops /\ Forall (fun x => touches_cparams false x = false) (tl ops)
  /\ snd (snd (step (run world_new ops) (OCFrame false))) = [1; 1; 0; 0].
Proof. split; [repeat constructor|]. split; [repeat constructor|]. vm_compute. reflexivity. Qed.
