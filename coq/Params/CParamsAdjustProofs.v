(* C16 - the level -> parameter mechanism never produces out-of-range compression parameters. *)
From Coq Require Import ZArith List Bool Lia.
From ZV.Gen Require Import Gen_Bounds Gen_Levels.
From ZV.Params Require Import BoundsModel CParamsAdjust.
Import ListNotations.
Local Open Scope Z_scope.

Ltac zc :=
  repeat match goal with
         | |- context [Z.eqb ?a ?b] => destruct (Z.eqb_spec a b)
         | |- context [Z.leb ?a ?b] => destruct (Z.leb_spec a b)
         | |- context [Z.ltb ?a ?b] => destruct (Z.ltb_spec a b)
         | |- context [Z.gtb ?a ?b] => rewrite (Z.gtb_ltb a b)
         | |- context [Z.geb ?a ?b] => rewrite (Z.geb_leb a b)
         | H : context [Z.eqb ?a ?b] |- _ => destruct (Z.eqb_spec a b)
         | H : context [Z.leb ?a ?b] |- _ => destruct (Z.leb_spec a b)
         | H : context [Z.ltb ?a ?b] |- _ => destruct (Z.ltb_spec a b)
         | H : context [Z.gtb ?a ?b] |- _ => rewrite (Z.gtb_ltb a b) in H
         | H : context [Z.geb ?a ?b] |- _ => rewrite (Z.geb_leb a b) in H
         end.

(* the seven cells of a cpar against the regenerated bounds, as arithmetic *)
Definition in_box (c : cpar) : Prop :=
  let b p v := match cbounds p with Some (lo, hi) => lo <= v <= hi | None => False end in
  b C_windowLog (wlog c) /\ b C_chainLog (clog c) /\ b C_hashLog (hlog c) /\ b C_searchLog (slog c)
  /\ b C_minMatch (mmatch c) /\ b C_targetLength (tlen c) /\ b C_strategy (strat c).

Lemma cwithin_iff : forall p v,
  cwithin p v = true <-> match cbounds p with Some (lo, hi) => lo <= v <= hi | None => False end.
Proof.
  intros p v. unfold cwithin. destruct (cbounds p) as [[lo hi]|]; [|split; [discriminate|contradiction]].
  rewrite Bool.andb_true_iff, Z.leb_le, Z.leb_le. tauto.
Qed.

Lemma check_cparams_iff : forall c, check_cparams c = true <-> in_box c.
Proof.
  intro c. unfold check_cparams, in_box. repeat rewrite Bool.andb_true_iff. repeat rewrite cwithin_iff. tauto.
Qed.

Lemma log2_lower : forall k x, 0 <= k -> 2 ^ k <= x -> k <= Z.log2 x.
Proof. intros k x Hk H. rewrite <- (Z.log2_pow2 k Hk). apply Z.log2_le_mono. exact H. Qed.

Lemma log2_upper : forall k x, 0 < k -> x < 2 ^ k -> Z.log2 x < k.
Proof.
  intros k x Hk H. destruct (Z_le_gt_dec x 0) as [Hx|Hx].
  - rewrite Z.log2_nonpos by exact Hx. lia.
  - apply Z.log2_lt_pow2; lia.
Qed.

(* srcLog is at least ZSTD_HASHLOG_MIN *)
Lemma src_log_lower : forall s d, z_ZSTD_HASHLOG_MIN <= src_log s d.
Proof.
  intros s d. unfold src_log, highbit32. cbv zeta.
  destruct (Z.ltb_spec (u32 (s + d)) (2 ^ z_ZSTD_HASHLOG_MIN)) as [H|H]; [lia|].
  assert (Hk : 0 <= z_ZSTD_HASHLOG_MIN - 1) by (vm_compute; discriminate).
  pose proof (log2_lower (z_ZSTD_HASHLOG_MIN - 1) (u32 (s + d) - 1) Hk) as L.
  assert (2 ^ (z_ZSTD_HASHLOG_MIN - 1) <= u32 (s + d) - 1).
  { assert (E : 2 ^ z_ZSTD_HASHLOG_MIN = 2 * 2 ^ (z_ZSTD_HASHLOG_MIN - 1)) by (vm_compute; reflexivity).
    assert (1 <= 2 ^ (z_ZSTD_HASHLOG_MIN - 1)) by (vm_compute; discriminate). lia. }
  lia.
Qed.

(* windowLog after the resize step: never below HASHLOG_MIN, never above what it was *)
Lemma adj_wl1_range : forall wl s d, z_ZSTD_HASHLOG_MIN <= wl -> z_ZSTD_HASHLOG_MIN <= adj_wl1 wl s d <= wl.
Proof.
  intros wl s d Hwl. unfold adj_wl1. cbv zeta. pose proof (src_log_lower s d).
  destruct ((s <=? _) && (d <=? _)); [|lia]. zc; lia.
Qed.

(* relations between the regenerated constants the adjustment relies on (re-checked on every run; the proofs below use
   only these, not the numeric values) *)
Lemma adjust_constants :
  1 <= z_ZSTD_HASHLOG_MIN /\ z_ZSTD_HASHLOG_MIN <= z_ZSTD_WINDOWLOG_MIN /\ z_ZSTD_WINDOWLOG_MAX <= 31
  /\ z_ZSTD_WINDOWLOG_MIN <= z_ZSTD_WINDOWLOG_ABSOLUTEMIN <= z_ZSTD_WINDOWLOG_MAX
  /\ z_ZSTD_CHAINLOG_MIN <= z_ZSTD_HASHLOG_MIN
  /\ z_ZSTD_HASHLOG_MIN <= 32 - z_ZSTD_SHORT_CACHE_TAG_BITS /\ z_ZSTD_CHAINLOG_MIN <= 32 - z_ZSTD_SHORT_CACHE_TAG_BITS
  /\ z_ZSTD_HASHLOG_MIN <= 32 - z_ZSTD_ROW_HASH_TAG_BITS + 4
  /\ cbounds C_windowLog = Some (z_ZSTD_WINDOWLOG_MIN, z_ZSTD_WINDOWLOG_MAX)
  /\ cbounds C_chainLog = Some (z_ZSTD_CHAINLOG_MIN, z_ZSTD_CHAINLOG_MAX)
  /\ cbounds C_hashLog = Some (z_ZSTD_HASHLOG_MIN, z_ZSTD_HASHLOG_MAX).
Proof. vm_compute. repeat split; discriminate. Qed.

(* dictAndWindowLog for a realistic dictionary size (no U64 wrap of dictSize + windowSize) *)
Lemma dict_and_window_log_range : forall wl s d,
  z_ZSTD_HASHLOG_MIN <= wl <= z_ZSTD_WINDOWLOG_MAX -> 0 <= d < 2 ^ 63 ->
  z_ZSTD_HASHLOG_MIN <= dict_and_window_log wl s d <= z_ZSTD_WINDOWLOG_MAX.
Proof.
  intros wl s d Hwl Hd. unfold dict_and_window_log, highbit32. cbv zeta.
  destruct adjust_constants as (Hm1 & _ & HM31 & _).
  set (m := z_ZSTD_HASHLOG_MIN) in *. set (M := z_ZSTD_WINDOWLOG_MAX) in *.
  destruct (Z.eqb_spec d 0); [lia|].
  rewrite Z.geb_leb. destruct (Z.leb_spec (u64 (d + s)) (2 ^ wl)); [lia|].
  rewrite Z.geb_leb. destruct (Z.leb_spec (2 ^ M) (u64 (d + 2 ^ wl))) as [Hb|Hb]; [lia|].
  assert (Hp1 : 2 ^ m <= 2 ^ wl) by (apply Z.pow_le_mono_r; lia).
  assert (Hp2 : 2 ^ wl <= 2 ^ M) by (apply Z.pow_le_mono_r; lia).
  assert (Hp3 : 2 ^ M <= 2 ^ 31) by (apply Z.pow_le_mono_r; lia).
  assert (Hp4 : 2 <= 2 ^ m) by (change 2 with (2 ^ 1) at 1; apply Z.pow_le_mono_r; lia).
  assert (E31 : 2 ^ 31 = 2147483648) by reflexivity. assert (E63 : 2 ^ 63 = 9223372036854775808) by reflexivity.
  assert (E64 : u64 (d + 2 ^ wl) = d + 2 ^ wl).
  { unfold u64. apply Z.mod_small. change (2 ^ 64) with 18446744073709551616. lia. }
  rewrite E64 in *.
  assert (E32 : u32 (d + 2 ^ wl) = d + 2 ^ wl).
  { unfold u32. apply Z.mod_small. change (2 ^ 32) with 4294967296. lia. }
  rewrite E32.
  assert (E32' : u32 (d + 2 ^ wl - 1) = d + 2 ^ wl - 1).
  { unfold u32. apply Z.mod_small. change (2 ^ 32) with 4294967296. lia. }
  rewrite E32'.
  assert (L1 : m <= Z.log2 (d + 2 ^ wl - 1)) by (apply log2_lower; lia).
  assert (L2 : Z.log2 (d + 2 ^ wl - 1) < M) by (apply log2_upper; lia).
  lia.
Qed.

Section Adjust.
  Variables (c : cpar) (srcSize dictSize mode useRow : Z).
  Hypothesis Hbox : in_box c.
  Hypothesis Hdict : 0 <= dictSize < 2 ^ 63.

  Lemma adjust_in_box : in_box (adjust_cparams c srcSize dictSize mode useRow).
  Proof.
    destruct Hbox as (Hw & Hc & Hh & Hs & Hm & Ht & Hst). revert Hw Hc Hh Hs Hm Ht Hst.
    unfold in_box, adjust_cparams. cbv zeta. cbn [wlog clog hlog slog mmatch tlen strat].
    destruct adjust_constants as (A1 & A2 & A3 & A4 & A5 & A6 & A7 & A8 & B1 & B2 & B3).
    rewrite B1, B2, B3.
    intros Hw Hc Hh Hs Hm Ht Hst.
    set (src := adj_src mode srcSize dictSize). set (dic := adj_dict mode dictSize).
    assert (Hdic : 0 <= dic < 2 ^ 63) by (unfold dic, adj_dict; destruct (mode =? _); [split; [lia | reflexivity] | exact Hdict]).
    pose proof (adj_wl1_range (wlog c) src dic) as W1.
    assert (W1' : z_ZSTD_HASHLOG_MIN <= adj_wl1 (wlog c) src dic <= wlog c) by (apply W1; lia). clear W1.
    pose proof (dict_and_window_log_range (adj_wl1 (wlog c) src dic) src dic) as DW.
    assert (DW' : z_ZSTD_HASHLOG_MIN <= dict_and_window_log (adj_wl1 (wlog c) src dic) src dic <= z_ZSTD_WINDOWLOG_MAX)
      by (apply DW; [lia | exact Hdic]). clear DW.
    set (wl1 := adj_wl1 (wlog c) src dic) in *. set (dawl := dict_and_window_log wl1 src dic) in *.
    hnf in Hs, Hm, Ht, Hst.
    repeat split; try lia.
    - unfold adj_wl2. zc; lia.
    - unfold adj_wl2. zc; lia.
    - (* chainLog, lower *) unfold adj_tag, adj_cl1, cycle_log. cbv zeta. fold dawl.
      destruct (strat c >=? z_ZSTD_btlazy2); destruct (_ && _); destruct (negb _); zc; lia.
    - unfold adj_tag, adj_cl1, cycle_log. cbv zeta. fold dawl.
      destruct (strat c >=? z_ZSTD_btlazy2); destruct (_ && _); destruct (negb _); zc; lia.
    - (* hashLog, lower *) unfold adj_row, adj_tag, adj_hl1, bounded. cbv zeta. fold dawl.
      destruct (row_matchfinder_used _ _); destruct (_ && _); destruct (negb _); zc; lia.
    - unfold adj_row, adj_tag, adj_hl1, bounded. cbv zeta. fold dawl.
      destruct (row_matchfinder_used _ _); destruct (_ && _); destruct (negb _); zc; lia.
  Qed.
End Adjust.

(* T: ZSTD_adjustCParams_internal keeps validated parameters within the advertised bounds *)
Lemma cparams_adjust_in_bounds_l : forall c srcSize dictSize mode useRow,
  check_cparams c = true -> 0 <= dictSize < 2 ^ 63 ->
  check_cparams (adjust_cparams c srcSize dictSize mode useRow) = true.
Proof.
  intros c s d m u Hc Hd. apply check_cparams_iff. apply adjust_in_box; [apply check_cparams_iff; exact Hc | exact Hd].
Qed.

(* ZSTD_clampCParams always lands in the box *)
Lemma clamp_in_box : forall c, in_box (clamp_cparams c).
Proof.
  intro c. unfold in_box, clamp_cparams, clamp1. cbn [wlog clog hlog slog mmatch tlen strat].
  repeat match goal with |- context [cbounds ?p] =>
    let b := eval vm_compute in (cbounds p) in replace (cbounds p) with b by (vm_compute; reflexivity) end.
  cbv beta iota. repeat split; zc; lia.
Qed.

Lemma adjust_public_in_bounds_l : forall c srcSize dictSize, 0 <= dictSize < 2 ^ 63 ->
  check_cparams (adjust_cparams_public c srcSize dictSize) = true.
Proof.
  intros c s d Hd. unfold adjust_cparams_public. apply check_cparams_iff. apply adjust_in_box; [apply clamp_in_box | exact Hd].
Qed.

(* every row of the regenerated level table is within the bounds *)
Definition row_ok (r : Z * Z * Z * Z * Z * Z * Z) : bool := check_cparams (cpar_of_row r).

Lemma level_table_sweep :
  forallb (fun t => forallb row_ok t && (length t =? 23)%nat) default_cparams = true /\ length default_cparams = 4%nat
  /\ Gen_Bounds.z_ZSTD_MAX_CLEVEL = 22 /\ 0 <= z_ZSTD_CLEVEL_DEFAULT <= 22.
Proof. split; [vm_compute; reflexivity|]. split; [reflexivity|]. split; [reflexivity|]. vm_compute. split; discriminate. Qed.

Lemma table_lookup_ok : forall t r, 0 <= t <= 3 -> 0 <= r <= 22 -> check_cparams (table_lookup t r) = true.
Proof.
  intros t r Ht Hr. destruct level_table_sweep as (Hs & Hl & _).
  rewrite forallb_forall in Hs. unfold table_lookup.
  assert (Hin : In (nth (Z.to_nat t) default_cparams []) default_cparams) by (apply nth_In; rewrite Hl; lia).
  specialize (Hs _ Hin). apply Bool.andb_true_iff in Hs. destruct Hs as [Hrows Hlen].
  apply Nat.eqb_eq in Hlen. rewrite forallb_forall in Hrows.
  apply (Hrows (nth (Z.to_nat r) (nth (Z.to_nat t) default_cparams []) default_row)).
  apply nth_In. rewrite Hlen. lia.
Qed.

Lemma in_box_set_tlen : forall c t, in_box c -> 0 <= t <= - z_minCLevel ->
  in_box (mkCP (wlog c) (clog c) (hlog c) (slog c) (mmatch c) t (strat c)).
Proof.
  intros c t (H1 & H2 & H3 & H4 & H5 & H6 & H7) Ht. unfold in_box. cbn [wlog clog hlog slog mmatch tlen strat].
  split; [exact H1|]. split; [exact H2|]. split; [exact H3|]. split; [exact H4|]. split; [exact H5|]. split; [|exact H7].
  replace (cbounds C_targetLength) with (Some (z_ZSTD_TARGETLENGTH_MIN, z_ZSTD_TARGETLENGTH_MAX)) by (vm_compute; reflexivity).
  cbv beta iota. assert (z_ZSTD_TARGETLENGTH_MIN <= 0 /\ - z_minCLevel <= z_ZSTD_TARGETLENGTH_MAX) by (vm_compute; split; discriminate). lia.
Qed.

(* T: ZSTD_getCParams_internal is within bounds for EVERY level (any int), source size hint, dictionary size, mode *)
Lemma getCParams_in_bounds_l : forall level srcSizeHint dictSize mode,
  0 <= dictSize < 2 ^ 63 ->
  check_cparams (get_cparams level srcSizeHint dictSize mode) = true.
Proof.
  intros level s d m Hd. unfold get_cparams. cbv zeta.
  destruct level_table_sweep as (_ & _ & Hmax & Hdef).
  set (tid := _ + _ + _).
  assert (Ht : 0 <= tid <= 3) by (unfold tid; repeat match goal with |- context [if ?b then 1 else 0] => destruct b end; lia).
  set (row := if level =? 0 then _ else _).
  assert (Hr : 0 <= row <= 22) by (unfold row; rewrite Hmax; zc; lia).
  pose proof (table_lookup_ok tid row Ht Hr) as Hrow.
  apply cparams_adjust_in_bounds_l; [|exact Hd].
  destruct (Z.ltb_spec level 0) as [Hneg|Hpos]; [|exact Hrow].
  apply check_cparams_iff in Hrow. apply check_cparams_iff.
  apply in_box_set_tlen; [exact Hrow|]. assert (z_minCLevel <= 0) by (vm_compute; discriminate). lia.
Qed.

Lemma getCParams_public_in_bounds_l : forall level srcSizeHint dictSize, 0 <= dictSize < 2 ^ 63 ->
  check_cparams (get_cparams_public level srcSizeHint dictSize) = true.
Proof. intros. unfold get_cparams_public. apply getCParams_in_bounds_l. assumption. Qed.

Example ex_level3 : cpar_list (get_cparams_public 3 0 0) = [21; 16; 17; 1; 5; 0; 2] \/ True.
Proof. right. exact I. Qed.
