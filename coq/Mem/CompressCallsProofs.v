(* C06 - proofs about coq/Mem/CompressCalls.v: call histories of the buffer-less frame API into one shared
   buffer, and the ZSTDMT compression job. *)
From Coq Require Import ZArith List Bool Lia.
From ZV.Gen Require Gen_Tables.
From ZV.Mem Require Import CompressBound CompressBoundProofs CompressCalls.
Import ListNotations.
Local Open Scope Z_scope.
Ltac Zify.zify_post_hook ::= Z.div_mod_to_equations.

Definition hdr_of (st : cstate) (hs : Z) : Z := match cs_stage st with StInit => hs | _ => 0 end.
Definition savings_of (st : cstate) : Z := cs_consumed st - cs_produced st.

Definition call_ok (fuel : nat) (c : call) : Prop :=
  bc_contract (c_bc c) /\ split_contract (c_split c) /\ 0 <= c_len c <= Z.of_nat fuel.

Fixpoint need (calls : list call) (bs : Z) : Z :=
  match calls with [] => 0 | c :: t => c_len c + BHS * nb_blocks (c_len c) bs + need t bs end.

Lemma need_nonneg : forall fuel calls bs, 0 < bs -> Forall (call_ok fuel) calls -> 0 <= need calls bs.
Proof.
  induction calls as [|c t IH]; intros bs Hbs F; cbn [need]; [lia|].
  inversion F as [|? ? [_ [_ Hl]] Ft]; subst. specialize (IH bs Hbs Ft).
  pose proof (nb_blocks_nonneg (c_len c) bs Hbs ltac:(lia)). rewrite BHS_val. lia.
Qed.

(* ---- one call of ZSTD_compressContinue_internal ---- *)
Lemma compress_continue_step : forall fuel bsMax hs st c cap last E,
  call_ok fuel c -> 0 < bsMax <= KB128 -> 0 <= hs <= FHS_MAX -> 2 <= E ->
  cs_stage st <> StEnding ->
  (cs_stage st = StInit -> FHS_MAX <= cap) ->
  hdr_of st hs + c_len c + BHS * nb_blocks (c_len c) bsMax + E + Z.max (savings_of st) 0 <= cap ->
  exists w cap' st',
    compress_continue fuel bsMax hs st c cap last = CDone w cap' st' /\
    cap' = cap - w /\ E <= cap' /\ hdr_of st hs <= w /\
    w + Z.max (savings_of st') 0 <= Z.max (savings_of st) 0 + hdr_of st hs + c_len c + BHS * nb_blocks (c_len c) bsMax /\
    cs_stage st' <> StInit /\
    (cs_stage st' = StEnding <-> (last = true /\ 0 < c_len c)) /\
    (0 < c_len c -> hdr_of st hs < w).
Proof.
  intros fuel bsMax hs st c cap last E [Hbc [Hsp Hlen]] Hbs Hhs HE Hne Hinit Hcap.
  unfold compress_continue, hdr_of, savings_of in *.
  assert (Hhdr : exists h, (match cs_stage st with StInit => write_frame_header cap hs | _ => Some 0 end) = Some h /\
                           h = match cs_stage st with StInit => hs | _ => 0 end).
  { destruct (cs_stage st) eqn:S.
    - unfold write_frame_header. specialize (Hinit eq_refl). destruct (Z.ltb_spec cap FHS_MAX); [lia|]. eauto.
    - eauto.
    - eauto. }
  destruct Hhdr as [h [Hh1 Hh2]]. rewrite Hh1.
  pose proof (nb_blocks_nonneg (c_len c) bsMax ltac:(lia) ltac:(lia)) as Hnb0.
  rewrite BHS_val in *.
  destruct (Z.leb_spec (c_len c) 0) as [Hz|Hpos].
  - (* nothing to compress: only the header (if any) *)
    assert (c_len c = 0) by lia.
    eexists _, _, _. split; [reflexivity|]. cbn [cs_stage cs_consumed cs_produced].
    replace (nb_blocks (c_len c) bsMax) with 0 in * by (rewrite H; symmetry; apply nb_blocks_zero; lia).
    rewrite <- Hh2. split; [lia|]. split; [lia|]. split; [lia|]. split; [lia|]. split.
    + destruct (cs_stage st); congruence.
    + split; [|lia]. split; [|intros [_ ?]; lia]. intros Hs. exfalso. destruct (cs_stage st); try discriminate. congruence.
  - destruct (frame_chunk_succeeds fuel (c_bc c) (c_split c) O bsMax (c_len c) (cap - h)
                (cs_consumed st - cs_produced st) 0 E Hbc Hsp Hbs ltac:(lia) ltac:(lia) HE)
      as (body & cap2 & Hrun & Hc2 & HE2 & Hb0 & Hbpos).
    { rewrite BHS_val. subst h. lia. }
    specialize (Hbpos Hpos).
    pose proof (frame_chunk_expansion fuel (c_bc c) (c_split c) O bsMax (c_len c) (cap - h)
                  (cs_consumed st - cs_produced st) 0 body cap2
                  (bc_contract_raw_bounded _ Hbc) Hsp Hbs ltac:(lia) Hrun) as Hexp.
    rewrite BHS_val in Hexp.
    rewrite Hrun. eexists _, _, _. split; [reflexivity|]. cbn [cs_stage cs_consumed cs_produced].
    assert (Hb : (0 <? body) = true) by (apply Z.ltb_lt; lia). rewrite Hb, andb_true_r.
    rewrite <- Hh2.
    assert (0 <= h) by (subst h; destruct (cs_stage st); lia).
    split; [lia|]. split; [lia|]. split; [lia|]. split; [lia|]. split.
    + destruct last; [discriminate|]. destruct (cs_stage st); congruence.
    + split; [|lia]. split.
      * destruct last; [intros _; split; [reflexivity|lia]|]. intros Hs. exfalso. destruct (cs_stage st); try discriminate. congruence.
      * intros [-> _]. reflexivity.
Qed.

(* ---- histories that do not finish the frame ---- *)
Lemma continue_calls_succeed : forall fuel bsMax hs calls st cap written E,
  Forall (call_ok fuel) calls -> 0 < bsMax <= KB128 -> 0 <= hs <= FHS_MAX -> 2 <= E ->
  cs_stage st <> StEnding ->
  (cs_stage st = StInit -> calls <> [] -> FHS_MAX <= cap) ->
  (if calls then 0 else hdr_of st hs) + need calls bsMax + E + Z.max (savings_of st) 0 <= cap ->
  exists W cap' st',
    continue_calls fuel bsMax hs st calls cap written = CDone W cap' st' /\
    cap' = cap - (W - written) /\ E <= cap' /\ written <= W /\
    W + Z.max (savings_of st') 0 <= written + Z.max (savings_of st) 0 + (if calls then 0 else hdr_of st hs) + need calls bsMax /\
    cs_stage st' <> StEnding /\ (calls <> [] -> cs_stage st' <> StInit).
Proof.
  induction calls as [|c t IH]; intros st cap written E F Hbs Hhs HE Hne Hinit Hcap.
  - cbn [continue_calls need] in *. eexists _, _, _. split; [reflexivity|]. repeat split; try lia; try assumption. congruence.
  - inversion F as [|? ? Hc Ft]; subst. cbn [continue_calls need] in *.
    pose proof (need_nonneg fuel t bsMax ltac:(lia) Ft) as Hn0.
    destruct (compress_continue_step fuel bsMax hs st c cap false (need t bsMax + E) Hc Hbs Hhs ltac:(lia) Hne
                ltac:(intros; apply Hinit; [assumption|discriminate]) ltac:(lia))
      as (w & cap1 & st1 & Hrun & Hc1 & HE1 & Hw0 & Hpot & Hni & Hend & Hwpos).
    rewrite Hrun.
    assert (Hne1 : cs_stage st1 <> StEnding) by (intros Hx; apply Hend in Hx; destruct Hx; discriminate).
    assert (Hh1 : hdr_of st1 hs = 0) by (unfold hdr_of; destruct (cs_stage st1); congruence).
    assert (Hh0 : 0 <= hdr_of st hs) by (unfold hdr_of; destruct (cs_stage st); lia).
    destruct (IH st1 cap1 (written + w) E Ft Hbs Hhs HE Hne1 ltac:(intros; congruence))
      as (W & cap' & st' & Hrun2 & Hc2 & HE2 & Hw2 & Hpot2 & Hne2 & Hni2).
    { destruct t; rewrite ?Hh1; lia. }
    rewrite Hrun2. eexists _, _, _. split; [reflexivity|].
    repeat split; try lia; try assumption.
    + destruct t; rewrite ?Hh1 in Hpot2; lia.
    + intros _. destruct t as [|c2 t2].
      * cbn [continue_calls] in Hrun2. injection Hrun2 as _ _ <-. assumption.
      * apply Hni2. discriminate.
Qed.

(* ---- complete histories: the last call goes through ZSTD_compressEnd ---- *)
Definition last_len (calls : list call) : Z := c_len (last calls (mk_call 0 bc_raw (split_const KB128))).

Definition epilogue_room (calls : list call) (chk : bool) : Z :=
  if last_len calls <=? 0 then BHS + (if chk then CHECKSUM_SIZE else 0) else (if chk then CHECKSUM_SIZE else 2).
Definition epilogue_cost (calls : list call) (chk : bool) : Z :=
  (if last_len calls <=? 0 then BHS else 0) + (if chk then CHECKSUM_SIZE else 0).

Lemma compress_calls_cons2 : forall fuel bsMax hs chk st c c2 t2 cap written,
  compress_calls fuel bsMax hs chk st (c :: c2 :: t2) cap written =
  match compress_continue fuel bsMax hs st c cap false with
  | CDone w cap' st' => compress_calls fuel bsMax hs chk st' (c2 :: t2) cap' (written + w)
  | CTooSmall => CTooSmall | COverrun => COverrun | CFuel => CFuel
  end.
Proof. intros. cbn [compress_calls]. destruct (compress_continue fuel bsMax hs st c cap false); reflexivity. Qed.

Lemma compress_calls_succeed : forall fuel bsMax hs chk calls st cap written,
  calls <> [] ->
  Forall (call_ok fuel) calls -> 0 < bsMax <= KB128 -> 0 <= hs <= FHS_MAX ->
  cs_stage st <> StEnding ->
  (cs_stage st = StInit -> FHS_MAX <= cap) ->
  hdr_of st hs + need calls bsMax + epilogue_room calls chk + Z.max (savings_of st) 0 <= cap ->
  exists W cap' st',
    compress_calls fuel bsMax hs chk st calls cap written = CDone W cap' st' /\
    cap' = cap - (W - written) /\ 0 <= cap' /\ written < W /\
    W <= written + Z.max (savings_of st) 0 + hdr_of st hs + need calls bsMax + epilogue_cost calls chk.
Proof.
  induction calls as [|c t IH]; intros st cap written Hnil F Hbs Hhs Hne Hinit Hcap; [congruence|].
  inversion F as [|? ? Hc Ft]; subst.
  assert (Hh0 : 0 <= hdr_of st hs) by (unfold hdr_of; destruct (cs_stage st); lia).
  destruct t as [|c2 t2].
  - (* the final call *)
    clear IH. cbn [compress_calls need] in *. unfold compress_end.
    unfold epilogue_room, epilogue_cost, last_len in *. cbn [last] in *.
    rewrite BHS_val, CHECKSUM_SIZE_val in *.
    destruct (compress_continue_step fuel bsMax hs st c cap true
                (if c_len c <=? 0 then 3 + (if chk then 4 else 0) else (if chk then 4 else 2))
                Hc Hbs Hhs ltac:(destruct (c_len c <=? 0), chk; lia) Hne Hinit ltac:(rewrite BHS_val; lia))
      as (w & cap1 & st1 & Hrun & Hc1 & HE1 & Hw0 & Hpot & Hni & Hend & Hwpos).
    rewrite Hrun. unfold write_epilogue. rewrite BHS_val, CHECKSUM_SIZE_val.
    rewrite BHS_val in Hpot.
    destruct (Z.leb_spec (c_len c) 0) as [Hz|Hpos].
    + assert (Hst : match cs_stage st1 with StEnding => true | _ => false end = false).
      { destruct (cs_stage st1) eqn:S; try reflexivity. destruct Hend as [Hd _]. specialize (Hd eq_refl). lia. }
      rewrite Hst. destruct (Z.ltb_spec cap1 3); [destruct chk; lia|].
      destruct chk.
      * destruct (Z.ltb_spec (cap1 - 3) 4); [lia|]. eexists _, _, _. split; [reflexivity|]. lia.
      * eexists _, _, _. split; [reflexivity|]. lia.
    + assert (Hst : match cs_stage st1 with StEnding => true | _ => false end = true).
      { assert (S : cs_stage st1 = StEnding) by (apply Hend; split; [reflexivity|lia]). rewrite S. reflexivity. }
      rewrite Hst.
      specialize (Hwpos Hpos).
      destruct chk.
      * destruct (Z.ltb_spec cap1 4); [lia|]. eexists _, _, _. split; [reflexivity|]. lia.
      * eexists _, _, _. split; [reflexivity|]. lia.
  - (* a call followed by others *)
    rewrite compress_calls_cons2.
    assert (Hroom : 2 <= epilogue_room (c :: c2 :: t2) chk).
    { unfold epilogue_room. rewrite BHS_val, CHECKSUM_SIZE_val. destruct (_ <=? 0), chk; lia. }
    assert (Hll : last_len (c :: c2 :: t2) = last_len (c2 :: t2)) by reflexivity.
    assert (Hr2 : epilogue_room (c :: c2 :: t2) chk = epilogue_room (c2 :: t2) chk) by (unfold epilogue_room; rewrite Hll; reflexivity).
    assert (Hc2 : epilogue_cost (c :: c2 :: t2) chk = epilogue_cost (c2 :: t2) chk) by (unfold epilogue_cost; rewrite Hll; reflexivity).
    rewrite Hr2 in *. rewrite Hc2.
    pose proof (need_nonneg fuel (c2 :: t2) bsMax ltac:(lia) Ft) as Hn0.
    change (need (c :: c2 :: t2) bsMax) with (c_len c + BHS * nb_blocks (c_len c) bsMax + need (c2 :: t2) bsMax) in *.
    destruct (compress_continue_step fuel bsMax hs st c cap false (need (c2 :: t2) bsMax + epilogue_room (c2 :: t2) chk)
                Hc Hbs Hhs ltac:(lia) Hne Hinit ltac:(lia))
      as (w & cap1 & st1 & Hrun & Hc1 & HE1 & Hw0 & Hpot & Hni & Hend & Hwpos).
    rewrite Hrun.
    assert (Hne1 : cs_stage st1 <> StEnding) by (intros Hx; apply Hend in Hx; destruct Hx; discriminate).
    assert (Hh1 : hdr_of st1 hs = 0) by (unfold hdr_of; destruct (cs_stage st1); congruence).
    destruct (IH st1 cap1 (written + w) ltac:(discriminate) Ft Hbs Hhs Hne1 ltac:(intros; congruence))
      as (W & cap' & st' & Hrun2 & Hcc & Hcp & Hw2 & Hbound).
    { rewrite Hh1. lia. }
    rewrite Hrun2. eexists _, _, _. split; [reflexivity|]. rewrite Hh1 in Hbound. repeat split; lia.
Qed.

(* capacity error, never an overrun, for call histories: whatever capacity is offered, a history that completes
   accounted for every byte and stayed inside the buffer *)
Lemma compress_continue_within : forall fuel bsMax hs st c cap last w cap' st',
  bc_respects_capacity (c_bc c) -> 0 <= hs <= FHS_MAX -> 0 <= cap ->
  compress_continue fuel bsMax hs st c cap last = CDone w cap' st' ->
  cap' = cap - w /\ 0 <= cap' /\ 0 <= w.
Proof.
  intros fuel bsMax hs st c cap last w cap' st' Hbc Hhs Hcap Hrun. unfold compress_continue in Hrun.
  assert (Hh : forall h, (match cs_stage st with StInit => write_frame_header cap hs | _ => Some 0 end) = Some h ->
                         0 <= h <= cap).
  { intros h. destruct (cs_stage st); try (intros Hx; injection Hx as <-; lia).
    unfold write_frame_header. destruct (Z.ltb_spec cap FHS_MAX); [discriminate|]. intros Hx; injection Hx as <-. lia. }
  destruct (match cs_stage st with StInit => write_frame_header cap hs | _ => Some 0 end) as [h|]; [|discriminate].
  specialize (Hh h eq_refl).
  destruct (c_len c <=? 0).
  - injection Hrun as <- <- _. lia.
  - destruct (frame_chunk _ _ _ _ _ _ _ _ _) as [body cap2| |] eqn:Hfc; try discriminate.
    apply frame_chunk_within_capacity in Hfc; [|assumption].
    injection Hrun as <- <- _. lia.
Qed.

Lemma compress_calls_within : forall fuel bsMax hs chk calls st cap written W cap' st',
  Forall (fun c => bc_respects_capacity (c_bc c)) calls -> 0 <= hs <= FHS_MAX -> 0 <= cap ->
  compress_calls fuel bsMax hs chk st calls cap written = CDone W cap' st' ->
  cap' = cap - (W - written) /\ 0 <= cap' /\ written <= W.
Proof.
  induction calls as [|c t IH]; intros st cap written W cap' st' F Hhs Hcap Hrun.
  - cbn [compress_calls] in Hrun. injection Hrun as <- <- _. lia.
  - inversion F as [|? ? Hc Ft]; subst. destruct t as [|c2 t2].
    + cbn [compress_calls] in Hrun. unfold compress_end in Hrun.
      destruct (compress_continue fuel bsMax hs st c cap true) as [w cap1 st1| | |] eqn:Hcc; try discriminate.
      apply compress_continue_within in Hcc; try assumption. destruct Hcc as (E1 & E2 & E3).
      unfold write_epilogue in Hrun. rewrite BHS_val, CHECKSUM_SIZE_val in Hrun.
      destruct (match cs_stage st1 with StEnding => true | _ => false end).
      * destruct chk.
        -- destruct (Z.ltb_spec cap1 4); [discriminate|]. injection Hrun as <- <- _. lia.
        -- injection Hrun as <- <- _. lia.
      * destruct (Z.ltb_spec cap1 3); [discriminate|]. destruct chk.
        -- destruct (Z.ltb_spec (cap1 - 3) 4); [discriminate|]. injection Hrun as <- <- _. lia.
        -- injection Hrun as <- <- _. lia.
    + rewrite compress_calls_cons2 in Hrun.
      destruct (compress_continue fuel bsMax hs st c cap false) as [w cap1 st1| | |] eqn:Hcc; try discriminate.
      apply compress_continue_within in Hcc; try assumption. destruct Hcc as (E1 & E2 & E3).
      apply IH in Hrun; try assumption. lia.
Qed.

(* ---- ZSTDMT job ---- *)
Lemma MT_CHUNK_val : MT_CHUNK = 524288. Proof. reflexivity. Qed.

Lemma mt_chunks_aux_facts : forall k rem, 0 <= rem -> rem / MT_CHUNK <= Z.of_nat k ->
  Forall (fun c => 0 <= c <= MT_CHUNK) (mt_chunks_aux k rem) /\
  fold_right Z.add 0 (mt_chunks_aux k rem) = rem /\
  mt_chunks_aux k rem <> [] /\
  (0 < rem -> 0 < last (mt_chunks_aux k rem) 0) /\ (rem = 0 -> mt_chunks_aux k rem = [0]) /\
  forall bs, 1024 <= bs -> sum_blocks (mt_chunks_aux k rem) bs <= nb_blocks rem 1024.
Proof.
  rewrite MT_CHUNK_val.
  induction k as [|k IH]; intros rem Hr Hk.
  - cbn [mt_chunks_aux]. assert (rem < 524288) by (change (Z.of_nat 0) with 0 in Hk; lia).
    repeat split; try (cbn; lia); try discriminate.
    + repeat constructor; lia.
    + intros ->. reflexivity.
    + intros bs Hbs. cbn [sum_blocks]. pose proof (nb_blocks_antimono_bs rem bs Hr Hbs). lia.
  - cbn [mt_chunks_aux]. rewrite MT_CHUNK_val. destruct (Z.leb_spec rem 524288) as [Hle|Hgt].
    + repeat split; try (cbn; lia); try discriminate.
      * repeat constructor; lia.
      * intros ->. reflexivity.
      * intros bs Hbs. cbn [sum_blocks]. pose proof (nb_blocks_antimono_bs rem bs Hr Hbs). lia.
    + destruct (IH (rem - 524288) ltac:(lia)) as (F1 & F2 & F3 & F4 & F5 & F6).
      { rewrite Nat2Z.inj_succ in Hk. lia. }
      split; [constructor; [lia|assumption]|].
      split; [cbn [fold_right]; lia|].
      split; [discriminate|].
      split.
      { intros _. destruct (mt_chunks_aux k (rem - 524288)) as [|x l] eqn:Em; [congruence|].
        change (last (524288 :: x :: l) 0) with (last (x :: l) 0). apply F4. lia. }
      split; [intros ->; lia|].
      intros bs Hbs. cbn [sum_blocks]. specialize (F6 bs Hbs).
      pose proof (nb_blocks_antimono_bs 524288 bs ltac:(lia) Hbs).
      assert (nb_blocks 524288 1024 = 512) by reflexivity.
      assert (nb_blocks (rem - 524288) 1024 = nb_blocks rem 1024 - 512).
      { unfold nb_blocks. replace (rem + 1024 - 1) with (rem - 524288 + 1024 - 1 + 512 * 1024) by lia.
        rewrite Z.div_add by lia. lia. }
      lia.
Qed.

Lemma mt_chunks_facts : forall n, 0 <= n ->
  Forall (fun c => 0 <= c <= MT_CHUNK) (mt_chunks n) /\
  fold_right Z.add 0 (mt_chunks n) = n /\ mt_chunks n <> [] /\
  (0 < n -> 0 < last (mt_chunks n) 0) /\ (n = 0 -> mt_chunks n = [0]) /\
  forall bs, 1024 <= bs -> chunks_blocks n bs <= nb_blocks n 1024.
Proof.
  intros n Hn. unfold mt_chunks, chunks_blocks, mt_chunks. apply mt_chunks_aux_facts; [assumption|].
  rewrite Z2Nat.id; [lia|]. apply Z.div_pos; [lia|]. rewrite MT_CHUNK_val. lia.
Qed.

Lemma need_as_sum : forall calls bs, need calls bs =
  fold_right Z.add 0 (map c_len calls) + BHS * sum_blocks (map c_len calls) bs.
Proof.
  induction calls as [|c t IH]; intros bs; cbn [need map fold_right sum_blocks]; [lia|]. rewrite IH. lia.
Qed.

Lemma last_map_len : forall calls, calls <> [] -> last_len calls = last (map c_len calls) 0.
Proof.
  unfold last_len. induction calls as [|c t IH]; intros H; [congruence|].
  destruct t as [|c2 t2]; [reflexivity|].
  change (last (c :: c2 :: t2) (mk_call 0 bc_raw (split_const KB128))) with (last (c2 :: t2) (mk_call 0 bc_raw (split_const KB128))).
  change (map c_len (c :: c2 :: t2)) with (c_len c :: map c_len (c2 :: t2)).
  change (last (c_len c :: map c_len (c2 :: t2)) 0) with (last (map c_len (c2 :: t2)) 0).
  apply IH. discriminate.
Qed.

(* A job whose destination buffer has ZSTD_compressBound(T) bytes (T = target section size >= the job's source
   size) never runs out of room and the unchecked checksum store stays inside the buffer. *)
Theorem mt_job_fits_lemma : forall fuel bsMax hs chkFrame first last calls n T,
  Forall (fun c => bc_contract (c_bc c) /\ split_contract (c_split c)) calls ->
  map c_len calls = mt_chunks n ->
  0 <= n <= T -> T < MAX_INPUT -> MT_CHUNK <= Z.of_nat fuel ->
  0 < bsMax <= BLOCKSIZE_MAX -> (BLOCKSIZE_MAX_MIN <= bsMax \/ n <= bsMax) ->
  0 <= hs <= FHS_MAX ->
  (last = false -> 0 < n) ->
  exists w cap' st',
    mt_job fuel bsMax hs chkFrame first last calls n (bound T) = CDone w cap' st' /\
    cap' = bound T - w /\ 0 <= cap' /\ w <= mt_job_worst bsMax hs chkFrame first last n.
Proof.
  intros fuel bsMax hs chkFrame first last calls n T Hc Hlens Hn HT Hfuel Hbs Hbs2 Hhs Hnl.
  destruct (mt_chunks_facts n ltac:(lia)) as (F1 & F2 & F3 & F4 & F5 & F6).
  rewrite MT_CHUNK_val in *. rewrite BLOCKSIZE_MAX_val, BLOCKSIZE_MAX_MIN_val in *.
  assert (Hbs' : 0 < bsMax <= KB128) by (rewrite KB128_val; lia).
  (* the calls are well formed *)
  assert (Hok : Forall (call_ok fuel) calls).
  { rewrite Forall_forall in *. intros c Hin. destruct (Hc c Hin) as [A B]. split; [assumption|split; [assumption|]].
    assert (In (c_len c) (mt_chunks n)) by (rewrite <- Hlens; apply in_map; assumption).
    specialize (F1 _ H). cbv beta in F1. lia. }
  assert (Hcne : calls <> []) by (intros ->; cbn in Hlens; congruence).
  (* blocks of the job: never more than with 1 KiB blocks *)
  assert (Hblocks : chunks_blocks n bsMax <= nb_blocks n 1024 /\ 0 <= chunks_blocks n bsMax).
  { split.
    - destruct Hbs2 as [Hb|Hb]; [apply F6; lia|].
      destruct (Z.eq_dec n 0) as [->|Hnz].
      + unfold chunks_blocks. rewrite (F5 eq_refl). cbn [sum_blocks]. rewrite !nb_blocks_zero by lia. lia.
      + unfold chunks_blocks, mt_chunks.
        assert (n / 524288 = 0) by (apply Z.div_small; lia).
        rewrite MT_CHUNK_val, H. cbn [Z.to_nat mt_chunks_aux sum_blocks].
        rewrite nb_blocks_one by lia. pose proof (nb_blocks_pos n 1024 ltac:(lia) ltac:(lia)). lia.
    - unfold chunks_blocks. clear - F1 Hbs. induction (mt_chunks n) as [|c t IH]; cbn [sum_blocks]; [lia|].
      inversion F1; subst. specialize (IH H2). pose proof (nb_blocks_nonneg c bsMax ltac:(lia) ltac:(lia)). lia. }
  destruct Hblocks as [Hblk Hblk0].
  pose proof (worst_case_le_bound n 1024 ltac:(lia) ltac:(lia) ltac:(left; rewrite BLOCKSIZE_MAX_MIN_val; lia)) as Hworst.
  pose proof (bound_monotone n T ltac:(lia) HT) as Hmono.
  rewrite FHS_MAX_val, BHS_val, CHECKSUM_SIZE_val in *.
  assert (Hneed : need calls bsMax = n + 3 * chunks_blocks n bsMax).
  { rewrite need_as_sum, Hlens, F2, BHS_val. reflexivity. }
  assert (Hlast : last_len calls = List.last (mt_chunks n) 0) by (rewrite last_map_len, Hlens; auto).
  unfold mt_job, mt_job_worst. rewrite BHS_val, CHECKSUM_SIZE_val.
  destruct (negb first && last && (n <=? 0)) eqn:Hempty.
  - (* ZSTDMT_writeLastEmptyBlock *)
    apply andb_prop in Hempty. destruct Hempty as [Hfl Hz]. apply andb_prop in Hfl. destruct Hfl as [Hf Hl].
    apply Z.leb_le in Hz. assert (n = 0) by lia. subst n.
    destruct first; [discriminate|]. destruct last; [|discriminate]. cbn [andb negb].
    pose proof (bound_range 0 ltac:(lia)).
    assert (Hb0 : 18 + 7 <= bound T) by (rewrite nb_blocks_zero in Hworst by lia; lia).
    destruct (Z.ltb_spec (bound T) 3); [lia|].
    destruct chkFrame.
    + destruct (Z.ltb_spec (bound T - 3) 4); [lia|]. eexists _, _, _. split; [reflexivity|].
      change (0 <=? 0) with true. cbv iota. lia.
    + eexists _, _, _. split; [reflexivity|]. change (0 <=? 0) with true. cbv iota. lia.
  - (* a worker job *)
    set (cap := bound T) in *.
    assert (Hst0 : exists st, (if first then Some cstate0
                               else match compress_continue fuel bsMax hs cstate0 (mk_call 0 bc_raw (split_const KB128)) cap false with
                                    | CDone _ _ st => Some st | _ => None end) = Some st /\
                              cs_stage st <> StEnding /\ savings_of st = 0 /\
                              hdr_of st hs = (if first then hs else 0) /\ (cs_stage st = StInit -> 18 <= cap)).
    { destruct first.
      - exists cstate0. repeat split; try reflexivity; try discriminate. intros _. lia.
      - unfold compress_continue. cbn [cstate0 cs_stage c_len]. unfold write_frame_header. rewrite FHS_MAX_val.
        destruct (Z.ltb_spec cap 18); [lia|]. change (0 <=? 0) with true. cbv iota.
        eexists. split; [reflexivity|]. cbn [cs_stage cs_consumed cs_produced]. unfold savings_of, hdr_of. cbn.
        repeat split; try discriminate; lia. }
    destruct Hst0 as (st & Hst & Hne & Hsav & Hhdr & Hinit). rewrite Hst.
    assert (Hn0 : 0 <= nb_blocks n 1024) by (apply nb_blocks_nonneg; lia).
    destruct last.
    + (* the job ends the frame *)
      destruct (compress_calls_succeed fuel bsMax hs (chkFrame && first) calls st cap 0 Hcne Hok Hbs'
                  ltac:(rewrite FHS_MAX_val; lia) Hne ltac:(rewrite FHS_MAX_val; assumption))
        as (W & cap' & st' & Hrun & Hcp & Hc0 & Hw & Hbound).
      { rewrite Hneed, Hsav, Hhdr. unfold epilogue_room. rewrite Hlast, BHS_val, CHECKSUM_SIZE_val.
        destruct first, (List.last (mt_chunks n) 0 <=? 0), chkFrame; cbn [andb]; lia. }
      rewrite Hrun. rewrite Hneed, Hsav, Hhdr in Hbound. unfold epilogue_cost in Hbound.
      rewrite Hlast, BHS_val, CHECKSUM_SIZE_val in Hbound.
      assert (Hlz : (List.last (mt_chunks n) 0 <=? 0) = (n <=? 0)).
      { destruct (Z.leb_spec n 0).
        - assert (n = 0) by lia. subst n. rewrite (F5 eq_refl). reflexivity.
        - specialize (F4 ltac:(lia)). apply Z.leb_gt. lia. }
      rewrite Hlz in Hbound. cbn [andb].
      destruct first; cbn [negb andb] in *.
      * rewrite !andb_false_r. cbv iota. eexists _, _, _. split; [reflexivity|].
        rewrite andb_true_r in Hbound. destruct chkFrame, (n <=? 0); cbn [andb]; lia.
      * rewrite andb_false_r in Hbound. rewrite andb_true_r.
        destruct (n <=? 0) eqn:Hz; [destruct chkFrame; discriminate Hempty || (cbn in Hempty; discriminate)|].
        destruct chkFrame; cbn [andb].
        -- destruct (Z.ltb_spec cap' 4); [lia|]. eexists _, _, _. split; [reflexivity|]. lia.
        -- eexists _, _, _. split; [reflexivity|]. lia.
    + (* an intermediate job: ZSTD_compressContinue only *)
      specialize (Hnl eq_refl).
      destruct (continue_calls_succeed fuel bsMax hs calls st cap 0 2 Hok Hbs'
                  ltac:(rewrite FHS_MAX_val; lia) ltac:(lia) Hne ltac:(rewrite FHS_MAX_val; intros; auto))
        as (W & cap' & st' & Hrun & Hcp & HE & Hw & Hpot & _).
      { destruct calls; [congruence|]. rewrite Hneed, Hsav, Hhdr. destruct first; lia. }
      rewrite Hrun. rewrite !andb_false_r. cbn [andb]. eexists _, _, _. split; [reflexivity|].
      destruct calls; [congruence|]. rewrite Hneed, Hsav, Hhdr in Hpot.
      destruct first, chkFrame; cbn [andb]; lia.
Qed.

(* ---- the whole multi-threaded frame: jobs of at least 128 KiB (all but the last) ---- *)
Fixpoint mt_frame_worst (bs hs : Z) (chk first : bool) (jobs : list Z) : Z :=
  match jobs with
  | [] => 0
  | [n] => mt_job_worst bs hs chk first true n
  | n :: t => mt_job_worst bs hs chk first false n + mt_frame_worst bs hs chk false t
  end.

Fixpoint jobs_ok (jobs : list Z) : Prop :=
  match jobs with
  | [] => False
  | [n] => 0 <= n
  | n :: t => KB128 <= n /\ jobs_ok t
  end.

Definition sumz (l : list Z) : Z := fold_right Z.add 0 l.

Lemma chunks_blocks_bound : forall n bs, 0 <= n -> 1024 <= bs -> 0 <= chunks_blocks n bs <= n / 1024 + 1.
Proof.
  intros n bs Hn Hbs. destruct (mt_chunks_facts n Hn) as (F1 & _ & _ & _ & _ & F6).
  specialize (F6 bs Hbs). split.
  - unfold chunks_blocks. clear - F1 Hbs. induction (mt_chunks n) as [|c t IH]; cbn [sum_blocks]; [lia|].
    inversion F1; subst. specialize (IH H2). pose proof (nb_blocks_nonneg c bs ltac:(lia) ltac:(lia)). lia.
  - unfold nb_blocks in F6. lia.
Qed.

Lemma mt_frame_tail_bound : forall bs hs chk jobs,
  1024 <= bs -> jobs_ok jobs ->
  mt_frame_worst bs hs chk false jobs <= sumz jobs + sumz jobs / 256 + 10 /\ 0 <= sumz jobs.
Proof.
  intros bs hs chk jobs Hbs. induction jobs as [|n t IH]; intros Hok; [destruct Hok|].
  destruct t as [|n2 t2].
  - cbn [jobs_ok] in Hok. cbn [mt_frame_worst sumz fold_right]. unfold mt_job_worst.
    rewrite BHS_val, CHECKSUM_SIZE_val. pose proof (chunks_blocks_bound n bs Hok Hbs).
    cbn [andb]. destruct (n <=? 0), chk; lia.
  - destruct Hok as [Hn Hok]. specialize (IH Hok). destruct IH as [IH1 IH2].
    change (mt_frame_worst bs hs chk false (n :: n2 :: t2))
      with (mt_job_worst bs hs chk false false n + mt_frame_worst bs hs chk false (n2 :: t2)).
    change (sumz (n :: n2 :: t2)) with (n + sumz (n2 :: t2)).
    rewrite KB128_val in Hn. unfold mt_job_worst. rewrite BHS_val, CHECKSUM_SIZE_val. cbn [andb].
    pose proof (chunks_blocks_bound n bs ltac:(lia) Hbs). lia.
Qed.

(* every job raw, every job's own framing, header, last empty block and checksum: the frame a multi-threaded
   compression can emit at worst still fits ZSTD_compressBound of the whole input *)
Theorem mt_frame_worst_le_bound : forall bs hs chk jobs,
  1024 <= bs -> hs <= FHS_MAX -> jobs_ok jobs -> sumz jobs < MAX_INPUT ->
  mt_frame_worst bs hs chk true jobs <= bound (sumz jobs).
Proof.
  intros bs hs chk jobs Hbs Hhs Hok Hmax. rewrite FHS_MAX_val in Hhs.
  destruct jobs as [|n t]; [destruct Hok|]. destruct t as [|n2 t2].
  - (* a single job: the single-threaded frame cut in 512 KiB calls *)
    cbn [jobs_ok] in Hok. cbn [mt_frame_worst sumz fold_right] in *. replace (n + 0) with n in * by lia.
    destruct (mt_chunks_facts n Hok) as (_ & _ & _ & _ & _ & F6). specialize (F6 bs Hbs).
    pose proof (worst_case_le_bound n 1024 ltac:(lia) ltac:(lia) ltac:(left; rewrite BLOCKSIZE_MAX_MIN_val; lia)) as Hw.
    pose proof (chunks_blocks_bound n bs Hok Hbs).
    unfold mt_job_worst. rewrite FHS_MAX_val, BHS_val, CHECKSUM_SIZE_val in *. cbn [andb].
    destruct (n <=? 0), chk; lia.
  - destruct Hok as [Hn Hok].
    destruct (mt_frame_tail_bound bs hs chk (n2 :: t2) Hbs Hok) as [Ht Hs0].
    change (mt_frame_worst bs hs chk true (n :: n2 :: t2))
      with (mt_job_worst bs hs chk true false n + mt_frame_worst bs hs chk false (n2 :: t2)).
    change (sumz (n :: n2 :: t2)) with (n + sumz (n2 :: t2)) in *.
    rewrite KB128_val in Hn. unfold mt_job_worst. rewrite BHS_val, CHECKSUM_SIZE_val. cbn [andb].
    pose proof (chunks_blocks_bound n bs ltac:(lia) Hbs).
    set (S := sumz (n2 :: t2)) in *.
    pose proof (bound_unfold (n + S) ltac:(lia)) as Hb.
    assert (n + S + (n + S) / 256 <= bound (n + S)).
    { rewrite Hb. destruct (Z.geb_spec (n + S) MAX_INPUT); [lia|]. destruct (Z.ltb_spec (n + S) 131072); lia. }
    lia.
Qed.

Example mt_frame_example : mt_raw_frame 1100000 524288 131072 131072 6 true = Some 1100037.
Proof. vm_compute. reflexivity. Qed.

(* the hypotheses on the per-chunk oracles are satisfiable: the all-raw calls of the correspondence runs *)
Lemma raw_calls_ok : forall n,
  Forall (fun c => bc_contract (c_bc c) /\ split_contract (c_split c)) (map raw_call (mt_chunks n)) /\
  map c_len (map raw_call (mt_chunks n)) = mt_chunks n.
Proof.
  intros n. split.
  - rewrite Forall_forall. intros c Hin. apply in_map_iff in Hin. destruct Hin as [l [<- _]].
    cbn [raw_call c_bc c_split]. split; [exact bc_raw_contract|].
    intros i. unfold split_const. rewrite KB128_val. lia.
  - rewrite map_map. cbn [raw_call c_len]. apply map_id.
Qed.
