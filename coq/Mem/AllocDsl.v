(* C13 - a tiny deep-embedded allocation language with a failure oracle.
   Model only: NO proofs in this file (it must keep extracting when a proof breaks).

   A program describes the ownership-relevant skeleton of a zstd constructor / destructor /
   (re)allocation point: which pointer fields ("slots") receive the result of
   ZSTD_customMalloc/Calloc, which are tested against NULL, which are handed to
   ZSTD_customFree (and through which copy of the ZSTD_customMem), which arrays of owned
   pointers ("families": the buffer stacks of ZSTDMT_bufferPool, the cctx array of
   ZSTDMT_CCtxPool) are pushed / popped / freed entry by entry.
   The concrete semantics [run] is deterministic given three oracles:
     fails  k  - the k-th call of the allocator (1-based, counted over the whole run) returns NULL
     choose j  - outcome of the j-th data-dependent test the model does not compute ([Choice])
     reps   j  - number of iterations of the j-th [Star]
   Block ids are the allocation indexes, so they are never reused: a stale pointer is
   recognisable for ever.  Sizes only go to the trace; no construct reads them. *)
From Coq Require Import NArith List Bool Arith.
Import ListNotations.

(* ------------------------------------------------------------------ finite maps (association lists kept sorted) *)
Section Store.
  Context {A : Type}.
  Definition store := list (N * A).
  Fixpoint get (d : A) (k : N) (m : store) : A :=
    match m with
    | [] => d
    | (k', v) :: m' => if N.eqb k k' then v else get d k m'
    end.
  Fixpoint set (k : N) (v : A) (m : store) : store :=
    match m with
    | [] => [(k, v)]
    | (k', v') :: m' =>
        match N.compare k k' with
        | Lt => (k, v) :: (k', v') :: m'
        | Eq => (k, v) :: m'
        | Gt => (k', v') :: set k v m'
        end
    end.
End Store.
Arguments store A : clear implicits.

(* ------------------------------------------------------------------ syntax *)
Definition lbl := N.    (* pointer slot *)
Definition fam := N.    (* family: stack of owned pointers *)
Definition flag := N.   (* boolean model variable *)

Inductive prog : Type :=
| Skip
| Seq (p q : prog)
| Alloc (l : lbl) (zero : bool) (size : N)       (* l = ZSTD_customMalloc / ZSTD_customCalloc (zero) *)
| Free (l : lbl) (cm : option flag)              (* ZSTD_customFree(l, cMem); cm = Some f: the cMem copy is valid iff model flag f is set *)
| SetNull (l : lbl)                              (* l = NULL (also: the struct holding field l is gone) *)
| Move (dst src : lbl)                           (* dst = src; src = NULL : ownership transfer *)
| Use (l : lbl)                                  (* dereference of l *)
| IfNull (l : lbl) (p q : prog)
| SetFlag (f : flag) (b : bool)
| IfFlag (f : flag) (p q : prog)
| Choice (c : N) (p q : prog)                    (* test on data the model does not track; c names the test *)
| Push (f : fam) (l : lbl)                       (* f[n++] = l; l = NULL   (no-op when l is NULL) *)
| Pop (f : fam) (l : lbl)                        (* l = f[--n]  (NULL when the family is empty) *)
| IfEmpty (f : fam) (p q : prog)
| PopElse (f : fam) (l : lbl) (p q : prog)       (* if (n == 0) p else { l = f[--n]; q } *)
| FreeAll (f : fam) (cm : option flag)           (* for every entry e of f: ZSTD_customFree(e); entries stay (dangling) *)
| ClearFam (f : fam)                             (* the array is gone / zeroed *)
| Drain (src dst : fam)                          (* every entry of src is moved on top of dst (ownership transfer) *)
| Return (ok : bool)                             (* leave the enclosing Call with status ok (false = NULL / error code) *)
| Call (name : N) (p : prog)                     (* procedure boundary *)
| IfErr (p q : prog)                             (* p when the last completed Call returned an error *)
| Forget                                         (* bookkeeping at the start of an API call: failure counter := 0, status := ok *)
| Star (p : prog).                               (* p repeated an environment-chosen number of times *)

Notation "p ;; q" := (Seq p q) (at level 61, right associativity).

(* ------------------------------------------------------------------ concrete state *)
Inductive err : Type :=
| EDoubleFree (l : N)        (* customFree of a block that is not live *)
| EUseDead (l : N)           (* dereference of NULL or of a dead block *)
| EForeignFree (l : N).      (* block released through a zeroed ZSTD_customMem, i.e. through libc free *)

Inductive event : Type :=
| EvAlloc (l : N) (size : N) (zero : bool) (ok : bool)
| EvFree (l : N) (i : nat)
| EvFreeFam (f : N) (ids : list nat)
| EvCall (name : N)
| EvRet (ok : bool).

Record state : Type := mkState {
  slots : store (option nat);
  fams : store (list nat);
  flags : store bool;
  live : list nat;         (* ids of the blocks currently allocated *)
  next : nat;              (* number of allocator calls so far *)
  nchoice : nat;
  nstar : nat;
  nfail : nat;             (* number of allocator calls that returned NULL *)
  status : bool;           (* status of the last Return (true = success) *)
  errs : list err;
  trace : list event       (* most recent first *)
}.

Definition init_state : state := mkState [] [] [] [] 0 0 0 0 true [] [].

Definition sget (s : state) (l : lbl) : option nat := get None l (slots s).
Definition fget (s : state) (f : fam) : list nat := get [] f (fams s).
Definition flget (s : state) (f : flag) : bool := get false f (flags s).

Definition upd_slots (s : state) (v : store (option nat)) : state :=
  mkState v (fams s) (flags s) (live s) (next s) (nchoice s) (nstar s) (nfail s) (status s) (errs s) (trace s).
Definition upd_fams (s : state) (v : store (list nat)) : state :=
  mkState (slots s) v (flags s) (live s) (next s) (nchoice s) (nstar s) (nfail s) (status s) (errs s) (trace s).
Definition upd_flags (s : state) (v : store bool) : state :=
  mkState (slots s) (fams s) v (live s) (next s) (nchoice s) (nstar s) (nfail s) (status s) (errs s) (trace s).
Definition upd_live (s : state) (v : list nat) : state :=
  mkState (slots s) (fams s) (flags s) v (next s) (nchoice s) (nstar s) (nfail s) (status s) (errs s) (trace s).
Definition upd_next (s : state) (v : nat) : state :=
  mkState (slots s) (fams s) (flags s) (live s) v (nchoice s) (nstar s) (nfail s) (status s) (errs s) (trace s).
Definition upd_nchoice (s : state) (v : nat) : state :=
  mkState (slots s) (fams s) (flags s) (live s) (next s) v (nstar s) (nfail s) (status s) (errs s) (trace s).
Definition upd_nstar (s : state) (v : nat) : state :=
  mkState (slots s) (fams s) (flags s) (live s) (next s) (nchoice s) v (nfail s) (status s) (errs s) (trace s).
Definition upd_nfail (s : state) (v : nat) : state :=
  mkState (slots s) (fams s) (flags s) (live s) (next s) (nchoice s) (nstar s) v (status s) (errs s) (trace s).
Definition upd_status (s : state) (v : bool) : state :=
  mkState (slots s) (fams s) (flags s) (live s) (next s) (nchoice s) (nstar s) (nfail s) v (errs s) (trace s).
Definition add_err (s : state) (e : err) : state :=
  mkState (slots s) (fams s) (flags s) (live s) (next s) (nchoice s) (nstar s) (nfail s) (status s) (e :: errs s) (trace s).
Definition add_ev (s : state) (e : event) : state :=
  mkState (slots s) (fams s) (flags s) (live s) (next s) (nchoice s) (nstar s) (nfail s) (status s) (errs s) (e :: trace s).

Definition mem_nat (i : nat) (l : list nat) : bool := existsb (Nat.eqb i) l.
Definition remove_nat (i : nat) (l : list nat) : list nat := filter (fun j => negb (Nat.eqb i j)) l.

Record oracle : Type := mkOracle { fails : nat -> bool; choose : nat -> bool; reps : nat -> nat }.

(* is the customMem copy used by this free valid? *)
Definition cm_ok (s : state) (cm : option flag) : bool :=
  match cm with None => true | Some f => flget s f end.

(* release one block id through customFree; lbl only for the error report *)
Definition free_id (l : N) (cm : option flag) (i : nat) (s : state) : state :=
  if mem_nat i (live s)
  then let s1 := upd_live s (remove_nat i (live s)) in
       if cm_ok s cm then s1 else add_err s1 (EForeignFree l)
  else add_err s (EDoubleFree l).

Fixpoint iter (n : nat) (f : state -> state * bool) (s : state) : state * bool :=
  match n with
  | O => (s, false)
  | S n' => let (s1, r) := f s in if r then (s1, true) else iter n' f s1
  end.

(* [run o p s] = (final state, returned?) *)
Fixpoint run (o : oracle) (p : prog) (s : state) : state * bool :=
  match p with
  | Skip => (s, false)
  | Seq p q => let (s1, r) := run o p s in if r then (s1, true) else run o q s1
  | Alloc l z sz =>
      let k := S (next s) in
      let s0 := upd_next s k in
      if fails o k
      then (add_ev (upd_nfail (upd_slots s0 (set l None (slots s0))) (S (nfail s0))) (EvAlloc l sz z false), false)
      else (add_ev (upd_live (upd_slots s0 (set l (Some k) (slots s0))) (k :: live s0)) (EvAlloc l sz z true), false)
  | Free l cm =>
      match sget s l with
      | None => (s, false)
      | Some i => (add_ev (free_id l cm i s) (EvFree l i), false)
      end
  | SetNull l => (upd_slots s (set l None (slots s)), false)
  | Move dst src =>
      let v := sget s src in
      (upd_slots s (set src None (set dst v (slots s))), false)
  | Use l =>
      match sget s l with
      | None => (add_err s (EUseDead l), false)
      | Some i => if mem_nat i (live s) then (s, false) else (add_err s (EUseDead l), false)
      end
  | IfNull l p q => match sget s l with None => run o p s | Some _ => run o q s end
  | SetFlag f b => (upd_flags s (set f b (flags s)), false)
  | IfFlag f p q => if flget s f then run o p s else run o q s
  | Choice c p q =>
      let j := nchoice s in
      let s0 := upd_nchoice s (S j) in
      if choose o j then run o p s0 else run o q s0
  | Push f l =>
      match sget s l with
      | None => (s, false)
      | Some i => (upd_slots (upd_fams s (set f (i :: fget s f) (fams s))) (set l None (slots s)), false)
      end
  | Pop f l =>
      match fget s f with
      | [] => (upd_slots s (set l None (slots s)), false)
      | i :: rest => (upd_slots (upd_fams s (set f rest (fams s))) (set l (Some i) (slots s)), false)
      end
  | IfEmpty f p q => match fget s f with [] => run o p s | _ :: _ => run o q s end
  | PopElse f l p q =>
      match fget s f with
      | [] => run o p s
      | i :: rest => run o q (upd_slots (upd_fams s (set f rest (fams s))) (set l (Some i) (slots s)))
      end
  | FreeAll f cm =>
      let ids := fget s f in
      (add_ev (fold_left (fun st i => free_id f cm i st) ids s) (EvFreeFam f ids), false)
  | ClearFam f => (upd_fams s (set f [] (fams s)), false)
  | Drain src dst =>
      match fget s src with
      | [] => (s, false)
      | st => (upd_fams s (set src [] (set dst (st ++ fget s dst) (fams s))), false)
      end
  | Return ok => (add_ev (upd_status s ok) (EvRet ok), true)
  | Call name p =>
      let (s1, _) := run o p (add_ev (upd_status s true) (EvCall name)) in (s1, false)
  | IfErr p q => if status s then run o q s else run o p s
  | Forget => (upd_status (upd_nfail s 0) true, false)
  | Star p =>
      let j := nstar s in
      iter (reps o j) (run o p) (upd_nstar s (S j))
  end.

(* ------------------------------------------------------------------ abstract interpreter (ownership analysis)
   Every slot is Null / Own (holds the unique owning pointer of a live block) / Dang (holds a pointer to a
   freed block); every family is Empty / Own (all entries live, distinct, owned by it) / Dang (all entries
   freed).  Allocation outcomes, emptiness tests and [Choice]s fork, so the result is the list of reachable
   abstract leaves; [None] = the program is rejected (possible leak by overwriting, double free, use of a dead
   or NULL pointer, foreign free, pop from a freed array).  Flags, the status register and the ghost "some
   allocation failed" bit are tracked exactly. *)
Inductive aval := ANull | AOwn | ADang.
Inductive fval := FEmpty | FOwn | FDang.

Record astate : Type := mkA {
  aslots : store aval;
  afams : store fval;
  aflags : store bool;
  astatus : bool;
  afailed : bool
}.
Definition ainit : astate := mkA [] [] [] true false.
Definition aget (a : astate) (l : lbl) : aval := get ANull l (aslots a).
Definition afget (a : astate) (f : fam) : fval := get FEmpty f (afams a).
Definition aflget (a : astate) (f : flag) : bool := get false f (aflags a).
Definition aset (a : astate) (l : lbl) (v : aval) : astate := mkA (set l v (aslots a)) (afams a) (aflags a) (astatus a) (afailed a).
Definition afset (a : astate) (f : fam) (v : fval) : astate := mkA (aslots a) (set f v (afams a)) (aflags a) (astatus a) (afailed a).
Definition aflset (a : astate) (f : flag) (b : bool) : astate := mkA (aslots a) (afams a) (set f b (aflags a)) (astatus a) (afailed a).
Definition astset (a : astate) (b : bool) : astate := mkA (aslots a) (afams a) (aflags a) b (afailed a).
Definition afailset (a : astate) : astate := mkA (aslots a) (afams a) (aflags a) (astatus a) true.

Definition aval_eqb (x y : aval) : bool :=
  match x, y with ANull, ANull | AOwn, AOwn | ADang, ADang => true | _, _ => false end.
Definition fval_eqb (x y : fval) : bool :=
  match x, y with FEmpty, FEmpty | FOwn, FOwn | FDang, FDang => true | _, _ => false end.
Fixpoint store_eqb {A} (eqb : A -> A -> bool) (m1 m2 : store A) : bool :=
  match m1, m2 with
  | [], [] => true
  | (k1, v1) :: r1, (k2, v2) :: r2 => N.eqb k1 k2 && eqb v1 v2 && store_eqb eqb r1 r2
  | _, _ => false
  end.
Definition astate_eqb (a b : astate) : bool :=
  store_eqb aval_eqb (aslots a) (aslots b) && store_eqb fval_eqb (afams a) (afams b)
  && store_eqb Bool.eqb (aflags a) (aflags b) && Bool.eqb (astatus a) (astatus b) && Bool.eqb (afailed a) (afailed b).
Definition amem (a : astate) (St : list astate) : bool := existsb (astate_eqb a) St.

Definition leaves := list (astate * bool).

Definition acm_ok (a : astate) (cm : option flag) : bool :=
  match cm with None => true | Some f => aflget a f end.

Fixpoint bind_leaves (L : leaves) (k : astate -> option leaves) : option leaves :=
  match L with
  | [] => Some []
  | (a, r) :: L' =>
      match (if r then Some [(a, true)] else k a), bind_leaves L' k with
      | Some x, Some y => Some (x ++ y)
      | _, _ => None
      end
  end.

(* one round of a Star body over a set of abstract states: (normal successors, returned leaves) *)
Fixpoint star_round (f : astate -> option leaves) (St : list astate) : option (list astate * leaves) :=
  match St with
  | [] => Some ([], [])
  | a :: St' =>
      match f a, star_round f St' with
      | Some L, Some (N, R) =>
          Some (map fst (filter (fun x => negb (snd x)) L) ++ N, filter (fun x => snd x) L ++ R)
      | _, _ => None
      end
  end.
Fixpoint add_new (N St : list astate) : list astate :=
  match N with
  | [] => St
  | a :: N' => if amem a St then add_new N' St else add_new N' (St ++ [a])
  end.
(* least set of abstract states containing S and closed under the body, with the Return leaves of the last round *)
Fixpoint star_fix (fuel : nat) (f : astate -> option leaves) (St : list astate) : option (list astate * leaves) :=
  match fuel with
  | O => None
  | S fuel' =>
      match star_round f St with
      | None => None
      | Some (N, R) => if forallb (fun a => amem a St) N then Some (St, R) else star_fix fuel' f (add_new N St)
      end
  end.

(* candidate closed set by a worklist exploration (seen = all states so far, front = those not yet expanded);
   the result is only a candidate: [aexec] re-checks closure with one [star_fix] round *)
Definition add_fresh (seen : list astate) (N : list astate) : list astate :=
  fold_left (fun acc a => if amem a seen || amem a acc then acc else a :: acc) N [].
Fixpoint explore (fuel : nat) (f : astate -> option leaves) (seen front : list astate) : option (list astate) :=
  match fuel with
  | O => None
  | S fuel' =>
      match front with
      | [] => Some seen
      | _ => match star_round f front with
             | None => None
             | Some (N, _) => let fresh := add_fresh seen N in explore fuel' f (seen ++ fresh) fresh
             end
      end
  end.

(* duplicate leaves are dropped as early as possible (keeps the leaf lists small) *)
Definition leaf_eqb (x y : astate * bool) : bool := astate_eqb (fst x) (fst y) && Bool.eqb (snd x) (snd y).
Fixpoint ldedup (L : leaves) : leaves :=
  match L with
  | [] => []
  | x :: r => if existsb (leaf_eqb x) r then ldedup r else x :: ldedup r
  end.

(* canfail = false: analysis of a run in which the allocator never fails *)
Fixpoint aexec (fuel : nat) (canfail : bool) (p : prog) (a : astate) : option leaves :=
  option_map ldedup
  match p with
  | Skip => Some [(a, false)]
  | Seq p q => match aexec fuel canfail p a with None => None | Some L => bind_leaves L (aexec fuel canfail q) end
  | Alloc l _ _ =>
      match aget a l with
      | AOwn => None
      | _ => Some ((aset a l AOwn, false) :: (if canfail then [(afailset (aset a l ANull), false)] else []))
      end
  | Free l cm =>
      match aget a l with
      | ANull => Some [(a, false)]
      | AOwn => if acm_ok a cm then Some [(aset a l ADang, false)] else None
      | ADang => None
      end
  | SetNull l => match aget a l with AOwn => None | _ => Some [(aset a l ANull, false)] end
  | Move dst src =>
      if N.eqb dst src then None else
      match aget a dst with
      | AOwn => None
      | _ => Some [(aset (aset a dst (aget a src)) src ANull, false)]
      end
  | Use l => match aget a l with AOwn => Some [(a, false)] | _ => None end
  | IfNull l p q => match aget a l with ANull => aexec fuel canfail p a | _ => aexec fuel canfail q a end
  | SetFlag f b => Some [(aflset a f b, false)]
  | IfFlag f p q => if aflget a f then aexec fuel canfail p a else aexec fuel canfail q a
  | Choice _ p q =>
      match aexec fuel canfail p a, aexec fuel canfail q a with
      | Some x, Some y => Some (x ++ y)
      | _, _ => None
      end
  | Push f l =>
      match aget a l with
      | ANull => Some [(a, false)]
      | ADang => None
      | AOwn => match afget a f with FDang => None | _ => Some [(afset (aset a l ANull) f FOwn, false)] end
      end
  | Pop f l =>
      match aget a l with
      | AOwn => None
      | _ => match afget a f with
             | FEmpty => Some [(aset a l ANull, false)]
             | FOwn => Some [(aset a l AOwn, false); (afset (aset a l ANull) f FEmpty, false)]
             | FDang => None
             end
      end
  | IfEmpty f p q =>
      match afget a f with
      | FEmpty => aexec fuel canfail p a
      | FOwn => match aexec fuel canfail p (afset a f FEmpty), aexec fuel canfail q a with
                | Some x, Some y => Some (x ++ y)
                | _, _ => None
                end
      | FDang => None
      end
  | PopElse f l p q =>
      match aget a l with
      | AOwn => None
      | _ => match afget a f with
             | FEmpty => aexec fuel canfail p a
             | FOwn => match aexec fuel canfail p (afset a f FEmpty), aexec fuel canfail q (aset a l AOwn) with
                       | Some x, Some y => Some (x ++ y)
                       | _, _ => None
                       end
             | FDang => None
             end
      end
  | FreeAll f cm =>
      match afget a f with
      | FEmpty => Some [(a, false)]
      | FOwn => if acm_ok a cm then Some [(afset a f FDang, false)] else None
      | FDang => None
      end
  | ClearFam f => match afget a f with FOwn => None | _ => Some [(afset a f FEmpty, false)] end
  | Drain src dst =>
      if N.eqb src dst then None else
      match afget a src with
      | FEmpty => Some [(a, false)]
      | FOwn => match afget a dst with
                | FDang => None
                | _ => Some [(afset (afset a dst FOwn) src FEmpty, false)]
                end
      | FDang => None
      end
  | Return ok => Some [(astset a ok, true)]
  | Call _ p =>
      match aexec fuel canfail p (astset a true) with
      | None => None
      | Some L => Some (map (fun x => (fst x, false)) L)
      end
  | IfErr p q => if astatus a then aexec fuel canfail q a else aexec fuel canfail p a
  | Forget => Some [(mkA (aslots a) (afams a) (aflags a) true false, false)]
  | Star p =>
      match explore fuel (aexec fuel canfail p) [a] [a] with
      | None => None
      | Some St0 =>
          match star_fix 1 (aexec fuel canfail p) St0 with
          | None => None
          | Some (St, R) => Some (map (fun x => (x, false)) St ++ R)
          end
      end
  end.

(* ------------------------------------------------------------------ leaf predicates used by the instance theorems *)
Definition aval_clean (v : aval) : bool := match v with AOwn => false | _ => true end.
Definition fval_clean (v : fval) : bool := match v with FOwn => false | _ => true end.
(* no slot owns a block, no family owns a block *)
Definition aclean (a : astate) : bool :=
  forallb (fun kv => aval_clean (snd kv)) (aslots a) && forallb (fun kv => fval_clean (snd kv)) (afams a).
(* status = error  <->  some allocation failed *)
Definition aerr_iff_fail (a : astate) : bool := Bool.eqb (astatus a) (negb (afailed a)).

Definition all_leaves (P : astate -> bool) (L : option leaves) : bool :=
  match L with None => false | Some L => forallb (fun x => P (fst x)) L end.

(* the analysis accepted the program and every leaf satisfies P *)
Definition acheck (fuel : nat) (P : astate -> bool) (p : prog) (a : astate) : bool :=
  all_leaves P (aexec fuel true p a).

(* reusability: from every leaf of [first] (any failures), running [again] without failures is accepted and every
   leaf satisfies P *)
Definition areusable (fuel : nat) (first again : prog) (a : astate) (P : astate -> bool) : bool :=
  match aexec fuel true first a with
  | None => false
  | Some L => forallb (fun x => all_leaves P (aexec fuel false again (fst x))) L
  end.

(* a set of abstract states closed under a program: every leaf from every member is a member again *)
Definition closed_under (fuel : nat) (St : list astate) (p : prog) : bool :=
  forallb (fun a => all_leaves (fun a' => amem a' St) (aexec fuel true p a)) St.
(* ... and every leaf satisfies P *)
Definition closed_with (fuel : nat) (St : list astate) (P : astate -> bool) (p : prog) : bool :=
  forallb (fun a => all_leaves (fun a' => amem a' St && P a') (aexec fuel true p a)) St.

(* the abstract states reachable from a by repeating p (None when the analysis rejects or runs out of fuel) *)
Definition reach (fuel : nat) (p : prog) (a : astate) : option (list astate) :=
  explore fuel (aexec fuel true p) [a] [a].

(* ------------------------------------------------------------------ helpers for the correspondence runs *)
Fixpoint nth_bool (l : list bool) (n : nat) : bool :=
  match l, n with
  | [], _ => false
  | b :: _, O => b
  | _ :: r, S n' => nth_bool r n'
  end.
Fixpoint nth_nat (l : list nat) (n : nat) : nat :=
  match l, n with
  | [], _ => O
  | b :: _, O => b
  | _ :: r, S n' => nth_nat r n'
  end.
(* oracle from explicit data: failing allocation indexes, choice outcomes, star repetition counts *)
Definition oracle_of (faults : list nat) (choices : list bool) (repl : list nat) : oracle :=
  mkOracle (fun k => mem_nat k faults) (nth_bool choices) (nth_nat repl).
Definition no_fail_oracle (o : oracle) : oracle := mkOracle (fun _ => false) (choose o) (reps o).
