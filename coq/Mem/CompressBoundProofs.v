(* C06 - proofs about coq/Mem/CompressBound.v *)
From Coq Require Import ZArith List Bool Lia.
From ZV.Gen Require Gen_Tables.
From ZV.Mem Require Import CompressBound.
Import ListNotations.
Local Open Scope Z_scope.

(* ---- values of the regenerated constants the arithmetic depends on (T-tie: these break when a header changes) ---- *)
Lemma MAX_INPUT_val : MAX_INPUT = 18374966859414961920. Proof. reflexivity. Qed.
Lemma BLOCKSIZE_MAX_val : BLOCKSIZE_MAX = 131072. Proof. reflexivity. Qed.
Lemma BLOCKSIZE_MAX_MIN_val : BLOCKSIZE_MAX_MIN = 1024. Proof. reflexivity. Qed.
Lemma FHS_MAX_val : FHS_MAX = 18. Proof. reflexivity. Qed.
Lemma BHS_val : BHS = 3. Proof. reflexivity. Qed.
Lemma MIN_CBLOCK_val : MIN_CBLOCK = 2. Proof. reflexivity. Qed.
Lemma CHECKSUM_SIZE_val : CHECKSUM_SIZE = 4. Proof. reflexivity. Qed.
Lemma SIZE_T_BITS_val : SIZE_T_BITS = 64. Proof. reflexivity. Qed.
Lemma KB128_val : KB128 = 131072. Proof. reflexivity. Qed.
(* the literal "128 KB" of ZSTD_optimalBlockSize / "(128<<10)" of the macro is ZSTD_BLOCKSIZE_MAX *)
Lemma KB128_is_BLOCKSIZE_MAX : KB128 = BLOCKSIZE_MAX. Proof. reflexivity. Qed.

Lemma bound_unfold : forall n, 0 <= n ->
  bound n = if n >=? MAX_INPUT then 0
            else n + n / 256 + (if n <? 131072 then (131072 - n) / 2048 else 0).
Proof.
  intros n Hn. unfold bound. rewrite KB128_val.
  rewrite !Z.shiftr_div_pow2 by lia.
  change (2 ^ 8) with 256. change (2 ^ 11) with 2048. reflexivity.
Qed.

Ltac bound_cases n :=
  rewrite (bound_unfold n) by lia; rewrite MAX_INPUT_val;
  destruct (Z.geb_spec n 18374966859414961920); try lia;
  destruct (Z.ltb_spec n 131072).

(* ---- ZSTD_COMPRESSBOUND: arithmetic facts ---- *)

(* below ZSTD_MAX_INPUT_SIZE the bound is non-zero (so 0 is an unambiguous error signal), it is at least n,
   and the sum cannot wrap a size_t *)
Lemma bound_range : forall n, 0 <= n < MAX_INPUT -> n < bound n < 2 ^ SIZE_T_BITS.
Proof.
  intros n [H0 H1]. rewrite SIZE_T_BITS_val. rewrite MAX_INPUT_val in H1.
  bound_cases n.
  - split.
    + pose proof (Z.div_mod n 256 ltac:(lia)). pose proof (Z.mod_pos_bound n 256 ltac:(lia)).
      pose proof (Z.div_mod (131072 - n) 2048 ltac:(lia)). pose proof (Z.mod_pos_bound (131072 - n) 2048 ltac:(lia)).
      destruct (Z.eq_dec n 131071).
      * subst. vm_compute. reflexivity.
      * assert (0 <= n / 256) by (apply Z.div_pos; lia).
        assert (0 <= (131072 - n) / 2048) by (apply Z.div_pos; lia).
        destruct (Z.ltb_spec n 256).
        -- assert (1 <= (131072 - n) / 2048) by (apply Z.div_le_lower_bound; lia). lia.
        -- assert (1 <= n / 256) by (apply Z.div_le_lower_bound; lia). lia.
    + pose proof (Z.div_mod n 256 ltac:(lia)). pose proof (Z.mod_pos_bound n 256 ltac:(lia)).
      pose proof (Z.div_mod (131072 - n) 2048 ltac:(lia)). pose proof (Z.mod_pos_bound (131072 - n) 2048 ltac:(lia)).
      change (2 ^ 64) with 18446744073709551616. lia.
  - pose proof (Z.div_mod n 256 ltac:(lia)). pose proof (Z.mod_pos_bound n 256 ltac:(lia)).
    change (2 ^ 64) with 18446744073709551616. split; lia.
Qed.

Lemma bound_zero_iff : forall n, 0 <= n -> (bound n = 0 <-> MAX_INPUT <= n).
Proof.
  intros n Hn. split.
  - intros Hb. destruct (Z_lt_le_dec n MAX_INPUT) as [Hlt|]; [|assumption].
    pose proof (bound_range n (conj Hn Hlt)). lia.
  - intros Hge. unfold bound. destruct (Z.geb_spec n MAX_INPUT); [reflexivity | lia].
Qed.

Lemma bound_monotone : forall a b, 0 <= a <= b -> b < MAX_INPUT -> bound a <= bound b.
Proof.
  intros a b Hab Hb. rewrite MAX_INPUT_val in Hb.
  rewrite (bound_unfold a) by lia. rewrite (bound_unfold b) by lia. rewrite MAX_INPUT_val.
  destruct (Z.geb_spec a 18374966859414961920); try lia.
  destruct (Z.geb_spec b 18374966859414961920); try lia.
  pose proof (Z.div_mod a 256 ltac:(lia)). pose proof (Z.mod_pos_bound a 256 ltac:(lia)).
  pose proof (Z.div_mod b 256 ltac:(lia)). pose proof (Z.mod_pos_bound b 256 ltac:(lia)).
  destruct (Z.ltb_spec a 131072); destruct (Z.ltb_spec b 131072).
  - pose proof (Z.div_mod (131072 - a) 2048 ltac:(lia)). pose proof (Z.mod_pos_bound (131072 - a) 2048 ltac:(lia)).
    pose proof (Z.div_mod (131072 - b) 2048 ltac:(lia)). pose proof (Z.mod_pos_bound (131072 - b) 2048 ltac:(lia)).
    lia.
  - pose proof (Z.div_mod (131072 - a) 2048 ltac:(lia)). pose proof (Z.mod_pos_bound (131072 - a) 2048 ltac:(lia)).
    lia.
  - lia.
  - lia.
Qed.

(* the claim of the comment behind the macro *)
Lemma bound_superadditive : forall a b,
  KB128 <= a -> KB128 <= b -> a + b < MAX_INPUT -> bound a + bound b <= bound (a + b).
Proof.
  intros a b Ha Hb Hab. rewrite KB128_val in *. rewrite MAX_INPUT_val in Hab.
  rewrite (bound_unfold a) by lia. rewrite (bound_unfold b) by lia. rewrite (bound_unfold (a + b)) by lia.
  rewrite MAX_INPUT_val.
  destruct (Z.geb_spec a 18374966859414961920); try lia.
  destruct (Z.geb_spec b 18374966859414961920); try lia.
  destruct (Z.geb_spec (a + b) 18374966859414961920); try lia.
  destruct (Z.ltb_spec a 131072); try lia.
  destruct (Z.ltb_spec b 131072); try lia.
  destruct (Z.ltb_spec (a + b) 131072); try lia.
  pose proof (Z.div_mod a 256 ltac:(lia)). pose proof (Z.mod_pos_bound a 256 ltac:(lia)).
  pose proof (Z.div_mod b 256 ltac:(lia)). pose proof (Z.mod_pos_bound b 256 ltac:(lia)).
  pose proof (Z.div_mod (a + b) 256 ltac:(lia)). pose proof (Z.mod_pos_bound (a + b) 256 ltac:(lia)).
  lia.
Qed.

(* ---- number of blocks ---- *)
Lemma nb_blocks_zero : forall bs, 0 < bs -> nb_blocks 0 bs = 0.
Proof. intros. unfold nb_blocks. apply Z.div_small. lia. Qed.

Lemma nb_blocks_full : forall r bs, 0 < bs -> nb_blocks (r - bs) bs = nb_blocks r bs - 1.
Proof.
  intros. unfold nb_blocks.
  replace (r - bs + bs - 1) with (r + bs - 1 + (-1) * bs) by lia.
  rewrite Z.div_add by lia. lia.
Qed.

Lemma nb_blocks_one : forall r bs, 0 < r <= bs -> nb_blocks r bs = 1.
Proof.
  intros. unfold nb_blocks.
  replace (r + bs - 1) with (r - 1 + 1 * bs) by lia.
  rewrite Z.div_add by lia. rewrite Z.div_small by lia. reflexivity.
Qed.

Lemma nb_blocks_mono : forall a b bs, 0 < bs -> a <= b -> nb_blocks a bs <= nb_blocks b bs.
Proof. intros. unfold nb_blocks. apply Z.div_le_mono; lia. Qed.

Lemma nb_blocks_nonneg : forall r bs, 0 < bs -> 0 <= r -> 0 <= nb_blocks r bs.
Proof. intros. unfold nb_blocks. apply Z.div_pos; lia. Qed.

Lemma nb_blocks_pos : forall r bs, 0 < bs -> 0 < r -> 1 <= nb_blocks r bs.
Proof.
  intros. unfold nb_blocks. apply Z.div_le_lower_bound; lia.
Qed.

(* fewer, larger blocks: block-count monotonicity in the block size *)
Lemma nb_blocks_single : forall n bs, 0 < n <= bs -> nb_blocks n bs <= nb_blocks n 1024.
Proof.
  intros n bs H. rewrite nb_blocks_one by lia. apply nb_blocks_pos; lia.
Qed.

Lemma nb_blocks_antimono_bs : forall n bs, 0 <= n -> 1024 <= bs -> nb_blocks n bs <= nb_blocks n 1024.
Proof.
  intros n bs Hn Hbs. destruct (Z.eq_dec n 0) as [->|Hnz].
  - rewrite !nb_blocks_zero by lia. lia.
  - unfold nb_blocks.
    replace (n + bs - 1) with (n - 1 + 1 * bs) by lia.
    replace (n + 1024 - 1) with (n - 1 + 1 * 1024) by lia.
    rewrite !Z.div_add by lia.
    assert ((n - 1) / bs <= (n - 1) / 1024) by (apply Z.div_le_compat_l; lia). lia.
Qed.

(* the arithmetic core: header + every block raw + empty last block + checksum fits in the bound *)
Lemma worst_case_le_bound : forall n bs,
  0 <= n < MAX_INPUT -> 0 < bs -> (BLOCKSIZE_MAX_MIN <= bs \/ n <= bs) ->
  FHS_MAX + n + BHS * nb_blocks n bs + BHS + CHECKSUM_SIZE <= bound n.
Proof.
  intros n bs [H0 H1] Hbs0 Hbs. rewrite BLOCKSIZE_MAX_MIN_val in Hbs.
  rewrite FHS_MAX_val, BHS_val, CHECKSUM_SIZE_val.
  assert (Hm : nb_blocks n bs <= nb_blocks n 1024).
  { destruct Hbs as [Hbs|Hbs]; [apply nb_blocks_antimono_bs; lia|].
    destruct (Z.eq_dec n 0) as [->|]; [rewrite !nb_blocks_zero by lia; lia|].
    apply nb_blocks_single; lia. }
  assert (18 + n + 3 * nb_blocks n 1024 + 3 + 4 <= bound n); [|lia].
  clear Hm. rewrite MAX_INPUT_val in H1. unfold nb_blocks.
  bound_cases n.
  - pose proof (Z.div_mod n 256 ltac:(lia)). pose proof (Z.mod_pos_bound n 256 ltac:(lia)).
    pose proof (Z.div_mod (131072 - n) 2048 ltac:(lia)). pose proof (Z.mod_pos_bound (131072 - n) 2048 ltac:(lia)).
    pose proof (Z.div_mod (n + 1024 - 1) 1024 ltac:(lia)). pose proof (Z.mod_pos_bound (n + 1024 - 1) 1024 ltac:(lia)).
    lia.
  - pose proof (Z.div_mod n 256 ltac:(lia)). pose proof (Z.mod_pos_bound n 256 ltac:(lia)).
    pose proof (Z.div_mod (n + 1024 - 1) 1024 ltac:(lia)). pose proof (Z.mod_pos_bound (n + 1024 - 1) 1024 ltac:(lia)).
    lia.
Qed.

(* ---- contracts of the oracles ---- *)

(* the raw-fallback contract of the block compressor: with room for a raw block it succeeds, and whatever it
   emits is no larger than a raw block and than the capacity it was given *)
Definition bc_contract (bc : block_compressor) : Prop :=
  forall i cap len, 0 < len ->
    (BHS + len <= cap -> exists cs, bc i cap len = Some cs) /\
    (forall cs, bc i cap len = Some cs -> 0 < cs /\ cs <= cap /\ cs <= BHS + len).

(* the weak contract: a block compressor that respects the capacity it is given *)
Definition bc_respects_capacity (bc : block_compressor) : Prop :=
  forall i cap len cs, bc i cap len = Some cs -> 0 <= cs <= cap.

Definition bc_raw_bounded (bc : block_compressor) : Prop :=
  forall i cap len cs, 0 < len -> bc i cap len = Some cs -> cs <= BHS + len.

Lemma bc_contract_raw_bounded : forall bc, bc_contract bc -> bc_raw_bounded bc.
Proof. intros bc H i cap len cs Hl Hc. destruct (H i cap len Hl) as [_ H2]. apply H2 in Hc. lia. Qed.

Definition split_contract (split : nat -> Z) : Prop := forall i, 0 < split i <= KB128.

Lemma bc_raw_contract : bc_contract bc_raw.
Proof.
  intros i cap len Hlen. unfold bc_raw, no_compress_block. rewrite BHS_val. split.
  - intros Hc. destruct (Z.gtb_spec (len + 3) cap); [lia|]. eexists; reflexivity.
  - intros cs. destruct (Z.gtb_spec (len + 3) cap); [discriminate|]. intros Heq.
    assert (cs = 3 + len) by congruence. lia.
Qed.

Lemma bc_replay_respects : forall sizes, Forall (fun x => 0 <= x) sizes -> bc_respects_capacity (bc_replay sizes).
Proof.
  intros sizes Hf i cap len cs. unfold bc_replay.
  destruct (Z.gtb_spec (nth i sizes 0) cap); [discriminate|]. intros Heq.
  assert (cs = nth i sizes 0) by congruence. subst cs.
  split; [|lia].
  destruct (Nat.lt_ge_cases i (length sizes)) as [Hi|Hi].
  - rewrite Forall_forall in Hf. apply Hf. apply nth_In. exact Hi.
  - rewrite nth_overflow by exact Hi. lia.
Qed.

(* ---- block size chosen by ZSTD_optimalBlockSize ---- *)
Lemma optimal_block_size_range : forall r bsMax s sp,
  0 < r -> 0 < bsMax <= KB128 -> 0 < sp <= KB128 ->
  0 < optimal_block_size r bsMax s sp <= r /\ optimal_block_size r bsMax s sp <= bsMax.
Proof.
  intros r bsMax s sp Hr Hb Hs. unfold optimal_block_size.
  destruct (Z.ltb_spec r KB128); cbn [orb]; [lia|].
  destruct (Z.ltb_spec bsMax KB128); cbn [orb]; [lia|].
  destruct (Z.ltb_spec s 3); lia.
Qed.

(* ---- the frame loop ---- *)

(* Invariant of ZSTD_compress_frameChunk when enough room was provided:
   cap >= remaining + 3 * (blocks still to come) + E + max(savings,0).
   E is what must be left for the epilogue. *)
Lemma frame_chunk_succeeds : forall fuel bc split i bsMax r cap s w E,
  bc_contract bc -> split_contract split ->
  0 < bsMax <= KB128 -> 0 <= r -> r <= Z.of_nat fuel -> 2 <= E ->
  r + BHS * nb_blocks r bsMax + E + Z.max s 0 <= cap ->
  exists body cap',
    frame_chunk fuel bc split i bsMax r cap s w = Done body cap' /\
    cap' = cap - (body - w) /\ E <= cap' /\ w <= body /\ (0 < r -> w < body).
Proof.
  induction fuel as [|fuel IH]; intros bc split i bsMax r cap s w E Hbc Hsp Hbs Hr Hfuel HE Hcap.
  - assert (r = 0) by lia. subst r. cbn [frame_chunk]. cbn.
    exists w, cap. rewrite nb_blocks_zero in Hcap by lia. repeat split; lia.
  - cbn [frame_chunk]. destruct (Z.leb_spec r 0) as [Hr0|Hrpos].
    + assert (r = 0) by lia. subst r. exists w, cap.
      rewrite nb_blocks_zero in Hcap by lia. repeat split; lia.
    + rewrite BHS_val in *. rewrite MIN_CBLOCK_val.
      pose proof (nb_blocks_pos r bsMax ltac:(lia) Hrpos) as Hnb1.
      destruct (Z.ltb_spec cap (3 + 2 + 1)) as [Hguard|Hguard]; [lia|].
      set (b := optimal_block_size r bsMax s (split i)).
      pose proof (optimal_block_size_range r bsMax s (split i) Hrpos Hbs (Hsp i)) as [Hb1 Hb2].
      fold b in Hb1, Hb2.
      destruct (Hbc i cap b ltac:(lia)) as [Hex Hle].
      destruct Hex as [cs Hcs]; [rewrite BHS_val; lia|].
      rewrite Hcs. destruct (Hle cs Hcs) as (Hcs0 & Hcs1 & Hcs2). rewrite BHS_val in Hcs2.
      (* blocks still to come after this one *)
      assert (Hnb : nb_blocks (r - b) bsMax <= nb_blocks r bsMax - 1 \/
                    (3 <= s /\ nb_blocks (r - b) bsMax <= nb_blocks r bsMax)).
      { unfold b, optimal_block_size.
        destruct (Z.ltb_spec r KB128) as [Hr128|Hr128]; cbn [orb].
        - left. destruct (Z.min_spec r bsMax) as [[Hlt ->]|[Hge ->]].
          + replace (r - r) with 0 by lia. rewrite nb_blocks_zero by lia. lia.
          + rewrite nb_blocks_full by lia. lia.
        - destruct (Z.ltb_spec bsMax KB128) as [Hb128|Hb128]; cbn [orb].
          + left. destruct (Z.min_spec r bsMax) as [[Hlt ->]|[Hge ->]].
            * replace (r - r) with 0 by lia. rewrite nb_blocks_zero by lia. lia.
            * rewrite nb_blocks_full by lia. lia.
          + assert (bsMax = KB128) by lia. destruct (Z.ltb_spec s 3) as [Hs3|Hs3].
            * left. subst bsMax. rewrite nb_blocks_full by lia. lia.
            * right. split; [lia|]. apply nb_blocks_mono; [lia|]. pose proof (Hsp i). lia. }
      destruct (IH bc split (S i) bsMax (r - b) (cap - cs) (s + b - cs) (w + cs) E Hbc Hsp Hbs
                   ltac:(lia) ltac:(lia) HE) as (body & cap' & Hrun & Hc' & HE' & Hw & _).
      { destruct Hnb as [Hnb|[Hs3 Hnb]]; lia. }
      exists body, cap'. rewrite Hrun. repeat split; lia.
Qed.

(* total expansion of the loop is at most 3 bytes per full block (plus 3 for the remainder), whatever the
   pre-splitter answers: this is what the [savings] accounting is for *)
Lemma frame_chunk_expansion : forall fuel bc split i bsMax r cap s w body cap',
  bc_raw_bounded bc -> split_contract split -> 0 < bsMax <= KB128 -> 0 <= r ->
  frame_chunk fuel bc split i bsMax r cap s w = Done body cap' ->
  body - w <= r + BHS * nb_blocks r bsMax + Z.max s 0.
Proof.
  induction fuel as [|fuel IH]; intros bc split i bsMax r cap s w body cap' Hbc Hsp Hbs Hr Hrun.
  - cbn [frame_chunk] in Hrun. destruct (Z.leb_spec r 0); [|discriminate].
    injection Hrun as <- <-. assert (r = 0) by lia. subst r.
    rewrite nb_blocks_zero by lia. lia.
  - cbn [frame_chunk] in Hrun. destruct (Z.leb_spec r 0) as [Hr0|Hrpos].
    + injection Hrun as <- <-. assert (r = 0) by lia. subst r. rewrite nb_blocks_zero by lia. lia.
    + destruct (Z.ltb_spec cap (BHS + MIN_CBLOCK + 1)); [discriminate|].
      set (b := optimal_block_size r bsMax s (split i)) in *.
      pose proof (optimal_block_size_range r bsMax s (split i) Hrpos Hbs (Hsp i)) as [Hb1 Hb2].
      fold b in Hb1, Hb2.
      destruct (bc i cap b) as [cs|] eqn:Hcs; [|discriminate].
      pose proof (Hbc i cap b cs ltac:(lia) Hcs) as Hcs2. rewrite BHS_val in *.
      apply IH in Hrun; [|assumption|assumption|assumption|lia].
      assert (Hnb : nb_blocks (r - b) bsMax <= nb_blocks r bsMax - 1 \/
                    (3 <= s /\ nb_blocks (r - b) bsMax <= nb_blocks r bsMax)).
      { unfold b, optimal_block_size.
        destruct (Z.ltb_spec r KB128) as [Hr128|Hr128]; cbn [orb].
        - left. destruct (Z.min_spec r bsMax) as [[Hlt ->]|[Hge ->]].
          + replace (r - r) with 0 by lia. rewrite nb_blocks_zero by lia.
            pose proof (nb_blocks_pos r bsMax ltac:(lia) Hrpos). lia.
          + rewrite nb_blocks_full by lia. lia.
        - destruct (Z.ltb_spec bsMax KB128) as [Hb128|Hb128]; cbn [orb].
          + left. destruct (Z.min_spec r bsMax) as [[Hlt ->]|[Hge ->]].
            * replace (r - r) with 0 by lia. rewrite nb_blocks_zero by lia.
              pose proof (nb_blocks_pos r bsMax ltac:(lia) Hrpos). lia.
            * rewrite nb_blocks_full by lia. lia.
          + assert (bsMax = KB128) by lia. destruct (Z.ltb_spec s 3) as [Hs3|Hs3].
            * left. subst bsMax. rewrite nb_blocks_full by lia. lia.
            * right. split; [lia|]. apply nb_blocks_mono; [lia|]. pose proof (Hsp i). lia. }
      destruct Hnb as [Hnb|[Hs3 Hnb]]; lia.
Qed.

(* whatever capacity is offered, the loop never produces more than it was given *)
Lemma frame_chunk_within_capacity : forall fuel bc split i bsMax r cap s w body cap',
  bc_respects_capacity bc ->
  frame_chunk fuel bc split i bsMax r cap s w = Done body cap' ->
  w <= body /\ cap' = cap - (body - w) /\ (0 <= cap -> 0 <= cap').
Proof.
  induction fuel as [|fuel IH]; intros bc split i bsMax r cap s w body cap' Hbc Hrun.
  - cbn [frame_chunk] in Hrun. destruct (Z.leb_spec r 0); [|discriminate].
    injection Hrun as <- <-. lia.
  - cbn [frame_chunk] in Hrun. destruct (Z.leb_spec r 0).
    + injection Hrun as <- <-. lia.
    + destruct (Z.ltb_spec cap (BHS + MIN_CBLOCK + 1)); [discriminate|].
      destruct (bc i cap _) as [cs|] eqn:Hcs; [|discriminate].
      pose proof (Hbc _ _ _ _ Hcs). apply IH in Hrun; [|assumption]. lia.
Qed.

(* ---- whole frame ---- *)

(* from any capacity >= suff_capacity the frame writer passes every guard and finishes *)
Theorem sufficient_capacity_lemma : forall fuel bc split n bsMax hs chk s0 cap,
  bc_contract bc -> split_contract split ->
  0 <= n -> n <= Z.of_nat fuel ->
  0 < bsMax <= BLOCKSIZE_MAX -> 0 <= hs -> s0 <= 0 ->
  suff_capacity n bsMax hs chk <= cap ->
  exists w capLeft,
    compress_frame fuel bc split n bsMax hs chk s0 cap = Done w capLeft /\
    0 < w /\ w <= cap /\ capLeft = cap - w /\ w <= worst_frame n bsMax hs chk.
Proof.
  intros fuel bc split n bsMax hs chk s0 cap Hbc Hsp Hn Hfuel Hbs Hhs Hs0 Hcap.
  unfold suff_capacity in Hcap. unfold worst_frame.
  rewrite BLOCKSIZE_MAX_val in Hbs.
  rewrite FHS_MAX_val, BHS_val, CHECKSUM_SIZE_val in *.
  pose proof (nb_blocks_nonneg n bsMax ltac:(lia) ltac:(lia)) as Hnb0.
  unfold compress_frame, write_frame_header. rewrite FHS_MAX_val.
  destruct (Z.ltb_spec cap 18); [lia|].
  destruct (Z.leb_spec n 0) as [Hn0|Hnpos].
  - assert (n = 0) by lia. subst n. rewrite nb_blocks_zero in * by lia.
    unfold write_epilogue. rewrite BHS_val, CHECKSUM_SIZE_val.
    destruct (Z.ltb_spec (cap - hs) 3); [destruct chk; lia|].
    destruct chk.
    + destruct (Z.ltb_spec (cap - hs - 3) 4); [lia|].
      eexists _, _. split; [reflexivity|]. lia.
    + eexists _, _. split; [reflexivity|]. lia.
  - assert (Hbs' : 0 < bsMax <= KB128) by (rewrite KB128_val; lia).
    destruct (frame_chunk_succeeds fuel bc split O bsMax n (cap - hs) s0 0 (if chk then 4 else 2) Hbc Hsp Hbs')
      as (body & cap' & Hrun & Hc' & HE' & Hw & Hpos);
      try (rewrite ?BHS_val; destruct chk; lia).
    rewrite Hrun. specialize (Hpos Hnpos).
    pose proof (frame_chunk_expansion fuel bc split O bsMax n (cap - hs) s0 0 body cap'
                  (bc_contract_raw_bounded bc Hbc) Hsp Hbs' ltac:(lia) Hrun) as Hexp.
    rewrite BHS_val in Hexp.
    assert (Hbody : (0 <? body) = true) by (apply Z.ltb_lt; lia). rewrite Hbody.
    unfold write_epilogue. rewrite CHECKSUM_SIZE_val.
    destruct chk.
    + destruct (Z.ltb_spec cap' 4); [lia|].
      eexists _, _. split; [reflexivity|]. lia.
    + eexists _, _. split; [reflexivity|]. lia.
Qed.

Lemma suff_capacity_le_bound : forall n bs hs chk,
  0 <= n < MAX_INPUT -> 0 < bs -> (BLOCKSIZE_MAX_MIN <= bs \/ n <= bs) -> hs <= FHS_MAX ->
  suff_capacity n bs hs chk <= bound n.
Proof.
  intros n bs hs chk Hn Hbs0 Hbs Hhs. pose proof (worst_case_le_bound n bs Hn Hbs0 Hbs) as Hw.
  unfold suff_capacity. rewrite FHS_MAX_val, BHS_val, CHECKSUM_SIZE_val in *.
  pose proof (nb_blocks_nonneg n bs Hbs0 ltac:(lia)).
  destruct (n <=? 0); destruct chk; lia.
Qed.

Theorem compressBound_suffices_lemma : forall fuel bc split n bsMax hs chk s0,
  bc_contract bc -> split_contract split ->
  0 <= n < MAX_INPUT -> n <= Z.of_nat fuel ->
  0 < bsMax <= BLOCKSIZE_MAX -> (BLOCKSIZE_MAX_MIN <= bsMax \/ n <= bsMax) ->
  0 <= hs <= FHS_MAX -> s0 <= 0 ->
  exists w capLeft,
    compress_frame fuel bc split n bsMax hs chk s0 (bound n) = Done w capLeft /\
    0 < w /\ w <= bound n /\ capLeft = bound n - w /\ w <= worst_frame n bsMax hs chk.
Proof.
  intros fuel bc split n bsMax hs chk s0 Hbc Hsp Hn Hfuel Hbs Hbs2 Hhs Hs0.
  apply sufficient_capacity_lemma; try assumption; try lia.
  apply suff_capacity_le_bound; try assumption; lia.
Qed.

(* the block size the compression context really uses (ZSTD_resetCCtx_internal) satisfies the hypothesis on the
   block size for every accepted maxBlockSize (0 = default, or >= ZSTD_BLOCKSIZE_MAX_MIN) and windowLog
   (>= ZSTD_WINDOWLOG_ABSOLUTEMIN), when the source size is pledged *)
Lemma cctx_block_size_ok : forall mbs wlog n,
  (mbs = 0 \/ BLOCKSIZE_MAX_MIN <= mbs <= BLOCKSIZE_MAX) ->
  Z.of_N Gen_Tables.c_ZSTD_WINDOWLOG_ABSOLUTEMIN <= wlog -> 0 <= n ->
  let bs := cctx_block_size mbs wlog n in
  0 < bs <= BLOCKSIZE_MAX /\ (BLOCKSIZE_MAX_MIN <= bs \/ n <= bs).
Proof.
  intros mbs wlog n Hm Hw Hn bs. subst bs. unfold cctx_block_size, resolve_max_block_size.
  change (Z.of_N Gen_Tables.c_ZSTD_WINDOWLOG_ABSOLUTEMIN) with 10 in Hw.
  rewrite BLOCKSIZE_MAX_MIN_val, BLOCKSIZE_MAX_val in *.
  assert (H2 : 1024 <= 2 ^ wlog).
  { change 1024 with (2 ^ 10). apply Z.pow_le_mono_r; lia. }
  destruct (Z.eqb_spec mbs 0); lia.
Qed.

(* capacity error, never corruption (model level): for ANY capacity and any block compressor that respects the
   capacity it is given, the frame writer either reports dstSize_tooSmall or produced exactly what it accounts
   for, and that is within the capacity *)
Theorem compress_frame_within_capacity : forall fuel bc split n bsMax hs chk s0 cap w capLeft,
  bc_respects_capacity bc -> 0 <= hs <= FHS_MAX ->
  compress_frame fuel bc split n bsMax hs chk s0 cap = Done w capLeft ->
  0 <= capLeft /\ w + capLeft = cap /\ hs <= w.
Proof.
  intros fuel bc split n bsMax hs chk s0 cap w capLeft Hbc Hhs Hrun.
  unfold compress_frame, write_frame_header in Hrun. rewrite FHS_MAX_val in *.
  destruct (Z.ltb_spec cap 18); [discriminate|].
  destruct (Z.leb_spec n 0).
  - unfold write_epilogue in Hrun. rewrite BHS_val, CHECKSUM_SIZE_val in Hrun.
    destruct (Z.ltb_spec (cap - hs) 3); [discriminate|].
    destruct chk.
    + destruct (Z.ltb_spec (cap - hs - 3) 4); [discriminate|]. injection Hrun as <- <-. lia.
    + injection Hrun as <- <-. lia.
  - destruct (frame_chunk fuel bc split 0 bsMax n (cap - hs) s0 0) as [body cap2| |] eqn:Hfc; try discriminate.
    apply frame_chunk_within_capacity in Hfc; [|assumption].
    destruct Hfc as (Hb0 & Hc2 & Hc2pos). specialize (Hc2pos ltac:(lia)).
    unfold write_epilogue in Hrun. rewrite BHS_val, CHECKSUM_SIZE_val in Hrun.
    destruct (0 <? body).
    + destruct chk.
      * destruct (Z.ltb_spec cap2 4); [discriminate|]. injection Hrun as <- <-. lia.
      * injection Hrun as <- <-. lia.
    + destruct (Z.ltb_spec cap2 3); [discriminate|].
      destruct chk.
      * destruct (Z.ltb_spec (cap2 - 3) 4); [discriminate|]. injection Hrun as <- <-. lia.
      * injection Hrun as <- <-. lia.
Qed.

(* savings guard: whatever the pre-splitter answers and whatever capacity is offered, a frame that is produced is
   never larger than "every block of size blockSizeMax stored raw" *)
Theorem savings_guard_lemma : forall fuel bc split n bsMax hs chk s0 cap w capLeft,
  bc_raw_bounded bc -> split_contract split -> 0 < bsMax <= BLOCKSIZE_MAX -> 0 <= n -> s0 <= 0 ->
  compress_frame fuel bc split n bsMax hs chk s0 cap = Done w capLeft ->
  w <= worst_frame n bsMax hs chk.
Proof.
  intros fuel bc split n bsMax hs chk s0 cap w capLeft Hbc Hsp Hbs Hn Hs0 Hrun.
  unfold worst_frame. unfold compress_frame, write_frame_header in Hrun.
  rewrite BLOCKSIZE_MAX_val in Hbs. rewrite BHS_val, CHECKSUM_SIZE_val.
  destruct (cap <? FHS_MAX); [discriminate|].
  destruct (Z.leb_spec n 0).
  - assert (n = 0) by lia. subst n. rewrite nb_blocks_zero by lia.
    unfold write_epilogue in Hrun. rewrite BHS_val, CHECKSUM_SIZE_val in Hrun.
    destruct (cap - hs <? 3); [discriminate|].
    destruct chk.
    + destruct (cap - hs - 3 <? 4); [discriminate|]. injection Hrun as <- <-. lia.
    + injection Hrun as <- <-. lia.
  - destruct (frame_chunk fuel bc split 0 bsMax n (cap - hs) s0 0) as [body cap2| |] eqn:Hfc; try discriminate.
    assert (Hbs' : 0 < bsMax <= KB128) by (rewrite KB128_val; lia).
    pose proof (frame_chunk_expansion _ _ _ _ _ _ _ _ _ _ _ Hbc Hsp Hbs' Hn Hfc) as Hexp.
    rewrite BHS_val in Hexp.
    unfold write_epilogue in Hrun. rewrite BHS_val, CHECKSUM_SIZE_val in Hrun.
    destruct (Z.ltb_spec 0 body).
    + destruct chk.
      * destruct (cap2 <? 4); [discriminate|]. injection Hrun as <- <-. lia.
      * injection Hrun as <- <-. lia.
    + (* body <= 0 cannot happen for n > 0 under the full contract, but is harmless here *)
      destruct (cap2 <? 3); [discriminate|].
      pose proof (nb_blocks_pos n bsMax ltac:(lia) ltac:(lia)).
      destruct chk.
      * destruct (cap2 - 3 <? 4); [discriminate|]. injection Hrun as <- <-. lia.
      * injection Hrun as <- <-. lia.
Qed.

Lemma worst_frame_le_bound : forall n bs hs chk,
  0 <= n < MAX_INPUT -> 0 < bs -> (BLOCKSIZE_MAX_MIN <= bs \/ n <= bs) -> hs <= FHS_MAX ->
  worst_frame n bs hs chk <= bound n.
Proof.
  intros n bs hs chk Hn Hbs0 Hbs Hhs. pose proof (worst_case_le_bound n bs Hn Hbs0 Hbs).
  unfold worst_frame. rewrite BHS_val, CHECKSUM_SIZE_val in *.
  destruct (n <=? 0); destruct chk; lia.
Qed.

(* the hypotheses are satisfiable: the all-raw block compressor and the blind 92 KB split *)
Example contracts_satisfiable : bc_contract bc_raw /\ split_contract (split_const (92 * 1024)).
Proof. split; [exact bc_raw_contract|]. intros i. unfold split_const. rewrite KB128_val. lia. Qed.

(* tightness: with blocks smaller than ZSTD_BLOCKSIZE_MAX_MIN the bound would NOT suffice (so the hypothesis on
   the block size is needed) - 256 KiB cut in 512-byte raw blocks *)
Example small_blocks_overflow_the_bound : bound 262144 < worst_frame 262144 512 6 false.
Proof. vm_compute. reflexivity. Qed.

(* the precondition of super-additivity is needed *)
Example bound_not_superadditive_below_128K : bound 1000 + bound 1000 > bound 2000.
Proof. vm_compute. reflexivity. Qed.

(* the raw model from the bound: a concrete instance (n = 300000, 128 KiB blocks, 9-byte header, checksum) *)
Example raw_frame_example : raw_frame 300000 131072 9 true (bound 300000) = Done 300022 1149.
Proof. vm_compute. reflexivity. Qed.
