(* C13 (round 3) - theorems about AllocBorrow.v (DCtx + multi-DDict set + borrowed DDicts) and the v0.4 legacy stream decoder
   (AllocLegacy.v with the repair record of lib/legacy/zstd_v04.c as found on 2026-10-02). *)
From Coq Require Import NArith List Bool Arith Lia.
From ZV.Mem Require Import AllocDsl AllocProofs AllocSet AllocSetProofs.
From ZV.Mem Require Import AllocLegacy AllocHistoryG AllocLegacyTheorems.
From ZV.Mem Require Import AllocBorrow.
Import ListNotations.
Local Open Scope N_scope.

Definition FB := 64%nat.
Ltac run_analysisB := vm_compute; reflexivity.

(* two DDict handles; the repaired ZSTD_DCtx_refDDict *)
Definition bcl (a b c d : N) := bclient true true 2 a b c d.
Definition btd (a b c d : N) := bteardown true true 2 a b c d.

(* a program without a [Return] outside a [Call] never "returns" out of the caller's sequence *)
Fixpoint nrt (p : prog) : bool :=
  match p with
  | Return _ => false
  | Seq p q | IfNull _ p q | IfFlag _ p q | Choice _ p q | IfEmpty _ p q | PopElse _ _ p q | IfErr p q => nrt p && nrt q
  | Star p => nrt p
  | _ => true
  end.
Lemma iter_noret : forall n f, (forall s, snd (f s) = false) -> forall s, snd (iter n f s) = false.
Proof.
  induction n as [|n IH]; intros f H s; cbn [iter]; [reflexivity|].
  pose proof (H s) as Hs. destruct (f s) as [s1 r]. cbn in Hs. subst r. apply IH. exact H.
Qed.
Lemma nrt_sound : forall p, nrt p = true -> forall o s, snd (run o p s) = false.
Proof.
  induction p; intros Hn o s; cbn [nrt] in Hn; try discriminate;
    try (apply andb_true_iff in Hn; destruct Hn as [H1 H2]); cbn [run].
  - reflexivity.
  - pose proof (IHp1 H1 o s) as E. destruct (run o p1 s) as [s1 r]. cbn in E. subst r. apply IHp2; assumption.
  - cbv zeta. destruct (fails o (S (next s))); reflexivity.
  - destruct (sget s l); reflexivity.
  - reflexivity.
  - reflexivity.
  - destruct (sget s l); [destruct (mem_nat n (live s))|]; reflexivity.
  - destruct (sget s l); [apply IHp2|apply IHp1]; assumption.
  - reflexivity.
  - destruct (flget s f); [apply IHp1|apply IHp2]; assumption.
  - cbv zeta. destruct (choose o (nchoice s)); [apply IHp1|apply IHp2]; assumption.
  - destruct (sget s l); reflexivity.
  - destruct (fget s f); reflexivity.
  - destruct (fget s f); [apply IHp1|apply IHp2]; assumption.
  - destruct (fget s f); [apply IHp1|apply IHp2]; assumption.
  - reflexivity.
  - reflexivity.
  - destruct (fget s src); reflexivity.
  - destruct (run o p _); reflexivity.
  - destruct (status s); [apply IHp2|apply IHp1]; assumption.
  - reflexivity.
  - cbv zeta. apply iter_noret. intros s0. apply IHp. exact Hn.
Qed.

Lemma bclient_noret : forall fx px a b c d o op s, snd (run o (bclient fx px 2 a b c d op) s) = false.
Proof. intros fx px a b c d o op s. apply nrt_sound. destruct op; reflexivity. Qed.

(* histories: any operation on the DCtx, the DDicts 0 and 1 (created by copy or by reference); the observation-driven variant of
   the tie is not part of them *)
Definition bok (o : bop) : bool :=
  match o with
  | BRef k | BDDCreate k _ | BDDFree k => k <? 2
  | BRefObs _ _ => false
  | _ => true
  end.

Definition St_borrow : list astate :=
  Eval vm_compute in unoptL (reachSL FB (map (bclient true true 2 0 0 0 0) (breps 2)) ainit).

Lemma lt2 : forall k, (k <? 2) = true -> k = 0 \/ k = 1.
Proof. intros k H. apply N.ltb_lt in H. lia. Qed.

Lemma borrow_closed : forall a b c d op, bok op = true -> closedSF FB St_borrow aerr_iff_fail (bcl a b c d op) = true.
Proof.
  intros a b c d op H. destruct op as [| |k|k n| | | |k byRef|k|byRef sz|n sz|]; cbn in H; try discriminate;
    try (destruct (lt2 _ H); subst k); try destruct byRef; try (destruct n as [|[p|p|]]); run_analysisB.
Qed.
Lemma borrow_teardown : forall a b c d, all_res aclean (aexecS FB true (btd a b c d) St_borrow) = true.
Proof. intros. run_analysisB. Qed.
Lemma borrow_init : In ainit St_borrow.
Proof. left. reflexivity. Qed.

Theorem borrow_any_history_no_leak_l : forall a b c d ops, forallb bok ops = true -> forall o,
  let s := fst (run o (Seq (gsession bop (bcl a b c d) ops) (btd a b c d)) init_state) in
  live s = [] /\ errs s = [].
Proof.
  intros a b c d ops H o.
  apply (ghistory_then_teardown bop (bcl a b c d) (bclient_noret true true a b c d) FB bok St_borrow _ _ borrow_init (borrow_closed a b c d) (borrow_teardown a b c d) ops H).
Qed.

Theorem borrow_any_history_error_iff_failure_l : forall a b c d ops op, forallb bok ops = true -> bok op = true -> forall o,
  let s := fst (run o (Seq (gsession bop (bcl a b c d) ops) (bcl a b c d op)) init_state) in
  status s = false <-> (0 < nfail s)%nat.
Proof.
  intros a b c d ops op H Hop o. cbn zeta.
  destruct (ghistory_last bop (bcl a b c d) (bclient_noret true true a b c d) FB bok St_borrow _ (borrow_closed a b c d) ops op H Hop o ainit init_state borrow_init G_init) as [x [A B]].
  exact (gstatus_of_G _ _ B A).
Qed.

(* reusable: while the DCtx and DDict k exist, a reference made with memory available succeeds, whatever failed before,
   and the frame decoded next reads live objects only *)
Definition astatus_okB (a : astate) : bool := astatus a.
Lemma borrow_not_dang : forallb (fun a => match aget a R_dctx with ADang => false | _ => true end) St_borrow = true.
Proof. run_analysisB. Qed.
Definition ref_then_decode (a b c d k : N) : prog :=
  Seq (bcl a b c d (BDDCreate k false)) (Seq Forget (Seq (bcl a b c d (BRef k)) (Seq (bcl a b c d BDecomp) (Seq (bcl a b c d (BStream 0 0))
    (IfFlag (RF_bel k) Skip (Return false)))))).
Lemma borrow_recover : forall a b c d k, (k <? 2) = true -> all_res astatus_okB (aexecS FB false (ref_then_decode a b c d k)
   (filter (fun x => match aget x R_dctx with AOwn => true | _ => false end) St_borrow)) = true.
Proof. intros a b c d k H. destruct (lt2 _ H); subst k; run_analysisB. Qed.

Theorem borrow_reusable_after_any_history_l : forall a b c d ops, forallb bok ops = true -> forall o1 o2, (forall k, fails o2 k = false) ->
  forall k, (k <? 2) = true ->
  let s1 := fst (run o1 (gsession bop (bcl a b c d) ops) init_state) in
  sget s1 R_dctx <> None ->
  let s2 := fst (run o2 (ref_then_decode a b c d k) s1) in
  status s2 = true /\ errs s2 = [].
Proof.
  intros a b c d ops H o1 o2 Hnf k Hk. cbn zeta. intros Hl.
  destruct (ghistory_then_recover bop (bcl a b c d) (bclient_noret true true a b c d) FB bok St_borrow _ astatus_okB R_dctx _
              borrow_init (borrow_closed a b c d) borrow_not_dang (borrow_recover a b c d k Hk) ops H o1 o2 Hnf Hl) as [x [A B]].
  split; [rewrite <- (g_status _ _ B); exact A|exact (g_errs _ _ B)].
Qed.

(* ------------------------------------------------------------------ ZSTD_DCtx_refDDict as found: concrete refutation *)
Definition run_b (fx : bool) (ops : list bop) (faults : list nat) (choices : list bool) : list nat * list err * bool :=
  let s := fst (run (oracle_of faults choices []) (Seq (gsession bop (bclient fx true 2 1 2 3 4) ops) (bteardown fx true 2 1 2 3 4)) init_state) in
  (live s, errs s, status s).

(* finding dctx-refddict-failed-call-takes-effect: the set cannot be created (4th allocation: DCtx, DDict struct, DDict content,
   set), the call reports the failure, the caller releases the DDict it holds no obligation for, the next frame reads it *)
Lemma refddict_failed_call_takes_effect_refuted_l :
  (exists e, snd (fst (run_b false [BCreate; BDDCreate 0 false; BRef 0; BDDFree 0; BDecomp] [4%nat] [])) = e /\ In (EUseDead (RD 0)) e)
  /\ run_b true [BCreate; BDDCreate 0 false; BRef 0; BDDFree 0; BDecomp] [4%nat] [] = ([], [], true).
Proof. split; [eexists; split; [vm_compute; reflexivity|cbn; auto]|vm_compute; reflexivity]. Qed.

(* the same through a failed EXPANSION of the set (DDict 1 already referenced; the test "load factor exceeded" answers yes) *)
Lemma refddict_failed_expansion_takes_effect_refuted_l :
  (exists e, snd (fst (run_b false [BCreate; BDDCreate 1 true; BRef 1; BDDCreate 0 true; BRef 0; BDDFree 0; BDecomp] [6%nat] [true])) = e /\ In (EUseDead (RD 0)) e)
  /\ run_b true [BCreate; BDDCreate 1 true; BRef 1; BDDCreate 0 true; BRef 0; BDDFree 0; BDecomp] [6%nat] [true] = ([], [], true).
Proof. split; [eexists; split; [vm_compute; reflexivity|cbn; auto]|vm_compute; reflexivity]. Qed.

(* finding prefix-used-up-by-failed-frame-start (decoder side): ZSTD_DCtx_refPrefix, a frame whose stream buffer cannot be allocated
   (3rd allocation: DCtx, prefix DDict, buffer), the same frame again after the reset: as found the single-use reference was taken by
   the failed frame start, the prefix is released and the frame fails for its content - an error although no allocation failed; with
   the repair the second attempt succeeds *)
Definition run_p (px : bool) (ops : list bop) (op : bop) (faults : list nat) (choices : list bool) : bool * nat * list err :=
  let s := fst (run (oracle_of faults choices []) (Seq (gsession bop (bclient true px 2 1 2 3 4) ops) (bclient true px 2 1 2 3 4 op)) init_state) in
  (status s, nfail s, errs s).
Lemma prefix_used_up_by_failed_frame_start_refuted_l :
  run_p false [BCreate; BRefPrefix; BStream 0 0] (BStream 0 0) [3%nat] [] = (false, 0%nat, [])
  /\ run_p true [BCreate; BRefPrefix; BStream 0 0] (BStream 0 0) [3%nat] [] = (true, 0%nat, []).
Proof. split; vm_compute; reflexivity. Qed.

(* ------------------------------------------------------------------ lib/legacy/zstd_v04.c as found on 2026-10-02:
   ZBUFFv04 records its buffer sizes before the malloc and does not test its inner context (the two defects repaired in
   v0.5 - v0.7 by c0b31cc / 7152538); the version-switch code of zstd_legacy.h is shared and already repaired (c8feb81) *)
Definition v04_as_found : repair := mkRepair false true false.

Lemma zbuffv04_stale_size_refuted_l :
  (exists e, snd (fst (run_l v04_as_found [LCreate; LStream 10 20; LStream 10 20] [4%nat] [true; false; false; false; false; false])) = e /\ e <> [])
  /\ (exists e, snd (fst (run_l v04_as_found [LCreate; LStream 10 20; LStream 10 20] [5%nat] [true; false; false; false; false; false])) = e /\ e <> [])
  /\ run_l repaired [LCreate; LStream 10 20; LStream 10 20] [5%nat] [true; false; false; false; false; false] = ([], [], true).
Proof. split; [|split]; [eexists; split; [vm_compute; reflexivity|discriminate]|eexists; split; [vm_compute; reflexivity|discriminate]|vm_compute; reflexivity]. Qed.

Lemma zbuffv04_unchecked_refuted_l :
  (exists e, snd (fst (run_l v04_as_found [LCreate; LStream 10 20] [3%nat] [true; false; false])) = e /\ In (EUseDead X_zd) e)
  /\ run_l repaired [LCreate; LStream 10 20] [3%nat] [true; false; false] = ([], [], true).
Proof. split; [eexists; split; [vm_compute; reflexivity|cbn; auto]|vm_compute; reflexivity]. Qed.

Definition borrow_states : nat := Eval vm_compute in length St_borrow.
