(* C14 round 3 - model of what a multithreaded compression context (ZSTDMT_CCtx, lib/compress/zstdmt_compress.c, with
   its own thread pool lib/common/pool.c) OWNS and what ZSTDMT_sizeof_CCtx REPORTS, with ALLOCATION FAILURES:
   ZSTDMT_createCCtx_advanced_internal, ZSTDMT_resize (POOL_resize, ZSTDMT_expandJobsTable, ZSTDMT_expandBufferPool /
   _expandCCtxPool / _expandSeqPool: release first, re-create after, NULL when the re-creation fails), the session start of
   ZSTDMT_initCStream_internal (ZSTDMT_releaseAllJobResources, resize when the worker count differs, local CDict, round
   buffer, serial LDM tables of ZSTDMT_serialState_reset), the buffer traffic of a session (ZSTDMT_getBuffer /
   ZSTDMT_releaseBuffer with the size-conditions test, one sequence buffer / one worker context per job),
   the whole of ZSTDMT_initCStream_internal as one operation ([mt_init]),
   ZSTDMT_freeCCtx, ZSTDMT_sizeof_CCtx (current: NULL-tolerant, fix eb053f6; and the expression before that fix, which
   dereferences a NULL pool / jobs table).
   Every allocation consults a failure schedule (list bool, false = this allocation returns NULL; exhausted = success).
   Every operation returns the allocator events it performs; all structure sizes are PARAMETERS (record [mtsz]): the
   theorems hold for every build, the harness passes the sizes of the current build to the extracted model.
   Not modelled: a thread pool provided by the caller (ZSTD_CCtx_refThreadPool), pthread_create / mutex-init failures.
   No proofs in this file. *)
From Coq Require Import NArith List Bool.
From ZV.Mem Require Import DOwner.
Import ListNotations.
Local Open Scope N_scope.

Record mtsz := mkSZ {
  z_mtctx : N;      (* sizeof(ZSTDMT_CCtx) *)
  z_job : N;        (* sizeof(ZSTDMT_jobDescription) *)
  z_bufpool : N;    (* sizeof(ZSTDMT_bufferPool) *)
  z_buffer : N;     (* sizeof(buffer_t) *)
  z_cctxpool : N;   (* sizeof(ZSTDMT_CCtxPool) *)
  z_ptr : N;        (* sizeof(ZSTD_CCtx* ) *)
  z_cctx : N;       (* sizeof(ZSTD_CCtx) *)
  z_pool : N;       (* sizeof(POOL_ctx) *)
  z_pooljob : N;    (* sizeof(POOL_job) *)
  z_thread : N;     (* sizeof(ZSTD_pthread_t) *)
  z_ldmEntry : N;   (* sizeof(ldmEntry_t) *)
  z_maxWorkers : N  (* ZSTDMT_NBWORKERS_MAX *) }.

(* one allocation of n bytes against the failure schedule *)
Definition try_alloc (n : N) (fs : list bool) : bool * list ev * list bool :=
  match fs with
  | false :: r => (false, [], r)
  | _ :: r => (true, [Alloc n], r)
  | [] => (true, [Alloc n], [])
  end.

(* a pool of reusable objects (ZSTDMT_bufferPool / ZSTDMT_seqPool / ZSTDMT_CCtxPool): capacity of the slot array and the
   bytes of every object currently stored in it *)
Record pool := mkPool { p_total : N; p_items : list N }.
Definition sumN (l : list N) : N := fold_right N.add 0 l.
Definition pool_bytes (zs ze : N) (p : pool) : N := zs + p_total p * ze + sumN (p_items p).
Definition opool_bytes (zs ze : N) (p : option pool) : N := match p with Some q => pool_bytes zs ze q | None => 0 end.

(* ZSTDMT_freeBufferPool / ZSTDMT_freeCCtxPool: every stored object, the slot array, the structure *)
Definition free_pool (zs ze : N) (p : pool) : list ev := map Free (p_items p) ++ [Free (p_total p * ze); Free zs].

(* ZSTDMT_createBufferPool(total): structure, then slot array (failure: the structure is released) *)
Definition create_pool (zs ze total : N) (fs : list bool) : option pool * list ev * list bool :=
  let '(ok1, e1, fs1) := try_alloc zs fs in
  if ok1 then
    let '(ok2, e2, fs2) := try_alloc (total * ze) fs1 in
    if ok2 then (Some (mkPool total []), e1 ++ e2, fs2) else (None, e1 ++ [Free zs], fs2)
  else (None, [], fs1).

(* ZSTDMT_createCCtxPool(total): structure, slot array, one context (ZSTD_createCCtx_advanced: one block of sizeof(ZSTD_CCtx)) *)
Definition create_cpool (z : mtsz) (total : N) (fs : list bool) : option pool * list ev * list bool :=
  let '(ok1, e1, fs1) := try_alloc (z_cctxpool z) fs in
  if ok1 then
    let '(ok2, e2, fs2) := try_alloc (total * z_ptr z) fs1 in
    if ok2 then
      let '(ok3, e3, fs3) := try_alloc (z_cctx z) fs2 in
      if ok3 then (Some (mkPool total [z_cctx z]), e1 ++ e2 ++ e3, fs3)
      else (None, e1 ++ e2 ++ [Free (total * z_ptr z); Free (z_cctxpool z)], fs3)
    else (None, e1 ++ [Free (z_cctxpool z)], fs2)
  else (None, [], fs1).

(* ZSTDMT_resize on one pool: NULL (a previous resize failed) -> create; large enough -> keep; else release, then create *)
Definition expand_with (create : N -> list bool -> option pool * list ev * list bool) (zs ze : N)
                       (p : option pool) (want : N) (fs : list bool) : option pool * list ev * list bool :=
  match p with
  | None => create want fs
  | Some q => if want <=? p_total q then (Some q, [], fs)
              else let '(r, e, fs') := create want fs in (r, free_pool zs ze q ++ e, fs')
  end.

(* ZSTDMT_createJobsTable: nbJobs rounded to 1 << (ZSTD_highbit32(nbJobs) + 1) *)
Definition jobs_pow2 (nbJobs : N) : N := 2 ^ (N.log2 nbJobs + 1).

Record mtown := mkMT {
  mt_nbw : N;                 (* mtctx->params.nbWorkers; 0 while a resize is incomplete *)
  mt_threads : N;             (* factory->threadCapacity *)
  mt_jobs : option N;         (* Some (jobIDMask + 1); None: jobs == NULL (jobIDMask == 0) *)
  mt_buf : option pool;       (* bufPool *)
  mt_cctx : option pool;      (* cctxPool; one item = one worker context with its workspace *)
  mt_seq : option pool;       (* seqPool *)
  mt_inflight : list N;       (* jobs[].dstBuff.capacity of the jobs that are not flushed yet *)
  mt_round : N;               (* roundBuff.capacity (0 = no buffer) *)
  mt_ldmH : N; mt_ldmB : N;   (* serial.ldmHashTableSize / ldmBucketOffsetsSize (0 = no table) *)
  mt_prevH : N; mt_prevB : N; (* serial.params.ldmParams.hashLog and hashLog - bucketSizeLog of the last frame (0 after a frame without LDM) *)
  mt_cdict : N }.             (* ZSTD_sizeof_CDict(cdictLocal) (0 = none) *)

Definition factory_bytes (z : mtsz) (threads : N) : N := z_pool z + z_pooljob z + threads * z_thread z.
Definition jobs_bytes (z : mtsz) (j : option N) : N := match j with Some n => n * z_job z | None => 0 end.

(* what the context holds at the allocator *)
Definition mt_owned (z : mtsz) (s : mtown) : N :=
  z_mtctx z + factory_bytes z (mt_threads s) + jobs_bytes z (mt_jobs s)
  + opool_bytes (z_bufpool z) (z_buffer z) (mt_buf s) + sumN (mt_inflight s)
  + opool_bytes (z_cctxpool z) (z_ptr z) (mt_cctx s) + opool_bytes (z_bufpool z) (z_buffer z) (mt_seq s)
  + mt_round s + mt_ldmH s + mt_ldmB s + mt_cdict s.

(* ZSTDMT_sizeof_CCtx, current code (fix eb053f6: a NULL pool counts 0, the job table only when it exists) *)
Definition mt_sizeof (z : mtsz) (s : mtown) : N :=
  z_mtctx z + factory_bytes z (mt_threads s)
  + opool_bytes (z_bufpool z) (z_buffer z) (mt_buf s)
  + (match mt_jobs s with Some _ => sumN (mt_inflight s) | None => 0 end)
  + jobs_bytes z (mt_jobs s)
  + opool_bytes (z_cctxpool z) (z_ptr z) (mt_cctx s) + opool_bytes (z_bufpool z) (z_buffer z) (mt_seq s)
  + mt_cdict s + mt_ldmH s + mt_ldmB s + mt_round s.

(* ZSTDMT_sizeof_CCtx before fix eb053f6: None = it dereferences a NULL pool / a NULL jobs table *)
Definition mt_sizeof_old (z : mtsz) (s : mtown) : option N :=
  match mt_jobs s, mt_buf s, mt_cctx s, mt_seq s with
  | Some j, Some b, Some c, Some q =>
      Some (z_mtctx z + factory_bytes z (mt_threads s) + pool_bytes (z_bufpool z) (z_buffer z) b + sumN (mt_inflight s)
            + j * z_job z + pool_bytes (z_cctxpool z) (z_ptr z) c + pool_bytes (z_bufpool z) (z_buffer z) q
            + mt_cdict s + mt_ldmH s + mt_ldmB s + mt_round s)
  | _, _, _, _ => None
  end.

(* ------------------------------------------------------------------ *)
(* ZSTDMT_createCCtx_advanced_internal(nbWorkers, cMem, NULL): every part is attempted even after an earlier failure; when
   one is missing ZSTDMT_freeCCtx releases the others and NULL is returned *)
Definition create_factory (z : mtsz) (n : N) (fs : list bool) : bool * list ev * list bool :=
  (* POOL_create_advanced(n, 0): context; queue and thread array are both attempted, then tested together *)
  let '(ok1, e1, fs1) := try_alloc (z_pool z) fs in
  if ok1 then
    let '(ok2, e2, fs2) := try_alloc (z_pooljob z) fs1 in
    let '(ok3, e3, fs3) := try_alloc (n * z_thread z) fs2 in
    if ok2 && ok3 then (true, e1 ++ e2 ++ e3, fs3)
    else (false, e1 ++ e2 ++ e3 ++ (if ok2 then [Free (z_pooljob z)] else []) ++ (if ok3 then [Free (n * z_thread z)] else []) ++ [Free (z_pool z)], fs3)
  else (false, [], fs1).

Definition mt_create (z : mtsz) (nbWorkers : N) (fs : list bool) : option mtown * list ev * list bool :=
  if nbWorkers =? 0 then (None, [], fs) else
  let n := N.min nbWorkers (z_maxWorkers z) in
  let '(ok0, e0, fs0) := try_alloc (z_mtctx z) fs in
  if ok0 then
    let '(okF, eF, fsF) := create_factory z n fs0 in
    let '(okJ, eJ, fsJ) := try_alloc (jobs_pow2 (n + 2) * z_job z) fsF in
    let '(pB, eB, fsB) := create_pool (z_bufpool z) (z_buffer z) (2 * n + 3) fsJ in
    let '(pC, eC, fsC) := create_cpool z n fsB in
    let '(pS, eS, fsS) := create_pool (z_bufpool z) (z_buffer z) n fsC in
    let es := e0 ++ eF ++ eJ ++ eB ++ eC ++ eS in
    match okF, okJ, pB, pC, pS with
    | true, true, Some b, Some c, Some q =>
        (Some (mkMT n n (Some (jobs_pow2 (n + 2))) (Some b) (Some c) (Some q) [] 0 0 0 0 0 0), es, fsS)
    | _, _, _, _, _ =>
        (* ZSTDMT_freeCCtx on the partial context *)
        (None, es ++ (if okF then [Free (z_pooljob z); Free (n * z_thread z); Free (z_pool z)] else [])
                  ++ (if okJ then [Free (jobs_pow2 (n + 2) * z_job z)] else [])
                  ++ (match pB with Some b => free_pool (z_bufpool z) (z_buffer z) b | None => [] end)
                  ++ (match pC with Some c => free_pool (z_cctxpool z) (z_ptr z) c | None => [] end)
                  ++ (match pS with Some q => free_pool (z_bufpool z) (z_buffer z) q | None => [] end)
                  ++ [Free (z_mtctx z)], fsS)
    end
  else (None, [], fs0).

(* ------------------------------------------------------------------ *)
(* ZSTDMT_releaseBuffer(bufPool, buf): stored when a slot is free, released otherwise *)
Definition release_into (p : pool) (cap : N) : pool * list ev :=
  if N.of_nat (length (p_items p)) <? p_total p then (mkPool (p_total p) (cap :: p_items p), []) else (p, [Free cap]).

(* ZSTDMT_releaseAllJobResources: every unflushed output buffer goes back to the buffer pool *)
Fixpoint release_all (p : pool) (l : list N) : pool * list ev :=
  match l with
  | [] => (p, [])
  | c :: r => let '(p1, e1) := release_into p c in let '(p2, e2) := release_all p1 r in (p2, e1 ++ e2)
  end.

Definition mt_release_all (s : mtown) : mtown * list ev :=
  match mt_buf s with
  | Some p => let '(p', e) := release_all p (mt_inflight s) in
              (mkMT (mt_nbw s) (mt_threads s) (mt_jobs s) (Some p') (mt_cctx s) (mt_seq s) [] (mt_round s) (mt_ldmH s) (mt_ldmB s) (mt_prevH s) (mt_prevB s) (mt_cdict s), e)
  | None => (* unreachable with buffers in flight (they come from the pool); nothing is in flight when the pool is NULL *)
      (mkMT (mt_nbw s) (mt_threads s) (mt_jobs s) None (mt_cctx s) (mt_seq s) [] (mt_round s) (mt_ldmH s) (mt_ldmB s) (mt_prevH s) (mt_prevB s) (mt_cdict s),
       map Free (mt_inflight s))
  end.

(* POOL_resize(factory, n): nothing to allocate when the capacity suffices; else a new handle array, the old one released *)
Definition resize_threads (z : mtsz) (threads n : N) (fs : list bool) : bool * N * list ev * list bool :=
  if n <=? threads then (true, threads, [], fs)
  else let '(ok, e, fs') := try_alloc (n * z_thread z) fs in
       if ok then (true, n, e ++ [Free (threads * z_thread z)], fs') else (false, threads, [], fs').

(* ZSTDMT_expandJobsTable(mtctx, n): when n + 2 > jobIDMask + 1 the table is released, then re-created *)
Definition resize_jobs (z : mtsz) (jobs : option N) (n : N) (fs : list bool) : bool * option N * list ev * list bool :=
  if (match jobs with Some j => j | None => 1 end) <? n + 2 then
    let '(ok, e, fs') := try_alloc (jobs_pow2 (n + 2) * z_job z) fs in
    if ok then (true, Some (jobs_pow2 (n + 2)), (match jobs with Some j => [Free (j * z_job z)] | None => [] end) ++ e, fs')
    else (false, None, (match jobs with Some j => [Free (j * z_job z)] | None => [] end), fs')
  else (true, jobs, [], fs).

(* ZSTDMT_resize(mtctx, n), n >= 1.  Result: new state, success?, events *)
Definition mt_resize (z : mtsz) (s : mtown) (n : N) (fs : list bool) : mtown * bool * list ev * list bool :=
  let mk nbw th j b c q := mkMT nbw th j b c q (mt_inflight s) (mt_round s) (mt_ldmH s) (mt_ldmB s) (mt_prevH s) (mt_prevB s) (mt_cdict s) in
  let '(okT, th, eT, fsT) := resize_threads z (mt_threads s) n fs in
  if negb okT then (mk 0 th (mt_jobs s) (mt_buf s) (mt_cctx s) (mt_seq s), false, eT, fsT) else
  let '(okJ, jobs, eJ, fsJ) := resize_jobs z (mt_jobs s) n fsT in
  if negb okJ then (mk 0 th jobs (mt_buf s) (mt_cctx s) (mt_seq s), false, eT ++ eJ, fsJ) else
  let '(pB, eB, fsB) := expand_with (create_pool (z_bufpool z) (z_buffer z)) (z_bufpool z) (z_buffer z) (mt_buf s) (2 * n + 3) fsJ in
  match pB with None => (mk 0 th jobs None (mt_cctx s) (mt_seq s), false, eT ++ eJ ++ eB, fsB) | Some _ =>
  let '(pC, eC, fsC) := expand_with (create_cpool z) (z_cctxpool z) (z_ptr z) (mt_cctx s) n fsB in
  match pC with None => (mk 0 th jobs pB None (mt_seq s), false, eT ++ eJ ++ eB ++ eC, fsC) | Some _ =>
  let '(pS, eS, fsS) := expand_with (create_pool (z_bufpool z) (z_buffer z)) (z_bufpool z) (z_buffer z) (mt_seq s) n fsC in
  match pS with None => (mk 0 th jobs pB pC None, false, eT ++ eJ ++ eB ++ eC ++ eS, fsS) | Some _ =>
  (mk n th jobs pB pC pS, true, eT ++ eJ ++ eB ++ eC ++ eS, fsS)
  end end end.

(* ------------------------------------------------------------------ *)
Inductive mop :=
| MStart (n : N) (fs : list bool)        (* start of ZSTDMT_initCStream_internal: release all job resources, resize when n differs *)
| MDict (bytes : option N) (ok : bool)   (* local CDict of the session: the previous one is released first *)
| MRound (cap : N) (ok : bool)           (* round buffer of at least cap bytes *)
| MLdm (logs : option (N * N)) (ok1 ok2 : bool)   (* ZSTDMT_serialState_reset: Some (hashLog, hashLog - bucketSizeLog) / None = no LDM *)
| MGetBuf (cap : N) (ok : bool)          (* ZSTDMT_getBuffer with bufferSize = cap: the output buffer of a new job *)
| MFlush (i : nat)                       (* job output #i completely flushed: ZSTDMT_releaseBuffer *)
| MSeqUse (bytes : N) (ok : bool)        (* a job takes a sequence buffer of that size and gives it back *)
| MCtxUse (ws : option N) (ok1 ok2 : bool)   (* a job takes a worker context (a new one when none is stored), replaces its workspace by one of ws bytes (None: keeps it), gives it back *)
| MInit (n : N) (fs : list bool) (dict : option N) (round : N) (ldm : option (N * N)).   (* the whole ZSTDMT_initCStream_internal *)

Inductive mrc := MOk | MMem | MSkip.

(* the local CDict of a session (ZSTDMT_initCStream_internal): the previous one is released first *)
Definition mt_dict (s : mtown) (d : option N) (ok : bool) : mtown * mrc * list ev :=
      let e0 := if mt_cdict s =? 0 then [] else [Free (mt_cdict s)] in
      let set c := mkMT (mt_nbw s) (mt_threads s) (mt_jobs s) (mt_buf s) (mt_cctx s) (mt_seq s) (mt_inflight s) (mt_round s) (mt_ldmH s) (mt_ldmB s) (mt_prevH s) (mt_prevB s) c in
      match d with
      | Some b => if ok then (set b, MOk, e0 ++ [Alloc b]) else (set 0, MMem, e0)
      | None => (set 0, MOk, e0)
      end
.

(* the round buffer: grown (released, re-created) when smaller than the capacity the session needs *)
Definition mt_roundbuf (s : mtown) (cap : N) (ok : bool) : mtown * mrc * list ev :=
      let set c := mkMT (mt_nbw s) (mt_threads s) (mt_jobs s) (mt_buf s) (mt_cctx s) (mt_seq s) (mt_inflight s) c (mt_ldmH s) (mt_ldmB s) (mt_prevH s) (mt_prevB s) (mt_cdict s) in
      if mt_round s <? cap then
        let e0 := if mt_round s =? 0 then [] else [Free (mt_round s)] in
        if ok then (set cap, MOk, e0 ++ [Alloc cap]) else (set 0, MMem, e0)
      else (s, MOk, [])
.

(* ZSTDMT_serialState_reset: the serial LDM hash table / bucket offsets *)
Definition mt_ldm (z : mtsz) (s : mtown) (logs : option (N * N)) (ok1 ok2 : bool) : mtown * mrc * list ev :=
  match logs with
  | None =>
      (mkMT (mt_nbw s) (mt_threads s) (mt_jobs s) (mt_buf s) (mt_cctx s) (mt_seq s) (mt_inflight s) (mt_round s) (mt_ldmH s) (mt_ldmB s) 0 0 (mt_cdict s), MOk, [])
  | Some (hl, bl) =>
      let hsz := 2 ^ hl * z_ldmEntry z in
      let bsz := 2 ^ bl in
      let '(h, eH) := if (mt_ldmH s =? 0) || (mt_prevH s <? hl)
                      then ((if ok1 then hsz else 0), (if mt_ldmH s =? 0 then [] else [Free (mt_ldmH s)]) ++ (if ok1 then [Alloc hsz] else []))
                      else (mt_ldmH s, []) in
      let '(b, eB) := if (mt_ldmB s =? 0) || (mt_prevB s <? bl)
                      then ((if ok2 then bsz else 0), (if mt_ldmB s =? 0 then [] else [Free (mt_ldmB s)]) ++ (if ok2 then [Alloc bsz] else []))
                      else (mt_ldmB s, []) in
      if (h =? 0) || (b =? 0)
      then (mkMT (mt_nbw s) (mt_threads s) (mt_jobs s) (mt_buf s) (mt_cctx s) (mt_seq s) (mt_inflight s) (mt_round s) h b (mt_prevH s) (mt_prevB s) (mt_cdict s), MMem, eH ++ eB)
      else (mkMT (mt_nbw s) (mt_threads s) (mt_jobs s) (mt_buf s) (mt_cctx s) (mt_seq s) (mt_inflight s) (mt_round s) h b hl bl (mt_cdict s), MOk, eH ++ eB)
  end.

(* ------------------------------------------------------------------ *)
(* ZSTDMT_initCStream_internal as ONE operation: the parts above in the order of the code, one failure schedule threaded
   through all of them, and the early returns: a failed resize / local CDict / round buffer / LDM table ends the call.
   [dict]: bytes of the local CDict to create (None: no dictionary content given); [round]: capacity the round buffer must
   reach; [ldm]: Some (hashLog, hashLog - bucketSizeLog) after ZSTD_ldm_adjustParameters, None when LDM is off *)
Definition next_ok (fs : list bool) : bool * list bool := match fs with [] => (true, []) | b :: r => (b, r) end.

Definition mt_init (z : mtsz) (s : mtown) (n : N) (fs : list bool) (dict : option N) (round : N) (ldm : option (N * N))
  : mtown * mrc * list ev :=
  if n =? 0 then (s, MSkip, []) else
  let '(s1, e1) := mt_release_all s in
  let '(s2, ok, e2, fs2) := if n =? mt_nbw s1 then (s1, true, [], fs) else mt_resize z s1 n fs in
  if negb ok then (s2, MMem, e1 ++ e2) else
  let '(okD, fs3) := match dict with Some _ => next_ok fs2 | None => (true, fs2) end in
  let '(s3, rc3, e3) := mt_dict s2 dict okD in
  match rc3 with
  | MMem => (s3, MMem, e1 ++ e2 ++ e3)
  | _ =>
    let '(okR, fs4) := if mt_round s3 <? round then next_ok fs3 else (true, fs3) in
    let '(s4, rc4, e4) := mt_roundbuf s3 round okR in
    match rc4 with
    | MMem => (s4, MMem, e1 ++ e2 ++ e3 ++ e4)
    | _ =>
      let '(ok1, fs5) := match ldm with
                         | Some (hl, _) => if (mt_ldmH s4 =? 0) || (mt_prevH s4 <? hl) then next_ok fs4 else (true, fs4)
                         | None => (true, fs4) end in
      let '(ok2, _) := match ldm with
                       | Some (_, bl) => if (mt_ldmB s4 =? 0) || (mt_prevB s4 <? bl) then next_ok fs5 else (true, fs5)
                       | None => (true, fs5) end in
      let '(s5, rc5, e5) := mt_ldm z s4 ldm ok1 ok2 in
      (s5, rc5, e1 ++ e2 ++ e3 ++ e4 ++ e5)
    end
  end.

Definition upd_buf (s : mtown) (b : option pool) (infl : list N) : mtown :=
  mkMT (mt_nbw s) (mt_threads s) (mt_jobs s) b (mt_cctx s) (mt_seq s) infl (mt_round s) (mt_ldmH s) (mt_ldmB s) (mt_prevH s) (mt_prevB s) (mt_cdict s).

(* ZSTDMT_getBuffer: the last stored buffer is taken; kept when large enough but not more than 8x too large, released and
   replaced otherwise.  Returns the pool, the buffer obtained (None: allocation failed) and the events *)
Definition get_buffer (p : pool) (cap : N) (ok : bool) : pool * option N * list ev :=
  match p_items p with
  | c :: rest =>
      let p' := mkPool (p_total p) rest in
      if (cap <=? c) && (c / 8 <=? cap) then (p', Some c, [])
      else if ok then (p', Some cap, [Free c; Alloc cap]) else (p', None, [Free c])
  | [] => if ok then (p, Some cap, [Alloc cap]) else (p, None, [])
  end.

Fixpoint remove_nth (i : nat) (l : list N) : option (N * list N) :=
  match l, i with
  | [], _ => None
  | x :: r, O => Some (x, r)
  | x :: r, S k => match remove_nth k r with Some (y, r') => Some (y, x :: r') | None => None end
  end.

Definition mt_step (z : mtsz) (s : mtown) (o : mop) : mtown * mrc * list ev :=
  match o with
  | MStart n fs =>
      if n =? 0 then (s, MSkip, []) else
      let '(s1, e1) := mt_release_all s in
      if n =? mt_nbw s1 then (s1, MOk, e1)
      else let '(s2, ok, e2, _) := mt_resize z s1 n fs in (s2, if ok then MOk else MMem, e1 ++ e2)
  | MDict d ok => mt_dict s d ok
  | MRound cap ok => mt_roundbuf s cap ok
  | MLdm logs ok1 ok2 => mt_ldm z s logs ok1 ok2
  | MInit n fs d r l => mt_init z s n fs d r l
  | MGetBuf cap ok =>
      match mt_buf s, mt_jobs s with
      | Some p, Some j =>
          if N.of_nat (length (mt_inflight s)) <? j then      (* a job slot is free (ZSTDMT_createCompressionJob: "not enough job slots" otherwise) *)
            let '(p', got, e) := get_buffer p cap ok in
            match got with
            | Some c => (upd_buf s (Some p') (c :: mt_inflight s), MOk, e)
            | None => (upd_buf s (Some p') (mt_inflight s), MMem, e)
            end
          else (s, MSkip, [])
      | _, _ => (s, MSkip, [])
      end
  | MFlush i =>
      match mt_buf s, remove_nth i (mt_inflight s) with
      | Some p, Some (c, rest) => let '(p', e) := release_into p c in (upd_buf s (Some p') rest, MOk, e)
      | _, _ => (s, MSkip, [])
      end
  | MSeqUse bytes ok =>
      match mt_seq s with
      | Some p =>
          let '(p1, got, e1) := get_buffer p bytes ok in
          match got with
          | Some c => let '(p2, e2) := release_into p1 c in
                      (mkMT (mt_nbw s) (mt_threads s) (mt_jobs s) (mt_buf s) (mt_cctx s) (Some p2) (mt_inflight s) (mt_round s) (mt_ldmH s) (mt_ldmB s) (mt_prevH s) (mt_prevB s) (mt_cdict s), MOk, e1 ++ e2)
          | None => (mkMT (mt_nbw s) (mt_threads s) (mt_jobs s) (mt_buf s) (mt_cctx s) (Some p1) (mt_inflight s) (mt_round s) (mt_ldmH s) (mt_ldmB s) (mt_prevH s) (mt_prevB s) (mt_cdict s), MMem, e1)
          end
      | None => (s, MSkip, [])
      end
  | MCtxUse ws ok1 ok2 =>
      match mt_cctx s with
      | Some p =>
          let setc q := mkMT (mt_nbw s) (mt_threads s) (mt_jobs s) (mt_buf s) (Some q) (mt_seq s) (mt_inflight s) (mt_round s) (mt_ldmH s) (mt_ldmB s) (mt_prevH s) (mt_prevB s) (mt_cdict s) in
          (* ZSTDMT_getCCtx: a stored context, or a new one *)
          let '(p1, got, e1) := match p_items p with
                                | c :: rest => (mkPool (p_total p) rest, Some c, [])
                                | [] => if ok1 then (p, Some (z_cctx z), [Alloc (z_cctx z)]) else (p, None, [])
                                end in
          match got with
          | None => (setc p1, MMem, e1)
          | Some c =>
              (* ZSTD_resetCCtx_internal replaces the workspace (released first).  One item = one worker context with its
                 workspace, accounted as ONE block: the events give the net effect on the item (the structure itself stays) *)
              let '(c', e2) := match ws with
                               | Some w => if ok2 then (z_cctx z + w, [Free c; Alloc (z_cctx z + w)])
                                           else (z_cctx z, [Free c; Alloc (z_cctx z)])
                               | None => (c, [])
                               end in
              (* ZSTDMT_releaseCCtx: stored when a slot is free, ZSTD_freeCCtx otherwise *)
              let '(p2, e3) := release_into p1 c' in
              (setc p2, MOk, e1 ++ e2 ++ e3)
          end
      | None => (s, MSkip, [])
      end
  end.

Fixpoint mt_run (z : mtsz) (s : mtown) (ops : list mop) : mtown * list (mrc * list ev) :=
  match ops with
  | [] => (s, [])
  | o :: rest =>
      let '(s1, rc, es) := mt_step z s o in
      let '(s2, outs) := mt_run z s1 rest in
      (s2, (rc, es) :: outs)
  end.

Definition mt_all_events (outs : list (mrc * list ev)) : list ev := flat_map snd outs.

(* ZSTDMT_freeCCtx *)
Definition mt_free_events (z : mtsz) (s : mtown) : list ev :=
  [Free (z_pooljob z); Free (mt_threads s * z_thread z); Free (z_pool z)]
  ++ snd (mt_release_all s)
  ++ (match mt_jobs s with Some j => [Free (j * z_job z)] | None => [] end)
  ++ (match mt_buf (fst (mt_release_all s)) with Some p => free_pool (z_bufpool z) (z_buffer z) p | None => [] end)
  ++ (match mt_cctx s with Some p => free_pool (z_cctxpool z) (z_ptr z) p | None => [] end)
  ++ (match mt_seq s with Some p => free_pool (z_bufpool z) (z_buffer z) p | None => [] end)
  ++ [Free (mt_ldmH s); Free (mt_ldmB s); Free (mt_cdict s); Free (mt_round s); Free (z_mtctx z)].
