(* C06 (round 2) - call histories of the buffer-less frame API under the WEAK block contract (bc_contract_kb:
   a block may cost len + 3 * max(1, len >> 10), what the capped post-splitter guarantees).  Same statements as
   CompressCallsProofs.v (compress_continue_step, continue_calls_succeed, compress_calls_succeed) with
   kb_blocks (KiB partitions still to pay) instead of nb_blocks. *)
From Coq Require Import ZArith List Bool Lia.
From ZV.Mem Require Import CompressBound CompressBoundProofs CompressCalls CompressCallsProofs CompressSplit CompressSplitProofs.
Import ListNotations.
Local Open Scope Z_scope.

Definition call_ok_kb (fuel : nat) (bsMax : Z) (c : call) : Prop :=
  bc_contract_kb (c_bc c) /\ split_contract (c_split c) /\ 0 <= c_len c <= Z.of_nat fuel /\
  (1024 <= bsMax \/ c_len c <= bsMax).

Fixpoint need_kb (calls : list call) : Z :=
  match calls with [] => 0 | c :: t => c_len c + BHS * kb_blocks (c_len c) + need_kb t end.

Lemma need_kb_nonneg : forall fuel bsMax calls, Forall (call_ok_kb fuel bsMax) calls -> 0 <= need_kb calls.
Proof.
  induction calls as [|c t IH]; intros F; cbn [need_kb]; [lia|].
  inversion F as [|? ? [_ [_ [Hl _]]] Ft]; subst. specialize (IH Ft).
  pose proof (kb_blocks_nonneg (c_len c) ltac:(lia)). rewrite BHS_val. lia.
Qed.

Lemma compress_continue_step_kb : forall fuel bsMax hs st c cap last E,
  call_ok_kb fuel bsMax c -> 0 < bsMax <= KB128 -> 0 <= hs <= FHS_MAX -> 2 <= E ->
  cs_stage st <> StEnding ->
  (cs_stage st = StInit -> FHS_MAX <= cap) ->
  hdr_of st hs + c_len c + BHS * kb_blocks (c_len c) + E + Z.max (savings_of st) 0 <= cap ->
  exists w cap' st',
    compress_continue fuel bsMax hs st c cap last = CDone w cap' st' /\
    cap' = cap - w /\ E <= cap' /\ hdr_of st hs <= w /\
    w + Z.max (savings_of st') 0 <= Z.max (savings_of st) 0 + hdr_of st hs + c_len c + BHS * kb_blocks (c_len c) /\
    cs_stage st' <> StInit /\
    (cs_stage st' = StEnding <-> (last = true /\ 0 < c_len c)) /\
    (0 < c_len c -> hdr_of st hs < w).
Proof.
  intros fuel bsMax hs st c cap last E [Hbc [Hsp [Hlen Hbs2]]] Hbs Hhs HE Hne Hinit Hcap.
  unfold compress_continue, hdr_of, savings_of in *.
  assert (Hhdr : exists h, (match cs_stage st with StInit => write_frame_header cap hs | _ => Some 0 end) = Some h /\
                           h = match cs_stage st with StInit => hs | _ => 0 end).
  { destruct (cs_stage st) eqn:S.
    - unfold write_frame_header. specialize (Hinit eq_refl). destruct (Z.ltb_spec cap FHS_MAX); [lia|]. eauto.
    - eauto.
    - eauto. }
  destruct Hhdr as [h [Hh1 Hh2]]. rewrite Hh1.
  pose proof (kb_blocks_nonneg (c_len c) ltac:(lia)) as Hnb0.
  rewrite BHS_val in *.
  destruct (Z.leb_spec (c_len c) 0) as [Hz|Hpos].
  - assert (Hc0 : c_len c = 0) by lia.
    eexists _, _, _. split; [reflexivity|]. cbn [cs_stage cs_consumed cs_produced].
    rewrite Hc0 in *. rewrite kb_blocks_zero in *.
    rewrite <- Hh2. split; [lia|]. split; [lia|]. split; [lia|]. split; [lia|]. split.
    + destruct (cs_stage st); congruence.
    + split; [|lia]. split; [|intros [_ ?]; lia]. intros Hs. exfalso. destruct (cs_stage st); try discriminate. congruence.
  - destruct (frame_chunk_succeeds_kb fuel (c_bc c) (c_split c) O bsMax (c_len c) (cap - h)
                (cs_consumed st - cs_produced st) 0 E Hbc Hsp Hbs Hbs2 ltac:(lia) ltac:(lia) HE)
      as (body & cap2 & Hrun & Hc2 & HE2 & Hb0 & Hbpos & Hexp).
    { rewrite BHS_val. subst h. lia. }
    specialize (Hbpos Hpos). rewrite BHS_val in Hexp.
    rewrite Hrun. eexists _, _, _. split; [reflexivity|]. cbn [cs_stage cs_consumed cs_produced].
    assert (Hb : (0 <? body) = true) by (apply Z.ltb_lt; lia). rewrite Hb, andb_true_r.
    rewrite <- Hh2.
    assert (0 <= h) by (subst h; destruct (cs_stage st); lia).
    split; [lia|]. split; [lia|]. split; [lia|]. split; [lia|]. split.
    + destruct last; [discriminate|]. destruct (cs_stage st); congruence.
    + split; [|lia]. split.
      * destruct last; [intros _; split; [reflexivity|lia]|]. intros Hs. exfalso. destruct (cs_stage st); try discriminate. congruence.
      * intros [-> _]. reflexivity.
Qed.

Lemma compress_calls_succeed_kb : forall fuel bsMax hs chk calls st cap written,
  calls <> [] ->
  Forall (call_ok_kb fuel bsMax) calls -> 0 < bsMax <= KB128 -> 0 <= hs <= FHS_MAX ->
  cs_stage st <> StEnding ->
  (cs_stage st = StInit -> FHS_MAX <= cap) ->
  hdr_of st hs + need_kb calls + epilogue_room calls chk + Z.max (savings_of st) 0 <= cap ->
  exists W cap' st',
    compress_calls fuel bsMax hs chk st calls cap written = CDone W cap' st' /\
    cap' = cap - (W - written) /\ 0 <= cap' /\ written < W /\
    W <= written + Z.max (savings_of st) 0 + hdr_of st hs + need_kb calls + epilogue_cost calls chk.
Proof.
  induction calls as [|c t IH]; intros st cap written Hnil F Hbs Hhs Hne Hinit Hcap; [congruence|].
  inversion F as [|? ? Hc Ft]; subst.
  assert (Hh0 : 0 <= hdr_of st hs) by (unfold hdr_of; destruct (cs_stage st); lia).
  destruct t as [|c2 t2].
  - clear IH. cbn [compress_calls need_kb] in *. unfold compress_end.
    unfold epilogue_room, epilogue_cost, last_len in *. cbn [last] in *.
    rewrite BHS_val, CHECKSUM_SIZE_val in *.
    destruct (compress_continue_step_kb fuel bsMax hs st c cap true
                (if c_len c <=? 0 then 3 + (if chk then 4 else 0) else (if chk then 4 else 2))
                Hc Hbs Hhs ltac:(destruct (c_len c <=? 0), chk; lia) Hne Hinit ltac:(rewrite BHS_val; lia))
      as (w & cap1 & st1 & Hrun & Hc1 & HE1 & Hw0 & Hpot & Hni & Hend & Hwpos).
    rewrite Hrun. unfold write_epilogue. rewrite BHS_val, CHECKSUM_SIZE_val.
    rewrite BHS_val in Hpot.
    destruct (Z.leb_spec (c_len c) 0) as [Hz|Hpos].
    + assert (Hst : match cs_stage st1 with StEnding => true | _ => false end = false).
      { destruct (cs_stage st1) eqn:S; try reflexivity. destruct Hend as [Hd _]. specialize (Hd eq_refl). lia. }
      rewrite Hst. destruct (Z.ltb_spec cap1 3); [destruct chk; lia|].
      destruct chk.
      * destruct (Z.ltb_spec (cap1 - 3) 4); [lia|]. eexists _, _, _. split; [reflexivity|]. lia.
      * eexists _, _, _. split; [reflexivity|]. lia.
    + assert (Hst : match cs_stage st1 with StEnding => true | _ => false end = true).
      { assert (S : cs_stage st1 = StEnding) by (apply Hend; split; [reflexivity|lia]). rewrite S. reflexivity. }
      rewrite Hst.
      specialize (Hwpos Hpos).
      destruct chk.
      * destruct (Z.ltb_spec cap1 4); [lia|]. eexists _, _, _. split; [reflexivity|]. lia.
      * eexists _, _, _. split; [reflexivity|]. lia.
  - rewrite compress_calls_cons2.
    assert (Hroom : 2 <= epilogue_room (c :: c2 :: t2) chk).
    { unfold epilogue_room. rewrite BHS_val, CHECKSUM_SIZE_val. destruct (_ <=? 0), chk; lia. }
    assert (Hll : last_len (c :: c2 :: t2) = last_len (c2 :: t2)) by reflexivity.
    assert (Hr2 : epilogue_room (c :: c2 :: t2) chk = epilogue_room (c2 :: t2) chk) by (unfold epilogue_room; rewrite Hll; reflexivity).
    assert (Hc2 : epilogue_cost (c :: c2 :: t2) chk = epilogue_cost (c2 :: t2) chk) by (unfold epilogue_cost; rewrite Hll; reflexivity).
    rewrite Hr2 in *. rewrite Hc2.
    pose proof (need_kb_nonneg fuel bsMax (c2 :: t2) Ft) as Hn0.
    change (need_kb (c :: c2 :: t2)) with (c_len c + BHS * kb_blocks (c_len c) + need_kb (c2 :: t2)) in *.
    destruct (compress_continue_step_kb fuel bsMax hs st c cap false (need_kb (c2 :: t2) + epilogue_room (c2 :: t2) chk)
                Hc Hbs Hhs ltac:(lia) Hne Hinit ltac:(lia))
      as (w & cap1 & st1 & Hrun & Hc1 & HE1 & Hw0 & Hpot & Hni & Hend & Hwpos).
    rewrite Hrun.
    assert (Hne1 : cs_stage st1 <> StEnding) by (intros Hx; apply Hend in Hx; destruct Hx; discriminate).
    assert (Hh1 : hdr_of st1 hs = 0) by (unfold hdr_of; destruct (cs_stage st1); congruence).
    destruct (IH st1 cap1 (written + w) ltac:(discriminate) Ft Hbs Hhs Hne1 ltac:(intros; congruence))
      as (W & cap' & st' & Hrun2 & Hcc & Hcp & Hw2 & Hbound).
    { rewrite Hh1. lia. }
    rewrite Hrun2. eexists _, _, _. split; [reflexivity|]. rewrite Hh1 in Hbound. repeat split; lia.
Qed.

(* the hypotheses are satisfiable: two raw calls *)
Example calls_kb_satisfiable : Forall (call_ok_kb (Z.to_nat 200000) 131072) [raw_call 100000; raw_call 5].
Proof.
  assert (H : forall len, 0 <= len <= 200000 -> call_ok_kb (Z.to_nat 200000) 131072 (raw_call len)).
  { intros len Hl. unfold call_ok_kb, raw_call. cbn [c_bc c_split c_len]. split.
    - apply bc_contract_is_kb. exact bc_raw_contract.
    - split; [intros i; unfold split_const; rewrite KB128_val; lia|].
      split; [rewrite Z2Nat.id by lia; lia|lia]. }
  constructor; [apply H; lia|]. constructor; [apply H; lia|constructor].
Qed.
