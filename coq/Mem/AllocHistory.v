(* C13 - histories: generic lemmas lifting a closed set of abstract states (checked by [closedS]) to EVERY list of
   API operations performed by a well-behaved caller (AllocClient.v), for every oracle. *)
From Coq Require Import NArith List Bool Arith Lia.
From ZV.Mem Require Import AllocDsl AllocInstances AllocProofs.
From ZV.Mem Require Import AllocSet AllocSetProofs AllocClient.
Import ListNotations.

(* an API call never "returns" out of the caller's sequence *)
Lemma api_noret : forall zs o op s, snd (run o (api zs op) s) = false.
Proof.
  intros zs o op s. unfold api. cbn [run].
  destruct (run o (op_prog zs op) _) as [s1 r]. reflexivity.
Qed.

Lemma ifnull_noret : forall o l p q s, snd (run o p s) = false -> snd (run o q s) = false -> snd (run o (IfNull l p q) s) = false.
Proof. intros o l p q s Hp Hq. cbn [run]. destruct (sget s l); assumption. Qed.
Lemma seq_setnull_noret : forall o p l s, snd (run o p s) = false -> snd (run o (Seq p (SetNull l)) s) = false.
Proof. intros o p l s Hp. cbn [run]. destruct (run o p s) as [s1 r]. cbn in Hp. subst r. reflexivity. Qed.
Lemma skip_noret : forall o s, snd (run o Skip s) = false.
Proof. reflexivity. Qed.

Lemma client_noret : forall zs o op s, snd (run o (client zs op) s) = false.
Proof.
  intros zs o op s.
  destruct op; unfold client;
    first [ apply ifnull_noret; first [apply api_noret | apply skip_noret]
          | apply seq_setnull_noret; apply api_noret ].
Qed.

Lemma run_seq_noret : forall o p q s, snd (run o p s) = false -> run o (Seq p q) s = run o q (fst (run o p s)).
Proof. intros o p q s H. cbn [run]. destruct (run o p s) as [s1 r]. cbn in *. subst r. reflexivity. Qed.

Lemma session_noret : forall zs o ops s, snd (run o (session zs ops) s) = false.
Proof.
  intros zs o. induction ops as [|op r IH]; intros s; [reflexivity|].
  cbn [session]. rewrite run_seq_noret by apply client_noret. rewrite run_seq_noret by reflexivity. apply IH.
Qed.

(* the invariant of a history: the concrete state stays inside the closed set *)
Lemma history_inv : forall zs fuel (okop : op -> bool) St P,
  (forall op, okop op = true -> closedSF fuel St P (client zs op) = true) ->
  forall ops, forallb okop ops = true -> forall o a s, In a St -> G a s ->
  exists a', In a' St /\ G a' (fst (run o (session zs ops) s)).
Proof.
  intros zs fuel okop St P Hc. induction ops as [|op r IH]; intros Hok o a s Ha HG.
  - exists a. split; assumption.
  - cbn in Hok. apply andb_true_iff in Hok. destruct Hok as [H1 H2].
    cbn [session]. rewrite run_seq_noret by apply client_noret. rewrite run_seq_noret by reflexivity.
    destruct (closedSF_sound fuel St P _ (Hc op H1) a s o Ha HG) as [a1 [_ [_ [a2 [A B]]]]].
    apply (IH H2 o a2 _ A B).
Qed.

(* ... and the state right after the last call of a non-empty history satisfies P *)
Lemma history_last : forall zs fuel (okop : op -> bool) St P,
  (forall op, okop op = true -> closedSF fuel St P (client zs op) = true) ->
  forall ops op, forallb okop ops = true -> okop op = true -> forall o a s, In a St -> G a s ->
  exists a', P a' = true /\ G a' (fst (run o (session zs ops ;; client zs op) s)).
Proof.
  intros zs fuel okop St P Hc ops op Hok Hop o a s Ha HG.
  rewrite run_seq_noret by apply session_noret.
  destruct (history_inv zs fuel okop St P Hc ops Hok o a s Ha HG) as [a1 [A B]].
  destruct (closedSF_sound fuel St P _ (Hc op Hop) a1 _ o A B) as [a2 [C [D _]]].
  exists a2. split; assumption.
Qed.

(* a program run from every member of a set: the set-level check implies the property of the final state *)
Lemma from_set_sound : forall fuel St P p, all_res P (aexecS fuel true p St) = true ->
  forall a s o, In a St -> G a s -> exists a', P a' = true /\ G a' (fst (run o p s)).
Proof.
  intros fuel St P p H a s o Ha HG.
  destruct (aexecS fuel true p St) as [[N R]|] eqn:E; [|discriminate].
  destruct (all_res_spec _ _ N R H eq_refl) as [HN HR].
  destruct (aexecS_sound fuel true o (no_canfail o) p St N R a s E Ha HG) as [a1 [A B]].
  exists a1. split; [|exact A]. destruct (snd (run o p s)); auto.
Qed.
Lemma from_set_sound_nofail : forall fuel St P p, all_res P (aexecS fuel false p St) = true ->
  forall a s o, (forall k, fails o k = false) -> In a St -> G a s -> exists a', P a' = true /\ G a' (fst (run o p s)).
Proof.
  intros fuel St P p H a s o Hnf Ha HG.
  destruct (aexecS fuel false p St) as [[N R]|] eqn:E; [|discriminate].
  destruct (all_res_spec _ _ N R H eq_refl) as [HN HR].
  destruct (aexecS_sound fuel false o (fun _ => Hnf) p St N R a s E Ha HG) as [a1 [A B]].
  exists a1. split; [|exact A]. destruct (snd (run o p s)); auto.
Qed.

(* history followed by the caller's teardown: nothing is left allocated, no ownership error ever happened *)
Lemma history_then_teardown : forall zs fuel (okop : op -> bool) St P td,
  In ainit St ->
  (forall op, okop op = true -> closedSF fuel St P (client zs op) = true) ->
  all_res aclean (aexecS fuel true td St) = true ->
  forall ops, forallb okop ops = true -> forall o,
  let s := fst (run o (Seq (session zs ops) td) init_state) in live s = [] /\ errs s = [].
Proof.
  intros zs fuel okop St P td Hi Hc Ht ops Hok o. cbn zeta.
  rewrite run_seq_noret by apply session_noret.
  destruct (history_inv zs fuel okop St P Hc ops Hok o ainit init_state Hi G_init) as [a1 [A B]].
  destruct (from_set_sound fuel St aclean td Ht a1 _ o A B) as [a2 [C D]].
  split; [exact (G_clean_live _ _ D C)|exact (g_errs _ _ D)].
Qed.

(* the error register after every step of a history: error <-> an allocation of that call failed *)
Lemma status_of_G : forall a s, G a s -> aerr_iff_fail a = true -> (status s = false <-> 0 < nfail s).
Proof.
  intros a s A B. unfold aerr_iff_fail in B. apply eqb_prop in B. rewrite <- (g_status _ _ A). rewrite B, (g_failed _ _ A).
  destruct (0 <? nfail s) eqn:E; cbn.
  - apply Nat.ltb_lt in E. tauto.
  - apply Nat.ltb_ge in E. split; [discriminate|lia].
Qed.

(* a handle the concrete state holds is not NULL in the abstraction *)
Lemma alive_not_null : forall a s l, G a s -> sget s l <> None -> aget a l <> ANull.
Proof. intros a s l HG H E. apply H. exact (slot_null a s l HG E). Qed.

(* after any history, from a state in which handle l is alive, [again] with memory available ends in P *)
Lemma history_then_recover : forall zs fuel (okop : op -> bool) St P Q l again,
  In ainit St ->
  (forall op, okop op = true -> closedSF fuel St P (client zs op) = true) ->
  forallb (fun a => match aget a l with ADang => false | _ => true end) St = true ->
  all_res Q (aexecS fuel false again (filter (fun a => match aget a l with AOwn => true | _ => false end) St)) = true ->
  forall ops, forallb okop ops = true -> forall o1 o2, (forall k, fails o2 k = false) ->
  let s1 := fst (run o1 (session zs ops) init_state) in
  sget s1 l <> None ->
  exists a', Q a' = true /\ G a' (fst (run o2 again s1)).
Proof.
  intros zs fuel okop St P Q l again Hi Hc Hd Hr ops Hok o1 o2 Hnf. cbn zeta. intros Hl.
  destruct (history_inv zs fuel okop St P Hc ops Hok o1 ainit init_state Hi G_init) as [a1 [A B]].
  pose proof (alive_not_null a1 _ l B Hl) as Hn.
  rewrite forallb_forall in Hd. specialize (Hd a1 A).
  assert (Ho : aget a1 l = AOwn) by (destruct (aget a1 l); [contradiction|reflexivity|discriminate]).
  apply (from_set_sound_nofail fuel _ Q again Hr a1 _ o2 Hnf); [|exact B].
  apply filter_In. split; [exact A|rewrite Ho; reflexivity].
Qed.
