(* C13 - instance theorems, compression side: ZSTD_CCtx with its local dictionary, workspace and the multithreaded
   context it owns (ZSTDMT_CCtx: factory, jobs table, buffer / cctx / sequence pools, LDM tables, round buffer, local
   CDict), under EVERY history of {create, loadDictionary (copy / reference), refCDict, single-threaded compression,
   multithreaded compression (any worker count, any number of jobs and flushes, any resize), reset, free}. *)
From Coq Require Import NArith List Bool Arith Lia.
From ZV.Mem Require Import AllocDsl AllocInstances AllocProofs.
From ZV.Mem Require Import AllocSet AllocSetProofs AllocClient AllocHistory AllocTheorems.
Import ListNotations.
Local Open Scope N_scope.

Definition St_cctx : list astate := Eval vm_compute in unopt (reachSL F (map (client zs0) cctx_reps) ainit).

Lemma succ_nz : forall w, (N.succ w =? 0) = false.
Proof. intros w. apply N.eqb_neq. lia. Qed.

Lemma cctx_closed : forall zs, sizes_ok zs -> forall op, cctx_op op = true -> closedSF F St_cctx aerr_iff_fail (client zs op) = true.
Proof.
  intros zs Hz op H. destruct op; try discriminate H.
  - run_analysis.
  - run_analysis.
  - unfold client, api, op_prog, load_dict. split_tests; run_analysis.
  - run_analysis.
  - pose proof (clampw_nz zs (N.succ w) Hz (succ_nz w)) as Hc.
    unfold client, api, op_prog, compress_mt_any, mtctx_create, pool_create. rewrite (succ_nz w), Hc. run_analysis.
  - run_analysis.
  - run_analysis.
Qed.
Lemma cctx_teardown : forall zs, all_res aclean (aexecS F true (teardown_cctx zs) St_cctx) = true.
Proof. intros zs. run_analysis. Qed.
Lemma cctx_init : In ainit St_cctx.
Proof. left. reflexivity. Qed.

Theorem cctx_any_history_no_leak : forall zs, sizes_ok zs -> forall ops, forallb cctx_op ops = true -> forall o,
  let s := fst (run o (session zs ops ;; teardown_cctx zs) init_state) in live s = [] /\ errs s = [].
Proof. intros zs Hz ops H o. exact (history_then_teardown zs F cctx_op St_cctx _ _ cctx_init (cctx_closed zs Hz) (cctx_teardown zs) ops H o). Qed.

Theorem cctx_any_history_error_iff_failure : forall zs, sizes_ok zs -> forall ops op, forallb cctx_op ops = true -> cctx_op op = true -> forall o,
  let s := fst (run o (session zs ops ;; client zs op) init_state) in status s = false <-> (0 < nfail s)%nat.
Proof.
  intros zs Hz ops op H1 H2 o. cbn zeta.
  destruct (history_last zs F cctx_op St_cctx _ (cctx_closed zs Hz) ops op H1 H2 o ainit init_state cctx_init G_init) as [a [A B]].
  exact (status_of_G _ _ B A).
Qed.

(* reusability: after ANY history with ANY failures (failed context creation excepted: then there is no context),
   ZSTD_CCtx_reset(session) followed by the compression - single-threaded or multithreaded with any worker count, any
   number of jobs / flushes, a pending resize included - succeeds as soon as memory is available *)
Lemma cctx_not_dang : forallb (fun a => match aget a K_cctx with ADang => false | _ => true end) St_cctx = true.
Proof. run_analysis. Qed.
Lemma cctx_recover_mt : forall zs, sizes_ok zs -> forall w cap dsz rsz hsz bsz cdsz wsz jbsz,
  all_res astatus_ok (aexecS F false (client zs OReset ;; Forget ;; client zs (OCompressMT w cap dsz rsz hsz bsz cdsz wsz jbsz))
   (filter (fun a => match aget a K_cctx with AOwn => true | _ => false end) St_cctx)) = true.
Proof.
  intros zs Hz w cap dsz rsz hsz bsz cdsz wsz jbsz.
  pose proof (clampw_nz zs (N.succ w) Hz (succ_nz w)) as Hc.
  unfold client, api, op_prog, compress_mt_any, mtctx_create, pool_create. rewrite (succ_nz w), Hc. run_analysis.
Qed.
Lemma cctx_recover_st : forall zs wsz cdsz,
  all_res astatus_ok (aexecS F false (client zs OReset ;; Forget ;; client zs (OCompressAny wsz cdsz))
   (filter (fun a => match aget a K_cctx with AOwn => true | _ => false end) St_cctx)) = true.
Proof. intros zs wsz cdsz. run_analysis. Qed.

Theorem cctx_reusable_mt_after_any_history : forall zs, sizes_ok zs -> forall ops, forallb cctx_op ops = true ->
  forall o1 o2, (forall k, fails o2 k = false) -> forall w cap dsz rsz hsz bsz cdsz wsz jbsz,
  let s1 := fst (run o1 (session zs ops) init_state) in
  sget s1 K_cctx <> None ->
  let s2 := fst (run o2 (client zs OReset ;; Forget ;; client zs (OCompressMT w cap dsz rsz hsz bsz cdsz wsz jbsz)) s1) in
  status s2 = true /\ errs s2 = [].
Proof.
  intros zs Hz ops H o1 o2 Hnf w cap dsz rsz hsz bsz cdsz wsz jbsz. cbn zeta. intros Hl.
  destruct (history_then_recover zs F cctx_op St_cctx _ astatus_ok K_cctx _ cctx_init (cctx_closed zs Hz) cctx_not_dang
              (cctx_recover_mt zs Hz w cap dsz rsz hsz bsz cdsz wsz jbsz) ops H o1 o2 Hnf Hl) as [a [A B]].
  split; [rewrite <- (g_status _ _ B); exact A|exact (g_errs _ _ B)].
Qed.

Theorem cctx_reusable_st_after_any_history : forall zs, sizes_ok zs -> forall ops, forallb cctx_op ops = true ->
  forall o1 o2, (forall k, fails o2 k = false) -> forall wsz cdsz,
  let s1 := fst (run o1 (session zs ops) init_state) in
  sget s1 K_cctx <> None ->
  let s2 := fst (run o2 (client zs OReset ;; Forget ;; client zs (OCompressAny wsz cdsz)) s1) in
  status s2 = true /\ errs s2 = [].
Proof.
  intros zs Hz ops H o1 o2 Hnf wsz cdsz. cbn zeta. intros Hl.
  destruct (history_then_recover zs F cctx_op St_cctx _ astatus_ok K_cctx _ cctx_init (cctx_closed zs Hz) cctx_not_dang
              (cctx_recover_st zs wsz cdsz) ops H o1 o2 Hnf Hl) as [a [A B]].
  split; [rewrite <- (g_status _ _ B); exact A|exact (g_errs _ _ B)].
Qed.
