(* C13 - instance theorems, compression side: ZSTD_CCtx with its local dictionary, workspace and the multithreaded
   context it owns (ZSTDMT_CCtx: factory, jobs table, buffer / cctx / sequence pools, LDM tables, round buffer, local
   CDict), under EVERY history of {create, loadDictionary (copy / reference), refCDict,
   multithreaded compression (any worker count, any number of jobs and flushes, any resize), reset, free}.
   The vm_compute work is in AllocTheoremsC0..C3 (independent files, built in parallel). *)
From Coq Require Import NArith List Bool Arith Lia.
From ZV.Mem Require Import AllocDsl AllocInstances AllocProofs AllocSet AllocSetProofs AllocClient AllocHistory AllocTheorems AllocTheoremsC0 AllocTheoremsC1 AllocTheoremsC2 AllocTheoremsC3.
Import ListNotations.
Local Open Scope N_scope.

Lemma cctx_closed : forall zs, sizes_ok zs -> forall op, cctx_op op = true -> closedSF F St_cctx aerr_iff_fail (client zs op) = true.
Proof.
  intros zs Hz op H. destruct op; try discriminate H.
  - apply cctx_closed_create.
  - apply cctx_closed_free.
  - apply cctx_closed_load.
  - apply cctx_closed_mt. exact Hz.
  - apply cctx_closed_ref.
  - apply cctx_closed_reset.
Qed.

Theorem cctx_any_history_no_leak : forall zs, sizes_ok zs -> forall ops, forallb cctx_op ops = true -> forall o,
  let s := fst (run o (session zs ops ;; teardown_cctx zs) init_state) in live s = [] /\ errs s = [].
Proof. intros zs Hz ops H o. exact (history_then_teardown zs F cctx_op St_cctx _ _ cctx_init (cctx_closed zs Hz) (cctx_teardown zs) ops H o). Qed.

Theorem cctx_any_history_error_iff_failure : forall zs, sizes_ok zs -> forall ops op, forallb cctx_op ops = true -> cctx_op op = true -> forall o,
  let s := fst (run o (session zs ops ;; client zs op) init_state) in status s = false <-> (0 < nfail s)%nat.
Proof.
  intros zs Hz ops op H1 H2 o. cbn zeta.
  destruct (history_last zs F cctx_op St_cctx _ (cctx_closed zs Hz) ops op H1 H2 o ainit init_state cctx_init G_init) as [a [A B]].
  exact (status_of_G _ _ B A).
Qed.

(* reusability: after ANY history with ANY failures (failed context creation excepted: then there is no context),
   ZSTD_CCtx_reset(session) followed by the compression - multithreaded with any worker count, any
   number of jobs / flushes, a pending resize included - succeeds as soon as memory is available *)
Theorem cctx_reusable_mt_after_any_history : forall zs, sizes_ok zs -> forall ops, forallb cctx_op ops = true ->
  forall o1 o2, (forall k, fails o2 k = false) -> forall w cap dsz rsz hsz bsz cdsz wsz jbsz,
  let s1 := fst (run o1 (session zs ops) init_state) in
  sget s1 K_cctx <> None ->
  let s2 := fst (run o2 (client zs OReset ;; Forget ;; client zs (OCompressMT w cap dsz rsz hsz bsz cdsz wsz jbsz)) s1) in
  status s2 = true /\ errs s2 = [].
Proof.
  intros zs Hz ops H o1 o2 Hnf w cap dsz rsz hsz bsz cdsz wsz jbsz. cbn zeta. intros Hl.
  destruct (history_then_recover zs F cctx_op St_cctx _ astatus_ok K_cctx _ cctx_init (cctx_closed zs Hz) cctx_not_dang
              (cctx_recover_mt zs Hz w cap dsz rsz hsz bsz cdsz wsz jbsz) ops H o1 o2 Hnf Hl) as [a [A B]].
  split; [rewrite <- (g_status _ _ B); exact A|exact (g_errs _ _ B)].
Qed.

