(* C13 - soundness of the ownership analysis [aexec] of AllocDsl.v with respect to the concrete
   semantics [run], for EVERY oracle (any number of allocation failures, any outcome of the
   data-dependent tests, any number of repetitions of every Star). *)
From Coq Require Import NArith List Bool Arith Lia.
From ZV.Mem Require Import AllocDsl.
Import ListNotations.

(* ------------------------------------------------------------------ stores *)
Lemma get_set : forall A (d : A) k k' v m, get d k (set k' v m) = if N.eqb k k' then v else get d k m.
Proof.
  intros A d k k' v m. induction m as [|[k0 v0] m IH]; cbn.
  - destruct (N.eqb k k'); reflexivity.
  - destruct (N.compare_spec k' k0) as [E|E|E]; cbn.
    + subst k0. destruct (N.eqb k k'); reflexivity.
    + destruct (N.eqb_spec k k'); [reflexivity|]. reflexivity.
    + rewrite IH. destruct (N.eqb_spec k k0), (N.eqb_spec k k'); subst; try reflexivity. lia.
Qed.

Lemma forallb_get : forall A (P : A -> bool) d (m : store A),
  P d = true -> forallb (fun kv => P (snd kv)) m = true -> forall k, P (get d k m) = true.
Proof.
  intros A P d m Hd. induction m as [|[k0 v0] m IH]; cbn; intros H k; [exact Hd|].
  apply andb_true_iff in H. destruct H as [H1 H2]. destruct (N.eqb k k0); auto.
Qed.

(* ------------------------------------------------------------------ misc list facts *)
Lemma mem_nat_In : forall i l, mem_nat i l = true <-> In i l.
Proof.
  intros i l. unfold mem_nat. rewrite existsb_exists. split.
  - intros [x [H1 H2]]. apply Nat.eqb_eq in H2. subst. exact H1.
  - intros H. exists i. split; [exact H|apply Nat.eqb_refl].
Qed.
Lemma mem_nat_false : forall i l, mem_nat i l = false <-> ~ In i l.
Proof. intros i l. rewrite <- mem_nat_In. destruct (mem_nat i l); split; congruence. Qed.
Lemma In_remove_nat : forall i j l, In j (remove_nat i l) <-> In j l /\ j <> i.
Proof.
  intros i j l. unfold remove_nat. rewrite filter_In. split; intros [H1 H2]; split; auto.
  - intro E. subst. rewrite Nat.eqb_refl in H2. discriminate.
  - apply negb_true_iff. apply Nat.eqb_neq. congruence.
Qed.

(* ------------------------------------------------------------------ the concretisation relation *)
Definition slot_rel (v : aval) (o : option nat) (L : list nat) : Prop :=
  match v with
  | ANull => o = None
  | AOwn => exists i, o = Some i /\ In i L
  | ADang => exists i, o = Some i /\ ~ In i L
  end.
Definition fam_rel (v : fval) (st : list nat) (L : list nat) : Prop :=
  match v with
  | FEmpty => st = []
  | FOwn => (forall i, In i st -> In i L) /\ NoDup st
  | FDang => forall i, In i st -> ~ In i L
  end.

Record G (a : astate) (s : state) : Prop := mkG {
  g_flags : forall f, aflget a f = flget s f;
  g_status : astatus a = status s;
  g_failed : afailed a = (0 <? nfail s);
  g_errs : errs s = [];
  g_slot : forall l, slot_rel (aget a l) (sget s l) (live s);
  g_fam : forall f, fam_rel (afget a f) (fget s f) (live s);
  g_inj : forall l1 l2 i, aget a l1 = AOwn -> aget a l2 = AOwn -> sget s l1 = Some i -> sget s l2 = Some i -> l1 = l2;
  g_sf : forall l f i, aget a l = AOwn -> afget a f = FOwn -> sget s l = Some i -> ~ In i (fget s f);
  g_ff : forall f1 f2 i, afget a f1 = FOwn -> afget a f2 = FOwn -> In i (fget s f1) -> In i (fget s f2) -> f1 = f2;
  g_cover : forall i, In i (live s) ->
      (exists l, aget a l = AOwn /\ sget s l = Some i) \/ (exists f, afget a f = FOwn /\ In i (fget s f));
  g_blive : forall i, In i (live s) -> i <= next s;
  g_bslot : forall l i, sget s l = Some i -> i <= next s;
  g_bfam : forall f i, In i (fget s f) -> i <= next s
}.

Lemma G_init : G ainit init_state.
Proof.
  constructor; cbn; intros; try reflexivity; try contradiction; try discriminate.
Qed.

(* abstract accessors after abstract updates *)
Lemma aget_aset : forall a l v l', aget (aset a l v) l' = if N.eqb l' l then v else aget a l'.
Proof. intros. unfold aget, aset. cbn. apply get_set. Qed.
Lemma afget_aset : forall a l v f, afget (aset a l v) f = afget a f.
Proof. reflexivity. Qed.
Lemma aget_afset : forall a f v l, aget (afset a f v) l = aget a l.
Proof. reflexivity. Qed.
Lemma afget_afset : forall a f v f', afget (afset a f v) f' = if N.eqb f' f then v else afget a f'.
Proof. intros. unfold afget, afset. cbn. apply get_set. Qed.

Ltac eqcases :=
  repeat match goal with
  | |- context [N.eqb ?x ?y] => destruct (N.eqb_spec x y); subst
  | H : context [N.eqb ?x ?y] |- _ => destruct (N.eqb_spec x y); subst
  end.

Ltac simp_acc :=
  unfold sget, fget, flget, aflget in *; cbn [slots fams flags live next nchoice nstar nfail status errs trace
    upd_slots upd_fams upd_flags upd_live upd_next upd_nchoice upd_nstar upd_nfail upd_status add_err add_ev
    aslots afams aflags astatus afailed aset afset aflset astset afailset] in *.

(* ------------------------------------------------------------------ G is insensitive to bookkeeping fields *)
Lemma G_add_ev : forall a s e, G a s -> G a (add_ev s e).
Proof. intros a s e [H1 H2 H3 H4 H5 H6 H7 H8 H9 H10 H11 H12 H13]. constructor; assumption. Qed.
Lemma G_upd_nchoice : forall a s n, G a s -> G a (upd_nchoice s n).
Proof. intros a s e [H1 H2 H3 H4 H5 H6 H7 H8 H9 H10 H11 H12 H13]. constructor; assumption. Qed.
Lemma G_upd_nstar : forall a s n, G a s -> G a (upd_nstar s n).
Proof. intros a s e [H1 H2 H3 H4 H5 H6 H7 H8 H9 H10 H11 H12 H13]. constructor; assumption. Qed.
Lemma G_status : forall a s b, G a s -> G (astset a b) (upd_status s b).
Proof. intros a s e [H1 H2 H3 H4 H5 H6 H7 H8 H9 H10 H11 H12 H13]. constructor; try assumption. reflexivity. Qed.
Lemma G_flag : forall a s f b, G a s -> G (aflset a f b) (upd_flags s (set f b (flags s))).
Proof.
  intros a s f b [H1 H2 H3 H4 H5 H6 H7 H8 H9 H10 H11 H12 H13]. constructor; try assumption.
  intros f'. specialize (H1 f'). unfold aflget, flget, aflset in *. cbn. rewrite !get_set. rewrite H1. reflexivity.
Qed.

(* ------------------------------------------------------------------ primitives *)

Lemma G_alloc_ok : forall a s l, G a s -> aget a l <> AOwn ->
  G (aset a l AOwn)
    (upd_live (upd_slots (upd_next s (S (next s))) (set l (Some (S (next s))) (slots s))) (S (next s) :: live s)).
Proof.
  intros a s l [H1 H2 H3 H4 H5 H6 H7 H8 H9 H10 H11 H12 H13] Hl.
  constructor; simp_acc; try assumption.
  - (* slot *) intros l0. rewrite aget_aset, get_set. eqcases.
    + exists (S (next s)). split; [reflexivity|left; reflexivity].
    + specialize (H5 l0). unfold slot_rel in *. destruct (aget a l0).
      * exact H5.
      * destruct H5 as [i [Ha Hb]]. exists i. split; [exact Ha|right; exact Hb].
      * destruct H5 as [i [Ha Hb]]. exists i. split; [exact Ha|]. intros [E|E]; [|auto].
        apply H12 in Ha. lia.
  - (* fam *) intros f. rewrite afget_aset. specialize (H6 f). unfold fam_rel in *. destruct (afget a f).
    + exact H6.
    + destruct H6 as [Ha Hb]. split; [|exact Hb]. intros i Hi. right. auto.
    + intros i Hi [E|E]; [|exact (H6 i Hi E)]. apply H13 in Hi. lia.
  - (* inj *) intros l1 l2 i. rewrite !aget_aset, !get_set. eqcases; intros A1 A2 E1 E2; try reflexivity.
    + inversion E1; subst. apply H12 in E2. lia.
    + inversion E2; subst. apply H12 in E1. lia.
    + eapply H7; eauto.
  - (* sf *) intros l0 f i. rewrite aget_aset, afget_aset, get_set. eqcases; intros A1 A2 E1.
    + inversion E1; subst. intro Hi. apply H13 in Hi. lia.
    + eapply H8; eauto.
  - (* cover *) intros i [E|Hi].
    + subst i. left. exists l. rewrite aget_aset, get_set, N.eqb_refl. auto.
    + destruct (H10 i Hi) as [[l0 [Ha Hb]]|[f [Ha Hb]]].
      * left. exists l0. rewrite aget_aset, get_set. destruct (N.eqb_spec l0 l); [subst; contradiction|auto].
      * right. exists f. auto.
  - intros i [E|Hi]; [lia|]. apply H11 in Hi. lia.
  - intros l0 i. rewrite get_set. eqcases; intros E.
    + inversion E. lia.
    + apply H12 in E. lia.
  - intros f i Hi. apply H13 in Hi. lia.
Qed.

(* replacing the content of a slot that does not own anything by NULL *)
Lemma G_slot_null : forall a s l, G a s -> aget a l <> AOwn ->
  G (aset a l ANull) (upd_slots s (set l None (slots s))).
Proof.
  intros a s l [H1 H2 H3 H4 H5 H6 H7 H8 H9 H10 H11 H12 H13] Hl.
  constructor; simp_acc; try assumption.
  - intros l0. rewrite aget_aset, get_set. eqcases; [reflexivity|apply H5].
  - intros l1 l2 i. rewrite !aget_aset, !get_set. eqcases; intros A1 A2 E1 E2; try discriminate. eapply H7; eauto.
  - intros l0 f i. rewrite aget_aset, afget_aset, get_set. eqcases; intros A1 A2 E1; try discriminate. eapply H8; eauto.
  - intros i Hi. destruct (H10 i Hi) as [[l0 [Ha Hb]]|[f [Ha Hb]]].
    + left. exists l0. rewrite aget_aset, get_set. destruct (N.eqb_spec l0 l); [subst; contradiction|auto].
    + right. exists f. auto.
  - intros l0 i. rewrite get_set. eqcases; intros E; [discriminate|eauto].
Qed.

Lemma G_alloc_fail : forall a s l, G a s -> aget a l <> AOwn ->
  G (afailset (aset a l ANull))
    (upd_nfail (upd_slots (upd_next s (S (next s))) (set l None (slots s))) (S (nfail s))).
Proof.
  intros a s l HG Hl. pose proof (G_slot_null a s l HG Hl) as [H1 H2 H3 H4 H5 H6 H7 H8 H9 H10 H11 H12 H13].
  constructor; simp_acc; try assumption; try reflexivity.
  - intros i Hi. apply H11 in Hi. lia.
  - intros l0 i E. apply H12 in E. lia.
  - intros f i Hi. apply H13 in Hi. lia.
Qed.

Lemma G_free_own : forall a s l i, G a s -> aget a l = AOwn -> sget s l = Some i ->
  G (aset a l ADang) (upd_live s (remove_nat i (live s))).
Proof.
  intros a s l i [H1 H2 H3 H4 H5 H6 H7 H8 H9 H10 H11 H12 H13] Hl Hi.
  constructor; simp_acc; try assumption.
  - intros l0. rewrite aget_aset. eqcases.
    + exists i. split; [exact Hi|]. rewrite In_remove_nat. tauto.
    + specialize (H5 l0). unfold slot_rel in *. destruct (aget a l0) eqn:E0.
      * exact H5.
      * destruct H5 as [j [Ha Hb]]. exists j. split; [exact Ha|]. rewrite In_remove_nat. split; [exact Hb|].
        intro E. subst j. apply n. eapply H7; eauto.
      * destruct H5 as [j [Ha Hb]]. exists j. split; [exact Ha|]. rewrite In_remove_nat. tauto.
  - intros f. rewrite afget_aset. specialize (H6 f). unfold fam_rel in *. destruct (afget a f) eqn:E0.
    + exact H6.
    + destruct H6 as [Ha Hb]. split; [|exact Hb]. intros j Hj. rewrite In_remove_nat. split; [auto|].
      intro E. subst j. exact (H8 l f i Hl E0 Hi Hj).
    + intros j Hj. rewrite In_remove_nat. intros [A B]. exact (H6 j Hj A).
  - intros l1 l2 j. rewrite !aget_aset. eqcases; intros A1 A2 E1 E2; try discriminate. eapply H7; eauto.
  - intros l0 f j. rewrite aget_aset, afget_aset. eqcases; intros A1 A2 E1; try discriminate. eapply H8; eauto.
  - intros j. rewrite In_remove_nat. intros [Hj Hne]. destruct (H10 j Hj) as [[l0 [Ha Hb]]|[f [Ha Hb]]].
    + left. exists l0. rewrite aget_aset. destruct (N.eqb_spec l0 l); [subst; congruence|auto].
    + right. exists f. auto.
  - intros j. rewrite In_remove_nat. intros [Hj _]. auto.
Qed.

Lemma G_move : forall a s dst src, G a s -> dst <> src -> aget a dst <> AOwn ->
  G (aset (aset a dst (aget a src)) src ANull)
    (upd_slots s (set src None (set dst (sget s src) (slots s)))).
Proof.
  intros a s dst src [H1 H2 H3 H4 H5 H6 H7 H8 H9 H10 H11 H12 H13] Hne Hd.
  constructor; simp_acc; try assumption.
  - intros l0. rewrite !aget_aset, !get_set. eqcases; try reflexivity; try contradiction; apply H5.
  - intros l1 l2 i. rewrite !aget_aset, !get_set.
    eqcases; intros A1 A2 E1 E2; try discriminate; try reflexivity; try contradiction;
      try solve [eapply H7; eauto];
      try solve [exfalso; match goal with n : ?x <> ?y |- _ => apply n; (solve [eapply H7; eauto] || solve [symmetry; eapply H7; eauto]) end].
  - intros l0 f i. rewrite !aget_aset, !afget_aset, !get_set.
    eqcases; intros A1 A2 E1; try discriminate; try contradiction; eapply H8; eauto.
  - intros i Hi. destruct (H10 i Hi) as [[l0 [Ha Hb]]|[f [Ha Hb]]].
    + left. destruct (N.eq_dec l0 src) as [E|E].
      * subst l0. exists dst. rewrite !aget_aset, !get_set.
        destruct (N.eqb_spec dst src); [contradiction|]. rewrite N.eqb_refl. auto.
      * exists l0. rewrite !aget_aset, !get_set.
        destruct (N.eqb_spec l0 src); [contradiction|].
        destruct (N.eqb_spec l0 dst); [subst; contradiction|]. auto.
    + right. exists f. auto.
  - intros l0 i. rewrite !get_set. eqcases; intros E; try discriminate; eauto.
Qed.

Lemma G_push : forall a s f l i, G a s -> aget a l = AOwn -> afget a f <> FDang -> sget s l = Some i ->
  G (afset (aset a l ANull) f FOwn)
    (upd_slots (upd_fams s (set f (i :: fget s f) (fams s))) (set l None (slots s))).
Proof.
  intros a s f l i [H1 H2 H3 H4 H5 H6 H7 H8 H9 H10 H11 H12 H13] Hl Hf Hi.
  assert (Hlive : In i (live s)).
  { specialize (H5 l). rewrite Hl in H5. destruct H5 as [j [A B]]. simp_acc. congruence. }
  assert (Hst : forall j, In j (fget s f) -> afget a f = FOwn).
  { intros j Hj. specialize (H6 f). destruct (afget a f); [rewrite H6 in Hj; contradiction|reflexivity|contradiction]. }
  constructor; simp_acc; try assumption.
  - intros l0. rewrite aget_afset, aget_aset, get_set. eqcases; [reflexivity|apply H5].
  - intros f0. rewrite afget_afset, afget_aset, get_set. eqcases.
    + specialize (H6 f). unfold fam_rel in *. split.
      * intros j [E|Hj]; [subst; exact Hlive|]. rewrite (Hst j Hj) in H6. apply H6. exact Hj.
      * constructor.
        -- intro Hj. exact (H8 l f i Hl (Hst i Hj) Hi Hj).
        -- destruct (afget a f); [rewrite H6; constructor|apply H6|contradiction].
    + apply H6.
  - intros l1 l2 j. rewrite !aget_afset, !aget_aset, !get_set. eqcases; intros A1 A2 E1 E2; try discriminate. eapply H7; eauto.
  - intros l0 f0 j. rewrite aget_afset, aget_aset, afget_afset, afget_aset, !get_set.
    eqcases; intros A1 A2 E1; try discriminate.
    + intros [E|Hj].
      * subst j. apply n. eapply H7; eauto.
      * exact (H8 l0 f j A1 (Hst j Hj) E1 Hj).
    + eapply H8; eauto.
  - intros f1 f2 j. rewrite !afget_afset, !afget_aset, !get_set. eqcases; intros A1 A2 E1 E2; try reflexivity.
    + exfalso. destruct E1 as [E|E1].
      * subst j. exact (H8 l f2 i Hl A2 Hi E2).
      * apply n. eapply H9; eauto.
    + exfalso. destruct E2 as [E|E2].
      * subst j. exact (H8 l f1 i Hl A1 Hi E1).
      * apply n. eapply H9; eauto.
    + eapply H9; eauto.
  - intros j Hj. destruct (H10 j Hj) as [[l0 [Ha Hb]]|[f0 [Ha Hb]]].
    + destruct (N.eq_dec l0 l) as [E|E].
      * subst l0. right. exists f. rewrite afget_afset, get_set, !N.eqb_refl. split; [reflexivity|].
        left. congruence.
      * left. exists l0. rewrite aget_afset, aget_aset, get_set. destruct (N.eqb_spec l0 l); [contradiction|auto].
    + right. exists f0. rewrite afget_afset, afget_aset, get_set. destruct (N.eqb_spec f0 f).
      * subst f0. split; [reflexivity|right; exact Hb].
      * auto.
  - intros l0 j. rewrite get_set. eqcases; intros E; [discriminate|eauto].
  - intros f0 j. rewrite get_set. eqcases; [|apply H13]. intros [E|Hj]; [subst; eapply H12; eauto|eapply H13; eauto].
Qed.

(* a family known to be Own whose stack happens to be empty can be refined to Empty *)
Lemma G_refine_empty : forall a s f, G a s -> fget s f = [] -> G (afset a f FEmpty) s.
Proof.
  intros a s f [H1 H2 H3 H4 H5 H6 H7 H8 H9 H10 H11 H12 H13] He.
  constructor; simp_acc; try assumption.
  - intros f0. rewrite afget_afset. eqcases; [exact He|apply H6].
  - intros l0 f0 j. rewrite aget_afset, afget_afset. eqcases; intros A1 A2 E1; [discriminate|eapply H8; eauto].
  - intros f1 f2 j. rewrite !afget_afset. eqcases; intros A1 A2 E1 E2; try discriminate. eapply H9; eauto.
  - intros j Hj. destruct (H10 j Hj) as [[l0 [Ha Hb]]|[f0 [Ha Hb]]].
    + left. exists l0. auto.
    + right. exists f0. rewrite afget_afset. destruct (N.eqb_spec f0 f); [subst; rewrite He in Hb; contradiction|auto].
Qed.

Lemma G_pop_some : forall a s f l i rest, G a s -> aget a l <> AOwn -> afget a f = FOwn -> fget s f = i :: rest ->
  G (aset a l AOwn) (upd_slots (upd_fams s (set f rest (fams s))) (set l (Some i) (slots s))).
Proof.
  intros a s f l i rest [H1 H2 H3 H4 H5 H6 H7 H8 H9 H10 H11 H12 H13] Hl Hf Hst.
  assert (HF := H6 f). rewrite Hf, Hst in HF. destruct HF as [HFa HFb].
  assert (Hlive : In i (live s)) by (apply HFa; left; reflexivity).
  inversion HFb as [|? ? Hnotin Hnd]; subst.
  assert (Hsub : forall f0 j, In j (get [] f0 (set f rest (fams s))) -> In j (fget s f0)).
  { intros f0 j. rewrite get_set. destruct (N.eqb_spec f0 f); [subst; simp_acc; rewrite Hst; intro; right; assumption|auto]. }
  constructor; simp_acc; try assumption.
  - intros l0. rewrite aget_aset, get_set. eqcases; [exists i; auto|apply H5].
  - intros f0. rewrite afget_aset, get_set. eqcases; [|apply H6].
    rewrite Hf. split; [intros j Hj; apply HFa; right; exact Hj|exact Hnd].
  - intros l1 l2 j. rewrite !aget_aset, !get_set. eqcases; intros A1 A2 E1 E2; try reflexivity.
    + inversion E1; subst j. exfalso. apply (H8 l2 f i A2 Hf E2). simp_acc. rewrite Hst. left; reflexivity.
    + inversion E2; subst j. exfalso. apply (H8 l1 f i A1 Hf E1). simp_acc. rewrite Hst. left; reflexivity.
    + eapply H7; eauto.
  - intros l0 f0 j. rewrite aget_aset, afget_aset. intros A1 A2. rewrite (get_set _ None). intros E1 Hj.
    destruct (N.eqb_spec l0 l).
    + subst l0. inversion E1; subst j. rewrite get_set in Hj. destruct (N.eqb_spec f0 f).
      * subst f0. contradiction.
      * apply n. eapply (H9 f0 f i); eauto. simp_acc. rewrite Hst. left; reflexivity.
    + apply Hsub in Hj. eapply H8; eauto.
  - intros f1 f2 j A1 A2 E1 E2. apply Hsub in E1. apply Hsub in E2. eapply H9; eauto.
  - intros j Hj. destruct (H10 j Hj) as [[l0 [Ha Hb]]|[f0 [Ha Hb]]].
    + left. exists l0. rewrite aget_aset, get_set. destruct (N.eqb_spec l0 l); [subst; contradiction|auto].
    + destruct (N.eq_dec f0 f) as [E|E].
      * subst f0. simp_acc. rewrite Hst in Hb. destruct Hb as [Hb|Hb].
        -- subst j. left. exists l. rewrite aget_aset, get_set, !N.eqb_refl. auto.
        -- right. exists f. rewrite afget_aset, get_set, N.eqb_refl. auto.
      * right. exists f0. rewrite afget_aset, get_set. destruct (N.eqb_spec f0 f); [contradiction|auto].
  - intros l0 j. rewrite get_set. eqcases; intros E; [|eauto]. inversion E; subst. auto.
  - intros f0 j Hj. apply Hsub in Hj. eauto.
Qed.

(* effect of releasing every entry of a stack of live, distinct blocks *)
Lemma fold_free_id : forall f cm st s,
  NoDup st -> (forall i, In i st -> In i (live s)) -> cm_ok s cm = true ->
  let s' := fold_left (fun x i => free_id f cm i x) st s in
  slots s' = slots s /\ fams s' = fams s /\ flags s' = flags s /\ next s' = next s /\ nfail s' = nfail s /\
  status s' = status s /\ errs s' = errs s /\ (forall j, In j (live s') <-> In j (live s) /\ ~ In j st).
Proof.
  intros f cm st. induction st as [|i st IH]; intros s Hnd Hin Hcm; cbn.
  - repeat split; auto; tauto.
  - inversion Hnd as [|? ? Hni Hnd']; subst.
    assert (Hi : mem_nat i (live s) = true) by (apply mem_nat_In; apply Hin; left; reflexivity).
    assert (Hfi : free_id f cm i s = upd_live s (remove_nat i (live s))).
    { unfold free_id. rewrite Hi, Hcm. reflexivity. }
    rewrite Hfi.
    set (s1 := upd_live s (remove_nat i (live s))).
    destruct (IH s1 Hnd') as [A1 [A2 [A3 [A4 [A5 [A6 [A7 A8]]]]]]].
    + intros j Hj. cbn. rewrite In_remove_nat. split; [apply Hin; right; exact Hj|]. intro E; subst; contradiction.
    + unfold cm_ok, flget in *. cbn. exact Hcm.
    + subst s1. cbn in *.
      split; [exact A1|]. split; [exact A2|]. split; [exact A3|]. split; [exact A4|]. split; [exact A5|].
      split; [exact A6|]. split; [exact A7|].
      intros j. rewrite A8, In_remove_nat. split.
      * intros [[Hj Hne] Hn]. split; [exact Hj|]. intros [E|E]; [subst; congruence|contradiction].
      * intros [Hj Hn]. split; [split; [exact Hj|]|].
        -- intro E; subst; apply Hn; left; reflexivity.
        -- intro E; apply Hn; right; exact E.
Qed.

Lemma G_freeall : forall a s f s', G a s -> afget a f = FOwn ->
  slots s' = slots s -> fams s' = fams s -> flags s' = flags s -> next s' = next s -> nfail s' = nfail s ->
  status s' = status s -> errs s' = errs s -> (forall j, In j (live s') <-> In j (live s) /\ ~ In j (fget s f)) ->
  G (afset a f FDang) s'.
Proof.
  intros a s f s' [H1 H2 H3 H4 H5 H6 H7 H8 H9 H10 H11 H12 H13] Hf E1 E2 E3 E4 E5 E6 E7 E8.
  constructor; unfold sget, fget, flget in *; rewrite ?E1, ?E2, ?E3, ?E4, ?E5, ?E6, ?E7; try assumption.
  - intros l0. rewrite aget_afset. specialize (H5 l0). unfold slot_rel, sget in *. destruct (aget a l0) eqn:E0.
    + exact H5.
    + destruct H5 as [j [Ha Hb]]. exists j. split; [exact Ha|]. apply E8. split; [exact Hb|]. eapply H8; eauto.
    + destruct H5 as [j [Ha Hb]]. exists j. split; [exact Ha|]. intro Hj. apply E8 in Hj. tauto.
  - intros f0. rewrite afget_afset. destruct (N.eqb_spec f0 f).
    + subst f0. intros j Hj Hl. apply E8 in Hl. tauto.
    + specialize (H6 f0). unfold fam_rel, fget in *. destruct (afget a f0) eqn:E0.
      * exact H6.
      * destruct H6 as [Ha Hb]. split; [|exact Hb]. intros j Hj. apply E8. split; [auto|].
        intro Hj2. apply n. eapply H9; eauto.
      * intros j Hj Hl. apply E8 in Hl. destruct Hl as [Hl _]. exact (H6 j Hj Hl).
  - intros l0 f0 j. rewrite aget_afset, afget_afset. destruct (N.eqb_spec f0 f); intros A1 A2 B1; [discriminate|eapply H8; eauto].
  - intros f1 f2 j. rewrite !afget_afset. destruct (N.eqb_spec f1 f), (N.eqb_spec f2 f); intros A1 A2 B1 B2; try discriminate. eapply H9; eauto.
  - intros j Hj. apply E8 in Hj. destruct Hj as [Hj Hn]. destruct (H10 j Hj) as [[l0 [Ha Hb]]|[f0 [Ha Hb]]].
    + left. exists l0. auto.
    + right. exists f0. rewrite afget_afset. destruct (N.eqb_spec f0 f); [subst; contradiction|auto].
  - intros j Hj. apply E8 in Hj. apply H11. tauto.
Qed.

Lemma G_clearfam : forall a s f, G a s -> afget a f <> FOwn ->
  G (afset a f FEmpty) (upd_fams s (set f [] (fams s))).
Proof.
  intros a s f [H1 H2 H3 H4 H5 H6 H7 H8 H9 H10 H11 H12 H13] Hf.
  constructor; simp_acc; try assumption.
  - intros f0. rewrite afget_afset, get_set. eqcases; [reflexivity|apply H6].
  - intros l0 f0 j. rewrite aget_afset, afget_afset, get_set. eqcases; intros A1 A2 B1; [discriminate|eapply H8; eauto].
  - intros f1 f2 j. rewrite !afget_afset, !get_set. eqcases; intros A1 A2 B1 B2; try discriminate. eapply H9; eauto.
  - intros j Hj. destruct (H10 j Hj) as [[l0 [Ha Hb]]|[f0 [Ha Hb]]].
    + left. exists l0. auto.
    + right. exists f0. rewrite afget_afset, get_set. destruct (N.eqb_spec f0 f); [subst; contradiction|auto].
  - intros f0 j. rewrite get_set. eqcases; [contradiction|apply H13].
Qed.

Lemma NoDup_app_intro : forall (l1 l2 : list nat), NoDup l1 -> NoDup l2 -> (forall x, In x l1 -> ~ In x l2) -> NoDup (l1 ++ l2).
Proof.
  induction l1 as [|x l1 IH]; cbn; intros l2 H1 H2 H3; [exact H2|].
  inversion H1; subst. constructor.
  - intro Hx. apply in_app_or in Hx. destruct Hx as [Hx|Hx]; [contradiction|]. exact (H3 x (or_introl eq_refl) Hx).
  - apply IH; auto.
Qed.

(* an Empty family may be regarded as an Own one (its stack is empty) *)
Lemma G_own_of_empty : forall a s f, G a s -> afget a f = FEmpty -> G (afset a f FOwn) s.
Proof.
  intros a s f [H1 H2 H3 H4 H5 H6 H7 H8 H9 H10 H11 H12 H13] He.
  assert (Hst : fget s f = []) by (specialize (H6 f); rewrite He in H6; exact H6).
  constructor; simp_acc; try assumption.
  - intros f0. rewrite afget_afset. eqcases; [|apply H6]. simp_acc. rewrite Hst. split; [intros i []|constructor].
  - intros l0 f0 j. rewrite aget_afset, afget_afset. eqcases; intros A1 A2 B1; [simp_acc; rewrite Hst; intros []|eapply H8; eauto].
  - intros f1 f2 j. rewrite !afget_afset. eqcases; intros A1 A2 B1 B2; try reflexivity;
      try (simp_acc; rewrite Hst in *; contradiction). eapply H9; eauto.
  - intros j Hj. destruct (H10 j Hj) as [[l0 [Ha Hb]]|[f0 [Ha Hb]]].
    + left. exists l0. auto.
    + right. exists f0. rewrite afget_afset. destruct (N.eqb_spec f0 f); [subst; congruence|auto].
Qed.

Lemma G_ext : forall a a' s, G a s ->
  (forall l, aget a' l = aget a l) -> (forall f, afget a' f = afget a f) -> (forall f, aflget a' f = aflget a f) ->
  astatus a' = astatus a -> afailed a' = afailed a -> G a' s.
Proof.
  intros a a' s [H1 H2 H3 H4 H5 H6 H7 H8 H9 H10 H11 H12 H13] E1 E2 E3 E4 E5.
  constructor; intros; rewrite ?E1, ?E2, ?E3, ?E4, ?E5 in *; eauto.
  destruct (H10 i H) as [[l0 [Ha Hb]]|[f0 [Ha Hb]]]; [left; exists l0|right; exists f0]; rewrite ?E1, ?E2; auto.
Qed.
Lemma G_afset_same : forall a s f v, G a s -> afget a f = v -> G (afset a f v) s.
Proof.
  intros a s f v HG E. apply (G_ext a); auto. intros f0. rewrite afget_afset. destruct (N.eqb_spec f0 f); subst; auto.
Qed.

Lemma G_drain : forall a s src dst, G a s -> src <> dst -> afget a src = FOwn -> afget a dst <> FDang ->
  G (afset (afset a dst FOwn) src FEmpty)
    (upd_fams s (set src [] (set dst (fget s src ++ fget s dst) (fams s)))).
Proof.
  intros a s src dst [H1 H2 H3 H4 H5 H6 H7 H8 H9 H10 H11 H12 H13] Hne Hs Hd.
  assert (HS := H6 src). rewrite Hs in HS. destruct HS as [HSa HSb].
  assert (HD : (forall i, In i (fget s dst) -> In i (live s)) /\ NoDup (fget s dst) /\
               (forall i, In i (fget s dst) -> afget a dst = FOwn)).
  { specialize (H6 dst). destruct (afget a dst) eqn:E.
    - rewrite H6. repeat split; [intros i []|constructor|intros i []].
    - destruct H6 as [A B]. repeat split; auto.
    - contradiction. }
  destruct HD as [HDa [HDb HDc]].
  assert (Hget : forall f0, get [] f0 (set src [] (set dst (fget s src ++ fget s dst) (fams s))) =
                 if N.eqb f0 src then [] else if N.eqb f0 dst then fget s src ++ fget s dst else fget s f0).
  { intros f0. rewrite !get_set. reflexivity. }
  constructor; simp_acc; try assumption.
  - intros f0. rewrite !afget_afset, Hget. destruct (N.eqb_spec f0 src); [reflexivity|].
    destruct (N.eqb_spec f0 dst); [|apply H6]. split.
    + intros i Hi. apply in_app_or in Hi. destruct Hi; auto.
    + apply NoDup_app_intro; auto. intros x Hx Hx2. apply Hne. eapply (H9 src dst x); eauto.
  - intros l0 f0 j. rewrite aget_afset, aget_afset, !afget_afset. intros A1 A2 B1. rewrite Hget.
    destruct (N.eqb_spec f0 src); [discriminate|]. destruct (N.eqb_spec f0 dst).
    + intro Hj. apply in_app_or in Hj. destruct Hj as [Hj|Hj].
      * exact (H8 l0 src j A1 Hs B1 Hj).
      * exact (H8 l0 dst j A1 (HDc j Hj) B1 Hj).
    + eapply H8; eauto.
  - intros f1 f2 j. rewrite !afget_afset. intros A1 A2. rewrite !Hget.
    destruct (N.eqb_spec f1 src); [discriminate|]. destruct (N.eqb_spec f2 src); [discriminate|].
    destruct (N.eqb_spec f1 dst), (N.eqb_spec f2 dst); subst; try reflexivity; intros B1 B2.
    + exfalso. apply in_app_or in B1. destruct B1 as [B1|B1].
      * assert (src = f2) by (eapply (H9 src f2 j); eauto). congruence.
      * assert (dst = f2) by (eapply (H9 dst f2 j); eauto). congruence.
    + exfalso. apply in_app_or in B2. destruct B2 as [B2|B2].
      * assert (src = f1) by (eapply (H9 src f1 j); eauto). congruence.
      * assert (dst = f1) by (eapply (H9 dst f1 j); eauto). congruence.
    + eapply H9; eauto.
  - intros j Hj. destruct (H10 j Hj) as [[l0 [Ha Hb]]|[f0 [Ha Hb]]].
    + left. exists l0. auto.
    + right. destruct (N.eq_dec f0 src) as [E|E].
      * subst f0. exists dst. rewrite !afget_afset, Hget.
        destruct (N.eqb_spec dst src); [congruence|]. rewrite N.eqb_refl. split; [reflexivity|]. apply in_or_app. left. exact Hb.
      * exists f0. rewrite !afget_afset, Hget. destruct (N.eqb_spec f0 src); [contradiction|].
        destruct (N.eqb_spec f0 dst); [split; [reflexivity|]; subst; apply in_or_app; right; exact Hb|auto].
  - intros f0 j. rewrite Hget. destruct (N.eqb_spec f0 src); [intros []|]. destruct (N.eqb_spec f0 dst); [|apply H13].
    intro Hj. apply in_app_or in Hj. destruct Hj; eauto.
Qed.

(* ------------------------------------------------------------------ equality tests of the analysis *)
Lemma store_eqb_eq : forall A (eqb : A -> A -> bool), (forall x y, eqb x y = true -> x = y) ->
  forall m1 m2 : store A, store_eqb eqb m1 m2 = true -> m1 = m2.
Proof.
  intros A eqb He. induction m1 as [|[k1 v1] m1 IH]; destruct m2 as [|[k2 v2] m2]; cbn; intros H; try discriminate; [reflexivity|].
  apply andb_true_iff in H. destruct H as [H H3]. apply andb_true_iff in H. destruct H as [H1 H2].
  apply N.eqb_eq in H1. apply He in H2. apply IH in H3. subst. reflexivity.
Qed.
Lemma astate_eqb_eq : forall a b, astate_eqb a b = true -> a = b.
Proof.
  intros [a1 a2 a3 a4 a5] [b1 b2 b3 b4 b5]. unfold astate_eqb. cbn. intros H.
  repeat (apply andb_true_iff in H; let H' := fresh "H" in destruct H as [H H']).
  apply store_eqb_eq in H; [|intros [] []; cbn; congruence].
  apply store_eqb_eq in H3; [|intros [] []; cbn; congruence].
  apply store_eqb_eq in H2; [|intros [] []; cbn; congruence].
  apply eqb_prop in H1. apply eqb_prop in H0. subst. reflexivity.
Qed.
Lemma amem_In : forall a St, amem a St = true -> In a St.
Proof.
  intros a St H. unfold amem in H. apply existsb_exists in H. destruct H as [b [H1 H2]].
  apply astate_eqb_eq in H2. subst. exact H1.
Qed.

(* ------------------------------------------------------------------ sequencing *)
Lemma bind_leaves_in : forall L k L' a r, bind_leaves L k = Some L' -> In (a, r) L ->
  if r then In (a, true) L' else exists L2, k a = Some L2 /\ incl L2 L'.
Proof.
  induction L as [|[a0 r0] L IH]; cbn; intros k L' a r H Hin; [contradiction|].
  destruct (if r0 then Some [(a0, true)] else k a0) as [x|] eqn:E1; [|discriminate].
  destruct (bind_leaves L k) as [y|] eqn:E2; [|discriminate].
  inversion H; subst L'. destruct Hin as [Hin|Hin].
  - inversion Hin; subst a0 r0. destruct r.
    + inversion E1; subst x. apply in_or_app. left. left. reflexivity.
    + exists x. split; [exact E1|]. apply incl_appl. apply incl_refl.
  - specialize (IH k y a r E2 Hin). destruct r.
    + apply in_or_app. right. exact IH.
    + destruct IH as [L2 [A B]]. exists L2. split; [exact A|]. apply incl_appr. exact B.
Qed.

(* ------------------------------------------------------------------ Star *)
Lemma star_round_spec : forall f St N R, star_round f St = Some (N, R) ->
  forall a, In a St -> exists L, f a = Some L /\
    (forall a', In (a', false) L -> In a' N) /\ (forall a', In (a', true) L -> In (a', true) R).
Proof.
  intros f. induction St as [|a0 St IH]; cbn; intros N R H a Hin; [contradiction|].
  destruct (f a0) as [L|] eqn:E1; [|discriminate].
  destruct (star_round f St) as [[N0 R0]|] eqn:E2; [|discriminate].
  inversion H; subst N R. destruct Hin as [Hin|Hin].
  - subst a0. exists L. split; [exact E1|]. split; intros a' Ha.
    + apply in_or_app. left. apply in_map_iff. exists (a', false). split; [reflexivity|].
      apply filter_In. split; [exact Ha|reflexivity].
    + apply in_or_app. left. apply filter_In. split; [exact Ha|reflexivity].
  - destruct (IH N0 R0 eq_refl a Hin) as [L' [A [B C]]]. exists L'. split; [exact A|]. split; intros a' Ha.
    + apply in_or_app. right. auto.
    + apply in_or_app. right. auto.
Qed.

Lemma add_new_incl : forall N St, incl St (add_new N St).
Proof.
  induction N as [|a N IH]; cbn; intros St; [apply incl_refl|].
  destruct (amem a St); [apply IH|]. eapply incl_tran; [|apply IH]. apply incl_appl. apply incl_refl.
Qed.

Lemma star_fix_spec : forall fuel f St0 St R, star_fix fuel f St0 = Some (St, R) ->
  incl St0 St /\
  forall a, In a St -> exists L, f a = Some L /\
    (forall a', In (a', false) L -> In a' St) /\ (forall a', In (a', true) L -> In (a', true) R).
Proof.
  induction fuel as [|fuel IH]; cbn; intros f St0 St R H; [discriminate|].
  destruct (star_round f St0) as [[N R0]|] eqn:E; [|discriminate].
  destruct (forallb (fun a => amem a St0) N) eqn:E2.
  - inversion H; subst St R. split; [apply incl_refl|]. intros a Ha.
    destruct (star_round_spec f St0 N R0 E a Ha) as [L [A [B C]]]. exists L. split; [exact A|]. split; [|exact C].
    intros a' Ha'. apply B in Ha'. rewrite forallb_forall in E2. apply amem_In. apply E2. exact Ha'.
  - destruct (IH f _ St R H) as [A B]. split; [|exact B]. eapply incl_tran; [apply add_new_incl|exact A].
Qed.

Lemma In_ldedup : forall (L : leaves) x, In x L -> In x (ldedup L).
Proof.
  induction L as [|y L IH]; cbn; intros x Hx; [contradiction|].
  destruct (existsb (leaf_eqb y) L) eqn:E.
  - destruct Hx as [Hx|Hx]; [|auto]. subst y. apply existsb_exists in E. destruct E as [z [Hz Hq]].
    unfold leaf_eqb in Hq. apply andb_true_iff in Hq. destruct Hq as [Q1 Q2].
    apply astate_eqb_eq in Q1. apply eqb_prop in Q2. destruct x as [xa xr], z as [za zr]. cbn in *. subst. auto.
  - destruct Hx as [Hx|Hx]; [left; exact Hx|right; auto].
Qed.

Lemma explore_incl : forall fuel f seen front St, explore fuel f seen front = Some St -> incl seen St.
Proof.
  induction fuel as [|fuel IH]; cbn; intros f seen front St H; [discriminate|].
  destruct front as [|a0 front].
  - inversion H; subst. apply incl_refl.
  - destruct (star_round f (a0 :: front)) as [[N R]|]; [|discriminate].
    apply IH in H. eapply incl_tran; [|exact H]. apply incl_appl. apply incl_refl.
Qed.

Lemma sound_dedup : forall (X : option leaves) L (Q : astate * bool -> Prop),
  option_map ldedup X = Some L -> (forall L0, X = Some L0 -> exists x, In x L0 /\ Q x) -> exists x, In x L /\ Q x.
Proof.
  intros X L Q H HX. destruct X as [L0|]; [|discriminate]. cbn in H. inversion H; subst L.
  destruct (HX L0 eq_refl) as [x [A B]]. exists x. split; [apply In_ldedup; exact A|exact B].
Qed.

(* ------------------------------------------------------------------ main theorem *)
Definition ok_oracle (canfail : bool) (o : oracle) : Prop := canfail = false -> forall k, fails o k = false.

Definition sound (f : astate -> option leaves) (g : state -> state * bool) : Prop :=
  forall a L s, f a = Some L -> G a s -> exists a', In (a', snd (g s)) L /\ G a' (fst (g s)).

Lemma iter_sound : forall f g St R, sound f g ->
  (forall a, In a St -> exists L, f a = Some L /\
     (forall a', In (a', false) L -> In a' St) /\ (forall a', In (a', true) L -> In (a', true) R)) ->
  forall n a s, In a St -> G a s ->
  exists a', G a' (fst (iter n g s)) /\
    (if snd (iter n g s) then In (a', true) R else In a' St).
Proof.
  intros f g St R Hs Hc. induction n as [|n IH]; cbn; intros a s Ha HG.
  - exists a. split; assumption.
  - destruct (Hc a Ha) as [L [A [B C]]]. destruct (Hs a L s A HG) as [a1 [D E]].
    destruct (g s) as [s1 r] eqn:Eg. cbn in *. destruct r.
    + cbn. exists a1. split; [exact E|]. apply C. exact D.
    + apply (IH a1 s1); [apply B; exact D|exact E].
Qed.

Lemma cm_ok_eq : forall a s cm, G a s -> cm_ok s cm = acm_ok a cm.
Proof. intros a s [f|] HG; cbn; [symmetry; apply (g_flags a s HG)|reflexivity]. Qed.

Lemma slot_null : forall a s l, G a s -> aget a l = ANull -> sget s l = None.
Proof. intros a s l HG E. pose proof (g_slot a s HG l) as H. rewrite E in H. exact H. Qed.
Lemma slot_own : forall a s l, G a s -> aget a l = AOwn -> exists i, sget s l = Some i /\ In i (live s).
Proof. intros a s l HG E. pose proof (g_slot a s HG l) as H. rewrite E in H. exact H. Qed.
Lemma slot_dang : forall a s l, G a s -> aget a l = ADang -> exists i, sget s l = Some i /\ ~ In i (live s).
Proof. intros a s l HG E. pose proof (g_slot a s HG l) as H. rewrite E in H. exact H. Qed.
Lemma fam_empty : forall a s f, G a s -> afget a f = FEmpty -> fget s f = [].
Proof. intros a s f HG E. pose proof (g_fam a s HG f) as H. rewrite E in H. exact H. Qed.

Ltac inv_some := match goal with H : Some _ = Some _ |- _ => inversion H; subst; clear H end.

Theorem aexec_sound : forall fuel canfail o, ok_oracle canfail o ->
  forall p, sound (aexec fuel canfail p) (run o p).
Proof.
  intros fuel canfail o Ho. unfold sound. induction p; intros a L s HA HG;
    (match goal with |- exists a', In (a', snd ?R) L /\ G a' (fst ?R) =>
       cut (exists x, In x L /\ (snd x = snd R /\ G (fst x) (fst R)));
       [ intros [[xa xr] [Hx1 [Hx2 Hx3]]]; cbn in Hx2, Hx3; subst xr; exists xa; split; assumption | ];
       cbn [aexec] in HA;
       apply (sound_dedup _ L (fun x => snd x = snd R /\ G (fst x) (fst R)) HA); clear HA L; intros L HA;
       cut (exists a', In (a', snd R) L /\ G a' (fst R));
       [ intros [a' [Hy1 Hy2]]; exists (a', snd R); split; [exact Hy1|split; [reflexivity|exact Hy2]] | ]
     end);
    cbn [run] in *.
  - (* Skip *) inv_some. exists a. split; [left; reflexivity|exact HG].
  - (* Seq *)
    destruct (aexec fuel canfail p1 a) as [L1|] eqn:E1; [|discriminate].
    destruct (IHp1 a L1 s E1 HG) as [a1 [A B]]. destruct (run o p1 s) as [s1 r] eqn:Er. cbn in A, B.
    pose proof (bind_leaves_in _ _ _ _ _ HA A) as Hb. destruct r.
    + exists a1. split; [exact Hb|exact B].
    + destruct Hb as [L2 [C D]]. destruct (IHp2 a1 L2 s1 C B) as [a2 [E F]]. exists a2. split; [apply D; exact E|exact F].
  - (* Alloc *)
    destruct (aget a l) eqn:El; try discriminate; inv_some;
    (destruct (fails o (S (next s))) eqn:Ef;
     [ destruct canfail; [|rewrite (Ho eq_refl) in Ef; discriminate];
       exists (afailset (aset a l ANull)); split; [right; left; reflexivity|];
       cbn; apply G_add_ev; apply G_alloc_fail; [exact HG|congruence]
     | exists (aset a l AOwn); split; [left; reflexivity|];
       cbn; apply G_add_ev; apply G_alloc_ok; [exact HG|congruence] ]).
  - (* Free *)
    destruct (aget a l) eqn:El.
    + inv_some. rewrite (slot_null a s l HG El). exists a. split; [left; reflexivity|exact HG].
    + destruct (acm_ok a cm) eqn:Ec; [|discriminate]. inv_some.
      destruct (slot_own a s l HG El) as [i [A B]]. rewrite A.
      exists (aset a l ADang). split; [left; reflexivity|]. cbn. apply G_add_ev.
      unfold free_id. rewrite (proj2 (mem_nat_In i (live s)) B). rewrite (cm_ok_eq a s cm HG), Ec.
      apply G_free_own; assumption.
    + discriminate.
  - (* SetNull *)
    destruct (aget a l) eqn:El; try discriminate; inv_some;
      (exists (aset a l ANull); split; [left; reflexivity|]; cbn; apply G_slot_null; [exact HG|congruence]).
  - (* Move *)
    destruct (N.eqb_spec dst src) as [E|E]; [discriminate|].
    destruct (aget a dst) eqn:El; try discriminate; inv_some;
      (eexists; split; [left; reflexivity|]; cbn; apply G_move; [exact HG|exact E|congruence]).
  - (* Use *)
    destruct (aget a l) eqn:El; try discriminate. inv_some.
    destruct (slot_own a s l HG El) as [i [A B]]. rewrite A. rewrite (proj2 (mem_nat_In i (live s)) B).
    exists a. split; [left; reflexivity|exact HG].
  - (* IfNull *)
    destruct (aget a l) eqn:El.
    + rewrite (slot_null a s l HG El). exact (IHp1 a L s HA HG).
    + destruct (slot_own a s l HG El) as [i [A B]]. rewrite A. exact (IHp2 a L s HA HG).
    + destruct (slot_dang a s l HG El) as [i [A B]]. rewrite A. exact (IHp2 a L s HA HG).
  - (* SetFlag *)
    inv_some. eexists. split; [left; reflexivity|]. cbn. apply G_flag. exact HG.
  - (* IfFlag *)
    rewrite <- (g_flags a s HG f). destruct (aflget a f); [exact (IHp1 a L s HA HG)|exact (IHp2 a L s HA HG)].
  - (* Choice *)
    destruct (aexec fuel canfail p1 a) as [x|] eqn:E1; [|discriminate].
    destruct (aexec fuel canfail p2 a) as [y|] eqn:E2; [|discriminate]. inv_some.
    pose proof (G_upd_nchoice a s (S (nchoice s)) HG) as HG'.
    destruct (choose o (nchoice s)).
    + destruct (IHp1 a x _ E1 HG') as [a1 [A B]]. exists a1. split; [apply in_or_app; left; exact A|exact B].
    + destruct (IHp2 a y _ E2 HG') as [a1 [A B]]. exists a1. split; [apply in_or_app; right; exact A|exact B].
  - (* Push *)
    destruct (aget a l) eqn:El.
    + inv_some. rewrite (slot_null a s l HG El). exists a. split; [left; reflexivity|exact HG].
    + destruct (slot_own a s l HG El) as [i [A B]]. rewrite A.
      destruct (afget a f) eqn:Ef; try discriminate; inv_some;
        (eexists; split; [left; reflexivity|]; cbn; apply G_push; [exact HG|exact El|congruence|exact A]).
    + discriminate.
  - (* Pop *)
    assert (Hl : aget a l <> AOwn -> True) by auto.
    destruct (aget a l) eqn:El; try discriminate;
    (destruct (afget a f) eqn:Ef; try discriminate; inv_some;
     [ rewrite (fam_empty a s f HG Ef); exists (aset a l ANull); split; [left; reflexivity|];
       cbn; apply G_slot_null; [exact HG|congruence]
     | destruct (fget s f) as [|i rest] eqn:Est;
       [ exists (afset (aset a l ANull) f FEmpty); split; [right; left; reflexivity|]; cbn;
         apply G_refine_empty; [apply G_slot_null; [exact HG|congruence]|exact Est]
       | exists (aset a l AOwn); split; [left; reflexivity|]; cbn;
         apply G_pop_some; [exact HG|congruence|exact Ef|exact Est] ] ]).
  - (* IfEmpty *)
    destruct (afget a f) eqn:Ef.
    + rewrite (fam_empty a s f HG Ef). exact (IHp1 a L s HA HG).
    + destruct (aexec fuel canfail p1 (afset a f FEmpty)) as [x|] eqn:E1; [|discriminate].
      destruct (aexec fuel canfail p2 a) as [y|] eqn:E2; [|discriminate]. inv_some.
      destruct (fget s f) as [|i rest] eqn:Est.
      * destruct (IHp1 _ x s E1 (G_refine_empty a s f HG Est)) as [a1 [A B]].
        exists a1. split; [apply in_or_app; left; exact A|exact B].
      * destruct (IHp2 a y s E2 HG) as [a1 [A B]]. exists a1. split; [apply in_or_app; right; exact A|exact B].
    + discriminate.
  - (* PopElse *)
    destruct (aget a l) eqn:El; try discriminate;
    (destruct (afget a f) eqn:Ef;
     [ rewrite (fam_empty a s f HG Ef); exact (IHp1 a L s HA HG)
     | destruct (aexec fuel canfail p1 (afset a f FEmpty)) as [x|] eqn:E1; [|discriminate];
       destruct (aexec fuel canfail p2 (aset a l AOwn)) as [y|] eqn:E2; [|discriminate]; inv_some;
       destruct (fget s f) as [|i rest] eqn:Est;
       [ destruct (IHp1 _ x s E1 (G_refine_empty a s f HG Est)) as [a1 [A B]];
         exists a1; split; [apply in_or_app; left; exact A|exact B]
       | assert (HG2 : G (aset a l AOwn) (upd_slots (upd_fams s (set f rest (fams s))) (set l (Some i) (slots s))))
           by (apply G_pop_some; [exact HG|congruence|exact Ef|exact Est]);
         destruct (IHp2 _ y _ E2 HG2) as [a1 [A B]];
         exists a1; split; [apply in_or_app; right; exact A|exact B] ]
     | discriminate ]).
  - (* FreeAll *)
    destruct (afget a f) eqn:Ef.
    + inv_some. rewrite (fam_empty a s f HG Ef). cbn. exists a. split; [left; reflexivity|apply G_add_ev; exact HG].
    + destruct (acm_ok a cm) eqn:Ec; [|discriminate]. inv_some.
      exists (afset a f FDang). split; [left; reflexivity|]. cbn. apply G_add_ev.
      pose proof (g_fam a s HG f) as HF. rewrite Ef in HF. destruct HF as [HFa HFb].
      assert (Hcm : cm_ok s cm = true) by (rewrite (cm_ok_eq a s cm HG); exact Ec).
      destruct (fold_free_id f cm (fget s f) s HFb HFa Hcm) as [A1 [A2 [A3 [A4 [A5 [A6 [A7 A8]]]]]]].
      eapply G_freeall; eauto.
    + discriminate.
  - (* ClearFam *)
    destruct (afget a f) eqn:Ef; try discriminate; inv_some;
      (eexists; split; [left; reflexivity|]; cbn; apply G_clearfam; [exact HG|congruence]).
  - (* Drain *)
    destruct (N.eqb_spec src dst) as [E|E]; [discriminate|].
    destruct (afget a src) eqn:Es.
    + inv_some. rewrite (fam_empty a s src HG Es). exists a. split; [left; reflexivity|exact HG].
    + destruct (afget a dst) eqn:Ed; try discriminate; inv_some;
      (destruct (fget s src) as [|i rest] eqn:Est;
       [ eexists; split; [left; reflexivity|]; cbn; apply G_refine_empty; [|exact Est];
         first [ apply G_own_of_empty; [exact HG|exact Ed] | apply G_afset_same; [exact HG|exact Ed] ]
       | eexists; split; [left; reflexivity|]; cbn [fst snd]; rewrite <- Est; apply G_drain; [exact HG|exact E|exact Es|congruence] ]).
    + discriminate.
  - (* Return *)
    inv_some. eexists. split; [left; reflexivity|]. cbn. apply G_add_ev. apply G_status. exact HG.
  - (* Call *)
    destruct (aexec fuel canfail p (astset a true)) as [L1|] eqn:E1; [|discriminate]. inv_some.
    assert (HG' : G (astset a true) (add_ev (upd_status s true) (EvCall name))) by (apply G_add_ev; apply G_status; exact HG).
    destruct (IHp _ L1 _ E1 HG') as [a1 [A B]].
    destruct (run o p (add_ev (upd_status s true) (EvCall name))) as [s1 r]. cbn in *.
    exists a1. split; [|exact B]. apply in_map_iff. exists (a1, r). split; [reflexivity|exact A].
  - (* IfErr *)
    rewrite <- (g_status a s HG). destruct (astatus a); [exact (IHp2 a L s HA HG)|exact (IHp1 a L s HA HG)].
  - (* Forget *)
    inv_some. eexists. split; [left; reflexivity|].
    destruct HG as [H1 H2 H3 H4 H5 H6 H7 H8 H9 H10 H11 H12 H13]. constructor; simp_acc; try assumption; reflexivity.
  - (* Star *)
    destruct (explore fuel (aexec fuel canfail p) [a] [a]) as [St0|] eqn:E0; [|discriminate].
    destruct (star_fix 1 (aexec fuel canfail p) St0) as [[St R]|] eqn:E1; [|discriminate]. inv_some.
    destruct (star_fix_spec _ _ _ _ _ E1) as [Hin Hc].
    assert (Ha : In a St) by (apply Hin; apply (explore_incl _ _ _ _ _ E0); left; reflexivity).
    pose proof (G_upd_nstar a s (S (nstar s)) HG) as HG'.
    destruct (iter_sound (aexec fuel canfail p) (run o p) St R IHp Hc (reps o (nstar s)) a _ Ha HG') as [a1 [A B]].
    exists a1. split; [|exact A].
    destruct (snd (iter (reps o (nstar s)) (run o p) (upd_nstar s (S (nstar s))))).
    + apply in_or_app. right. exact B.
    + apply in_or_app. left. apply in_map_iff. exists a1. split; [reflexivity|exact B].
Qed.

(* ------------------------------------------------------------------ consequences used by the instance theorems *)
Lemma G_clean_live : forall a s, G a s -> aclean a = true -> live s = [].
Proof.
  intros a s HG Hc. unfold aclean in Hc. apply andb_true_iff in Hc. destruct Hc as [C1 C2].
  destruct (live s) as [|i L] eqn:E; [reflexivity|]. exfalso.
  destruct (g_cover a s HG i) as [[l [A B]]|[f [A B]]]; [rewrite E; left; reflexivity| |].
  - pose proof (forallb_get aval aval_clean ANull (aslots a) eq_refl C1 l) as H. unfold aget in A. rewrite A in H. discriminate.
  - pose proof (forallb_get fval fval_clean FEmpty (afams a) eq_refl C2 f) as H. unfold afget in A. rewrite A in H. discriminate.
Qed.

Theorem acheck_sound : forall fuel P p a s o, acheck fuel P p a = true -> G a s ->
  exists a', G a' (fst (run o p s)) /\ P a' = true.
Proof.
  intros fuel P p a s o Hc HG. unfold acheck, all_leaves in Hc.
  destruct (aexec fuel true p a) as [L|] eqn:E; [|discriminate].
  destruct (aexec_sound fuel true o (fun H => False_ind _ (Bool.diff_true_false H)) p a L s E HG) as [a' [A B]].
  exists a'. split; [exact B|]. rewrite forallb_forall in Hc. exact (Hc _ A).
Qed.

(* no double free, no use of a dead/NULL pointer, no block handed to the wrong deallocator - for every oracle *)
Theorem run_no_error : forall fuel p, acheck fuel (fun _ => true) p ainit = true ->
  forall o, errs (fst (run o p init_state)) = [].
Proof.
  intros fuel p H o. destruct (acheck_sound fuel _ p ainit init_state o H G_init) as [a' [A _]]. exact (g_errs _ _ A).
Qed.

(* ... and nothing stays allocated *)
Theorem run_no_leak : forall fuel p, acheck fuel aclean p ainit = true ->
  forall o, live (fst (run o p init_state)) = [] /\ errs (fst (run o p init_state)) = [].
Proof.
  intros fuel p H o. destruct (acheck_sound fuel _ p ainit init_state o H G_init) as [a' [A B]].
  split; [exact (G_clean_live _ _ A B)|exact (g_errs _ _ A)].
Qed.

(* the status is an error exactly when some allocation failed *)
Theorem run_error_iff_failure : forall fuel p, acheck fuel aerr_iff_fail p ainit = true ->
  forall o, status (fst (run o p init_state)) = false <-> 0 < nfail (fst (run o p init_state)).
Proof.
  intros fuel p H o. destruct (acheck_sound fuel _ p ainit init_state o H G_init) as [a' [A B]].
  unfold aerr_iff_fail in B. apply eqb_prop in B. rewrite <- (g_status _ _ A). rewrite B, (g_failed _ _ A).
  destruct (0 <? nfail (fst (run o p init_state))) eqn:E; cbn.
  - apply Nat.ltb_lt in E. tauto.
  - apply Nat.ltb_ge in E. split; [discriminate|lia].
Qed.

(* abstraction of a concrete state, slot by slot *)
Definition abs_slot (s : state) (l : lbl) : aval :=
  match sget s l with None => ANull | Some i => if mem_nat i (live s) then AOwn else ADang end.
Lemma G_abs_slot : forall a s l, G a s -> abs_slot s l = aget a l.
Proof.
  intros a s l HG. unfold abs_slot. pose proof (g_slot a s HG l) as H. destruct (aget a l); cbn in H.
  - rewrite H. reflexivity.
  - destruct H as [i [A B]]. rewrite A. rewrite (proj2 (mem_nat_In i (live s)) B). reflexivity.
  - destruct H as [i [A B]]. rewrite A. rewrite (proj2 (mem_nat_false i (live s)) B). reflexivity.
Qed.

(* after ANY failure pattern in [first], running [again] with memory available ends in a state described by P *)
Theorem run_reusable : forall fuel first again P, areusable fuel first again ainit P = true ->
  forall o1 o2, (forall k, fails o2 k = false) ->
  exists a', G a' (fst (run o2 again (fst (run o1 first init_state)))) /\ P a' = true.
Proof.
  intros fuel first again P H o1 o2 Hnf. unfold areusable in H.
  destruct (aexec fuel true first ainit) as [L|] eqn:E; [|discriminate].
  destruct (aexec_sound fuel true o1 (fun H => False_ind _ (Bool.diff_true_false H)) first ainit L init_state E G_init) as [a1 [A B]].
  rewrite forallb_forall in H. specialize (H _ A). cbn in H. unfold all_leaves in H.
  destruct (aexec fuel false again a1) as [L2|] eqn:E2; [|discriminate].
  destruct (aexec_sound fuel false o2 (fun _ => Hnf) again a1 L2 _ E2 B) as [a2 [C D]].
  rewrite forallb_forall in H. specialize (H _ C). cbn in H. exists a2. split; assumption.
Qed.

(* closed sets of abstract states *)
Theorem closed_with_sound : forall fuel St P p, closed_with fuel St P p = true ->
  forall a s o, In a St -> G a s -> exists a', In a' St /\ P a' = true /\ G a' (fst (run o p s)).
Proof.
  intros fuel St P p H a s o Ha HG. unfold closed_with in H. rewrite forallb_forall in H. specialize (H a Ha).
  unfold all_leaves in H. destruct (aexec fuel true p a) as [L|] eqn:E; [|discriminate].
  destruct (aexec_sound fuel true o (fun H => False_ind _ (Bool.diff_true_false H)) p a L s E HG) as [a' [A B]].
  rewrite forallb_forall in H. specialize (H _ A). cbn in H. apply andb_true_iff in H. destruct H as [H1 H2].
  exists a'. split; [apply amem_In; exact H1|]. split; assumption.
Qed.
Theorem closed_under_sound : forall fuel St p, closed_under fuel St p = true ->
  forall a s o, In a St -> G a s -> exists a', In a' St /\ G a' (fst (run o p s)).
Proof.
  intros fuel St p H a s o Ha HG. unfold closed_under in H. rewrite forallb_forall in H. specialize (H a Ha).
  unfold all_leaves in H. destruct (aexec fuel true p a) as [L|] eqn:E; [|discriminate].
  destruct (aexec_sound fuel true o (fun H => False_ind _ (Bool.diff_true_false H)) p a L s E HG) as [a' [A B]].
  rewrite forallb_forall in H. specialize (H _ A). cbn in H. exists a'. split; [apply amem_In; exact H|exact B].
Qed.
