(* C14 - proofs about the streaming decoder's buffer budget (DBuffers.v). *)
From Coq Require Import NArith ZArith List Bool Lia.
From ZV.Gen Require Import Gen_C14.
From ZV.Mem Require Import DBuffers.
Import ListNotations.
Local Open Scope N_scope.

Lemma gen_decoder_consts :
  c_ZSTD_BLOCKSIZE_MAX = 131072 /\ c_WILDCOPY_OVERLENGTH = 32 /\ 2 ^ c_ZSTD_WINDOWLOG_ABSOLUTEMIN = 1024 /\
  sizeof_ptr = 8 /\ 0 < c_ZSTD_WORKSPACETOOLARGE_FACTOR /\ 0 < c_ZSTD_WORKSPACETOOLARGE_MAXDURATION.
Proof. vm_compute. repeat split; reflexivity. Qed.

(* closed form of the budget *)
Lemma dbudget_eq W : W < 2 ^ 62 ->
  dbudget W = N.min W c_ZSTD_BLOCKSIZE_MAX + (W + N.min W c_ZSTD_BLOCKSIZE_MAX * 2 + c_WILDCOPY_OVERLENGTH * 2).
Proof.
  intros HW. unfold dbudget, estimateDStreamSize, decodingBufferSize_min, decodingBufferSize_internal, D_UNKNOWN.
  destruct gen_decoder_consts as (B & O & _). rewrite B, O.
  change (2 ^ 62) with 4611686018427387904 in HW. lia.
Qed.

Lemma dbudget_mono W1 W2 : W1 <= W2 -> dbudget W1 <= dbudget W2.
Proof.
  intros H. unfold dbudget, estimateDStreamSize, decodingBufferSize_min, decodingBufferSize_internal, D_UNKNOWN.
  destruct gen_decoder_consts as (B & O & _). rewrite B, O. lia.
Qed.

Lemma clamped_ge w : 1024 <= clampedWindow w /\ w <= clampedWindow w.
Proof. unfold clampedWindow. destruct gen_decoder_consts as (_ & _ & A & _). rewrite A. lia. Qed.

(* the need of one frame is within the budget of its own (clamped) window *)
Lemma need_le_budget st w fcs : clampedWindow w < 2 ^ 62 ->
  needIn st w + needOut st w fcs <= dbudget (clampedWindow w).
Proof.
  intros HW. rewrite dbudget_eq by exact HW.
  destruct (clamped_ge w) as [C1 C2].
  unfold needIn, needOut, decodingBufferSize_internal.
  destruct gen_decoder_consts as (B & O & _). rewrite B, O.
  set (cw := clampedWindow w) in *.
  destruct (maxBlockSizeParam st =? 0), (outBuffered st); lia.
Qed.

Definition bufs (st : dstate) : N := inBuffSize st + outBuffSize st.

(* dstream_budget, one header *)
Lemma load_header_facts st w fcs :
  match dstream_load_header st w fcs with
  | DsErrWindow => maxWindowSize st < clampedWindow w
  | DsErrMem => staticSize st <> 0 /\ staticSize st - sizeof_ZSTD_DCtx < needIn st w + needOut st w fcs
  | DsOk st' al =>
      clampedWindow w <= maxWindowSize st /\
      needIn st w <= inBuffSize st' /\ needOut st w fcs <= outBuffSize st' /\
      maxWindowSize st' = maxWindowSize st /\ staticSize st' = staticSize st /\
      maxBlockSizeParam st' = maxBlockSizeParam st /\ outBuffered st' = outBuffered st /\
      (bufs st' = bufs st \/ bufs st' = needIn st w + needOut st w fcs) /\
      (staticSize st <> 0 -> al = None /\ (bufs st' = bufs st \/ bufs st' <= staticSize st - sizeof_ZSTD_DCtx)) /\
      (staticSize st = 0 ->
         match al with
         | Some n => n = needIn st w + needOut st w fcs /\ live st' = n /\ bufs st' = n
         | None => live st' = live st /\ bufs st' = bufs st
         end)
  end.
Proof.
  unfold dstream_load_header, bufs.
  destruct (N.ltb_spec (maxWindowSize st) (clampedWindow w)) as [Hw | Hw]; [ exact Hw | ].
  set (nIn := needIn st w). set (nOut := needOut st w fcs).
  destruct ((inBuffSize st <? nIn) || (outBuffSize st <? nOut)) eqn:Esmall;
  destruct (c_ZSTD_WORKSPACETOOLARGE_MAXDURATION <=?
            (if (nIn + nOut) * c_ZSTD_WORKSPACETOOLARGE_FACTOR <=? inBuffSize st + outBuffSize st
             then oversizedDuration st + 1 else 0)) eqn:Elarge; cbn [orb].
  1-3: destruct (N.eqb_spec (staticSize st) 0) as [Es | Es]; cbn [negb];
       [ cbn [inBuffSize outBuffSize maxWindowSize staticSize maxBlockSizeParam outBuffered live];
         repeat split; try lia; try (right; reflexivity); try (intros X; congruence)
       | destruct (N.ltb_spec (staticSize st - sizeof_ZSTD_DCtx) (nIn + nOut));
         [ split; assumption
         | cbn [inBuffSize outBuffSize maxWindowSize staticSize maxBlockSizeParam outBuffered live];
           repeat split; try lia; try (right; reflexivity); try (right; lia); try (intros X; congruence) ] ].
  (* neither too small nor oversized for too long: buffers kept *)
  apply orb_false_iff in Esmall. destruct Esmall as [E1 E2]. apply N.ltb_ge in E1. apply N.ltb_ge in E2.
  cbn [inBuffSize outBuffSize maxWindowSize staticSize maxBlockSizeParam outBuffered live].
  repeat split; try lia; try (left; reflexivity); try (intros X; split; [ reflexivity | left; reflexivity ]).
Qed.

(* ------------------------------------------------------------------ *)
(* final statements *)

(* the window gate: a frame whose (clamped) window exceeds the limit is refused with windowTooLarge - the result
   carries no allocation and no new state - and only such frames are refused for their window *)
Lemma dstream_window_gate_l :
  forall st w fcs,
    (maxWindowSize st < clampedWindow w <-> dstream_load_header st w fcs = DsErrWindow).
Proof.
  intros. pose proof (load_header_facts st w fcs) as H. split.
  - intros Hlt. unfold dstream_load_header. destruct (N.ltb_spec (maxWindowSize st) (clampedWindow w)); [ reflexivity | lia ].
  - intros E. rewrite E in H. exact H.
Qed.

(* the budget: whatever the history left in the context, after an accepted header the buffers cover the frame's
   need, a (re)allocation is exactly the need, and need <= budget(window) <= budget(limit) *)
Lemma dstream_budget_l :
  forall st w fcs st' al,
    maxWindowSize st < 2 ^ 62 ->
    dstream_load_header st w fcs = DsOk st' al ->
    needIn st w <= inBuffSize st' /\ needOut st w fcs <= outBuffSize st' /\
    needIn st w + needOut st w fcs <= dbudget (clampedWindow w) /\
    dbudget (clampedWindow w) <= dbudget (maxWindowSize st) /\
    (forall n, al = Some n -> n = needIn st w + needOut st w fcs) /\
    (bufs st <= dbudget (maxWindowSize st) -> bufs st' <= dbudget (maxWindowSize st')) /\
    (staticSize st = 0 -> live st = bufs st -> live st' = bufs st').
Proof.
  intros st w fcs st' al HW E. pose proof (load_header_facts st w fcs) as H. rewrite E in H.
  destruct H as (Hc & Hi & Ho & Mw & Ms & _ & _ & Hb & Hst & Hheap).
  assert (Hn : needIn st w + needOut st w fcs <= dbudget (clampedWindow w)) by (apply need_le_budget; lia).
  pose proof (dbudget_mono _ _ Hc) as Hm.
  repeat split; try assumption.
  - intros n ->. destruct (N.eqb_spec (staticSize st) 0) as [Z | NZ].
    + specialize (Hheap Z). cbn in Hheap. tauto.
    + destruct (Hst NZ) as [X _]. discriminate.
  - intros Hold. rewrite Mw. destruct Hb as [-> | ->]; lia.
  - intros Z Hl. specialize (Hheap Z). destruct al; [ destruct Hheap as (_ & A & B); congruence | destruct Hheap; congruence ].
Qed.

(* static decoder: with a block of ZSTD_estimateDStreamSize(W0) bytes every frame whose window is <= W0 (and <= the
   limit) gets its buffers; memory_allocation is returned exactly when the need exceeds what is left after the context *)
Lemma dstream_static_fits_l :
  forall st w fcs W0,
    W0 < 2 ^ 62 -> clampedWindow w <= W0 ->
    staticSize st = estimateDStreamSize W0 ->
    dstream_load_header st w fcs <> DsErrMem.
Proof.
  intros st w fcs W0 HW Hc Hs E. pose proof (load_header_facts st w fcs) as H. rewrite E in H.
  destruct H as [_ H]. rewrite Hs in H. fold (dbudget W0) in H.
  pose proof (need_le_budget st w fcs ltac:(lia)). pose proof (dbudget_mono _ _ Hc). lia.
Qed.

Lemma dstream_static_iff_l :
  forall st w fcs,
    staticSize st <> 0 -> clampedWindow w <= maxWindowSize st ->
    (dstream_load_header st w fcs = DsErrMem ->
       staticSize st - sizeof_ZSTD_DCtx < needIn st w + needOut st w fcs) /\
    (needIn st w + needOut st w fcs <= staticSize st - sizeof_ZSTD_DCtx ->
       exists st', dstream_load_header st w fcs = DsOk st' None).
Proof.
  intros st w fcs Hs Hc. pose proof (load_header_facts st w fcs) as H. split.
  - intros E. rewrite E in H. tauto.
  - intros Hfit. destruct (dstream_load_header st w fcs) as [ | | st' al ] eqn:E.
    + lia.
    + destruct H; lia.
    + destruct H as (_ & _ & _ & _ & _ & _ & _ & _ & Hst & _). destruct (Hst Hs) as [-> _]. exists st'. reflexivity.
Qed.

(* a whole history with a fixed limit: the held buffers never exceed the budget of the limit, and in heap mode the
   bytes malloc'ed for buffers are exactly what ZSTD_sizeof_DCtx adds to sizeof(ZSTD_DCtx) *)
Lemma dstream_history_budget_l :
  forall frames st,
    maxWindowSize st < 2 ^ 62 ->
    bufs st <= dbudget (maxWindowSize st) ->
    let st' := dstream_history st frames in
    bufs st' <= dbudget (maxWindowSize st) /\ maxWindowSize st' = maxWindowSize st /\
    (staticSize st = 0 -> live st = bufs st -> sizeof_DCtx_model st' = sizeof_ZSTD_DCtx + live st').
Proof.
  induction frames as [ | [w fcs] rest IH]; intros st HW Hb; cbn [dstream_history].
  - split; [ exact Hb | split; [ reflexivity | ] ]. intros _ Hl. unfold sizeof_DCtx_model, bufs in *. lia.
  - destruct (dstream_load_header st w fcs) as [ | | st1 al ] eqn:E; try (apply IH; assumption).
    pose proof (load_header_facts st w fcs) as F. rewrite E in F. destruct F as (_ & _ & _ & Mw & Ms & _).
    destruct (dstream_budget_l st w fcs st1 al HW E) as (_ & _ & _ & _ & _ & Hb1 & Hl1).
    specialize (IH st1 ltac:(rewrite Mw; exact HW) (Hb1 Hb)). cbv zeta in IH. rewrite Mw in IH.
    destruct IH as (A & B & C). split; [ exact A | split; [ exact B | ] ].
    intros Z Hl. apply C; [ rewrite Ms; exact Z | exact (Hl1 Z Hl) ].
Qed.
