(* C13 - instance theorems: the transcribed zstd constructors / destructors / (re)allocation points
   (AllocInstances.v), driven by a well-behaved caller (AllocClient.v), for EVERY list of API operations with
   arbitrary parameters, EVERY oracle (failing allocation indexes, outcomes of the data-dependent tests, repetition
   counts) and EVERY value of the size constants.  The finite part (a set of abstract ownership states closed under
   every operation shape) is checked by vm_compute with the proved-sound analysis [aexecS]. *)
From Coq Require Import NArith List Bool Arith Lia.
From ZV.Mem Require Import AllocDsl AllocInstances AllocProofs.
From ZV.Mem Require Import AllocSet AllocSetProofs AllocClient AllocHistory.
Import ListNotations.
Local Open Scope N_scope.

Definition F := 64%nat.      (* fuel of the closure computations *)
Definition zs0 : sizes := mkSizes 0 0 0 0 0 0 0 0 0 0 1 0 0 0 0 0 0 0.
Definition unopt (x : option (list astate)) := match x with Some l => l | None => [] end.

(* destruct every test on the (symbolic) parameters, then let the analysis run *)
Ltac split_tests :=
  repeat match goal with
  | |- context [if ?c then _ else _] =>
      match c with
      | context [?v] => is_var v; destruct c eqn:?
      end
  end.
Ltac run_analysis := vm_compute; reflexivity.

(* ------------------------------------------------------------------ thread pool (pool.c) *)
Definition St_pool : list astate := Eval vm_compute in unopt (reachSL F (map (client zs0) pool_reps) ainit).

Lemma pool_closed : forall zs op, pool_op op = true -> closedSF F St_pool aerr_iff_fail (client zs op) = true.
Proof.
  intros zs op H. destruct op; try discriminate H; cbn [pool_op] in H.
  - unfold client, api, op_prog, pool_create. split_tests; try discriminate H. all: run_analysis.
  - unfold client, api, op_prog, pool_resize. split_tests; try discriminate H. all: run_analysis.
  - run_analysis.
Qed.
Lemma pool_teardown : forall zs, all_res aclean (aexecS F true (teardown_pool zs) St_pool) = true.
Proof. intros zs. run_analysis. Qed.
Lemma pool_init : In ainit St_pool.
Proof. left. reflexivity. Qed.

Theorem pool_any_history_no_leak : forall zs ops, forallb pool_op ops = true -> forall o,
  let s := fst (run o (session zs ops ;; teardown_pool zs) init_state) in live s = [] /\ errs s = [].
Proof. intros zs ops H o. exact (history_then_teardown zs F pool_op St_pool _ _ pool_init (pool_closed zs) (pool_teardown zs) ops H o). Qed.

Theorem pool_any_history_error_iff_failure : forall zs ops op, forallb pool_op ops = true -> pool_op op = true -> forall o,
  let s := fst (run o (session zs ops ;; client zs op) init_state) in status s = false <-> (0 < nfail s)%nat.
Proof.
  intros zs ops op H1 H2 o. cbn zeta.
  destruct (history_last zs F pool_op St_pool _ (pool_closed zs) ops op H1 H2 o ainit init_state pool_init G_init) as [a [A B]].
  exact (status_of_G _ _ B A).
Qed.

(* ------------------------------------------------------------------ ZSTDMT_CCtx alone (zstdmt_compress.c) *)
Definition sizes_ok (zs : sizes) : Prop := z_ZSTDMT_NBWORKERS_MAX zs <> 0.

Definition St_mtctx : list astate := Eval vm_compute in unopt (reachSL F (map (client zs0) mtctx_reps) ainit).

Lemma clampw_nz : forall zs w, sizes_ok zs -> (w =? 0) = false -> (clampw zs w =? 0) = false.
Proof.
  intros zs w Hz Hw. apply N.eqb_neq in Hw. apply N.eqb_neq. unfold clampw. unfold sizes_ok in Hz. lia.
Qed.

Lemma mtctx_closed : forall zs, sizes_ok zs -> forall op, mtctx_op op = true -> closedSF F St_mtctx aerr_iff_fail (client zs op) = true.
Proof.
  intros zs Hz op H. destruct op; try discriminate H; cbn [mtctx_op] in H.
  - apply negb_true_iff in H. pose proof (clampw_nz zs w Hz H) as Hc.
    unfold client, api, op_prog, mtctx_create, pool_create. rewrite H, Hc. run_analysis.
  - run_analysis.
  - apply negb_true_iff in H.
    unfold client, api, op_prog, mt_resize_state, mt_resize, pool_resize. rewrite H. split_tests; run_analysis.
Qed.
Lemma mtctx_teardown : forall zs, all_res aclean (aexecS F true (teardown_mtctx zs) St_mtctx) = true.
Proof. intros zs. run_analysis. Qed.
Lemma mtctx_init : In ainit St_mtctx.
Proof. left. reflexivity. Qed.

Theorem mtctx_any_history_no_leak : forall zs, sizes_ok zs -> forall ops, forallb mtctx_op ops = true -> forall o,
  let s := fst (run o (session zs ops ;; teardown_mtctx zs) init_state) in live s = [] /\ errs s = [].
Proof. intros zs Hz ops H o. exact (history_then_teardown zs F mtctx_op St_mtctx _ _ mtctx_init (mtctx_closed zs Hz) (mtctx_teardown zs) ops H o). Qed.

Theorem mtctx_any_history_error_iff_failure : forall zs, sizes_ok zs -> forall ops op, forallb mtctx_op ops = true -> mtctx_op op = true -> forall o,
  let s := fst (run o (session zs ops ;; client zs op) init_state) in status s = false <-> (0 < nfail s)%nat.
Proof.
  intros zs Hz ops op H1 H2 o. cbn zeta.
  destruct (history_last zs F mtctx_op St_mtctx _ (mtctx_closed zs Hz) ops op H1 H2 o ainit init_state mtctx_init G_init) as [a [A B]].
  exact (status_of_G _ _ B A).
Qed.

(* ------------------------------------------------------------------ stand-alone CDicts / DDicts *)
Definition St_dict : list astate := Eval vm_compute in unopt (reachSL F (map (client zs0) dict_reps) ainit).

Lemma lt2_cases : forall k, (k <? 2) = true -> k = 0 \/ k = 1.
Proof. intros k H. apply N.ltb_lt in H. lia. Qed.

Lemma dict_closed : forall zs op, dict_op op = true -> closedSF F St_dict aerr_iff_fail (client zs op) = true.
Proof.
  intros zs op H. destruct op; try discriminate H; cbn [dict_op] in H; apply lt2_cases in H; destruct H; subst k;
    unfold client, api, op_prog, cdict_create, ddict_create; split_tests; run_analysis.
Qed.
Lemma dict_teardown : forall zs, all_res aclean (aexecS F true (teardown_dicts zs) St_dict) = true.
Proof. intros zs. run_analysis. Qed.
Lemma dict_init : In ainit St_dict.
Proof. left. reflexivity. Qed.

Theorem dict_any_history_no_leak : forall zs ops, forallb dict_op ops = true -> forall o,
  let s := fst (run o (session zs ops ;; teardown_dicts zs) init_state) in live s = [] /\ errs s = [].
Proof. intros zs ops H o. exact (history_then_teardown zs F dict_op St_dict _ _ dict_init (dict_closed zs) (dict_teardown zs) ops H o). Qed.

Theorem dict_any_history_error_iff_failure : forall zs ops op, forallb dict_op ops = true -> dict_op op = true -> forall o,
  let s := fst (run o (session zs ops ;; client zs op) init_state) in status s = false <-> (0 < nfail s)%nat.
Proof.
  intros zs ops op H1 H2 o. cbn zeta.
  destruct (history_last zs F dict_op St_dict _ (dict_closed zs) ops op H1 H2 o ainit init_state dict_init G_init) as [a [A B]].
  exact (status_of_G _ _ B A).
Qed.

(* ------------------------------------------------------------------ ZSTD_DCtx (zstd_decompress.c, zstd_ddict.c) *)
Definition St_dctx : list astate := Eval vm_compute in unopt (reachSL F (map (client zs0) dctx_reps) ainit).

Lemma dctx_closed : forall zs op, dctx_op op = true -> closedSF F St_dctx aerr_iff_fail (client zs op) = true.
Proof.
  intros zs op H. destruct op; try discriminate H;
    unfold client, api, op_prog, dctx_load_dict, ddict_create; split_tests; run_analysis.
Qed.
Lemma dctx_teardown : forall zs, all_res aclean (aexecS F true (teardown_dctx zs) St_dctx) = true.
Proof. intros zs. run_analysis. Qed.
Lemma dctx_init : In ainit St_dctx.
Proof. left. reflexivity. Qed.

Theorem dctx_any_history_no_leak : forall zs ops, forallb dctx_op ops = true -> forall o,
  let s := fst (run o (session zs ops ;; teardown_dctx zs) init_state) in live s = [] /\ errs s = [].
Proof. intros zs ops H o. exact (history_then_teardown zs F dctx_op St_dctx _ _ dctx_init (dctx_closed zs) (dctx_teardown zs) ops H o). Qed.

Theorem dctx_any_history_error_iff_failure : forall zs ops op, forallb dctx_op ops = true -> dctx_op op = true -> forall o,
  let s := fst (run o (session zs ops ;; client zs op) init_state) in status s = false <-> (0 < nfail s)%nat.
Proof.
  intros zs ops op H1 H2 o. cbn zeta.
  destruct (history_last zs F dctx_op St_dctx _ (dctx_closed zs) ops op H1 H2 o ainit init_state dctx_init G_init) as [a [A B]].
  exact (status_of_G _ _ B A).
Qed.

(* reusability: after ANY history with ANY failures, while the context is alive, streaming decompression (buffer
   (re)allocation included) and loading a dictionary succeed as soon as memory is available *)
Definition astatus_ok (a : astate) : bool := astatus a.
Lemma dctx_not_dang : forallb (fun a => match aget a D_dctx with ADang => false | _ => true end) St_dctx = true.
Proof. run_analysis. Qed.
Lemma dctx_recover : forall zs byRef, all_res astatus_ok (aexecS F false (client zs (ODLoadDict byRef 0) ;; Forget ;; client zs (ODStreamAny 0))
   (filter (fun a => match aget a D_dctx with AOwn => true | _ => false end) St_dctx)) = true.
Proof. intros zs []; run_analysis. Qed.

Theorem dctx_reusable_after_any_history : forall zs ops, forallb dctx_op ops = true ->
  forall o1 o2, (forall k, fails o2 k = false) -> forall byRef,
  let s1 := fst (run o1 (session zs ops) init_state) in
  sget s1 D_dctx <> None ->
  let s2 := fst (run o2 (client zs (ODLoadDict byRef 0) ;; Forget ;; client zs (ODStreamAny 0)) s1) in
  status s2 = true /\ errs s2 = [].
Proof.
  intros zs ops H o1 o2 Hnf byRef. cbn zeta. intros Hl.
  destruct (history_then_recover zs F dctx_op St_dctx _ astatus_ok D_dctx _ dctx_init (dctx_closed zs) dctx_not_dang (dctx_recover zs byRef) ops H o1 o2 Hnf Hl) as [a [A B]].
  split; [rewrite <- (g_status _ _ B); exact A|exact (g_errs _ _ B)].
Qed.

Lemma pool_not_dang : forallb (fun a => match aget a (P_ctx 10) with ADang => false | _ => true end) St_pool = true.
Proof. run_analysis. Qed.
Lemma pool_recover : forall zs cap n, (n =? 0) = false -> all_res astatus_ok (aexecS F false (client zs (OPoolResize cap n))
   (filter (fun a => match aget a (P_ctx 10) with AOwn => true | _ => false end) St_pool)) = true.
Proof. intros zs cap n Hn. unfold client, api, op_prog, pool_resize. rewrite Hn. split_tests; run_analysis. Qed.

Theorem pool_reusable_after_any_history : forall zs ops, forallb pool_op ops = true ->
  forall o1 o2, (forall k, fails o2 k = false) -> forall cap n, n <> 0 ->
  let s1 := fst (run o1 (session zs ops) init_state) in
  sget s1 (P_ctx 10) <> None ->
  let s2 := fst (run o2 (client zs (OPoolResize cap n)) s1) in
  status s2 = true /\ errs s2 = [].
Proof.
  intros zs ops H o1 o2 Hnf cap n Hn. cbn zeta. intros Hl. apply N.eqb_neq in Hn.
  destruct (history_then_recover zs F pool_op St_pool _ astatus_ok (P_ctx 10) _ pool_init (pool_closed zs) pool_not_dang (pool_recover zs cap n Hn) ops H o1 o2 Hnf Hl) as [a [A B]].
  split; [rewrite <- (g_status _ _ B); exact A|exact (g_errs _ _ B)].
Qed.
