(* C14 - model of lib/compress/zstd_cwksp.h : the workspace bump allocator.
   Addresses are absolute byte addresses in N.  No proofs in this file.

   Fidelity notes
   - [rz] is the redzone applied around every object / aligned / buffer reservation
     (ZSTD_CWKSP_ASAN_REDZONE_SIZE under ASAN poisoning, 0 otherwise); tables are never redzoned.
   - N subtraction saturates at 0 whereas C pointer arithmetic wraps: the two differ only when one
     request is larger than the absolute address of allocStart.  Every theorem that uses the model
     has requests bounded by the workspace size, which excludes that case.
   - the MSAN/ASAN poisoning calls and the memset of init-once memory are not modelled (no effect on
     the bump pointers). *)
From Coq Require Import NArith List Bool.
Import ListNotations.
Local Open Scope N_scope.

Inductive phase := PhObjects | PhInitOnce | PhAligned | PhBuffers.

Definition phase_rank (p : phase) : N :=
  match p with PhObjects => 0 | PhInitOnce => 1 | PhAligned => 2 | PhBuffers => 3 end.

Record cwksp := mkWs {
  ws_start : N;        (* workspace *)
  ws_end : N;          (* workspaceEnd *)
  objectEnd : N;
  tableEnd : N;
  tableValidEnd : N;
  allocStart : N;
  initOnceStart : N;
  allocFailed : bool;
  ph : phase;
  is_static : bool }.

Definition ALIGN : N := 64.   (* ZSTD_CWKSP_ALIGNMENT_BYTES; checked against Gen_C14 in the proofs *)

(* ZSTD_cwksp_align(size, align) = (size + align-1) & ~(align-1) for a power of two *)
Definition align_up (size a : N) : N := ((size + (a - 1)) / a) * a.

(* ZSTD_cwksp_alloc_size *)
Definition alloc_size (rz size : N) : N := if size =? 0 then 0 else size + 2 * rz.
(* ZSTD_cwksp_aligned64_alloc_size *)
Definition aligned64_alloc_size (rz size : N) : N := alloc_size rz (align_up size ALIGN).
(* ZSTD_cwksp_slack_space_required *)
Definition slack_space_required : N := ALIGN * 2.

(* ZSTD_cwksp_bytes_to_align_ptr *)
Definition bytes_to_align (ptr a : N) : N := (a - ptr mod a) mod a.

(* ZSTD_cwksp_initialAllocStart *)
Definition initialAllocStart (w : cwksp) : N := ws_end w - ws_end w mod ALIGN.

Definition set_alloc (w : cwksp) (as_ tve : N) : cwksp :=
  mkWs (ws_start w) (ws_end w) (objectEnd w) (tableEnd w) tve as_ (initOnceStart w) (allocFailed w) (ph w) (is_static w).
Definition set_failed (w : cwksp) : cwksp :=
  mkWs (ws_start w) (ws_end w) (objectEnd w) (tableEnd w) (tableValidEnd w) (allocStart w) (initOnceStart w) true (ph w) (is_static w).
Definition set_phase (w : cwksp) (p : phase) : cwksp :=
  mkWs (ws_start w) (ws_end w) (objectEnd w) (tableEnd w) (tableValidEnd w) (allocStart w) (initOnceStart w) (allocFailed w) p (is_static w).
Definition set_initOnce (w : cwksp) (x : N) : cwksp :=
  mkWs (ws_start w) (ws_end w) (objectEnd w) (tableEnd w) (tableValidEnd w) (allocStart w) x (allocFailed w) (ph w) (is_static w).
Definition set_tableEnd (w : cwksp) (x : N) : cwksp :=
  mkWs (ws_start w) (ws_end w) (objectEnd w) x (tableValidEnd w) (allocStart w) (initOnceStart w) (allocFailed w) (ph w) (is_static w).
Definition set_tableValidEnd (w : cwksp) (x : N) : cwksp :=
  mkWs (ws_start w) (ws_end w) (objectEnd w) (tableEnd w) x (allocStart w) (initOnceStart w) (allocFailed w) (ph w) (is_static w).

(* ZSTD_cwksp_reserve_internal_buffer_space: (new state, raw alloc address) *)
Definition reserve_internal_buffer_space (w : cwksp) (bytes : N) : cwksp * option N :=
  if allocStart w <? tableEnd w + bytes          (* alloc = allocStart - bytes < bottom = tableEnd *)
  then (set_failed w, None)
  else let alloc := allocStart w - bytes in
       (set_alloc w alloc (N.min alloc (tableValidEnd w)), Some alloc).

(* ZSTD_cwksp_internal_advance_phase: (new state, ok?) *)
Definition advance_phase (w : cwksp) (p : phase) : cwksp * bool :=
  if phase_rank (ph w) <? phase_rank p then
    if (phase_rank (ph w) <? 1) && (1 <=? phase_rank p) then
      (* objects -> init once / tables: align the start of the tables on 64 bytes *)
      let w1 := set_initOnce (set_tableValidEnd w (objectEnd w)) (initialAllocStart w) in
      let oe := objectEnd w + bytes_to_align (objectEnd w) ALIGN in
      if ws_end w <? oe then (w1, false)     (* RETURN_ERROR memory_allocation, phase unchanged, allocFailed NOT set *)
      else (mkWs (ws_start w) (ws_end w) oe oe (N.max (objectEnd w) oe) (allocStart w) (initialAllocStart w)
                 (allocFailed w) p (is_static w), true)
    else (set_phase w p, true)
  else (w, true).

(* ZSTD_cwksp_reserve_internal: returns the user pointer (past the leading redzone) *)
Definition reserve_internal (rz : N) (w : cwksp) (bytes : N) (p : phase) : cwksp * option N :=
  let '(w1, ok) := advance_phase w p in
  if negb ok || (bytes =? 0) then (w1, None)
  else let '(w2, r) := reserve_internal_buffer_space w1 (bytes + 2 * rz) in
       (w2, match r with Some a => Some (a + rz) | None => None end).

Definition reserve_buffer (rz : N) (w : cwksp) (bytes : N) := reserve_internal rz w bytes PhBuffers.

Definition reserve_aligned (rz : N) (w : cwksp) (bytes : N) :=
  reserve_internal rz w (align_up bytes ALIGN) PhAligned.

Definition reserve_aligned_init_once (rz : N) (w : cwksp) (bytes : N) : cwksp * option N :=
  let '(w1, r) := reserve_internal rz w (align_up bytes ALIGN) PhInitOnce in
  match r with
  | Some p => if p <? initOnceStart w1 then (set_initOnce w1 p, r) else (w1, r)
  | None => (w1, r)
  end.

(* ZSTD_cwksp_reserve_table *)
Definition reserve_table (w : cwksp) (bytes : N) : cwksp * option N :=
  let '(w1, ok) := if phase_rank (ph w) <? 1 then advance_phase w PhInitOnce else (w, true) in
  if negb ok then (w1, None)
  else let alloc := tableEnd w1 in
       let end_ := alloc + bytes in
       if allocStart w1 <? end_ then (set_failed w1, None)
       else (set_tableEnd w1 end_, Some alloc).

(* ZSTD_cwksp_reserve_object *)
Definition reserve_object (rz : N) (w : cwksp) (bytes : N) : cwksp * option N :=
  let rounded := align_up bytes 8 in
  let alloc := objectEnd w in
  let end_ := alloc + rounded + 2 * rz in
  if negb (phase_rank (ph w) =? 0) || (ws_end w <? end_) then (set_failed w, None)
  else (mkWs (ws_start w) (ws_end w) end_ end_ end_ (allocStart w) (initOnceStart w) (allocFailed w) (ph w) (is_static w),
        Some (alloc + rz)).

Definition mark_tables_dirty (w : cwksp) : cwksp := set_tableValidEnd w (objectEnd w).
Definition mark_tables_clean (w : cwksp) : cwksp :=
  if tableValidEnd w <? tableEnd w then set_tableValidEnd w (tableEnd w) else w.
Definition clear_tables (w : cwksp) : cwksp := set_tableEnd w (objectEnd w).

(* ZSTD_cwksp_clear *)
Definition clear (w : cwksp) : cwksp :=
  mkWs (ws_start w) (ws_end w) (objectEnd w) (objectEnd w) (tableValidEnd w) (initialAllocStart w) (initOnceStart w)
       false (if 1 <? phase_rank (ph w) then PhInitOnce else ph w) (is_static w).

(* ZSTD_cwksp_init *)
Definition init (start size : N) (static : bool) : cwksp :=
  let w0 := mkWs start (start + size) start start start start start false PhObjects static in
  clear (set_initOnce w0 (initialAllocStart w0)).

Definition cwksp_sizeof (w : cwksp) : N := ws_end w - ws_start w.
Definition cwksp_used (w : cwksp) : N := (tableEnd w - ws_start w) + (ws_end w - allocStart w).
Definition available_space (w : cwksp) : N := allocStart w - tableEnd w.
(* ZSTD_cwksp_available_space computes (size_t)(allocStart - tableEnd): when objects were reserved past the
   rounded-down allocStart (workspace smaller than the objects + 64) the unsigned difference wraps *)
Definition available_space_c (w : cwksp) : N :=
  if tableEnd w <=? allocStart w then allocStart w - tableEnd w else 2 ^ 64 - (tableEnd w - allocStart w).
Definition check_available (w : cwksp) (n : N) : bool := n <=? available_space_c w.

(* ------------------------------------------------------------------ *)
(* operation lists *)

Inductive op :=
| OObject (n : N) | OTable (n : N) | OInitOnce (n : N) | OAligned (n : N) | OBuffer (n : N)
| OClear | OClearTables | OMarkDirty | OCleanTables.

(* a log entry: (returned pointer or NULL, usable bytes requested) *)
Definition entry := (option N * N)%type.

Definition step (rz : N) (w : cwksp) (o : op) : cwksp * list entry :=
  match o with
  | OObject n => let '(w', r) := reserve_object rz w n in (w', [(r, n)])
  | OTable n => let '(w', r) := reserve_table w n in (w', [(r, n)])
  | OInitOnce n => let '(w', r) := reserve_aligned_init_once rz w n in (w', [(r, align_up n ALIGN)])
  | OAligned n => let '(w', r) := reserve_aligned rz w n in (w', [(r, align_up n ALIGN)])
  | OBuffer n => let '(w', r) := reserve_buffer rz w n in (w', [(r, n)])
  | OClear => (clear w, [])
  | OClearTables => (clear_tables w, [])
  | OMarkDirty => (mark_tables_dirty w, [])
  | OCleanTables => (mark_tables_clean w, [])
  end.

Fixpoint run (rz : N) (w : cwksp) (ops : list op) : cwksp * list entry :=
  match ops with
  | [] => (w, [])
  | o :: rest => let '(w1, l1) := step rz w o in
                 let '(w2, l2) := run rz w1 rest in (w2, l1 ++ l2)
  end.

(* bytes of workspace one operation consumes when it succeeds (not counting the one-off table alignment pad) *)
Definition op_cost (rz : N) (o : op) : N :=
  match o with
  | OObject n => align_up n 8 + 2 * rz
  | OTable n => n
  | OInitOnce n | OAligned n => alloc_size rz (align_up n ALIGN)
  | OBuffer n => alloc_size rz n
  | _ => 0
  end.

Fixpoint ops_cost (rz : N) (ops : list op) : N :=
  match ops with [] => 0 | o :: r => op_cost rz o + ops_cost rz r end.

Definition is_object (o : op) : bool := match o with OObject _ => true | _ => false end.
Definition is_reserve (o : op) : bool :=
  match o with OObject _ | OTable _ | OInitOnce _ | OAligned _ | OBuffer _ => true | _ => false end.

(* well-formed order: no object reservation once anything else was reserved (phase left PhObjects) *)
Fixpoint wf_ops (objects_allowed : bool) (ops : list op) : bool :=
  match ops with
  | [] => true
  | o :: r =>
    if is_object o then objects_allowed && wf_ops objects_allowed r
    else if is_reserve o then wf_ops false r
    else wf_ops objects_allowed r
  end.

(* an entry is fine: nothing requested, or a non-NULL pointer whose [n] bytes lie inside the workspace *)
Definition entry_ok (w : cwksp) (e : entry) : Prop :=
  snd e = 0 \/ exists p, fst e = Some p /\ ws_start w <= p /\ p + snd e <= ws_end w.
