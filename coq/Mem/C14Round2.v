(* C14 round 2 - proofs:
   (a) the level-based static CDict recipe of zstd.h is refuted (closed witness = known finding
       C14-cdict-level-estimate-vs-getcparams), and holds when the cParams are the ones the estimate assumed;
   (b) non-positive maximum levels: ZSTD_estimateCCtxSize(L) / ZSTD_estimateCStreamSize(L) with L <= 0 cover every
       level l <= L at every source size (round 1 proved L >= 1 only). *)
From Coq Require Import NArith ZArith List Bool Lia.
From ZV.Gen Require Import Gen_C14.
From ZV.Mem Require Import Cwksp CwkspProofs Estimate EstimateProofs LevelDefs LevelProofs CParamsProofs NegLevelProofs.
From ZV.Mem Require Import CDictLevel.
Import ListNotations.
Local Open Scope N_scope.
Ltac Zify.zify_post_hook ::= Z.to_euclidean_division_equations.

(* ------------------------------------------------------------------ *)
(* (a) static CDict from a level *)

(* dictionary of 1000 bytes, level 3: ZSTD_estimateCDictSize assumes a 513-byte source (windowLog 11, hashLog 12,
   chainLog 11), ZSTD_getCParams(3, 0, 1000) returns the unshrunk small-source row (14, 14, 15): the estimate is
   refused by ZSTD_initStaticCDict *)
Lemma cdict_level_recipe_refuted_l :
  estimateCDictSize 0 1000 3 < estimateCDictSize_advanced 0 1000 (getCParams_public 3 0 1000) false /\
  cdict_level_recipe 0 4096 1000 3 0 = InitNull /\
  (exists w l, cdict_level_recipe 0 4096 1000 3 513 = InitOk w l).
Proof. vm_compute. split; [ reflexivity | split; [ reflexivity | eauto ] ]. Qed.

(* ------------------------------------------------------------------ *)
(* (b) L <= 0 *)

Lemma adjust_tlen cp t s r :
  adjustCParams_internal (with_tlen cp t) s 0 CpmNoAttachDict r = with_tlen (adjustCParams_internal cp s 0 CpmNoAttachDict r) t.
Proof.
  unfold adjustCParams_internal, adjust_core, with_tlen. cbn [wlog clog hlog slog mml tlen strat].
  repeat match goal with |- context [ let '(_, _) := ?e in _ ] => destruct e end.
  cbn [wlog clog hlog slog mml tlen strat]. reflexivity.
Qed.

(* the estimators never read targetLength *)
Definition set_cp (p : cctxparams) (c : cparams) : cctxparams :=
  mkPP (p_level p) c (p_row p) (p_ldm p) (p_maxBlockSize p) (p_extSeq p) (p_inBuffered p) (p_outBuffered p)
       (p_srcSizeHint p) (p_nbWorkers p).

Lemma make_tlen cp t : makeCCtxParamsFromCParams (with_tlen cp t) = set_cp (makeCCtxParamsFromCParams cp) (with_tlen cp t).
Proof. destruct cp. reflexivity. Qed.
Lemma make_self cp : makeCCtxParamsFromCParams cp = set_cp (makeCCtxParamsFromCParams cp) cp.
Proof. reflexivity. Qed.
Lemma with_row_set_cp p c r : with_row (set_cp p c) r = set_cp (with_row p r) c.
Proof. reflexivity. Qed.

Lemma override_tlen base cp t :
  overrideCParams base (with_tlen cp t) = with_tlen (overrideCParams base cp) (override1 t (tlen base)).
Proof. reflexivity. Qed.

Lemma getFromPP_tlen p c t :
  exists t', getCParamsFromCCtxParams (set_cp p (with_tlen c t)) UNKNOWN 0 CpmNoAttachDict
             = with_tlen (getCParamsFromCCtxParams (set_cp p c) UNKNOWN 0 CpmNoAttachDict) t'.
Proof.
  unfold getCParamsFromCCtxParams, set_cp. cbn [p_srcSizeHint p_level p_ldm p_cp p_row].
  rewrite override_tlen. eexists. apply adjust_tlen.
Qed.

Lemma row_tlen m X t : resolveRowMatchFinderMode m (with_tlen X t) = resolveRowMatchFinderMode m X.
Proof. destruct X. reflexivity. Qed.
Lemma ldmest_tlen p c X t : resolveLdmParamsForEstimate (set_cp p c) (with_tlen X t) = resolveLdmParamsForEstimate p X.
Proof. destruct X. reflexivity. Qed.
Lemma ldmest_set p c X : resolveLdmParamsForEstimate (set_cp p c) X = resolveLdmParamsForEstimate p X.
Proof. reflexivity. Qed.
Lemma est_internal_tlen rz X t l st row bi bo pl ext m :
  estimate_internal rz (with_tlen X t) l st row bi bo pl ext m = estimate_internal rz X l st row bi bo pl ext m.
Proof. destruct X. reflexivity. Qed.

Lemma ccparams_est_tlen rz p c t :
  estimateCCtxSize_usingCCtxParams rz (set_cp p (with_tlen c t)) = estimateCCtxSize_usingCCtxParams rz (set_cp p c) /\
  estimateCStreamSize_usingCCtxParams rz (set_cp p (with_tlen c t)) = estimateCStreamSize_usingCCtxParams rz (set_cp p c).
Proof.
  unfold estimateCCtxSize_usingCCtxParams, estimateCStreamSize_usingCCtxParams.
  destruct (getFromPP_tlen p c t) as [t' ->].
  generalize (getCParamsFromCCtxParams (set_cp p c) UNKNOWN 0 CpmNoAttachDict) as X. intros X.
  rewrite !ldmest_tlen, !ldmest_set.
  change (p_row (set_cp p (with_tlen c t))) with (p_row p). change (p_row (set_cp p c)) with (p_row p).
  change (p_nbWorkers (set_cp p (with_tlen c t))) with (p_nbWorkers p). change (p_nbWorkers (set_cp p c)) with (p_nbWorkers p).
  change (p_extSeq (set_cp p (with_tlen c t))) with (p_extSeq p). change (p_extSeq (set_cp p c)) with (p_extSeq p).
  change (p_maxBlockSize (set_cp p (with_tlen c t))) with (p_maxBlockSize p). change (p_maxBlockSize (set_cp p c)) with (p_maxBlockSize p).
  change (p_inBuffered (set_cp p (with_tlen c t))) with (p_inBuffered p). change (p_inBuffered (set_cp p c)) with (p_inBuffered p).
  change (p_outBuffered (set_cp p (with_tlen c t))) with (p_outBuffered p). change (p_outBuffered (set_cp p c)) with (p_outBuffered p).
  rewrite !row_tlen, !est_internal_tlen.
  change (wlog (with_tlen X t')) with (wlog X). split; reflexivity.
Qed.

Lemma est_cctx_tlen rz cp t : estimateCCtxSize_usingCParams rz (with_tlen cp t) = estimateCCtxSize_usingCParams rz cp.
Proof.
  unfold estimateCCtxSize_usingCParams. change (strat (with_tlen cp t)) with (strat cp).
  rewrite make_tlen, (make_self cp), !with_row_set_cp.
  rewrite !(proj1 (ccparams_est_tlen rz _ cp t)). reflexivity.
Qed.
Lemma est_cstream_tlen rz cp t : estimateCStreamSize_usingCParams rz (with_tlen cp t) = estimateCStreamSize_usingCParams rz cp.
Proof.
  unfold estimateCStreamSize_usingCParams. change (strat (with_tlen cp t)) with (strat cp).
  rewrite make_tlen, (make_self cp), !with_row_set_cp.
  rewrite !(proj2 (ccparams_est_tlen rz _ cp t)). reflexivity.
Qed.

Lemma getCParams_neg l s : (l < 0)%Z ->
  exists t, getCParams_internal l s 0 CpmNoAttachDict
            = with_tlen (adjustCParams_internal (table_cp (tier_of_rsize (cparam_rowSize s 0 CpmNoAttachDict)) 0) s 0 CpmNoAttachDict PsAuto) t.
Proof.
  intros Hl. unfold getCParams_internal.
  destruct (level_cp_neg l (tier_of_rsize (cparam_rowSize s 0 CpmNoAttachDict)) Hl) as (t & -> & _).
  exists t. apply adjust_tlen.
Qed.

Lemma internal_neg_const rz l : (l < 0)%Z ->
  estimateCCtxSize_internal rz l = estimateCCtxSize_internal rz (-1) /\
  estimateCStreamSize_internal rz l = estimateCStreamSize_internal rz (-1).
Proof.
  intros Hl. split.
  - unfold estimateCCtxSize_internal, srcSizeTiers. cbn [fold_left].
    repeat match goal with |- context [ getCParams_internal l ?s 0 CpmNoAttachDict ] =>
      let t := fresh "t" in let E := fresh "E" in destruct (getCParams_neg l s Hl) as [t E]; rewrite E; clear E; rewrite est_cctx_tlen end.
    repeat match goal with |- context [ getCParams_internal (-1) ?s 0 CpmNoAttachDict ] =>
      let t := fresh "t" in let E := fresh "E" in destruct (getCParams_neg (-1) s ltac:(lia)) as [t E]; rewrite E; clear E; rewrite est_cctx_tlen end.
    reflexivity.
  - unfold estimateCStreamSize_internal.
    destruct (getCParams_neg l UNKNOWN Hl) as [t1 ->]. destruct (getCParams_neg (-1) UNKNOWN ltac:(lia)) as [t2 ->].
    rewrite !est_cstream_tlen. reflexivity.
Qed.

Lemma level_range_nonpos L : (L <= 0)%Z -> level_range L = [L].
Proof.
  intros H. unfold level_range. replace (Z.min L 1) with L by lia. replace (L - L + 1)%Z with 1%Z by lia.
  change (Z.to_nat 1) with 1%nat. cbn [seq map Z.of_nat]. rewrite Z.add_0_r. reflexivity.
Qed.

Lemma estimate_nonpos rz L : (L <= 0)%Z ->
  estimateCCtxSize rz L = estimateCCtxSize_internal rz L /\ estimateCStreamSize rz L = estimateCStreamSize_internal rz L.
Proof.
  intros H. unfold estimateCCtxSize, estimateCStreamSize. rewrite (level_range_nonpos L H). cbn [fold_left]. split; apply N.max_0_l.
Qed.

Lemma internal_0_is_3 rz :
  estimateCCtxSize_internal rz 0 = estimateCCtxSize_internal rz 3 /\ estimateCStreamSize_internal rz 0 = estimateCStreamSize_internal rz 3.
Proof. split; reflexivity. Qed.

(* finite checks against the regenerated level table: row 0 (every negative level) against the estimate of level -1,
   the estimate of level 1 against the estimate of level 0 (= level 3) *)
Definition sweep_nonpos (rz : N) : bool :=
  forallb (fun c =>
     (need_simple_cls rz 0 c <=? estimateCCtxSize_internal rz (-1)) &&
     (need_compress2_cls rz 0 c <=? estimateCCtxSize_internal rz (-1)) &&
     (need_stream_cls rz 0 c <=? estimateCStreamSize_internal rz (-1))) all_classes
  && (estimateCCtxSize_internal rz 1 <=? estimateCCtxSize_internal rz 0)
  && (estimateCStreamSize_internal rz 1 <=? estimateCStreamSize_internal rz 0).

Lemma sweep_nonpos_0 : sweep_nonpos 0 = true.
Proof. vm_compute. reflexivity. Qed.
Lemma sweep_nonpos_128 : sweep_nonpos 128 = true.
Proof. vm_compute. reflexivity. Qed.

(* every pair l <= L <= 0 *)
Lemma nonpositive_levels_covered_l rz l L s :
  sweep_nonpos rz = true -> sweep_neg rz = true -> sweep_oneshot rz = true -> sweep_stream rz = true ->
  (l <= L)%Z -> (L <= 0)%Z -> s <= UNKNOWN ->
  need_simple rz l s <= estimateCCtxSize rz L /\ need_compress2 rz l s <= estimateCCtxSize rz L /\
  need_stream rz l s <= estimateCStreamSize rz L.
Proof.
  intros SW SN SO SS Hl HL Hs.
  destruct (estimate_nonpos rz L HL) as [-> ->].
  unfold sweep_nonpos in SW. apply andb_true_iff in SW. destruct SW as [SW C2]. apply andb_true_iff in SW. destruct SW as [SW C1].
  apply N.leb_le in C1. apply N.leb_le in C2.
  assert (HB : c_ZSTD_BLOCKSIZE_MAX <= 128 * 1024) by (vm_compute; discriminate).
  destruct (Z.eq_dec L 0) as [-> | HL0].
  - (* L = 0: the estimate of level 3 *)
    destruct (Z.eq_dec l 0) as [-> | Hl0].
    + (* l = 0 = level 3 itself *)
      destruct (internal_0_is_3 rz) as [-> ->].
      assert (HC : level_covered 0 3) by (split; [ lia | intros _; lia ]).
      destruct (lift_common 0 3 s HC Hs) as (R & C & _).
      destruct (level_row_in 0 ltac:(lia)) as (_ & _ & _ & R4). rewrite (R4 eq_refl) in R.
      unfold sweep_oneshot in SO. rewrite forallb_forall in SO. specialize (SO _ R). rewrite forallb_forall in SO. specialize (SO _ C).
      apply andb_true_iff in SO. destruct SO as [S1 S2]. apply N.leb_le in S1. apply N.leb_le in S2.
      unfold sweep_stream in SS. rewrite forallb_forall in SS. specialize (SS _ R). rewrite forallb_forall in SS. specialize (SS _ C).
      apply N.leb_le in SS. change (Z.of_N 3) with 3%Z in *.
      assert (R3 : level_row 0 = 3) by (apply R4; reflexivity).
      splits.
      * unfold need_simple. rewrite simple_params_eq by (lia || assumption). rewrite R3. unfold simple_params_cls.
        eapply N.le_trans; [ apply session_need_mono; [ exact Hs | reflexivity ] | ].
        unfold need_simple_cls, simple_params_cls in S1. lia.
      * unfold need_compress2. rewrite stream2_params_eq by (lia || assumption). rewrite R3. unfold stream2_params_cls.
        eapply N.le_trans; [ apply session_need_mono; [ exact Hs | reflexivity ] | ].
        unfold need_compress2_cls, stream2_params_cls in S2. lia.
      * unfold need_stream. rewrite stream2_params_eq by (lia || assumption). rewrite R3. unfold stream2_params_cls.
        eapply N.le_trans; [ apply session_need_mono; [ exact Hs | reflexivity ] | ].
        unfold need_stream_cls, stream2_params_cls in SS. lia.
    + (* l < 0 under L = 0: through the estimate of level 1 *)
      destruct (neg_levels_covered_l rz l 1 s SN ltac:(lia) ltac:(lia) Hs) as (N1 & N2 & N3).
      assert (E1 : estimateCCtxSize rz 1 = estimateCCtxSize_internal rz 1) by (unfold estimateCCtxSize; change (level_range 1) with [1%Z]; cbn [fold_left]; apply N.max_0_l).
      assert (E2 : estimateCStreamSize rz 1 = estimateCStreamSize_internal rz 1) by (unfold estimateCStreamSize; change (level_range 1) with [1%Z]; cbn [fold_left]; apply N.max_0_l).
      rewrite E1 in N1, N2. rewrite E2 in N3. splits; lia.
  - (* L < 0: every negative level has the estimate of level -1, and the need of row 0 *)
    assert (HLn : (L < 0)%Z) by lia. assert (Hln : (l < 0)%Z) by lia.
    destruct (internal_neg_const rz L HLn) as [-> ->].
    rewrite forallb_forall in SW. specialize (SW _ (cls_in s)).
    apply andb_true_iff in SW. destruct SW as [SW S3]. apply andb_true_iff in SW. destruct SW as [S1 S2].
    apply N.leb_le in S1. apply N.leb_le in S2. apply N.leb_le in S3.
    destruct (simple_params_neg l s Hln Hs) as [t1 E1]. destruct (stream2_params_neg l s Hln Hs) as [t2 E2].
    splits.
    + unfold need_simple. rewrite E1, need_tlen_irrelevant.
      eapply N.le_trans; [ apply session_need_mono; [ exact Hs | exact HB ] | ].
      unfold need_simple_cls, simple_params_cls, auto_params in *. lia.
    + unfold need_compress2. rewrite E2, need_tlen_irrelevant.
      eapply N.le_trans; [ apply session_need_mono; [ exact Hs | exact HB ] | ].
      unfold need_compress2_cls, stream2_params_cls, auto_params in *. lia.
    + unfold need_stream. rewrite E2, need_tlen_irrelevant.
      eapply N.le_trans; [ apply session_need_mono; [ exact Hs | exact HB ] | ].
      unfold need_stream_cls, stream2_params_cls, auto_params in *. lia.
Qed.

(* end to end: ZSTD_initStaticCCtx(ZSTD_estimateCCtxSize(L)), L <= 0, then ZSTD_compressCCtx at any l <= L *)
Lemma nonpositive_levels_static_oneshot_ok_l :
  forall rz start size l L s,
    sweep_nonpos rz = true -> sweep_neg rz = true -> sweep_oneshot rz = true -> sweep_stream rz = true ->
    (l <= L)%Z -> (L <= 0)%Z -> s <= UNKNOWN -> start mod 8 = 0 ->
    estimateCCtxSize rz L <= size ->
    exists w log, static_simple_session rz start size l s = SessDone w log /\
                  allocFailed w = false /\ ws_start w = start /\ ws_end w = start + size /\
                  Forall (entry_in start size) log.
Proof.
  intros rz start size l L s SW SN SO SS Hl HL Hs Ha Hsz.
  destruct (nonpositive_levels_covered_l rz l L s SW SN SO SS Hl HL Hs) as (N1 & _ & _).
  unfold static_simple_session, simple_params.
  apply estimate_covers_reservation_l; try assumption.
  - discriminate.
  - intros _. reflexivity.
  - unfold need_simple, session_need, simple_params in N1. lia.
Qed.

(* ------------------------------------------------------------------ *)
(* (c) "estimate_usingCParams(c) + exactly c" through ZSTD_compress_advanced, which applies c RAW (ZSTD_checkCParams
   only; no ZSTD_adjustCParams_internal, whose last step caps hashLog at 24 + rowLog when the row match finder may be
   used).  Known finding C14-advanced-raw-cparams-vs-estimate, closed witness:
   c = {windowLog 20, chainLog 6, hashLog 29, searchLog 1, minMatch 4, targetLength 0, ZSTD_greedy}, 100000-byte source. *)
Definition raw_witness_cp : cparams := mkCP 20 6 29 1 4 0 c_ZSTD_greedy.

(* neededSpace of the reset made by ZSTD_compress_advanced_internal: cParams as given, row mode and LDM resolved from them *)
Definition need_advanced_raw (rz : N) (cp : cparams) (srcSize : N) : N :=
  session_need rz (cp, ldm_zero (resolveEnableLdm PsAuto cp), resolveRowMatchFinderMode PsAuto cp, c_ZSTD_BLOCKSIZE_MAX)
               srcSize false false false false.

Lemma advanced_raw_cparams_refuted_l :
  estimateCCtxSize_usingCParams 0 raw_witness_cp < need_advanced_raw 0 raw_witness_cp 100000 /\
  (* the same six parameters through ZSTD_CCtx_setParameter + ZSTD_compress2 are adjusted first and do fit *)
  session_need 0 (stream2_params (mkPP 3 raw_witness_cp PsAuto (ldm_zero PsAuto) 0 false true true 0 0) 100000) 100000 false true false false
    <= estimateCCtxSize_usingCParams 0 raw_witness_cp.
Proof. vm_compute. split; [ reflexivity | discriminate ]. Qed.
