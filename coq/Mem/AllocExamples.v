(* C13 - non-vacuity: the semantics exhibits every kind of violation the theorems exclude.  Each program below is
   the transcription of a zstd function as it was BEFORE one of the C13 fix: commits (or a one-line variant of the
   current code); a concrete oracle makes the concrete run report the ownership error / leave a block allocated, and
   the analysis rejects the program.  Also: concrete runs of the current transcriptions (hypotheses satisfiable). *)
From Coq Require Import NArith List Bool Arith.
From ZV.Mem Require Import AllocDsl AllocInstances AllocSet.
Import ListNotations.
Local Open Scope N_scope.

Definition zsx : sizes := mkSizes 240 16 8 3104 448 88 16 80 8 5264 256 95992 27352 24 64 2 4 3.

(* ZSTDMT_createBufferPool before a233ed7: the custom allocator was recorded only after the second calloc, so the
   unwinding freed the pool through an all-zero cMem *)
Definition bufpool_create_pre_a233ed7 (b n : N) : prog :=
  Call n_createBufPool (
    Alloc (B_pool b) true (z_sizeof_bufferPool zsx) ;;
    IfNull (B_pool b) (Return false) Skip ;;
    Alloc (B_array b) true (n * z_sizeof_buffer_t zsx) ;;
    IfNull (B_array b) (bufpool_free b ;; SetNull (B_pool b) ;; Return false) Skip ;;
    SetFlag (B_cm b) true ;;
    Return true).

(* ZSTDMT_releaseAllJobResources before d89793f: no test of the jobs table *)
Definition release_all_jobs_pre_d89793f : prog :=
  Call n_releaseAllJobs (Use M_jobs ;; Return true).
Definition mtctx_free_pre_d89793f : prog :=
  Call n_mtFree (
    IfNull M_mtctx (Return true) Skip ;; Use M_mtctx ;;
    pool_free M_factory ;; release_all_jobs_pre_d89793f ;; jobs_free ;;
    bufpool_free M_bufPool ;; cctxpool_free M_cctxPool ;; bufpool_free M_seqPool ;; serial_free ;;
    cdict_free M_cdict ;; Free M_round None ;; Free M_mtctx None ;; Return true).
Definition mtctx_create_pre_d89793f (w : N) : prog :=
  Call n_mtCreate (
    Alloc M_mtctx true (z_sizeof_ZSTDMT_CCtx zsx) ;; IfNull M_mtctx (Return false) Skip ;;
    pool_create zsx M_factory w 0 ;; jobs_create zsx w ;;
    bufpool_create zsx M_bufPool (buf_pool_max w) ;; cctxpool_create zsx M_cctxPool w ;; bufpool_create zsx M_seqPool (seq_pool_max w) ;;
    IfNull M_jobs (mtctx_free_pre_d89793f ;; SetNull M_mtctx ;; Return false) (Return true)).

(* POOL_create_advanced returning without POOL_free when the threads array is NULL (mutation of the current code) *)
Definition pool_create_leaky (b nt qs : N) : prog :=
  Call n_POOL_create (
    Alloc (P_ctx b) true (z_sizeof_POOL_ctx zsx) ;; IfNull (P_ctx b) (Return false) Skip ;;
    Alloc (P_queue b) true ((qs + 1) * z_sizeof_POOL_job zsx) ;;
    Alloc (P_threads b) true (nt * z_sizeof_pthread_t zsx) ;;
    SetFlag (P_cm b) true ;;
    IfNull (P_threads b) (SetNull (P_ctx b) ;; Return false) Skip ;;
    Return true).

(* a destructor called twice by the library on the same block *)
Definition double_free_prog : prog := cctx_create zsx ;; Free K_cctx None ;; Free K_cctx None.

(* ZSTD_decompressStream resizing its buffers with the sizes updated AFTER the failing malloc ... and then trusting them *)
Definition dstream_stale_sizes (sz : N) : prog :=
  Call n_dstream (
    Use D_dctx ;;
    IfFlag D_sizes Skip (Free D_inBuff None ;; SetFlag D_sizes true ;; Alloc D_inBuff false sz ;; IfNull D_inBuff (Return false) Skip) ;;
    Use D_inBuff ;; Return true).

Definition fault (k : nat) : oracle := oracle_of [k] [] [].
Definition errs_of (o : oracle) (p : prog) : list err := errs (fst (run o p init_state)).
Definition live_of (o : oracle) (p : prog) : list nat := live (fst (run o p init_state)).
