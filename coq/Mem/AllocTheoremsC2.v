(* C13 - compression side, part 2: the closed set is closed under the other operations; teardown; handles never dangle. *)
From Coq Require Import NArith List Bool Arith Lia.
From ZV.Mem Require Import AllocDsl AllocInstances AllocProofs AllocSet AllocSetProofs AllocClient AllocHistory AllocTheorems AllocTheoremsC0.
Import ListNotations.
Local Open Scope N_scope.

Lemma cctx_closed_create : forall zs, closedSF F St_cctx aerr_iff_fail (client zs OCCtxCreate) = true.
Proof. intros zs. run_analysis. Qed.
Lemma cctx_closed_free : forall zs, closedSF F St_cctx aerr_iff_fail (client zs OCCtxFree) = true.
Proof. intros zs. run_analysis. Qed.
Lemma cctx_closed_load : forall zs byRef sz, closedSF F St_cctx aerr_iff_fail (client zs (OLoadDict byRef sz)) = true.
Proof. intros zs byRef sz. unfold client, api, op_prog, load_dict. split_tests; run_analysis. Qed.
Lemma cctx_closed_ref : forall zs, closedSF F St_cctx aerr_iff_fail (client zs ORefCDict) = true.
Proof. intros zs. run_analysis. Qed.
Lemma cctx_closed_reset : forall zs, closedSF F St_cctx aerr_iff_fail (client zs OReset) = true.
Proof. intros zs. run_analysis. Qed.
Lemma cctx_teardown : forall zs, all_res aclean (aexecS F true (teardown_cctx zs) St_cctx) = true.
Proof. intros zs. run_analysis. Qed.
Lemma cctx_not_dang : forallb (fun a => match aget a K_cctx with ADang => false | _ => true end) St_cctx = true.
Proof. run_analysis. Qed.
