(* C13 (round 3) - ZSTD_DCtx with ZSTD_d_refMultipleDDicts: the DDicts a DCtx references are BORROWED (owned by the caller),
   the hash set that remembers them is owned by the DCtx (lib/decompress/zstd_decompress.c: ZSTD_createDDictHashSet,
   ZSTD_DDictHashSet_expand / _emplaceDDict / _getDDict, ZSTD_DCtx_refDDict, ZSTD_DCtx_selectFrameDDict, ZSTD_clearDict,
   ZSTD_DCtx_reset(parameters) which releases the set since b70602d, ZSTD_freeDCtx), transcribed in the allocation language of
   AllocDsl.v.  Model only: NO proofs in this file.

   A borrowed reference is a model flag next to the caller's handle slot:
     RF_cur k - dctx->ddict designates DDict k            RF_in k  - the set holds a pointer to DDict k
     RF_bel k - the CALLER keeps DDict k alive on behalf of the DCtx: a ZSTD_DCtx_refDDict(dctx, k) returned success and neither
                ZSTD_DCtx_reset(parameters) nor ZSTD_freeDCtx has been called since (zstd.h: a referenced DDict must outlive its use)
   and every place where the library reads through such a pointer is a [Use] of the caller's slot: decoding reads dctx->ddict;
   _emplaceDDict / _getDDict / _expand read the dictID of the entries they probe (ZSTD_getDictID_fromDDict(entry)).

   Round 3 also puts the rest of the DCtx in the same family (the local DDict of ZSTD_DCtx_loadDictionary and its variants, released by
   ZSTD_clearDict, and the stream buffer of ZSTD_decompressStream), so that
   the all-history theorems are about ONE DCtx doing all of it, not about independent sub-objects.

   [fixed] selects ZSTD_DCtx_refDDict as found on 2026-10-02 (false: dctx->ddict / dictUses recorded BEFORE the set is created or
   expanded; finding dctx-refddict-failed-call-takes-effect) or as repaired by 8de9dc9 (true: recorded after). *)
From Coq Require Import NArith List Bool.
From ZV.Mem Require Import AllocDsl.
Import ListNotations.
Local Open Scope N_scope.

Definition R_dctx : lbl := 500.
Definition R_set : lbl := 501.
Definition R_table : lbl := 502.
Definition R_new : lbl := 503.
Definition R_local : lbl := 504.                  (* dctx->ddictLocal (owned: ZSTD_DCtx_loadDictionary and variants) *)
Definition R_localBuf : lbl := 505.               (* its content copy *)
Definition R_inBuff : lbl := 506.                 (* dctx->inBuff (+ outBuff): streaming *)
Definition RF_sizes : flag := 599.                (* inBuffSize / outBuffSize describe R_inBuff *)
(* single-use prefix (ZSTD_DCtx_refPrefix): the local DDict with dictUses = ZSTD_use_once *)
Definition RF_once : flag := 598.                 (* dictUses == ZSTD_use_once *)
Definition RF_used : flag := 597.                 (* dictUses == ZSTD_dont_use while the local DDict still exists (the prefix has served) *)
Definition RF_taken : flag := 596.                (* the current call took the single-use reference (local variable of the repair) *)
Definition RF_need : flag := 595.                 (* CALLER: the frame it decodes next was compressed with the prefix it referenced *)
Definition RD (k : N) : lbl := 700 + 2 * k.       (* the caller's handle of DDict k *)
Definition RDb (k : N) : lbl := 701 + 2 * k.      (* its content buffer (by copy) *)
Definition RF_cur (k : N) : flag := 600 + 3 * k.
Definition RF_in (k : N) : flag := 601 + 3 * k.
Definition RF_bel (k : N) : flag := 602 + 3 * k.

Definition n_bcreate : N := 90.   Definition n_bfree : N := 91.     Definition n_bref : N := 92.
Definition n_bsetcreate : N := 93. Definition n_bsetexpand : N := 94. Definition n_bdecomp : N := 95.
Definition n_breset : N := 96.    Definition n_bddcreate : N := 97. Definition n_bddfree : N := 98.
Definition n_bload : N := 99.     Definition n_bstream : N := 100.  Definition n_bprefix : N := 101.

Section Borrow.
Variable fixed : bool.
Variable pfixed : bool.                             (* finding prefix-used-up-by-failed-frame-start: false = as found, true = b15fdb6 *)
Variable nd : nat.                                  (* number of DDict handles the caller has *)
Variables (sz_dctx sz_set sz_table sz_dd : N).

Definition ks : list N := map N.of_nat (seq 0 nd).
Definition for_ks (f : N -> prog) : prog := fold_right (fun k p => f k ;; p) Skip ks.

Definition clear_cur : prog := for_ks (fun k => SetFlag (RF_cur k) false).   (* dctx->ddict = NULL *)
(* ZSTD_clearDict: ZSTD_freeDDict(dctx->ddictLocal); ddictLocal = NULL; ddict = NULL; dictUses = ZSTD_dont_use *)
Definition bclear_dict : prog :=
  IfNull R_local Skip (Use R_local ;; Free R_localBuf None ;; Free R_local None ;; SetNull R_localBuf ;; SetNull R_local) ;;
  SetFlag RF_once false ;; SetFlag RF_used false ;;
  clear_cur.
(* ZSTD_getDDict: dont_use -> ZSTD_clearDict; use_once -> dont_use (the dictionary serves this frame); use_indefinitely -> kept *)
Definition bgetddict : prog :=
  SetFlag RF_taken false ;;
  IfFlag RF_used bclear_dict
    (IfFlag RF_once (SetFlag RF_once false ;; SetFlag RF_used true ;; SetFlag RF_taken true) Skip).
(* decoding a frame that was compressed with a prefix without that prefix: an error for its content (corruption_detected) *)
Definition bneed_prefix : prog := IfFlag RF_need (IfNull R_local (Return false) Skip) Skip.
Definition clear_in : prog := for_ks (fun k => SetFlag (RF_in k) false).     (* the table is gone *)
Definition clear_bel : prog := for_ks (fun k => SetFlag (RF_bel k) false).
(* probing / re-hashing reads the dictID of the entries: every entry may be read *)
Definition touch_in : prog := for_ks (fun k => IfFlag (RF_in k) (Use (RD k)) Skip).

Definition bset_create : prog :=
  Call n_bsetcreate (
    Alloc R_set false sz_set ;; IfNull R_set (Return false) Skip ;;
    Alloc R_table true sz_table ;;
    IfNull R_table (Free R_set None ;; SetNull R_set ;; Return false) Skip ;;
    Return true).
Definition bset_expand : prog :=
  Call n_bsetexpand (
    Alloc R_new true (2 * sz_table) ;; IfNull R_new (Return false) Skip ;;
    Use R_table ;; touch_in ;;                       (* re-hash: _emplaceDDict(oldTable[i]) reads its dictID *)
    Free R_table None ;; Move R_table R_new ;;
    Return true).
Definition bset_free : prog :=
  IfNull R_set Skip (IfNull R_table Skip (Free R_table None) ;; Free R_set None ;; SetNull R_table ;; SetNull R_set) ;; clear_in.

(* ZSTD_DCtx_refDDict(dctx, DDict k) with ZSTD_d_refMultipleDDicts; [expand]: how the load-factor test is decided *)
Definition bref_gen (k : N) (expand : prog -> prog) : prog :=
  Call n_bref (
    Use R_dctx ;;
    bclear_dict ;;
    (if fixed then Skip else SetFlag (RF_cur k) true) ;;
    IfNull R_set (bset_create ;; IfErr (Return false) Skip) (expand (bset_expand ;; IfErr (Return false) Skip)) ;;
    Use R_table ;; Use (RD k) ;; touch_in ;;         (* _emplaceDDict: dictID of the new DDict, of the entries on its probe path *)
    SetFlag (RF_in k) true ;;
    (if fixed then SetFlag (RF_cur k) true else Skip) ;;
    Return true).
Definition bref (k : N) : prog := bref_gen k (fun p => Choice 50 p Skip).
(* for the tie: the test is decided by the number of allocation attempts the real call made *)
Definition bref_obs (k n : N) : prog := bref_gen k (fun p => if 1 <=? n then p else Skip).

(* ZSTD_DCtx_refDDict(dctx, NULL) *)
Definition bunref : prog := Call n_bref (Use R_dctx ;; bclear_dict ;; Return true).

(* ZSTD_DCtx_loadDictionary_advanced: the previous dictionary is dropped first, the local DDict becomes the current one; the
   multi-DDict set is not touched *)
Definition bload (byRef : bool) (sz : N) : prog :=
  Call n_bload (
    Use R_dctx ;;
    bclear_dict ;;
    Alloc R_local false sz_dd ;; IfNull R_local (Return false) Skip ;;
    (if byRef then Skip
     else (Alloc R_localBuf false sz ;; IfNull R_localBuf (Free R_local None ;; SetNull R_local ;; Return false) Skip)) ;;
    Return true).

(* ZSTD_DCtx_refPrefix_advanced: ZSTD_DCtx_loadDictionary_advanced(by reference, raw content), then dictUses = ZSTD_use_once *)
Definition brefprefix : prog :=
  Call n_bprefix (bload true 0 ;; IfErr (Return false) Skip ;; SetFlag RF_once true ;; Return true).

(* what decoding a frame does with the dictionaries: with a set and no dictionary loaded into the context (the selection replaces
   a referenced DDict, never a local one: d0ddbff), ZSTD_DCtx_selectFrameDDict probes the set (reads the dictID of the
   entries) and may make an entry the current dictionary; then the current dictionary is read.  (The code selects only when a
   referenced DDict is current; the model lets it select whenever the set exists and nothing is loaded: more behaviours.) *)
Definition bselect : prog :=
  IfNull R_set Skip
    (IfNull R_local
       (Use R_table ;; touch_in ;;
        for_ks (fun k => IfFlag (RF_in k) (Choice 52 (clear_cur ;; SetFlag (RF_cur k) true) Skip) Skip))
       Skip).
Definition buse_dict : prog :=
  IfNull R_local Skip (Use R_local) ;; for_ks (fun k => IfFlag (RF_cur k) (Use (RD k)) Skip).
(* a frame decoded in one call *)
Definition bdecomp : prog :=
  Call n_bdecomp (Use R_dctx ;; bgetddict ;; bneed_prefix ;; bselect ;; buse_dict ;; Return true).
(* a frame streamed: the same, then the stream buffer ([n] decides "too small or oversized for too long": 0 = the environment,
   1 = no, anything else = yes; released BEFORE the new one is requested, sizes zeroed first) *)
(* the frame start of ZSTD_decompressStream (zdss_loadHeader).  As found on 2026-10-02 ZSTD_getDDict took the single-use prefix
   BEFORE the request for the stream buffer: a failure there left it used up.  Repaired (b15fdb6): a pending single-use dictionary
   is only looked at ([singleUseDictTaken]) and marked as used right before the stage changes to zdss_read *)
Definition bbuf_resize (sz : N) : prog :=
  Free R_inBuff None ;; SetFlag RF_sizes false ;; SetNull R_inBuff ;;
  Alloc R_inBuff false sz ;; IfNull R_inBuff (Return false) Skip ;;
  SetFlag RF_sizes true.
Definition bstream (n sz : N) : prog :=
  Call n_bstream (
    Use R_dctx ;;
    (if pfixed then SetFlag RF_taken false ;; IfFlag RF_once (SetFlag RF_taken true) (IfFlag RF_used bclear_dict Skip)
     else bgetddict) ;;
    bneed_prefix ;; bselect ;; buse_dict ;;
    IfFlag RF_sizes (match n with 0 => Choice 53 (bbuf_resize sz) Skip | 1 => Skip | _ => bbuf_resize sz end) (bbuf_resize sz) ;;
    (if pfixed then IfFlag RF_taken (SetFlag RF_once false ;; SetFlag RF_used true) Skip else Skip) ;;
    Use R_inBuff ;;
    Return true).

(* ZSTD_DCtx_reset(dctx, ZSTD_reset_parameters or session_and_parameters) *)
Definition breset_params : prog :=
  Call n_breset (Use R_dctx ;; bclear_dict ;; bset_free ;; Return true).

Definition bdctx_create : prog :=
  Call n_bcreate (Alloc R_dctx false sz_dctx ;; IfNull R_dctx (Return false) (Return true)).
Definition bdctx_free : prog :=
  Call n_bfree (
    IfNull R_dctx (Return true) Skip ;; Use R_dctx ;;
    bclear_dict ;;
    Free R_inBuff None ;; SetNull R_inBuff ;; SetFlag RF_sizes false ;;
    bset_free ;;
    Free R_dctx None ;; Return true).

Definition bdd_create (k : N) (byRef : bool) : prog :=
  Call n_bddcreate (
    Alloc (RD k) false sz_dd ;; IfNull (RD k) (Return false) Skip ;;
    (if byRef then Skip
     else (Alloc (RDb k) false 0 ;; IfNull (RDb k) (Free (RD k) None ;; SetNull (RD k) ;; Return false) Skip)) ;;
    Return true).
Definition bdd_free (k : N) : prog :=
  Call n_bddfree (IfNull (RD k) (Return true) Skip ;; Use (RD k) ;; Free (RDb k) None ;; Free (RD k) None ;; SetNull (RDb k) ;; Return true).

Inductive bop : Type :=
| BCreate | BFree | BRef (k : N) | BRefObs (k n : N) | BUnref | BDecomp | BResetParams
| BDDCreate (k : N) (byRef : bool) | BDDFree (k : N)
| BLoad (byRef : bool) (sz : N) | BStream (n sz : N) | BRefPrefix.

Definition bop_prog (o : bop) : prog :=
  match o with
  | BCreate => bdctx_create
  | BFree => bdctx_free
  | BRef k => bref k
  | BRefObs k n => bref_obs k n
  | BUnref => bunref
  | BDecomp => bdecomp
  | BResetParams => breset_params
  | BDDCreate k r => bdd_create k r
  | BDDFree k => bdd_free k
  | BLoad r sz => bload r sz
  | BStream n sz => bstream n sz
  | BRefPrefix => brefprefix
  end.
Definition bapi (o : bop) : prog := Forget ;; Call 0 (bop_prog o).

(* the well-behaved caller: constructors into empty handles only, objects used only when they exist, handles forgotten after the
   destructor; it releases a DDict only when it does not hold it on behalf of the DCtx, and it holds it from the moment
   ZSTD_DCtx_refDDict returned success (a call that returned an error created no obligation) *)
Definition bclient (o : bop) : prog :=
  match o with
  | BCreate => IfNull R_dctx (bapi o) Skip
  | BFree => bapi o ;; SetNull R_dctx ;; clear_bel ;; SetFlag RF_need false
  | BRef k | BRefObs k _ => IfNull R_dctx Skip (IfNull (RD k) Skip (SetFlag RF_need false ;; bapi o ;; IfErr Skip (SetFlag (RF_bel k) true)))
  | BUnref | BLoad _ _ => IfNull R_dctx Skip (SetFlag RF_need false ;; bapi o)
  (* a frame: when it completes, the prefix the caller referenced for it has served *)
  | BDecomp | BStream _ _ => IfNull R_dctx Skip (bapi o ;; IfErr Skip (SetFlag RF_need false))
  | BResetParams => IfNull R_dctx Skip (SetFlag RF_need false ;; bapi o ;; clear_bel)
  (* the caller references a prefix for the next frame: that frame was compressed with it *)
  | BRefPrefix => IfNull R_dctx Skip (SetFlag RF_need false ;; bapi o ;; IfErr Skip (SetFlag RF_need true))
  | BDDCreate k _ => IfNull (RD k) (bapi o) Skip
  | BDDFree k => IfFlag (RF_bel k) Skip (bapi o ;; SetNull (RD k))
  end.
Definition bteardown : prog := bclient BFree ;; for_ks (fun k => bclient (BDDFree k)).
Definition breps : list bop :=
  [BCreate; BFree; BUnref; BDecomp; BResetParams; BLoad false 0; BLoad true 0; BStream 0 0; BStream 1 0; BStream 2 0; BRefPrefix]
  ++ flat_map (fun k => [BRef k; BDDCreate k false; BDDCreate k true; BDDFree k]) ks.

(* the scenario interpreter of the tie: the API calls a run of harness/c13_fault.c made, as (code, parameters); the caller's
   bookkeeping is not part of it (the harness is the caller) *)
Definition bop_of_code (code : N) (ps : list N) : bop :=
  match code with
  | 1 => BCreate
  | 2 => BFree
  | 3 => BRefObs (nth 0 ps 0) (nth 1 ps 0)
  | 4 => BDecomp
  | 5 => BResetParams
  | 6 => BDDCreate (nth 0 ps 0) (negb (nth 1 ps 0 =? 0))
  | 7 => BDDFree (nth 0 ps 0)
  | 8 => BLoad (negb (nth 0 ps 0 =? 0)) (nth 1 ps 0)
  | 9 => BStream (nth 0 ps 0) (nth 1 ps 0)
  | 10 => BRefPrefix
  | _ => BUnref
  end.
Fixpoint bops_prog (ops : list bop) : prog :=
  match ops with
  | [] => Skip
  | o :: r => bapi o ;; bops_prog r
  end.
Definition run_bops_gen (ops : list (N * list N)) (faults : list nat) : list event * list nat * list err :=
  let s := fst (run (oracle_of faults [] []) (bops_prog (map (fun x => bop_of_code (fst x) (snd x)) ops)) init_state) in
  (rev (trace s), live s, errs s).

End Borrow.
