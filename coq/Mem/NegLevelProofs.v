(* C14 - negative ("fast") compression levels: ZSTD_getCParams_internal uses row 0 of ZSTD_defaultCParameters and only
   replaces targetLength, which no sizing function reads.  Hence the need at ANY level l < 0 is the need of row 0, and
   a finite sweep over the source-size classes shows it is covered by the estimate of level 1 (so by every L >= 1). *)
From Coq Require Import NArith ZArith List Bool Lia.
From ZV.Gen Require Import Gen_C14.
From ZV.Mem Require Import Cwksp CwkspProofs Estimate EstimateProofs LevelDefs LevelProofs CParamsProofs.
Import ListNotations.
Local Open Scope N_scope.
Ltac Zify.zify_post_hook ::= Z.to_euclidean_division_equations.

Lemma adjust_cls_tlen cp t c r : adjust_cls (with_tlen cp t) c r = with_tlen (adjust_cls cp c r) t.
Proof.
  unfold adjust_cls, adjust_core, with_tlen. cbn [wlog clog hlog slog mml tlen strat].
  repeat match goal with |- context [ let '(_, _) := ?e in _ ] => destruct e end.
  cbn [wlog clog hlog slog mml tlen strat]. reflexivity.
Qed.

(* parameters of a session derived from the applied cParams X (no user LDM / row settings) *)
Definition auto_params (X : cparams) : cparams * ldmparams * pswitch * N :=
  (X, ldm_zero (resolveEnableLdm PsAuto X), resolveRowMatchFinderMode PsAuto X, c_ZSTD_BLOCKSIZE_MAX).

Lemma need_tlen_irrelevant rz X t p e b i o :
  session_need rz (auto_params (with_tlen X t)) p e b i o = session_need rz (auto_params X) p e b i o.
Proof. destruct X. reflexivity. Qed.

Lemma level_cp_neg l tier : (l < 0)%Z -> exists t, level_cp l tier = with_tlen (table_cp tier 0) t /\ level_row l = 0.
Proof.
  intros H. unfold level_cp, level_row. destruct (Z.ltb_spec l 0); [ | lia ]. destruct (Z.eqb_spec l 0); [ lia | ].
  eexists. split; reflexivity.
Qed.

Lemma simple_params_neg l s : (l < 0)%Z -> s <= UNKNOWN ->
  exists t, simple_params l s = auto_params (with_tlen (adjust_cls (table_cp (tier_cls (cls_of s)) 0) (cls_of s) PsAuto) t).
Proof.
  intros Hl Hs. unfold simple_params, getCParams_internal. rewrite tier_cls_eq by exact Hs.
  destruct (level_cp_neg l (tier_cls (cls_of s)) Hl) as (t & -> & _).
  rewrite adjust_cls_eq, adjust_cls_tlen. exists t. reflexivity.
Qed.

Lemma stream2_params_neg l s : (l < 0)%Z -> s <= UNKNOWN ->
  exists t, stream2_params (level_pp l) s
            = auto_params (with_tlen (adjust_cls (adjust_cls (table_cp (tier_cls (cls_of s)) 0) (cls_of s) PsAuto) (cls_of s) PsAuto) t).
Proof.
  intros Hl Hs. unfold stream2_params, getCParamsFromCCtxParams, level_pp.
  cbn [p_level p_cp p_row p_ldm p_maxBlockSize p_srcSizeHint ldm_enabled ldm_zero ldm_enable ps_eqb].
  change (0 <? 0) with false. rewrite andb_false_r. cbv iota.
  unfold getCParams_internal. rewrite tier_cls_eq by exact Hs.
  destruct (level_cp_neg l (tier_cls (cls_of s)) Hl) as (t & -> & _).
  rewrite override_zero. rewrite !adjust_cls_eq, !adjust_cls_tlen. exists t. reflexivity.
Qed.

Lemma neg_levels_covered_l rz l L s :
  sweep_neg rz = true -> (l < 0)%Z -> (1 <= L)%Z -> s <= UNKNOWN ->
  need_simple rz l s <= estimateCCtxSize rz L /\ need_compress2 rz l s <= estimateCCtxSize rz L /\
  need_stream rz l s <= estimateCStreamSize rz L.
Proof.
  intros SW Hl HL Hs.
  unfold sweep_neg in SW. rewrite forallb_forall in SW. specialize (SW _ (cls_in s)).
  apply andb_true_iff in SW. destruct SW as [SW S3]. apply andb_true_iff in SW. destruct SW as [S1 S2].
  apply N.leb_le in S1. apply N.leb_le in S2. apply N.leb_le in S3.
  assert (I1 : In 1%Z (level_range L)) by (apply level_range_in; lia).
  pose proof (estimateCCtxSize_ge rz 1%Z L I1) as G1. pose proof (estimateCStreamSize_ge rz 1%Z L I1) as G2.
  change (Z.of_N 1) with 1%Z in *.
  assert (HB : c_ZSTD_BLOCKSIZE_MAX <= 128 * 1024) by (vm_compute; discriminate).
  destruct (simple_params_neg l s Hl Hs) as [t1 E1]. destruct (stream2_params_neg l s Hl Hs) as [t2 E2].
  splits.
  - unfold need_simple. rewrite E1, need_tlen_irrelevant.
    eapply N.le_trans; [ apply session_need_mono; [ exact Hs | exact HB ] | ].
    unfold need_simple_cls, simple_params_cls, auto_params in *. lia.
  - unfold need_compress2. rewrite E2, need_tlen_irrelevant.
    eapply N.le_trans; [ apply session_need_mono; [ exact Hs | exact HB ] | ].
    unfold need_compress2_cls, stream2_params_cls, auto_params in *. lia.
  - unfold need_stream. rewrite E2, need_tlen_irrelevant.
    eapply N.le_trans; [ apply session_need_mono; [ exact Hs | exact HB ] | ].
    unfold need_stream_cls, stream2_params_cls, auto_params in *. lia.
Qed.

Lemma sweep_neg_0 : sweep_neg 0 = true.
Proof. vm_compute. reflexivity. Qed.
Lemma sweep_neg_128 : sweep_neg 128 = true.
Proof. vm_compute. reflexivity. Qed.

(* end to end: ZSTD_initStaticCCtx(ZSTD_estimateCCtxSize(L)), L >= 1, then ZSTD_compressCCtx at any negative level *)
Lemma neg_levels_static_oneshot_ok_l :
  forall rz start size l L s,
    sweep_neg rz = true -> (l < 0)%Z -> (1 <= L)%Z -> s <= UNKNOWN -> start mod 8 = 0 ->
    estimateCCtxSize rz L <= size ->
    exists w log, static_simple_session rz start size l s = SessDone w log /\
                  allocFailed w = false /\ ws_start w = start /\ ws_end w = start + size /\
                  Forall (entry_in start size) log.
Proof.
  intros rz start size l L s SW Hl HL Hs Ha Hsz.
  destruct (neg_levels_covered_l rz l L s SW Hl HL Hs) as (N1 & _ & _).
  unfold static_simple_session, simple_params.
  apply estimate_covers_reservation_l; try assumption.
  - discriminate.
  - intros _. reflexivity.
  - unfold need_simple, session_need, simple_params in N1. lia.
Qed.
