(* C13 - hand-written AllocDsl instances of the zstd constructors / destructors / (re)allocation points the
   property anchors, as they are in /repo AFTER the fix: commits acad7ed (customCalloc NULL), a233ed7 (pools
   record cMem before the 2nd calloc), d89793f (releaseAllJobResources tolerates jobs == NULL), 35fb48d
   (copyCCtx forwards the reset error), 563c1f1 (jobReady cleared), 3a42f3b (resize recreates NULL pools),
   44900dc (a failed resize is retried).  Model only: NO proofs in this file.
   Sizes that are sizeof / macro expressions are fields of the record [sizes]; every program takes the record as
   its first argument.  The theorems hold for EVERY value of the record (no construct reads a size, so the heavy
   proofs do not depend on coq/Gen); coq/Mem/AllocGen.v instantiates the record with coq/Gen/Gen_Alloc.v
   (regenerated from the current sources on every run) for the correspondence runs.  Workspace / buffer sizes
   that depend on compression parameters are a parameter [sz] of the instance (the correspondence passes the
   observed size). *)
From Coq Require Import NArith List Bool.
From ZV.Mem Require Import AllocDsl.
Import ListNotations.
Local Open Scope N_scope.

Record sizes : Type := mkSizes {
  z_sizeof_POOL_ctx : N;
  z_sizeof_POOL_job : N;
  z_sizeof_pthread_t : N;
  z_sizeof_ZSTDMT_CCtx : N;
  z_sizeof_jobDescription : N;
  z_sizeof_bufferPool : N;
  z_sizeof_buffer_t : N;
  z_sizeof_CCtxPool : N;
  z_sizeof_ptr : N;
  z_sizeof_ZSTD_CCtx : N;
  z_ZSTDMT_NBWORKERS_MAX : N;
  z_sizeof_ZSTD_DCtx : N;
  z_sizeof_ZSTD_DDict : N;
  z_sizeof_DDictHashSet : N;
  z_DDICT_HASHSET_TABLE_BASE_SIZE : N;
  z_DDICT_HASHSET_RESIZE_FACTOR : N;
  z_DDICT_HASHSET_MAX_LOAD_FACTOR_COUNT_MULT : N;
  z_DDICT_HASHSET_MAX_LOAD_FACTOR_SIZE_MULT : N
}.

Section Instances.
Variable zs : sizes.
Local Notation a_sizeof_POOL_ctx := (z_sizeof_POOL_ctx zs).
Local Notation a_sizeof_POOL_job := (z_sizeof_POOL_job zs).
Local Notation a_sizeof_pthread_t := (z_sizeof_pthread_t zs).
Local Notation a_sizeof_ZSTDMT_CCtx := (z_sizeof_ZSTDMT_CCtx zs).
Local Notation a_sizeof_jobDescription := (z_sizeof_jobDescription zs).
Local Notation a_sizeof_bufferPool := (z_sizeof_bufferPool zs).
Local Notation a_sizeof_buffer_t := (z_sizeof_buffer_t zs).
Local Notation a_sizeof_CCtxPool := (z_sizeof_CCtxPool zs).
Local Notation a_sizeof_ptr := (z_sizeof_ptr zs).
Local Notation a_sizeof_ZSTD_CCtx := (z_sizeof_ZSTD_CCtx zs).
Local Notation a_ZSTDMT_NBWORKERS_MAX := (z_ZSTDMT_NBWORKERS_MAX zs).
Local Notation a_sizeof_ZSTD_DCtx := (z_sizeof_ZSTD_DCtx zs).
Local Notation a_sizeof_ZSTD_DDict := (z_sizeof_ZSTD_DDict zs).
Local Notation a_sizeof_DDictHashSet := (z_sizeof_DDictHashSet zs).
Local Notation a_DDICT_HASHSET_TABLE_BASE_SIZE := (z_DDICT_HASHSET_TABLE_BASE_SIZE zs).
Local Notation a_DDICT_HASHSET_RESIZE_FACTOR := (z_DDICT_HASHSET_RESIZE_FACTOR zs).
Local Notation a_DDICT_HASHSET_MAX_LOAD_FACTOR_COUNT_MULT := (z_DDICT_HASHSET_MAX_LOAD_FACTOR_COUNT_MULT zs).
Local Notation a_DDICT_HASHSET_MAX_LOAD_FACTOR_SIZE_MULT := (z_DDICT_HASHSET_MAX_LOAD_FACTOR_SIZE_MULT zs).

(* ------------------------------------------------------------------ labels *)
(* thread pool object at base b (lib/common/pool.c) *)
Definition P_ctx (b : N) : lbl := b.
Definition P_queue (b : N) : lbl := b + 1.
Definition P_threads (b : N) : lbl := b + 2.
Definition P_new (b : N) : lbl := b + 3.
Definition P_cm (b : N) : flag := b.           (* ctx->customMem has been assigned *)
(* ZSTDMT_bufferPool / seqPool at base b (lib/compress/zstdmt_compress.c) *)
Definition B_pool (b : N) : lbl := b.
Definition B_array (b : N) : lbl := b + 1.
Definition B_tmp (b : N) : lbl := b + 2.        (* a buffer_t local of getBuffer / releaseBuffer / resizeBuffer *)
Definition B_tmp2 (b : N) : lbl := b + 3.
Definition B_fam (b : N) : fam := b.            (* buffers[0..nbBuffers) *)
Definition B_held (b : N) : fam := b + 1.       (* buffers handed out to jobs / the input buffer *)
Definition B_cm (b : N) : flag := b.
(* ZSTDMT_CCtxPool at base b *)
Definition C_pool (b : N) : lbl := b.
Definition C_array (b : N) : lbl := b + 1.
Definition C_tmp (b : N) : lbl := b + 2.        (* a ZSTD_CCtx* local *)
Definition C_tmpws (b : N) : lbl := b + 3.      (* its workspace *)
Definition C_fam (b : N) : fam := b.            (* cctxs[0..availCCtx) : the ZSTD_CCtx structs *)
Definition C_wsfam (b : N) : fam := b + 1.      (* the workspaces of those ZSTD_CCtx *)
Definition C_cm (b : N) : flag := b.
(* ZSTDMT_CCtx *)
Definition M_mtctx : lbl := 100.
Definition M_jobs : lbl := 101.
Definition M_round : lbl := 102.
Definition M_cdict : lbl := 103.                (* cdictLocal (one block: the CDict lives in its workspace) *)
Definition M_ldmHash : lbl := 104.
Definition M_ldmBucket : lbl := 105.
Definition M_factory : N := 110.
Definition M_bufPool : N := 120.
Definition M_cctxPool : N := 130.
Definition M_seqPool : N := 140.
Definition M_pending : flag := 150.             (* mtctx->params.nbWorkers == 0 : a resize did not complete *)
(* ZSTD_CCtx *)
Definition K_cctx : lbl := 200.
Definition K_ws : lbl := 201.
Definition K_dictBuf : lbl := 202.              (* localDict.dictBuffer *)
Definition K_lcdict : lbl := 203.               (* localDict.cdict *)
Definition K_haveDict : flag := 200.            (* localDict.dict != NULL *)
(* stand-alone CDict number k *)
Definition CD (k : N) : lbl := 220 + k.
(* ZSTD_DCtx *)
Definition D_dctx : lbl := 300.
Definition D_inBuff : lbl := 301.
Definition D_ddictLocal : lbl := 302.
Definition D_ddictLocalBuf : lbl := 303.
Definition D_set : lbl := 304.
Definition D_table : lbl := 305.
Definition D_newTable : lbl := 306.
Definition D_sizes : flag := 301.               (* inBuffSize / outBuffSize describe the current inBuff *)
(* stand-alone DDict number k *)
Definition DD (k : N) : lbl := 1000 + 2 * k.
Definition DDbuf (k : N) : lbl := 1001 + 2 * k.

(* procedure names (trace only) *)
Definition n_POOL_create : N := 1.   Definition n_POOL_free : N := 2.     Definition n_POOL_resize : N := 3.
Definition n_createJobs : N := 4.    Definition n_freeJobs : N := 5.      Definition n_expandJobs : N := 6.
Definition n_createBufPool : N := 7. Definition n_freeBufPool : N := 8.   Definition n_expandBufPool : N := 9.
Definition n_createCCtxPool : N := 10. Definition n_freeCCtxPool : N := 11. Definition n_expandCCtxPool : N := 12.
Definition n_mtCreate : N := 13.     Definition n_mtFree : N := 14.       Definition n_mtResize : N := 15.
Definition n_mtInit : N := 16.       Definition n_serialReset : N := 17.  Definition n_getBuffer : N := 18.
Definition n_releaseBuffer : N := 19. Definition n_resizeBuffer : N := 20. Definition n_getCCtx : N := 21.
Definition n_releaseCCtx : N := 22.  Definition n_releaseAllJobs : N := 23. Definition n_job : N := 24.
Definition n_createCCtx : N := 30.   Definition n_freeCCtx : N := 31.     Definition n_resetCCtx : N := 32.
Definition n_loadDict : N := 33.     Definition n_initLocalDict : N := 34. Definition n_compress : N := 35.
Definition n_createCDict : N := 36.  Definition n_freeCDict : N := 37.    Definition n_refCDict : N := 38.
Definition n_mtCompress : N := 39.   Definition n_copyCCtx : N := 40.
Definition n_createDCtx : N := 50.   Definition n_freeDCtx : N := 51.     Definition n_dstream : N := 52.
Definition n_dloadDict : N := 53.    Definition n_createDDict : N := 54.  Definition n_freeDDict : N := 55.
Definition n_refDDict : N := 56.     Definition n_createSet : N := 57.    Definition n_expandSet : N := 58.
Definition n_reset : N := 59.

(* ------------------------------------------------------------------ pool.c *)
Definition pool_free (b : N) : prog :=
  Call n_POOL_free (
    IfNull (P_ctx b) (Return true) Skip ;;
    Use (P_ctx b) ;;
    Free (P_queue b) (Some (P_cm b)) ;; Free (P_threads b) (Some (P_cm b)) ;; Free (P_ctx b) (Some (P_cm b)) ;;
    SetNull (P_queue b) ;; SetNull (P_threads b) ;; SetFlag (P_cm b) false ;;
    Return true).

(* POOL_create_advanced(numThreads, queueSize, customMem); the result lands in slot P_ctx b *)
Definition pool_create (b nt qs : N) : prog :=
  Call n_POOL_create (
    if nt =? 0 then Return false else
    Alloc (P_ctx b) true a_sizeof_POOL_ctx ;;
    IfNull (P_ctx b) (Return false) Skip ;;
    Alloc (P_queue b) true ((qs + 1) * a_sizeof_POOL_job) ;;
    Alloc (P_threads b) true (nt * a_sizeof_pthread_t) ;;
    SetFlag (P_cm b) true ;;
    IfNull (P_threads b) (pool_free b ;; SetNull (P_ctx b) ;; Return false)
      (IfNull (P_queue b) (pool_free b ;; SetNull (P_ctx b) ;; Return false) Skip) ;;
    Return true).

(* POOL_resize(ctx, numThreads) with ctx->threadCapacity = cap *)
Definition pool_resize (b cap n : N) : prog :=
  Call n_POOL_resize (
    IfNull (P_ctx b) (Return false) Skip ;;
    Use (P_ctx b) ;;
    if n <=? cap then (if n =? 0 then Return false else Return true) else
    Alloc (P_new b) true (n * a_sizeof_pthread_t) ;;
    IfNull (P_new b) (Return false) Skip ;;
    Use (P_threads b) ;;                            (* memcpy from the old array *)
    Free (P_threads b) (Some (P_cm b)) ;;
    Move (P_threads b) (P_new b) ;;
    Return true).

(* ------------------------------------------------------------------ zstdmt_compress.c : pools *)
Definition buf_pool_max (w : N) : N := 2 * w + 3.     (* BUF_POOL_MAX_NB_BUFFERS *)
Definition seq_pool_max (w : N) : N := w.             (* SEQ_POOL_MAX_NB_BUFFERS *)
Definition nb_jobs (w : N) : N := 2 ^ (N.log2 (w + 2) + 1).   (* 1 << (ZSTD_highbit32(nbWorkers+2) + 1) *)

Definition bufpool_free (b : N) : prog :=
  Call n_freeBufPool (
    IfNull (B_pool b) (Return true) Skip ;;
    Use (B_pool b) ;;
    IfNull (B_array b) Skip (FreeAll (B_fam b) (Some (B_cm b)) ;; Free (B_array b) (Some (B_cm b))) ;;
    Free (B_pool b) (Some (B_cm b)) ;;
    SetNull (B_array b) ;; ClearFam (B_fam b) ;; SetFlag (B_cm b) false ;;
    Return true).

(* ZSTDMT_createBufferPool(maxNbBuffers, cMem) ; repaired: cMem recorded before the second calloc *)
Definition bufpool_create (b n : N) : prog :=
  Call n_createBufPool (
    Alloc (B_pool b) true a_sizeof_bufferPool ;;
    IfNull (B_pool b) (Return false) Skip ;;
    SetFlag (B_cm b) true ;;
    Alloc (B_array b) true (n * a_sizeof_buffer_t) ;;
    IfNull (B_array b) (bufpool_free b ;; SetNull (B_pool b) ;; Return false) Skip ;;
    Return true).

(* ZSTDMT_expandBufferPool(pool, max) when the pool is too small (the caller tests pool == NULL and the size) *)
Definition bufpool_expand (b n : N) : prog :=
  Call n_expandBufPool (bufpool_free b ;; bufpool_create b n ;; IfErr (Return false) (Return true)).

(* ZSTDMT_getBuffer : the buffer lands in slot B_tmp b, then (the caller keeps it) in family B_held b *)
Definition get_buffer (b sz : N) : prog :=
  Call n_getBuffer (
    Use (B_pool b) ;;
    PopElse (B_fam b) (B_tmp b) Skip
      (Choice 1 (Return true)                              (* size conditions respected *)
                (Free (B_tmp b) (Some (B_cm b)) ;; SetNull (B_tmp b))) ;;
    Alloc (B_tmp b) false sz ;;
    IfNull (B_tmp b) (Return false) (Return true)).

(* ZSTDMT_releaseBuffer(pool, buf) with buf in slot B_tmp b *)
Definition release_buffer (b : N) : prog :=
  Call n_releaseBuffer (
    IfNull (B_tmp b) (Return true) Skip ;;
    Use (B_pool b) ;;
    Choice 2 (Push (B_fam b) (B_tmp b))                    (* nbBuffers < totalBuffers *)
             (Free (B_tmp b) (Some (B_cm b)) ;; SetNull (B_tmp b)) ;;
    Return true).

(* ZSTDMT_resizeBuffer(pool, buffer) with buffer in B_tmp b: the OLD buffer is not freed by this function;
   the caller (ZSTDMT_resizeSeq users) overwrites its copy - modelled as the code is: new block in B_tmp2 *)
Definition resize_buffer (b sz : N) : prog :=
  Call n_resizeBuffer (
    Use (B_pool b) ;;
    Choice 3 (Alloc (B_tmp2 b) false sz ;; IfNull (B_tmp2 b) (Return false) (Return true))   (* capacity < bSize *)
             (Return true)).

Definition cctxpool_free (b : N) : prog :=
  Call n_freeCCtxPool (
    IfNull (C_pool b) (Return true) Skip ;;
    Use (C_pool b) ;;
    IfNull (C_array b) Skip
      (FreeAll (C_wsfam b) None ;; FreeAll (C_fam b) None ;;       (* ZSTD_freeCCtx(cctxs[cid]) : workspace, then struct *)
       Free (C_array b) (Some (C_cm b))) ;;
    Free (C_pool b) (Some (C_cm b)) ;;
    SetNull (C_array b) ;; ClearFam (C_fam b) ;; ClearFam (C_wsfam b) ;; SetFlag (C_cm b) false ;;
    Return true).

(* ZSTDMT_createCCtxPool(nbWorkers, cMem) ; repaired *)
Definition cctxpool_create (b w : N) : prog :=
  Call n_createCCtxPool (
    Alloc (C_pool b) true a_sizeof_CCtxPool ;;
    IfNull (C_pool b) (Return false) Skip ;;
    SetFlag (C_cm b) true ;;
    Alloc (C_array b) true (w * a_sizeof_ptr) ;;
    IfNull (C_array b) (cctxpool_free b ;; SetNull (C_pool b) ;; Return false) Skip ;;
    Alloc (C_tmp b) false a_sizeof_ZSTD_CCtx ;;                   (* cctxs[0] = ZSTD_createCCtx_advanced *)
    IfNull (C_tmp b) (cctxpool_free b ;; SetNull (C_pool b) ;; Return false) Skip ;;
    Push (C_fam b) (C_tmp b) ;;
    Return true).

Definition cctxpool_expand (b w : N) : prog :=
  Call n_expandCCtxPool (cctxpool_free b ;; cctxpool_create b w ;; IfErr (Return false) (Return true)).

(* ZSTDMT_getCCtx: cctx (and its workspace, if it has one) in C_tmp / C_tmpws *)
Definition get_cctx (b : N) : prog :=
  Call n_getCCtx (
    Use (C_pool b) ;;
    PopElse (C_fam b) (C_tmp b)
      (Alloc (C_tmp b) false a_sizeof_ZSTD_CCtx ;; IfNull (C_tmp b) (Return false) (Return true))
      (Pop (C_wsfam b) (C_tmpws b) ;; Return true)).

(* ZSTDMT_releaseCCtx(pool, cctx) *)
Definition release_cctx (b : N) : prog :=
  Call n_releaseCCtx (
    IfNull (C_tmp b) (Return true) Skip ;;
    Use (C_pool b) ;;
    Choice 4 (Push (C_fam b) (C_tmp b) ;; Push (C_wsfam b) (C_tmpws b))     (* availCCtx < totalCCtx *)
             (Free (C_tmpws b) None ;; SetNull (C_tmpws b) ;; Free (C_tmp b) None ;; SetNull (C_tmp b)) ;;
    Return true).

(* ------------------------------------------------------------------ zstdmt_compress.c : the context *)
Definition jobs_free : prog :=
  Call n_freeJobs (IfNull M_jobs (Return true) Skip ;; Free M_jobs None ;; Return true).
Definition jobs_create (w : N) : prog :=
  Call n_createJobs (Alloc M_jobs true (nb_jobs w * a_sizeof_jobDescription) ;; IfNull M_jobs (Return false) (Return true)).
(* ZSTDMT_expandJobsTable when more capacity is needed *)
Definition jobs_expand (w : N) : prog :=
  Call n_expandJobs (jobs_free ;; SetNull M_jobs ;; jobs_create w ;; IfErr (Return false) (Return true)).

(* ZSTDMT_releaseAllJobResources (repaired: skips the table when it is NULL) *)
Definition release_all_jobs : prog :=
  Call n_releaseAllJobs (
    IfNull M_jobs Skip (Use M_jobs ;; IfEmpty (B_held M_bufPool) Skip (Use (B_pool M_bufPool) ;; Drain (B_held M_bufPool) (B_fam M_bufPool))) ;;
    Return true).

Definition serial_free : prog :=
  Free M_ldmHash None ;; Free M_ldmBucket None ;; SetNull M_ldmHash ;; SetNull M_ldmBucket.

Definition cdict_free (l : lbl) : prog :=
  Call n_freeCDict (IfNull l (Return true) Skip ;; Free l None ;; Return true).

Definition mtctx_free : prog :=
  Call n_mtFree (
    IfNull M_mtctx (Return true) Skip ;;
    Use M_mtctx ;;
    pool_free M_factory ;;
    release_all_jobs ;;
    jobs_free ;;
    bufpool_free M_bufPool ;;
    cctxpool_free M_cctxPool ;;
    bufpool_free M_seqPool ;;
    serial_free ;;
    cdict_free M_cdict ;;
    Free M_round None ;;
    Free M_mtctx None ;;
    (* the fields die with the struct *)
    SetNull (P_ctx M_factory) ;; SetNull M_jobs ;; SetNull (B_pool M_bufPool) ;; SetNull (C_pool M_cctxPool) ;;
    SetNull (B_pool M_seqPool) ;; SetNull M_cdict ;; SetNull M_round ;; SetFlag M_pending false ;;
    Return true).

Definition clampw (w : N) : N := N.min w a_ZSTDMT_NBWORKERS_MAX.

(* ZSTDMT_createCCtx_advanced_internal(nbWorkers, cMem, pool = NULL) *)
Definition mtctx_create (w0 : N) : prog :=
  Call n_mtCreate (
    if w0 =? 0 then Return false else
    let w := clampw w0 in
    Alloc M_mtctx true a_sizeof_ZSTDMT_CCtx ;;
    IfNull M_mtctx (Return false) Skip ;;
    pool_create M_factory w 0 ;;
    jobs_create w ;;
    bufpool_create M_bufPool (buf_pool_max w) ;;
    cctxpool_create M_cctxPool w ;;
    bufpool_create M_seqPool (seq_pool_max w) ;;
    let fail := mtctx_free ;; SetNull M_mtctx ;; Return false in
    IfNull (P_ctx M_factory) fail
    (IfNull M_jobs fail
    (IfNull (B_pool M_bufPool) fail
    (IfNull (C_pool M_cctxPool) fail
    (IfNull (B_pool M_seqPool) fail (Return true)))))).

(* ZSTDMT_resize(mtctx, nbWorkers) ; repaired (3a42f3b, 44900dc). cap = factory->threadCapacity;
   growJobs / growBuf / growCCtx / growSeq : whether the existing table / pool is too small *)
Definition mt_resize (cap w : N) (growJobs growBuf growCCtx growSeq : bool) : prog :=
  Call n_mtResize (
    SetFlag M_pending true ;;
    pool_resize M_factory cap w ;; IfErr (Return false) Skip ;;
    (* ZSTDMT_expandJobsTable: a table that is NULL has jobIDMask 0, hence is always too small *)
    IfNull M_jobs (jobs_expand w ;; IfErr (Return false) Skip)
                  (if growJobs then (jobs_expand w ;; IfErr (Return false) Skip) else Skip) ;;
    IfNull (B_pool M_bufPool) (bufpool_create M_bufPool (buf_pool_max w))
                  (if growBuf then bufpool_expand M_bufPool (buf_pool_max w) else Skip) ;;
    IfNull (B_pool M_bufPool) (Return false) Skip ;;
    IfNull (C_pool M_cctxPool) (cctxpool_create M_cctxPool w)
                  (if growCCtx then cctxpool_expand M_cctxPool w else Skip) ;;
    IfNull (C_pool M_cctxPool) (Return false) Skip ;;
    IfNull (B_pool M_seqPool) (bufpool_create M_seqPool (seq_pool_max w))
                  (if growSeq then bufpool_expand M_seqPool (seq_pool_max w) else Skip) ;;
    IfNull (B_pool M_seqPool) (Return false) Skip ;;
    SetFlag M_pending false ;;
    Return true).

(* ZSTDMT_serialState_reset with LDM enabled: both tables are tested only after both (re)allocations *)
Definition serial_reset (hsz bsz : N) : prog :=
  Call n_serialReset (
    IfNull M_ldmHash (Alloc M_ldmHash false hsz)
                     (Choice 5 (Free M_ldmHash None ;; Alloc M_ldmHash false hsz) Skip) ;;
    IfNull M_ldmBucket (Alloc M_ldmBucket false bsz)
                     (Choice 6 (Free M_ldmBucket None ;; Alloc M_ldmBucket false bsz) Skip) ;;
    IfNull M_ldmHash (Return false) (IfNull M_ldmBucket (Return false) (Return true))).

(* ZSTDMT_initCStream_internal(mtctx, dict?, ...): [resize] = the resize to run when the worker count differs
   (the model runs it when the environment says the count differs OR a previous resize did not complete);
   withDict = a dictionary / prefix is passed (cdictLocal re-created); ldm = LDM enabled.
   Repaired order (wait + release before the resize). *)
Definition mt_init (resize : prog) (withDict : bool) (dsz rsz : N) (ldm : bool) (hsz bsz : N) : prog :=
  Call n_mtInit (
    Use M_mtctx ;;
    release_all_jobs ;;
    IfFlag M_pending (resize ;; IfErr (Return false) Skip)
                     (Choice 7 (resize ;; IfErr (Return false) Skip) Skip) ;;
    Use (B_pool M_bufPool) ;; Use (C_pool M_cctxPool) ;; Use (B_pool M_seqPool) ;; Use M_jobs ;; Use (P_ctx M_factory) ;;
    (if withDict
     then cdict_free M_cdict ;; SetNull M_cdict ;; Alloc M_cdict false dsz ;; IfNull M_cdict (Return false) Skip
     else cdict_free M_cdict ;; SetNull M_cdict) ;;
    Choice 8 (Free M_round None ;; SetNull M_round ;; Alloc M_round false rsz ;; IfNull M_round (Return false) Skip) Skip ;;
    (if ldm then serial_reset hsz bsz ;; IfErr (Return false) Skip else Skip) ;;
    Return true).

(* one compression job as far as ownership goes (ZSTDMT_compressionJob): get a cctx, maybe a seq buffer, a dst
   buffer, (re)allocate the worker cctx workspace, then give everything back - on success and on error alike.
   The dst buffer stays with the job (family B_held) until it is flushed / released. *)
Definition mt_job (wsz bsz : N) : prog :=
  Call n_job (
    get_cctx M_cctxPool ;;
    IfErr (Return false) Skip ;;
    get_buffer M_bufPool bsz ;;
    IfErr (release_cctx M_cctxPool ;; Return false) Skip ;;
    (* workspace of the worker cctx: ZSTD_resetCCtx_internal *)
    IfNull (C_tmpws M_cctxPool)
       (Alloc (C_tmpws M_cctxPool) false wsz)
       (Choice 9 (Free (C_tmpws M_cctxPool) None ;; SetNull (C_tmpws M_cctxPool) ;; Alloc (C_tmpws M_cctxPool) false wsz) Skip) ;;
    IfNull (C_tmpws M_cctxPool)
       (release_cctx M_cctxPool ;; Push (B_held M_bufPool) (B_tmp M_bufPool) ;; Return false)
       Skip ;;
    release_cctx M_cctxPool ;;
    Push (B_held M_bufPool) (B_tmp M_bufPool) ;;
    Return true).

(* flushing a finished job: its dst buffer goes back to the pool *)
Definition mt_flush_job : prog :=
  PopElse (B_held M_bufPool) (B_tmp M_bufPool) Skip (release_buffer M_bufPool).

(* ------------------------------------------------------------------ zstd_compress.c *)
Definition cctx_create : prog :=
  Call n_createCCtx (Alloc K_cctx false a_sizeof_ZSTD_CCtx ;; IfNull K_cctx (Return false) (Return true)).

Definition clear_all_dicts : prog :=
  Free K_dictBuf None ;; cdict_free K_lcdict ;; SetNull K_dictBuf ;; SetNull K_lcdict ;; SetFlag K_haveDict false.

Definition cctx_free : prog :=
  Call n_freeCCtx (
    IfNull K_cctx (Return true) Skip ;;
    Use K_cctx ;;
    clear_all_dicts ;;
    mtctx_free ;; SetNull M_mtctx ;;
    Free K_ws None ;; SetNull K_ws ;;
    Free K_cctx None ;;
    Return true).

(* ZSTD_CCtx_loadDictionary_advanced *)
Definition load_dict (byRef : bool) (sz : N) : prog :=
  Call n_loadDict (
    Use K_cctx ;;
    clear_all_dicts ;;
    (if byRef then Skip else (Alloc K_dictBuf false sz ;; IfNull K_dictBuf (Return false) Skip)) ;;
    SetFlag K_haveDict true ;;
    Return true).

Definition ref_cdict : prog := Call n_refCDict (Use K_cctx ;; clear_all_dicts ;; Return true).

(* ZSTD_createCDict_advanced2 into slot l (one block: workspace containing the CDict); valid dictionary assumed *)
Definition cdict_create (l : lbl) (sz : N) : prog :=
  Call n_createCDict (Alloc l false sz ;; IfNull l (Return false) (Return true)).

(* ZSTD_initLocalDict *)
Definition init_local_dict (sz : N) : prog :=
  Call n_initLocalDict (
    IfFlag K_haveDict
      (IfNull K_lcdict (cdict_create K_lcdict sz ;; IfErr (Return false) (Return true)) (Return true))
      (Return true)).

(* workspace part of ZSTD_resetCCtx_internal: free + create when too small or wasteful *)
Definition ws_resize (sz : N) : prog :=
  Free K_ws None ;; SetNull K_ws ;; Alloc K_ws false sz ;; IfNull K_ws (Return false) Skip.
Definition reset_cctx (sz : N) : prog :=
  Call n_resetCCtx (
    IfNull K_ws (ws_resize sz) (Choice 10 (ws_resize sz) Skip) ;;
    Use K_ws ;;
    Return true).

(* a single-threaded compression (ZSTD_compress2 / compressStream2 first call): init local dict, reset *)
Definition compress_st (cdsz wsz : N) : prog :=
  Call n_compress (
    Use K_cctx ;;
    init_local_dict cdsz ;; IfErr (Return false) Skip ;;
    reset_cctx wsz ;; IfErr (Return false) Skip ;;
    Return true).

(* ZSTD_copyCCtx_internal (repaired: the reset error is forwarded) on a second context is the same reset *)
Definition session_reset : prog := Call n_reset (Return true).

(* a multi-threaded compression as far as ownership goes: mtctx creation on first use, init, then jobs *)
Definition compress_mt (w cap : N) (gj gb gc gs : bool) (withDict : bool) (dsz rsz : N) (ldm : bool) (hsz bsz : N)
                       (cdsz wsz jbsz : N) : prog :=
  Call n_mtCompress (
    Use K_cctx ;;
    init_local_dict cdsz ;; IfErr (Return false) Skip ;;
    IfNull M_mtctx (mtctx_create w ;; IfErr (Return false) Skip) Skip ;;
    mt_init (mt_resize cap w gj gb gc gs) withDict dsz rsz ldm hsz bsz ;; IfErr (Return false) Skip ;;
    Star (Choice 11 (mt_job wsz jbsz ;; IfErr (release_all_jobs ;; Return false) Skip) mt_flush_job) ;;
    release_all_jobs ;;
    Return true).

(* ------------------------------------------------------------------ zstd_ddict.c / zstd_decompress.c *)
Definition ddict_free (l lb : lbl) : prog :=
  Call n_freeDDict (IfNull l (Return true) Skip ;; Use l ;; Free lb None ;; Free l None ;; SetNull lb ;; Return true).

(* ZSTD_createDDict_advanced into slots (l, lb); valid dictionary assumed *)
Definition ddict_create (l lb : lbl) (byRef : bool) (sz : N) : prog :=
  Call n_createDDict (
    Alloc l false a_sizeof_ZSTD_DDict ;;
    IfNull l (Return false) Skip ;;
    (if byRef then Skip
     else (Alloc lb false sz ;; IfNull lb (ddict_free l lb ;; SetNull l ;; Return false) Skip)) ;;
    Return true).

Definition dctx_create : prog :=
  Call n_createDCtx (Alloc D_dctx false a_sizeof_ZSTD_DCtx ;; IfNull D_dctx (Return false) (Return true)).

Definition clear_dict : prog := ddict_free D_ddictLocal D_ddictLocalBuf ;; SetNull D_ddictLocal.

Definition set_free : prog :=
  IfNull D_set Skip (IfNull D_table Skip (Free D_table None) ;; Free D_set None ;; SetNull D_table).

Definition dctx_free : prog :=
  Call n_freeDCtx (
    IfNull D_dctx (Return true) Skip ;;
    Use D_dctx ;;
    clear_dict ;;
    Free D_inBuff None ;; SetNull D_inBuff ;;
    set_free ;; SetNull D_set ;;
    Free D_dctx None ;;
    SetFlag D_sizes false ;;
    Return true).

(* ZSTD_DCtx_loadDictionary_advanced *)
Definition dctx_load_dict (byRef : bool) (sz : N) : prog :=
  Call n_dloadDict (
    Use D_dctx ;;
    clear_dict ;;
    ddict_create D_ddictLocal D_ddictLocalBuf byRef sz ;;
    IfErr (Return false) (Return true)).

(* ZSTD_createDDictHashSet *)
Definition set_create : prog :=
  Call n_createSet (
    Alloc D_set false a_sizeof_DDictHashSet ;;
    IfNull D_set (Return false) Skip ;;
    Alloc D_table true (a_DDICT_HASHSET_TABLE_BASE_SIZE * a_sizeof_ptr) ;;
    IfNull D_table (Free D_set None ;; SetNull D_set ;; Return false) Skip ;;
    Return true).

(* ZSTD_DDictHashSet_expand with current table size tsz *)
Definition set_expand (tsz : N) : prog :=
  Call n_expandSet (
    Alloc D_newTable true (a_sizeof_ptr * (tsz * a_DDICT_HASHSET_RESIZE_FACTOR)) ;;
    IfNull D_newTable (Return false) Skip ;;
    Use D_table ;;                                      (* re-hash from the old table *)
    Free D_table None ;;
    Move D_table D_newTable ;;
    Return true).

(* load-factor test of ZSTD_DDictHashSet_addDDict *)
Definition set_needs_expand (count tsz : N) : bool :=
  negb ((count * a_DDICT_HASHSET_MAX_LOAD_FACTOR_COUNT_MULT / tsz * a_DDICT_HASHSET_MAX_LOAD_FACTOR_SIZE_MULT) =? 0).

(* ZSTD_DCtx_refDDict with ZSTD_d_refMultipleDDicts: count / tsz = current population and size of the set *)
Definition ref_ddict_multi (count tsz : N) : prog :=
  Call n_refDDict (
    Use D_dctx ;;
    clear_dict ;;
    IfNull D_set (set_create ;; IfErr (Return false) Skip) Skip ;;
    (if set_needs_expand count tsz then (set_expand tsz ;; IfErr (Return false) Skip) else Skip) ;;
    Use D_table ;;
    Return true).
(* the same with the expansion decided by the environment (for the all-history theorems) *)
Definition ref_ddict_multi_any (tsz : N) : prog :=
  Call n_refDDict (
    Use D_dctx ;;
    clear_dict ;;
    IfNull D_set (set_create ;; IfErr (Return false) Skip) Skip ;;
    Choice 12 (set_expand tsz ;; IfErr (Return false) Skip) Skip ;;
    Use D_table ;;
    Return true).

(* buffer (re)allocation of ZSTD_decompressStream (zdss_loadHeader): inBuff freed BEFORE the new malloc,
   sizes zeroed first; tooSmall || tooLarge is data dependent unless the sizes are zero *)
Definition dstream_resize (sz : N) : prog :=
  Free D_inBuff None ;; SetFlag D_sizes false ;; SetNull D_inBuff ;;
  Alloc D_inBuff false sz ;; IfNull D_inBuff (Return false) Skip ;;
  SetFlag D_sizes true.
Definition dstream (sz : N) : prog :=
  Call n_dstream (
    Use D_dctx ;;
    IfFlag D_sizes (Choice 13 (dstream_resize sz) Skip) (dstream_resize sz) ;;
    Use D_inBuff ;;
    Return true).

(* ------------------------------------------------------------------ environment-decided variants
   (every data-dependent test is a Choice: one program shape covers all parameter values) *)
Definition mt_resize_any (cap w : N) : prog :=
  Call n_mtResize (
    SetFlag M_pending true ;;
    Call n_POOL_resize (
      IfNull (P_ctx M_factory) (Return false) Skip ;; Use (P_ctx M_factory) ;;
      Choice 20 (Return true)
        (Alloc (P_new M_factory) true (w * a_sizeof_pthread_t) ;; IfNull (P_new M_factory) (Return false) Skip ;;
         Use (P_threads M_factory) ;; Free (P_threads M_factory) (Some (P_cm M_factory)) ;;
         Move (P_threads M_factory) (P_new M_factory) ;; Return true)) ;;
    IfErr (Return false) Skip ;;
    IfNull M_jobs (jobs_expand w ;; IfErr (Return false) Skip)
                  (Choice 21 (jobs_expand w ;; IfErr (Return false) Skip) Skip) ;;
    IfNull (B_pool M_bufPool) (bufpool_create M_bufPool (buf_pool_max w))
                  (Choice 22 (bufpool_expand M_bufPool (buf_pool_max w)) Skip) ;;
    IfNull (B_pool M_bufPool) (Return false) Skip ;;
    IfNull (C_pool M_cctxPool) (cctxpool_create M_cctxPool w)
                  (Choice 23 (cctxpool_expand M_cctxPool w) Skip) ;;
    IfNull (C_pool M_cctxPool) (Return false) Skip ;;
    IfNull (B_pool M_seqPool) (bufpool_create M_seqPool (seq_pool_max w))
                  (Choice 24 (bufpool_expand M_seqPool (seq_pool_max w)) Skip) ;;
    IfNull (B_pool M_seqPool) (Return false) Skip ;;
    SetFlag M_pending false ;;
    Return true).

Definition mt_init_any (cap w dsz rsz hsz bsz : N) : prog :=
  Call n_mtInit (
    Use M_mtctx ;;
    release_all_jobs ;;
    IfFlag M_pending (mt_resize_any cap w ;; IfErr (Return false) Skip)
                     (Choice 7 (mt_resize_any cap w ;; IfErr (Return false) Skip) Skip) ;;
    Use (B_pool M_bufPool) ;; Use (C_pool M_cctxPool) ;; Use (B_pool M_seqPool) ;; Use M_jobs ;; Use (P_ctx M_factory) ;;
    Choice 25 (cdict_free M_cdict ;; SetNull M_cdict ;; Alloc M_cdict false dsz ;; IfNull M_cdict (Return false) Skip)
              (cdict_free M_cdict ;; SetNull M_cdict) ;;
    Choice 8 (Free M_round None ;; SetNull M_round ;; Alloc M_round false rsz ;; IfNull M_round (Return false) Skip) Skip ;;
    Choice 26 (serial_reset hsz bsz ;; IfErr (Return false) Skip) Skip ;;
    Return true).

(* a multi-threaded compression of any length: mtctx creation on first use (w >= 1), init, any number of jobs /
   flushes, any of which may fail *)
Definition compress_mt_any (w cap dsz rsz hsz bsz cdsz wsz jbsz : N) : prog :=
  Call n_mtCompress (
    Use K_cctx ;;
    init_local_dict cdsz ;; IfErr (Return false) Skip ;;
    IfNull M_mtctx (mtctx_create (N.succ w) ;; IfErr (Return false) Skip) Skip ;;
    mt_init_any cap (N.succ w) dsz rsz hsz bsz ;; IfErr (Return false) Skip ;;
    Star (Choice 11 (mt_job wsz jbsz ;; IfErr (release_all_jobs ;; Return false) Skip) mt_flush_job) ;;
    release_all_jobs ;;
    Return true).

Definition compress_st_op (resize : bool) (wsz cdsz : N) : prog :=
  Call n_compress (
    Use K_cctx ;; init_local_dict cdsz ;; IfErr (Return false) Skip ;;
    Call n_resetCCtx (IfNull K_ws (ws_resize wsz) (if resize then ws_resize wsz else Skip) ;; Use K_ws ;; Return true) ;;
    IfErr (Return false) Skip ;; Return true).

Definition dstream_op (resize : bool) (sz : N) : prog :=
  Call n_dstream (
    Use D_dctx ;;
    IfFlag D_sizes (if resize then dstream_resize sz else Skip) (dstream_resize sz) ;;
    Use D_inBuff ;; Return true).

(* ------------------------------------------------------------------ observation-driven variants for the correspondence:
   the data-dependent test is decided by the NUMBER OF ALLOCATION ATTEMPTS n the real call was seen to make; what
   is allocated first, what is freed before it, what is tested and what is returned remains the model's prediction *)
Definition compress_obs (n wsz cdsz : N) : prog :=
  IfFlag K_haveDict
    (IfNull K_lcdict (compress_st_op (2 <=? n) wsz cdsz) (compress_st_op (1 <=? n) wsz cdsz))
    (compress_st_op (1 <=? n) wsz cdsz).
Definition dstream_obs (n sz : N) : prog := dstream_op (1 <=? n) sz.
Definition ref_ddict_obs (n tsz : N) : prog :=
  Call n_refDDict (
    Use D_dctx ;;
    clear_dict ;;
    IfNull D_set (set_create ;; IfErr (Return false) Skip)
                 (if 1 <=? n then (set_expand tsz ;; IfErr (Return false) Skip) else Skip) ;;
    Use D_table ;;
    Return true).

(* ZSTDMT_resize with the grow decisions computed as the C code computes them from the state it finds:
   cap = factory->threadCapacity, jobsCap = jobIDMask+1, bufTot / seqTot = totalBuffers of the two buffer pools,
   cctxTot = totalCCtx (values of tables / pools that are NULL are irrelevant: the NULL test comes first) *)
Definition mt_resize_state (cap jobsCap bufTot cctxTot seqTot w : N) : prog :=
  mt_resize cap w (jobsCap <? w + 2) (bufTot <? buf_pool_max w) (cctxTot <? w) (seqTot <? seq_pool_max w).

(* ------------------------------------------------------------------ API-level operations
   (shared by the all-history theorems and by the correspondence runs) *)
Inductive op : Type :=
| OPoolCreate (nt qs : N) | OPoolResize (cap n : N) | OPoolFree
| OMtCreate (w : N) | OMtFree
| OCCtxCreate | OCCtxFree
| OLoadDict (byRef : bool) (sz : N)
| OCompress (resize : bool) (wsz cdsz : N)        (* single thread; resize: the workspace is too small / wasteful *)
| OCompressAny (wsz cdsz : N)                     (* the same, test decided by the environment *)
| OCompressMT (w cap dsz rsz hsz bsz cdsz wsz jbsz : N)   (* nbWorkers = w+1 *)
| ORefCDict | OReset
| OCDictCreate (k sz : N) | OCDictFree (k : N)
| ODCtxCreate | ODCtxFree
| ODLoadDict (byRef : bool) (sz : N)
| ODStream (resize : bool) (sz : N) | ODStreamAny (sz : N)
| ORefDDict (count tsz : N) | ORefDDictAny (tsz : N)
| ODDictCreate (k : N) (byRef : bool) (sz : N) | ODDictFree (k : N)
| OCompressObs (n wsz cdsz : N) | ODStreamObs (n sz : N) | ORefDDictObs (n tsz : N)
| OMtResize (cap jobsCap bufTot cctxTot seqTot w : N).

Definition op_prog (o : op) : prog :=
  match o with
  | OPoolCreate nt qs => pool_create 10 nt qs
  | OPoolResize cap n => pool_resize 10 cap n
  | OPoolFree => pool_free 10
  | OMtCreate w => mtctx_create w
  | OMtFree => mtctx_free
  | OCCtxCreate => cctx_create
  | OCCtxFree => cctx_free
  | OLoadDict r sz => load_dict r sz
  | OCompress r wsz cdsz => compress_st_op r wsz cdsz
  | OCompressAny wsz cdsz => compress_st cdsz wsz
  | OCompressMT w cap dsz rsz hsz bsz cdsz wsz jbsz => compress_mt_any w cap dsz rsz hsz bsz cdsz wsz jbsz
  | ORefCDict => ref_cdict
  | OReset => session_reset
  | OCDictCreate k sz => cdict_create (CD k) sz
  | OCDictFree k => cdict_free (CD k)
  | ODCtxCreate => dctx_create
  | ODCtxFree => dctx_free
  | ODLoadDict r sz => dctx_load_dict r sz
  | ODStream r sz => dstream_op r sz
  | ODStreamAny sz => dstream sz
  | ORefDDict c t => ref_ddict_multi c t
  | ORefDDictAny t => ref_ddict_multi_any t
  | ODDictCreate k r sz => ddict_create (DD k) (DDbuf k) r sz
  | ODDictFree k => ddict_free (DD k) (DDbuf k)
  | OCompressObs n wsz cdsz => compress_obs n wsz cdsz
  | ODStreamObs n sz => dstream_obs n sz
  | ORefDDictObs n tsz => ref_ddict_obs n tsz
  | OMtResize cap jobsCap bufTot cctxTot seqTot w => mt_resize_state cap jobsCap bufTot cctxTot seqTot w
  end.

(* one API call: failure bookkeeping restarts, the call never "returns" out of the sequence *)
Definition api (o : op) : prog := Forget ;; Call 0 (op_prog o).

Fixpoint ops_prog (ops : list op) : prog :=
  match ops with
  | [] => Skip
  | o :: r => api o ;; ops_prog r
  end.

(* decoding of (code, parameters) lines of the correspondence driver *)
Definition p0 (l : list N) : N := nth 0 l 0.
Definition p1 (l : list N) : N := nth 1 l 0.
Definition p2 (l : list N) : N := nth 2 l 0.
Definition p3 (l : list N) : N := nth 3 l 0.
Definition p4 (l : list N) : N := nth 4 l 0.
Definition p5 (l : list N) : N := nth 5 l 0.
Definition nz (n : N) : bool := negb (n =? 0).
Definition op_of_code (code : N) (ps : list N) : op :=
  match code with
  | 1 => OPoolCreate (p0 ps) (p1 ps)
  | 2 => OPoolResize (p0 ps) (p1 ps)
  | 3 => OPoolFree
  | 4 => OMtCreate (p0 ps)
  | 5 => OMtFree
  | 10 => OCCtxCreate
  | 11 => OCCtxFree
  | 12 => OLoadDict (nz (p0 ps)) (p1 ps)
  | 13 => OCompress (nz (p0 ps)) (p1 ps) (p2 ps)
  | 14 => ORefCDict
  | 15 => OCDictCreate (p0 ps) (p1 ps)
  | 16 => OCDictFree (p0 ps)
  | 20 => ODCtxCreate
  | 21 => ODCtxFree
  | 22 => ODLoadDict (nz (p0 ps)) (p1 ps)
  | 23 => ODStream (nz (p0 ps)) (p1 ps)
  | 24 => ODDictCreate (p0 ps) (nz (p1 ps)) (p2 ps)
  | 25 => ODDictFree (p0 ps)
  | 26 => ORefDDict (p0 ps) (p1 ps)
  | 17 => OCompressObs (p0 ps) (p1 ps) (p2 ps)
  | 27 => ODStreamObs (p0 ps) (p1 ps)
  | 28 => ORefDDictObs (p0 ps) (p1 ps)
  | 6 => OMtResize (p0 ps) (p1 ps) (p2 ps) (p3 ps) (p4 ps) (p5 ps)
  | _ => OReset
  end.

(* what the correspondence compares: for every API call of the scenario, its status and the number of failed
   allocations so far are visible in the trace (EvCall 0 ... EvRet); trace oldest event first *)
Definition run_ops (ops : list (N * list N)) (faults : list nat) : list event * list nat * list err :=
  let s := fst (run (oracle_of faults [] []) (ops_prog (map (fun x => op_of_code (fst x) (snd x)) ops)) init_state) in
  (rev (trace s), live s, errs s).

End Instances.
