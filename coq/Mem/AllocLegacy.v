(* C13 (round 2) - the legacy stream decoders behind ZSTD_decompressStream (lib/legacy/zstd_legacy.h ZSTD_initLegacyStream /
   ZSTD_freeLegacyStreamContext, ZBUFFv05/06/07_createDCtx / _freeDCtx / _decompressContinue buffer (re)allocation, the
   legacyContext field of ZSTD_DCtx freed by ZSTD_freeDCtx), transcribed in the allocation language of AllocDsl.v.
   Model only: NO proofs in this file.

   [repair] selects, site by site, the code as found in /repo on 2026-10-02 (false) or the repaired code (true):
     r_size  - ZBUFFv0x_decompressContinue records inBuffSize / outBuffSize only after the malloc succeeded
               (found: recorded before; finding legacy-stream-stale-buffer-size)
     r_dang  - ZSTD_initLegacyStream clears the legacyContext field after freeing the context of the previous version and creates
               a context whenever that field is NULL (found: pointer left dangling when the creation fails;
               finding legacy-stream-context-dangling-after-failed-version-switch)
     r_chk   - ZBUFFv05_createDCtx tests the result of ZSTDv05_createDCtx (found: not tested; v0.6 / v0.7 always did;
               finding zbuffv05-create-unchecked-dctx) *)
From Coq Require Import NArith List Bool.
From ZV.Mem Require Import AllocDsl.
Import ListNotations.
Local Open Scope N_scope.

Record repair : Type := mkRepair { r_size : bool; r_dang : bool; r_chk : bool }.
Definition repaired : repair := mkRepair true true true.
Definition as_found : repair := mkRepair false false false.

Definition X_dctx : lbl := 400.   (* the ZSTD_DCtx *)
Definition X_leg : lbl := 401.    (* dctx->legacyContext : ZBUFFv0x_DCtx *)
Definition X_new : lbl := 402.    (* the local [dctx] of ZSTD_initLegacyStream / [zbd] of ZBUFFv0x_createDCtx *)
Definition X_zd : lbl := 403.     (* zbd->zd : ZSTDv0x_DCtx *)
Definition X_in : lbl := 404.     (* zbd->inBuff *)
Definition X_out : lbl := 405.    (* zbd->outBuff *)
Definition XF_in : flag := 410.   (* zbd->inBuffSize describes a buffer (> 0) *)
Definition XF_out : flag := 411.
Definition XF_sw : flag := 412.   (* prevVersion != newVersion *)
Definition XF_gi : flag := 413.   (* inBuffSize < needed, when a size is recorded *)
Definition XF_go : flag := 414.   (* outBuffSize < needed, when a size is recorded *)
(* round 3: the other two things a DCtx does with legacy and modern frames *)
Definition X_tmp : lbl := 406.    (* the ZSTDv0x_DCtx ZSTD_decompressLegacy creates and frees inside one single-call decoding *)
Definition X_buf : lbl := 407.    (* dctx->inBuff (+ outBuff, one block): streaming of a MODERN frame on the same DCtx *)
Definition XF_buf : flag := 415.  (* inBuffSize / outBuffSize describe X_buf *)

Definition n_lcreate : N := 70.  Definition n_lfree : N := 71.    Definition n_lstream : N := 72.
Definition n_linit : N := 73.    Definition n_zbfree : N := 74.   Definition n_zbcreate : N := 75.
Definition n_loneshot : N := 76. Definition n_lmodern : N := 77.

Section Legacy.
Variable rp : repair.
Variables (sz_dctx sz_zb sz_zd : N).

(* ZBUFFv0x_freeDCtx(the legacy context) through ZSTD_freeLegacyStreamContext: NULL tolerated; the pointer the caller holds
   is NOT cleared here *)
Definition zb_free : prog :=
  Call n_zbfree (
    IfNull X_leg (Return true) Skip ;;
    Use X_leg ;;
    Free X_zd None ;; SetNull X_zd ;;
    Free X_in None ;; SetNull X_in ;;
    Free X_out None ;; SetNull X_out ;;
    SetFlag XF_in false ;; SetFlag XF_out false ;;
    Free X_leg None ;;
    Return true).

(* ZBUFFv0x_createDCtx: the struct, then the inner ZSTDv0x_DCtx; result in the local X_new *)
Definition zb_create : prog :=
  Call n_zbcreate (
    Alloc X_new true sz_zb ;; IfNull X_new (Return false) Skip ;;
    Alloc X_zd false sz_zd ;;
    (if r_chk rp then IfNull X_zd (Free X_new None ;; SetNull X_new ;; Return false) Skip else Skip) ;;
    Return true).

(* ZSTD_initLegacyStream(&zds->legacyContext, prevVersion, newVersion, dict) *)
Definition init_legacy : prog :=
  Call n_linit (
    IfFlag XF_sw (zb_free ;; (if r_dang rp then SetNull X_leg else Skip)) Skip ;;
    (if r_dang rp
     then IfNull X_leg (zb_create ;; IfErr (Return false) Skip ;; Move X_leg X_new) Skip
     else IfFlag XF_sw (zb_create ;; IfErr (Return false) Skip ;; Move X_leg X_new)
                       (IfNull X_leg (Return false) Skip)) ;;
    Use X_leg ;; Use X_zd ;;          (* ZBUFFv0x_decompressInitDictionary: stage, positions, ZSTDv0x_decompressBegin(zd) *)
    Return true).

(* the buffer (re)allocation of ZBUFFv0x_decompressContinue once the frame header is known: [if (size < needed)] is
   data dependent unless the recorded size is 0 *)
Definition grow (l : lbl) (f : flag) (sz : N) : prog :=
  Free l None ;; SetNull l ;;
  (if r_size rp then SetFlag f false else SetFlag f true) ;;
  Alloc l false sz ;; IfNull l (Return false) Skip ;;
  SetFlag f true.
Definition zb_buffers (isz osz : N) : prog :=
  IfFlag XF_in (IfFlag XF_gi (grow X_in XF_in isz) Skip) (grow X_in XF_in isz) ;;
  IfFlag XF_out (IfFlag XF_go (grow X_out XF_out osz) Skip) (grow X_out XF_out osz) ;;
  Use X_in ;; Use X_out.

(* one legacy frame through ZSTD_decompressStream (zstd_decompress.c:2170-2190): init, then the legacy decoder.  The three
   data-dependent tests of the call (version switch, inBuff too small, outBuff too small) are drawn first, so that every
   call consumes exactly three decisions of the oracle (the tie searches them call by call) *)
Definition lstream (isz osz : N) : prog :=
  Call n_lstream (
    Choice 30 (SetFlag XF_sw true) (SetFlag XF_sw false) ;;
    Choice 31 (SetFlag XF_gi true) (SetFlag XF_gi false) ;;
    Choice 32 (SetFlag XF_go true) (SetFlag XF_go false) ;;
    Use X_dctx ;;
    init_legacy ;; IfErr (Return false) Skip ;;
    Use X_leg ;;
    zb_buffers isz osz ;;
    Return true).

Definition ldctx_create : prog :=
  Call n_lcreate (Alloc X_dctx false sz_dctx ;; IfNull X_dctx (Return false) (Return true)).

(* ZSTD_freeDCtx: if (dctx->legacyContext) ZSTD_freeLegacyStreamContext(dctx->legacyContext, dctx->previousLegacyVersion) *)
Definition ldctx_free : prog :=
  Call n_lfree (
    IfNull X_dctx (Return true) Skip ;;
    Use X_dctx ;;
    zb_free ;;
    Free X_buf None ;; SetNull X_buf ;; SetFlag XF_buf false ;;
    Free X_dctx None ;;
    SetNull X_leg ;;                  (* the struct holding the field is gone *)
    Return true).

(* round 3.  ZSTD_decompressDCtx / ZSTD_decompress_usingDict of a legacy frame (zstd_legacy.h ZSTD_decompressLegacy, versions
   0.4 - 0.7): a decoder context of that version is created, used and released inside the call; the DCtx's legacy STREAM
   context is not involved *)
Definition loneshot : prog :=
  Call n_loneshot (
    Use X_dctx ;;
    Alloc X_tmp false sz_zd ;; IfNull X_tmp (Return false) Skip ;;
    Use X_tmp ;; Free X_tmp None ;; SetNull X_tmp ;;
    Return true).

(* a MODERN frame streamed through the same DCtx (zstd_decompress.c zdss_loadHeader): the stream buffer is released BEFORE the
   new one is requested, the recorded sizes are zeroed first.  [n] decides the data-dependent test "too small or oversized for
   too long": 0 = the environment, 1 = no, anything else = yes (the tie passes 1 + the number of allocation attempts seen) *)
Definition lbuf_resize (sz : N) : prog :=
  Free X_buf None ;; SetFlag XF_buf false ;; SetNull X_buf ;;
  Alloc X_buf false sz ;; IfNull X_buf (Return false) Skip ;;
  SetFlag XF_buf true.
Definition lmodern (n sz : N) : prog :=
  Call n_lmodern (
    Use X_dctx ;;
    IfFlag XF_buf (match n with 0 => Choice 33 (lbuf_resize sz) Skip | 1 => Skip | _ => lbuf_resize sz end) (lbuf_resize sz) ;;
    Use X_buf ;;
    Return true).

Inductive lop : Type := LCreate | LFree | LStream (isz osz : N) | LOneShot | LModern (n sz : N).

Definition lop_prog (o : lop) : prog :=
  match o with
  | LCreate => ldctx_create
  | LFree => ldctx_free
  | LStream i o => lstream i o
  | LOneShot => loneshot
  | LModern n sz => lmodern n sz
  end.
Definition lapi (o : lop) : prog := Forget ;; Call 0 (lop_prog o).

(* the well-behaved caller (same discipline as AllocClient.client) *)
Definition lclient (o : lop) : prog :=
  match o with
  | LCreate => IfNull X_dctx (lapi o) Skip
  | LFree => lapi o ;; SetNull X_dctx
  | LStream _ _ | LOneShot | LModern _ _ => IfNull X_dctx Skip (lapi o)
  end.
Fixpoint lsession (ops : list lop) : prog :=
  match ops with
  | [] => Skip
  | o :: r => lclient o ;; Forget ;; lsession r
  end.
Definition lteardown : prog := lclient LFree.
Definition lreps : list lop := [LCreate; LFree; LStream 0 0; LOneShot; LModern 0 0; LModern 1 0; LModern 2 0].

(* the scenario interpreter of the tie: the API calls a run of harness/c13_fault.c made, as (code, parameters) *)
Definition lop_of_code (code : N) (ps : list N) : lop :=
  match code with
  | 1 => LCreate
  | 2 => LFree
  | 4 => LModern (nth 0 ps 0) (nth 1 ps 0)
  | 5 => LOneShot
  | _ => LStream (nth 0 ps 0) (nth 1 ps 0)
  end.
Fixpoint lops_prog (ops : list lop) : prog :=
  match ops with
  | [] => Skip
  | o :: r => lapi o ;; lops_prog r
  end.
Definition run_lops_gen (ops : list (N * list N)) (faults : list nat) (choices : list bool) : list event * list nat * list err :=
  let s := fst (run (oracle_of faults choices []) (lops_prog (map (fun x => lop_of_code (fst x) (snd x)) ops)) init_state) in
  (rev (trace s), live s, errs s).

End Legacy.

(* the tie runs the repaired code's transcription; sizes 0 = not predicted *)
Definition run_lops := run_lops_gen repaired 0 0 0.

(* ------------------------------------------------------------------ lib/common/pool.c POOL_create_advanced with the
   initialisation of its mutex and two conditions able to fail (pthread_mutex_init / pthread_cond_init; in a
   DEBUGLEVEL >= 1 build each of them is a ZSTD_malloc in lib/common/threading.c).  [fixed = false]: as found
   (POOL_free on the error path: locks the mutex, frees through ctx->customMem which is still all-zero);
   [fixed = true]: the objects destroyed and the two blocks released through the caller's customMem by hand. *)
Definition Y_ctx : lbl := 420.  Definition Y_queue : lbl := 421.  Definition Y_threads : lbl := 422.
Definition Y_mutex : lbl := 423. (* the mutex object: "allocated" = initialised *)
Definition YF_cm : flag := 430.  (* ctx->customMem has been recorded *)
Definition n_pcreate : N := 80.  Definition n_pfree : N := 81.

Definition pool_free_y : prog :=
  Call n_pfree (
    IfNull Y_ctx (Return true) Skip ;;
    Use Y_ctx ;; Use Y_mutex ;;                          (* POOL_join locks queueMutex *)
    Free Y_mutex None ;; SetNull Y_mutex ;;
    Free Y_queue (Some YF_cm) ;; SetNull Y_queue ;;
    Free Y_threads (Some YF_cm) ;; SetNull Y_threads ;;
    Free Y_ctx (Some YF_cm) ;;
    Return true).

Definition pool_create_y (fixed : bool) (sz_ctx sz_q sz_t : N) : prog :=
  Call n_pcreate (
    SetFlag YF_cm false ;;
    Alloc Y_ctx true sz_ctx ;; IfNull Y_ctx (Return false) Skip ;;
    Alloc Y_queue true sz_q ;;
    Alloc Y_mutex false 0 ;;                             (* the three init calls, one combined error *)
    IfNull Y_mutex
      (if fixed
       then (SetFlag YF_cm true ;; Free Y_queue (Some YF_cm) ;; SetNull Y_queue ;; Free Y_ctx (Some YF_cm) ;; SetNull Y_ctx ;; Return false)
       else (pool_free_y ;; SetNull Y_ctx ;; Return false))
      Skip ;;
    Alloc Y_threads true sz_t ;;
    SetFlag YF_cm true ;;
    IfNull Y_threads (pool_free_y ;; SetNull Y_ctx ;; Return false)
      (IfNull Y_queue (pool_free_y ;; SetNull Y_ctx ;; Return false) Skip) ;;
    Return true).
