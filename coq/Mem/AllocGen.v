(* C13 - the [sizes] record instantiated with the constants regenerated from the CURRENT /repo sources
   (coq/Gen/Gen_Alloc.v, written by harness/c13_dump.c on every run), for the correspondence runs, and the
   executable comparison of the model's size formulas with the macro samples dumped from the headers.
   Model only: NO proofs in this file. *)
From Coq Require Import NArith List Bool.
From ZV.Mem Require Import AllocDsl AllocInstances AllocBorrow.
Require ZV.Gen.Gen_Alloc.
Import ListNotations.
Local Open Scope N_scope.

Definition gen_sizes : sizes :=
  mkSizes Gen_Alloc.a_sizeof_POOL_ctx Gen_Alloc.a_sizeof_POOL_job Gen_Alloc.a_sizeof_pthread_t
          Gen_Alloc.a_sizeof_ZSTDMT_CCtx Gen_Alloc.a_sizeof_jobDescription Gen_Alloc.a_sizeof_bufferPool
          Gen_Alloc.a_sizeof_buffer_t Gen_Alloc.a_sizeof_CCtxPool Gen_Alloc.a_sizeof_ptr Gen_Alloc.a_sizeof_ZSTD_CCtx
          Gen_Alloc.a_ZSTDMT_NBWORKERS_MAX Gen_Alloc.a_sizeof_ZSTD_DCtx Gen_Alloc.a_sizeof_ZSTD_DDict
          Gen_Alloc.a_sizeof_DDictHashSet Gen_Alloc.a_DDICT_HASHSET_TABLE_BASE_SIZE
          Gen_Alloc.a_DDICT_HASHSET_RESIZE_FACTOR Gen_Alloc.a_DDICT_HASHSET_MAX_LOAD_FACTOR_COUNT_MULT
          Gen_Alloc.a_DDICT_HASHSET_MAX_LOAD_FACTOR_SIZE_MULT.

(* the scenario interpreter of the correspondence, with the current sizes *)
Definition run_ops_gen (ops : list (N * list N)) (faults : list nat) : list event * list nat * list err :=
  run_ops gen_sizes ops faults.

(* BUF_POOL_MAX_NB_BUFFERS / SEQ_POOL_MAX_NB_BUFFERS / the jobs-table size as the model writes them vs the values
   the C macros / inline code produce for the sampled worker counts *)
Definition formulas_agree : bool :=
  forallb (fun p => N.eqb (buf_pool_max (fst p)) (snd p)) Gen_Alloc.a_buf_pool_max_samples &&
  forallb (fun p => N.eqb (seq_pool_max (fst p)) (snd p)) Gen_Alloc.a_seq_pool_max_samples &&
  forallb (fun p => N.eqb (nb_jobs (fst p)) (snd p)) Gen_Alloc.a_nbjobs_samples &&
  negb (N.eqb Gen_Alloc.a_ZSTDMT_NBWORKERS_MAX 0) &&
  negb (N.eqb Gen_Alloc.a_DDICT_HASHSET_TABLE_BASE_SIZE 0) && N.leb 2 Gen_Alloc.a_DDICT_HASHSET_RESIZE_FACTOR.

(* round 3: the scenario interpreter of the borrowed-DDict tie (AllocBorrow, repaired ZSTD_DCtx_refDDict and frame start, 40 DDict handles) with
   the current sizes; the first expansion of the set doubles the base table *)
Definition run_bops (ops : list (N * list N)) (faults : list nat) : list event * list nat * list err :=
  run_bops_gen true true 40 Gen_Alloc.a_sizeof_ZSTD_DCtx Gen_Alloc.a_sizeof_DDictHashSet
    (Gen_Alloc.a_DDICT_HASHSET_TABLE_BASE_SIZE * Gen_Alloc.a_sizeof_ptr) Gen_Alloc.a_sizeof_ZSTD_DDict ops faults.
