(* C06 - model of the buffer-less frame API used as a call history
   (lib/compress/zstd_compress.c: ZSTD_compressContinue_internal(frame=1) / ZSTD_compressEnd_public, the
   stage / consumedSrcSize / producedCSize bookkeeping that feeds the [savings] of ZSTD_compress_frameChunk)
   and of one ZSTDMT compression job built on it (lib/compress/zstdmt_compress.c: ZSTDMT_compressionJob,
   ZSTDMT_writeLastEmptyBlock, the unchecked 4-byte checksum store of ZSTDMT_flushProduced), writing into ONE
   destination buffer whose remaining capacity shrinks from call to call.
   Model only: NO proofs in this file. *)
From Coq Require Import ZArith List Bool.
From ZV.Gen Require Gen_Tables.
From ZV.Mem Require Import CompressBound.
Import ListNotations.
Local Open Scope Z_scope.

Inductive cstage : Type := StInit | StOngoing | StEnding.

Record cstate : Type := mk_cstate {
  cs_stage : cstage;
  cs_consumed : Z;      (* cctx->consumedSrcSize *)
  cs_produced : Z }.    (* cctx->producedCSize *)

Definition cstate0 : cstate := mk_cstate StInit 0 0.

Inductive cres : Type :=
| CDone (written capLeft : Z) (st : cstate)
| CTooSmall
| COverrun            (* a store past the end of the buffer (only the unchecked checksum store can produce it) *)
| CFuel.

(* one call of the frame API carries its own oracles (the theorems quantify over all of them) *)
Record call : Type := mk_call {
  c_len : Z;
  c_bc : block_compressor;
  c_split : nat -> Z }.

(* ZSTD_compressContinue_internal(cctx, dst, cap, src, len, frame = 1, lastFrameChunk = last) *)
Definition compress_continue (fuel : nat) (bsMax hs : Z) (st : cstate) (c : call) (cap : Z) (last : bool) : cres :=
  let hdr := match cs_stage st with StInit => write_frame_header cap hs | _ => Some 0 end in
  match hdr with
  | None => CTooSmall
  | Some h =>
    let cap1 := cap - h in
    let stage1 := match cs_stage st with StInit => StOngoing | s => s end in
    if c_len c <=? 0 then                       (* "if (!srcSize) return fhSize": the counters are NOT updated *)
      CDone h cap1 (mk_cstate stage1 (cs_consumed st) (cs_produced st))
    else
      match frame_chunk fuel (c_bc c) (c_split c) O bsMax (c_len c) cap1 (cs_consumed st - cs_produced st) 0 with
      | Done body cap2 =>
          CDone (h + body) cap2
                (mk_cstate (if last && (0 <? body) then StEnding else stage1)
                           (cs_consumed st + c_len c) (cs_produced st + body + h))
      | TooSmall => CTooSmall
      | OutOfFuel => CFuel
      end
  end.

(* ZSTD_compressEnd_public *)
Definition compress_end (fuel : nat) (bsMax hs : Z) (chk : bool) (st : cstate) (c : call) (cap : Z) : cres :=
  match compress_continue fuel bsMax hs st c cap true with
  | CDone w cap1 st1 =>
      match write_epilogue (match cs_stage st1 with StEnding => true | _ => false end) chk cap1 with
      | None => CTooSmall
      | Some e => CDone (w + e) (cap1 - e) st1
      end
  | r => r
  end.

(* calls that all go through ZSTD_compressContinue (the frame is not finished) *)
Fixpoint continue_calls (fuel : nat) (bsMax hs : Z) (st : cstate) (calls : list call) (cap written : Z) : cres :=
  match calls with
  | [] => CDone written cap st
  | c :: rest =>
      match compress_continue fuel bsMax hs st c cap false with
      | CDone w cap' st' => continue_calls fuel bsMax hs st' rest cap' (written + w)
      | r => r
      end
  end.

(* a history: every call but the last through ZSTD_compressContinue, the last through ZSTD_compressEnd;
   all calls write one after the other into the same buffer *)
Fixpoint compress_calls (fuel : nat) (bsMax hs : Z) (chk : bool) (st : cstate) (calls : list call)
         (cap written : Z) : cres :=
  match calls with
  | [] => CDone written cap st
  | [c] =>
      match compress_end fuel bsMax hs chk st c cap with
      | CDone w cap' st' => CDone (written + w) cap' st'
      | r => r
      end
  | c :: rest =>
      match compress_continue fuel bsMax hs st c cap false with
      | CDone w cap' st' => compress_calls fuel bsMax hs chk st' rest cap' (written + w)
      | r => r
      end
  end.

(* ---- ZSTDMT_compressionJob ---- *)
Definition MT_CHUNK : Z := 4 * BLOCKSIZE_MAX.

(* the chunk lengths the job loop feeds: nbChunks-1 full chunks, then the last one *)
Fixpoint mt_chunks_aux (k : nat) (rem : Z) : list Z :=
  match k with
  | O => [rem]
  | S k' => if rem <=? MT_CHUNK then [rem] else MT_CHUNK :: mt_chunks_aux k' (rem - MT_CHUNK)
  end.
Definition mt_chunks (n : Z) : list Z := mt_chunks_aux (Z.to_nat (n / MT_CHUNK)) n.

(* first: job 0 (writes the frame header; keeps the checksum flag).  last: the ZSTD_e_end job.
   chkFrame: checksumFlag of the frame.  Non-first jobs: the header is written at ostart by a 0-byte
   ZSTD_compressContinue and then overwritten (capacity unchanged), no checksum inside the job; when the job is the
   last one and the frame wants a checksum, ZSTDMT_flushProduced stores 4 bytes after the job's output WITHOUT a
   capacity test ([COverrun] when they do not fit).
   [calls]: one call per chunk (lengths = mt_chunks n), each with its own oracles. *)
Definition mt_job (fuel : nat) (bsMax hs : Z) (chkFrame first last : bool) (calls : list call) (n cap : Z) : cres :=
  if negb first && last && (n <=? 0) then
    (* ZSTDMT_writeLastEmptyBlock: no worker; 3 bytes; then the checksum store *)
    if cap <? BHS then CTooSmall
    else if chkFrame
         then (if cap - BHS <? CHECKSUM_SIZE then COverrun
               else CDone (BHS + CHECKSUM_SIZE) (cap - BHS - CHECKSUM_SIZE) cstate0)
         else CDone BHS (cap - BHS) cstate0
  else
    let st0 :=
      if first then Some cstate0
      else match compress_continue fuel bsMax hs cstate0 (mk_call 0 bc_raw (split_const KB128)) cap false with
           | CDone _ _ st => Some st
           | _ => None
           end in
    match st0 with
    | None => CTooSmall
    | Some st =>
      let r := if last then compress_calls fuel bsMax hs (chkFrame && first) st calls cap 0
               else continue_calls fuel bsMax hs st calls cap 0 in
      match r with
      | CDone w cap' st' =>
          if chkFrame && last && negb first
          then (if cap' <? CHECKSUM_SIZE then COverrun else CDone (w + CHECKSUM_SIZE) (cap' - CHECKSUM_SIZE) st')
          else CDone w cap' st'
      | r => r
      end
    end.

(* what a job emits at most: every block raw *)
Fixpoint sum_blocks (lens : list Z) (bs : Z) : Z :=
  match lens with [] => 0 | c :: t => nb_blocks c bs + sum_blocks t bs end.
Definition chunks_blocks (n bs : Z) : Z := sum_blocks (mt_chunks n) bs.
Definition mt_job_worst (bs hs : Z) (chkFrame first last : bool) (n : Z) : Z :=
  (if first then hs else 0) + n + BHS * chunks_blocks n bs
  + (if last && (n <=? 0) then BHS else 0)
  + (if last && chkFrame then CHECKSUM_SIZE else 0).

(* all-raw instance used by the correspondence runs: size of the frame ZSTDMT emits for incompressible input cut in
   jobs of [jobSize] bytes (the first job sees the pledged size: block size bsFirst; later jobs: bsNext) *)
Definition raw_call (len : Z) : call := mk_call len bc_raw (split_const KB128).

Fixpoint mt_raw_frame_aux (k : nat) (bsFirst bsNext hs : Z) (chk first : bool) (rem jobSize acc : Z) : option Z :=
  match k with
  | O => None
  | S k' =>
    let last := rem <=? jobSize in
    let n := if last then rem else jobSize in
    let bs := if first then bsFirst else bsNext in
    match mt_job (S (Z.to_nat (nb_blocks MT_CHUNK bs))) bs hs chk first last (map raw_call (mt_chunks n)) n (bound jobSize) with
    | CDone w _ _ =>
        if last then Some (acc + w)
        else mt_raw_frame_aux k' bsFirst bsNext hs chk false (rem - jobSize) jobSize (acc + w)
    | _ => None
    end
  end.
Definition mt_raw_frame (n jobSize bsFirst bsNext hs : Z) (chk : bool) : option Z :=
  mt_raw_frame_aux (S (Z.to_nat (n / jobSize + 1))) bsFirst bsNext hs chk true n jobSize 0.

(* buffer-less history of two calls with separate destination buffers: ZSTD_compressContinue(n1) into an ample
   buffer, then ZSTD_compressEnd(n2) into [cap] bytes; incompressible input (every block raw).
   Result: bytes of the first call, outcome of the second. *)
Definition raw_two_calls (bs hs : Z) (chk : bool) (n1 n2 cap : Z) : option Z * cres :=
  match compress_continue (S (Z.to_nat (nb_blocks n1 bs))) bs hs cstate0 (raw_call n1)
                          (FHS_MAX + n1 + BHS * nb_blocks n1 bs + 8) false with
  | CDone w1 _ st1 => (Some w1, compress_end (S (Z.to_nat (nb_blocks n2 bs))) bs hs chk st1 (raw_call n2) cap)
  | r => (None, r)
  end.
