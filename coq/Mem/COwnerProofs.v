(* C14 round 3 - proofs about COwner.v: along ANY history of a heap ZSTD_CCtx (dictionaries loaded by copy / by reference,
   digested, cleared; workspace replaced; multithreaded context created, operated with allocation failures, dropped),
   the bytes outstanding at the allocator are exactly ZSTD_sizeof_CCtx; ZSTD_freeCCtx releases everything. *)
From Coq Require Import NArith ZArith List Bool Lia.
From ZV.Mem Require Import DOwner DOwnerProofs MtOwner MtOwnerProofs.
From ZV.Mem Require Import COwner.
Import ListNotations.
Local Open Scope N_scope.

Lemma frees_one n X : live_after (X + n) (frees n) = X.
Proof. unfold frees. destruct (N.eqb_spec n 0) as [-> | NZ]; rewrite ?la_free, la_nil; lia. Qed.

Section WithSizes.
Variable z : mtsz.

Definition mt_part (c : cown) : N := match co_mt c with Some m => mt_owned z m | None => 0 end.
Definition c_owned (c : cown) : N := co_ws c + (co_dictBuf c + co_cdict c) + mt_part c.
Definition c_inv (c : cown) : Prop := match co_mt c with Some m => mt_inv m | None => True end.

Lemma clear_dicts_live c c1 e1 B :
  clear_dicts c = (c1, e1) ->
  live_after (B + c_owned c) e1 = B + c_owned c1 /\ co_mt c1 = co_mt c /\ co_ws c1 = co_ws c /\ co_dictBuf c1 = 0 /\ co_cdict c1 = 0.
Proof.
  unfold clear_dicts. intros E; injection E as <- <-. unfold c_owned, mt_part. cbn [co_ws co_dictBuf co_cdict co_mt].
  split; [ | auto ]. rewrite live_after_app.
  replace (B + (co_ws c + (co_dictBuf c + co_cdict c) + match co_mt c with Some m => mt_owned z m | None => 0 end))
    with ((B + co_ws c + co_cdict c + match co_mt c with Some m => mt_owned z m | None => 0 end) + co_dictBuf c) by lia.
  rewrite frees_one.
  replace (B + co_ws c + co_cdict c + match co_mt c with Some m => mt_owned z m | None => 0 end)
    with ((B + co_ws c + match co_mt c with Some m => mt_owned z m | None => 0 end) + co_cdict c) by lia.
  rewrite frees_one. lia.
Qed.

Lemma c_step_live c o c' rc e B :
  c_inv c -> c_step z c o = (c', rc, e) -> live_after (B + c_owned c) e = B + c_owned c' /\ c_inv c'.
Proof.
  intros Hi. destruct o as [size byRef ok | | bytes ok | ws ok | n fs | o' | ]; cbn [c_step].
  - destruct (clear_dicts c) as [c1 e1] eqn:E1.
    destruct (clear_dicts_live c c1 e1 B E1) as (A1 & M1 & W1 & D1 & K1).
    assert (I1 : c_inv c1) by (unfold c_inv in *; rewrite M1; exact Hi).
    destruct ((size =? 0) || byRef); [ intros E; injection E as <- <- <-; auto | ].
    destruct ok; intros E; injection E as <- <- <-; [ | auto ].
    split; [ | unfold c_inv in *; cbn [co_mt]; exact I1 ].
    rewrite live_after_app, A1, la_alloc, la_nil. unfold c_owned, mt_part. cbn [co_ws co_dictBuf co_cdict co_mt]. rewrite D1, K1. lia.
  - destruct (clear_dicts c) as [c1 e1] eqn:E1.
    destruct (clear_dicts_live c c1 e1 B E1) as (A1 & M1 & _).
    intros E; injection E as <- <- <-. split; [ exact A1 | unfold c_inv in *; rewrite M1; exact Hi ].
  - destruct (N.eqb_spec (co_cdict c) 0) as [Z0 | NZ]; [ | intros E; injection E as <- <- <-; auto ].
    destruct ok; intros E; injection E as <- <- <-; [ | auto ].
    split; [ | exact Hi ]. rewrite la_alloc, la_nil. unfold c_owned, mt_part. cbn [co_ws co_dictBuf co_cdict co_mt]. rewrite Z0. lia.
  - destruct ok; intros E; injection E as <- <- <-; (split; [ | exact Hi ]); rewrite ?live_after_app;
      unfold c_owned, mt_part; cbn [co_ws co_dictBuf co_cdict co_mt];
      match goal with |- context [live_after ?L (frees (co_ws c))] =>
        replace L with ((B + (co_dictBuf c + co_cdict c) + match co_mt c with Some m => mt_owned z m | None => 0 end) + co_ws c) by lia end;
      rewrite frees_one; rewrite ?la_alloc, ?la_nil; lia.
  - destruct (co_mt c) as [m | ] eqn:EM; [ intros E; injection E as <- <- <-; auto | ].
    destruct (mt_create z n fs) as [[r e0] f0] eqn:EC.
    destruct (mt_create_live z n fs r e0 f0 (B + c_owned c) EC) as [A0 H0].
    destruct r as [m | ]; intros E; injection E as <- <- <-.
    + split; [ | unfold c_inv; cbn [co_mt]; exact (proj1 (H0 m eq_refl)) ].
      rewrite A0. unfold c_owned, mt_part. cbn [co_ws co_dictBuf co_cdict co_mt]. rewrite EM. lia.
    + split; [ rewrite A0; lia | exact Hi ].
  - destruct (co_mt c) as [m | ] eqn:EM; [ | intros E; injection E as <- <- <-; auto ].
    destruct (mt_step z m o') as [[m' rc'] e'] eqn:ES.
    intros E; injection E as <- <- <-.
    assert (Im : mt_inv m) by (unfold c_inv in Hi; rewrite EM in Hi; exact Hi).
    split; [ | unfold c_inv; cbn [co_mt]; exact (mt_step_inv z m o' m' rc' e' Im ES) ].
    unfold c_owned, mt_part. cbn [co_ws co_dictBuf co_cdict co_mt]. rewrite EM.
    pose proof (mt_step_live z m o' m' rc' e' (B + co_ws c + (co_dictBuf c + co_cdict c)) ES) as A.
    replace (B + (co_ws c + (co_dictBuf c + co_cdict c) + mt_owned z m)) with (B + co_ws c + (co_dictBuf c + co_cdict c) + mt_owned z m) by lia.
    rewrite A. lia.
  - destruct (co_mt c) as [m | ] eqn:EM; intros E; injection E as <- <- <-; [ | auto ].
    split; [ | unfold c_inv; cbn [co_mt]; exact I ].
    unfold c_owned, mt_part. cbn [co_ws co_dictBuf co_cdict co_mt]. rewrite EM.
    replace (B + (co_ws c + (co_dictBuf c + co_cdict c) + mt_owned z m)) with (B + co_ws c + (co_dictBuf c + co_cdict c) + mt_owned z m) by lia.
    rewrite mt_free_live. lia.
Qed.

Lemma c_run_live ops : forall c c' outs B,
  c_inv c -> c_run z c ops = (c', outs) -> live_after (B + c_owned c) (flat_map snd outs) = B + c_owned c' /\ c_inv c'.
Proof.
  induction ops as [ | o rest IH]; intros c c' outs B Hi E; cbn [c_run] in E.
  - injection E as <- <-. split; [ reflexivity | exact Hi ].
  - destruct (c_step z c o) as [[c1 rc] es] eqn:E1. destruct (c_run z c1 rest) as [c2 outs2] eqn:E2.
    injection E as <- <-. cbn [flat_map snd]. rewrite live_after_app.
    destruct (c_step_live c o c1 rc es B Hi E1) as [A1 I1]. rewrite A1. exact (IH c1 c2 outs2 B I1 E2).
Qed.

Lemma c_sizeof_is_owned c : c_inv c -> c_sizeof z c = z_cctx z + c_owned c.
Proof.
  unfold c_inv, c_sizeof, c_owned, mt_part. destruct (co_mt c) as [m | ]; intros Hi; [ rewrite (mt_sizeof_is_owned z m Hi) | ]; lia.
Qed.

Lemma c_free_live c B : live_after (B + (z_cctx z + c_owned c)) (c_free_events z c) = B.
Proof.
  unfold c_free_events, c_owned, mt_part. rewrite !live_after_app.
  assert (AM : forall W, live_after (W + match co_mt c with Some m => mt_owned z m | None => 0 end)
                           (match co_mt c with Some m => mt_free_events z m | None => [] end) = W).
  { intros W. destruct (co_mt c) as [m | ]; [ apply mt_free_live | rewrite la_nil; lia ]. }
  replace (B + (z_cctx z + (co_ws c + (co_dictBuf c + co_cdict c) + match co_mt c with Some m => mt_owned z m | None => 0 end)))
    with ((B + z_cctx z + co_ws c + co_dictBuf c + co_cdict c) + match co_mt c with Some m => mt_owned z m | None => 0 end) by lia.
  rewrite AM.
  replace (B + z_cctx z + co_ws c + co_dictBuf c + co_cdict c) with ((B + z_cctx z + co_ws c + co_cdict c) + co_dictBuf c) by lia.
  rewrite frees_one.
  replace (B + z_cctx z + co_ws c + co_cdict c) with ((B + z_cctx z + co_ws c) + co_cdict c) by lia.
  rewrite frees_one, frees_one, la_free, la_nil. lia.
Qed.

End WithSizes.

(* ------------------------------------------------------------------ *)
(* for EVERY history of a heap compression context the bytes outstanding at the allocator (the context itself included)
   are exactly ZSTD_sizeof_CCtx: it never under-reports, whatever allocation failed on the way *)
Lemma cctx_sizeof_exact_l :
  forall z ops c outs,
    c_run z cown0 ops = (c, outs) ->
    live_after (z_cctx z) (flat_map snd outs) = c_sizeof z c.
Proof.
  intros z ops c outs E.
  destruct (c_run_live z ops cown0 c outs (z_cctx z) I E) as [A Hi].
  change (c_owned z cown0) with 0 in A. rewrite N.add_0_r in A. rewrite A, (c_sizeof_is_owned z c Hi). reflexivity.
Qed.

Lemma cctx_free_releases_all_l :
  forall z ops c outs,
    c_run z cown0 ops = (c, outs) ->
    live_after (z_cctx z) (flat_map snd outs ++ c_free_events z c) = 0.
Proof.
  intros z ops c outs E. rewrite live_after_app.
  destruct (c_run_live z ops cown0 c outs (z_cctx z) I E) as [A _].
  change (c_owned z cown0) with 0 in A. rewrite N.add_0_r in A. rewrite A.
  pose proof (c_free_live z c 0) as F. rewrite N.add_0_l in F. exact F.
Qed.

(* non-vacuity: dictionary by copy, digested, a multithreaded context whose resize fails, dropped by a pool switch,
   workspace replaced with a failing allocation, dictionary cleared *)
Definition c_example_ops : list cop :=
  [CLoadDict 1000 false true; CWorkspace 1300000 true; CInitLocal 40000 true; CMtCreate 2 []; CMtOp (MInit 4 [true; true; false] (Some 1000) 5000000 None);
   CMtOp (MInit 4 [] (Some 1000) 5000000 (Some (12, 9))); CMtOp (MGetBuf 100000 true); CWorkspace 2000000 false; CMtDrop; CLoadDict 500 true true; CWorkspace 90000 true].

Example c_example_history :
  let '(c, outs) := c_run z_x64 cown0 c_example_ops in
  co_ws c = 90000 /\ co_dictBuf c = 0 /\ co_cdict c = 0 /\ co_mt c = None /\
  c_sizeof z_x64 c = live_after (z_cctx z_x64) (flat_map snd outs) /\
  (let '(c5, o5) := c_run z_x64 cown0 (firstn 5 c_example_ops) in
   match co_mt c5 with Some m => mt_buf m = None /\ mt_sizeof_old z_x64 m = None | None => False end
   /\ c_sizeof z_x64 c5 = live_after (z_cctx z_x64) (flat_map snd o5)).
Proof. vm_compute. repeat split; reflexivity. Qed.
