(* C14 - proofs about histories of resets on one static context (History.v):
   a static context never wears out - a request is served iff it fits, whatever was executed before. *)
From Coq Require Import NArith ZArith List Bool Lia.
From ZV.Gen Require Import Gen_C14.
From ZV.Mem Require Import Cwksp CwkspProofs Estimate EstimateProofs History.
Import ListNotations.
Local Open Scope N_scope.
Ltac Zify.zify_post_hook ::= Z.to_euclidean_division_equations.

(* ------------------------------------------------------------------ *)
(* the wasteful branch cannot fire while the duration counter is 0 *)

Lemma wasteful_dur0 w n : check_wasteful w 0 n = false.
Proof.
  unfold check_wasteful. destruct (N.ltb_spec c_ZSTD_WORKSPACETOOLARGE_MAXDURATION 0) as [H | H]; [ lia | ].
  apply andb_false_r.
Qed.

(* ------------------------------------------------------------------ *)
(* objectEnd moves only by the one-off table alignment pad once the objects are placed *)

Definition omeasure (w : cwksp) : N := objectEnd w + pad_due w.

Lemma advance_phase_omeasure w p :
  omeasure (fst (advance_phase w p)) <= omeasure w /\
  (phase_rank (ph w) <> 0 -> phase_rank (ph (fst (advance_phase w p))) <> 0).
Proof.
  unfold advance_phase, omeasure, pad_due.
  pose proof (bytes_to_align_lt (objectEnd w)) as HB.
  destruct (N.ltb_spec (phase_rank (ph w)) (phase_rank p)) as [Hlt | Hge]; [ | cbn [fst]; split; [ lia | auto ] ].
  destruct (N.ltb_spec (phase_rank (ph w)) 1) as [H0 | H0]; cbn [andb].
  - destruct (N.leb_spec 1 (phase_rank p)) as [H1 | H1]; [ | lia ].
    destruct (N.ltb_spec (ws_end w) (objectEnd w + bytes_to_align (objectEnd w) ALIGN)); cbn [fst];
      unfold set_initOnce, set_tableValidEnd; psimpl.
    + split; [ lia | intros; lia ].
    + destruct (N.eqb_spec (phase_rank p) 0); [ lia | ].
      destruct (N.eqb_spec (phase_rank (ph w)) 0); split; try lia; intros; lia.
  - destruct (N.leb_spec 1 (phase_rank p)); cbn [andb fst]; unfold set_phase; psimpl;
    destruct (N.eqb_spec (phase_rank p) 0); destruct (N.eqb_spec (phase_rank (ph w)) 0); split; try lia; intros; lia.
Qed.

Lemma step_omeasure rz w o :
  is_object o = false ->
  omeasure (fst (step rz w o)) <= omeasure w.
Proof.
  intros Ho. destruct o; try discriminate; cbn [step].
  - (* table *)
    unfold reserve_table.
    destruct (N.ltb_spec (phase_rank (ph w)) 1).
    + pose proof (advance_phase_omeasure w PhInitOnce) as [H1 _].
      destruct (advance_phase w PhInitOnce) as [w1 ok]. cbn [fst] in H1.
      destruct ok; cbn [negb]; [ | cbn [fst]; exact H1 ].
      destruct (allocStart w1 <? tableEnd w1 + n); cbn [fst]; unfold omeasure, pad_due, set_failed, set_tableEnd in *; psimpl; exact H1.
    + cbn [negb]. destruct (allocStart w <? tableEnd w + n); cbn [fst]; unfold omeasure, pad_due, set_failed, set_tableEnd; psimpl; lia.
  - (* init once *)
    unfold reserve_aligned_init_once, reserve_internal.
    pose proof (advance_phase_omeasure w PhInitOnce) as [H1 _].
    destruct (advance_phase w PhInitOnce) as [w1 ok]. cbn [fst] in H1.
    destruct (negb ok || (align_up n ALIGN =? 0)); [ cbn [fst]; exact H1 | ].
    unfold reserve_internal_buffer_space.
    destruct (allocStart w1 <? tableEnd w1 + (align_up n ALIGN + 2 * rz)); cbn [fst].
    + unfold omeasure, pad_due, set_failed in *; psimpl; exact H1.
    + match goal with |- context [ if ?c then _ else _ ] => destruct c end; cbn [fst];
      unfold omeasure, pad_due, set_initOnce, set_alloc in *; psimpl; exact H1.
  - (* aligned *)
    unfold reserve_aligned, reserve_internal.
    pose proof (advance_phase_omeasure w PhAligned) as [H1 _].
    destruct (advance_phase w PhAligned) as [w1 ok]. cbn [fst] in H1.
    destruct (negb ok || (align_up n ALIGN =? 0)); [ cbn [fst]; exact H1 | ].
    unfold reserve_internal_buffer_space.
    destruct (allocStart w1 <? tableEnd w1 + (align_up n ALIGN + 2 * rz)); cbn [fst];
    unfold omeasure, pad_due, set_failed, set_alloc in *; psimpl; exact H1.
  - (* buffer *)
    unfold reserve_buffer, reserve_internal.
    pose proof (advance_phase_omeasure w PhBuffers) as [H1 _].
    destruct (advance_phase w PhBuffers) as [w1 ok]. cbn [fst] in H1.
    destruct (negb ok || (n =? 0)); [ cbn [fst]; exact H1 | ].
    unfold reserve_internal_buffer_space.
    destruct (allocStart w1 <? tableEnd w1 + (n + 2 * rz)); cbn [fst];
    unfold omeasure, pad_due, set_failed, set_alloc in *; psimpl; exact H1.
  - (* clear *)
    unfold clear, omeasure, pad_due; psimpl.
    destruct (N.ltb_spec 1 (phase_rank (ph w))); psimpl;
    destruct (N.eqb_spec (phase_rank (ph w)) 0); try lia; change (1 =? 0) with false; cbv iota; lia.
  - unfold clear_tables, set_tableEnd, omeasure, pad_due; psimpl; lia.
  - unfold mark_tables_dirty, set_tableValidEnd, omeasure, pad_due; psimpl; lia.
  - unfold mark_tables_clean. destruct (tableValidEnd w <? tableEnd w); unfold set_tableValidEnd, omeasure, pad_due; psimpl; lia.
Qed.

Lemma run_omeasure rz : forall ops w,
  wf_ops false ops = true -> omeasure (fst (run rz w ops)) <= omeasure w.
Proof.
  induction ops as [ | o rest IH]; intros w WF; cbn [run]; [ cbn [fst]; lia | ].
  cbn [wf_ops] in WF.
  destruct (is_object o) eqn:Eo; [ cbn [andb] in WF; discriminate | ].
  assert (WF' : wf_ops false rest = true) by (destruct (is_reserve o); exact WF).
  pose proof (step_omeasure rz w o Eo) as H1.
  destruct (step rz w o) as [w1 l1]. cbn [fst] in H1.
  specialize (IH w1 WF'). destruct (run rz w1 rest) as [w2 l2]. cbn [fst] in *. lia.
Qed.

(* ------------------------------------------------------------------ *)
(* the invariant of a static context between two resets *)

Definition OBJ (rz : N) : N := ops_cost rz static_objects.

Definition K (rz start size : N) (w : cwksp) : Prop :=
  inv w /\ is_static w = true /\ ws_start w = start /\ ws_end w = start + size /\
  omeasure w + size <= initialAllocStart w + OBJ rz + 126.

Lemma need_ge_objects rz r : req_ok r -> OBJ rz + 128 <= rq_need rz true r.
Proof.
  intros [Hm Hl]. unfold rq_need.
  assert (HLs : ldm_sized (rq_ldmA r)).
  { unfold rq_ldmA. destruct (ldm_enabled (rq_ldm r)) eqn:E; [ apply ldm_adjust_sized; exact (Hl eq_refl) | ].
    unfold ldm_sized. rewrite E. discriminate. }
  pose proof (reset_cost rz (rq_cp r) (rq_ldmA r) true (rq_row r) (rq_bin r) (rq_bout r) (rq_pledged r) (rq_ext r)
                         (rq_mbs r) true true Hm HLs) as HC.
  rewrite ops_cost_app in HC. cbn [objects_of] in HC. unfold OBJ. lia.
Qed.

Lemma need_is_cost rz r : req_ok r -> OBJ rz + ops_cost rz (rq_ops r) + 128 = rq_need rz true r.
Proof.
  intros [Hm Hl]. unfold rq_need, rq_ops.
  assert (HLs : ldm_sized (rq_ldmA r)).
  { unfold rq_ldmA. destruct (ldm_enabled (rq_ldm r)) eqn:E; [ apply ldm_adjust_sized; exact (Hl eq_refl) | ].
    unfold ldm_sized. rewrite E. discriminate. }
  pose proof (reset_cost rz (rq_cp r) (rq_ldmA r) true (rq_row r) (rq_bin r) (rq_bout r) (rq_pledged r) (rq_ext r)
                         (rq_mbs r) (rq_resetIndex r) (rq_makeClean r) Hm HLs) as HC.
  rewrite ops_cost_app in HC. cbn [objects_of] in HC. unfold OBJ. lia.
Qed.

Lemma rq_ops_shape r : exists tl_, rq_ops r = OClear :: tl_ /\ wf_ops false tl_ = true.
Proof.
  unfold rq_ops.
  pose proof (reset_ops_wf (rq_cp r) (rq_ldmA r) (rq_row r) (rq_bin r) (rq_bout r) (rq_pledged r) (rq_ext r) (rq_mbs r)
                           (rq_resetIndex r) (rq_makeClean r)) as WF.
  unfold resetCCtx_ops in *. cbv zeta in *. cbn [app] in *.
  eexists. split; [ reflexivity | ]. cbn [wf_ops is_object is_reserve] in WF. exact WF.
Qed.

(* one served request from a K-state: everything succeeds inside the block and K is kept *)
Lemma served_from_K rz start size w r :
  K rz start size w -> req_ok r -> rq_need rz true r <= size ->
  let '(w', log) := run rz w (rq_ops r) in
  K rz start size w' /\ allocFailed w' = false /\ Forall (entry_in start size) log /\ cwksp_used w' <= size.
Proof.
  intros (I & St & S1 & S2 & HM) Hok Hfit.
  pose proof (need_is_cost rz r Hok) as HC.
  destruct (rq_ops_shape r) as (tl_ & E & WF). rewrite E in *. cbn [ops_cost op_cost] in HC.
  cbn [run step].
  (* the state after ZSTD_cwksp_clear *)
  set (wc := clear w).
  assert (Ic : inv wc /\ allocFailed wc = false /\ ws_start wc = start /\ ws_end wc = start + size /\
               omeasure wc = omeasure w /\ available_space wc = initialAllocStart w - objectEnd w /\ is_static wc = true /\
               pad_due wc = pad_due w).
  { destruct I as (J1 & J2 & J3 & J4 & J5 & J6).
    unfold wc, clear, inv, omeasure, pad_due, available_space, initialAllocStart in *; psimpl.
    destruct (N.ltb_spec 1 (phase_rank (ph w))) as [L | L]; psimpl;
    destruct (N.eqb_spec (phase_rank (ph w)) 0); try lia; splits; fin. }
  destruct Ic as (Ic & AFc & Sc1 & Sc2 & Mc & Avc & Stc & Pc).
  pose proof (run_ok_c rz tl_ wc false 0 Ic AFc ltac:(discriminate) WF) as H.
  pose proof (run_omeasure rz tl_ wc WF) as HO.
  pose proof (run_static rz tl_ wc) as HS.
  destruct (run rz wc tl_) as [w' log]. cbn [fst] in HO, HS.
  destruct H as (I' & [B1 B2] & AF' & L & _ & _).
  { unfold omeasure in *. rewrite Avc, Pc. unfold initialAllocStart in *. lia. }
  cbn [app].
  split; [ | split; [ exact AF' | split ] ].
  - unfold K. splits; try assumption; try congruence.
    rewrite (initialAllocStart_bounds wc w' (conj B1 B2)).
    unfold initialAllocStart in *. rewrite Sc2. rewrite S2 in HM. lia.
  - eapply Forall_impl; [ | exact L ]. intros e [Z | (p & X1 & X2 & X3)]; [ left; exact Z | right ].
    exists p. rewrite Sc1, Sc2 in *. auto.
  - destruct I' as (J1 & J2 & J3 & J4 & J5 & J6). unfold cwksp_used, initialAllocStart in *.
    rewrite B1, B2, Sc1, Sc2 in *. lia.
Qed.

(* ZSTD_initStaticCCtx leaves a K-state when the block can hold the objects *)
Lemma init_static_K rz start size w0 l0 :
  initStaticCCtx rz start size = InitOk w0 l0 -> OBJ rz + 128 <= size -> K rz start size w0.
Proof.
  unfold initStaticCCtx. intros Hinit Hsz.
  destruct (N.leb_spec size sizeof_ZSTD_CCtx) as [Hbad | _]; [ discriminate | ].
  destruct (N.eqb_spec (start mod 8) 0) as [Ha | Ha]; cbn [negb] in Hinit; [ | discriminate ].
  assert (Hs63 : 63 <= size) by lia.
  pose proof (inv_init start size true Hs63) as I0.
  destruct (init_free start size true Hs63) as (F1 & F2 & F3 & F4 & F5 & F6).
  set (w0' := init start size true) in *.
  unfold OBJ, static_objects in Hsz. cbn [ops_cost] in Hsz.
  set (objs3 := [OObject sizeof_ZSTD_compressedBlockState_t; OObject sizeof_ZSTD_compressedBlockState_t;
                 OObject c_TMP_WORKSPACE_SIZE]) in *.
  set (spare := size - 126 - OBJ rz).
  assert (Hspare : OBJ rz + spare + 126 = size) by (unfold spare, OBJ, static_objects; cbn [ops_cost]; lia).
  unfold OBJ, static_objects in Hspare. cbn [ops_cost] in Hspare. fold objs3 in Hspare. cbn [ops_cost] in Hsz.
  pose proof (reserve_object_ok rz w0' sizeof_ZSTD_CCtx (ops_cost rz objs3 + spare) I0 F5 F4) as H1.
  pose proof (step_static rz w0' (OObject sizeof_ZSTD_CCtx)) as St1. cbn [step] in St1.
  destruct (reserve_object rz w0' sizeof_ZSTD_CCtx) as [w1 r1]. cbn [fst] in St1.
  destruct H1 as (I1 & SB1 & AF1 & P1 & C1 & (q1 & -> & Q1a & Q1b & Q1c & Q1d)).
  { unfold pad_due. rewrite F4. unfold objs3 in *. cbn [phase_rank N.eqb ops_cost op_cost] in *. lia. }
  destruct (check_available w1 _); cbn [negb] in Hinit; [ | discriminate ].
  change (tl static_objects) with objs3 in Hinit.
  pose proof (run_ok_c rz objs3 w1 true spare I1 AF1 (fun _ => P1) eq_refl) as H2.
  pose proof (run_static rz objs3 w1) as St2.
  destruct (run rz w1 objs3) as [w2 l2] eqn:ER. cbn [fst] in St2.
  destruct H2 as (I2 & SB2 & AF2 & L2 & C2 & P2). { lia. }
  injection Hinit as <- _.
  specialize (P2 eq_refl eq_refl).
  destruct SB1 as [A1 A2], SB2 as [B1 B2].
  unfold K. splits; try assumption; try congruence.
  - rewrite St2, St1. reflexivity.
  - unfold omeasure. unfold pad_due in *. rewrite P2 in *. cbn [phase_rank N.eqb] in *.
    destruct I2 as (J1 & J2 & J3 & J4 & J5 & J6). specialize (J6 P2).
    unfold available_space in C2. unfold OBJ, static_objects. cbn [ops_cost]. fold objs3. lia.
Qed.

(* ------------------------------------------------------------------ *)
(* a request on a static context is served iff it fits - at every point of every history *)

Definition served_iff_fits (rz start size : N) (r : request) (res : reset_result) : Prop :=
  match res with
  | ResetResize _ => False
  | ResetMemError => size < rq_need rz true r
  | ResetDone w log => rq_need rz true r <= size /\ allocFailed w = false /\ ws_start w = start /\ ws_end w = start + size /\
                       Forall (entry_in start size) log /\ cwksp_used w <= size
  end.

Lemma history_K rz start size : forall reqs w,
  K rz start size w -> Forall req_ok reqs ->
  Forall2 (served_iff_fits rz start size) reqs (history rz (mkCx w 0) reqs).
Proof.
  induction reqs as [ | r rest IH]; intros w HK Hok; cbn [history]; [ constructor | ].
  pose proof (Forall_inv Hok) as Hr. pose proof (Forall_inv_tail Hok) as Hrest.
  unfold resetCCtx_full. cbn [cx_ws cx_dur].
  destruct HK as (I & St & S1 & S2 & HM). rewrite St. rewrite wasteful_dur0, orb_false_r.
  assert (Hsz : cwksp_sizeof w = size) by (unfold cwksp_sizeof; rewrite S1, S2; lia).
  rewrite Hsz.
  destruct (N.ltb_spec size (rq_need rz true r)) as [Hlt | Hge].
  - constructor; [ exact Hlt | ]. apply IH; [ unfold K; splits; assumption | exact Hrest ].
  - pose proof (served_from_K rz start size w r ltac:(unfold K; splits; assumption) Hr Hge) as H.
    destruct (run rz w (rq_ops r)) as [w' log].
    destruct H as (HK' & AF & L & U).
    constructor.
    + destruct HK' as (_ & _ & T1 & T2 & _). cbn. splits; assumption.
    + apply IH; assumption.
Qed.

(* a block too small for the objects refuses every request and is left untouched *)
Lemma history_small rz start size : forall reqs w d,
  is_static w = true -> cwksp_sizeof w = size -> size < OBJ rz + 128 -> Forall req_ok reqs ->
  Forall2 (served_iff_fits rz start size) reqs (history rz (mkCx w d) reqs).
Proof.
  induction reqs as [ | r rest IH]; intros w d St Hsz Hsm Hok; cbn [history]; [ constructor | ].
  pose proof (Forall_inv Hok) as Hr. pose proof (Forall_inv_tail Hok) as Hrest.
  unfold resetCCtx_full. cbn [cx_ws cx_dur]. rewrite St.
  pose proof (need_ge_objects rz r Hr) as HN.
  destruct (N.ltb_spec (cwksp_sizeof w) (rq_need rz true r)) as [Hlt | Hge]; [ | lia ].
  cbn [orb]. constructor; [ cbn; lia | ]. apply IH; assumption.
Qed.

Lemma init_static_facts rz start size w0 l0 :
  initStaticCCtx rz start size = InitOk w0 l0 -> is_static w0 = true /\ cwksp_sizeof w0 = size.
Proof.
  unfold initStaticCCtx. intros H.
  destruct (size <=? sizeof_ZSTD_CCtx); [ discriminate | ].
  destruct (negb (start mod 8 =? 0)); [ discriminate | ].
  pose proof (step_static rz (init start size true) (OObject sizeof_ZSTD_CCtx)) as St1. cbn [step] in St1.
  pose proof (run_safe rz [OObject sizeof_ZSTD_CCtx] (init start size true) (safe_inv_init start size true)) as Sf1.
  cbn [run step] in Sf1.
  destruct (reserve_object rz (init start size true) sizeof_ZSTD_CCtx) as [w1 r1]. cbn [fst] in St1.
  destruct Sf1 as (Sa & [B1 B2] & _).
  destruct r1; [ | discriminate ].
  destruct (negb (check_available w1 _)); [ discriminate | ].
  pose proof (run_static rz (tl static_objects) w1) as St2.
  pose proof (run_safe rz (tl static_objects) w1 Sa) as Sf2.
  destruct (run rz w1 (tl static_objects)) as [w2 l2]. cbn [fst] in St2.
  destruct Sf2 as (_ & [C1 C2] & _).
  injection H as <- _. split.
  - rewrite St2, St1. reflexivity.
  - unfold cwksp_sizeof. rewrite C1, C2, B1, B2. unfold init, clear, set_initOnce; psimpl. lia.
Qed.

Theorem static_history_served_iff_fits_l :
  forall rz start size reqs l0 outs,
    static_history rz start size reqs = Some (l0, outs) ->
    Forall req_ok reqs ->
    Forall2 (served_iff_fits rz start size) reqs outs.
Proof.
  intros rz start size reqs l0 outs H Hok. unfold static_history in H.
  destruct (initStaticCCtx rz start size) as [ | w0 l0'] eqn:EI; [ discriminate | ].
  injection H as <- <-.
  destruct (N.le_gt_cases (OBJ rz + 128) size) as [Hbig | Hsmall].
  - apply history_K; [ eapply init_static_K; eassumption | exact Hok ].
  - destruct (init_static_facts rz start size w0 l0' EI) as [St Hsz].
    apply history_small; assumption.
Qed.

(* corollary: never a resize, whatever the history *)
Theorem static_history_never_resizes_l :
  forall rz start size reqs l0 outs n,
    static_history rz start size reqs = Some (l0, outs) -> Forall req_ok reqs -> ~ In (ResetResize n) outs.
Proof.
  intros rz start size reqs l0 outs n H Hok Hin.
  pose proof (static_history_served_iff_fits_l rz start size reqs l0 outs H Hok) as F.
  clear H Hok. induction F as [ | r o rs os Hro _ IH]; [ exact Hin | ].
  destruct Hin as [-> | Hin]; [ exact Hro | exact (IH Hin) ].
Qed.

(* the duration counter of a static context stays 0: the "wasteful" branch is dead for static contexts *)
Lemma static_dur_stays rz cx r : is_static (cx_ws cx) = true -> cx_dur (snd (resetCCtx_full rz cx r)) = cx_dur cx.
Proof.
  intros St. unfold resetCCtx_full. rewrite St.
  destruct (_ || _); [ reflexivity | ]. destruct (run _ _ _); reflexivity.
Qed.

