(* C13 - soundness of the set-wise ownership analysis [aexecS] (AllocSet.v) with respect to the concrete
   semantics [run], for EVERY oracle; consequences used by the instance theorems. *)
From Coq Require Import NArith List Bool Arith Lia FMapPositive.
From ZV.Mem Require Import AllocDsl AllocProofs.
From ZV.Mem Require Import AllocSet.
Import ListNotations.

(* ------------------------------------------------------------------ equality with early exit *)
Lemma store_eqb'_eq : forall A (eqb : A -> A -> bool), (forall x y, eqb x y = true -> x = y) ->
  forall m1 m2 : store A, store_eqb' eqb m1 m2 = true -> m1 = m2.
Proof.
  intros A eqb He. induction m1 as [|[k1 v1] m1 IH]; destruct m2 as [|[k2 v2] m2]; cbn; intros H; try discriminate; [reflexivity|].
  destruct (N.eqb_spec k1 k2); [|discriminate]. destruct (eqb v1 v2) eqn:E; [|discriminate].
  apply He in E. apply IH in H. subst. reflexivity.
Qed.
Lemma aeqb_eq : forall a b, aeqb a b = true -> a = b.
Proof.
  intros [a1 a2 a3 a4 a5] [b1 b2 b3 b4 b5]. unfold aeqb. cbn. intros H.
  destruct (Bool.eqb a4 b4) eqn:E4; [|discriminate]. destruct (Bool.eqb a5 b5) eqn:E5; [|discriminate].
  destruct (store_eqb' aval_eqb a1 b1) eqn:E1; [|discriminate]. destruct (store_eqb' fval_eqb a2 b2) eqn:E2; [|discriminate].
  apply store_eqb'_eq in E1; [|intros [] []; cbn; congruence].
  apply store_eqb'_eq in E2; [|intros [] []; cbn; congruence].
  apply store_eqb'_eq in H; [|intros [] []; cbn; congruence].
  apply eqb_prop in E4. apply eqb_prop in E5. subst. reflexivity.
Qed.

(* ------------------------------------------------------------------ normal form *)
Definition hd_gt {A} (k : N) (m : store A) : Prop :=
  match m with [] => True | (k1, _) :: _ => (k < k1)%N end.

Lemma sortedb_tail : forall A (m : store A) kv, sortedb (kv :: m) = true -> sortedb m = true /\ hd_gt (fst kv) m.
Proof.
  intros A m [k v]. destruct m as [|[k2 v2] r]; cbn; intros H; [split; [reflexivity|exact I]|].
  destruct (N.ltb_spec k k2); [|discriminate]. split; [exact H|assumption].
Qed.

Lemma get_filter_gt : forall A (d : A) (nd : A -> bool) (m : store A) k,
  sortedb m = true -> hd_gt k m -> get d k (filter (fun kv => nd (snd kv)) m) = d.
Proof.
  intros A d nd. induction m as [|[k1 v1] r IH]; intros k Hs Hg; [reflexivity|].
  destruct (sortedb_tail _ _ _ Hs) as [Hs' Hg']. cbn in Hg, Hg'.
  assert (Hr : get d k (filter (fun kv => nd (snd kv)) r) = d).
  { apply IH; [exact Hs'|]. destruct r as [|[k2 v2] r']; [exact I|]. cbn in *. lia. }
  cbn. destruct (nd v1); [|exact Hr]. cbn. destruct (N.eqb_spec k k1); [lia|exact Hr].
Qed.

Lemma get_norm_store : forall A (d : A) (nd : A -> bool), (forall v, nd v = false -> v = d) ->
  forall (m : store A) k, get d k (norm_store nd m) = get d k m.
Proof.
  intros A d nd Hnd m k. unfold norm_store. destruct (sortedb m) eqn:Hs; [|reflexivity].
  induction m as [|[k1 v1] r IH]; [reflexivity|].
  destruct (sortedb_tail _ _ _ Hs) as [Hs' Hg']. cbn in Hg'. specialize (IH Hs').
  cbn. destruct (nd v1) eqn:E; cbn.
  - destruct (N.eqb_spec k k1); [reflexivity|exact IH].
  - destruct (N.eqb_spec k k1).
    + subst k. rewrite (Hnd _ E). apply get_filter_gt; assumption.
    + exact IH.
Qed.

Lemma G_anorm : forall a s, G a s -> G (anorm a) s.
Proof.
  intros a s HG. apply (G_ext a); try exact HG; try reflexivity.
  all: intros k; unfold aget, afget, aflget, anorm; cbn; apply get_norm_store; intros [] Hv; unfold nd_aval, nd_fval, nd_bool in *; congruence.
Qed.

(* ------------------------------------------------------------------ hashed sets *)
Definition Inv (H : hset) (P : astate -> Prop) : Prop :=
  forall h b, PositiveMap.find h H = Some b -> forall x, In x b -> P x.

Lemma Inv_empty : forall P, Inv (PositiveMap.empty _) P.
Proof. intros P h b H. rewrite PositiveMap.gempty in H. discriminate. Qed.

Lemma Inv_weaken : forall H (P Q : astate -> Prop), Inv H P -> (forall x, P x -> Q x) -> Inv H Q.
Proof. intros H P Q HI HPQ h b Hf x Hx. apply HPQ. eapply HI; eauto. Qed.

Lemma Inv_hadd : forall H (P : astate -> Prop) a, Inv H P -> P a -> Inv (hadd a H) P.
Proof.
  intros H P a HI Pa h b Hf x Hx. unfold hadd in Hf.
  destruct (PositiveMap.find (akey a) H) as [b0|] eqn:E.
  - destruct (Pos.eq_dec h (akey a)) as [->|Hne].
    + rewrite PositiveMap.gss in Hf. inversion Hf; subst b. destruct Hx as [Hx|Hx]; [subst; exact Pa|]. eapply HI; eauto.
    + rewrite PositiveMap.gso in Hf by exact Hne. eapply HI; eauto.
  - destruct (Pos.eq_dec h (akey a)) as [->|Hne].
    + rewrite PositiveMap.gss in Hf. inversion Hf; subst b. destruct Hx as [Hx|[]]. subst; exact Pa.
    + rewrite PositiveMap.gso in Hf by exact Hne. eapply HI; eauto.
Qed.

Lemma Inv_fold : forall St H (P : astate -> Prop), Inv H P -> (forall x, In x St -> P x) ->
  Inv (fold_left (fun H a => hadd a H) St H) P.
Proof.
  induction St as [|a St IH]; cbn; intros H P HI HP; [exact HI|].
  apply IH; [apply Inv_hadd; [exact HI|apply HP; left; reflexivity]|intros x Hx; apply HP; right; exact Hx].
Qed.

Lemma Inv_hbuild : forall St, Inv (hbuild St) (fun x => In x St).
Proof. intros St. unfold hbuild. apply Inv_fold; [apply Inv_empty|auto]. Qed.

Lemma hmem_P : forall H (P : astate -> Prop) a, Inv H P -> hmem a H = true -> P a.
Proof.
  intros H P a HI Hm. unfold hmem in Hm. destruct (PositiveMap.find (akey a) H) as [b|] eqn:E; [|discriminate].
  apply existsb_exists in Hm. destruct Hm as [x [Hx Hq]]. apply aeqb_eq in Hq. subst x. eapply HI; eauto.
Qed.

Lemma hfresh_in : forall L H (P : astate -> Prop), Inv H P -> forall a, In a L -> In a (hfresh H L) \/ P a.
Proof.
  induction L as [|a0 L IH]; cbn; intros H P HI a Ha; [contradiction|].
  destruct (hmem a0 H) eqn:Em.
  - destruct Ha as [Ha|Ha]; [subst a0; right; eapply hmem_P; eauto|]. apply (IH H P HI a Ha).
  - destruct Ha as [Ha|Ha]; [left; left; exact Ha|].
    destruct (IH (hadd a0 H) (fun x => P x \/ x = a0)) with (a := a) as [A|[A|A]]; auto.
    + apply Inv_hadd; [eapply Inv_weaken; [exact HI|auto]|right; reflexivity].
    + left. right. exact A.
    + left. left. symmetry. exact A.
Qed.

Lemma sdedup_in : forall St a, In a St -> In (anorm a) (sdedup St).
Proof.
  intros St a Ha. unfold sdedup.
  destruct (hfresh_in (map anorm St) (PositiveMap.empty _) (fun _ => False) (Inv_empty _) (anorm a)) as [A|[]]; [|exact A].
  apply in_map. exact Ha.
Qed.

(* ------------------------------------------------------------------ closure only grows *)
Lemma closure_incl : forall fuel f H C front C', closure fuel f H C front = Some C' -> incl C C'.
Proof.
  induction fuel as [|fuel IH]; cbn; intros f H C front C' HC; [discriminate|].
  destruct front as [|a0 front].
  - inversion HC; subst. apply incl_refl.
  - destruct (f (a0 :: front)) as [[N R]|]; [|discriminate].
    apply IH in HC. eapply incl_tran; [|exact HC]. apply incl_appl. apply incl_refl.
Qed.

(* ------------------------------------------------------------------ main theorem *)
Definition soundS (f : list astate -> option res) (g : state -> state * bool) : Prop :=
  forall St N R a s, f St = Some (N, R) -> In a St -> G a s ->
  exists a', G a' (fst (g s)) /\ (if snd (g s) then In a' R else In a' N).

Lemma join_left : forall N1 N2 a, In a N1 -> In a (join N1 N2) \/ In (anorm a) (join N1 N2).
Proof.
  intros N1 N2 a H. unfold join. destruct N1 as [|x N1]; [contradiction|]. destruct N2 as [|y N2]; [left; exact H|].
  right. apply sdedup_in. apply in_or_app. left. exact H.
Qed.
Lemma join_right : forall N1 N2 a, In a N2 -> In a (join N1 N2) \/ In (anorm a) (join N1 N2).
Proof.
  intros N1 N2 a H. unfold join. destruct N1 as [|x N1]; [left; exact H|]. destruct N2 as [|y N2]; [contradiction|].
  right. apply sdedup_in. apply in_or_app. right. exact H.
Qed.

Lemma both_spec : forall x y N R, both x y = Some (N, R) ->
  exists N1 R1 N2 R2, x = Some (N1, R1) /\ y = Some (N2, R2) /\ N = join N1 N2 /\ R = R1 ++ R2.
Proof.
  intros [[N1 R1]|] [[N2 R2]|] N R H; cbn in H; try discriminate. inversion H; subst.
  exists N1, R1, N2, R2. repeat split; reflexivity.
Qed.

(* a result found in the left / right component of a [both] is in the combination *)
Lemma both_left : forall x y N R N1 R1 a' s' (r : bool), both x y = Some (N, R) -> x = Some (N1, R1) ->
  G a' s' -> (if r then In a' R1 else In a' N1) -> exists a'', G a'' s' /\ (if r then In a'' R else In a'' N).
Proof.
  intros x y N R N1 R1 a' s' r HB Hx HG Hin.
  destruct (both_spec _ _ _ _ HB) as [M1 [Q1 [M2 [Q2 [E1 [E2 [EN ER]]]]]]]. rewrite Hx in E1. inversion E1; subst M1 Q1. subst N R.
  destruct r.
  - exists a'. split; [exact HG|apply in_or_app; left; exact Hin].
  - destruct (join_left N1 M2 a' Hin) as [A|A]; [exists a'; split; assumption|exists (anorm a'); split; [apply G_anorm; exact HG|exact A]].
Qed.
Lemma both_right : forall x y N R N2 R2 a' s' (r : bool), both x y = Some (N, R) -> y = Some (N2, R2) ->
  G a' s' -> (if r then In a' R2 else In a' N2) -> exists a'', G a'' s' /\ (if r then In a'' R else In a'' N).
Proof.
  intros x y N R N2 R2 a' s' r HB Hy HG Hin.
  destruct (both_spec _ _ _ _ HB) as [M1 [Q1 [M2 [Q2 [E1 [E2 [EN ER]]]]]]]. rewrite Hy in E2. inversion E2; subst M2 Q2. subst N R.
  destruct r.
  - exists a'. split; [exact HG|apply in_or_app; right; exact Hin].
  - destruct (join_right M1 N2 a' Hin) as [A|A]; [exists a'; split; assumption|exists (anorm a'); split; [apply G_anorm; exact HG|exact A]].
Qed.

(* using an induction hypothesis on one branch of a [both] *)
Lemma both_left_IH : forall f g x y N R St a s, soundS f g -> both x y = Some (N, R) -> x = f St -> In a St -> G a s ->
  exists a', G a' (fst (g s)) /\ (if snd (g s) then In a' R else In a' N).
Proof.
  intros f g x y N R St a s Hf HB Hx Hin HG.
  destruct (both_spec _ _ _ _ HB) as [N1 [R1 [N2 [R2 [E1 [E2 _]]]]]].
  destruct (Hf St N1 R1 a s) as [a1 [A B]]; [congruence|exact Hin|exact HG|].
  eapply both_left; eauto.
Qed.
Lemma both_right_IH : forall f g x y N R St a s, soundS f g -> both x y = Some (N, R) -> y = f St -> In a St -> G a s ->
  exists a', G a' (fst (g s)) /\ (if snd (g s) then In a' R else In a' N).
Proof.
  intros f g x y N R St a s Hf HB Hy Hin HG.
  destruct (both_spec _ _ _ _ HB) as [N1 [R1 [N2 [R2 [E1 [E2 _]]]]]].
  destruct (Hf St N2 R2 a s) as [a1 [A B]]; [congruence|exact Hin|exact HG|].
  eapply both_right; eauto.
Qed.

(* the constructs delegated to [aexec] *)
Lemma prim_sound : forall fuel canfail o p, ok_oracle canfail o ->
  forall St N R a s,
  match star_round (aexec fuel canfail p) St with None => None | Some (M0, Q0) => Some (M0, map fst Q0) end = Some (N, R) ->
  In a St -> G a s -> exists a', G a' (fst (run o p s)) /\ (if snd (run o p s) then In a' R else In a' N).
Proof.
  intros fuel canfail o p Ho St N R a s HA Hin HG.
  destruct (star_round (aexec fuel canfail p) St) as [[M0 Q0]|] eqn:E; [|discriminate]. inversion HA; subst N R.
  destruct (star_round_spec _ _ _ _ E a Hin) as [L [A [B C]]].
  destruct (aexec_sound fuel canfail o Ho p a L s A HG) as [a' [D F]].
  exists a'. split; [exact F|]. destruct (snd (run o p s)).
  - apply C in D. apply (in_map fst) in D. exact D.
  - apply B. exact D.
Qed.

Lemma iterS_sound : forall g C N' R' (f : list astate -> option res), soundS f g -> f C = Some (N', R') ->
  (forall a, In a N' -> In (anorm a) C) ->
  forall n a s, In a C -> G a s ->
  exists a', G a' (fst (iter n g s)) /\ (if snd (iter n g s) then In a' R' else In a' C).
Proof.
  intros g C N' R' f Hs Hf Hc. induction n as [|n IH]; cbn; intros a s Ha HG.
  - exists a. split; assumption.
  - destruct (Hs C N' R' a s Hf Ha HG) as [a1 [A B]].
    destruct (g s) as [s1 r] eqn:Eg. cbn in *. destruct r.
    + cbn. exists a1. split; assumption.
    + apply (IH (anorm a1) s1); [apply Hc; exact B|apply G_anorm; exact A].
Qed.

Ltac inv_some := match goal with H : Some (_, _) = Some (?N, ?R) |- _ => let e1 := fresh in let e2 := fresh in injection H as e1 e2; subst N R end.

Theorem aexecS_sound : forall fuel canfail o, ok_oracle canfail o ->
  forall p, soundS (aexecS fuel canfail p) (run o p).
Proof.
  intros fuel canfail o Ho. unfold soundS.
  induction p; intros St N R a s HA Hin HG;
    (destruct St as [|a0 St0]; [contradiction|]); cbn [aexecS] in HA; set (St := a0 :: St0) in *;
    try (apply (prim_sound fuel canfail o _ Ho St N R a s HA Hin HG)).
  - (* Seq *)
    destruct (aexecS fuel canfail p1 St) as [[N1 R1]|] eqn:E1; [|discriminate].
    destruct (aexecS fuel canfail p2 N1) as [[N2 R2]|] eqn:E2; [|discriminate]. inv_some.
    destruct (IHp1 St N1 R1 a s E1 Hin HG) as [a1 [A B]].
    cbn [run]. destruct (run o p1 s) as [s1 r] eqn:Er. cbn in A, B. destruct r.
    + cbn. exists a1. split; [exact A|apply in_or_app; left; exact B].
    + destruct (IHp2 N1 N2 R2 a1 s1 E2 B A) as [a2 [C D]]. exists a2. split; [exact C|].
      destruct (snd (run o p2 s1)); [apply in_or_app; right; exact D|exact D].
  - (* IfNull *)
    cbn [run]. destruct (aget a l) eqn:El.
    + rewrite (slot_null a s l HG El).
      eapply (both_left_IH _ _ _ _ N R _ a s IHp1 HA eq_refl); [|exact HG].
      apply filter_In. split; [exact Hin|rewrite El; reflexivity].
    + destruct (slot_own a s l HG El) as [i [A B]]. rewrite A.
      eapply (both_right_IH _ _ _ _ N R _ a s IHp2 HA eq_refl); [|exact HG].
      apply filter_In. split; [exact Hin|rewrite El; reflexivity].
    + destruct (slot_dang a s l HG El) as [i [A B]]. rewrite A.
      eapply (both_right_IH _ _ _ _ N R _ a s IHp2 HA eq_refl); [|exact HG].
      apply filter_In. split; [exact Hin|rewrite El; reflexivity].
  - (* IfFlag *)
    cbn [run]. rewrite <- (g_flags a s HG f). destruct (aflget a f) eqn:Ef.
    + eapply (both_left_IH _ _ _ _ N R _ a s IHp1 HA eq_refl); [|exact HG].
      apply filter_In. split; [exact Hin|exact Ef].
    + eapply (both_right_IH _ _ _ _ N R _ a s IHp2 HA eq_refl); [|exact HG].
      apply filter_In. split; [exact Hin|rewrite Ef; reflexivity].
  - (* Choice *)
    cbn [run]. pose proof (G_upd_nchoice a s (S (nchoice s)) HG) as HG'.
    destruct (choose o (nchoice s)).
    + eapply (both_left_IH _ _ _ _ N R _ a _ IHp1 HA eq_refl); [exact Hin|exact HG'].
    + eapply (both_right_IH _ _ _ _ N R _ a _ IHp2 HA eq_refl); [exact Hin|exact HG'].
  - (* IfEmpty *)
    destruct (existsb (fun a1 => f_is_dang (afget a1 f)) St) eqn:Ex; [discriminate|].
    assert (Hnd : f_is_dang (afget a f) = false).
    { destruct (f_is_dang (afget a f)) eqn:E; [|reflexivity].
      assert (existsb (fun a1 => f_is_dang (afget a1 f)) St = true) by (apply existsb_exists; exists a; auto). congruence. }
    cbn [run]. destruct (afget a f) eqn:Ef; [| |discriminate].
    + rewrite (fam_empty a s f HG Ef).
      eapply (both_left_IH _ _ _ _ N R _ (afset a f FEmpty) s IHp1 HA eq_refl); [|apply G_afset_same; assumption].
      apply in_map_iff. exists a. auto.
    + destruct (fget s f) as [|i rest] eqn:Est.
      * eapply (both_left_IH _ _ _ _ N R _ (afset a f FEmpty) s IHp1 HA eq_refl); [|apply G_refine_empty; assumption].
        apply in_map_iff. exists a. auto.
      * eapply (both_right_IH _ _ _ _ N R _ a s IHp2 HA eq_refl); [|exact HG].
        apply filter_In. split; [exact Hin|rewrite Ef; reflexivity].
  - (* PopElse *)
    destruct (existsb (fun a1 => f_is_dang (afget a1 f) || is_own (aget a1 l)) St) eqn:Ex; [discriminate|].
    assert (Hnd : f_is_dang (afget a f) || is_own (aget a l) = false).
    { destruct (f_is_dang (afget a f) || is_own (aget a l)) eqn:E; [|reflexivity].
      assert (existsb (fun a1 => f_is_dang (afget a1 f) || is_own (aget a1 l)) St = true) by (apply existsb_exists; exists a; auto). congruence. }
    apply orb_false_iff in Hnd. destruct Hnd as [Hnd Hno].
    assert (Hl : aget a l <> AOwn) by (intro E; rewrite E in Hno; discriminate).
    cbn [run]. destruct (afget a f) eqn:Ef; [| |discriminate].
    + rewrite (fam_empty a s f HG Ef).
      eapply (both_left_IH _ _ _ _ N R _ (afset a f FEmpty) s IHp1 HA eq_refl); [|apply G_afset_same; assumption].
      apply in_map_iff. exists a. auto.
    + destruct (fget s f) as [|i rest] eqn:Est.
      * eapply (both_left_IH _ _ _ _ N R _ (afset a f FEmpty) s IHp1 HA eq_refl); [|apply G_refine_empty; assumption].
        apply in_map_iff. exists a. auto.
      * eapply (both_right_IH _ _ _ _ N R _ (aset a l AOwn) _ IHp2 HA eq_refl); [|apply G_pop_some; eassumption].
        apply in_map_iff. exists a. split; [reflexivity|]. apply filter_In. split; [exact Hin|rewrite Ef; reflexivity].
  - (* Call *)
    destruct (aexecS fuel canfail p (map (fun a1 => astset a1 true) St)) as [[N1 R1]|] eqn:E1; [|discriminate]. inv_some.
    assert (HG' : G (astset a true) (add_ev (upd_status s true) (EvCall name))) by (apply G_add_ev; apply G_status; exact HG).
    destruct (IHp _ N1 R1 (astset a true) _ E1 (in_map _ _ _ Hin) HG') as [a1 [A B]].
    cbn [run]. destruct (run o p (add_ev (upd_status s true) (EvCall name))) as [s1 r]. cbn in *.
    exists (anorm a1). split; [apply G_anorm; exact A|]. apply sdedup_in. apply in_or_app. destruct r; [right|left]; exact B.
  - (* IfErr *)
    cbn [run]. rewrite <- (g_status a s HG). destruct (astatus a) eqn:Es.
    + eapply (both_right_IH _ _ _ _ N R _ a s IHp2 HA eq_refl); [|exact HG].
      apply filter_In. split; [exact Hin|exact Es].
    + eapply (both_left_IH _ _ _ _ N R _ a s IHp1 HA eq_refl); [|exact HG].
      apply filter_In. split; [exact Hin|rewrite Es; reflexivity].
  - (* Star *)
    cbn zeta in HA.
    destruct (closure fuel (aexecS fuel canfail p) (hbuild (sdedup St)) (sdedup St) (sdedup St)) as [C|] eqn:EC; [|discriminate].
    destruct (aexecS fuel canfail p C) as [[N1 R1]|] eqn:E1; [|discriminate].
    destruct (forallb (fun a1 => hmem (anorm a1) (hbuild C)) N1) eqn:Ef; [|discriminate]. inv_some.
    assert (Hc : forall a1, In a1 N1 -> In (anorm a1) C).
    { intros a1 H1. rewrite forallb_forall in Ef. specialize (Ef a1 H1).
      apply (hmem_P (hbuild C) (fun x => In x C) (anorm a1) (Inv_hbuild C) Ef). }
    assert (Ha : In (anorm a) C) by (apply (closure_incl _ _ _ _ _ _ EC); apply sdedup_in; exact Hin).
    cbn [run].
    pose proof (G_upd_nstar (anorm a) s (S (nstar s)) (G_anorm a s HG)) as HG'.
    destruct (iterS_sound (run o p) C N1 R1 (aexecS fuel canfail p) IHp E1 Hc (reps o (nstar s)) (anorm a) _ Ha HG') as [a1 [A B]].
    destruct (snd (iter (reps o (nstar s)) (run o p) (upd_nstar s (S (nstar s))))).
    + exists (anorm a1). split; [apply G_anorm; exact A|apply sdedup_in; exact B].
    + exists a1. split; assumption.
Qed.

(* ------------------------------------------------------------------ consequences used by the instance theorems *)
Lemma no_canfail : forall o, ok_oracle true o.
Proof. intros o H. discriminate. Qed.

Lemma all_res_spec : forall P r N R, all_res P r = true -> r = Some (N, R) ->
  (forall a, In a N -> P a = true) /\ (forall a, In a R -> P a = true).
Proof.
  intros P r N R H E. subst r. cbn in H. apply andb_true_iff in H. destruct H as [H1 H2].
  rewrite forallb_forall in H1, H2. split; assumption.
Qed.

Theorem acheckS_sound : forall fuel P p a s o, acheckS fuel P p a = true -> G a s ->
  exists a', G a' (fst (run o p s)) /\ P a' = true.
Proof.
  intros fuel P p a s o Hc HG. unfold acheckS in Hc.
  destruct (aexecS fuel true p [a]) as [[N R]|] eqn:E; [|discriminate].
  destruct (all_res_spec _ _ N R Hc eq_refl) as [HN HR].
  destruct (aexecS_sound fuel true o (no_canfail o) p [a] N R a s E (or_introl eq_refl) HG) as [a' [A B]].
  exists a'. split; [exact A|]. destruct (snd (run o p s)); auto.
Qed.

(* no double free, no use of a dead/NULL pointer, no block handed to the wrong deallocator - for every oracle *)
Theorem runS_no_error : forall fuel p, acheckS fuel (fun _ => true) p ainit = true ->
  forall o, errs (fst (run o p init_state)) = [].
Proof.
  intros fuel p H o. destruct (acheckS_sound fuel _ p ainit init_state o H G_init) as [a' [A _]]. exact (g_errs _ _ A).
Qed.

(* ... and nothing stays allocated *)
Theorem runS_no_leak : forall fuel p, acheckS fuel aclean p ainit = true ->
  forall o, live (fst (run o p init_state)) = [] /\ errs (fst (run o p init_state)) = [].
Proof.
  intros fuel p H o. destruct (acheckS_sound fuel _ p ainit init_state o H G_init) as [a' [A B]].
  split; [exact (G_clean_live _ _ A B)|exact (g_errs _ _ A)].
Qed.

(* the status is an error exactly when some allocation failed *)
Theorem runS_error_iff_failure : forall fuel p, acheckS fuel aerr_iff_fail p ainit = true ->
  forall o, status (fst (run o p init_state)) = false <-> 0 < nfail (fst (run o p init_state)).
Proof.
  intros fuel p H o. destruct (acheckS_sound fuel _ p ainit init_state o H G_init) as [a' [A B]].
  unfold aerr_iff_fail in B. apply eqb_prop in B. rewrite <- (g_status _ _ A). rewrite B, (g_failed _ _ A).
  destruct (0 <? nfail (fst (run o p init_state))) eqn:E; cbn.
  - apply Nat.ltb_lt in E. tauto.
  - apply Nat.ltb_ge in E. split; [discriminate|lia].
Qed.

(* after ANY failure pattern in [first], running [again] with memory available ends in a state described by P *)
Theorem runS_reusable : forall fuel first again P, areusableS fuel first again ainit P = true ->
  forall o1 o2, (forall k, fails o2 k = false) ->
  exists a', G a' (fst (run o2 again (fst (run o1 first init_state)))) /\ P a' = true.
Proof.
  intros fuel first again P H o1 o2 Hnf. unfold areusableS in H.
  destruct (aexecS fuel true first [ainit]) as [[N R]|] eqn:E; [|discriminate].
  destruct (aexecS_sound fuel true o1 (no_canfail o1) first [ainit] N R ainit init_state E (or_introl eq_refl) G_init) as [a1 [A B]].
  assert (Hin : In (anorm a1) (sdedup (N ++ R))).
  { apply sdedup_in. apply in_or_app. destruct (snd (run o1 first init_state)); [right|left]; exact B. }
  destruct (aexecS fuel false again (sdedup (N ++ R))) as [[N2 R2]|] eqn:E2; [|discriminate].
  destruct (all_res_spec _ _ N2 R2 H eq_refl) as [HN HR].
  destruct (aexecS_sound fuel false o2 (fun _ => Hnf) again _ N2 R2 (anorm a1) _ E2 Hin (G_anorm _ _ A)) as [a2 [C D]].
  exists a2. split; [exact C|]. destruct (snd (run o2 again (fst (run o1 first init_state)))); auto.
Qed.

(* closed sets of abstract states: one step *)
Theorem closedS_sound : forall fuel St P p, closedS fuel St P p = true ->
  forall a s o, In a St -> G a s -> exists a', In a' St /\ P a' = true /\ G a' (fst (run o p s)).
Proof.
  intros fuel St P p H a s o Ha HG. unfold closedS in H.
  destruct (aexecS fuel true p St) as [[N R]|] eqn:E; [|discriminate].
  destruct (all_res_spec _ _ N R H eq_refl) as [HN HR].
  destruct (aexecS_sound fuel true o (no_canfail o) p St N R a s E Ha HG) as [a1 [A B]].
  assert (Hq : hmem (anorm a1) (hbuild St) && P (anorm a1) = true) by (destruct (snd (run o p s)); auto).
  apply andb_true_iff in Hq. destruct Hq as [Q1 Q2].
  exists (anorm a1). split; [apply (hmem_P (hbuild St) (fun x => In x St) _ (Inv_hbuild St) Q1)|].
  split; [|apply G_anorm; exact A].
  exact Q2.
Qed.

(* one step of a history: the caller reads the status registers (P), then they are reset *)
Lemma G_forget : forall a s, G a s -> G (aforget a) (fst (run (mkOracle (fun _ => false) (fun _ => false) (fun _ => O)) Forget s)).
Proof.
  intros a s [H1 H2 H3 H4 H5 H6 H7 H8 H9 H10 H11 H12 H13]. cbn. constructor; cbn; try assumption; reflexivity.
Qed.
Lemma run_forget : forall o s, run o Forget s = (upd_status (upd_nfail s 0) true, false).
Proof. reflexivity. Qed.

Theorem closedSF_sound : forall fuel St P p, closedSF fuel St P p = true ->
  forall a s o, In a St -> G a s ->
  exists a1, P a1 = true /\ G a1 (fst (run o p s)) /\
  exists a2, In a2 St /\ G a2 (fst (run o Forget (fst (run o p s)))).
Proof.
  intros fuel St P p H a s o Ha HG. unfold closedSF in H.
  destruct (aexecS fuel true p St) as [[N R]|] eqn:E; [|discriminate].
  destruct (all_res_spec _ _ N R H eq_refl) as [HN HR].
  destruct (aexecS_sound fuel true o (no_canfail o) p St N R a s E Ha HG) as [a1 [A B]].
  assert (Hq : hmem (anorm (aforget a1)) (hbuild St) && P a1 = true) by (destruct (snd (run o p s)); auto).
  apply andb_true_iff in Hq. destruct Hq as [Q1 Q2].
  exists a1. split; [exact Q2|]. split; [exact A|].
  exists (anorm (aforget a1)). split; [apply (hmem_P (hbuild St) (fun x => In x St) _ (Inv_hbuild St) Q1)|].
  apply G_anorm. rewrite run_forget. cbn [fst]. exact (G_forget a1 _ A).
Qed.
