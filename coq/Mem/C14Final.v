(* C14 - final statements (with proofs) re-exported verbatim by Props/Properties_C14.v *)
From Coq Require Import NArith ZArith List Bool Lia.
From ZV.Gen Require Import Gen_C14.
From ZV.Mem Require Import Cwksp CwkspProofs Estimate EstimateProofs LevelDefs LevelProofs DBuffers DBuffersProofs.
Import ListNotations.
Local Open Scope N_scope.

Lemma static_never_grows_l :
  forall rz start size static ops,
    let w0 := init start size static in
    let '(w', log) := run rz w0 ops in
    (ws_start w' = start /\ ws_end w' = start + size) /\
    Forall (fun e : entry => fst e = None \/
              exists p, fst e = Some p /\ start <= p /\ p + snd e <= start + size) log.
Proof.
  intros rz start size static ops w0.
  pose proof (run_safe rz ops w0 (safe_inv_init start size static)) as H.
  destruct (run rz w0 ops) as [w' log]. destruct H as (_ & [B1 B2] & L).
  split; [ split; [ rewrite B1 | rewrite B2 ]; reflexivity | exact L ].
Qed.

Lemma cwksp_fit_126_l :
  forall rz start size static ops,
    wf_ops true ops = true ->
    ops_cost rz ops + 126 <= size ->
    let w0 := init start size static in
    let '(w', log) := run rz w0 ops in
    allocFailed w' = false /\ Forall (entry_ok w0) log.
Proof.
  intros rz start size static ops WF HC w0.
  pose proof (cwksp_fit rz start size static ops WF HC) as H. cbv zeta in H. fold w0 in H.
  destruct (run rz w0 ops) as [w' log]. destruct H as (A & _ & L). split; assumption.
Qed.

(* a static context of ZSTD_estimateCCtxSize(L) bytes runs ZSTD_compressCCtx at every covered level l <= L,
   for every source size, at every 8-aligned address *)
Lemma levels_static_oneshot_ok_l :
  forall rz start size l L s,
    sweep_oneshot rz = true ->
    level_covered l L -> s <= UNKNOWN -> start mod 8 = 0 ->
    estimateCCtxSize rz L <= size ->
    exists w log, static_simple_session rz start size l s = SessDone w log /\
                  allocFailed w = false /\ ws_start w = start /\ ws_end w = start + size /\
                  Forall (entry_in start size) log.
Proof.
  intros rz start size l L s SO HC Hs Ha Hsz.
  destruct (estimate_covers_levels_oneshot rz l L s SO HC Hs) as [N1 _].
  unfold static_simple_session, simple_params.
  apply estimate_covers_reservation_l; try assumption.
  - discriminate.
  - intros _. reflexivity.
  - unfold need_simple, session_need, simple_params in N1. lia.
Qed.

(* same for ZSTD_compress2 with only the level set *)
Lemma levels_static_compress2_ok_l :
  forall rz start size l L s,
    sweep_oneshot rz = true ->
    level_covered l L -> s <= UNKNOWN -> start mod 8 = 0 ->
    estimateCCtxSize rz L <= size ->
    exists w log, static_stream2_session rz start size (level_pp l) s true = SessDone w log /\
                  allocFailed w = false /\ ws_start w = start /\ ws_end w = start + size /\
                  Forall (entry_in start size) log.
Proof.
  intros rz start size l L s SO HC Hs Ha Hsz.
  destruct (estimate_covers_levels_oneshot rz l L s SO HC Hs) as [_ N2].
  unfold static_stream2_session, stream2_params. cbn [negb andb p_extSeq level_pp p_maxBlockSize p_ldm p_row].
  apply estimate_covers_reservation_l; try assumption.
  - discriminate.
  - intros _. reflexivity.
  - unfold need_compress2, session_need, stream2_params in N2.
    cbn [p_extSeq level_pp p_maxBlockSize p_ldm p_row] in N2. lia.
Qed.

(* a static CStream of ZSTD_estimateCStreamSize(L) bytes runs buffered ZSTD_compressStream2 at every covered level *)
Lemma levels_static_stream_ok_l :
  forall rz start size l L s,
    sweep_stream rz = true ->
    level_covered l L -> s <= UNKNOWN -> start mod 8 = 0 ->
    estimateCStreamSize rz L <= size ->
    exists w log, static_stream2_session rz start size (level_pp l) s false = SessDone w log /\
                  allocFailed w = false /\ ws_start w = start /\ ws_end w = start + size /\
                  Forall (entry_in start size) log.
Proof.
  intros rz start size l L s SS HC Hs Ha Hsz.
  pose proof (estimate_covers_levels_stream rz l L s SS HC Hs) as N1.
  unfold static_stream2_session, stream2_params.
  cbn [negb andb p_extSeq level_pp p_maxBlockSize p_ldm p_row p_inBuffered p_outBuffered].
  apply estimate_covers_reservation_l; try assumption.
  - discriminate.
  - intros _. reflexivity.
  - unfold need_stream, session_need, stream2_params in N1.
    cbn [p_extSeq level_pp p_maxBlockSize p_ldm p_row] in N1. lia.
Qed.

(* CCtx_params estimators, tier-consistent case (source size unknown to the reset): the estimate is the need,
   hence a static context of the estimated size completes the reset *)
Lemma ccparams_static_unknown_size_ok_l :
  forall rz start size p e,
    p_nbWorkers p = 0 -> start mod 8 = 0 ->
    (ldm_enabled (ldm_with_enable (p_ldm p)
        (resolveEnableLdm (ldm_enable (p_ldm p)) (getCParamsFromCCtxParams p UNKNOWN 0 CpmNoAttachDict))) = true ->
     ldm_user_ok (p_ldm p) = true) ->
    estimateCCtxSize_usingCCtxParams rz p = Some e -> e <= size ->
    exists w log, static_stream2_session rz start size p UNKNOWN true = SessDone w log /\
                  allocFailed w = false /\ ws_start w = start /\ ws_end w = start + size /\
                  Forall (entry_in start size) log.
Proof.
  intros rz start size p e Hw Ha Hl He Hsz.
  rewrite (ccparams_estimate_is_need_unknown rz p Hw) in He. injection He as He'.
  unfold static_stream2_session, stream2_params. cbn [negb andb].
  apply estimate_covers_reservation_l.
  - exact Ha.
  - unfold resolveMaxBlockSize. destruct (N.eqb_spec (p_maxBlockSize p) 0); [ discriminate | assumption ].
  - intros H. specialize (Hl H). unfold ldm_user_ok, ldm_with_enable in *.
    cbn [ldm_hashLog ldm_bucketSizeLog ldm_minMatch ldm_hashRateLog]. exact Hl.
  - unfold session_need, stream2_params in He'. rewrite He'. exact Hsz.
Qed.

Lemma estimate_monotone_level_l :
  forall l L s, level_covered l L -> s <= UNKNOWN ->
    need_simple 0 l s <= estimateCCtxSize 0 L /\ need_compress2 0 l s <= estimateCCtxSize 0 L /\
    need_stream 0 l s <= estimateCStreamSize 0 L.
Proof.
  intros l L s HC Hs.
  destruct (estimate_covers_levels_oneshot 0 l L s sweep_oneshot_0 HC Hs) as [A B].
  pose proof (estimate_covers_levels_stream 0 l L s sweep_stream_0 HC Hs) as C. tauto.
Qed.

(* ------------------------------------------------------------------ *)
(* the hypotheses are satisfiable / the statements are not vacuous *)

Example level_covered_example : level_covered 3 19 /\ level_covered 0 3 /\ level_covered 22 100.
Proof. unfold level_covered. repeat split; lia. Qed.

(* a concrete static session: level 5 (greedy, row finder, windowLog 21 at unknown size), context of exactly
   ZSTD_estimateCCtxSize(5) bytes at address 0x7f0000001008, 100000-byte source: 15 reservations, none fails *)
Example static_session_example :
  match static_simple_session 0 139637976731656 (estimateCCtxSize 0 5) 5 100000 with
  | SessDone w log => allocFailed w = false /\ length log = 15%nat
  | _ => False
  end.
Proof. vm_compute. split; reflexivity. Qed.

(* one byte less than what the reset needs: clean error *)
Example static_session_too_small_example :
  static_simple_session 0 139637976731656 (need_simple 0 5 100000 - 1) 5 100000 = SessMemError.
Proof. vm_compute. reflexivity. Qed.

Example dstream_example :
  exists st, dstream_load_header (dstate0 0 (2 ^ 20) 0 true) (2 ^ 17) D_UNKNOWN = DsOk st (Some (131072 + (131072 + 262144 + 64)))
  /\ dstream_load_header (dstate0 0 (2 ^ 20) 0 true) (2 ^ 20 + 1) D_UNKNOWN = DsErrWindow.
Proof. eexists. split; vm_compute; reflexivity. Qed.
