(* C14 - final statements (with proofs) re-exported verbatim by Props/Properties_C14.v *)
From Coq Require Import NArith ZArith List Bool Lia.
From ZV.Gen Require Import Gen_C14.
From ZV.Mem Require Import Cwksp CwkspProofs.
Import ListNotations.
Local Open Scope N_scope.

Lemma static_never_grows_l :
  forall rz start size static ops,
    let w0 := init start size static in
    let '(w', log) := run rz w0 ops in
    (ws_start w' = start /\ ws_end w' = start + size) /\
    Forall (fun e : entry => fst e = None \/
              exists p, fst e = Some p /\ start <= p /\ p + snd e <= start + size) log.
Proof.
  intros rz start size static ops w0.
  pose proof (run_safe rz ops w0 (safe_inv_init start size static)) as H.
  destruct (run rz w0 ops) as [w' log]. destruct H as (_ & [B1 B2] & L).
  split; [ split; [ rewrite B1 | rewrite B2 ]; reflexivity | exact L ].
Qed.

Lemma cwksp_fit_126_l :
  forall rz start size static ops,
    wf_ops true ops = true ->
    ops_cost rz ops + 126 <= size ->
    let w0 := init start size static in
    let '(w', log) := run rz w0 ops in
    allocFailed w' = false /\ Forall (entry_ok w0) log.
Proof.
  intros rz start size static ops WF HC w0.
  pose proof (cwksp_fit rz start size static ops WF HC) as H. cbv zeta in H. fold w0 in H.
  destruct (run rz w0 ops) as [w' log]. destruct H as (A & _ & L). split; assumption.
Qed.
