(* C14 round 2 - the recipe zstd.h gives for a static CDict made from a compression LEVEL:
     workspaceSize = ZSTD_estimateCDictSize(dictSize, level)          (sizing mode ZSTD_cpm_createCDict)
     cParams       = ZSTD_getCParams(level, estimatedSrcSize, dictSize)  (sizing mode ZSTD_cpm_unknown)
     ZSTD_initStaticCDict(workspace, workspaceSize, dict, dictSize, ZSTD_dlm_byCopy, .., cParams)
   No proofs in this file. *)
From Coq Require Import NArith ZArith List Bool.
From ZV.Gen Require Import Gen_C14.
From ZV.Mem Require Import Cwksp Estimate.
Local Open Scope N_scope.

(* ZSTD_getCParams: the public entry point; srcSizeHint == 0 means "unknown" *)
Definition getCParams_public (lvl : Z) (srcSizeHint dictSize : N) : cparams :=
  getCParams_internal lvl (if srcSizeHint =? 0 then UNKNOWN else srcSizeHint) dictSize CpmUnknown.

Definition cdict_level_recipe (rz start : N) (dictSize : N) (lvl : Z) (srcSizeHint : N) : init_result :=
  initStaticCDict rz start (estimateCDictSize rz dictSize lvl) (getCParams_public lvl srcSizeHint dictSize) dictSize false.
