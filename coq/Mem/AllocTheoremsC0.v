(* C13 - compression side, part 0: the closed set of abstract ownership states of a ZSTD_CCtx (local dictionary, workspace,
   ZSTDMT_CCtx with factory, jobs table, buffer / cctx / sequence pools, LDM tables, round buffer, local CDict) under
   {create, loadDictionary (copy / reference), refCDict, multithreaded compression, reset, free}.  Computed once (worklist closure, ~10^4 states); parts 1-3 check it against every operation shape. *)
From Coq Require Import NArith List Bool Arith Lia.
From ZV.Mem Require Import AllocDsl AllocInstances AllocProofs AllocSet AllocSetProofs AllocClient AllocHistory AllocTheorems.
Import ListNotations.
Local Open Scope N_scope.

Definition St_cctx : list astate := Eval vm_compute in unopt (reachSL F (map (client zs0) cctx_reps) ainit).

Lemma succ_nz : forall w, (N.succ w =? 0) = false.
Proof. intros w. apply N.eqb_neq. lia. Qed.
Lemma cctx_init : In ainit St_cctx.
Proof. left. reflexivity. Qed.
Definition cctx_alive (St : list astate) : list astate := filter (fun a => match aget a K_cctx with AOwn => true | _ => false end) St.
