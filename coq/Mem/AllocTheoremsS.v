(* C13 - instance theorems, compression side with nbWorkers = 0: ZSTD_CCtx with its local dictionary (buffer copy, local
   CDict) and workspace under EVERY history of {create, loadDictionary (copy / reference), refCDict, single-threaded
   compression with any workspace decision, reset, free}. *)
From Coq Require Import NArith List Bool Arith Lia.
From ZV.Mem Require Import AllocDsl AllocInstances AllocProofs AllocSet AllocSetProofs AllocClient AllocHistory AllocTheorems.
Import ListNotations.
Local Open Scope N_scope.

Definition St_cctx_st : list astate := Eval vm_compute in unopt (reachSL F (map (client zs0) cctx_st_reps) ainit).

Lemma cctx_st_closed : forall zs op, cctx_st_op op = true -> closedSF F St_cctx_st aerr_iff_fail (client zs op) = true.
Proof.
  intros zs op H. destruct op; try discriminate H;
    unfold client, api, op_prog, load_dict; split_tests; run_analysis.
Qed.
Lemma cctx_st_teardown : forall zs, all_res aclean (aexecS F true (teardown_cctx zs) St_cctx_st) = true.
Proof. intros zs. run_analysis. Qed.
Lemma cctx_st_init : In ainit St_cctx_st.
Proof. left. reflexivity. Qed.
Lemma cctx_st_not_dang : forallb (fun a => match aget a K_cctx with ADang => false | _ => true end) St_cctx_st = true.
Proof. run_analysis. Qed.
Lemma cctx_st_recover : forall zs wsz cdsz,
  all_res astatus_ok (aexecS F false (client zs OReset ;; Forget ;; client zs (OCompressAny wsz cdsz))
    (filter (fun a => match aget a K_cctx with AOwn => true | _ => false end) St_cctx_st)) = true.
Proof. intros zs wsz cdsz. run_analysis. Qed.

Theorem cctx_st_any_history_no_leak : forall zs ops, forallb cctx_st_op ops = true -> forall o,
  let s := fst (run o (session zs ops ;; teardown_cctx zs) init_state) in live s = [] /\ errs s = [].
Proof. intros zs ops H o. exact (history_then_teardown zs F cctx_st_op St_cctx_st _ _ cctx_st_init (cctx_st_closed zs) (cctx_st_teardown zs) ops H o). Qed.

Theorem cctx_st_any_history_error_iff_failure : forall zs ops op, forallb cctx_st_op ops = true -> cctx_st_op op = true -> forall o,
  let s := fst (run o (session zs ops ;; client zs op) init_state) in status s = false <-> (0 < nfail s)%nat.
Proof.
  intros zs ops op H1 H2 o. cbn zeta.
  destruct (history_last zs F cctx_st_op St_cctx_st _ (cctx_st_closed zs) ops op H1 H2 o ainit init_state cctx_st_init G_init) as [a [A B]].
  exact (status_of_G _ _ B A).
Qed.

Theorem cctx_st_reusable_after_any_history : forall zs ops, forallb cctx_st_op ops = true ->
  forall o1 o2, (forall k, fails o2 k = false) -> forall wsz cdsz,
  let s1 := fst (run o1 (session zs ops) init_state) in
  sget s1 K_cctx <> None ->
  let s2 := fst (run o2 (client zs OReset ;; Forget ;; client zs (OCompressAny wsz cdsz)) s1) in
  status s2 = true /\ errs s2 = [].
Proof.
  intros zs ops H o1 o2 Hnf wsz cdsz. cbn zeta. intros Hl.
  destruct (history_then_recover zs F cctx_st_op St_cctx_st _ astatus_ok K_cctx _ cctx_st_init (cctx_st_closed zs) cctx_st_not_dang
              (cctx_st_recover zs wsz cdsz) ops H o1 o2 Hnf Hl) as [a [A B]].
  split; [rewrite <- (g_status _ _ B); exact A|exact (g_errs _ _ B)].
Qed.
