(* C13 - proofs of the non-vacuity witnesses (AllocExamples.v) and the tie of the size formulas (AllocGen.v). *)
From Coq Require Import NArith List Bool Arith.
From ZV.Mem Require Import AllocDsl AllocInstances AllocSet AllocGen AllocClient AllocTheorems.
From ZV.Mem Require Import AllocExamples.
Import ListNotations.
Local Open Scope N_scope.

Lemma pre_a233ed7_foreign_free :
  errs_of (fault 2) (bufpool_create_pre_a233ed7 120 5) = [EForeignFree 120] /\
  acheckS 8 (fun _ => true) (bufpool_create_pre_a233ed7 120 5) ainit = false /\
  errs_of (fault 2) (bufpool_create zsx 120 5) = [] /\ live_of (fault 2) (bufpool_create zsx 120 5) = [].
Proof. vm_compute. repeat split; reflexivity. Qed.

Lemma pre_d89793f_null_deref :
  errs_of (fault 5) (mtctx_create_pre_d89793f 2) = [EUseDead 101] /\
  acheckS 8 (fun _ => true) (mtctx_create_pre_d89793f 2) ainit = false /\
  errs_of (fault 5) (mtctx_create zsx 2) = [] /\ live_of (fault 5) (mtctx_create zsx 2) = [] /\
  status (fst (run (fault 5) (mtctx_create zsx 2) init_state)) = false.
Proof. vm_compute. repeat split; reflexivity. Qed.

Lemma leaky_pool_create_leaks :
  live_of (fault 3) (pool_create_leaky 10 3 4) = [2; 1]%nat /\ errs_of (fault 3) (pool_create_leaky 10 3 4) = [] /\
  acheckS 8 aclean (pool_create_leaky 10 3 4) ainit = false /\
  live_of (fault 3) (pool_create zsx 10 3 4) = [].
Proof. vm_compute. repeat split; reflexivity. Qed.

Lemma double_free_detected :
  errs_of (fault 0) double_free_prog = [EDoubleFree 200] /\ acheckS 8 (fun _ => true) double_free_prog ainit = false.
Proof. vm_compute. repeat split; reflexivity. Qed.

Lemma stale_sizes_use_null :
  errs_of (fault 2) (dctx_create zsx ;; dstream_stale_sizes 100 ;; dstream_stale_sizes 100) = [EUseDead 301] /\
  errs_of (fault 2) (dctx_create zsx ;; dstream 100 ;; dstream 100) = [] /\
  status (fst (run (fault 2) (dctx_create zsx ;; dstream 100 ;; dstream 100) init_state)) = true.
Proof. vm_compute. repeat split; reflexivity. Qed.

(* a complete concrete scenario of the current transcription driven by the well-behaved caller: 50 allocation requests
   without faults (two multithreaded compressions with resize, local dictionary, LDM tables, 5 + 6 job / flush rounds);
   every single allocation index fails once: never an ownership error, nothing left allocated *)
Definition life : prog :=
  session zsx [OCCtxCreate; OLoadDict false 100; OCompressMT 1 1 10 20 30 40 50 60 70; OReset; OCompressMT 2 1 10 20 30 40 50 60 70] ;; teardown_cctx zsx.
Definition life_choices : list bool :=
  [false; true; true; true; true; false; true; false; true; true; false; false; true; true; false; true; false; false; true; true;
   true; true; true; true; false; true; true; false; true; true; false; false; true; true; false; true; false; false; true; true].
Definition life_oracle (k : nat) : oracle := oracle_of [k] life_choices [5; 6]%nat.
Definition every_k_clean (n : nat) : bool :=
  forallb (fun k => match run (life_oracle k) life init_state with
                    | (s, _) => match live s, errs s with [], [] => true | _, _ => false end end) (seq 0 n).
Lemma life_every_single_fault_clean : every_k_clean 60 = true /\ next (fst (run (life_oracle 0) life init_state)) = 50%nat.
Proof. vm_compute. split; reflexivity. Qed.

(* the regenerated constants: the model's size formulas agree with the macros of the current headers, and the
   hypothesis [sizes_ok] of the theorems holds for them *)
Lemma formulas_agree_current : formulas_agree = true.
Proof. vm_compute. reflexivity. Qed.
Lemma gen_sizes_ok : sizes_ok gen_sizes.
Proof. unfold sizes_ok. intro H. vm_compute in H. discriminate H. Qed.
