(* C14 - proofs about the sizing model (Estimate.v): the estimate covers the reservation list. *)
From Coq Require Import NArith ZArith List Bool Lia.
From ZV.Gen Require Import Gen_C14.
From ZV.Mem Require Import Cwksp CwkspProofs Estimate.
Import ListNotations.
Local Open Scope N_scope.
Ltac Zify.zify_post_hook ::= Z.to_euclidean_division_equations.

(* ------------------------------------------------------------------ *)
(* T-tie facts: re-checked against the regenerated constants on every run *)

Lemma gen_objects_aligned :
  sizeof_ZSTD_CCtx mod 8 = 0 /\ sizeof_ZSTD_compressedBlockState_t mod 8 = 0 /\ c_TMP_WORKSPACE_SIZE mod 8 = 0 /\
  sizeof_ZSTD_CDict mod 8 = 0 /\ c_HUF_WORKSPACE_SIZE mod 8 = 0 /\
  0 < sizeof_ZSTD_CCtx /\ 0 < sizeof_ZSTD_compressedBlockState_t /\ 0 < c_TMP_WORKSPACE_SIZE /\
  0 < sizeof_ZSTD_CDict /\ 0 < c_HUF_WORKSPACE_SIZE /\ sizeof_ptr = 8 /\ sizeof_ldmEntry_t = 8.
Proof. vm_compute. repeat split; reflexivity. Qed.

Lemma gen_slack : slack_space_required = 128.
Proof. reflexivity. Qed.

(* ------------------------------------------------------------------ *)

Lemma ops_cost_app rz a b : ops_cost rz (a ++ b) = ops_cost rz a + ops_cost rz b.
Proof. induction a as [ | o a IH]; cbn [app ops_cost]; [ reflexivity | rewrite IH; lia ]. Qed.

Lemma run_app rz : forall a b w,
  run rz w (a ++ b) = let '(w1, l1) := run rz w a in let '(w2, l2) := run rz w1 b in (w2, l1 ++ l2).
Proof.
  induction a as [ | o a IH]; intros b w; cbn [app run].
  - destruct (run rz w b); reflexivity.
  - destruct (step rz w o) as [w1 l1]. rewrite IH.
    destruct (run rz w1 a) as [w2 l2]. destruct (run rz w2 b) as [w3 l3]. rewrite app_assoc. reflexivity.
Qed.

Lemma object_cost rz n : n mod 8 = 0 -> 0 < n -> op_cost rz (OObject n) = alloc_size rz n.
Proof.
  intros H P. cbn [op_cost]. rewrite align_up_id by (try lia; assumption). unfold alloc_size.
  destruct (N.eqb_spec n 0); lia.
Qed.

Lemma pow2_mul8_aligned h : 3 <= h -> (2 ^ h * 8) mod 64 = 0.
Proof.
  intros H. replace h with (3 + (h - 3)) by lia. rewrite N.pow_add_r.
  replace (2 ^ 3 * 2 ^ (h - 3) * 8) with (2 ^ (h - 3) * 64) by (change (2 ^ 3) with 8; lia).
  apply N.mod_mul. lia.
Qed.

(* ------------------------------------------------------------------ *)
(* match state: reservation cost vs ZSTD_sizeof_matchState *)

Lemma matchState_cost_CCtx rz cp row ri mc :
  ops_cost rz (matchState_ops cp row true false ri mc) + slack_space_required = sizeof_matchState rz cp row false true.
Proof.
  unfold matchState_ops, sizeof_matchState, optPotentialSpace, aligned64_alloc_size.
  cbn [andb negb].
  repeat rewrite ops_cost_app.
  destruct ri, mc; cbn [ops_cost op_cost];
  destruct (rowMatchFinderUsed (strat cp) row); cbn [ops_cost op_cost];
  destruct (c_ZSTD_btopt <=? strat cp); cbn [ops_cost op_cost]; lia.
Qed.

Lemma matchState_cost_CDict rz cp row msDDS :
  ops_cost rz (matchState_ops cp row false msDDS true true) + slack_space_required <= sizeof_matchState rz cp row true false.
Proof.
  unfold matchState_ops, sizeof_matchState, aligned64_alloc_size, hashLog3_of.
  cbn [andb negb]. rewrite andb_true_r.
  repeat rewrite ops_cost_app. cbn [ops_cost op_cost N.eqb].
  assert (H : (if allocateChainTable (strat cp) row msDDS then 2 ^ clog cp else 0)
              <= (if allocateChainTable (strat cp) row true then 2 ^ clog cp else 0)).
  { unfold allocateChainTable. cbn [orb]. destruct (msDDS || _); lia. }
  destruct (rowMatchFinderUsed (strat cp) row); cbn [ops_cost op_cost]; nia.
Qed.

Lemma matchState_wf cp row f d ri mc : wf_ops false (matchState_ops cp row f d ri mc) = true.
Proof.
  unfold matchState_ops.
  destruct ri, mc, (rowMatchFinderUsed (strat cp) row), f, (c_ZSTD_btopt <=? strat cp); reflexivity.
Qed.

(* ------------------------------------------------------------------ *)
(* whole reset: cost of the reservation list + the 128-byte slack = the estimate (minus the objects) *)

Definition ldm_sized (l : ldmparams) : Prop :=
  ldm_enabled l = true -> 3 <= ldm_hashLog l /\ ldm_bucketSizeLog l <= ldm_hashLog l.

Definition objects_of (isStatic : bool) : list op := if isStatic then static_objects else heap_objects.

Lemma objects_cost rz isStatic :
  ops_cost rz (objects_of isStatic)
  = (if isStatic then alloc_size rz sizeof_ZSTD_CCtx else 0) + alloc_size rz c_TMP_WORKSPACE_SIZE
    + 2 * alloc_size rz sizeof_ZSTD_compressedBlockState_t.
Proof.
  destruct gen_objects_aligned as (A1 & A2 & A3 & _ & _ & P1 & P2 & P3 & _).
  unfold objects_of, static_objects, heap_objects. destruct isStatic; cbn [ops_cost];
  repeat rewrite object_cost by assumption; lia.
Qed.

Lemma reset_cost rz cp ldm isStatic row bin bout pledged ext mbs ri mc :
  mbs <> 0 -> ldm_sized ldm ->
  ops_cost rz (objects_of isStatic ++ resetCCtx_ops cp ldm row bin bout pledged ext mbs ri mc) + 128
  = estimate_internal rz cp ldm isStatic row bin bout pledged ext mbs.
Proof.
  intros Hm Hl.
  rewrite ops_cost_app, objects_cost.
  unfold resetCCtx_ops, estimate_internal, windowSize_of, resolveMaxBlockSize, ldm_getTableSize, aligned64_alloc_size.
  destruct (N.eqb_spec mbs 0) as [E | _]; [ contradiction | ].
  cbv zeta.
  set (blockSize := N.min mbs (N.max 1 (N.min (2 ^ wlog cp) pledged))).
  repeat rewrite ops_cost_app.
  pose proof (matchState_cost_CCtx rz cp row ri mc) as HM. rewrite gen_slack in HM.
  rewrite <- HM.
  rewrite (N.add_comm c_WILDCOPY_OVERLENGTH blockSize).
  unfold ldm_sized in Hl.
  destruct (ldm_enabled ldm) eqn:EL.
  - destruct (Hl eq_refl) as [H3 Hb].
    rewrite (N.min_l _ _ Hb).
    destruct gen_objects_aligned as (_ & _ & _ & _ & _ & _ & _ & _ & _ & _ & _ & S8). rewrite S8.
    pose proof (align_up_id (2 ^ ldm_hashLog ldm * 8) ALIGN ltac:(unfold ALIGN; lia) (pow2_mul8_aligned _ H3)) as HA.
    destruct ext, isStatic; cbn [ops_cost op_cost app]; rewrite HA; lia.
  - destruct ext, isStatic; cbn [ops_cost op_cost app]; lia.
Qed.

Lemma wf_ops_weaken : forall l, wf_ops false l = true -> wf_ops true l = true.
Proof.
  induction l as [ | o l IH]; cbn [wf_ops]; [ reflexivity | ].
  destruct (is_object o); cbn [andb]; [ discriminate | ].
  destruct (is_reserve o); [ exact (fun H => H) | exact IH ].
Qed.

Lemma wf_ops_app_false : forall a b, wf_ops false a = true -> wf_ops false b = true -> wf_ops false (a ++ b) = true.
Proof.
  induction a as [ | o a IH]; intros b Ha Hb; cbn [app wf_ops] in *; [ exact Hb | ].
  destruct (is_object o); cbn [andb] in *; [ discriminate | ].
  destruct (is_reserve o); apply IH; assumption.
Qed.

Lemma reset_ops_wf cp ldm row bin bout pledged ext mbs ri mc :
  wf_ops false (resetCCtx_ops cp ldm row bin bout pledged ext mbs ri mc) = true.
Proof.
  unfold resetCCtx_ops. cbv zeta. cbn [app wf_ops is_object is_reserve].
  apply wf_ops_app_false; [ apply matchState_wf | ].
  destruct (ldm_enabled ldm), ext; reflexivity.
Qed.

Lemma reset_wf cp ldm isStatic row bin bout pledged ext mbs ri mc :
  wf_ops true (objects_of isStatic ++ resetCCtx_ops cp ldm row bin bout pledged ext mbs ri mc) = true.
Proof.
  pose proof (wf_ops_weaken _ (reset_ops_wf cp ldm row bin bout pledged ext mbs ri mc)) as H1.
  unfold objects_of, static_objects, heap_objects. destruct isStatic; cbn [app wf_ops is_object andb]; exact H1.
Qed.

(* ------------------------------------------------------------------ *)
(* LDM parameters after ZSTD_ldm_adjustParameters *)

Lemma ldm_adjust_sized l cp :
  ldm_user_ok l = true -> ldm_sized (ldm_adjustParameters l cp).
Proof.
  unfold ldm_user_ok, ldm_sized, ldm_adjustParameters, zero_or, inb. intros H _. cbn [ldm_hashLog ldm_bucketSizeLog].
  repeat (apply andb_true_iff in H; destruct H as [H ?]).
  split; [ | apply N.le_min_r ].
  destruct (N.eqb_spec (ldm_hashLog l) 0) as [E | E].
  - assert (c_ZSTD_HASHLOG_MIN = 6) by reflexivity. lia.
  - cbn [orb] in H. apply andb_true_iff in H. destruct H as [H _]. apply N.leb_le in H.
    assert (c_ZSTD_LDM_HASHLOG_MIN = 6) by reflexivity. lia.
Qed.

(* in-bounds entry, spelled with the block's address range *)
Definition entry_in (start size : N) (e : entry) : Prop :=
  snd e = 0 \/ exists p, fst e = Some p /\ start <= p /\ p + snd e <= start + size.

Lemma estimate_ge_objects rz cp ldm row bin bout pledged ext mbs :
  sizeof_ZSTD_CCtx + c_TMP_WORKSPACE_SIZE + 2 * sizeof_ZSTD_compressedBlockState_t + 128
  <= estimate_internal rz cp ldm true row bin bout pledged ext mbs.
Proof.
  unfold estimate_internal, sizeof_matchState. rewrite gen_slack. cbv zeta.
  pose proof (alloc_size_le rz sizeof_ZSTD_CCtx). pose proof (alloc_size_le rz c_TMP_WORKSPACE_SIZE).
  pose proof (alloc_size_le rz sizeof_ZSTD_compressedBlockState_t). lia.
Qed.

(* estimate_covers_reservation: a static context whose block is at least the estimate computed from the
   parameters the reset applies: ZSTD_initStaticCCtx succeeds, the size gate passes, every reservation of
   ZSTD_resetCCtx_internal / ZSTD_reset_matchState succeeds (no reserve_failed, no NULL for a non-empty request)
   and lies inside the caller's block - whatever the base address (8-aligned), redzone, parameters. *)
Lemma estimate_covers_reservation_l :
  forall rz start size cp ldm row pledged ext mbs buffered inb outb,
    start mod 8 = 0 -> mbs <> 0 ->
    (ldm_enabled ldm = true -> ldm_user_ok ldm = true) ->
    let ldmA := if ldm_enabled ldm then ldm_adjustParameters ldm cp else ldm in
    estimate_internal rz cp ldmA true row (reset_buffInSize cp pledged mbs buffered inb)
                      (reset_buffOutSize cp pledged mbs buffered outb) pledged ext mbs <= size ->
    exists w log,
      static_session rz start size (cp, ldm, row, mbs) pledged ext buffered inb outb = SessDone w log /\
      allocFailed w = false /\ ws_start w = start /\ ws_end w = start + size /\
      Forall (entry_in start size) log.
Proof.
  intros rz start size cp ldm row pledged ext mbs buffered inb outb Ha Hm Hl ldmA Hsz.
  set (bin := reset_buffInSize cp pledged mbs buffered inb) in *.
  set (bout := reset_buffOutSize cp pledged mbs buffered outb) in *.
  assert (HLs : ldm_sized ldmA).
  { unfold ldmA. destruct (ldm_enabled ldm) eqn:E; [ apply ldm_adjust_sized; exact (Hl eq_refl) | ].
    unfold ldm_sized. rewrite E. discriminate. }
  pose proof (reset_cost rz cp ldmA true row bin bout pledged ext mbs true true Hm HLs) as HC.
  pose proof (estimate_ge_objects rz cp ldmA row bin bout pledged ext mbs) as HG.
  set (rops := resetCCtx_ops cp ldmA row bin bout pledged ext mbs true true) in *.
  cbn [objects_of] in HC. rewrite ops_cost_app in HC.
  unfold static_session, initStaticCCtx.
  destruct (N.leb_spec size sizeof_ZSTD_CCtx) as [Hbad | _]; [ exfalso; lia | ].
  rewrite Ha. cbn [N.eqb negb].
  assert (Hs63 : 63 <= size) by lia.
  pose proof (inv_init start size true Hs63) as I0.
  destruct (init_free start size true Hs63) as (F1 & F2 & F3 & F4 & F5 & F6).
  set (w0 := init start size true) in *.
  (* first object: the context itself *)
  unfold static_objects in *. cbn [ops_cost tl] in HC.
  set (objs3 := [OObject sizeof_ZSTD_compressedBlockState_t; OObject sizeof_ZSTD_compressedBlockState_t;
                 OObject c_TMP_WORKSPACE_SIZE]) in *.
  pose proof (reserve_object_ok rz w0 sizeof_ZSTD_CCtx (ops_cost rz objs3 + (ops_cost rz rops + 2)) I0 F5 F4) as H1.
  pose proof (step_static rz w0 (OObject sizeof_ZSTD_CCtx)) as St1. cbn [step] in St1.
  destruct (reserve_object rz w0 sizeof_ZSTD_CCtx) as [w1 r1]. cbn [fst] in St1.
  destruct H1 as (I1 & SB1 & AF1 & P1 & C1 & (q1 & -> & Q1a & Q1b & Q1c & Q1d)).
  { unfold pad_due. rewrite F4. unfold objs3. cbn [phase_rank N.eqb ops_cost op_cost] in *. lia. }
  (* check_available *)
  assert (HCA : check_available w1 (c_TMP_WORKSPACE_SIZE + 2 * sizeof_ZSTD_compressedBlockState_t) = true).
  { unfold check_available, available_space_c. destruct I1 as (_ & _ & J3 & _).
    destruct (N.leb_spec (tableEnd w1) (allocStart w1)); [ | lia ].
    apply N.leb_le. unfold available_space in C1. unfold objs3 in C1. cbn [ops_cost op_cost] in C1.
    pose proof (align_up_ge sizeof_ZSTD_compressedBlockState_t 8 ltac:(lia)).
    pose proof (align_up_ge c_TMP_WORKSPACE_SIZE 8 ltac:(lia)). lia. }
  rewrite HCA. cbn [negb].
  (* remaining objects *)
  pose proof (run_ok_c rz objs3 w1 true (ops_cost rz rops + 2) I1 AF1 (fun _ => P1) eq_refl) as H2.
  pose proof (run_static rz objs3 w1) as St2.
  cbn [tl].
  destruct (run rz w1 objs3) as [w2 l2]. cbn [fst] in St2.
  destruct H2 as (I2 & SB2 & AF2 & L2 & C2 & P2). { lia. }
  (* the reset: size gate, then the reservation list *)
  unfold resetCCtx_static.
  assert (Hst : is_static w2 = true) by (rewrite St2, St1; reflexivity).
  rewrite Hst. fold ldmA. fold bin. fold bout.
  assert (Hsz2 : cwksp_sizeof w2 = size).
  { unfold cwksp_sizeof. destruct SB1 as [A1 A2], SB2 as [B1 B2]. rewrite B1, B2, A1, A2, F2, F3. lia. }
  rewrite Hsz2.
  destruct (N.ltb_spec size (estimate_internal rz cp ldmA true row bin bout pledged ext mbs)) as [Hlt | _]; [ exfalso; lia | ].
  fold rops.
  pose proof (run_ok_c rz rops w2 false 2 I2 AF2 ltac:(discriminate) (reset_ops_wf cp ldmA row bin bout pledged ext mbs true true)) as H3.
  destruct (run rz w2 rops) as [w3 l3].
  destruct H3 as (I3 & SB3 & AF3 & L3 & _ & _). { lia. }
  exists w3, ((Some q1, sizeof_ZSTD_CCtx) :: l2 ++ l3).
  destruct SB1 as [A1 A2], SB2 as [B1 B2], SB3 as [D1 D2].
  split; [ reflexivity | ]. split; [ exact AF3 | ].
  split; [ congruence | ]. split; [ congruence | ].
  assert (Hconv : forall w e, ws_start w = start -> ws_end w = start + size -> entry_ok w e -> entry_in start size e).
  { intros w e E1 E2 [Z | (p & X1 & X2 & X3)]; [ left; exact Z | right ]. exists p. rewrite E1, E2 in *. auto. }
  constructor.
  - right. exists q1. cbn [fst snd]. split; [ reflexivity | ].
    destruct I1 as (K1 & K2 & K3 & K4 & K5 & K6). lia.
  - apply Forall_app. split.
    + eapply Forall_impl; [ | exact L2 ]. intros e He. apply (Hconv w1 e); congruence.
    + eapply Forall_impl; [ | exact L3 ]. intros e He. apply (Hconv w2 e); congruence.
Qed.

(* static_never_grows, part 2: the size gate of ZSTD_resetCCtx_internal on a static context is an error, never a resize;
   the workspace is left untouched *)
Lemma static_too_small_is_error_l :
  forall rz w cp ldm row pledged ext mbs buffered inb outb ri mc,
    is_static w = true ->
    let ldmA := if ldm_enabled ldm then ldm_adjustParameters ldm cp else ldm in
    cwksp_sizeof w < estimate_internal rz cp ldmA true row (reset_buffInSize cp pledged mbs buffered inb)
                                       (reset_buffOutSize cp pledged mbs buffered outb) pledged ext mbs ->
    resetCCtx_static rz w cp ldm row pledged ext mbs buffered inb outb ri mc = ResetMemError.
Proof.
  intros rz w cp ldm row pledged ext mbs buffered inb outb ri mc Hs ldmA Hlt.
  unfold resetCCtx_static. rewrite Hs. fold ldmA.
  destruct (N.ltb_spec (cwksp_sizeof w)
     (estimate_internal rz cp ldmA true row (reset_buffInSize cp pledged mbs buffered inb)
        (reset_buffOutSize cp pledged mbs buffered outb) pledged ext mbs)); [ reflexivity | lia ].
Qed.

Lemma static_never_resizes_l :
  forall rz w cp ldm row pledged ext mbs buffered inb outb ri mc n,
    is_static w = true ->
    resetCCtx_static rz w cp ldm row pledged ext mbs buffered inb outb ri mc <> ResetResize n.
Proof.
  intros. unfold resetCCtx_static. rewrite H.
  destruct (_ <? _); [ discriminate | ]. destruct (run _ _ _); discriminate.
Qed.

(* heap contexts: the workspace that the resize branch creates (exactly neededSpace bytes) holds the three objects
   and every reservation of the reset, at any malloc'ed address *)
Lemma heap_workspace_suffices_l :
  forall rz start cp ldm row bin bout pledged ext mbs ri mc,
    mbs <> 0 -> ldm_sized ldm ->
    let needed := estimate_internal rz cp ldm false row bin bout pledged ext mbs in
    let w0 := init start needed false in
    let '(w', log) := run rz w0 (heap_objects ++ resetCCtx_ops cp ldm row bin bout pledged ext mbs ri mc) in
    allocFailed w' = false /\ Forall (entry_in start needed) log.
Proof.
  intros rz start cp ldm row bin bout pledged ext mbs ri mc Hm Hl needed w0.
  pose proof (reset_cost rz cp ldm false row bin bout pledged ext mbs ri mc Hm Hl) as HC.
  pose proof (reset_wf cp ldm false row bin bout pledged ext mbs ri mc) as WF.
  cbn [objects_of] in HC, WF. fold needed in HC.
  pose proof (cwksp_fit rz start needed false _ WF ltac:(lia)) as H. cbv zeta in H. fold w0 in H.
  destruct (run rz w0 _) as [w' log]. destruct H as (A & [B1 B2] & L). split; [ exact A | ].
  eapply Forall_impl; [ | exact L ]. intros e [Z | (p & X1 & X2 & X3)]; [ left; exact Z | right ].
  exists p. unfold w0, init, clear, set_initOnce in X2, X3. cbn [ws_start ws_end] in X2, X3. auto.
Qed.

(* ------------------------------------------------------------------ *)
(* CDict *)

Lemma cdict_cost rz cp row dictSize byRef msDDS :
  ops_cost rz (cdict_ops cp row dictSize byRef msDDS) + 128
  <= alloc_size rz sizeof_ZSTD_CDict + alloc_size rz c_HUF_WORKSPACE_SIZE + sizeof_matchState rz cp row true false
     + (if byRef then 0 else alloc_size rz (align_up dictSize sizeof_ptr)).
Proof.
  destruct gen_objects_aligned as (_ & _ & _ & A4 & A5 & _ & _ & _ & P4 & P5 & S8 & _).
  unfold cdict_ops. repeat rewrite ops_cost_app.
  pose proof (matchState_cost_CDict rz cp row msDDS) as HM. rewrite gen_slack in HM.
  cbn [ops_cost]. repeat rewrite object_cost by assumption. rewrite S8.
  destruct byRef; cbn [orb ops_cost]; [ lia | ].
  destruct (N.eqb_spec dictSize 0) as [-> | Hd]; cbn [ops_cost].
  - lia.
  - assert (Hal : align_up dictSize 8 mod 8 = 0) by (apply align_up_mod; lia).
    assert (Hpos : 0 < align_up dictSize 8) by (pose proof (align_up_ge dictSize 8 ltac:(lia)); lia).
    rewrite object_cost by assumption. lia.
Qed.

Lemma cdict_wf cp row dictSize byRef msDDS : wf_ops true (cdict_ops cp row dictSize byRef msDDS) = true.
Proof.
  pose proof (wf_ops_weaken _ (matchState_wf cp row false msDDS true true)) as H.
  unfold cdict_ops. destruct (byRef || (dictSize =? 0)); cbn [app wf_ops is_object andb]; exact H.
Qed.

(* heap CDict: ZSTD_createCDict_advanced_internal mallocs exactly createCDict_workspaceSize *)
Lemma heap_cdict_suffices_l :
  forall rz start cp row dictSize byRef dds,
    let sz := createCDict_workspaceSize rz cp row dictSize byRef dds in
    let w0 := init start sz false in
    (* with dedicated dict search the CDict match state allocates its chain table unconditionally *)
    let '(w', log) := run rz w0 (cdict_ops cp row dictSize byRef dds) in
    allocFailed w' = false /\ Forall (entry_in start sz) log.
Proof.
  intros rz start cp row dictSize byRef dds sz w0.
  assert (HC : ops_cost rz (cdict_ops cp row dictSize byRef dds) + 128 <= sz).
  { unfold sz, createCDict_workspaceSize.
    destruct gen_objects_aligned as (_ & _ & _ & A4 & A5 & _ & _ & _ & P4 & P5 & S8 & _).
    unfold cdict_ops. repeat rewrite ops_cost_app.
    assert (HM : ops_cost rz (matchState_ops cp row false dds true true) + 128 = sizeof_matchState rz cp row dds false).
    { unfold matchState_ops, sizeof_matchState, aligned64_alloc_size, hashLog3_of. rewrite gen_slack.
      cbn [andb negb]. rewrite !andb_true_r. repeat rewrite ops_cost_app. cbn [ops_cost op_cost N.eqb].
      destruct (rowMatchFinderUsed (strat cp) row); cbn [ops_cost op_cost]; lia. }
    cbn [ops_cost]. repeat rewrite object_cost by assumption. rewrite S8.
    destruct byRef; cbn [orb ops_cost]; [ lia | ].
    destruct (N.eqb_spec dictSize 0) as [-> | Hd]; cbn [ops_cost]; [ lia | ].
    assert (Hal : align_up dictSize 8 mod 8 = 0) by (apply align_up_mod; lia).
    assert (Hpos : 0 < align_up dictSize 8) by (pose proof (align_up_ge dictSize 8 ltac:(lia)); lia).
    rewrite object_cost by assumption. lia. }
  pose proof (cwksp_fit rz start sz false _ (cdict_wf cp row dictSize byRef dds) ltac:(lia)) as H. cbv zeta in H. fold w0 in H.
  destruct (run rz w0 _) as [w' log]. destruct H as (A & _ & L). split; [ exact A | ].
  eapply Forall_impl; [ | exact L ]. intros e [Z | (p & X1 & X2 & X3)]; [ left; exact Z | right ].
  exists p. unfold w0, init, clear, set_initOnce in X2, X3. cbn [ws_start ws_end] in X2, X3. auto.
Qed.

(* static CDict: a block of at least ZSTD_estimateCDictSize_advanced bytes is accepted and every reservation fits;
   a smaller block is refused (NULL) *)
Lemma static_cdict_covers_l :
  forall rz start size cp dictSize byRef,
    start mod 8 = 0 ->
    estimateCDictSize_advanced rz dictSize cp byRef <= size ->
    exists w log, initStaticCDict rz start size cp dictSize byRef = InitOk w log /\
                  allocFailed w = false /\ Forall (entry_in start size) log.
Proof.
  intros rz start size cp dictSize byRef Ha Hsz.
  set (row := resolveRowMatchFinderMode PsAuto cp).
  pose proof (cdict_cost rz cp row dictSize byRef false) as HC.
  unfold estimateCDictSize_advanced in Hsz. fold row in Hsz.
  pose proof (cdict_wf cp row dictSize byRef false) as WF.
  pose proof (cwksp_fit rz start size true _ WF ltac:(lia)) as H. cbv zeta in H.
  unfold initStaticCDict. rewrite Ha. cbn [N.eqb negb]. fold row.
  set (w0 := init start size true) in *.
  unfold cdict_ops in H. cbn [app run step] in H.
  destruct (reserve_object rz w0 sizeof_ZSTD_CDict) as [w1 r1].
  unfold cdict_ops. cbn [app tl].
  destruct (run rz w1 _) as [w2 l2].
  destruct H as (A & [B1 B2] & L).
  cbn [app] in L. inversion L as [ | e l He Hl ]; subst.
  destruct He as [Z | (p & X1 & X2 & X3)].
  { cbn [snd] in Z. destruct gen_objects_aligned as (_ & _ & _ & _ & _ & _ & _ & _ & P4 & _). lia. }
  cbn [fst snd] in *. subst r1.
  unfold staticCDict_needed, estimateCDictSize_advanced. fold row.
  destruct (N.ltb_spec size (alloc_size rz sizeof_ZSTD_CDict + alloc_size rz c_HUF_WORKSPACE_SIZE +
      sizeof_matchState rz cp row true false + (if byRef then 0 else alloc_size rz (align_up dictSize sizeof_ptr)))); [ exfalso; lia | ].
  rewrite A. exists w2, ((Some p, sizeof_ZSTD_CDict) :: l2). split; [ reflexivity | ]. split; [ exact A | ].
  assert (Hconv : forall e, entry_ok w0 e -> entry_in start size e).
  { intros e [Z | (q & Y1 & Y2 & Y3)]; [ left; exact Z | right ]. exists q.
    unfold w0, init, clear, set_initOnce in Y2, Y3. cbn [ws_start ws_end] in Y2, Y3. auto. }
  constructor; [ apply Hconv; right; exists p; auto | ].
  eapply Forall_impl; [ | exact Hl ]. exact Hconv.
Qed.

Lemma static_cdict_too_small_l :
  forall rz start size cp dictSize byRef,
    size < estimateCDictSize_advanced rz dictSize cp byRef ->
    initStaticCDict rz start size cp dictSize byRef = InitNull.
Proof.
  intros. unfold initStaticCDict, staticCDict_needed.
  destruct (negb (start mod 8 =? 0)); [ reflexivity | ].
  destruct (reserve_object rz _ _) as [w1 [p | ]]; [ | reflexivity ].
  destruct (N.ltb_spec size (estimateCDictSize_advanced rz dictSize cp byRef)); [ reflexivity | lia ].
Qed.
