(* C14 round 2 - proofs about DOwner.v: ZSTD_sizeof_DCtx reports exactly what a heap context holds along ANY history;
   a static context never reaches an allocator; ZSTD_freeDCtx releases everything. *)
From Coq Require Import NArith ZArith List Bool Lia.
From ZV.Gen Require Import Gen_C14.
From ZV.Mem Require Import DBuffers DBuffersProofs.
From ZV.Mem Require Import DOwner.
Import ListNotations.
Local Open Scope N_scope.
Ltac Zify.zify_post_hook ::= Z.to_euclidean_division_equations.

(* T-tie: what the CURRENT ZSTD_sizeof_DCtx adds for a hash set / a local DDict / buffers, probed by the dumper on a
   fake context, equals the terms of [sizeof_DCtx_full] *)
Lemma gen_sizeof_dctx_probe :
  c_probe_sizeof_dctx_base = sizeof_ZSTD_DCtx /\
  c_probe_sizeof_dctx_set100 = sizeof_ZSTD_DDictHashSet + 100 * sizeof_ptr /\
  c_probe_sizeof_dctx_local1000 = sizeof_ZSTD_DDict + 1000 /\
  c_probe_sizeof_dctx_localref = sizeof_ZSTD_DDict /\
  c_probe_sizeof_dctx_buf79 = 7 + 9.
Proof. vm_compute. repeat split; reflexivity. Qed.

Lemma gen_hashset_consts :
  0 < c_DDICT_HASHSET_TABLE_BASE_SIZE /\ 1 <= c_DDICT_HASHSET_RESIZE_FACTOR /\ 0 < sizeof_ZSTD_DDictHashSet.
Proof. vm_compute. repeat split; reflexivity || discriminate. Qed.

Lemma live_after_app L a b : live_after L (a ++ b) = live_after (live_after L a) b.
Proof. unfold live_after. apply fold_left_app. Qed.

Definition local_bytes (d : downer) : N := match do_local d with Some l => ld_bytes l | None => 0 end.
Definition set_bytes (d : downer) : N := match do_set d with Some h => hs_bytes h | None => 0 end.
Definition owned (d : downer) : N := local_bytes d + set_bytes d + live (do_ds d).

(* ZSTD_clearDict gives back exactly the local dictionary *)
Lemma clear_live d L0 : live_after (L0 + local_bytes d) (clear_events d) = L0.
Proof.
  unfold clear_events, local_bytes. destruct (do_local d) as [l | ]; [ | cbn; lia ].
  unfold ld_bytes. destruct (N.eqb_spec (ld_copy l) 0) as [E | E];
    unfold live_after; cbn [fold_left app ev_apply]; lia.
Qed.

Definition heap_inv (d : downer) : Prop :=
  staticSize (do_ds d) = 0 /\ live (do_ds d) = inBuffSize (do_ds d) + outBuffSize (do_ds d).

Lemma hs_emplace_size h id h' : hs_emplace h id = Some h' -> hs_size h' = hs_size h.
Proof.
  unfold hs_emplace. destruct (hs_count h =? hs_size h); [ discriminate | ].
  destruct (existsb (N.eqb id) (hs_ids h)); intros E; inversion E; reflexivity.
Qed.

Lemma la_nil L : live_after L [] = L.
Proof. reflexivity. Qed.
Lemma la_alloc L n es : live_after L (Alloc n :: es) = live_after (L + n) es.
Proof. reflexivity. Qed.
Lemma la_free L n es : live_after L (Free n :: es) = live_after (L - n) es.
Proof. reflexivity. Qed.

Lemma hs_add_live h id h' r e1 X :
  hs_add h id = (h', r, e1) ->
  live_after (X + hs_bytes h) e1 = X + hs_bytes h' /\ (forall h2, r = Some h2 -> hs_size h2 = hs_size h').
Proof.
  unfold hs_add. destruct (hs_overloaded h); intros E; injection E as <- <- <-.
  - split; [ | intros h2 E2; apply hs_emplace_size in E2; exact E2 ].
    rewrite la_alloc, la_free, la_nil. unfold hs_bytes. cbn [hs_size]. lia.
  - split; [ reflexivity | intros h2 E2; apply hs_emplace_size in E2; exact E2 ].
Qed.

Lemma load_step_live d size byRef u d' rc es B :
  heap_inv d -> load_step d size byRef u = (d', rc, es) ->
  live_after (B + owned d) es = B + owned d' /\ heap_inv d'.
Proof.
  intros [Hs Hl] E. unfold owned, load_step in *.
  assert (Hst : dctx_is_static d = false) by (unfold dctx_is_static; rewrite Hs; reflexivity).
  assert (R : B + (local_bytes d + set_bytes d + live (do_ds d)) = (B + set_bytes d + live (do_ds d)) + local_bytes d) by lia.
  destruct (N.eqb_spec size 0) as [Z | NZ].
  - injection E as <- <- <-. cbn [do_local do_set do_ds]. split; [ | split; assumption ].
    rewrite R, clear_live. unfold local_bytes, set_bytes. cbn [do_local do_set]. lia.
  - rewrite Hst in E. injection E as <- <- <-. cbn [do_local do_set do_ds]. split; [ | split; assumption ].
    rewrite !live_after_app, R, clear_live. unfold local_bytes at 1. cbn [do_local]. unfold ld_bytes, set_bytes. cbn [do_set].
    remember (ld_copy (mkLD size byRef)) as c eqn:Ec.
    destruct (N.eqb_spec c 0) as [C | C]; cbn [app]; rewrite ?la_alloc, ?la_nil; lia.
Qed.

Lemma frame_dict_live d d0 e0 B :
  frame_dict_step d = (d0, e0) ->
  live_after (B + owned d) e0 = B + owned d0 /\ do_ds d0 = do_ds d.
Proof.
  unfold frame_dict_step, owned. intros E.
  assert (R : B + (local_bytes d + set_bytes d + live (do_ds d)) = (B + set_bytes d + live (do_ds d)) + local_bytes d) by lia.
  destruct (do_uses d); injection E as <- <-; cbn [do_local do_set do_ds].
  - split; [ | reflexivity ]. rewrite R, clear_live. unfold local_bytes, set_bytes. cbn [do_local do_set]. lia.
  - split; reflexivity.
  - split; reflexivity.
Qed.

(* one operation: the allocator events account exactly for the change of what the context owns *)
Lemma down_step_live d o d' rc es B :
  heap_inv d -> down_step d o = (d', rc, es) ->
  live_after (B + owned d) es = B + owned d' /\ heap_inv d'.
Proof.
  intros Hi E. pose proof Hi as [Hs Hl]. unfold owned.
  assert (Hst : dctx_is_static d = false) by (unfold dctx_is_static; rewrite Hs; reflexivity).
  assert (R : B + (local_bytes d + set_bytes d + live (do_ds d)) = (B + set_bytes d + live (do_ds d)) + local_bytes d) by lia.
  destruct o as [b | id | | size byRef | size | w fcs | | m u]; cbn [down_step] in E.
  - (* OpMulti *) rewrite Hst in E. injection E as <- <- <-. cbn. split; [ reflexivity | split; assumption ].
  - (* OpRef *)
    destruct (do_multi d) eqn:M.
    + rewrite Hst in E.
      destruct (do_set d) as [hs | ] eqn:DS.
      * destruct (hs_add hs id) as [[h' r] e1] eqn:HA.
        destruct (hs_add_live hs id h' r e1 (B + live (do_ds d)) HA) as [A1a A1b].
        destruct r as [h2 | ]; injection E as <- <- <-; (split; [ | split; assumption ]);
          cbn [do_local do_set do_ds app]; rewrite R, !live_after_app, clear_live;
          unfold set_bytes; rewrite DS;
          replace (B + hs_bytes hs + live (do_ds d)) with ((B + live (do_ds d)) + hs_bytes hs) by lia;
          rewrite A1a; unfold local_bytes, set_bytes, hs_bytes; cbn [do_local do_set]; rewrite ?(A1b h2 eq_refl); lia.
      * remember (c_DDICT_HASHSET_TABLE_BASE_SIZE * sizeof_ptr) as T eqn:ET.
        remember sizeof_ZSTD_DDictHashSet as S0 eqn:ES.
        destruct (hs_add (mkHS c_DDICT_HASHSET_TABLE_BASE_SIZE []) id) as [[h' r] e1] eqn:HA.
        destruct (hs_add_live _ id h' r e1 (B + live (do_ds d)) HA) as [A1a A1b].
        assert (HB : hs_bytes (mkHS c_DDICT_HASHSET_TABLE_BASE_SIZE []) = S0 + T) by (unfold hs_bytes; cbn [hs_size]; subst; reflexivity).
        rewrite HB in A1a.
        destruct r as [h2 | ]; injection E as <- <- <-; (split; [ | split; assumption ]);
          cbn [do_local do_set do_ds app]; rewrite R, !live_after_app, clear_live;
          unfold set_bytes; rewrite DS; rewrite ?la_alloc;
          replace (B + 0 + live (do_ds d) + S0 + T) with (B + live (do_ds d) + (S0 + T)) by lia;
          rewrite A1a; unfold local_bytes, hs_bytes; cbn [do_local do_set]; rewrite ?(A1b h2 eq_refl); lia.
    + injection E as <- <- <-. cbn [do_local do_set do_ds]. split; [ | split; assumption ].
      rewrite R, clear_live. unfold local_bytes, set_bytes. cbn [do_local do_set]. lia.
  - (* OpRefNull *)
    injection E as <- <- <-. cbn [do_local do_set do_ds]. split; [ | split; assumption ].
    rewrite R, clear_live. unfold local_bytes, set_bytes. cbn [do_local do_set]. lia.
  - (* OpLoad *) exact (load_step_live d size byRef UseIndef d' rc es B Hi E).
  - (* OpPrefix *) exact (load_step_live d size true UseOnce d' rc es B Hi E).
  - (* OpFrame *)
    destruct (frame_dict_step d) as [d0 e0] eqn:E0.
    destruct (frame_dict_live d d0 e0 B E0) as [A0 D0]. unfold owned in A0.
    pose proof (load_header_facts (do_ds d0) w fcs) as F.
    assert (Hs0 : staticSize (do_ds d0) = 0) by (rewrite D0; exact Hs).
    assert (Hl0 : live (do_ds d0) = inBuffSize (do_ds d0) + outBuffSize (do_ds d0)) by (rewrite D0; exact Hl).
    destruct (dstream_load_header (do_ds d0) w fcs) as [ | | s al ] eqn:EH.
    + injection E as <- <- <-. split; [ exact A0 | split; assumption ].
    + injection E as <- <- <-. split; [ exact A0 | split; assumption ].
    + destruct F as (_ & _ & _ & _ & Ms & _ & _ & _ & _ & Hheap). specialize (Hheap Hs0).
      unfold bufs in Hheap.
      destruct al as [n | ]; injection E as <- <- <-; unfold heap_inv, set_ds; cbn [do_local do_set do_ds].
      * destruct Hheap as (_ & L1 & B1). split; [ | split; [ congruence | lia ] ].
        rewrite live_after_app, A0, la_free, la_alloc, la_nil. unfold local_bytes, set_bytes. cbn [do_local do_set]. lia.
      * destruct Hheap as (L1 & B1). split; [ | split; [ congruence | lia ] ].
        rewrite A0. unfold local_bytes, set_bytes. cbn [do_local do_set]. lia.
  - (* OpReset *)
    injection E as <- <- <-. unfold heap_inv. cbn [do_local do_set do_ds live staticSize inBuffSize outBuffSize].
    split; [ | split; assumption ].
    rewrite live_after_app, R, clear_live. unfold local_bytes, set_bytes, set_free_events. cbn [do_local do_set].
    destruct (do_set d) as [h | ]; unfold hs_bytes; rewrite ?la_free, ?la_nil; lia.
  - (* OpCopyFrom *)
    injection E as <- <- <-. cbn. split; [ reflexivity | split; assumption ].
Qed.

Lemma down_run_live ops : forall d B d' outs,
  heap_inv d -> down_run d ops = (d', outs) ->
  live_after (B + owned d) (all_events outs) = B + owned d' /\ heap_inv d'.
Proof.
  induction ops as [ | o rest IH]; intros d B d' outs Hi E; cbn [down_run] in E.
  - inversion E; subst. cbn. split; [ reflexivity | exact Hi ].
  - destruct (down_step d o) as [[d1 rc] es] eqn:E1. destruct (down_run d1 rest) as [d2 outs2] eqn:E2.
    inversion E; subst. unfold all_events. cbn [flat_map snd]. rewrite live_after_app.
    destruct (down_step_live d o d1 rc es B Hi E1) as [A Hi1]. rewrite A.
    exact (IH d1 B d' outs2 Hi1 E2).
Qed.

(* ------------------------------------------------------------------ *)
(* final statements *)

(* for EVERY history of operations on a heap context (dictionary loads by copy / by reference, single and multiple
   DDict references incl. replacement and table growth, frames of any window through the streaming decoder incl. the
   oversize-shrink reallocation, parameter resets, ZSTD_copyDCtx from another context) the bytes outstanding at the
   allocator are EXACTLY what ZSTD_sizeof_DCtx reports *)
Lemma dctx_sizeof_exact_l :
  forall ops d' outs,
    down_run (down0 0) ops = (d', outs) ->
    live_after sizeof_ZSTD_DCtx (all_events outs) = sizeof_DCtx_full d'.
Proof.
  intros ops d' outs E.
  assert (Hi : heap_inv (down0 0)) by (split; reflexivity).
  destruct (down_run_live ops (down0 0) sizeof_ZSTD_DCtx d' outs Hi E) as [A [_ Hl]].
  change (owned (down0 0)) with 0 in A. rewrite N.add_0_r in A. rewrite A.
  unfold sizeof_DCtx_full, owned, local_bytes, set_bytes. lia.
Qed.

(* the expression used before fix 4686148 under-reports as soon as a multi-DDict set exists *)
Lemma dctx_sizeof_old_underreports_l :
  forall ops d' outs h,
    down_run (down0 0) ops = (d', outs) -> do_set d' = Some h ->
    sizeof_DCtx_old d' + hs_bytes h = live_after sizeof_ZSTD_DCtx (all_events outs) /\ 0 < hs_bytes h.
Proof.
  intros ops d' outs h E Hs. rewrite (dctx_sizeof_exact_l ops d' outs E).
  unfold sizeof_DCtx_full, sizeof_DCtx_old. rewrite Hs. split; [ lia | ].
  unfold hs_bytes. destruct gen_hashset_consts as (_ & _ & P). lia.
Qed.

(* ZSTD_freeDCtx gives everything back *)
Lemma dctx_free_releases_all_l :
  forall ops d' outs,
    down_run (down0 0) ops = (d', outs) ->
    live_after sizeof_ZSTD_DCtx (all_events outs ++ free_events d') = 0.
Proof.
  intros ops d' outs E. rewrite live_after_app.
  assert (Hi : heap_inv (down0 0)) by (split; reflexivity).
  destruct (down_run_live ops (down0 0) sizeof_ZSTD_DCtx d' outs Hi E) as [A _].
  change (owned (down0 0)) with 0 in A. rewrite N.add_0_r in A. rewrite A.
  unfold free_events. rewrite !live_after_app. unfold owned.
  replace (sizeof_ZSTD_DCtx + (local_bytes d' + set_bytes d' + live (do_ds d')))
    with ((sizeof_ZSTD_DCtx + set_bytes d' + live (do_ds d')) + local_bytes d') by lia.
  rewrite clear_live. unfold set_bytes, set_free_events. destruct (do_set d') as [h | ]; unfold hs_bytes; cbn [app]; rewrite ?la_free, ?la_nil; lia.
Qed.

(* a STATIC context: whatever is asked of it - internal dictionary creation, the multi-DDict mode (directly or smuggled
   in through ZSTD_copyDCtx), references, frames of any size, resets - it never calls the allocator *)
Definition static_inv (d : downer) : Prop := dctx_is_static d = true /\ do_local d = None /\ do_set d = None.

Lemma static_step d o d' rc es : static_inv d -> down_step d o = (d', rc, es) -> es = [] /\ static_inv d'.
Proof.
  intros (Hs & Hl & Hset) E. unfold static_inv.
  assert (Hc : clear_events d = []) by (unfold clear_events; rewrite Hl; reflexivity).
  assert (Hf : set_free_events d = []) by (unfold set_free_events; rewrite Hset; reflexivity).
  destruct o as [b | id | | size byRef | size | w fcs | | m u]; cbn [down_step] in E.
  - rewrite Hs in E. injection E as <- <- <-. auto.
  - destruct (do_multi d); rewrite ?Hs in E; injection E as <- <- <-; rewrite Hc; auto.
  - injection E as <- <- <-. rewrite Hc. auto.
  - unfold load_step in E. destruct (size =? 0); rewrite ?Hs in E; injection E as <- <- <-; rewrite Hc; auto.
  - unfold load_step in E. destruct (size =? 0); rewrite ?Hs in E; injection E as <- <- <-; rewrite Hc; auto.
  - destruct (frame_dict_step d) as [d0 e0] eqn:E0.
    assert (F0 : e0 = [] /\ dctx_is_static d0 = true /\ do_local d0 = None /\ do_set d0 = None /\ do_ds d0 = do_ds d).
    { unfold frame_dict_step in E0. destruct (do_uses d); injection E0 as <- <-; rewrite ?Hc; unfold dctx_is_static in *; cbn; auto. }
    destruct F0 as (-> & Hs0 & Hl0 & Hset0 & Hds0).
    pose proof (load_header_facts (do_ds d0) w fcs) as F.
    destruct (dstream_load_header (do_ds d0) w fcs) as [ | | s al ] eqn:EH.
    + injection E as <- <- <-. auto.
    + injection E as <- <- <-. auto.
    + destruct F as (_ & _ & _ & _ & Ms & _ & _ & _ & Hst & _).
      assert (NZ : staticSize (do_ds d0) <> 0).
      { unfold dctx_is_static in Hs0. destruct (N.eqb_spec (staticSize (do_ds d0)) 0); [ discriminate | assumption ]. }
      destruct (Hst NZ) as [-> _]. injection E as <- <- <-. split; [ reflexivity | ].
      unfold dctx_is_static, set_ds in *. cbn [do_ds do_local do_set]. rewrite Ms. auto.
  - injection E as <- <- <-. rewrite Hc, Hf. split; [ reflexivity | ]. unfold dctx_is_static in *. cbn. auto.
  - injection E as <- <- <-. auto.
Qed.

Lemma static_dctx_never_allocates_l :
  forall ops staticSz d' outs,
    staticSz <> 0 ->
    down_run (down0 staticSz) ops = (d', outs) ->
    all_events outs = [] /\ do_local d' = None /\ do_set d' = None.
Proof.
  intros ops staticSz d' outs NZ.
  assert (H0 : static_inv (down0 staticSz)).
  { split; [ | split; reflexivity ]. unfold dctx_is_static, down0, dstate0. cbn.
    destruct (N.eqb_spec staticSz 0); [ contradiction | reflexivity ]. }
  revert H0. generalize (down0 staticSz) as d. revert d' outs.
  induction ops as [ | o rest IH]; intros d' outs d Hi E; cbn [down_run] in E.
  - injection E as <- <-. destruct Hi as (_ & ? & ?). auto.
  - destruct (down_step d o) as [[d1 rc] es] eqn:E1. destruct (down_run d1 rest) as [d2 outs2] eqn:E2.
    injection E as <- <-. destruct (static_step d o d1 rc es Hi E1) as (-> & Hi1).
    destruct (IH d2 outs2 d1 Hi1 E2) as (A & B & C).
    unfold all_events in *. cbn [flat_map snd app]. auto.
Qed.

(* non-vacuity: a history that exercises the local dictionary, 17 distinct DDicts (one table doubling), a replacement,
   frames, and a reset that drops the first set (fix b70602d); the model's numbers are the ones the harness observes on the real code *)
Definition example_ops : list dop :=
  [OpMulti true; OpRef 99; OpReset; OpMulti true] ++ map (fun k => OpRef (N.of_nat k)) (seq 1 17) ++ [OpRef 3; OpLoad 1000 false; OpFrame 1024 D_UNKNOWN; OpPrefix 64; OpFrame 2048 D_UNKNOWN; OpFrame 2048 D_UNKNOWN; OpFrame 4096 D_UNKNOWN].

Example example_history :
  let '(d, outs) := down_run (down0 0) example_ops in
  (match do_set d with Some h => c_DDICT_HASHSET_TABLE_BASE_SIZE <= hs_size h /\ hs_count h = 17 | None => False end) /\
  do_local d = None /\ sizeof_DCtx_full d = heap_live example_ops /\ sizeof_DCtx_old d < heap_live example_ops.
Proof. vm_compute. repeat split; try reflexivity; discriminate. Qed.

(* ------------------------------------------------------------------ *)
(* ZSTD_estimateDStreamSize_fromFrame: a static DStream of that size loads the header of THAT frame without
   memory_allocation - also for single-segment frames smaller than the 1 KiB minimum window, where the decoder clamps
   the window up but the estimate was made from the raw content size *)
Lemma need_le_budget_single st w : w < 2 ^ 62 -> needIn st w + needOut st w w <= dbudget w.
Proof.
  intros HW. rewrite dbudget_eq by exact HW.
  unfold needIn, needOut, decodingBufferSize_internal, clampedWindow.
  destruct gen_decoder_consts as (B & O & A & _). rewrite B, O, A.
  destruct (maxBlockSizeParam st =? 0), (outBuffered st); lia.
Qed.

Lemma frame_window_ge ss wl fcs w : frame_windowSize ss wl fcs = Some w -> ss = false -> 1024 <= w.
Proof.
  unfold frame_windowSize. intros E ->. destruct (c_ZSTD_WINDOWLOG_MAX <? wl / 8 + c_ZSTD_WINDOWLOG_ABSOLUTEMIN); [ discriminate | ].
  injection E as <-. destruct gen_decoder_consts as (_ & _ & A & _).
  assert (P : 2 ^ c_ZSTD_WINDOWLOG_ABSOLUTEMIN <= 2 ^ (wl / 8 + c_ZSTD_WINDOWLOG_ABSOLUTEMIN)) by (apply N.pow_le_mono_r; lia).
  rewrite A in P. set (base := 2 ^ (wl / 8 + c_ZSTD_WINDOWLOG_ABSOLUTEMIN)) in *.
  set (x := base / 8 * (wl mod 8)). lia.
Qed.

Lemma dstream_fromframe_fits_l :
  forall st ss wl fcs w est,
    frame_windowSize ss wl fcs = Some w ->
    estimateDStreamSize_fromFrame ss wl fcs = Some est ->
    staticSize st = est ->
    dstream_load_header st w fcs <> DsErrMem.
Proof.
  intros st ss wl fcs w est Hw He Hs E.
  unfold estimateDStreamSize_fromFrame in He. rewrite Hw in He.
  destruct (N.ltb_spec (2 ^ c_ZSTD_WINDOWLOG_MAX) w) as [ | Hle]; [ discriminate | ]. injection He as <-.
  assert (HW : w < 2 ^ 62).
  { assert (2 ^ c_ZSTD_WINDOWLOG_MAX < 2 ^ 62) by (vm_compute; reflexivity). lia. }
  pose proof (load_header_facts st w fcs) as H. rewrite E in H. destruct H as [_ H]. rewrite Hs in H. fold (dbudget w) in H.
  destruct ss.
  - (* single segment: the window IS the content size *)
    assert (fcs = w) by (unfold frame_windowSize in Hw; congruence). subst fcs.
    pose proof (need_le_budget_single st w HW). lia.
  - pose proof (frame_window_ge false wl fcs w Hw eq_refl) as G.
    assert (C : clampedWindow w = w) by (unfold clampedWindow; destruct gen_decoder_consts as (_ & _ & A & _); rewrite A; lia).
    pose proof (need_le_budget st w fcs ltac:(rewrite C; exact HW)) as N1. rewrite C in N1. lia.
Qed.
