(* C06 (round 3) - the ZSTDMT compression job and the whole multi-threaded frame under the WEAK block contract
   (bc_contract_kb: a frame-loop block of len bytes may cost len + 3 * max(1, len >> 10), what the capped post-splitter
   guarantees since 3960417).  Round 1 proved mt_job_fits_lemma / mt_frame_worst_le_bound under cSize <= 3 + len,
   which valid post-splitter outputs violate; here the same two statements with kb_blocks (KiB partitions to pay,
   counted per 512 KiB chunk of the job loop) instead of nb_blocks.
   New arithmetic: a job of n bytes is fed in ceil(n / 512 KiB) calls, each call may pay one partition more than its
   full KiB: sum_kb (mt_chunks n) <= n/1024 + n/524288 + 1, and 18 + n + 3 * that + 7 <= ZSTD_compressBound(n). *)
From Coq Require Import ZArith List Bool Lia.
From ZV.Gen Require Gen_Tables.
From ZV.Mem Require Import CompressBound CompressBoundProofs CompressCalls CompressCallsProofs CompressSplit CompressSplitProofs CompressCallsKb.
Import ListNotations.
Local Open Scope Z_scope.
Ltac Zify.zify_post_hook ::= Z.div_mod_to_equations.

(* ---- intermediate calls (ZSTD_compressContinue only) under the weak contract ---- *)
Lemma continue_calls_succeed_kb : forall fuel bsMax hs calls st cap written E,
  Forall (call_ok_kb fuel bsMax) calls -> 0 < bsMax <= KB128 -> 0 <= hs <= FHS_MAX -> 2 <= E ->
  cs_stage st <> StEnding ->
  (cs_stage st = StInit -> calls <> [] -> FHS_MAX <= cap) ->
  (if calls then 0 else hdr_of st hs) + need_kb calls + E + Z.max (savings_of st) 0 <= cap ->
  exists W cap' st',
    continue_calls fuel bsMax hs st calls cap written = CDone W cap' st' /\
    cap' = cap - (W - written) /\ E <= cap' /\ written <= W /\
    W + Z.max (savings_of st') 0 <= written + Z.max (savings_of st) 0 + (if calls then 0 else hdr_of st hs) + need_kb calls /\
    cs_stage st' <> StEnding /\ (calls <> [] -> cs_stage st' <> StInit).
Proof.
  induction calls as [|c t IH]; intros st cap written E F Hbs Hhs HE Hne Hinit Hcap.
  - cbn [continue_calls need_kb] in *. eexists _, _, _. split; [reflexivity|]. repeat split; try lia; try assumption. congruence.
  - inversion F as [|? ? Hc Ft]; subst. cbn [continue_calls need_kb] in *.
    pose proof (need_kb_nonneg fuel bsMax t Ft) as Hn0.
    destruct (compress_continue_step_kb fuel bsMax hs st c cap false (need_kb t + E) Hc Hbs Hhs ltac:(lia) Hne
                ltac:(intros; apply Hinit; [assumption|discriminate]) ltac:(lia))
      as (w & cap1 & st1 & Hrun & Hc1 & HE1 & Hw0 & Hpot & Hni & Hend & Hwpos).
    rewrite Hrun.
    assert (Hne1 : cs_stage st1 <> StEnding) by (intros Hx; apply Hend in Hx; destruct Hx; discriminate).
    assert (Hh1 : hdr_of st1 hs = 0) by (unfold hdr_of; destruct (cs_stage st1); congruence).
    assert (Hh0 : 0 <= hdr_of st hs) by (unfold hdr_of; destruct (cs_stage st); lia).
    destruct (IH st1 cap1 (written + w) E Ft Hbs Hhs HE Hne1 ltac:(intros; congruence))
      as (W & cap' & st' & Hrun2 & Hc2 & HE2 & Hw2 & Hpot2 & Hne2 & Hni2).
    { destruct t; rewrite ?Hh1; lia. }
    rewrite Hrun2. eexists _, _, _. split; [reflexivity|].
    repeat split; try lia; try assumption.
    + destruct t; rewrite ?Hh1 in Hpot2; lia.
    + intros _. destruct t as [|c2 t2].
      * cbn [continue_calls] in Hrun2. injection Hrun2 as _ _ <-. assumption.
      * apply Hni2. discriminate.
Qed.

(* ---- KiB partitions of a job: one call per 512 KiB chunk ---- *)
Fixpoint sum_kb (lens : list Z) : Z :=
  match lens with [] => 0 | c :: t => kb_blocks c + sum_kb t end.
Definition chunks_kb (n : Z) : Z := sum_kb (mt_chunks n).

Definition mt_job_worst_kb (hs : Z) (chkFrame first last : bool) (n : Z) : Z :=
  (if first then hs else 0) + n + BHS * chunks_kb n
  + (if last && (n <=? 0) then BHS else 0)
  + (if last && chkFrame then CHECKSUM_SIZE else 0).

Lemma kb_blocks_chunk : kb_blocks 524288 = 513.
Proof. reflexivity. Qed.

Lemma sum_kb_aux_bound : forall k rem, 0 <= rem -> rem / MT_CHUNK <= Z.of_nat k ->
  0 <= sum_kb (mt_chunks_aux k rem) <= rem / 1024 + rem / 524288 + 1 /\
  (rem = 0 -> sum_kb (mt_chunks_aux k rem) = 0).
Proof.
  rewrite MT_CHUNK_val.
  induction k as [|k IH]; intros rem Hr Hk.
  - cbn [mt_chunks_aux sum_kb]. pose proof (kb_blocks_nonneg rem Hr).
    split; [|intros ->; reflexivity]. unfold kb_blocks in *. destruct (0 <? rem); lia.
  - cbn [mt_chunks_aux]. rewrite MT_CHUNK_val. destruct (Z.leb_spec rem 524288) as [Hle|Hgt].
    + cbn [sum_kb]. pose proof (kb_blocks_nonneg rem Hr).
      split; [|intros ->; reflexivity]. unfold kb_blocks in *. destruct (0 <? rem); lia.
    + destruct (IH (rem - 524288) ltac:(lia)) as [[I0 I1] _].
      { rewrite Nat2Z.inj_succ in Hk. lia. }
      cbn [sum_kb]. rewrite kb_blocks_chunk. split; [|lia].
      assert ((rem - 524288) / 1024 = rem / 1024 - 512).
      { replace rem with (rem - 524288 + 512 * 1024) at 2 by lia. rewrite Z.div_add by lia. lia. }
      assert ((rem - 524288) / 524288 = rem / 524288 - 1).
      { replace rem with (rem - 524288 + 1 * 524288) at 2 by lia. rewrite Z.div_add by lia. lia. }
      lia.
Qed.

Lemma chunks_kb_bound : forall n, 0 <= n ->
  0 <= chunks_kb n <= n / 1024 + n / 524288 + 1 /\ (n = 0 -> chunks_kb n = 0).
Proof.
  intros n Hn. unfold chunks_kb, mt_chunks. apply sum_kb_aux_bound; [assumption|].
  rewrite Z2Nat.id; [lia|]. apply Z.div_pos; [lia|]. rewrite MT_CHUNK_val. lia.
Qed.

Lemma need_kb_as_sum : forall calls, need_kb calls =
  fold_right Z.add 0 (map c_len calls) + BHS * sum_kb (map c_len calls).
Proof.
  induction calls as [|c t IH]; cbn [need_kb map fold_right sum_kb]; [lia|]. rewrite IH. lia.
Qed.

Lemma in_le_sum : forall (l : list Z) x, Forall (fun c => 0 <= c) l -> In x l -> x <= fold_right Z.add 0 l.
Proof.
  induction l as [|y l IH]; intros x F Hi; [destruct Hi|].
  inversion F as [|? ? Hy Fl]; subst. cbn [fold_right].
  assert (0 <= fold_right Z.add 0 l).
  { clear - Fl. induction l as [|z l IH]; cbn [fold_right]; [lia|]. inversion Fl; subst. specialize (IH H2). lia. }
  destruct Hi as [->|Hi]; [lia|]. specialize (IH x Fl Hi). lia.
Qed.

(* header + job + worst partition framing + last empty block + checksum fit ZSTD_compressBound of the job *)
Lemma job_kb_le_bound : forall n, 0 <= n < MAX_INPUT ->
  FHS_MAX + n + BHS * (n / 1024 + n / 524288 + 1) + BHS + CHECKSUM_SIZE <= bound n.
Proof.
  intros n [H0 H1]. rewrite FHS_MAX_val, BHS_val, CHECKSUM_SIZE_val.
  rewrite (bound_unfold n H0). rewrite MAX_INPUT_val in *.
  destruct (Z.geb_spec n 18374966859414961920); [lia|].
  destruct (Z.ltb_spec n 131072); lia.
Qed.

(* A job whose destination buffer has ZSTD_compressBound(T) bytes never runs out of room and the unchecked checksum
   store stays inside the buffer - when every block of every chunk may cost what the capped post-splitter allows. *)
Theorem mt_job_fits_kb_lemma : forall fuel bsMax hs chkFrame first last calls n T,
  Forall (fun c => bc_contract_kb (c_bc c) /\ split_contract (c_split c)) calls ->
  map c_len calls = mt_chunks n ->
  0 <= n <= T -> T < MAX_INPUT -> MT_CHUNK <= Z.of_nat fuel ->
  0 < bsMax <= BLOCKSIZE_MAX -> (BLOCKSIZE_MAX_MIN <= bsMax \/ n <= bsMax) ->
  0 <= hs <= FHS_MAX ->
  (last = false -> 0 < n) ->
  exists w cap' st',
    mt_job fuel bsMax hs chkFrame first last calls n (bound T) = CDone w cap' st' /\
    cap' = bound T - w /\ 0 <= cap' /\ w <= mt_job_worst_kb hs chkFrame first last n.
Proof.
  intros fuel bsMax hs chkFrame first last calls n T Hc Hlens Hn HT Hfuel Hbs Hbs2 Hhs Hnl.
  destruct (mt_chunks_facts n ltac:(lia)) as (F1 & F2 & F3 & F4 & F5 & _).
  destruct (chunks_kb_bound n ltac:(lia)) as [[Hk0 Hk1] Hkz].
  rewrite MT_CHUNK_val in *. rewrite BLOCKSIZE_MAX_val, BLOCKSIZE_MAX_MIN_val in *.
  assert (Hbs' : 0 < bsMax <= KB128) by (rewrite KB128_val; lia).
  assert (Hok : Forall (call_ok_kb fuel bsMax) calls).
  { rewrite Forall_forall in *. intros c Hin. destruct (Hc c Hin) as [A B]. split; [assumption|split; [assumption|]].
    assert (Hi : In (c_len c) (mt_chunks n)) by (rewrite <- Hlens; apply in_map; assumption).
    pose proof (F1 _ Hi) as Hr. cbv beta in Hr.
    assert (Hcn : c_len c <= n).
    { rewrite <- F2. apply in_le_sum; [|assumption].
      rewrite Forall_forall in *. intros x Hx. specialize (F1 x Hx). cbv beta in F1. lia. }
    split; [lia|]. destruct Hbs2 as [Hb|Hb]; [left; lia|right; lia]. }
  assert (Hcne : calls <> []) by (intros ->; cbn in Hlens; congruence).
  pose proof (job_kb_le_bound n ltac:(lia)) as Hworst.
  pose proof (bound_monotone n T ltac:(lia) HT) as Hmono.
  rewrite FHS_MAX_val, BHS_val, CHECKSUM_SIZE_val in *.
  assert (Hneed : need_kb calls = n + 3 * chunks_kb n).
  { rewrite need_kb_as_sum, Hlens, F2, BHS_val. reflexivity. }
  assert (Hlast : last_len calls = List.last (mt_chunks n) 0) by (rewrite last_map_len, Hlens; auto).
  unfold mt_job, mt_job_worst_kb. rewrite BHS_val, CHECKSUM_SIZE_val.
  destruct (negb first && last && (n <=? 0)) eqn:Hempty.
  - (* ZSTDMT_writeLastEmptyBlock *)
    apply andb_prop in Hempty. destruct Hempty as [Hfl Hz]. apply andb_prop in Hfl. destruct Hfl as [Hf Hl].
    apply Z.leb_le in Hz. assert (n = 0) by lia. subst n.
    destruct first; [discriminate|]. destruct last; [|discriminate]. cbn [andb negb].
    rewrite (Hkz eq_refl).
    assert (Hb0 : 18 + 7 <= bound T) by (change (0 / 1024) with 0 in Hworst; change (0 / 524288) with 0 in Hworst; lia).
    destruct (Z.ltb_spec (bound T) 3); [lia|].
    destruct chkFrame.
    + destruct (Z.ltb_spec (bound T - 3) 4); [lia|]. eexists _, _, _. split; [reflexivity|].
      change (0 <=? 0) with true. cbv iota. lia.
    + eexists _, _, _. split; [reflexivity|]. change (0 <=? 0) with true. cbv iota. lia.
  - (* a worker job *)
    set (cap := bound T) in *.
    assert (Hst0 : exists st, (if first then Some cstate0
                               else match compress_continue fuel bsMax hs cstate0 (mk_call 0 bc_raw (split_const KB128)) cap false with
                                    | CDone _ _ st => Some st | _ => None end) = Some st /\
                              cs_stage st <> StEnding /\ savings_of st = 0 /\
                              hdr_of st hs = (if first then hs else 0) /\ (cs_stage st = StInit -> 18 <= cap)).
    { destruct first.
      - exists cstate0. repeat split; try reflexivity; try discriminate. intros _. lia.
      - unfold compress_continue. cbn [cstate0 cs_stage c_len]. unfold write_frame_header. rewrite FHS_MAX_val.
        destruct (Z.ltb_spec cap 18); [lia|]. change (0 <=? 0) with true. cbv iota.
        eexists. split; [reflexivity|]. cbn [cs_stage cs_consumed cs_produced]. unfold savings_of, hdr_of. cbn.
        repeat split; try discriminate; lia. }
    destruct Hst0 as (st & Hst & Hne & Hsav & Hhdr & Hinit). rewrite Hst.
    destruct last.
    + (* the job ends the frame *)
      destruct (compress_calls_succeed_kb fuel bsMax hs (chkFrame && first) calls st cap 0 Hcne Hok Hbs'
                  ltac:(rewrite FHS_MAX_val; lia) Hne ltac:(rewrite FHS_MAX_val; assumption))
        as (W & cap' & st' & Hrun & Hcp & Hc0 & Hw & Hbound).
      { rewrite Hneed, Hsav, Hhdr. unfold epilogue_room. rewrite Hlast, BHS_val, CHECKSUM_SIZE_val.
        destruct first, (List.last (mt_chunks n) 0 <=? 0), chkFrame; cbn [andb]; lia. }
      rewrite Hrun. rewrite Hneed, Hsav, Hhdr in Hbound. unfold epilogue_cost in Hbound.
      rewrite Hlast, BHS_val, CHECKSUM_SIZE_val in Hbound.
      assert (Hlz : (List.last (mt_chunks n) 0 <=? 0) = (n <=? 0)).
      { destruct (Z.leb_spec n 0).
        - assert (n = 0) by lia. subst n. rewrite (F5 eq_refl). reflexivity.
        - specialize (F4 ltac:(lia)). apply Z.leb_gt. lia. }
      rewrite Hlz in Hbound. cbn [andb].
      destruct first; cbn [negb andb] in *.
      * rewrite !andb_false_r. cbv iota. eexists _, _, _. split; [reflexivity|].
        rewrite andb_true_r in Hbound. destruct chkFrame, (n <=? 0); cbn [andb]; lia.
      * rewrite andb_false_r in Hbound. rewrite andb_true_r.
        destruct (n <=? 0) eqn:Hz; [destruct chkFrame; discriminate Hempty || (cbn in Hempty; discriminate)|].
        destruct chkFrame; cbn [andb].
        -- destruct (Z.ltb_spec cap' 4); [lia|]. eexists _, _, _. split; [reflexivity|]. lia.
        -- eexists _, _, _. split; [reflexivity|]. lia.
    + (* an intermediate job: ZSTD_compressContinue only *)
      specialize (Hnl eq_refl).
      destruct (continue_calls_succeed_kb fuel bsMax hs calls st cap 0 2 Hok Hbs'
                  ltac:(rewrite FHS_MAX_val; lia) ltac:(lia) Hne ltac:(rewrite FHS_MAX_val; intros; auto))
        as (W & cap' & st' & Hrun & Hcp & HE & Hw & Hpot & _).
      { destruct calls; [congruence|]. rewrite Hneed, Hsav, Hhdr. destruct first; lia. }
      rewrite Hrun. rewrite !andb_false_r. cbn [andb]. eexists _, _, _. split; [reflexivity|].
      destruct calls; [congruence|]. rewrite Hneed, Hsav, Hhdr in Hpot.
      destruct first, chkFrame; cbn [andb]; lia.
Qed.

(* ---- the whole multi-threaded frame under the weak contract ---- *)
Fixpoint mt_frame_worst_kb (hs : Z) (chk first : bool) (jobs : list Z) : Z :=
  match jobs with
  | [] => 0
  | [n] => mt_job_worst_kb hs chk first true n
  | n :: t => mt_job_worst_kb hs chk first false n + mt_frame_worst_kb hs chk false t
  end.

Lemma mt_frame_tail_bound_kb : forall hs chk jobs,
  jobs_ok jobs ->
  mt_frame_worst_kb hs chk false jobs <= sumz jobs + sumz jobs / 256 + 10 /\ 0 <= sumz jobs.
Proof.
  intros hs chk jobs. induction jobs as [|n t IH]; intros Hok; [destruct Hok|].
  destruct t as [|n2 t2].
  - cbn [jobs_ok] in Hok. cbn [mt_frame_worst_kb sumz fold_right]. unfold mt_job_worst_kb.
    rewrite BHS_val, CHECKSUM_SIZE_val. destruct (chunks_kb_bound n Hok) as [[K0 K1] Kz].
    cbn [andb]. destruct (Z.leb_spec n 0).
    + assert (n = 0) by lia. subst n. rewrite (Kz eq_refl). destruct chk; cbn; lia.
    + destruct chk; lia.
  - destruct Hok as [Hn Hok]. specialize (IH Hok). destruct IH as [IH1 IH2].
    change (mt_frame_worst_kb hs chk false (n :: n2 :: t2))
      with (mt_job_worst_kb hs chk false false n + mt_frame_worst_kb hs chk false (n2 :: t2)).
    change (sumz (n :: n2 :: t2)) with (n + sumz (n2 :: t2)).
    rewrite KB128_val in Hn. unfold mt_job_worst_kb. rewrite BHS_val, CHECKSUM_SIZE_val. cbn [andb].
    destruct (chunks_kb_bound n ltac:(lia)) as [[K0 K1] _]. lia.
Qed.

(* every job paying the worst partition framing, header, last empty block and checksum: the frame a multi-threaded
   compression can emit at worst under the weak contract still fits ZSTD_compressBound of the whole input *)
Theorem mt_frame_worst_kb_le_bound : forall hs chk jobs,
  hs <= FHS_MAX -> jobs_ok jobs -> sumz jobs < MAX_INPUT ->
  mt_frame_worst_kb hs chk true jobs <= bound (sumz jobs).
Proof.
  intros hs chk jobs Hhs Hok Hmax.
  destruct jobs as [|n t]; [destruct Hok|]. destruct t as [|n2 t2].
  - cbn [jobs_ok] in Hok. cbn [mt_frame_worst_kb sumz fold_right] in *. replace (n + 0) with n in * by lia.
    pose proof (job_kb_le_bound n ltac:(lia)) as Hw.
    destruct (chunks_kb_bound n Hok) as [[K0 K1] Kz].
    unfold mt_job_worst_kb. rewrite FHS_MAX_val, BHS_val, CHECKSUM_SIZE_val in *. cbn [andb].
    destruct (Z.leb_spec n 0).
    + assert (n = 0) by lia. subst n. rewrite (Kz eq_refl). change (0 / 1024) with 0 in Hw. change (0 / 524288) with 0 in Hw.
      destruct chk; lia.
    + destruct chk; lia.
  - destruct Hok as [Hn Hok]. rewrite FHS_MAX_val in Hhs.
    destruct (mt_frame_tail_bound_kb hs chk (n2 :: t2) Hok) as [Ht Hs0].
    change (mt_frame_worst_kb hs chk true (n :: n2 :: t2))
      with (mt_job_worst_kb hs chk true false n + mt_frame_worst_kb hs chk false (n2 :: t2)).
    change (sumz (n :: n2 :: t2)) with (n + sumz (n2 :: t2)) in *.
    rewrite KB128_val in Hn. unfold mt_job_worst_kb. rewrite BHS_val, CHECKSUM_SIZE_val. cbn [andb].
    destruct (chunks_kb_bound n ltac:(lia)) as [[K0 K1] _].
    set (S := sumz (n2 :: t2)) in *.
    pose proof (bound_unfold (n + S) ltac:(lia)) as Hb.
    assert (n + S + (n + S) / 256 <= bound (n + S)).
    { rewrite Hb. destruct (Z.geb_spec (n + S) MAX_INPUT); [lia|]. destruct (Z.ltb_spec (n + S) 131072); lia. }
    lia.
Qed.

(* the strong-contract worst case is below the weak one (the new statements subsume the old ones) *)
Lemma nb_le_kb : forall c bs, 0 <= c -> 1024 <= bs -> nb_blocks c bs <= kb_blocks c.
Proof.
  intros c bs Hc Hbs. pose proof (nb_blocks_antimono_bs c bs Hc Hbs). unfold nb_blocks, kb_blocks in *.
  destruct (Z.ltb_spec 0 c); lia.
Qed.

(* hypotheses satisfiable: the all-raw calls (a raw block obeys the strong, hence the weak contract) *)
Lemma raw_calls_ok_kb : forall n,
  Forall (fun c => bc_contract_kb (c_bc c) /\ split_contract (c_split c)) (map raw_call (mt_chunks n)) /\
  map c_len (map raw_call (mt_chunks n)) = mt_chunks n.
Proof.
  intros n. destruct (raw_calls_ok n) as [A B]. split; [|exact B].
  rewrite Forall_forall in *. intros c Hin. destruct (A c Hin) as [X Y]. split; [apply bc_contract_is_kb; exact X|exact Y].
Qed.

(* a closed instance where the weak contract really costs more than the strong worst case: a partition compressor that
   charges 3 bytes per full KiB (every partition raw) *)
Definition bc_kb_worst : block_compressor := fun _ cap len =>
  let c := len + BHS * max_partitions len in if cap <? c then None else Some c.

Example mt_job_weak_costs_more :
  mt_job (Z.to_nat 600000) 131072 6 true true true [mk_call 300000 bc_kb_worst (split_const KB128)] 300000 (bound 524288)
  = CDone (6 + 300000 + 3 * (128 + 128 + 36) + 4) (bound 524288 - (6 + 300000 + 3 * (128 + 128 + 36) + 4))
          (mk_cstate StEnding 300000 (300000 + 3 * (128 + 128 + 36) + 6))
  /\ mt_job_worst 131072 6 true true true 300000 = 6 + 300000 + 3 * 3 + 4.
Proof. vm_compute. split; reflexivity. Qed.
