(* C06 (round 2) - proofs about CompressSplit.v *)
From Coq Require Import ZArith List Bool Lia.
From ZV.Mem Require Import CompressBound CompressBoundProofs.
From ZV.Mem Require Import CompressSplit.
Import ListNotations.
Local Open Scope Z_scope.

(* ---------------------------------------------------------------- the partition table *)

(* with the repaired helper the table never holds more than ZSTD_MAX_NB_BLOCK_SPLITS - 1 split locations, for every
   decision oracle, every range and every recursion depth: the terminator always has a slot *)
Lemma derive_helper_fixed_bound : forall fuel decide s e tbl,
  Z.of_nat (length tbl) <= MAX_NB_BLOCK_SPLITS - 1 ->
  Z.of_nat (length (derive_helper true fuel decide s e tbl)) <= MAX_NB_BLOCK_SPLITS - 1.
Proof.
  induction fuel as [|f IH]; intros decide s e tbl H; cbn [derive_helper]; [exact H|].
  destruct ((e - s <? MIN_SEQUENCES_BLOCK_SPLITTING) || (Z.of_nat (length tbl) >=? MAX_NB_BLOCK_SPLITS)); [exact H|].
  destruct (decide s e); [|exact H].
  pose proof (IH decide s ((s + e) / 2) tbl H) as H1.
  cbn [andb].
  destruct (Z.geb_spec (Z.of_nat (length (derive_helper true f decide s ((s + e) / 2) tbl))) (MAX_NB_BLOCK_SPLITS - 1)) as [Hge|Hlt].
  - exact H1.
  - apply IH. rewrite app_length. cbn [length]. rewrite Nat2Z.inj_add. change (Z.of_nat 1) with 1. lia.
Qed.

(* the table only grows *)
Lemma derive_helper_extends : forall fixed fuel decide s e tbl,
  exists new, derive_helper fixed fuel decide s e tbl = tbl ++ new.
Proof.
  induction fuel as [|f IH]; intros decide s e tbl; cbn [derive_helper].
  - exists []. rewrite app_nil_r. reflexivity.
  - destruct ((e - s <? MIN_SEQUENCES_BLOCK_SPLITTING) || (Z.of_nat (length tbl) >=? MAX_NB_BLOCK_SPLITS)).
    { exists []. rewrite app_nil_r. reflexivity. }
    destruct (decide s e).
    2:{ exists []. rewrite app_nil_r. reflexivity. }
    destruct (IH decide s ((s + e) / 2) tbl) as [n1 H1]. rewrite H1.
    destruct (fixed && (Z.of_nat (length (tbl ++ n1)) >=? MAX_NB_BLOCK_SPLITS - 1)).
    + exists n1. reflexivity.
    + destruct (IH decide ((s + e) / 2) e ((tbl ++ n1) ++ [(s + e) / 2])) as [n2 H2]. rewrite H2.
      exists (n1 ++ [(s + e) / 2] ++ n2). rewrite <- !app_assoc. reflexivity.
Qed.

(* every split location the helper adds lies strictly inside its range, and they are stored in increasing order:
   every partition holds at least one sequence *)
Inductive increasing_in (lo hi : Z) : list Z -> Prop :=
| inc_nil : increasing_in lo hi []
| inc_cons : forall x l, lo < x < hi -> increasing_in x hi l -> increasing_in lo hi (x :: l).

Lemma increasing_in_widen : forall l lo hi lo' hi', lo' <= lo -> hi <= hi' -> increasing_in lo hi l -> increasing_in lo' hi' l.
Proof.
  induction l as [|x l IH]; intros lo hi lo' hi' H1 H2 H; [constructor|].
  inversion H; subst. constructor; [lia|]. apply (IH x hi x hi'); [lia|lia|assumption].
Qed.

Lemma increasing_in_app : forall l1 lo mid hi l2,
  increasing_in lo mid l1 -> lo < mid < hi -> increasing_in mid hi l2 -> increasing_in lo hi (l1 ++ mid :: l2).
Proof.
  induction l1 as [|x l1 IH]; intros lo mid hi l2 H1 Hm H2; cbn [app].
  - constructor; [lia|assumption].
  - inversion H1; subst. constructor; [lia|]. apply IH; [assumption|lia|assumption].
Qed.

Lemma derive_helper_increasing : forall fixed fuel decide s e tbl,
  exists new, derive_helper fixed fuel decide s e tbl = tbl ++ new /\ increasing_in s e new.
Proof.
  induction fuel as [|f IH]; intros decide s e tbl; cbn [derive_helper].
  - exists []. rewrite app_nil_r. split; [reflexivity|constructor].
  - destruct (Z.ltb_spec (e - s) MIN_SEQUENCES_BLOCK_SPLITTING) as [Hsmall|Hbig]; cbn [orb].
    { exists []. rewrite app_nil_r. split; [reflexivity|constructor]. }
    destruct (Z.of_nat (length tbl) >=? MAX_NB_BLOCK_SPLITS).
    { exists []. rewrite app_nil_r. split; [reflexivity|constructor]. }
    destruct (decide s e).
    2:{ exists []. rewrite app_nil_r. split; [reflexivity|constructor]. }
    unfold MIN_SEQUENCES_BLOCK_SPLITTING in Hbig.
    assert (Hmid : s < (s + e) / 2 < e).
    { pose proof (Z.div_mod (s + e) 2 ltac:(lia)). pose proof (Z.mod_pos_bound (s + e) 2 ltac:(lia)). lia. }
    destruct (IH decide s ((s + e) / 2) tbl) as [n1 [H1 I1]]. rewrite H1.
    destruct (fixed && (Z.of_nat (length (tbl ++ n1)) >=? MAX_NB_BLOCK_SPLITS - 1)).
    + exists n1. split; [reflexivity|]. apply (increasing_in_widen n1 s ((s + e) / 2)); [lia|lia|assumption].
    + destruct (IH decide ((s + e) / 2) e ((tbl ++ n1) ++ [(s + e) / 2])) as [n2 [H2 I2]]. rewrite H2.
      exists (n1 ++ (s + e) / 2 :: n2). split.
      * rewrite <- !app_assoc. reflexivity.
      * apply increasing_in_app; assumption.
Qed.

Theorem derive_splits_table_bound : forall fuel decide nbSeq,
  last_store_index (derive_splits true fuel decide nbSeq) <= MAX_NB_BLOCK_SPLITS - 1.
Proof.
  intros. unfold derive_splits, last_store_index. destruct (nbSeq <=? 4).
  - cbn. unfold MAX_NB_BLOCK_SPLITS. lia.
  - apply derive_helper_fixed_bound. cbn. unfold MAX_NB_BLOCK_SPLITS. lia.
Qed.

Theorem derive_splits_increasing : forall fixed fuel decide nbSeq,
  increasing_in 0 nbSeq (derive_splits fixed fuel decide nbSeq).
Proof.
  intros. unfold derive_splits. destruct (nbSeq <=? 4); [constructor|].
  destruct (derive_helper_increasing fixed fuel decide 0 nbSeq []) as [new [H I]]. rewrite H. exact I.
Qed.

(* the code before the repair: 43690 sequences (a 128 KiB block of 3-byte matches), every split accepted: the
   terminator is stored at index 199 of a table of 196 entries *)
Example old_helper_overruns_the_table :
  last_store_index (derive_splits false 12 (fun _ _ => true) 43690) = 199.
Proof. vm_compute. reflexivity. Qed.
Example fixed_helper_fills_the_table :
  last_store_index (derive_splits true 12 (fun _ _ => true) 43690) = 195.
Proof. vm_compute. reflexivity. Qed.

(* ---------------------------------------------------------------- emission of the partitions *)

Definition sumZ (l : list Z) : Z := fold_right Z.add 0 l.

Lemma sumZ_nonneg : forall l, Forall (fun x => 0 < x) l -> 0 <= sumZ l.
Proof.
  induction l as [|x l IH]; intros H; cbn [sumZ fold_right]; [lia|].
  inversion H; subst. fold (sumZ l). specialize (IH H3). lia.
Qed.

Lemma emit_parts_succeeds : forall pc parts j cap w,
  bc_contract pc -> Forall (fun x => 0 < x) parts ->
  sumZ parts + 3 * Z.of_nat (length parts) <= cap ->
  exists t, emit_parts pc j parts cap w = Some t /\ w <= t /\ t - w <= sumZ parts + 3 * Z.of_nat (length parts) /\
            t - w <= cap /\ (parts <> [] -> w < t).
Proof.
  intros pc parts. induction parts as [|l rest IH]; intros j cap w Hpc Hpos Hcap; cbn [emit_parts].
  - exists w. cbn [sumZ fold_right length] in *. change (Z.of_nat 0) with 0 in *.
    split; [reflexivity|]. split; [lia|]. split; [lia|]. split; [lia|]. intros Hx; exfalso; apply Hx; reflexivity.
  - inversion Hpos as [|? ? Hl Hrest]; subst.
    cbn [sumZ fold_right length] in Hcap. fold (sumZ rest) in Hcap. rewrite Nat2Z.inj_succ in Hcap.
    pose proof (sumZ_nonneg rest Hrest) as Hsum0. pose proof (Nat2Z.is_nonneg (length rest)) as Hlen0.
    destruct (Hpc j cap l Hl) as [Hex Hle]. rewrite BHS_val in Hex, Hle.
    destruct Hex as [cs Hcs]; [lia|]. rewrite Hcs.
    destruct (Hle cs Hcs) as (H0 & H1 & H2).
    destruct (IH (S j) (cap - cs) (w + cs) Hpc Hrest ltac:(lia)) as (t & Ht & Hw & Hs & Hc & _).
    exists t. rewrite Ht. cbn [sumZ fold_right length]. fold (sumZ rest). rewrite Nat2Z.inj_succ.
    split; [reflexivity|]. split; [lia|]. split; [lia|]. split; [lia|]. intros _. lia.
Qed.

Lemma emit_parts_bounded : forall pc parts j cap w t,
  bc_contract pc -> Forall (fun x => 0 < x) parts -> 0 <= cap ->
  emit_parts pc j parts cap w = Some t ->
  w <= t /\ t - w <= sumZ parts + 3 * Z.of_nat (length parts) /\ t - w <= cap /\ (parts <> [] -> w < t).
Proof.
  intros pc parts. induction parts as [|l rest IH]; intros j cap w t Hpc Hpos Hcap Hrun; cbn [emit_parts] in Hrun.
  - injection Hrun as <-. cbn [sumZ fold_right length]. change (Z.of_nat 0) with 0.
    split; [lia|]. split; [lia|]. split; [lia|]. intros Hx; exfalso; apply Hx; reflexivity.
  - inversion Hpos as [|? ? Hl Hrest]; subst.
    destruct (pc j cap l) as [cs|] eqn:Hcs; [|discriminate].
    destruct (Hpc j cap l Hl) as [_ Hle]. rewrite BHS_val in Hle. destruct (Hle cs Hcs) as (H0 & H1 & H2).
    destruct (IH (S j) (cap - cs) (w + cs) t Hpc Hrest ltac:(lia) Hrun) as (Hw & Hs & Hc & _).
    cbn [sumZ fold_right length]. fold (sumZ rest). rewrite Nat2Z.inj_succ.
    split; [lia|]. split; [lia|]. split; [lia|]. intros _. lia.
Qed.

(* what the derived table cuts: at least one partition, each with source bytes, together the block *)
Definition cut_ok (parts : list Z) (len : Z) : Prop :=
  parts <> [] /\ Forall (fun x => 0 < x) parts /\ sumZ parts = len.

(* the block-level contract the post-splitter gives to the frame loop: it succeeds when offered
   len + 3 * max(1, len >> 10) bytes and never emits more than that (nor more than it was offered) *)
Definition bc_contract_kb (bc : block_compressor) : Prop :=
  forall i cap len, 0 < len -> 0 <= cap ->
    (len + BHS * max_partitions len <= cap -> exists cs, bc i cap len = Some cs) /\
    (forall cs, bc i cap len = Some cs -> 0 < cs /\ cs <= cap /\ cs <= len + BHS * max_partitions len).

Lemma max_partitions_pos : forall len, 1 <= max_partitions len.
Proof. intros. unfold max_partitions. lia. Qed.

Theorem split_block_contract : forall pcs cut,
  (forall i, bc_contract (pcs i)) -> (forall i len, 0 < len -> cut_ok (cut i len) len) ->
  bc_contract_kb (bc_split pcs cut).
Proof.
  intros pcs cut Hpc Hcut i cap len Hlen Hcap0. unfold bc_split, split_block, chosen_parts.
  destruct (Hcut i len Hlen) as (Hne & Hpos & Hsum).
  pose proof (max_partitions_pos len) as Hmp.
  set (parts := if Z.of_nat (length (cut i len)) >? max_partitions len then [len] else cut i len).
  assert (Hp : parts <> [] /\ Forall (fun x => 0 < x) parts /\ sumZ parts = len /\ Z.of_nat (length parts) <= max_partitions len).
  { unfold parts. destruct (Z.gtb_spec (Z.of_nat (length (cut i len))) (max_partitions len)).
    - repeat split; [congruence|constructor; [lia|constructor]|cbn; lia|cbn; lia].
    - repeat split; assumption || lia. }
  destruct Hp as (Hne' & Hpos' & Hsum' & Hlen'). rewrite BHS_val.
  pose proof (Nat2Z.is_nonneg (length parts)) as Hl0.
  split.
  - intros Hc. destruct (emit_parts_succeeds (pcs i) parts O cap 0 (Hpc i) Hpos') as (t & Ht & _); [lia|].
    exists t. exact Ht.
  - intros cs Hrun. destruct (emit_parts_bounded (pcs i) parts O cap 0 cs (Hpc i) Hpos' Hcap0 Hrun) as (Hw & Hs & Hc & Hp).
    specialize (Hp Hne'). split; [lia|]. split; [lia|]. lia.
Qed.

(* the old contract is the special case of one partition per block *)
Lemma bc_contract_is_kb : forall bc, bc_contract bc -> bc_contract_kb bc.
Proof.
  intros bc H i cap len Hlen Hcap. destruct (H i cap len Hlen) as [Hex Hle].
  pose proof (max_partitions_pos len) as Hmp. rewrite BHS_val in *. split.
  - intros Hc. apply Hex. lia.
  - intros cs Hcs. destruct (Hle cs Hcs) as (Ha & Hb & Hd). split; [lia|]. split; [lia|]. lia.
Qed.

(* ---------------------------------------------------------------- the frame loop under the weaker contract *)

Lemma shiftr10 : forall x, 0 <= x -> Z.shiftr x 10 = x / 1024.
Proof. intros. rewrite Z.shiftr_div_pow2 by lia. reflexivity. Qed.

Lemma kb_blocks_nonneg : forall r, 0 <= r -> 0 <= kb_blocks r.
Proof. intros. unfold kb_blocks. pose proof (Z.div_pos r 1024 ltac:(lia) ltac:(lia)). destruct (0 <? r); lia. Qed.

Lemma kb_blocks_zero : kb_blocks 0 = 0.
Proof. reflexivity. Qed.

(* one block of b bytes out of r: the KiB budget of the rest shrinks by the partitions the block may use,
   provided the block is the last one or holds at least 1 KiB *)
Lemma kb_blocks_step : forall r b, 0 < b <= r -> (b = r \/ 1024 <= b) ->
  kb_blocks (r - b) + max_partitions b <= kb_blocks r.
Proof.
  intros r b Hb Hc. unfold kb_blocks, max_partitions. rewrite shiftr10 by lia.
  pose proof (Z.div_mod r 1024 ltac:(lia)). pose proof (Z.mod_pos_bound r 1024 ltac:(lia)).
  pose proof (Z.div_mod b 1024 ltac:(lia)). pose proof (Z.mod_pos_bound b 1024 ltac:(lia)).
  pose proof (Z.div_mod (r - b) 1024 ltac:(lia)). pose proof (Z.mod_pos_bound (r - b) 1024 ltac:(lia)).
  destruct (Z.ltb_spec 0 r); [|lia].
  destruct (Z.ltb_spec 0 (r - b)); destruct Hc as [Hc|Hc]; lia.
Qed.

Lemma kb_blocks_mono : forall a b, 0 <= a <= b -> kb_blocks a <= kb_blocks b.
Proof.
  intros a b H. unfold kb_blocks.
  pose proof (Z.div_le_mono a b 1024 ltac:(lia) ltac:(lia)).
  destruct (Z.ltb_spec 0 a); destruct (Z.ltb_spec 0 b); lia.
Qed.

Lemma frame_chunk_succeeds_kb : forall fuel bc split i bsMax r cap s w E,
  bc_contract_kb bc -> split_contract split ->
  0 < bsMax <= KB128 -> (1024 <= bsMax \/ r <= bsMax) -> 0 <= r -> r <= Z.of_nat fuel -> 2 <= E ->
  r + BHS * kb_blocks r + E + Z.max s 0 <= cap ->
  exists body cap',
    frame_chunk fuel bc split i bsMax r cap s w = Done body cap' /\
    cap' = cap - (body - w) /\ E <= cap' /\ w <= body /\ (0 < r -> w < body) /\
    body - w <= r + BHS * kb_blocks r + Z.max s 0.
Proof.
  induction fuel as [|fuel IH]; intros bc split i bsMax r cap s w E Hbc Hsp Hbs Hbs2 Hr Hfuel HE Hcap.
  - assert (r = 0) by lia. subst r. cbn [frame_chunk]. cbn.
    exists w, cap. rewrite kb_blocks_zero in *. rewrite BHS_val in *. repeat split; lia.
  - cbn [frame_chunk]. destruct (Z.leb_spec r 0) as [Hr0|Hrpos].
    + assert (r = 0) by lia. subst r. exists w, cap.
      rewrite kb_blocks_zero in *. rewrite BHS_val in *. repeat split; lia.
    + rewrite BHS_val in *. rewrite MIN_CBLOCK_val.
      assert (Hk1 : 1 <= kb_blocks r).
      { unfold kb_blocks. pose proof (Z.div_pos r 1024 ltac:(lia) ltac:(lia)). destruct (Z.ltb_spec 0 r); lia. }
      destruct (Z.ltb_spec cap (3 + 2 + 1)) as [Hguard|Hguard]; [lia|].
      set (b := optimal_block_size r bsMax s (split i)).
      pose proof (optimal_block_size_range r bsMax s (split i) Hrpos Hbs (Hsp i)) as [Hb1 Hb2].
      fold b in Hb1, Hb2.
      (* either the block pays for its partitions out of the KiB budget, or it is a pre-splitter block smaller than
         1 KiB, chosen only when 3 bytes of savings are in hand *)
      assert (Hcase : (b = r \/ 1024 <= b) \/ (3 <= s /\ b < 1024)).
      { unfold b, optimal_block_size.
        destruct (Z.ltb_spec r KB128) as [Hr128|Hr128]; cbn [orb].
        - left. destruct (Z.min_spec r bsMax) as [[Hlt ->]|[Hge ->]]; lia.
        - destruct (Z.ltb_spec bsMax KB128) as [Hb128|Hb128]; cbn [orb].
          + left. destruct (Z.min_spec r bsMax) as [[Hlt ->]|[Hge ->]]; lia.
          + destruct (Z.ltb_spec s 3) as [Hs3|Hs3].
            * left. rewrite KB128_val. lia.
            * destruct (Z_lt_le_dec (split i) 1024); [right; lia|left; lia]. }
      pose proof (max_partitions_pos b) as Hmp.
      assert (Hbudget : kb_blocks (r - b) + max_partitions b <= kb_blocks r \/ (3 <= s /\ max_partitions b = 1 /\ kb_blocks (r - b) <= kb_blocks r)).
      { destruct Hcase as [Hc|[Hs3 Hsmall]].
        - left. apply kb_blocks_step; lia.
        - right. split; [lia|]. split.
          + unfold max_partitions. rewrite shiftr10 by lia. rewrite Z.div_small by lia. lia.
          + apply kb_blocks_mono. lia. }
      destruct (Hbc i cap b ltac:(lia) ltac:(lia)) as [Hex Hle]. rewrite BHS_val in *.
      destruct Hex as [cs Hcs].
      { destruct Hbudget as [Hbu|(Hs3 & Hm1 & Hbu)]; pose proof (kb_blocks_nonneg (r - b) ltac:(lia)); nia. }
      rewrite Hcs. destruct (Hle cs Hcs) as (Hcs0 & Hcs1 & Hcs2).
      assert (Hbs2' : 1024 <= bsMax \/ r - b <= bsMax) by lia.
      destruct (IH bc split (S i) bsMax (r - b) (cap - cs) (s + b - cs) (w + cs) E Hbc Hsp Hbs Hbs2'
                   ltac:(lia) ltac:(lia) HE) as (body & cap' & Hrun & Hc' & HE' & Hw & _ & Hexp).
      { rewrite ?BHS_val. destruct Hbudget as [Hbu|(Hs3 & Hm1 & Hbu)]; nia. }
      exists body, cap'. rewrite Hrun. rewrite ?BHS_val in Hexp.
      destruct Hbudget as [Hbu|(Hs3 & Hm1 & Hbu)]; repeat split; lia.
Qed.

Lemma kb_blocks_le_nb_blocks : forall n, 0 <= n -> kb_blocks n <= nb_blocks n 1024 + 1.
Proof.
  intros n Hn. unfold kb_blocks, nb_blocks.
  pose proof (Z.div_le_mono n (n + 1024 - 1) 1024 ltac:(lia) ltac:(lia)).
  destruct (0 <? n); lia.
Qed.

(* ZSTD_compressBound(n) bytes suffice for the one-pass frame writer when every block may cost as much as the
   post-splitter can make it cost *)
Theorem compressBound_suffices_kb_lemma : forall fuel bc split n bsMax hs chk s0,
  bc_contract_kb bc -> split_contract split ->
  0 <= n < MAX_INPUT -> n <= Z.of_nat fuel ->
  0 < bsMax <= BLOCKSIZE_MAX -> (BLOCKSIZE_MAX_MIN <= bsMax \/ n <= bsMax) ->
  0 <= hs <= FHS_MAX -> s0 <= 0 ->
  exists w capLeft,
    compress_frame fuel bc split n bsMax hs chk s0 (bound n) = Done w capLeft /\
    0 < w /\ w <= bound n /\ capLeft = bound n - w /\
    w <= hs + n + BHS * kb_blocks n + (if n <=? 0 then BHS else 0) + (if chk then CHECKSUM_SIZE else 0).
Proof.
  intros fuel bc split n bsMax hs chk s0 Hbc Hsp Hn Hfuel Hbs Hbs2 Hhs Hs0.
  pose proof (worst_case_le_bound n 1024 Hn ltac:(lia) ltac:(left; rewrite BLOCKSIZE_MAX_MIN_val; lia)) as Hw.
  pose proof (kb_blocks_le_nb_blocks n ltac:(lia)) as Hk.
  pose proof (kb_blocks_nonneg n ltac:(lia)) as Hk0.
  pose proof (nb_blocks_nonneg n 1024 ltac:(lia) ltac:(lia)) as Hnb0.
  rewrite BLOCKSIZE_MAX_val in Hbs. rewrite BLOCKSIZE_MAX_MIN_val in Hbs2.
  rewrite FHS_MAX_val, BHS_val, CHECKSUM_SIZE_val in *.
  unfold compress_frame, write_frame_header. rewrite FHS_MAX_val.
  destruct (Z.ltb_spec (bound n) 18); [lia|].
  destruct (Z.leb_spec n 0) as [Hn0|Hnpos].
  - assert (n = 0) by lia. subst n. rewrite kb_blocks_zero. rewrite nb_blocks_zero in * by lia.
    unfold write_epilogue. rewrite BHS_val, CHECKSUM_SIZE_val.
    destruct (Z.ltb_spec (bound 0 - hs) 3); [destruct chk; lia|].
    destruct chk.
    + destruct (Z.ltb_spec (bound 0 - hs - 3) 4); [lia|].
      eexists _, _. split; [reflexivity|]. lia.
    + eexists _, _. split; [reflexivity|]. lia.
  - assert (Hbs' : 0 < bsMax <= KB128) by (rewrite KB128_val; lia).
    destruct (frame_chunk_succeeds_kb fuel bc split O bsMax n (bound n - hs) s0 0 (if chk then 4 else 2) Hbc Hsp Hbs')
      as (body & cap' & Hrun & Hc' & HE' & Hw0 & Hpos & Hexp);
      try (rewrite ?BHS_val; destruct chk; lia).
    rewrite Hrun. specialize (Hpos Hnpos). rewrite BHS_val in Hexp.
    assert (Hbody : (0 <? body) = true) by (apply Z.ltb_lt; lia). rewrite Hbody.
    unfold write_epilogue. rewrite CHECKSUM_SIZE_val.
    destruct chk.
    + destruct (Z.ltb_spec cap' 4); [lia|].
      eexists _, _. split; [reflexivity|]. lia.
    + eexists _, _. split; [reflexivity|]. lia.
Qed.

(* ... with the post-splitter inside the model: any partition compressors obeying the raw-fallback contract, any cut *)
Theorem compressBound_suffices_with_splitter_lemma : forall fuel pcs cut split n bsMax hs chk s0,
  (forall i, bc_contract (pcs i)) -> (forall i len, 0 < len -> cut_ok (cut i len) len) -> split_contract split ->
  0 <= n < MAX_INPUT -> n <= Z.of_nat fuel ->
  0 < bsMax <= BLOCKSIZE_MAX -> (BLOCKSIZE_MAX_MIN <= bsMax \/ n <= bsMax) ->
  0 <= hs <= FHS_MAX -> s0 <= 0 ->
  exists w capLeft,
    compress_frame fuel (bc_split pcs cut) split n bsMax hs chk s0 (bound n) = Done w capLeft /\
    0 < w /\ w <= bound n /\ capLeft = bound n - w.
Proof.
  intros fuel pcs cut split n bsMax hs chk s0 Hpc Hcut Hsp Hn Hfuel Hbs Hbs2 Hhs Hs0.
  destruct (compressBound_suffices_kb_lemma fuel (bc_split pcs cut) split n bsMax hs chk s0
              (split_block_contract pcs cut Hpc Hcut) Hsp Hn Hfuel Hbs Hbs2 Hhs Hs0) as (w & cl & H & H1 & H2 & H3 & _).
  exists w, cl. repeat split; assumption.
Qed.

(* without the cap on the number of partitions the contract fails: the finding as a closed witness - a 1 KiB block cut
   into two raw partitions costs 6 bytes, 64 such blocks do not fit ZSTD_compressBound(64 KiB) *)
Definition split_block_uncapped (pc : part_compressor) (parts : list Z) (cap : Z) : option Z := emit_parts pc O parts cap 0.
Example uncapped_splitter_overflows_the_bound :
  let bc : block_compressor := fun _ cap len => split_block_uncapped pc_raw [len / 2; len - len / 2] cap in
  compress_frame 100 bc (split_const KB128) 65536 1024 6 false 0 (bound 65536) = TooSmall /\
  compress_frame 100 (bc_split (fun _ => pc_raw) (fun _ len => [len / 2; len - len / 2])) (split_const KB128) 65536 1024 6 false 0 (bound 65536)
    = Done 65734 90.
Proof. vm_compute. split; reflexivity. Qed.

(* the hypotheses are satisfiable *)
Example splitter_contracts_satisfiable :
  (forall i : nat, bc_contract ((fun _ => pc_raw) i)) /\ (forall (i : nat) len, 0 < len -> cut_ok ((fun _ l => [l]) i len) len).
Proof.
  split.
  - intros _. exact bc_raw_contract.
  - intros _ len H. repeat split; [congruence|constructor; [lia|constructor]|cbn; lia].
Qed.

(* the counting form used by the correspondence run agrees with the list form *)
Lemma emitted_partitions_spec : forall parts len, parts <> [] ->
  Z.of_nat (length (chosen_parts parts len)) = emitted_partitions (Z.of_nat (length parts) - 1) len.
Proof.
  intros parts len Hne. unfold chosen_parts, emitted_partitions.
  replace (Z.of_nat (length parts) - 1 + 1) with (Z.of_nat (length parts)) by lia.
  destruct (Z.of_nat (length parts) >? max_partitions len); reflexivity.
Qed.
