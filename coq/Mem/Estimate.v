(* C14 - model of the compressor-side sizing code of lib/compress/zstd_compress.c (+ zstd_ldm.c):
   parameter resolution (ZSTD_getCParams_internal, ZSTD_adjustCParams_internal, row / LDM switches),
   the ESTIMATE side (ZSTD_sizeof_matchState, ZSTD_estimateCCtxSize_usingCCtxParams_internal,
   ZSTD_estimate{CCtx,CStream}Size.., ZSTD_estimateCDictSize..), and the RESERVATION side (the list of
   ZSTD_cwksp_reserve_xxx calls made by ZSTD_initStaticCCtx, ZSTD_resetCCtx_internal, ZSTD_reset_matchState,
   ZSTD_initCDict_internal), in order, as [Cwksp.op] lists.  No proofs in this file.
   sizeof's, macro values and the level table come from Gen_C14 (regenerated from the current tree). *)
From Coq Require Import NArith ZArith List Bool.
From ZV.Gen Require Import Gen_C14.
From ZV.Mem Require Import Cwksp.
Import ListNotations.
Local Open Scope N_scope.

Definition UNKNOWN : N := 18446744073709551615.   (* ZSTD_CONTENTSIZE_UNKNOWN = 0ULL - 1 *)

Record cparams := mkCP { wlog : N; clog : N; hlog : N; slog : N; mml : N; tlen : N; strat : N }.
Inductive pswitch := PsAuto | PsEnable | PsDisable.
Definition ps_eqb (a b : pswitch) : bool :=
  match a, b with PsAuto, PsAuto | PsEnable, PsEnable | PsDisable, PsDisable => true | _, _ => false end.

Record ldmparams := mkLdm { ldm_enable : pswitch; ldm_hashLog : N; ldm_bucketSizeLog : N; ldm_minMatch : N;
                            ldm_hashRateLog : N; ldm_windowLog : N }.
Definition ldm_zero (e : pswitch) : ldmparams := mkLdm e 0 0 0 0 0.

Inductive cpmode := CpmNoAttachDict | CpmAttachDict | CpmCreateCDict | CpmUnknown.

(* ------------------------------------------------------------------ *)
(* switches *)

Definition rowMatchFinderSupported (s : N) : bool := (c_ZSTD_greedy <=? s) && (s <=? c_ZSTD_lazy2).
Definition rowMatchFinderUsed (s : N) (mode : pswitch) : bool := rowMatchFinderSupported s && ps_eqb mode PsEnable.

Definition resolveRowMatchFinderMode (mode : pswitch) (cp : cparams) : pswitch :=
  match mode with
  | PsAuto => if rowMatchFinderSupported (strat cp)
              then (if c_row_auto_wlog_gt <? wlog cp then PsEnable else PsDisable)
              else PsDisable
  | m => m
  end.

Definition resolveEnableLdm (mode : pswitch) (cp : cparams) : pswitch :=
  match mode with
  | PsAuto => if (c_ZSTD_btopt <=? strat cp) && (27 <=? wlog cp) then PsEnable else PsDisable
  | m => m
  end.

Definition allocateChainTable (s : N) (row : pswitch) (forDDSDict : bool) : bool :=
  forDDSDict || (negb (s =? c_ZSTD_fast) && negb (rowMatchFinderUsed s row)).

Definition resolveMaxBlockSize (m : N) : N := if m =? 0 then c_ZSTD_BLOCKSIZE_MAX else m.

Definition CDictIndicesAreTagged (cp : cparams) : bool := (strat cp =? c_ZSTD_fast) || (strat cp =? c_ZSTD_dfast).

(* ------------------------------------------------------------------ *)
(* ZSTD_adjustCParams_internal *)

Definition highbit (v : N) : N := N.log2 v.    (* ZSTD_highbit32, v > 0 *)

(* ZSTD_dictAndWindowLog *)
Definition dictAndWindowLog (windowLog srcSize dictSize : N) : N :=
  if dictSize =? 0 then windowLog
  else let windowSize := 2 ^ windowLog in
       let dictAndWindowSize := dictSize + windowSize in
       if dictSize + srcSize <=? windowSize then windowLog
       else if 2 ^ c_ZSTD_WINDOWLOG_MAX <=? dictAndWindowSize then c_ZSTD_WINDOWLOG_MAX
       else highbit (dictAndWindowSize - 1) + 1.

Definition maxWindowResize : N := 2 ^ (c_ZSTD_WINDOWLOG_MAX - 1).

(* srcLog of the "resize windowLog if input is small enough" step; None when the step is skipped *)
Definition srcLog_of (srcSize dictSize : N) : option N :=
  if (srcSize <=? maxWindowResize) && (dictSize <=? maxWindowResize) then
    let tSize := srcSize + dictSize in
    Some (if tSize <? 2 ^ c_ZSTD_HASHLOG_MIN then c_ZSTD_HASHLOG_MIN else highbit (tSize - 1) + 1)
  else None.

(* everything after srcSize / dictSize have been digested into: the optional srcLog, whether the source
   size is known, and the function giving dictAndWindowLog from the (resized) windowLog *)
Definition adjust_core (cp : cparams) (srcLog : option N) (known : bool) (dawl : N -> N)
           (mode : cpmode) (useRow : pswitch) : cparams :=
  let w1 := match srcLog with Some l => if l <? wlog cp then l else wlog cp | None => wlog cp end in
  let '(h1, c1) :=
    if known then
      let d := dawl w1 in
      let btScale := if c_ZSTD_btlazy2 <=? strat cp then 1 else 0 in
      let cycleLog := clog cp - btScale in
      (if d + 1 <? hlog cp then d + 1 else hlog cp,
       if d <? cycleLog then clog cp - (cycleLog - d) else clog cp)
    else (hlog cp, clog cp) in
  let w2 := if w1 <? c_ZSTD_WINDOWLOG_ABSOLUTEMIN then c_ZSTD_WINDOWLOG_ABSOLUTEMIN else w1 in
  let cp2 := mkCP w2 c1 h1 (slog cp) (mml cp) (tlen cp) (strat cp) in
  let '(h2, c2) :=
    match mode with
    | CpmCreateCDict =>
      if CDictIndicesAreTagged cp2 then
        let m := 32 - c_ZSTD_SHORT_CACHE_TAG_BITS in
        (if m <? h1 then m else h1, if m <? c1 then m else c1)
      else (h1, c1)
    | _ => (h1, c1)
    end in
  let row := match useRow with PsAuto => PsEnable | m => m end in
  let h3 :=
    if rowMatchFinderUsed (strat cp) row then
      let rowLog := N.max 4 (N.min (slog cp) 6) in
      let maxHashLog := (32 - c_ZSTD_ROW_HASH_TAG_BITS) + rowLog in
      if maxHashLog <? h2 then maxHashLog else h2
    else h2 in
  mkCP w2 c2 h3 (slog cp) (mml cp) (tlen cp) (strat cp).

Definition adjustCParams_internal (cp : cparams) (srcSize dictSize : N) (mode : cpmode) (useRow : pswitch) : cparams :=
  let srcSize1 := match mode with
                  | CpmCreateCDict => if negb (dictSize =? 0) && (srcSize =? UNKNOWN) then 513 else srcSize
                  | _ => srcSize end in
  let dictSize1 := match mode with CpmAttachDict => 0 | _ => dictSize end in
  adjust_core cp (srcLog_of srcSize1 dictSize1) (negb (srcSize1 =? UNKNOWN))
              (fun w => dictAndWindowLog w srcSize1 dictSize1) mode useRow.

(* ------------------------------------------------------------------ *)
(* ZSTD_getCParams_internal *)

Definition tuple_cp (t : N*N*N*N*N*N*N) : cparams :=
  let '(w, c, h, s, m, tl, st) := t in mkCP w c h s m tl st.

Definition level_row (lvl : Z) : N :=
  if (lvl =? 0)%Z then c_ZSTD_CLEVEL_DEFAULT
  else if (lvl <? 0)%Z then 0
  else if (Z.of_N c_ZSTD_MAX_CLEVEL <? lvl)%Z then c_ZSTD_MAX_CLEVEL
  else Z.to_N lvl.

Definition table_cp (tier row : N) : cparams :=
  tuple_cp (nth (N.to_nat row) (nth (N.to_nat tier) c14_levels []) (0,0,0,0,0,0,0)).

Definition b2n (b : bool) : N := if b then 1 else 0.

(* ZSTD_getCParamRowSize *)
Definition cparam_rowSize (srcSizeHint dictSize : N) (mode : cpmode) : N :=
  let dictSize1 := match mode with CpmAttachDict => 0 | _ => dictSize end in
  let unknown := srcSizeHint =? UNKNOWN in
  let added := if unknown && (0 <? dictSize1) then 500 else 0 in
  (* U64 arithmetic: with an unknown source size and a dictionary, UNKNOWN + dictSize + 500 wraps to dictSize + 499 *)
  if unknown && (dictSize1 =? 0) then UNKNOWN else (srcSizeHint + dictSize1 + added) mod 2 ^ 64.

Definition tier_of_rsize (rSize : N) : N :=
  b2n (rSize <=? 256 * 1024) + b2n (rSize <=? 128 * 1024) + b2n (rSize <=? 16 * 1024).

Definition level_cp (lvl : Z) (tier : N) : cparams :=
  let cp := table_cp tier (level_row lvl) in
  if (lvl <? 0)%Z then
    let clamped := Z.max (- Z.of_N c_minCLevel_neg) lvl in
    mkCP (wlog cp) (clog cp) (hlog cp) (slog cp) (mml cp) (Z.to_N (- clamped)) (strat cp)
  else cp.

Definition getCParams_internal (lvl : Z) (srcSizeHint dictSize : N) (mode : cpmode) : cparams :=
  let tier := tier_of_rsize (cparam_rowSize srcSizeHint dictSize mode) in
  adjustCParams_internal (level_cp lvl tier) srcSizeHint dictSize mode PsAuto.

(* ------------------------------------------------------------------ *)
(* LDM *)

Definition ldm_adjustParameters (p : ldmparams) (cp : cparams) : ldmparams :=
  let w := wlog cp in
  let bsl := if ldm_bucketSizeLog p =? 0 then c_LDM_BUCKET_SIZE_LOG else ldm_bucketSizeLog p in
  let mm := if ldm_minMatch p =? 0 then c_LDM_MIN_MATCH_LENGTH else ldm_minMatch p in
  let hl := if ldm_hashLog p =? 0 then N.max c_ZSTD_HASHLOG_MIN (w - c_LDM_HASH_RLOG) else ldm_hashLog p in
  let hr := if ldm_hashRateLog p =? 0 then (if w <? hl then 0 else w - hl) else ldm_hashRateLog p in
  mkLdm (ldm_enable p) hl (N.min bsl hl) mm hr w.

Definition ldm_enabled (p : ldmparams) : bool := ps_eqb (ldm_enable p) PsEnable.

(* ZSTD_ldm_getTableSize *)
Definition ldm_getTableSize (rz : N) (p : ldmparams) : N :=
  if ldm_enabled p then
    let ldmHSize := 2 ^ ldm_hashLog p in
    let bsl := N.min (ldm_bucketSizeLog p) (ldm_hashLog p) in
    let ldmBucketSize := 2 ^ (ldm_hashLog p - bsl) in
    alloc_size rz ldmBucketSize + alloc_size rz (ldmHSize * sizeof_ldmEntry_t)
  else 0.

(* ZSTD_ldm_getMaxNbSeq (C divides by minMatchLength: 0 there is a crash; N division gives 0) *)
Definition ldm_getMaxNbSeq (p : ldmparams) (maxChunkSize : N) : N :=
  if ldm_enabled p then maxChunkSize / ldm_minMatch p else 0.

(* ------------------------------------------------------------------ *)
(* ESTIMATE side *)

Definition optPotentialSpace (rz : N) : N :=
    aligned64_alloc_size rz ((c_MaxML + 1) * sizeof_U32)
  + aligned64_alloc_size rz ((c_MaxLL + 1) * sizeof_U32)
  + aligned64_alloc_size rz ((c_MaxOff + 1) * sizeof_U32)
  + aligned64_alloc_size rz ((2 ^ c_Litbits) * sizeof_U32)
  + aligned64_alloc_size rz (c_ZSTD_OPT_SIZE * sizeof_ZSTD_match_t)
  + aligned64_alloc_size rz (c_ZSTD_OPT_SIZE * sizeof_ZSTD_optimal_t).

Definition hashLog3_of (cp : cparams) (forCCtx : bool) : N :=
  if forCCtx && (mml cp =? 3) then N.min c_ZSTD_HASHLOG3_MAX (wlog cp) else 0.

(* ZSTD_sizeof_matchState *)
Definition sizeof_matchState (rz : N) (cp : cparams) (row : pswitch) (dds forCCtx : bool) : N :=
  let chainSize := if allocateChainTable (strat cp) row (dds && negb forCCtx) then 2 ^ clog cp else 0 in
  let hSize := 2 ^ hlog cp in
  let hashLog3 := hashLog3_of cp forCCtx in
  let h3Size := if hashLog3 =? 0 then 0 else 2 ^ hashLog3 in
  let tableSpace := chainSize * sizeof_U32 + hSize * sizeof_U32 + h3Size * sizeof_U32 in
  let lazyAdditionalSpace := if rowMatchFinderUsed (strat cp) row then aligned64_alloc_size rz hSize else 0 in
  let optSpace := if forCCtx && (c_ZSTD_btopt <=? strat cp) then optPotentialSpace rz else 0 in
  tableSpace + optSpace + slack_space_required + lazyAdditionalSpace.

(* ZSTD_maxNbSeq *)
Definition maxNbSeq_of (blockSize minMatch : N) (useSeqProd : bool) : N :=
  blockSize / (if (minMatch =? 3) || useSeqProd then 3 else 4).

(* ZSTD_sequenceBound *)
Definition sequenceBound (srcSize : N) : N :=
  (srcSize / c_ZSTD_MINMATCH_MIN + 1) + (srcSize / c_ZSTD_BLOCKSIZE_MAX_MIN + 1).

(* ZSTD_COMPRESSBOUND *)
Definition compressBound (n : N) : N :=
  if c_ZSTD_MAX_INPUT_SIZE <=? n then 0
  else n + n / 256 + (if n <? 128 * 1024 then (128 * 1024 - n) / 2048 else 0).

Definition windowSize_of (cp : cparams) (pledged : N) : N := N.max 1 (N.min (2 ^ wlog cp) pledged).

(* ZSTD_estimateCCtxSize_usingCCtxParams_internal *)
Definition estimate_internal (rz : N) (cp : cparams) (ldm : ldmparams) (isStatic : bool) (row : pswitch)
           (buffInSize buffOutSize pledged : N) (useSeqProd : bool) (maxBlockSize : N) : N :=
  let windowSize := windowSize_of cp pledged in
  let blockSize := N.min (resolveMaxBlockSize maxBlockSize) windowSize in
  let maxNbSeq := maxNbSeq_of blockSize (mml cp) useSeqProd in
  let tokenSpace := alloc_size rz (c_WILDCOPY_OVERLENGTH + blockSize)
                  + aligned64_alloc_size rz (maxNbSeq * sizeof_seqDef)
                  + 3 * alloc_size rz maxNbSeq in
  let tmpWorkSpace := alloc_size rz c_TMP_WORKSPACE_SIZE in
  let blockStateSpace := 2 * alloc_size rz sizeof_ZSTD_compressedBlockState_t in
  let matchStateSize := sizeof_matchState rz cp row false true in
  let ldmSpace := ldm_getTableSize rz ldm in
  let maxNbLdmSeq := ldm_getMaxNbSeq ldm blockSize in
  let ldmSeqSpace := if ldm_enabled ldm then aligned64_alloc_size rz (maxNbLdmSeq * sizeof_rawSeq) else 0 in
  let bufferSpace := alloc_size rz buffInSize + alloc_size rz buffOutSize in
  let cctxSpace := if isStatic then alloc_size rz sizeof_ZSTD_CCtx else 0 in
  let externalSeqSpace := if useSeqProd then aligned64_alloc_size rz (sequenceBound blockSize * sizeof_ZSTD_Sequence) else 0 in
  cctxSpace + tmpWorkSpace + blockStateSpace + ldmSpace + ldmSeqSpace + matchStateSize + tokenSpace
  + bufferSpace + externalSeqSpace.

(* ZSTD_CCtx_params, the fields that matter for sizing *)
Record cctxparams := mkPP {
  p_level : Z;
  p_cp : cparams;            (* overrides: 0 = not set *)
  p_row : pswitch;
  p_ldm : ldmparams;         (* raw user values: 0 = default *)
  p_maxBlockSize : N;        (* 0 = default *)
  p_extSeq : bool;
  p_inBuffered : bool;       (* inBufferMode == ZSTD_bm_buffered *)
  p_outBuffered : bool;
  p_srcSizeHint : N;
  p_nbWorkers : N }.

Definition override1 (o d : N) : N := if o =? 0 then d else o.
Definition overrideCParams (cp ov : cparams) : cparams :=
  mkCP (override1 (wlog ov) (wlog cp)) (override1 (clog ov) (clog cp)) (override1 (hlog ov) (hlog cp))
       (override1 (slog ov) (slog cp)) (override1 (mml ov) (mml cp)) (override1 (tlen ov) (tlen cp))
       (override1 (strat ov) (strat cp)).

(* ZSTD_getCParamsFromCCtxParams *)
Definition getCParamsFromCCtxParams (p : cctxparams) (srcSizeHint dictSize : N) (mode : cpmode) : cparams :=
  let hint := if (srcSizeHint =? UNKNOWN) && (0 <? p_srcSizeHint p) then p_srcSizeHint p else srcSizeHint in
  let cp0 := getCParams_internal (p_level p) hint dictSize mode in
  let cp1 := if ldm_enabled (p_ldm p)
             then mkCP c_ZSTD_LDM_DEFAULT_WINDOW_LOG (clog cp0) (hlog cp0) (slog cp0) (mml cp0) (tlen cp0) (strat cp0)
             else cp0 in
  adjustCParams_internal (overrideCParams cp1 (p_cp p)) hint dictSize mode (p_row p).

(* ZSTD_resolveLdmParamsForEstimate (fix: commit 3759955) *)
Definition resolveLdmParamsForEstimate (p : cctxparams) (cp : cparams) : ldmparams :=
  let l := p_ldm p in
  let e := resolveEnableLdm (ldm_enable l) cp in
  let l1 := mkLdm e (ldm_hashLog l) (ldm_bucketSizeLog l) (ldm_minMatch l) (ldm_hashRateLog l) (ldm_windowLog l) in
  if ps_eqb e PsEnable then ldm_adjustParameters l1 cp else l1.

(* results: None models an error code (nbWorkers >= 1) *)
Definition estimateCCtxSize_usingCCtxParams (rz : N) (p : cctxparams) : option N :=
  let cp := getCParamsFromCCtxParams p UNKNOWN 0 CpmNoAttachDict in
  let row := resolveRowMatchFinderMode (p_row p) cp in
  let ldm := resolveLdmParamsForEstimate p cp in
  if 0 <? p_nbWorkers p then None
  else Some (estimate_internal rz cp ldm true row 0 0 UNKNOWN (p_extSeq p) (p_maxBlockSize p)).

Definition estimateCStreamSize_usingCCtxParams (rz : N) (p : cctxparams) : option N :=
  if 0 <? p_nbWorkers p then None else
  let cp := getCParamsFromCCtxParams p UNKNOWN 0 CpmNoAttachDict in
  let blockSize := N.min (resolveMaxBlockSize (p_maxBlockSize p)) (2 ^ wlog cp) in
  let inBuffSize := if p_inBuffered p then 2 ^ wlog cp + blockSize else 0 in
  let outBuffSize := if p_outBuffered p then compressBound blockSize + 1 else 0 in
  let row := resolveRowMatchFinderMode (p_row p) cp in     (* fix: commit d7c9e82 *)
  let ldm := resolveLdmParamsForEstimate p cp in
  Some (estimate_internal rz cp ldm true row inBuffSize outBuffSize UNKNOWN (p_extSeq p) (p_maxBlockSize p)).

(* ZSTD_makeCCtxParamsFromCParams *)
Definition makeCCtxParamsFromCParams (cp : cparams) : cctxparams :=
  let e := resolveEnableLdm PsAuto cp in
  let l := if ps_eqb e PsEnable then ldm_adjustParameters (ldm_zero e) cp else ldm_zero e in
  mkPP (Z.of_N c_ZSTD_CLEVEL_DEFAULT) cp (resolveRowMatchFinderMode PsAuto cp) l c_ZSTD_BLOCKSIZE_MAX
       false true true 0 0.

Definition with_row (p : cctxparams) (r : pswitch) : cctxparams :=
  mkPP (p_level p) (p_cp p) r (p_ldm p) (p_maxBlockSize p) (p_extSeq p) (p_inBuffered p) (p_outBuffered p)
       (p_srcSizeHint p) (p_nbWorkers p).

Definition oget (o : option N) : N := match o with Some x => x | None => 0 end.

Definition estimateCCtxSize_usingCParams (rz : N) (cp : cparams) : N :=
  let p := makeCCtxParamsFromCParams cp in
  if rowMatchFinderSupported (strat cp)
  then N.max (oget (estimateCCtxSize_usingCCtxParams rz (with_row p PsDisable)))
             (oget (estimateCCtxSize_usingCCtxParams rz (with_row p PsEnable)))
  else oget (estimateCCtxSize_usingCCtxParams rz p).

Definition estimateCStreamSize_usingCParams (rz : N) (cp : cparams) : N :=
  let p := makeCCtxParamsFromCParams cp in
  if rowMatchFinderSupported (strat cp)
  then N.max (oget (estimateCStreamSize_usingCCtxParams rz (with_row p PsDisable)))
             (oget (estimateCStreamSize_usingCCtxParams rz (with_row p PsEnable)))
  else oget (estimateCStreamSize_usingCCtxParams rz p).

Definition srcSizeTiers : list N := [16 * 1024; 128 * 1024; 256 * 1024; UNKNOWN].

Definition estimateCCtxSize_internal (rz : N) (lvl : Z) : N :=
  fold_left (fun acc s => N.max (estimateCCtxSize_usingCParams rz (getCParams_internal lvl s 0 CpmNoAttachDict)) acc)
            srcSizeTiers 0.

Definition estimateCStreamSize_internal (rz : N) (lvl : Z) : N :=
  estimateCStreamSize_usingCParams rz (getCParams_internal lvl UNKNOWN 0 CpmNoAttachDict).

(* for (level = MIN(compressionLevel, 1); level <= compressionLevel; level++) *)
Definition level_range (lvl : Z) : list Z :=
  let lo := Z.min lvl 1 in map (fun i => (lo + Z.of_nat i)%Z) (seq 0 (Z.to_nat (lvl - lo + 1))).

Definition estimateCCtxSize (rz : N) (lvl : Z) : N :=
  fold_left (fun acc l => N.max acc (estimateCCtxSize_internal rz l)) (level_range lvl) 0.
Definition estimateCStreamSize (rz : N) (lvl : Z) : N :=
  fold_left (fun acc l => N.max acc (estimateCStreamSize_internal rz l)) (level_range lvl) 0.

(* ZSTD_estimateCDictSize_advanced / ZSTD_estimateCDictSize *)
Definition estimateCDictSize_advanced (rz : N) (dictSize : N) (cp : cparams) (byRef : bool) : N :=
    alloc_size rz sizeof_ZSTD_CDict + alloc_size rz c_HUF_WORKSPACE_SIZE
  + sizeof_matchState rz cp (resolveRowMatchFinderMode PsAuto cp) true false
  + (if byRef then 0 else alloc_size rz (align_up dictSize sizeof_ptr)).

Definition estimateCDictSize (rz : N) (dictSize : N) (lvl : Z) : N :=
  estimateCDictSize_advanced rz dictSize (getCParams_internal lvl UNKNOWN dictSize CpmCreateCDict) false.

(* ------------------------------------------------------------------ *)
(* RESERVATION side *)

(* ZSTD_reset_matchState: forCCtx = (forWho == ZSTD_resetTarget_CCtx); msDDS = ms->dedicatedDictSearch *)
Definition matchState_ops (cp : cparams) (row : pswitch) (forCCtx msDDS resetIndex makeClean : bool) : list op :=
  let chainSize := if allocateChainTable (strat cp) row (msDDS && negb forCCtx) then 2 ^ clog cp else 0 in
  let hSize := 2 ^ hlog cp in
  let hashLog3 := hashLog3_of cp forCCtx in
  let h3Size := if hashLog3 =? 0 then 0 else 2 ^ hashLog3 in
  (if resetIndex then [OMarkDirty] else [])
  ++ [OClearTables; OTable (hSize * sizeof_U32); OTable (chainSize * sizeof_U32); OTable (h3Size * sizeof_U32)]
  ++ (if makeClean then [OCleanTables] else [])
  ++ (if rowMatchFinderUsed (strat cp) row then [if forCCtx then OInitOnce hSize else OAligned hSize] else [])
  ++ (if forCCtx && (c_ZSTD_btopt <=? strat cp) then
        [OAligned ((2 ^ c_Litbits) * sizeof_U32); OAligned ((c_MaxLL + 1) * sizeof_U32);
         OAligned ((c_MaxML + 1) * sizeof_U32); OAligned ((c_MaxOff + 1) * sizeof_U32);
         OAligned (c_ZSTD_OPT_SIZE * sizeof_ZSTD_match_t); OAligned (c_ZSTD_OPT_SIZE * sizeof_ZSTD_optimal_t)]
      else []).

(* the reservations of ZSTD_resetCCtx_internal after the size gate; [ldm] is the ADJUSTED ldm parameter set,
   [maxBlockSize] the RESOLVED one (asserted != 0 in the code), [zbuff] = ZSTDb_buffered *)
Definition resetCCtx_ops (cp : cparams) (ldm : ldmparams) (row : pswitch) (buffInSize buffOutSize pledged : N)
           (useSeqProd : bool) (maxBlockSize : N) (resetIndex makeClean : bool) : list op :=
  let windowSize := N.max 1 (N.min (2 ^ wlog cp) pledged) in
  let blockSize := N.min maxBlockSize windowSize in
  let maxNbSeq := maxNbSeq_of blockSize (mml cp) useSeqProd in
  let maxNbLdmSeq := ldm_getMaxNbSeq ldm blockSize in
  [OClear]
  ++ matchState_ops cp row true false resetIndex makeClean
  ++ [OAligned (maxNbSeq * sizeof_seqDef)]
  ++ (if ldm_enabled ldm then [OAligned (2 ^ ldm_hashLog ldm * sizeof_ldmEntry_t); OAligned (maxNbLdmSeq * sizeof_rawSeq)] else [])
  ++ (if useSeqProd then [OAligned (sequenceBound blockSize * sizeof_ZSTD_Sequence)] else [])
  ++ [OBuffer (blockSize + c_WILDCOPY_OVERLENGTH); OBuffer buffInSize; OBuffer buffOutSize]
  ++ (if ldm_enabled ldm then [OBuffer (2 ^ (ldm_hashLog ldm - ldm_bucketSizeLog ldm))] else [])
  ++ [OBuffer maxNbSeq; OBuffer maxNbSeq; OBuffer maxNbSeq].

(* buffer sizes computed by ZSTD_resetCCtx_internal itself *)
Definition reset_buffInSize (cp : cparams) (pledged maxBlockSize : N) (buffered inBuffered : bool) : N :=
  let windowSize := N.max 1 (N.min (2 ^ wlog cp) pledged) in
  if buffered && inBuffered then windowSize + N.min maxBlockSize windowSize else 0.
Definition reset_buffOutSize (cp : cparams) (pledged maxBlockSize : N) (buffered outBuffered : bool) : N :=
  let windowSize := N.max 1 (N.min (2 ^ wlog cp) pledged) in
  if buffered && outBuffered then compressBound (N.min maxBlockSize windowSize) + 1 else 0.

(* objects reserved by ZSTD_initStaticCCtx (static) / by the resize branch of ZSTD_resetCCtx_internal (heap) *)
Definition static_objects : list op :=
  [OObject sizeof_ZSTD_CCtx; OObject sizeof_ZSTD_compressedBlockState_t; OObject sizeof_ZSTD_compressedBlockState_t;
   OObject c_TMP_WORKSPACE_SIZE].
Definition heap_objects : list op :=
  [OObject sizeof_ZSTD_compressedBlockState_t; OObject sizeof_ZSTD_compressedBlockState_t; OObject c_TMP_WORKSPACE_SIZE].

Inductive init_result := InitNull | InitOk (w : cwksp) (log : list entry).

(* ZSTD_initStaticCCtx *)
Definition initStaticCCtx (rz start size : N) : init_result :=
  if size <=? sizeof_ZSTD_CCtx then InitNull
  else if negb (start mod 8 =? 0) then InitNull
  else
    let w0 := init start size true in
    let '(w1, r1) := reserve_object rz w0 sizeof_ZSTD_CCtx in
    match r1 with
    | None => InitNull
    | Some _ =>
      if negb (check_available w1 (c_TMP_WORKSPACE_SIZE + 2 * sizeof_ZSTD_compressedBlockState_t)) then InitNull
      else let '(w2, l2) := run rz w1 (tl static_objects) in InitOk w2 ((r1, sizeof_ZSTD_CCtx) :: l2)
    end.

Inductive reset_result := ResetMemError | ResetDone (w : cwksp) (log : list entry) | ResetResize (neededSpace : N).

(* ZSTD_resetCCtx_internal on a context that already has a workspace [w]:
   gate (workspaceTooSmall; the "wasteful" shrink only applies to heap contexts and is not modelled here),
   then the reservation list. *)
Definition resetCCtx_static (rz : N) (w : cwksp) (cp : cparams) (ldm : ldmparams) (row : pswitch)
           (pledged : N) (useSeqProd : bool) (maxBlockSize : N) (buffered inBuffered outBuffered : bool)
           (resetIndex makeClean : bool) : reset_result :=
  let ldmA := if ldm_enabled ldm then ldm_adjustParameters ldm cp else ldm in
  let bin := reset_buffInSize cp pledged maxBlockSize buffered inBuffered in
  let bout := reset_buffOutSize cp pledged maxBlockSize buffered outBuffered in
  let needed := estimate_internal rz cp ldmA (is_static w) row bin bout pledged useSeqProd maxBlockSize in
  if cwksp_sizeof w <? needed then (if is_static w then ResetMemError else ResetResize needed)
  else let '(w', log) := run rz w (resetCCtx_ops cp ldmA row bin bout pledged useSeqProd maxBlockSize resetIndex makeClean) in
       ResetDone w' log.

(* CDict: ZSTD_initStaticCDict / ZSTD_createCDict_advanced_internal + ZSTD_initCDict_internal *)
Definition cdict_ops (cp : cparams) (row : pswitch) (dictSize : N) (byRef msDDS : bool) : list op :=
  [OObject sizeof_ZSTD_CDict]
  ++ (if byRef || (dictSize =? 0) then [] else [OObject (align_up dictSize sizeof_ptr)])
  ++ [OObject c_HUF_WORKSPACE_SIZE]
  ++ matchState_ops cp row false msDDS true true.

(* neededSize of ZSTD_initStaticCDict (== the estimate) *)
Definition staticCDict_needed (rz : N) (cp : cparams) (dictSize : N) (byRef : bool) : N :=
  estimateCDictSize_advanced rz dictSize cp byRef.

Definition initStaticCDict (rz start size : N) (cp : cparams) (dictSize : N) (byRef : bool) : init_result :=
  if negb (start mod 8 =? 0) then InitNull else
  let row := resolveRowMatchFinderMode PsAuto cp in
  let w0 := init start size true in
  let '(w1, r1) := reserve_object rz w0 sizeof_ZSTD_CDict in
  match r1 with
  | None => InitNull
  | Some _ =>
    if size <? staticCDict_needed rz cp dictSize byRef then InitNull
    else let '(w2, l2) := run rz w1 (tl (cdict_ops cp row dictSize byRef false)) in
         if allocFailed w2 then InitNull else InitOk w2 ((r1, sizeof_ZSTD_CDict) :: l2)
  end.

(* workspace size malloc'ed by ZSTD_createCDict_advanced_internal *)
Definition createCDict_workspaceSize (rz : N) (cp : cparams) (row : pswitch) (dictSize : N) (byRef dds : bool) : N :=
    alloc_size rz sizeof_ZSTD_CDict + alloc_size rz c_HUF_WORKSPACE_SIZE
  + sizeof_matchState rz cp row dds false
  + (if byRef then 0 else alloc_size rz (align_up dictSize sizeof_ptr)).

(* ------------------------------------------------------------------ *)
(* parameter domains *)

Definition inb (lo x hi : N) : bool := (lo <=? x) && (x <=? hi).

(* ZSTD_checkCParams *)
Definition cparams_in_bounds (cp : cparams) : bool :=
  inb c_ZSTD_WINDOWLOG_MIN (wlog cp) c_ZSTD_WINDOWLOG_MAX && inb c_ZSTD_CHAINLOG_MIN (clog cp) c_ZSTD_CHAINLOG_MAX &&
  inb c_ZSTD_HASHLOG_MIN (hlog cp) c_ZSTD_HASHLOG_MAX && inb c_ZSTD_SEARCHLOG_MIN (slog cp) c_ZSTD_SEARCHLOG_MAX &&
  inb c_ZSTD_MINMATCH_MIN (mml cp) c_ZSTD_MINMATCH_MAX && (tlen cp <=? c_ZSTD_TARGETLENGTH_MAX) &&
  inb c_ZSTD_STRATEGY_MIN (strat cp) c_ZSTD_STRATEGY_MAX.

(* user-settable LDM values: 0 (= default) or inside the bounds of ZSTD_cParam_getBounds *)
Definition zero_or (lo x hi : N) : bool := (x =? 0) || inb lo x hi.
Definition ldm_user_ok (l : ldmparams) : bool :=
  zero_or c_ZSTD_LDM_HASHLOG_MIN (ldm_hashLog l) c_ZSTD_LDM_HASHLOG_MAX &&
  zero_or c_ZSTD_LDM_BUCKETSIZELOG_MIN (ldm_bucketSizeLog l) c_ZSTD_LDM_BUCKETSIZELOG_MAX &&
  zero_or c_ZSTD_LDM_MINMATCH_MIN (ldm_minMatch l) c_ZSTD_LDM_MINMATCH_MAX &&
  (ldm_hashRateLog l <=? c_ZSTD_LDM_HASHRATELOG_MAX).

(* ------------------------------------------------------------------ *)
(* whole sessions on a static context (what the correspondence harness executes) *)

Definition ldm_with_enable (l : ldmparams) (e : pswitch) : ldmparams :=
  mkLdm e (ldm_hashLog l) (ldm_bucketSizeLog l) (ldm_minMatch l) (ldm_hashRateLog l) (ldm_windowLog l).

(* ZSTD_CCtx_init_compressStream2 (no dictionary, nbWorkers = 0): the parameters handed to ZSTD_resetCCtx_internal *)
Definition stream2_params (p : cctxparams) (pledged : N) : cparams * ldmparams * pswitch * N :=
  let cp := getCParamsFromCCtxParams p pledged 0 CpmNoAttachDict in
  (cp, ldm_with_enable (p_ldm p) (resolveEnableLdm (ldm_enable (p_ldm p)) cp),
   resolveRowMatchFinderMode (p_row p) cp, resolveMaxBlockSize (p_maxBlockSize p)).

(* ZSTD_compress_usingDict (ZSTD_compressCCtx): parameters from the level and the source size *)
Definition simple_params (lvl : Z) (srcSize : N) : cparams * ldmparams * pswitch * N :=
  let cp := getCParams_internal lvl srcSize 0 CpmNoAttachDict in
  (cp, ldm_zero (resolveEnableLdm PsAuto cp), resolveRowMatchFinderMode PsAuto cp, c_ZSTD_BLOCKSIZE_MAX).

Inductive session_result := SessNull | SessMemError | SessDone (w : cwksp) (log : list entry).

Definition static_session (rz start size : N) (prm : cparams * ldmparams * pswitch * N) (pledged : N)
           (useSeqProd buffered inBuffered outBuffered : bool) : session_result :=
  match initStaticCCtx rz start size with
  | InitNull => SessNull
  | InitOk w l0 =>
    let '(cp, l, row, mbs) := prm in
    match resetCCtx_static rz w cp l row pledged useSeqProd mbs buffered inBuffered outBuffered true true with
    | ResetDone w' l1 => SessDone w' (l0 ++ l1)
    | _ => SessMemError
    end
  end.

(* ZSTD_compress2 / ZSTD_compressStream2 on a static context; oneShot = ZSTD_compress2 (stable in/out buffers) *)
Definition static_stream2_session (rz start size : N) (p : cctxparams) (pledged : N) (oneShot : bool) : session_result :=
  static_session rz start size (stream2_params p pledged) pledged (p_extSeq p) true
                 (negb oneShot && p_inBuffered p) (negb oneShot && p_outBuffered p).

(* ZSTD_compressCCtx on a static context *)
Definition static_simple_session (rz start size : N) (lvl : Z) (srcSize : N) : session_result :=
  static_session rz start size (simple_params lvl srcSize) srcSize false false false false.
