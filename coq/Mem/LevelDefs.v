(* C14 - definitions for the level / source-size sweep (no proofs): source-size classes, needs of a session. *)
From Coq Require Import NArith ZArith List Bool.
From ZV.Gen Require Import Gen_C14.
From ZV.Mem Require Import Cwksp Estimate.
Import ListNotations.
Local Open Scope N_scope.

(* what ZSTD_adjustCParams_internal (dictSize = 0) retains of the source size *)
Inductive sclass := ClsLog (k : N) | ClsBig | ClsUnknown.

Definition cls_of (s : N) : sclass :=
  if s =? UNKNOWN then ClsUnknown else match srcLog_of s 0 with Some k => ClsLog k | None => ClsBig end.

Definition adjust_cls (cp : cparams) (c : sclass) (row : pswitch) : cparams :=
  adjust_core cp (match c with ClsLog k => Some k | _ => None end) (match c with ClsUnknown => false | _ => true end)
              (fun w => w) CpmNoAttachDict row.

Definition tier_cls (c : sclass) : N :=
  match c with ClsLog k => b2n (k <=? 18) + b2n (k <=? 17) + b2n (k <=? 14) | _ => 0 end.

Definition all_classes : list sclass := ClsUnknown :: ClsBig :: map (fun n => ClsLog (N.of_nat n)) (seq 6 25).

(* the neededSpace that ZSTD_resetCCtx_internal computes for a static context *)
Definition session_need (rz : N) (prm : cparams * ldmparams * pswitch * N) (pledged : N)
           (ext buffered inb outb : bool) : N :=
  let '(cp, l, row, mbs) := prm in
  estimate_internal rz cp (if ldm_enabled l then ldm_adjustParameters l cp else l) true row
                    (reset_buffInSize cp pledged mbs buffered inb) (reset_buffOutSize cp pledged mbs buffered outb)
                    pledged ext mbs.

(* parameters as a function of (table row, class) *)
Definition simple_params_cls (r : N) (c : sclass) : cparams * ldmparams * pswitch * N :=
  let cp := adjust_cls (table_cp (tier_cls c) r) c PsAuto in
  (cp, ldm_zero (resolveEnableLdm PsAuto cp), resolveRowMatchFinderMode PsAuto cp, c_ZSTD_BLOCKSIZE_MAX).

Definition stream2_params_cls (r : N) (c : sclass) : cparams * ldmparams * pswitch * N :=
  let cp := adjust_cls (adjust_cls (table_cp (tier_cls c) r) c PsAuto) c PsAuto in
  (cp, ldm_zero (resolveEnableLdm PsAuto cp), resolveRowMatchFinderMode PsAuto cp, c_ZSTD_BLOCKSIZE_MAX).

(* level-only CCtx_params: what ZSTD_CCtx_setParameter(ZSTD_c_compressionLevel, l) leaves in requestedParams *)
Definition zero_cp : cparams := mkCP 0 0 0 0 0 0 0.
Definition level_pp (l : Z) : cctxparams := mkPP l zero_cp PsAuto (ldm_zero PsAuto) 0 false true true 0 0.

(* needs of the three documented operations at level l, source size s *)
Definition need_simple (rz : N) (l : Z) (s : N) : N :=           (* ZSTD_compressCCtx *)
  session_need rz (simple_params l s) s false false false false.
Definition need_compress2 (rz : N) (l : Z) (s : N) : N :=        (* ZSTD_compress2: stable buffers *)
  session_need rz (stream2_params (level_pp l) s) s false true false false.
Definition need_stream (rz : N) (l : Z) (s : N) : N :=           (* ZSTD_compressStream2, buffered *)
  session_need rz (stream2_params (level_pp l) s) s false true true true.

Definition need_simple_cls (rz r : N) (c : sclass) : N := session_need rz (simple_params_cls r c) UNKNOWN false false false false.
Definition need_compress2_cls (rz r : N) (c : sclass) : N := session_need rz (stream2_params_cls r c) UNKNOWN false true false false.
Definition need_stream_cls (rz r : N) (c : sclass) : N := session_need rz (stream2_params_cls r c) UNKNOWN false true true true.

Definition rows : list N := map N.of_nat (seq 0 23).

Definition sweep_oneshot (rz : N) : bool :=
  forallb (fun r => forallb (fun c =>
     (need_simple_cls rz r c <=? estimateCCtxSize_internal rz (Z.of_N r)) &&
     (need_compress2_cls rz r c <=? estimateCCtxSize_internal rz (Z.of_N r))) all_classes) (tl rows).

Definition sweep_stream (rz : N) : bool :=
  forallb (fun r => forallb (fun c => need_stream_cls rz r c <=? estimateCStreamSize_internal rz (Z.of_N r)) all_classes) (tl rows).

(* counterexample finder for diagnostics *)
Definition sweep_stream_fail (rz : N) : list (N * sclass * N * N) :=
  flat_map (fun r => flat_map (fun c =>
     let a := need_stream_cls rz r c in let b := estimateCStreamSize_internal rz (Z.of_N r) in
     if a <=? b then [] else [(r, c, a, b)]) all_classes) (tl rows).
Definition sweep_oneshot_fail (rz : N) : list (N * sclass * N * N) :=
  flat_map (fun r => flat_map (fun c =>
     let a := N.max (need_simple_cls rz r c) (need_compress2_cls rz r c) in let b := estimateCCtxSize_internal rz (Z.of_N r) in
     if a <=? b then [] else [(r, c, a, b)]) all_classes) (tl rows).

(* negative levels use table row 0 (with another targetLength): row 0 against the estimate of level 1 *)
Definition sweep_neg (rz : N) : bool :=
  forallb (fun c =>
     (need_simple_cls rz 0 c <=? estimateCCtxSize_internal rz 1) &&
     (need_compress2_cls rz 0 c <=? estimateCCtxSize_internal rz 1) &&
     (need_stream_cls rz 0 c <=? estimateCStreamSize_internal rz 1)) all_classes.
