(* C13 (round 2) - the history lemmas of AllocHistory.v for an arbitrary family of operations: a type [O] of operations and
   the program [cl op] a well-behaved caller runs for each of them (never "returning" out of the caller's sequence).  Same
   proofs as AllocHistory.v, which is specialised to the operations of AllocInstances.v. *)
From Coq Require Import NArith List Bool Arith Lia.
From ZV.Mem Require Import AllocDsl AllocProofs AllocSet AllocSetProofs.
Import ListNotations.

Section Generic.
Variable O : Type.
Variable cl : O -> prog.
Hypothesis cl_noret : forall o op s, snd (run o (cl op) s) = false.

Fixpoint gsession (ops : list O) : prog :=
  match ops with
  | [] => Skip
  | o :: r => Seq (cl o) (Seq Forget (gsession r))
  end.

Lemma grun_seq_noret : forall o p q s, snd (run o p s) = false -> run o (Seq p q) s = run o q (fst (run o p s)).
Proof. intros o p q s H. cbn [run]. destruct (run o p s) as [s1 r]. cbn in *. subst r. reflexivity. Qed.

Lemma gsession_noret : forall o ops s, snd (run o (gsession ops) s) = false.
Proof.
  intros o. induction ops as [|op r IH]; intros s; [reflexivity|].
  cbn [gsession]. rewrite grun_seq_noret by apply cl_noret. rewrite grun_seq_noret by reflexivity. apply IH.
Qed.

Lemma ghistory_inv : forall fuel (okop : O -> bool) St P,
  (forall op, okop op = true -> closedSF fuel St P (cl op) = true) ->
  forall ops, forallb okop ops = true -> forall o a s, In a St -> G a s ->
  exists a', In a' St /\ G a' (fst (run o (gsession ops) s)).
Proof.
  intros fuel okop St P Hc. induction ops as [|op r IH]; intros Hok o a s Ha HG.
  - exists a. split; assumption.
  - cbn in Hok. apply andb_true_iff in Hok. destruct Hok as [H1 H2].
    cbn [gsession]. rewrite grun_seq_noret by apply cl_noret. rewrite grun_seq_noret by reflexivity.
    destruct (closedSF_sound fuel St P _ (Hc op H1) a s o Ha HG) as [a1 [_ [_ [a2 [A B]]]]].
    apply (IH H2 o a2 _ A B).
Qed.

Lemma ghistory_last : forall fuel (okop : O -> bool) St P,
  (forall op, okop op = true -> closedSF fuel St P (cl op) = true) ->
  forall ops op, forallb okop ops = true -> okop op = true -> forall o a s, In a St -> G a s ->
  exists a', P a' = true /\ G a' (fst (run o (Seq (gsession ops) (cl op)) s)).
Proof.
  intros fuel okop St P Hc ops op Hok Hop o a s Ha HG.
  rewrite grun_seq_noret by apply gsession_noret.
  destruct (ghistory_inv fuel okop St P Hc ops Hok o a s Ha HG) as [a1 [A B]].
  destruct (closedSF_sound fuel St P _ (Hc op Hop) a1 _ o A B) as [a2 [C [D _]]].
  exists a2. split; assumption.
Qed.

Lemma gfrom_set_sound : forall fuel St P p, all_res P (aexecS fuel true p St) = true ->
  forall a s o, In a St -> G a s -> exists a', P a' = true /\ G a' (fst (run o p s)).
Proof.
  intros fuel St P p H a s o Ha HG.
  destruct (aexecS fuel true p St) as [[N R]|] eqn:E; [|discriminate].
  destruct (all_res_spec _ _ N R H eq_refl) as [HN HR].
  destruct (aexecS_sound fuel true o (no_canfail o) p St N R a s E Ha HG) as [a1 [A B]].
  exists a1. split; [|exact A]. destruct (snd (run o p s)); auto.
Qed.
Lemma gfrom_set_sound_nofail : forall fuel St P p, all_res P (aexecS fuel false p St) = true ->
  forall a s o, (forall k, fails o k = false) -> In a St -> G a s -> exists a', P a' = true /\ G a' (fst (run o p s)).
Proof.
  intros fuel St P p H a s o Hnf Ha HG.
  destruct (aexecS fuel false p St) as [[N R]|] eqn:E; [|discriminate].
  destruct (all_res_spec _ _ N R H eq_refl) as [HN HR].
  destruct (aexecS_sound fuel false o (fun _ => Hnf) p St N R a s E Ha HG) as [a1 [A B]].
  exists a1. split; [|exact A]. destruct (snd (run o p s)); auto.
Qed.

Lemma ghistory_then_teardown : forall fuel (okop : O -> bool) St P td,
  In ainit St ->
  (forall op, okop op = true -> closedSF fuel St P (cl op) = true) ->
  all_res aclean (aexecS fuel true td St) = true ->
  forall ops, forallb okop ops = true -> forall o,
  let s := fst (run o (Seq (gsession ops) td) init_state) in live s = [] /\ errs s = [].
Proof.
  intros fuel okop St P td Hi Hc Ht ops Hok o. cbn zeta.
  rewrite grun_seq_noret by apply gsession_noret.
  destruct (ghistory_inv fuel okop St P Hc ops Hok o ainit init_state Hi G_init) as [a1 [A B]].
  destruct (gfrom_set_sound fuel St aclean td Ht a1 _ o A B) as [a2 [C D]].
  split; [exact (G_clean_live _ _ D C)|exact (g_errs _ _ D)].
Qed.

Lemma gstatus_of_G : forall a s, G a s -> aerr_iff_fail a = true -> (status s = false <-> 0 < nfail s).
Proof.
  intros a s A B. unfold aerr_iff_fail in B. apply eqb_prop in B. rewrite <- (g_status _ _ A). rewrite B, (g_failed _ _ A).
  destruct (0 <? nfail s) eqn:E; cbn.
  - apply Nat.ltb_lt in E. tauto.
  - apply Nat.ltb_ge in E. split; [discriminate|lia].
Qed.

Lemma ghistory_then_recover : forall fuel (okop : O -> bool) St P Q l again,
  In ainit St ->
  (forall op, okop op = true -> closedSF fuel St P (cl op) = true) ->
  forallb (fun a => match aget a l with ADang => false | _ => true end) St = true ->
  all_res Q (aexecS fuel false again (filter (fun a => match aget a l with AOwn => true | _ => false end) St)) = true ->
  forall ops, forallb okop ops = true -> forall o1 o2, (forall k, fails o2 k = false) ->
  let s1 := fst (run o1 (gsession ops) init_state) in
  sget s1 l <> None ->
  exists a', Q a' = true /\ G a' (fst (run o2 again s1)).
Proof.
  intros fuel okop St P Q l again Hi Hc Hd Hr ops Hok o1 o2 Hnf. cbn zeta. intros Hl.
  destruct (ghistory_inv fuel okop St P Hc ops Hok o1 ainit init_state Hi G_init) as [a1 [A B]].
  assert (Hn : aget a1 l <> ANull) by (intro E; apply Hl; exact (slot_null a1 _ l B E)).
  rewrite forallb_forall in Hd. specialize (Hd a1 A).
  assert (Ho : aget a1 l = AOwn) by (destruct (aget a1 l); [contradiction|reflexivity|discriminate]).
  apply (gfrom_set_sound_nofail fuel _ Q again Hr a1 _ o2 Hnf); [|exact B].
  apply filter_In. split; [exact A|rewrite Ho; reflexivity].
Qed.

End Generic.
