(* C13 (round 2) - theorems about the legacy stream decoders' ownership skeleton (AllocLegacy.v): the REPAIRED code for every
   history / oracle / size, and concrete refutations of the code AS FOUND (the three findings) and of POOL_create_advanced's
   init-error path as found. *)
From Coq Require Import NArith List Bool Arith Lia.
From ZV.Mem Require Import AllocDsl AllocProofs AllocSet AllocSetProofs.
From ZV.Mem Require Import AllocLegacy AllocHistoryG.
Import ListNotations.
Local Open Scope N_scope.

Definition FL := 64%nat.
Definition unoptL (x : option (list astate)) := match x with Some l => l | None => [] end.
Ltac run_analysis := vm_compute; reflexivity.

Lemma lclient_noret : forall rp a b c o op s, snd (run o (lclient rp a b c op) s) = false.
Proof.
  intros rp a b c o op s. destruct op; unfold lclient, lapi; cbn [run].
  - destruct (sget s X_dctx); [reflexivity|]. destruct (run o (lop_prog rp a b c LCreate) _); reflexivity.
  - destruct (run o (lop_prog rp a b c LFree) _); reflexivity.
  - destruct (sget s X_dctx); [|reflexivity]. destruct (run o (lop_prog rp a b c (LStream isz osz)) _); reflexivity.
  - destruct (sget s X_dctx); [|reflexivity]. destruct (run o (lop_prog rp a b c LOneShot) _); reflexivity.
  - destruct (sget s X_dctx); [|reflexivity]. destruct (run o (lop_prog rp a b c (LModern n sz)) _); reflexivity.
Qed.

Definition lany (o : lop) : bool := true.
Lemma lany_all : forall ops, forallb lany ops = true.
Proof. induction ops; [reflexivity|assumption]. Qed.

Definition St_legacy : list astate :=
  Eval vm_compute in unoptL (reachSL FL (map (lclient repaired 0 0 0) (lreps)) ainit).

Lemma legacy_closed : forall a b c op, lany op = true -> closedSF FL St_legacy aerr_iff_fail (lclient repaired a b c op) = true.
Proof. intros a b c op _. destruct op as [| | | |n sz]; try run_analysis. destruct n as [|[p|p|]]; run_analysis. Qed.
Lemma legacy_teardown : forall a b c, all_res aclean (aexecS FL true (lteardown repaired a b c) St_legacy) = true.
Proof. intros. run_analysis. Qed.
Lemma legacy_init : In ainit St_legacy.
Proof. left. reflexivity. Qed.

Theorem legacy_any_history_no_leak_l : forall a b c ops o,
  let s := fst (run o (Seq (gsession lop (lclient repaired a b c) ops) (lteardown repaired a b c)) init_state) in
  live s = [] /\ errs s = [].
Proof.
  intros a b c ops o.
  apply (ghistory_then_teardown lop (lclient repaired a b c) (lclient_noret repaired a b c) FL lany St_legacy _ _ legacy_init (legacy_closed a b c) (legacy_teardown a b c) ops (lany_all ops)).
Qed.

Theorem legacy_any_history_error_iff_failure_l : forall a b c ops op o,
  let s := fst (run o (Seq (gsession lop (lclient repaired a b c) ops) (lclient repaired a b c op)) init_state) in
  status s = false <-> (0 < nfail s)%nat.
Proof.
  intros a b c ops op o. cbn zeta.
  pose proof (lany_all ops) as H.
  destruct (ghistory_last lop (lclient repaired a b c) (lclient_noret repaired a b c) FL lany St_legacy _ (legacy_closed a b c) ops op H eq_refl o ainit init_state legacy_init G_init) as [x [A B]].
  exact (gstatus_of_G _ _ B A).
Qed.

Definition astatus_okL (a : astate) : bool := astatus a.
Lemma legacy_not_dang : forallb (fun a => match aget a X_dctx with ADang => false | _ => true end) St_legacy = true.
Proof. run_analysis. Qed.
Lemma legacy_recover : forall a b c i o, all_res astatus_okL (aexecS FL false (lclient repaired a b c (LStream i o))
   (filter (fun x => match aget x X_dctx with AOwn => true | _ => false end) St_legacy)) = true.
Proof. intros. run_analysis. Qed.

Theorem legacy_reusable_after_any_history_l : forall a b c ops o1 o2, (forall k, fails o2 k = false) -> forall i o,
  let s1 := fst (run o1 (gsession lop (lclient repaired a b c) ops) init_state) in
  sget s1 X_dctx <> None ->
  let s2 := fst (run o2 (lclient repaired a b c (LStream i o)) s1) in
  status s2 = true /\ errs s2 = [].
Proof.
  intros a b c ops o1 o2 Hnf i o. cbn zeta. intros Hl.
  pose proof (lany_all ops) as H.
  destruct (ghistory_then_recover lop (lclient repaired a b c) (lclient_noret repaired a b c) FL lany St_legacy _ astatus_okL X_dctx _
              legacy_init (legacy_closed a b c) legacy_not_dang (legacy_recover a b c i o) ops H o1 o2 Hnf Hl) as [x [A B]].
  split; [rewrite <- (g_status _ _ B); exact A|exact (g_errs _ _ B)].
Qed.

(* ------------------------------------------------------------------ the code as found: concrete refutations *)
Definition run_l (rp : repair) (ops : list lop) (faults : list nat) (choices : list bool) : list nat * list err * bool :=
  let s := fst (run (oracle_of faults choices []) (Seq (gsession lop (lclient rp 1 2 3) ops) (lteardown rp 1 2 3)) init_state) in
  (live s, errs s, status s).

(* finding legacy-stream-stale-buffer-size: create, a legacy frame whose inBuff malloc (4th allocation) fails, the same
   version again: the decoder uses the NULL buffer its recorded size vouches for *)
Lemma legacy_stale_size_refuted :
  (exists e, snd (fst (run_l as_found [LCreate; LStream 10 20; LStream 10 20] [4%nat] [true; false; false; false; false; false])) = e /\ e <> [])
  /\ run_l repaired [LCreate; LStream 10 20; LStream 10 20] [4%nat] [true; false; false; false; false; false] = ([], [], true).
Proof. split; [eexists; split; [vm_compute; reflexivity|discriminate]|vm_compute; reflexivity]. Qed.

(* finding legacy-stream-context-dangling-after-failed-version-switch: a frame of one version, then a frame of another
   version whose context creation fails (5th allocation = the ZBUFF struct), then ZSTD_freeDCtx *)
Lemma legacy_dangling_context_refuted :
  (exists e, snd (fst (run_l as_found [LCreate; LStream 10 20; LStream 10 20] [6%nat] [true; false; false; true; false; false])) = e /\ e <> [])
  /\ run_l repaired [LCreate; LStream 10 20; LStream 10 20] [6%nat] [true; false; false; true; false; false] = ([], [], true).
Proof. split; [eexists; split; [vm_compute; reflexivity|discriminate]|vm_compute; reflexivity]. Qed.

(* finding zbuffv05-create-unchecked-dctx: the inner context (3rd allocation) fails and is not tested *)
Lemma zbuffv05_unchecked_refuted :
  (exists e, snd (fst (run_l as_found [LCreate; LStream 10 20] [3%nat] [true; false; false])) = e /\ e <> [])
  /\ run_l repaired [LCreate; LStream 10 20] [3%nat] [true; false; false] = ([], [], true).
Proof. split; [eexists; split; [vm_compute; reflexivity|discriminate]|vm_compute; reflexivity]. Qed.

(* ------------------------------------------------------------------ POOL_create_advanced, init error path *)
Definition run_y (fixed : bool) (faults : list nat) : list nat * list err * bool :=
  let s := fst (run (oracle_of faults [] []) (Seq Forget (Call 0 (pool_create_y fixed 1 2 3))) init_state) in
  (live s, errs s, status s).

(* finding pool-create-mutex-init-failure: the init of the mutex / conditions (3rd request) fails *)
Lemma pool_init_error_path_refuted :
  (exists e, snd (fst (run_y false [3%nat])) = e /\ In (EForeignFree Y_ctx) e /\ In (EUseDead Y_mutex) e)
  /\ run_y true [3%nat] = ([], [], false).
Proof. split; [eexists; split; [vm_compute; reflexivity|split; cbn; auto 10]|vm_compute; reflexivity]. Qed.

(* the repaired constructor, every oracle: error iff a request failed, nothing owned after an error, no ownership error *)
Lemma pool_create_y_sound : forall a b c o,
  let s := fst (run o (Seq Forget (Call 0 (pool_create_y true a b c))) init_state) in
  errs s = [] /\ (status s = false <-> (0 < nfail s)%nat) /\ (status s = false -> live s = []).
Proof.
  intros a b c o. cbn zeta.
  assert (H : all_res (fun x => aerr_iff_fail x && (astatus x || aclean x)) (aexecS FL true (Seq Forget (Call 0 (pool_create_y true a b c))) [ainit]) = true) by run_analysis.
  destruct (gfrom_set_sound FL [ainit] _ _ H ainit init_state o (or_introl eq_refl) G_init) as [x [A B]].
  apply andb_true_iff in A. destruct A as [A1 A2].
  split; [exact (g_errs _ _ B)|split; [exact (gstatus_of_G _ _ B A1)|]].
  intros Hs. rewrite <- (g_status _ _ B) in Hs. rewrite Hs in A2. cbn in A2. exact (G_clean_live _ _ B A2).
Qed.
