(* C13 - the client side of the all-history theorems: which API operations a history may contain and the
   discipline of the caller (the statement's hypotheses, written as programs).  Definitions only: NO proofs. *)
From Coq Require Import NArith List Bool.
From ZV.Mem Require Import AllocDsl AllocInstances.
Import ListNotations.
Local Open Scope N_scope.

Section Client.
Variable zs : sizes.

(* One step of a well-behaved caller: a constructor is called only into an empty handle (otherwise the caller would
   lose the previous object - its leak, not the library's), an object is used only when its constructor returned
   non-NULL, and the handle is forgotten after the destructor. *)
Definition client (o : op) : prog :=
  match o with
  | OPoolCreate _ _ => IfNull (P_ctx 10) (api zs o) Skip
  | OPoolResize _ _ => IfNull (P_ctx 10) Skip (api zs o)
  | OPoolFree => api zs o ;; SetNull (P_ctx 10)
  | OMtCreate _ => IfNull M_mtctx (api zs o) Skip
  | OMtFree => api zs o ;; SetNull M_mtctx
  | OMtResize _ _ _ _ _ _ => IfNull M_mtctx Skip (api zs o)
  | OCCtxCreate => IfNull K_cctx (api zs o) Skip
  | OCCtxFree => api zs o ;; SetNull K_cctx
  | OLoadDict _ _ | OCompress _ _ _ | OCompressAny _ _ | OCompressMT _ _ _ _ _ _ _ _ _ | ORefCDict | OReset
  | OCompressObs _ _ _ => IfNull K_cctx Skip (api zs o)
  | OCDictCreate k _ => IfNull (CD k) (api zs o) Skip
  | OCDictFree k => api zs o ;; SetNull (CD k)
  | ODCtxCreate => IfNull D_dctx (api zs o) Skip
  | ODCtxFree => api zs o ;; SetNull D_dctx
  | ODLoadDict _ _ | ODStream _ _ | ODStreamAny _ | ORefDDict _ _ | ORefDDictAny _ | ODStreamObs _ _
  | ORefDDictObs _ _ => IfNull D_dctx Skip (api zs o)
  | ODDictCreate k _ _ => IfNull (DD k) (api zs o) Skip
  | ODDictFree k => api zs o ;; SetNull (DD k)
  end.

(* a history: between two calls the caller has read the status registers of the previous one; they are reset
   ([Forget], which every API call starts with anyway) *)
Fixpoint session (ops : list op) : prog :=
  match ops with
  | [] => Skip
  | o :: r => client o ;; Forget ;; session r
  end.

(* which operations a history of each object family may contain (parameters are arbitrary unless restricted here) *)
Definition pool_op (o : op) : bool :=
  match o with
  | OPoolCreate nt _ => negb (nt =? 0)
  | OPoolResize _ n => negb (n =? 0)
  | OPoolFree => true
  | _ => false
  end.
Definition mtctx_op (o : op) : bool :=
  match o with OMtCreate w => negb (w =? 0) | OMtFree => true | OMtResize _ _ _ _ _ w => negb (w =? 0) | _ => false end.
(* histories of a ZSTD_CCtx used with nbWorkers >= 1 (cctx_op) and with nbWorkers = 0 (cctx_st_op); the two sub-objects
   involved (ZSTDMT_CCtx, single-thread workspace) do not interact in the model, their product is not computed *)
Definition cctx_op (o : op) : bool :=
  match o with
  | OCCtxCreate | OCCtxFree | OLoadDict _ _ | OCompressMT _ _ _ _ _ _ _ _ _ | ORefCDict | OReset => true
  | _ => false
  end.
Definition cctx_st_op (o : op) : bool :=
  match o with
  | OCCtxCreate | OCCtxFree | OLoadDict _ _ | OCompressAny _ _ | ORefCDict | OReset => true
  | _ => false
  end.
Definition dctx_op (o : op) : bool :=
  match o with
  | ODCtxCreate | ODCtxFree | ODLoadDict _ _ | ODStreamAny _ | ORefDDictAny _ => true
  | _ => false
  end.
Definition dict_op (o : op) : bool :=
  match o with
  | OCDictCreate k _ | OCDictFree k | ODDictCreate k _ _ | ODDictFree k => k <? 2
  | _ => false
  end.

(* what the caller does at the end *)
Definition teardown_pool : prog := client OPoolFree.
Definition teardown_mtctx : prog := client OMtFree.
Definition teardown_cctx : prog := client OCCtxFree.
Definition teardown_dctx : prog := client ODCtxFree.
Definition teardown_dicts : prog :=
  client (OCDictFree 0) ;; client (OCDictFree 1) ;; client (ODDictFree 0) ;; client (ODDictFree 1).

(* representatives: one operation per program shape (sizes are irrelevant to the shape) *)
Definition pool_reps : list op := [OPoolCreate 1 0; OPoolResize 0 1; OPoolResize 1 1; OPoolFree].
Definition mtctx_resize_reps : list op :=
  flat_map (fun cap => flat_map (fun j => flat_map (fun b => flat_map (fun c => map (fun q => OMtResize cap j b c q 2) [0; 100]) [0; 100]) [0; 100]) [0; 100]) [0; 100].
Definition mtctx_reps : list op := [OMtCreate 1; OMtFree] ++ mtctx_resize_reps.
Definition cctx_reps : list op :=
  [OCCtxCreate; OCCtxFree; OLoadDict false 0; OLoadDict true 0; OCompressMT 0 0 0 0 0 0 0 0 0; ORefCDict; OReset].
Definition cctx_st_reps : list op :=
  [OCCtxCreate; OCCtxFree; OLoadDict false 0; OLoadDict true 0; OCompressAny 0 0; ORefCDict; OReset].
Definition dctx_reps : list op := [ODCtxCreate; ODCtxFree; ODLoadDict false 0; ODLoadDict true 0; ODStreamAny 0; ORefDDictAny 0].
Definition dict_reps : list op :=
  [OCDictCreate 0 0; OCDictFree 0; OCDictCreate 1 0; OCDictFree 1;
   ODDictCreate 0 false 0; ODDictCreate 0 true 0; ODDictFree 0; ODDictCreate 1 false 0; ODDictCreate 1 true 0; ODDictFree 1].

(* any one of the listed operations, chosen by the environment *)
Fixpoint any_of (l : list op) : prog :=
  match l with
  | [] => Skip
  | [o] => client o
  | o :: r => Choice 100 (client o) (any_of r)
  end.

End Client.
