(* C14 round 3 - model of what a heap ZSTD_CCtx OWNS and what ZSTD_sizeof_CCtx REPORTS (lib/compress/zstd_compress.c):
   the workspace (ZSTD_cwksp_create / ZSTD_cwksp_free in ZSTD_resetCCtx_internal: released first, re-created after), the
   local dictionary (ZSTD_CCtx_loadDictionary_advanced: content buffer by copy; ZSTD_initLocalDict: the CDict digested at the
   first compression; ZSTD_clearAllDicts as called by loadDictionary / refPrefix / refCDict / ZSTD_CCtx_reset(parameters)),
   the multithreaded context (created at the first multithreaded session, operated by MtOwner.mt_step, dropped by
   ZSTD_CCtx_refThreadPool when the pool changes: fix 7b3a25e), ZSTD_copyCCtx into this context (the destination keeps its
   allocator: fix a9e689e; its workspace may be replaced), ZSTD_freeCCtx.  Allocation failures included.
   Sizes of the workspace / of the digested CDict are inputs (computed by the sizing code modelled in Estimate.v).
   No proofs in this file. *)
From Coq Require Import NArith List Bool.
From ZV.Mem Require Import DOwner MtOwner.
Import ListNotations.
Local Open Scope N_scope.

Record cown := mkCO {
  co_ws : N;               (* ZSTD_cwksp_sizeof(&cctx->workspace) (0 = none) *)
  co_dictBuf : N;          (* localDict.dictBuffer (by copy): bytes, 0 = none *)
  co_cdict : N;            (* ZSTD_sizeof_CDict(localDict.cdict), 0 = none *)
  co_mt : option mtown }.  (* cctx->mtctx *)

Definition cown0 : cown := mkCO 0 0 0 None.

Inductive cop :=
| CLoadDict (size : N) (byRef ok : bool)   (* ZSTD_CCtx_loadDictionary_advanced *)
| CClearDicts                              (* ZSTD_clearAllDicts: refPrefix / refCDict / reset(parameters) / loadDictionary(NULL) *)
| CInitLocal (bytes : N) (ok : bool)       (* ZSTD_initLocalDict at the first compression after a load: digests the dictionary *)
| CWorkspace (ws : N) (ok : bool)          (* ZSTD_resetCCtx_internal decides to replace the workspace by one of ws bytes (also through ZSTD_copyCCtx) *)
| CMtCreate (n : N) (fs : list bool)       (* first multithreaded session: ZSTDMT_createCCtx_advanced *)
| CMtOp (o : mop)                          (* anything the multithreaded context does (MtOwner) *)
| CMtDrop.                                 (* ZSTD_CCtx_refThreadPool with another pool: ZSTDMT_freeCCtx, mtctx = NULL *)

Definition frees (n : N) : list ev := if n =? 0 then [] else [Free n].

(* ZSTD_clearAllDicts *)
Definition clear_dicts (c : cown) : cown * list ev :=
  (mkCO (co_ws c) 0 0 (co_mt c), frees (co_dictBuf c) ++ frees (co_cdict c)).

Definition c_step (z : mtsz) (c : cown) (o : cop) : cown * mrc * list ev :=
  match o with
  | CLoadDict size byRef ok =>
      let '(c1, e1) := clear_dicts c in
      if (size =? 0) || byRef then (c1, MOk, e1)
      else if ok then (mkCO (co_ws c1) size 0 (co_mt c1), MOk, e1 ++ [Alloc size]) else (c1, MMem, e1)
  | CClearDicts => let '(c1, e1) := clear_dicts c in (c1, MOk, e1)
  | CInitLocal bytes ok =>
      if co_cdict c =? 0 then
        if ok then (mkCO (co_ws c) (co_dictBuf c) bytes (co_mt c), MOk, [Alloc bytes]) else (c, MMem, [])
      else (c, MOk, [])       (* already digested *)
  | CWorkspace ws ok =>
      if ok then (mkCO ws (co_dictBuf c) (co_cdict c) (co_mt c), MOk, frees (co_ws c) ++ [Alloc ws])
      else (mkCO 0 (co_dictBuf c) (co_cdict c) (co_mt c), MMem, frees (co_ws c))
  | CMtCreate n fs =>
      match co_mt c with
      | Some _ => (c, MSkip, [])
      | None => let '(r, e, _) := mt_create z n fs in
                match r with
                | Some m => (mkCO (co_ws c) (co_dictBuf c) (co_cdict c) (Some m), MOk, e)
                | None => (c, MMem, e)
                end
      end
  | CMtOp o' =>
      match co_mt c with
      | Some m => let '(m', rc, e) := mt_step z m o' in (mkCO (co_ws c) (co_dictBuf c) (co_cdict c) (Some m'), rc, e)
      | None => (c, MSkip, [])
      end
  | CMtDrop =>
      match co_mt c with
      | Some m => (mkCO (co_ws c) (co_dictBuf c) (co_cdict c) None, MOk, mt_free_events z m)
      | None => (c, MOk, [])
      end
  end.

Fixpoint c_run (z : mtsz) (c : cown) (ops : list cop) : cown * list (mrc * list ev) :=
  match ops with
  | [] => (c, [])
  | o :: rest => let '(c1, rc, es) := c_step z c o in let '(c2, outs) := c_run z c1 rest in (c2, (rc, es) :: outs)
  end.

(* ZSTD_sizeof_CCtx of a heap context: the structure + workspace + local dictionary + multithreaded context *)
Definition c_sizeof (z : mtsz) (c : cown) : N :=
  z_cctx z + co_ws c + (co_dictBuf c + co_cdict c) + (match co_mt c with Some m => mt_sizeof z m | None => 0 end).

(* ZSTD_freeCCtx: the multithreaded context first (fix 67f4938: running jobs may still read the dictionaries), the
   dictionaries, the workspace, the structure *)
Definition c_free_events (z : mtsz) (c : cown) : list ev :=
  (match co_mt c with Some m => mt_free_events z m | None => [] end)
  ++ frees (co_dictBuf c) ++ frees (co_cdict c)
  ++ frees (co_ws c) ++ [Free (z_cctx z)].
