(* C14 - estimate_monotone_level: lifting the finite (row x source-size class) sweep to every level pair and
   every source size. *)
From Coq Require Import NArith ZArith List Bool Lia.
From ZV.Gen Require Import Gen_C14.
From ZV.Mem Require Import Cwksp CwkspProofs Estimate EstimateProofs LevelDefs.
Import ListNotations.
Local Open Scope N_scope.
Ltac Zify.zify_post_hook ::= Z.to_euclidean_division_equations.

(* ------------------------------------------------------------------ *)
(* source-size classes *)

Lemma log2_le_iff a b : 0 < a -> (N.log2 a + 1 <= b <-> a < 2 ^ b).
Proof.
  intros Ha. split; intros H.
  - apply N.log2_lt_pow2; lia.
  - apply N.log2_lt_pow2 in H; lia.
Qed.

Lemma srcLog_some s k :
  srcLog_of s 0 = Some k ->
  s <= 2 ^ 30 /\ 6 <= k <= 30 /\ (s <= 2 ^ 14 <-> k <= 14) /\ (s <= 2 ^ 17 <-> k <= 17) /\ (s <= 2 ^ 18 <-> k <= 18).
Proof.
  unfold srcLog_of, maxWindowResize, highbit.
  change (2 ^ (c_ZSTD_WINDOWLOG_MAX - 1)) with (2 ^ 30). change c_ZSTD_HASHLOG_MIN with 6.
  rewrite N.add_0_r.
  destruct (N.leb_spec s (2 ^ 30)) as [H30 | H30]; cbn [andb]; [ | discriminate ].
  change (0 <=? 2 ^ 30) with true. cbv iota.
  destruct (N.ltb_spec s (2 ^ 6)) as [H6 | H6]; intros E; inversion E; subst k; clear E.
  - change (2 ^ 6) with 64 in H6. change (2 ^ 14) with 16384. change (2 ^ 17) with 131072. change (2 ^ 18) with 262144.
    split; [ exact H30 | ]. repeat split; lia.
  - change (2 ^ 6) with 64 in H6.
    assert (Hp : 0 < s - 1) by lia.
    pose proof (log2_le_iff (s - 1) 14 Hp) as L14. pose proof (log2_le_iff (s - 1) 17 Hp) as L17.
    pose proof (log2_le_iff (s - 1) 18 Hp) as L18. pose proof (log2_le_iff (s - 1) 30 Hp) as L30.
    pose proof (log2_le_iff (s - 1) 5 Hp) as L6.
    change (2 ^ 5) with 32 in L6.
    split; [ exact H30 | ].
    split; [ split; [ | apply L30; lia ] | ].
    { destruct (N.le_gt_cases 6 (N.log2 (s - 1) + 1)) as [G | G]; [ exact G | ].
      assert (N.log2 (s - 1) + 1 <= 5 -> False) by (intros X; apply L6 in X; lia). lia. }
    split; [ | split ].
    + split; intros X; [ apply L14; lia | apply L14 in X; lia ].
    + split; intros X; [ apply L17; lia | apply L17 in X; lia ].
    + split; intros X; [ apply L18; lia | apply L18 in X; lia ].
Qed.

Lemma srcLog_none s : srcLog_of s 0 = None -> 2 ^ 30 < s.
Proof.
  unfold srcLog_of, maxWindowResize. change (2 ^ (c_ZSTD_WINDOWLOG_MAX - 1)) with (2 ^ 30).
  destruct (N.leb_spec s (2 ^ 30)); cbn [andb]; [ | intros _; assumption ].
  change (0 <=? 2 ^ 30) with true. discriminate.
Qed.

Lemma cls_in s : In (cls_of s) all_classes.
Proof.
  unfold cls_of, all_classes. destruct (s =? UNKNOWN); [ left; reflexivity | ].
  destruct (srcLog_of s 0) as [k | ] eqn:E; [ | right; left; reflexivity ].
  right; right. apply srcLog_some in E. destruct E as (_ & [K1 K2] & _).
  apply in_map_iff. exists (N.to_nat k). split; [ rewrite N2Nat.id; reflexivity | ].
  apply in_seq. lia.
Qed.

Lemma tier_cls_eq s : s <= UNKNOWN ->
  tier_of_rsize (cparam_rowSize s 0 CpmNoAttachDict) = tier_cls (cls_of s).
Proof.
  intros Hs. unfold cparam_rowSize, cls_of. cbn [N.eqb]. rewrite andb_true_r.
  destruct (N.eqb_spec s UNKNOWN) as [-> | Hne]; [ reflexivity | ].
  cbn [andb]. change (0 <? 0) with false. cbv iota. rewrite !N.add_0_r.
  assert (Hlt : s < 2 ^ 64) by (unfold UNKNOWN in *; change (2 ^ 64) with 18446744073709551616; lia).
  rewrite N.mod_small by exact Hlt.
  unfold tier_of_rsize, tier_cls.
  change (256 * 1024) with (2 ^ 18). change (128 * 1024) with (2 ^ 17). change (16 * 1024) with (2 ^ 14).
  destruct (srcLog_of s 0) as [k | ] eqn:E.
  - apply srcLog_some in E. destruct E as (_ & _ & E14 & E17 & E18).
    destruct (N.leb_spec s (2 ^ 18)), (N.leb_spec k 18), (N.leb_spec s (2 ^ 17)), (N.leb_spec k 17),
             (N.leb_spec s (2 ^ 14)), (N.leb_spec k 14); try reflexivity; exfalso; lia.
  - apply srcLog_none in E.
    assert (2 ^ 18 < 2 ^ 30) by (apply N.pow_lt_mono_r; lia).
    assert (2 ^ 17 < 2 ^ 30) by (apply N.pow_lt_mono_r; lia).
    assert (2 ^ 14 < 2 ^ 30) by (apply N.pow_lt_mono_r; lia).
    destruct (N.leb_spec s (2 ^ 18)), (N.leb_spec s (2 ^ 17)), (N.leb_spec s (2 ^ 14)); try reflexivity; exfalso; lia.
Qed.

Lemma adjust_cls_eq cp s row :
  adjustCParams_internal cp s 0 CpmNoAttachDict row = adjust_cls cp (cls_of s) row.
Proof.
  unfold adjustCParams_internal, adjust_cls, cls_of, dictAndWindowLog. cbn [N.eqb].
  destruct (N.eqb_spec s UNKNOWN) as [-> | Hne]; cbn [negb].
  - reflexivity.
  - destruct (srcLog_of s 0); reflexivity.
Qed.

(* ------------------------------------------------------------------ *)
(* parameters of a session as a function of (row, class) *)

Lemma level_cp_nonneg l tier : (0 <= l)%Z -> level_cp l tier = table_cp tier (level_row l).
Proof. intros H. unfold level_cp. destruct (Z.ltb_spec l 0); [ lia | reflexivity ]. Qed.

Lemma getCParams_cls l s : (0 <= l)%Z -> s <= UNKNOWN ->
  getCParams_internal l s 0 CpmNoAttachDict = adjust_cls (table_cp (tier_cls (cls_of s)) (level_row l)) (cls_of s) PsAuto.
Proof.
  intros Hl Hs. unfold getCParams_internal. rewrite tier_cls_eq by exact Hs.
  rewrite level_cp_nonneg by exact Hl. apply adjust_cls_eq.
Qed.

Lemma simple_params_eq l s : (0 <= l)%Z -> s <= UNKNOWN ->
  simple_params l s = simple_params_cls (level_row l) (cls_of s).
Proof. intros Hl Hs. unfold simple_params, simple_params_cls. rewrite getCParams_cls by assumption. reflexivity. Qed.

Lemma override_zero cp : overrideCParams cp zero_cp = cp.
Proof. destruct cp; reflexivity. Qed.

Lemma stream2_params_eq l s : (0 <= l)%Z -> s <= UNKNOWN ->
  stream2_params (level_pp l) s = stream2_params_cls (level_row l) (cls_of s).
Proof.
  intros Hl Hs. unfold stream2_params, stream2_params_cls, getCParamsFromCCtxParams, level_pp.
  cbn [p_level p_cp p_row p_ldm p_maxBlockSize p_srcSizeHint ldm_enabled ldm_zero ldm_enable ps_eqb].
  change (0 <? 0) with false. rewrite andb_false_r. cbv iota.
  rewrite getCParams_cls by assumption. rewrite override_zero. rewrite adjust_cls_eq.
  reflexivity.
Qed.

(* ------------------------------------------------------------------ *)
(* the need is monotone in the pledged source size *)

Lemma compressBound_mono x y : x <= y -> y <= 128 * 1024 -> compressBound x <= compressBound y.
Proof.
  intros Hxy Hy. unfold compressBound.
  assert (HM : 128 * 1024 < c_ZSTD_MAX_INPUT_SIZE) by reflexivity.
  destruct (N.leb_spec c_ZSTD_MAX_INPUT_SIZE x); [ lia | ]. destruct (N.leb_spec c_ZSTD_MAX_INPUT_SIZE y); [ lia | ].
  destruct (N.ltb_spec x (128 * 1024)), (N.ltb_spec y (128 * 1024)); lia.
Qed.

Lemma aligned64_mono rz x y : x <= y -> aligned64_alloc_size rz x <= aligned64_alloc_size rz y.
Proof. intros. unfold aligned64_alloc_size. apply alloc_size_mono. apply align_up_mono; [ unfold ALIGN; lia | assumption ]. Qed.

Lemma session_need_mono rz cp l row mbs p1 p2 ext buffered inb outb :
  p1 <= p2 -> mbs <= 128 * 1024 ->
  session_need rz (cp, l, row, mbs) p1 ext buffered inb outb <= session_need rz (cp, l, row, mbs) p2 ext buffered inb outb.
Proof.
  intros Hp Hm. unfold session_need, estimate_internal, reset_buffInSize, reset_buffOutSize, windowSize_of.
  set (la := if ldm_enabled l then ldm_adjustParameters l cp else l).
  set (w1 := N.max 1 (N.min (2 ^ wlog cp) p1)). set (w2 := N.max 1 (N.min (2 ^ wlog cp) p2)).
  assert (Hw : w1 <= w2) by (unfold w1, w2; lia).
  set (m := resolveMaxBlockSize mbs).
  set (b1 := N.min m w1). set (b2 := N.min m w2).
  assert (Hb : b1 <= b2) by (unfold b1, b2; lia).
  assert (Hb' : N.min mbs w1 <= N.min mbs w2) by lia.
  assert (Hbm : N.min mbs w2 <= 128 * 1024) by lia.
  cbv zeta.
  assert (T1 : alloc_size rz (c_WILDCOPY_OVERLENGTH + b1) <= alloc_size rz (c_WILDCOPY_OVERLENGTH + b2)) by (apply alloc_size_mono; lia).
  assert (Hseq : maxNbSeq_of b1 (mml cp) ext <= maxNbSeq_of b2 (mml cp) ext).
  { unfold maxNbSeq_of. apply N.div_le_mono; [ destruct (_ || _); lia | exact Hb ]. }
  assert (T2 : aligned64_alloc_size rz (maxNbSeq_of b1 (mml cp) ext * sizeof_seqDef)
               <= aligned64_alloc_size rz (maxNbSeq_of b2 (mml cp) ext * sizeof_seqDef)).
  { apply aligned64_mono. apply N.mul_le_mono_r. exact Hseq. }
  assert (T3 : alloc_size rz (maxNbSeq_of b1 (mml cp) ext) <= alloc_size rz (maxNbSeq_of b2 (mml cp) ext))
    by (apply alloc_size_mono; exact Hseq).
  assert (T4 : (if ldm_enabled la then aligned64_alloc_size rz (ldm_getMaxNbSeq la b1 * sizeof_rawSeq) else 0)
               <= (if ldm_enabled la then aligned64_alloc_size rz (ldm_getMaxNbSeq la b2 * sizeof_rawSeq) else 0)).
  { unfold ldm_getMaxNbSeq. destruct (ldm_enabled la); [ | lia ].
    apply aligned64_mono. apply N.mul_le_mono_r.
    destruct (N.eqb_spec (ldm_minMatch la) 0) as [E | E]; [ rewrite E; destruct b1, b2; cbn; lia | ].
    apply N.div_le_mono; assumption. }
  assert (T5 : (if ext then aligned64_alloc_size rz (sequenceBound b1 * sizeof_ZSTD_Sequence) else 0)
               <= (if ext then aligned64_alloc_size rz (sequenceBound b2 * sizeof_ZSTD_Sequence) else 0)).
  { destruct ext; [ | lia ]. apply aligned64_mono. apply N.mul_le_mono_r. unfold sequenceBound.
    assert (b1 / c_ZSTD_MINMATCH_MIN <= b2 / c_ZSTD_MINMATCH_MIN) by (apply N.div_le_mono; [ discriminate | exact Hb ]).
    assert (b1 / c_ZSTD_BLOCKSIZE_MAX_MIN <= b2 / c_ZSTD_BLOCKSIZE_MAX_MIN) by (apply N.div_le_mono; [ discriminate | exact Hb ]).
    repeat first [ apply N.le_refl | assumption | apply N.add_le_mono ]. }
  assert (T6 : alloc_size rz (if buffered && inb then w1 + N.min mbs w1 else 0)
               <= alloc_size rz (if buffered && inb then w2 + N.min mbs w2 else 0)).
  { apply alloc_size_mono. destruct (buffered && inb); lia. }
  assert (T7 : alloc_size rz (if buffered && outb then compressBound (N.min mbs w1) + 1 else 0)
               <= alloc_size rz (if buffered && outb then compressBound (N.min mbs w2) + 1 else 0)).
  { apply alloc_size_mono. destruct (buffered && outb); [ | lia ].
    pose proof (compressBound_mono _ _ Hb' Hbm). lia. }
  fold w1 w2 b1 b2.
  repeat first [ apply N.le_refl | assumption | apply N.add_le_mono | apply N.mul_le_mono_l ].
Qed.

(* ------------------------------------------------------------------ *)
(* max over the level range *)

Lemma fold_max_ge (f : Z -> N) : forall l acc, acc <= fold_left (fun a x => N.max a (f x)) l acc.
Proof. induction l as [ | x l IH]; intros acc; cbn [fold_left]; [ lia | ]. specialize (IH (N.max acc (f x))). lia. Qed.

Lemma fold_max_in (f : Z -> N) : forall l acc i, In i l -> f i <= fold_left (fun a x => N.max a (f x)) l acc.
Proof.
  induction l as [ | x l IH]; intros acc i Hi; [ destruct Hi | ].
  cbn [fold_left]. destruct Hi as [-> | Hi].
  - pose proof (fold_max_ge f l (N.max acc (f i))). lia.
  - apply IH. exact Hi.
Qed.

Lemma level_range_in i L : (1 <= i <= L)%Z -> In i (level_range L).
Proof.
  intros [H1 H2]. unfold level_range. rewrite Z.min_r by lia.
  apply in_map_iff. exists (Z.to_nat (i - 1)). split; [ lia | ]. apply in_seq. lia.
Qed.

Lemma level_range_self L : In L (level_range L).
Proof.
  unfold level_range. destruct (Z.le_gt_cases 1 L).
  - rewrite Z.min_r by lia. apply in_map_iff. exists (Z.to_nat (L - 1)). split; [ lia | ]. apply in_seq. lia.
  - rewrite Z.min_l by lia. replace (L - L + 1)%Z with 1%Z by lia. left. cbn. lia.
Qed.

Lemma estimateCCtxSize_ge rz i L : In i (level_range L) -> estimateCCtxSize_internal rz i <= estimateCCtxSize rz L.
Proof. intros H. unfold estimateCCtxSize. apply (fold_max_in (estimateCCtxSize_internal rz)). exact H. Qed.
Lemma estimateCStreamSize_ge rz i L : In i (level_range L) -> estimateCStreamSize_internal rz i <= estimateCStreamSize rz L.
Proof. intros H. unfold estimateCStreamSize. apply (fold_max_in (estimateCStreamSize_internal rz)). exact H. Qed.

(* ------------------------------------------------------------------ *)
(* the sweep, and its lifting *)

Lemma sweep_oneshot_0 : sweep_oneshot 0 = true.
Proof. vm_compute. reflexivity. Qed.
Lemma sweep_stream_0 : sweep_stream 0 = true.
Proof. vm_compute. reflexivity. Qed.
Lemma sweep_oneshot_128 : sweep_oneshot 128 = true.
Proof. vm_compute. reflexivity. Qed.
Lemma sweep_stream_128 : sweep_stream 128 = true.
Proof. vm_compute. reflexivity. Qed.

Lemma level_row_in l : (0 <= l)%Z -> In (level_row l) (tl rows) /\ (1 <= Z.of_N (level_row l))%Z /\
  ((1 <= l)%Z -> (Z.of_N (level_row l) <= l)%Z) /\ (l = 0%Z -> level_row l = 3).
Proof.
  intros Hl. unfold level_row. change c_ZSTD_CLEVEL_DEFAULT with 3. change c_ZSTD_MAX_CLEVEL with 22.
  destruct (Z.eqb_spec l 0) as [-> | Hn].
  - split; [ | split; [ lia | split; [ lia | reflexivity ] ] ]. unfold rows. cbn. tauto.
  - destruct (Z.ltb_spec l 0); [ lia | ]. destruct (Z.ltb_spec (Z.of_N 22) l).
    + split; [ unfold rows; cbn; tauto | ]. split; [ lia | split; [ lia | lia ] ].
    + split; [ | split; [ lia | split; [ lia | lia ] ] ].
      unfold rows. change (tl (map N.of_nat (seq 0 23))) with (map N.of_nat (seq 1 22)).
      apply in_map_iff. exists (Z.to_nat l). split; [ lia | apply in_seq; lia ].
Qed.

Definition level_covered (l L : Z) : Prop := (0 <= l <= L)%Z /\ (l = 0%Z -> (3 <= L)%Z).

  Lemma lift_common l L s : level_covered l L -> s <= UNKNOWN ->
    In (level_row l) (tl rows) /\ In (cls_of s) all_classes /\ In (Z.of_N (level_row l)) (level_range L).
  Proof.
    intros [[H0 HL] H3] Hs. destruct (level_row_in l H0) as (R1 & R2 & R3 & R4).
    split; [ exact R1 | ]. split; [ apply cls_in | ].
    apply level_range_in. split; [ exact R2 | ].
    destruct (Z.eq_dec l 0) as [E | E]; [ rewrite (R4 E); specialize (H3 E); lia | ]. specialize (R3 ltac:(lia)). lia.
  Qed.

  Lemma estimate_covers_levels_oneshot rz l L s : sweep_oneshot rz = true -> level_covered l L -> s <= UNKNOWN ->
    need_simple rz l s <= estimateCCtxSize rz L /\ need_compress2 rz l s <= estimateCCtxSize rz L.
  Proof.
    intros SO HC Hs. destruct (lift_common l L s HC Hs) as (R & C & I). destruct HC as [[H0 _] _].
    unfold sweep_oneshot in SO. rewrite forallb_forall in SO. specialize (SO _ R).
    rewrite forallb_forall in SO. specialize (SO _ C). apply andb_true_iff in SO. destruct SO as [S1 S2].
    apply N.leb_le in S1. apply N.leb_le in S2.
    pose proof (estimateCCtxSize_ge rz _ L I) as G.
    split.
    - unfold need_simple. rewrite simple_params_eq by assumption. unfold simple_params_cls.
      eapply N.le_trans; [ apply session_need_mono; [ exact Hs | reflexivity ] | ].
      unfold need_simple_cls, simple_params_cls in S1. lia.
    - unfold need_compress2. rewrite stream2_params_eq by assumption. unfold stream2_params_cls.
      eapply N.le_trans; [ apply session_need_mono; [ exact Hs | reflexivity ] | ].
      unfold need_compress2_cls, stream2_params_cls in S2. lia.
  Qed.

  Lemma estimate_covers_levels_stream rz l L s : sweep_stream rz = true -> level_covered l L -> s <= UNKNOWN ->
    need_stream rz l s <= estimateCStreamSize rz L.
  Proof.
    intros SS HC Hs. destruct (lift_common l L s HC Hs) as (R & C & I). destruct HC as [[H0 _] _].
    unfold sweep_stream in SS. rewrite forallb_forall in SS. specialize (SS _ R).
    rewrite forallb_forall in SS. specialize (SS _ C). apply N.leb_le in SS.
    pose proof (estimateCStreamSize_ge rz _ L I) as G.
    unfold need_stream. rewrite stream2_params_eq by assumption. unfold stream2_params_cls.
    eapply N.le_trans; [ apply session_need_mono; [ exact Hs | reflexivity ] | ].
    unfold need_stream_cls, stream2_params_cls in SS. lia.
  Qed.

(* ------------------------------------------------------------------ *)
(* CCtx_params estimators: exactly the need of a session whose source size is unknown (tier-consistent case) *)

Lemma resolve_idem m : resolveMaxBlockSize (resolveMaxBlockSize m) = resolveMaxBlockSize m.
Proof. unfold resolveMaxBlockSize. destruct (N.eqb_spec m 0); [ reflexivity | ]. destruct (N.eqb_spec m 0); [ contradiction | reflexivity ]. Qed.

Lemma estimate_internal_resolve rz cp l st row bi bo pl ext m :
  estimate_internal rz cp l st row bi bo pl ext (resolveMaxBlockSize m) = estimate_internal rz cp l st row bi bo pl ext m.
Proof. unfold estimate_internal. rewrite resolve_idem. reflexivity. Qed.

Lemma ccparams_estimate_is_need_unknown rz p :
  p_nbWorkers p = 0 ->
  estimateCCtxSize_usingCCtxParams rz p
  = Some (session_need rz (stream2_params p UNKNOWN) UNKNOWN (p_extSeq p) true false false).
Proof.
  intros Hw. unfold estimateCCtxSize_usingCCtxParams, session_need, stream2_params, resolveLdmParamsForEstimate.
  rewrite Hw. change (0 <? 0) with false. cbv iota.
  unfold reset_buffInSize, reset_buffOutSize. cbn [andb]. rewrite estimate_internal_resolve.
  unfold ldm_with_enable, ldm_enabled. cbn [ldm_enable]. reflexivity.
Qed.

Lemma cstream_estimate_is_need_unknown rz p :
  p_nbWorkers p = 0 ->
  wlog (getCParamsFromCCtxParams p UNKNOWN 0 CpmNoAttachDict) <= 63 ->
  estimateCStreamSize_usingCCtxParams rz p
  = Some (session_need rz (stream2_params p UNKNOWN) UNKNOWN (p_extSeq p) true (p_inBuffered p) (p_outBuffered p)).
Proof.
  intros Hw H63. unfold estimateCStreamSize_usingCCtxParams, session_need, stream2_params, resolveLdmParamsForEstimate.
  rewrite Hw. change (0 <? 0) with false. cbv iota.
  set (cp := getCParamsFromCCtxParams p UNKNOWN 0 CpmNoAttachDict) in *.
  assert (Hp : 2 ^ wlog cp <= UNKNOWN).
  { assert (2 ^ wlog cp <= 2 ^ 63) by (apply N.pow_le_mono_r; lia).
    unfold UNKNOWN. change (2 ^ 63) with 9223372036854775808 in H. lia. }
  assert (Hp1 : 1 <= 2 ^ wlog cp) by (pose proof (N.pow_nonzero 2 (wlog cp)); lia).
  unfold reset_buffInSize, reset_buffOutSize. cbn [andb].
  rewrite (N.min_l _ _ Hp). rewrite (N.max_r _ _ Hp1).
  rewrite estimate_internal_resolve.
  unfold ldm_with_enable, ldm_enabled. cbn [ldm_enable]. reflexivity.
Qed.

(* the cross-tier statement is false (known finding C14-ccparams-level-tier): level 1 + maxBlockSize 1024,
   source of 16 KiB: the need of ZSTD_compress2 exceeds ZSTD_estimateCCtxSize_usingCCtxParams *)
Definition tier_witness_pp : cctxparams := mkPP 1 zero_cp PsAuto (ldm_zero PsAuto) 1024 false true true 0 0.
Lemma ccparams_level_tier_refuted_l :
  exists e, estimateCCtxSize_usingCCtxParams 0 tier_witness_pp = Some e /\
            e < session_need 0 (stream2_params tier_witness_pp 16384) 16384 false true false false.
Proof. eexists. split; [ vm_compute; reflexivity | vm_compute; reflexivity ]. Qed.
