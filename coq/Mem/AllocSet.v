(* C13 - set-wise (collecting) version of the ownership analysis of AllocDsl.v.
   [aexec] of AllocDsl.v analyses one abstract state at a time, so the continuation of a sequence is re-analysed
   once per PATH; [aexecS] pushes a whole SET of abstract states through the program and merges equal states at
   the join points (hashed sets), which is what makes the multi-call / all-history instances tractable.
   Primitive constructs are delegated to [aexec].  Analysis only: NO proofs in this file. *)
From Coq Require Import NArith List Bool Arith FMapPositive.
From ZV.Mem Require Import AllocDsl.
Import ListNotations.

(* ------------------------------------------------------------------ equality with early exit (vm_compute is strict:
   [&&] would always traverse both stores completely) *)
Fixpoint store_eqb' {A} (eqb : A -> A -> bool) (m1 m2 : store A) : bool :=
  match m1, m2 with
  | [], [] => true
  | (k1, v1) :: r1, (k2, v2) :: r2 =>
      if N.eqb k1 k2 then (if eqb v1 v2 then store_eqb' eqb r1 r2 else false) else false
  | _, _ => false
  end.
Definition aeqb (a b : astate) : bool :=
  if Bool.eqb (astatus a) (astatus b) then
  if Bool.eqb (afailed a) (afailed b) then
  if store_eqb' aval_eqb (aslots a) (aslots b) then
  if store_eqb' fval_eqb (afams a) (afams b) then store_eqb' Bool.eqb (aflags a) (aflags b)
  else false else false else false else false.

(* ------------------------------------------------------------------ normal form: bindings to the default value are
   dropped (a slot that was never written and a slot that was set to NULL are the same abstract fact).  Only done
   when the keys are strictly increasing (always the case for stores built by [set]); otherwise the store is kept. *)
Fixpoint sortedb {A} (m : store A) : bool :=
  match m with
  | (k1, _) :: (((k2, _) :: _) as r) => if N.ltb k1 k2 then sortedb r else false
  | _ => true
  end.
Definition norm_store {A} (nd : A -> bool) (m : store A) : store A :=
  if sortedb m then filter (fun kv => nd (snd kv)) m else m.
Definition nd_aval (v : aval) : bool := match v with ANull => false | _ => true end.
Definition nd_fval (v : fval) : bool := match v with FEmpty => false | _ => true end.
Definition nd_bool (v : bool) : bool := v.
Definition anorm (a : astate) : astate :=
  mkA (norm_store nd_aval (aslots a)) (norm_store nd_fval (afams a)) (norm_store nd_bool (aflags a)) (astatus a) (afailed a).

(* ------------------------------------------------------------------ hashed sets of abstract states.
   The key is any function of the state (here: keys and values, as bits of a positive); buckets are compared exactly. *)
Fixpoint push_pos (k : positive) (acc : positive) : positive :=
  match k with
  | xH => xI (xI acc)
  | xO k' => push_pos k' (xO (xO acc))
  | xI k' => push_pos k' (xI (xO acc))
  end.
Definition push_N (k : N) (acc : positive) : positive :=
  match k with N0 => xO (xI acc) | Npos p => push_pos p acc end.
Fixpoint key_slots (m : store aval) (acc : positive) : positive :=
  match m with
  | [] => acc
  | (k, v) :: r => key_slots r (push_N k (match v with ANull => xO (xO acc) | AOwn => xI (xO acc) | ADang => xO (xI acc) end))
  end.
Fixpoint key_fams (m : store fval) (acc : positive) : positive :=
  match m with
  | [] => acc
  | (k, v) :: r => key_fams r (push_N k (match v with FEmpty => xO (xO acc) | FOwn => xI (xO acc) | FDang => xO (xI acc) end))
  end.
Fixpoint key_flags (m : store bool) (acc : positive) : positive :=
  match m with
  | [] => acc
  | (k, v) :: r => key_flags r (push_N k (if v then xI acc else xO acc))
  end.
Definition akey (a : astate) : positive :=
  key_flags (aflags a) (key_fams (afams a) (key_slots (aslots a)
    (match astatus a, afailed a with true, true => 4 | true, false => 5 | false, true => 6 | false, false => 7 end)%positive)).

Definition hset := PositiveMap.t (list astate).
Definition hmem (a : astate) (H : hset) : bool :=
  match PositiveMap.find (akey a) H with Some b => existsb (aeqb a) b | None => false end.
Definition hadd (a : astate) (H : hset) : hset :=
  let h := akey a in
  match PositiveMap.find h H with Some b => PositiveMap.add h (a :: b) H | None => PositiveMap.add h [a] H end.
Definition hbuild (St : list astate) : hset := fold_left (fun H a => hadd a H) St (PositiveMap.empty _).

(* the members of L that are not in H (nor earlier in L), in order; H grows along the way *)
Fixpoint hfresh (H : hset) (L : list astate) : list astate :=
  match L with
  | [] => []
  | a :: L' => if hmem a H then hfresh H L' else a :: hfresh (hadd a H) L'
  end.
Definition sdedup (St : list astate) : list astate := hfresh (PositiveMap.empty _) (map anorm St).

(* ------------------------------------------------------------------ the analysis *)
Definition res := (list astate * list astate)%type.     (* (normal successors, states that executed a Return) *)

(* join of the two branches of a test; nothing to merge when one side is empty *)
Definition join (N1 N2 : list astate) : list astate :=
  match N1, N2 with
  | [], _ => N2
  | _, [] => N1
  | _, _ => sdedup (N1 ++ N2)
  end.
Definition both (x y : option res) : option res :=
  match x, y with
  | Some (N1, R1), Some (N2, R2) => Some (join N1 N2, R1 ++ R2)
  | _, _ => None
  end.

Definition is_null (v : aval) : bool := match v with ANull => true | _ => false end.
Definition is_own (v : aval) : bool := match v with AOwn => true | _ => false end.
Definition f_is_dang (v : fval) : bool := match v with FDang => true | _ => false end.
Definition f_is_own (v : fval) : bool := match v with FOwn => true | _ => false end.

(* candidate closure of [C] under [f] (worklist); only a candidate: [aexecS] re-checks it *)
Fixpoint closure (fuel : nat) (f : list astate -> option res) (H : hset) (C front : list astate) : option (list astate) :=
  match fuel with
  | O => None
  | S fuel' =>
      match front with
      | [] => Some C
      | _ => match f front with
             | None => None
             | Some (N, _) =>
                 let fresh := hfresh H (map anorm N) in
                 closure fuel' f (fold_left (fun H a => hadd a H) fresh H) (C ++ fresh) fresh
             end
      end
  end.

Fixpoint aexecS (fuel : nat) (canfail : bool) (p : prog) (St : list astate) : option res :=
  match St with
  | [] => Some ([], [])
  | _ :: _ =>
    match p with
    | Seq p q =>
        match aexecS fuel canfail p St with
        | None => None
        | Some (N1, R1) =>
            match aexecS fuel canfail q N1 with
            | None => None
            | Some (N2, R2) => Some (N2, R1 ++ R2)
            end
        end
    | IfNull l p q =>
        both (aexecS fuel canfail p (filter (fun a => is_null (aget a l)) St))
             (aexecS fuel canfail q (filter (fun a => negb (is_null (aget a l))) St))
    | IfFlag f p q =>
        both (aexecS fuel canfail p (filter (fun a => aflget a f) St))
             (aexecS fuel canfail q (filter (fun a => negb (aflget a f)) St))
    | IfErr p q =>
        both (aexecS fuel canfail p (filter (fun a => negb (astatus a)) St))
             (aexecS fuel canfail q (filter (fun a => astatus a) St))
    | Choice _ p q => both (aexecS fuel canfail p St) (aexecS fuel canfail q St)
    | IfEmpty f p q =>
        if existsb (fun a => f_is_dang (afget a f)) St then None else
        both (aexecS fuel canfail p (map (fun a => afset a f FEmpty) St))
             (aexecS fuel canfail q (filter (fun a => f_is_own (afget a f)) St))
    | PopElse f l p q =>
        if existsb (fun a => f_is_dang (afget a f) || is_own (aget a l)) St then None else
        both (aexecS fuel canfail p (map (fun a => afset a f FEmpty) St))
             (aexecS fuel canfail q (map (fun a => aset a l AOwn) (filter (fun a => f_is_own (afget a f)) St)))
    | Call _ p =>
        match aexecS fuel canfail p (map (fun a => astset a true) St) with
        | None => None
        | Some (N, R) => Some (sdedup (N ++ R), [])
        end
    | Star p =>
        let S0 := sdedup St in
        match closure fuel (aexecS fuel canfail p) (hbuild S0) S0 S0 with
        | None => None
        | Some C =>
            match aexecS fuel canfail p C with
            | None => None
            | Some (N, R) => let H := hbuild C in if forallb (fun a => hmem (anorm a) H) N then Some (C, sdedup R) else None
            end
        end
    | _ =>
        match star_round (aexec fuel canfail p) St with
        | None => None
        | Some (N, R) => Some (N, map fst R)
        end
    end
  end.

(* ------------------------------------------------------------------ checks used by the instance theorems *)
Definition all_res (P : astate -> bool) (r : option res) : bool :=
  match r with None => false | Some (N, R) => forallb P N && forallb P R end.

(* the analysis accepts p from a and every final abstract state satisfies P *)
Definition acheckS (fuel : nat) (P : astate -> bool) (p : prog) (a : astate) : bool :=
  all_res P (aexecS fuel true p [a]).

(* from every final state of [first] (any failures), [again] without failures is accepted and ends in P *)
Definition areusableS (fuel : nat) (first again : prog) (a : astate) (P : astate -> bool) : bool :=
  match aexecS fuel true first [a] with
  | None => false
  | Some (N, R) => all_res P (aexecS fuel false again (sdedup (N ++ R)))
  end.

(* St is closed under p (any failures) and every successor satisfies P *)
Definition closedS (fuel : nat) (St : list astate) (P : astate -> bool) (p : prog) : bool :=
  let H := hbuild St in all_res (fun a => hmem (anorm a) H && P (anorm a)) (aexecS fuel true p St).
(* the same for one step of a history: the status registers are read (P) and then reset ([Forget]) by the caller *)
Definition aforget (a : astate) : astate := mkA (aslots a) (afams a) (aflags a) true false.
Definition closedSF (fuel : nat) (St : list astate) (P : astate -> bool) (p : prog) : bool :=
  let H := hbuild St in all_res (fun a => hmem (anorm (aforget a)) H && P a) (aexecS fuel true p St).
(* from every member of St, p without failures ends in P *)
Definition recoverS (fuel : nat) (St : list astate) (P : astate -> bool) (p : prog) : bool :=
  all_res P (aexecS fuel false p St).

(* abstract states reachable from a by repeating p *)
Definition reachS (fuel : nat) (p : prog) (a : astate) : option (list astate) :=
  closure fuel (aexecS fuel true p) (hbuild [anorm a]) [anorm a] [anorm a].
(* ... by repeating (p ; Forget) *)
Definition reachSF (fuel : nat) (p : prog) (a : astate) : option (list astate) :=
  closure fuel (fun St => match aexecS fuel true p St with Some (N, R) => Some (map aforget (N ++ R), []) | None => None end)
          (hbuild [anorm a]) [anorm a] [anorm a].

(* ... by repeating (any program of the list ; Forget): the programs are run one after the other on the front *)
Fixpoint run_each (fuel : nat) (ps : list prog) (St : list astate) (acc : list astate) : option (list astate) :=
  match ps with
  | [] => Some acc
  | p :: r => match aexecS fuel true p St with
              | None => None
              | Some (N, R) => run_each fuel r St (rev_append (map aforget N) (rev_append (map aforget R) acc))
              end
  end.
Definition reachSL (fuel : nat) (ps : list prog) (a : astate) : option (list astate) :=
  closure fuel (fun St => match run_each fuel ps St [] with Some N => Some (N, []) | None => None end)
          (hbuild [anorm a]) [anorm a] [anorm a].
